(* ExTokName.v — NAME tokens of the lexer model are names and not keywords (pname_ok): had the text been one of the
   case-insensitive words, the earlier rule TRUE/FALSE/NULL, which matches the same length, would have won. *)
From Coq Require Import List NArith Bool Arith Lia.
From Verif Require Import lib.Quote model.ExSyntax model.ExLexer model.ExParser model.ExPrinter gen.GrammarE3
  proofs.QuoteProofs proofs.ExLexerProofs proofs.ExPrintProofs proofs.ExRoundtrip proofs.ExTokok proofs.ExRender proofs.ExGlue.
Import ListNotations.
Open Scope N_scope.

(* the winner is the FIRST rule that reaches the maximal length *)
Lemma best_rule_first : forall rules inp best k sh n,
  match best with Some (_, _, m) => (1 <= m)%nat | None => True end ->
  best_rule rules inp best = Some (k, sh, n) ->
  (1 <= n)%nat /\
  (best = Some (k, sh, n) \/
   exists r1 r2, rules = r1 ++ (k, sh) :: r2 /\ match_shape sh inp = Some n /\
                 Forall (fun r => (mlen (snd r) inp < n)%nat) r1 /\
                 match best with Some (_, _, m) => (m < n)%nat | None => True end).
Proof.
  induction rules as [|[k0 sh0] r IH]; intros inp best k sh n Hb H.
  - cbn in H. subst best. split; [exact Hb|left; reflexivity].
  - cbn [best_rule] in H.
    set (best' := match match_shape sh0 inp with
                  | Some (S m) => match best with
                                  | Some (_, _, m1) => if Nat.ltb m1 (S m) then Some (k0, sh0, S m) else best
                                  | None => Some (k0, sh0, S m)
                                  end
                  | _ => best
                  end) in *.
    assert (Hb' : match best' with Some (_, _, m) => (1 <= m)%nat | None => True end).
    { unfold best'. destruct (match_shape sh0 inp) as [[|m]|]; try exact Hb.
      destruct best as [[[k1 s1] m1]|]; [destruct (Nat.ltb m1 (S m)); [lia|exact Hb]|lia]. }
    destruct (IH _ _ _ _ _ Hb' H) as [Hn [E|(r1 & r2 & -> & Hm & Hf & Hlt)]]; split; try exact Hn.
    + (* the winner is best' *)
      unfold best' in E. destruct (match_shape sh0 inp) as [[|m]|] eqn:EM; try (left; exact E).
      destruct best as [[[k1 s1] m1]|].
      * destruct (Nat.ltb_spec m1 (S m)) as [Hlt|Hge]; [|left; exact E]. inversion E; subst.
        right. exists [], r. split; [reflexivity|]. split; [exact EM|]. split; [constructor|exact Hlt].
      * inversion E; subst. right. exists [], r. split; [reflexivity|]. split; [exact EM|]. split; [constructor|exact I].
    + right. exists ((k0, sh0) :: r1), r2. split; [reflexivity|]. split; [exact Hm|].
      unfold best' in Hlt.
      assert (Hboth : (mlen sh0 inp < n)%nat /\ match best with Some (_, _, m) => (m < n)%nat | None => True end).
      { unfold mlen. destruct (match_shape sh0 inp) as [[|m]|] eqn:EM.
        - split; [lia|exact Hlt].
        - destruct best as [[[k1 s1] m1]|].
          + destruct (Nat.ltb_spec m1 (S m)); split; lia.
          + split; [lia|exact I].
        - split; [lia|exact Hlt]. }
      destruct Hboth as [H1 H2]. split; [constructor; [exact H1|exact Hf]|exact H2].
Qed.

Lemma split_unique {A} (x : A) : forall a b a' b', a ++ x :: b = a' ++ x :: b' -> ~ In x a -> ~ In x a' -> a = a'.
Proof.
  induction a as [|y a IH]; intros b a' b' H Ha Ha'.
  - destruct a' as [|y' a'']; [reflexivity|]. cbn [app] in H. inversion H; subst. exfalso. apply Ha'. left; reflexivity.
  - destruct a' as [|y' a''].
    + cbn [app] in H. inversion H; subst. exfalso. apply Ha. left; reflexivity.
    + cbn [app] in H. inversion H; subst. f_equal. eapply IH; [eassumption| |].
      * intros Hx; apply Ha; right; exact Hx.
      * intros Hx; apply Ha'; right; exact Hx.
Qed.

Lemma name_not_before : ~ In (NAME, SName) (firstn name_index lexer_rules).
Proof.
  intros H. pose proof before_name_shapes as Hb. rewrite forallb_forall in Hb. apply Hb in H. discriminate.
Qed.

Lemma kw_rules_before : forall k s, In (k, SCi s) lexer_rules -> In (k, SCi s) (firstn name_index lexer_rules).
Proof.
  intros k s H. rewrite rules_split_name in H. apply in_app_or in H. destruct H as [H|[H|H]]; [exact H|discriminate|].
  pose proof after_name_shapes as Ha. rewrite forallb_forall in Ha. apply Ha in H. discriminate.
Qed.

Lemma name_lexeme_firstn c r : name_start c = true -> name_lexeme (firstn (S (span_len name_char r)) (c :: r)) = true.
Proof.
  intros H. cbn [firstn name_lexeme]. rewrite H. cbn [andb]. apply span_firstn_all.
Qed.

(* stated for an arbitrary rule table (so that the kernel never unfolds the grammar table while checking it): what
   the table must satisfy is passed in as hypotheses *)
Lemma lex_one_best (rules : list (kind * shape)) inp k skip lexeme rest :
  lex_one_with rules inp = Some (k, skip, lexeme, rest) ->
  exists sh n, best_rule rules inp None = Some (k, sh, n) /\ lexeme = firstn n inp /\ rest = skipn n inp.
Proof.
  unfold lex_one_with. destruct (best_rule rules inp None) as [[[k' sh] n]|]; [|discriminate].
  intros H; inversion H; subst. exists sh, n. auto.
Qed.

Lemma name_ok_gen (rules r1' r2' : list (kind * shape)) (words : list text) inp sh n :
  rules = r1' ++ (NAME, SName) :: r2' -> ~ In (NAME, SName) r1' ->
  (forall sh', In (NAME, sh') rules -> sh' = SName) ->
  (forall s, In s words -> exists k', In (k', SCi s) r1') ->
  best_rule rules inp None = Some (NAME, sh, n) ->
  name_lexeme (firstn n inp) = true /\
  existsb (fun s => Nat.eqb (length s) (length (firstn n inp)) && match m_ci s (firstn n inp) with Some _ => true | None => false end) words = false.
Proof.
  intros Hsplit0 Hnot Hname Hwords E.
  destruct (best_rule_first rules inp None NAME sh n I E) as [Hn [Hx|(r1 & r2 & Hsplit & Hm & Hf & _)]]; [discriminate|].
  assert (Hsh : sh = SName).
  { apply Hname. rewrite Hsplit. apply in_or_app. right. left. reflexivity. }
  subst sh.
  assert (Hr1 : r1 = r1').
  { rewrite Hsplit0 in Hsplit. symmetry in Hsplit.
    eapply split_unique; [exact Hsplit| |exact Hnot].
    intros Hin. rewrite Forall_forall in Hf. apply Hf in Hin. unfold mlen in Hin. cbn [snd] in Hin. rewrite Hm in Hin. lia. }
  subst r1. cbn [match_shape] in Hm. unfold m_name in Hm. destruct inp as [|c r]; [discriminate|].
  destruct (name_start c) eqn:Ec; [|discriminate]. inversion Hm; subst n. clear Hm.
  split; [apply name_lexeme_firstn; exact Ec|].
  set (lx := firstn (S (span_len name_char r)) (c :: r)) in *.
  destruct (existsb (fun s => Nat.eqb (length s) (length lx) && match m_ci s lx with Some _ => true | None => false end) words) eqn:EK; [|reflexivity]. exfalso.
  apply existsb_exists in EK. destruct EK as (s & Hs & EK).
  apply andb_prop in EK. destruct EK as [Elen Eci]. apply Nat.eqb_eq in Elen.
  destruct (Hwords s Hs) as [k' Hbefore]. rewrite Forall_forall in Hf. specialize (Hf _ Hbefore).
  unfold mlen in Hf. cbn [snd match_shape] in Hf.
  assert (Hinp : c :: r = lx ++ skipn (S (span_len name_char r)) (c :: r)) by (symmetry; apply firstn_skipn).
  destruct (m_ci s lx) as [m|] eqn:Em; [|discriminate].
  pose proof (m_ci_len _ _ _ Em) as ->.
  rewrite Hinp, m_ci_app in Hf by lia. rewrite Em in Hf.
  assert (Hl : length lx = S (span_len name_char r)).
  { unfold lx. rewrite firstn_length. cbn [length].
    assert (span_len name_char r <= length r)%nat.
    { clear. induction r as [|x r IH]; [cbn; lia|]. cbn [span_len length]. destruct (name_char x); lia. }
    lia. }
  lia.
Qed.

Lemma kw_words_before : forall s, In s kw_words -> exists k', In (k', SCi s) (firstn name_index lexer_rules).
Proof.
  intros s Hs. unfold kw_words in Hs. apply in_flat_map in Hs. destruct Hs as ([k' sh'] & Hin & Hs'). cbn [snd] in Hs'.
  destruct sh' as [| s' | | | | | |]; try contradiction. destruct Hs' as [<-|[]].
  exists k'. apply kw_rules_before. exact Hin.
Qed.

(* a NAME token is a name and no keyword *)
Theorem lex_one_name_ok inp skip lexeme rest :
  lex_one inp = Some (NAME, skip, lexeme, rest) -> pname_ok lexeme = true.
Proof.
  intros H. rewrite lex_one_unfold in H. apply lex_one_best in H. destruct H as (sh & n & E & -> & _).
  destruct (name_ok_gen lexer_rules (firstn name_index lexer_rules) (skipn (S name_index) lexer_rules) kw_words inp sh n
              rules_split_name name_not_before rule_name kw_words_before E) as [H1 H2].
  unfold pname_ok, is_keyword. rewrite H1, H2. reflexivity.
Qed.

Definition tokname (t : token) : Prop := tk t = NAME -> pname_ok (tx t) = true.

Theorem lex_tokname : forall inp ts, lex inp = LOk ts -> Forall tokname ts.
Proof.
  intros inp. remember (length inp) as len eqn:Hlen. revert inp Hlen.
  induction len as [len IH] using lt_wf_ind. intros inp Hlen ts H.
  destruct inp as [|c inp']; [inversion H; constructor|].
  apply lex_cons_inv in H. destruct H as (k & skip & lexeme & rest & ts' & E & E2 & ->).
  destruct (lex_one_shorter _ _ _ _ _ E) as [Hs _].
  assert (Hts' : Forall tokname ts') by (apply (IH (length rest) ltac:(subst len; exact Hs) rest eq_refl ts' E2)).
  destruct skip; [exact Hts'|]. constructor; [|exact Hts'].
  unfold tokname. cbn [tk tx]. intros ->. eapply lex_one_name_ok. exact E.
Qed.

(* ---------------------------------------------------------------------------------------------- *)
(* the names the parser copies from tokens into the tree: parameters and non-numeric lookups *)

Fixpoint src_ok (e : expr) : bool :=
  match e with
  | EDot c l => src_ok c && (all_digits l || pname_ok l)
  | EIndex c l => src_ok c && src_ok l
  | ECall f ps => src_ok f && forallb src_ok ps
  | EAnon a b => forallb pname_ok a && src_ok b
  | EBin _ a b => src_ok a && src_ok b
  | ENeg a => src_ok a
  | EParen a => src_ok a
  | _ => true
  end.

(* condition (i) restricted to what is NOT guaranteed: the lower-cased context references *)
Fixpoint refs_ok (lower : N -> N) (e : expr) : bool :=
  match e with
  | ECtxRef n => pname_ok (map lower n)
  | EDot c _ => refs_ok lower c
  | EIndex c l => refs_ok lower c && refs_ok lower l
  | ECall f ps => refs_ok lower f && forallb (refs_ok lower) ps
  | EAnon _ b => refs_ok lower b
  | EBin _ a b => refs_ok lower a && refs_ok lower b
  | ENeg a => refs_ok lower a
  | EParen a => refs_ok lower a
  | _ => true
  end.

Lemma names_ok_split lower : forall e, refs_ok lower e = true -> src_ok e = true -> names_ok lower e = true.
Proof.
  induction e as [n|c l IHc|c l IHc IHl|f ps IHf IHps|a b IHb|o a b IHa IHb|a IHa|a IHa|v|l|b|] using expr_ind';
    cbn [refs_ok src_ok names_ok]; intros Hr Hs; try reflexivity; try assumption.
  - apply andb_prop in Hs. destruct Hs as [H1 H2]. rewrite (IHc Hr H1), H2. reflexivity.
  - apply andb_prop in Hr. apply andb_prop in Hs. destruct Hr as [R1 R2]. destruct Hs as [S1 S2].
    rewrite (IHc R1 S1), (IHl R2 S2). reflexivity.
  - apply andb_prop in Hr. apply andb_prop in Hs. destruct Hr as [R1 R2]. destruct Hs as [S1 S2].
    rewrite (IHf R1 S1). cbn [andb].
    induction IHps as [|x r Hx Hr' IH]; [reflexivity|]. cbn [forallb] in *.
    apply andb_prop in R2. apply andb_prop in S2. destruct R2 as [R3 R4]. destruct S2 as [S3 S4].
    rewrite (Hx R3 S3), (IH R4 S4). reflexivity.
  - apply andb_prop in Hs. destruct Hs as [S1 S2]. rewrite S1, (IHb Hr S2). reflexivity.
  - apply andb_prop in Hr. apply andb_prop in Hs. destruct Hr as [R1 R2]. destruct Hs as [S1 S2].
    rewrite (IHa R1 S1), (IHb R2 S2). reflexivity.
  - apply IHa; assumption.
  - apply IHa; assumption.
Qed.

(* the names anon_head returns are texts of NAME tokens of its input *)
Lemma anon_head_src : forall ts names rest, anon_head ts = Some (names, rest) ->
  Forall (fun t => tk t = NAME -> pname_ok (tx t) = true) ts -> forallb pname_ok names = true.
Proof.
  intros ts. remember (length ts) as len eqn:Hlen. revert ts Hlen.
  induction len as [len IHn] using lt_wf_ind. intros ts Hlen names rest H HF.
  destruct ts as [|n [|t2 r]]; try discriminate. cbn [anon_head] in H.
  destruct (is_k NAME n) eqn:EN; [|discriminate]. apply is_k_eq in EN.
  inversion HF as [|? ? Hn HF1]; subst. inversion HF1 as [|? ? _ HF2]; subst.
  destruct (is_k COMMA t2).
  - destruct (anon_head r) as [[ns r']|] eqn:EA; [|discriminate]. inversion H; subst.
    cbn [forallb]. rewrite (Hn EN). cbn [andb].
    apply (IHn (length r) ltac:(cbn [length]; lia) r eq_refl ns rest EA HF2).
  - destruct (is_k RPAREN t2); [|discriminate]. destruct r as [|a r']; [discriminate|].
    destruct (is_k ARROW a); [|discriminate]. inversion H; subst. cbn [forallb]. rewrite (Hn EN). reflexivity.
Qed.

(* ---------------------------------------------------------------------------------------------- *)
(* the trees the parser builds: the names it copies are those of NAME tokens *)
From Verif Require Import proofs.ExTreeWf.

Definition tokn (t : token) : Prop := tokok t /\ tokname t.

Lemma suffix_n r ts : suffix r ts -> Forall tokn ts -> Forall tokn r.
Proof. intros [pre ->] H. apply Forall_app in H. tauto. Qed.

Definition V_expr (fuel : nat) : Prop := forall p ts t r,
  Forall tokn ts -> p_expr fuel p ts = PR (t, r) -> src_ok t = true /\ suffix r ts.
Definition V_binloop (fuel : nat) : Prop := forall p lhs ts t r,
  Forall tokn ts -> src_ok lhs = true -> p_binloop fuel p lhs ts = PR (t, r) -> src_ok t = true /\ suffix r ts.
Definition V_primary (fuel : nat) : Prop := forall ts t r,
  Forall tokn ts -> p_primary fuel ts = PR (t, r) -> src_ok t = true /\ suffix r ts.
Definition V_atom (fuel : nat) : Prop := forall ts t r,
  Forall tokn ts -> p_atom fuel ts = PR (t, r) -> src_ok t = true /\ suffix r ts.
Definition V_postfix (fuel : nat) : Prop := forall a ts t r,
  Forall tokn ts -> src_ok a = true -> p_postfix fuel a ts = PR (t, r) -> src_ok t = true /\ suffix r ts.
Definition V_params (fuel : nat) : Prop := forall ts es r,
  Forall tokn ts -> p_params fuel ts = PR (es, r) -> forallb src_ok es = true /\ suffix r ts.

Lemma lit_src l t : src_ok (mk_lit l t) = true.
Proof. destruct l; reflexivity. Qed.

Lemma step_V f : V_expr f -> V_binloop f -> V_primary f -> V_atom f -> V_postfix f -> V_params f ->
  V_expr (S f) /\ V_binloop (S f) /\ V_primary (S f) /\ V_atom (S f) /\ V_postfix (S f) /\ V_params (S f).
Proof.
  intros HE HB HP HA HPo HPa.
  assert (TE : V_expr (S f)).
  { intros p ts t r Hok H. rewrite p_expr_eq in H.
    destruct (p_primary f ts) as [[e r0]| |] eqn:E1; try discriminate.
    destruct (HP _ _ _ Hok E1) as [S1 X1].
    destruct (HB _ _ _ _ _ (suffix_n _ _ X1 Hok) S1 H) as [S2 X2].
    split; [exact S2|exact (suffix_trans _ _ _ X2 X1)]. }
  assert (TB : V_binloop (S f)).
  { intros p lhs ts t r Hok Hl H. rewrite p_binloop_eq in H.
    destruct ts as [|t0 r0]; [inversion H; subst; split; [exact Hl|apply suffix_refl]|].
    destruct (binop_of (tk t0)) as [[prec l]|]; [|inversion H; subst; split; [exact Hl|apply suffix_refl]].
    destruct (Nat.leb p prec); [|inversion H; subst; split; [exact Hl|apply suffix_refl]].
    assert (Hok0 : Forall tokn r0) by (inversion Hok; assumption).
    destruct (p_expr f (S prec) r0) as [[rhs r']| |] eqn:EQ; try discriminate.
    destruct (HE _ _ _ _ Hok0 EQ) as [S1 X1].
    assert (Hs : src_ok (EBin (mk_bin l (tk t0)) lhs rhs) = true) by (cbn [src_ok]; rewrite Hl, S1; reflexivity).
    destruct (HB _ _ _ _ _ (suffix_n _ _ X1 Hok0) Hs H) as [S2 X2].
    split; [exact S2|]. apply (suffix_trans _ _ _ X2). apply (suffix_trans _ _ _ X1). exists [t0]. reflexivity. }
  assert (TA : V_atom (S f)).
  { intros ts t r Hok H. rewrite p_atom_eq in H. destruct ts as [|t0 r0]; [discriminate|].
    assert (Hok0 : Forall tokn r0) by (inversion Hok; assumption).
    assert (X0 : suffix r0 (t0 :: r0)) by (exists [t0]; reflexivity).
    destruct (is_k LPAREN t0).
    - destruct (p_expr f 0 r0) as [[e [|c r']]| |] eqn:EQ; try discriminate.
      destruct (is_k RPAREN c); [|discriminate].
      destruct (HE _ _ _ _ Hok0 EQ) as [S1 X1].
      assert (X1' : suffix r' r0) by (apply suffix_cons with c; exact X1).
      destruct (HPo (EParen e) r' t r (suffix_n _ _ X1' Hok0) S1 H) as (S2 & X2).
      split; [exact S2|]. exact (suffix_trans _ _ _ X2 (suffix_trans _ _ _ X1' X0)).
    - destruct (is_k NAME t0); [|discriminate].
      destruct (HPo (ECtxRef (tx t0)) r0 t r Hok0 eq_refl H) as (S2 & X2).
      split; [exact S2|]. exact (suffix_trans _ _ _ X2 X0). }
  assert (TP : V_primary (S f)).
  { intros ts t r Hok H. rewrite p_primary_eq in H. destruct ts as [|t0 r0]; [discriminate|].
    assert (Hok0 : Forall tokn r0) by (inversion Hok; assumption).
    assert (X0 : suffix r0 (t0 :: r0)) by (exists [t0]; reflexivity).
    destruct (prefix_of (tk t0)) as [prec|].
    { destruct (p_expr f prec r0) as [[e r']| |] eqn:EQ; try discriminate. inversion H; subst.
      destruct (HE _ _ _ _ Hok0 EQ) as [S1 X1]. split; [exact S1|exact (suffix_trans _ _ _ X1 X0)]. }
    destruct (lit_of (tk t0)) as [l|] eqn:EL.
    { inversion H; subst. split; [apply lit_src|exact X0]. }
    assert (Hatom : p_atom f (t0 :: r0) = PR (t, r) -> src_ok t = true /\ suffix r (t0 :: r0)).
    { intros E. exact (HA _ _ _ Hok E). }
    destruct (if is_k LPAREN t0 then anon_head r0 else None) as [[names r']|] eqn:EH; [|destruct anon_prec; exact (Hatom H)].
    destruct anon_prec as [prec|]; [|exact (Hatom H)].
    destruct (is_k LPAREN t0); [|discriminate].
    assert (Hnames : forallb pname_ok names = true).
    { apply (anon_head_src _ _ _ EH). apply Forall_forall. intros x Hx. rewrite Forall_forall in Hok0.
      destruct (Hok0 x Hx) as [_ Hn]. exact Hn. }
    destruct (anon_head_some (fun _ => false) eq_refl unit (fun _ nm => nm) (fun a _ => a) (fun _ _ => eq_refl) _ _ _ EH) as (Hne & hd & -> & _).
    assert (X1 : suffix r' (hd ++ r')) by (exists hd; reflexivity).
    destruct (p_expr f prec r') as [[body r'']| |] eqn:EQ; try discriminate. inversion H; subst.
    destruct (HE _ _ _ _ (suffix_n _ _ X1 Hok0) EQ) as [S1 X2].
    split.
    - cbn [src_ok]. rewrite Hnames, S1. reflexivity.
    - exact (suffix_trans _ _ _ X2 (suffix_trans _ _ _ X1 X0)). }
  assert (TPa : V_params (S f)).
  { intros ts es r Hok H. rewrite p_params_eq in H.
    destruct (p_expr f 0 ts) as [[e [|c r0]]| |] eqn:EQ; try discriminate.
    - inversion H; subst. destruct (HE _ _ _ _ Hok EQ) as [S1 X1]. split; [cbn [forallb]; rewrite S1; reflexivity|exact X1].
    - destruct (HE _ _ _ _ Hok EQ) as [S1 X1]. destruct (is_k COMMA c).
      + destruct (p_params f r0) as [[es' r']| |] eqn:EQ2; try discriminate. inversion H; subst.
        assert (X1' : suffix r0 ts) by (apply suffix_cons with c; exact X1).
        destruct (HPa _ _ _ (suffix_n _ _ X1' Hok) EQ2) as [S2 X2].
        split; [cbn [forallb]; rewrite S1, S2; reflexivity|exact (suffix_trans _ _ _ X2 X1')].
      + inversion H; subst. split; [cbn [forallb]; rewrite S1; reflexivity|exact X1]. }
  assert (TPo : V_postfix (S f)).
  { intros a ts t r Hok Hs H. rewrite p_postfix_eq in H.
    destruct ts as [|t0 r0]; [inversion H; subst; split; [exact Hs|apply suffix_refl]|].
    assert (Hok0 : Forall tokn r0) by (inversion Hok; assumption).
    assert (X0 : suffix r0 (t0 :: r0)) by (exists [t0]; reflexivity).
    destruct (is_k LPAREN t0).
    { destruct r0 as [|c r']; [discriminate|].
      assert (Hok' : Forall tokn r') by (inversion Hok0; assumption).
      assert (Xc : suffix r' (t0 :: c :: r')) by (exists [t0; c]; reflexivity).
      destruct (is_k RPAREN c).
      - assert (Hs' : src_ok (ECall a []) = true) by (cbn [src_ok forallb]; rewrite Hs; reflexivity).
        destruct (HPo _ _ _ _ Hok' Hs' H) as (S2 & X2).
        split; [exact S2|exact (suffix_trans _ _ _ X2 Xc)].
      - destruct (p_params f (c :: r')) as [[ps [|c' r'']]| |] eqn:EQ; try discriminate.
        destruct (is_k RPAREN c'); [|discriminate].
        destruct (HPa _ _ _ Hok0 EQ) as [S1 X1].
        assert (X1' : suffix r'' (c :: r')) by (apply suffix_cons with c'; exact X1).
        assert (Hs' : src_ok (ECall a ps) = true) by (cbn [src_ok]; rewrite Hs, S1; reflexivity).
        destruct (HPo _ _ _ _ (suffix_n _ _ X1' Hok0) Hs' H) as (S2 & X2).
        split; [exact S2|exact (suffix_trans _ _ _ X2 (suffix_trans _ _ _ X1' X0))]. }
    destruct (is_k DOT t0).
    { destruct r0 as [|n r']; [discriminate|]. destruct (kind_in (tk n) dot_kinds) eqn:EK; [|discriminate].
      assert (Hok' : Forall tokn r') by (inversion Hok0; assumption).
      assert (Hn : tokn n) by (inversion Hok0; assumption).
      assert (Xc : suffix r' (t0 :: n :: r')) by (exists [t0; n]; reflexivity).
      assert (Hs' : src_ok (EDot a (tx n)) = true).
      { cbn [src_ok]. rewrite Hs. cbn [andb]. destruct Hn as [(Hi & _ & _) Hnm].
        destruct (dot_kinds_cases _ EK) as [E|E]; [rewrite (Hnm E); apply orb_true_r|rewrite (Hi E); reflexivity]. }
      destruct (HPo _ _ _ _ Hok' Hs' H) as (S2 & X2).
      split; [exact S2|exact (suffix_trans _ _ _ X2 Xc)]. }
    destruct (is_k LBRACK t0); [|inversion H; subst; split; [exact Hs|apply suffix_refl]].
    destruct (p_expr f 0 r0) as [[e [|c r']]| |] eqn:EQ; try discriminate.
    destruct (is_k RBRACK c); [|discriminate].
    destruct (HE _ _ _ _ Hok0 EQ) as [S1 X1].
    assert (X1' : suffix r' r0) by (apply suffix_cons with c; exact X1).
    assert (Hs' : src_ok (EIndex a e) = true) by (cbn [src_ok]; rewrite Hs, S1; reflexivity).
    destruct (HPo _ _ _ _ (suffix_n _ _ X1' Hok0) Hs' H) as (S2 & X2).
    split; [exact S2|exact (suffix_trans _ _ _ X2 (suffix_trans _ _ _ X1' X0))]. }
  exact (conj TE (conj TB (conj TP (conj TA (conj TPo TPa))))).
Qed.

Theorem all_V : forall fuel, V_expr fuel /\ V_binloop fuel /\ V_primary fuel /\ V_atom fuel /\ V_postfix fuel /\ V_params fuel.
Proof.
  induction fuel as [|f (HE & HB & HP & HA & HPo & HPa)].
  - unfold V_expr, V_binloop, V_primary, V_atom, V_postfix, V_params. repeat split; intros; discriminate.
  - apply step_V; assumption.
Qed.

(* parameters and non-numeric lookups of a parsed tree are NAME lexemes and no keywords *)
Theorem parsed_src inp ts t : valid_codepoints inp -> lex inp = LOk ts -> parse_tokens ts = POk t -> src_ok t = true.
Proof.
  intros Hv HL HP.
  assert (Hwf : Forall tokn ts).
  { pose proof (lex_tokok _ _ Hv HL) as H1. pose proof (lex_tokname _ _ HL) as H2.
    apply Forall_forall. intros x Hx. rewrite Forall_forall in H1, H2. split; auto. }
  unfold parse_tokens in HP. destruct (existsb _ ts); [discriminate|].
  destruct (p_expr (parse_fuel ts) 0 ts) as [[e [|x r]]| |] eqn:E; try discriminate. inversion HP; subst e.
  destruct (all_V (parse_fuel ts)) as (HE & _). destruct (HE _ _ _ _ Hwf E) as [S1 _]. exact S1.
Qed.
