(* proofs/CqlRegexSound.v — the derivative matcher of lib/RegexLM.v is sound for the usual meaning of regular
   expressions: the text of every token the tokenizer emits belongs to the language of the rule that produced it. *)
From Coq Require Import List Arith NArith Bool Lia.
From Verif Require Import lib.RegexLM proofs.CqlRegexProofs proofs.CqlLexProofs.
Import ListNotations.
Close Scope N_scope.

Inductive matches : re -> list N -> Prop :=
| m_eps : matches Eps []
| m_chr : forall C c, in_cset c C = true -> matches (Chr C) [c]
| m_cat : forall a b u v, matches a u -> matches b v -> matches (Cat a b) (u ++ v)
| m_altl : forall a b u, matches a u -> matches (Alt a b) u
| m_altr : forall a b u, matches b u -> matches (Alt a b) u
| m_star0 : forall a, matches (Star a) []
| m_star1 : forall a u v, matches a u -> matches (Star a) v -> matches (Star a) (u ++ v).

Lemma cat_sound a b w : matches (cat a b) w -> matches (Cat a b) w.
Proof.
  intros H.
  destruct a; destruct b; cbn [cat] in H; try (inversion H; fail);
    first [ exact H
          | (change w with ([] ++ w); constructor; [constructor|exact H])
          | (rewrite <- (app_nil_r w); constructor; [exact H|constructor]) ].
Qed.

Lemma alt_sound a b w : matches (alt a b) w -> matches (Alt a b) w.
Proof.
  intros H.
  destruct a; destruct b; cbn [alt] in H; try (inversion H; fail);
    first [ exact H | (apply m_altl; exact H) | (apply m_altr; exact H) ].
Qed.

Lemma nullable_sound : forall r, nullable r = true -> matches r [].
Proof.
  induction r; cbn [nullable]; intros H; try discriminate.
  - constructor.
  - apply andb_prop in H. destruct H. change (@nil N) with (@nil N ++ []). constructor; auto.
  - apply orb_prop in H. destruct H; [apply m_altl|apply m_altr]; auto.
  - constructor.
Qed.

Lemma deriv_sound : forall r c w, matches (deriv c r) w -> matches r (c :: w).
Proof.
  induction r; intros c w H; cbn [deriv] in H.
  - inversion H.
  - inversion H.
  - destruct (in_cset c s) eqn:E; inversion H; subst. constructor. exact E.
  - destruct (nullable r1) eqn:N.
    + apply alt_sound in H. inversion H; subst.
      * apply cat_sound in H3. inversion H3; subst. change (c :: u ++ v) with ((c :: u) ++ v). constructor; auto.
      * change (c :: w) with ([] ++ c :: w). constructor; [apply nullable_sound; exact N|auto].
    + apply cat_sound in H. inversion H; subst. change (c :: u ++ v) with ((c :: u) ++ v). constructor; auto.
  - apply alt_sound in H. inversion H; subst; [apply m_altl|apply m_altr]; auto.
  - apply cat_sound in H. inversion H; subst. change (c :: u ++ v) with ((c :: u) ++ v). constructor; auto.
Qed.

Lemma lm_sound : forall s r i best n, lm r s i best = Some n ->
  best = Some n \/ (i <= n /\ matches r (firstn (n - i) s)).
Proof.
  induction s as [|c s IH]; intros r i best n H; cbn [lm] in H.
  - destruct (nullable r) eqn:N; [|left; exact H]. inversion H; subst. right. split; [lia|].
    rewrite Nat.sub_diag. apply nullable_sound. exact N.
  - assert (Hb : (if nullable r then Some i else best) = Some n ->
                 best = Some n \/ (i <= n /\ matches r (firstn (n - i) (c :: s)))).
    { intros Hb. destruct (nullable r) eqn:N; [|left; exact Hb]. inversion Hb; subst. right. split; [lia|].
      rewrite Nat.sub_diag. apply nullable_sound. exact N. }
    destruct (is_Empty (deriv c r)); [apply Hb; exact H|].
    destruct (IH _ _ _ _ H) as [Hb'|[Hi Hm]]; [apply Hb; exact Hb'|].
    right. split; [lia|]. replace (n - i) with (S (n - S i)) by lia. cbn [firstn]. apply deriv_sound. exact Hm.
Qed.

Lemma longest_sound r s n : longest r s = Some n -> matches r (firstn n s).
Proof.
  unfold longest. intros H. destruct (lm_sound _ _ _ _ _ H) as [E|[_ Hm]]; [discriminate|].
  rewrite Nat.sub_0_r in Hm. exact Hm.
Qed.

Lemma pick_sound {kind} : forall (rules : list (rule kind)) s cur ru n, pick rules s cur = Some (ru, n) ->
  cur = Some (ru, n) \/ (In ru rules /\ matches (r_re ru) (firstn n s)).
Proof.
  induction rules as [|r rules IH]; intros s cur ru n H; cbn [pick] in H; [left; exact H|].
  destruct (IH _ _ _ _ H) as [E|[Hin Hm]]; [|right; split; [right; exact Hin|exact Hm]].
  destruct (longest (r_re r) s) as [[|m]|] eqn:L; try (left; exact E).
  assert (Hnew : Some (r, S m) = Some (ru, n) -> In ru (r :: rules) /\ matches (r_re ru) (firstn n s)).
  { intros E'. inversion E'; subst. split; [left; reflexivity|]. apply longest_sound. exact L. }
  destruct cur as [[r0 k]|]; [|right; apply Hnew; exact E].
  destruct (Nat.ltb k (S m)); [right; apply Hnew; exact E|left; exact E].
Qed.

(* every token carries a text of its rule's language, made of characters of the input *)
Section LexSound.
  Context {kind : Type}.
  Variable rules : list (rule kind).
  Variable P : N -> Prop.

  Definition tok_ok (kt : kind * list N) : Prop :=
    Forall P (snd kt) /\ exists ru, In ru rules /\ r_kind ru = fst kt /\ matches (r_re ru) (snd kt).

  Lemma Forall_firstn {A} (Q : A -> Prop) n (l : list A) : Forall Q l -> Forall Q (firstn n l).
  Proof. intros H. revert n. induction H; intros [|n]; cbn [firstn]; constructor; auto. Qed.

  Lemma Forall_skipn {A} (Q : A -> Prop) n (l : list A) : Forall Q l -> Forall Q (skipn n l).
  Proof. intros H. revert n. induction H; intros [|n]; cbn [skipn]; try constructor; auto. Qed.

  Lemma lex_loop_sound : forall f s acc ts, Forall P s -> Forall tok_ok acc ->
    lex_loop f rules s acc = LexOk ts -> Forall tok_ok ts.
  Proof.
    induction f as [|f IH]; intros s acc ts Hs Hacc H.
    - destruct s; [|discriminate]. inversion H; subst. apply Forall_rev. exact Hacc.
    - destruct s as [|c s]; [inversion H; subst; apply Forall_rev; exact Hacc|].
      cbn [lex_loop] in H. destruct (pick rules (c :: s) None) as [[ru n]|] eqn:Pk; [|discriminate].
      destruct (pick_sound _ _ _ _ _ Pk) as [E|[Hin Hm]]; [discriminate|].
      eapply IH; [apply Forall_skipn; exact Hs| |exact H].
      destruct (r_skip ru); [exact Hacc|]. constructor; [|exact Hacc].
      split; [apply Forall_firstn; exact Hs|]. exists ru. auto.
  Qed.

  Lemma lex_sound : forall s ts, Forall P s -> lex rules s = LexOk ts -> Forall tok_ok ts.
  Proof. intros s ts Hs H. unfold lex in H. eapply lex_loop_sound; [exact Hs|constructor|exact H]. Qed.
End LexSound.

(* inversion helpers *)
Lemma matches_chr C w : matches (Chr C) w -> exists c, w = [c] /\ in_cset c C = true.
Proof. intros H. inversion H; subst. eauto. Qed.

Lemma matches_cat a b w : matches (Cat a b) w -> exists u v, w = u ++ v /\ matches a u /\ matches b v.
Proof. intros H. inversion H; subst. eauto. Qed.

Lemma matches_alt a b w : matches (Alt a b) w -> matches a w \/ matches b w.
Proof. intros H. inversion H; subst; auto. Qed.

Lemma matches_eps w : matches Eps w -> w = [].
Proof. intros H. inversion H. reflexivity. Qed.

Lemma matches_star_class C : forall w, matches (Star (Chr C)) w -> forallb (fun c => in_cset c C) w = true.
Proof.
  intros w H. remember (Star (Chr C)) as r eqn:E. induction H; try discriminate; [reflexivity|].
  inversion E; subst. apply matches_chr in H. destruct H as (c & -> & Hc). cbn [app forallb]. rewrite Hc. auto.
Qed.

Lemma matches_plus_class C w : matches (Cat (Chr C) (Star (Chr C))) w ->
  w <> [] /\ forallb (fun c => in_cset c C) w = true.
Proof.
  intros H. apply matches_cat in H. destruct H as (u & v & -> & Hu & Hv).
  apply matches_chr in Hu. destruct Hu as (c & -> & Hc). apply matches_star_class in Hv.
  split; [discriminate|]. cbn [app forallb]. rewrite Hc, Hv. reflexivity.
Qed.
