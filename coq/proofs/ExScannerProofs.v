(* ExScannerProofs.v — functional description of the scanner model (model/ExScanner.v) on NUL-free input:
   pure list functions [p_body], [p_ident], [p_expr] that the operational model (xinput with its unread stack,
   fuel) refines, and on top of them the statements of C12 about body text and about quoted literals.

   Abstraction: the runes still to be delivered by `read` are  unread_runes ++ base ; on NUL-free input
   that is a NUL-free list [w] followed by zeros (an `unread(eof)` after the end of the input pushes a 0).
   [R i w] relates a scanner state to that list. *)
From Coq Require Import List NArith Bool Arith Lia.
From Verif Require Import lib.Quote model.ExScanner proofs.ExScannerBound proofs.QuoteProofs.
Import ListNotations.
Open Scope N_scope.

Definition nulfree (w : text) : Prop := Forall (fun c => c <> eof) w.

Definition view (i : xinput) : text := unread_runes i ++ base i.

Definition R (i : xinput) (w : text) : Prop := nulfree w /\ exists z, view i = w ++ repeat eof z.

Lemma nulfree_cons c w : nulfree (c :: w) <-> c <> eof /\ nulfree w.
Proof. unfold nulfree. split; [intros H; inversion H; auto|intros [H1 H2]; constructor; auto]. Qed.

Lemma nulfree_app a b : nulfree (a ++ b) <-> nulfree a /\ nulfree b.
Proof. unfold nulfree. apply Forall_app. Qed.

Lemma R_new s : nulfree s -> R (new_input s) s.
Proof. intros H. split; [exact H|]. exists O. unfold view, new_input; cbn. rewrite app_nil_r. reflexivity. Qed.

Lemma read_view i : read i = (hd eof (view i), snd (read i)) /\ view (snd (read i)) = tl (view i).
Proof.
  unfold read, view. destruct i as [b u]; cbn [base unread_runes].
  destruct u as [|c u]; [destruct b as [|c b]|]; cbn; auto.
Qed.

Lemma read_R i w ch i1 : R i w -> read i = (ch, i1) ->
  match w with
  | [] => ch = eof /\ R i1 []
  | c :: w' => ch = c /\ c <> eof /\ R i1 w'
  end.
Proof.
  intros [Hn [z Hv]] Hr. destruct (read_view i) as [H1 H2]. rewrite Hr in H1, H2. cbn [snd] in *.
  inversion H1 as [Hc]. clear H1. rewrite Hv in *. destruct w as [|c w'].
  - cbn [app] in *. split.
    + destruct z; reflexivity.
    + split; [constructor|]. exists (Nat.pred z). rewrite H2. destruct z; reflexivity.
  - apply nulfree_cons in Hn. destruct Hn as [Hc0 Hn]. cbn [app hd tl] in *. split; [reflexivity|].
    split; [exact Hc0|]. split; [exact Hn|]. exists z. exact H2.
Qed.

Lemma unread_view ch i i' : unread ch i = Ok i' -> view i' = ch :: view i.
Proof.
  unfold unread. destruct (Nat.ltb _ _); [|discriminate]. intros H; inversion H; subst. reflexivity.
Qed.

Lemma unread_R ch i i' w : R i w -> ch <> eof -> unread ch i = Ok i' -> R i' (ch :: w).
Proof.
  intros [Hn [z Hv]] Hc Hu. split; [apply nulfree_cons; auto|].
  exists z. rewrite (unread_view _ _ _ Hu), Hv. reflexivity.
Qed.

Lemma unread_R0 i i' : R i [] -> unread eof i = Ok i' -> R i' [].
Proof.
  intros [Hn [z Hv]] Hu. split; [constructor|]. exists (S z).
  rewrite (unread_view _ _ _ Hu), Hv. reflexivity.
Qed.

(* ---------------------------------------------------------------------------------------------- *)
(* pure functions *)

Section Pure.
Variable isln : rune -> bool.
Variable lower : rune -> rune.
Hypothesis isln_eof : isln eof = false.     (* unicode.IsLetter(0) = unicode.IsNumber(0) = false *)

Notation name_char := (is_name_char isln).

Lemma name_char_eof : name_char eof = false.
Proof. unfold is_name_char. rewrite isln_eof. reflexivity. Qed.

(* scanBody: (runes written, runes left) *)
Fixpoint p_body (ue : bool) (w : text) : text * text :=
  match w with
  | [] => ([], [])
  | c :: r =>
      if c =? r_at then
        match r with
        | [] => ([r_at], [])
        | d :: r' =>
            if d =? r_lparen then ([], w)
            else if d =? r_at then let (o, k) := p_body ue r' in (r_at :: (if ue then o else r_at :: o), k)
            else if name_char d then ([], w)
            else let (o, k) := p_body ue r' in (r_at :: d :: o, k)
        end
      else let (o, k) := p_body ue r in (c :: o, k)
  end.

(* loop of scanIdentifier: (buf, topLevel, runes left) *)
Fixpoint p_ident (w buf top : text) : text * text * text :=
  match w with
  | [] => (buf, top, [])
  | c :: r =>
      let top1 := if (c =? r_dot) && text_eqb top [] then buf else top in
      if c =? r_dot then
        match r with
        | [] => (buf, top1, w)
        | d :: r' => if name_char d then p_ident r' (buf ++ [c; d]) top1 else (buf, top1, w)
        end
      else if name_char c then p_ident r (buf ++ [c]) top1
      else (buf, top1, w)
  end.

(* loop of scanExpression with readTextLiteral inlined as a mode: (runes written, parens, runes left) *)
Inductive emode := MNorm | MLit (escaped : bool).

Definition pre (c : rune) (x : text * nat * text) : text * nat * text :=
  let '(o, p, k) := x in (c :: o, p, k).

Fixpoint p_expr (m : emode) (parens : nat) (w : text) : text * nat * text :=
  match w with
  | [] => ([], parens, [])
  | c :: r =>
      match m with
      | MLit esc =>
          if (c =? r_quote) && negb esc then pre c (p_expr MNorm parens r)
          else pre c (p_expr (MLit (if c =? r_bslash then negb esc else false)) parens r)
      | MNorm =>
          if c =? r_quote then pre c (p_expr (MLit false) parens r)
          else if c =? r_lparen then pre c (p_expr MNorm (S parens) r)
          else if c =? r_rparen then
            if Nat.eqb (Nat.pred parens) 0 then ([], Nat.pred parens, r)
            else pre c (p_expr MNorm (Nat.pred parens) r)
          else pre c (p_expr MNorm parens r)
      end
  end.

(* ---------------------------------------------------------------------------------------------- *)
(* refinement: whenever the operational function returns, it returns what the pure one says *)

Lemma body_ref ue : forall fuel i w o i', R i w ->
  scan_body_loop isln ue fuel i = Ok (o, i') ->
  o = fst (p_body ue w) /\ R i' (snd (p_body ue w)).
Proof.
  induction fuel as [|f IH]; intros i w o i' HR H; [discriminate|].
  cbn [scan_body_loop] in H. destruct (read i) as [ch i1] eqn:R1.
  pose proof (read_R _ _ _ _ HR R1) as HR1. destruct w as [|c r].
  { destruct HR1 as [-> HR1]. change (eof =? eof) with true in H. cbv iota in H.
    inversion H; subst. cbn. auto. }
  destruct HR1 as (-> & Hc & HR1). cbn [p_body].
  destruct (N.eqb_spec c eof) as [|_]; [contradiction|].
  destruct (c =? r_at) eqn:EA.
  2:{ destruct (scan_body_loop isln ue f i1) as [[o1 i3]| |] eqn:E; cbn [bind] in H; try discriminate.
      inversion H; subst. destruct (IH _ _ _ _ HR1 E) as [-> HR3].
      destruct (p_body ue r); cbn [fst snd] in *. auto. }
  apply N.eqb_eq in EA. subst c.
  destruct (read i1) as [peek i2] eqn:R2.
  pose proof (read_R _ _ _ _ HR1 R2) as HR2. destruct r as [|d r'].
  { destruct HR2 as [-> HR2]. change (eof =? r_lparen) with false in H. change (eof =? r_at) with false in H.
    rewrite name_char_eof in H. change (eof =? eof) with true in H. cbv iota in H.
    destruct (scan_body_loop isln ue f i2) as [[o1 i3]| |] eqn:E; cbn [bind] in H; try discriminate.
    inversion H; subst. destruct (IH _ _ _ _ HR2 E) as [-> HR3]. cbn in *. auto. }
  destruct HR2 as (-> & Hd & HR2).
  destruct (d =? r_lparen) eqn:EL.
  { destruct (unread d i2) as [i3| |] eqn:U3; cbn [bind] in H; try discriminate.
    destruct (unread r_at i3) as [i4| |] eqn:U4; cbn [bind] in H; try discriminate.
    inversion H; subst. cbn [fst snd]. split; [reflexivity|].
    eapply unread_R; [|discriminate|exact U4]. eapply unread_R; eauto. }
  destruct (d =? r_at) eqn:EA2.
  { destruct (scan_body_loop isln ue f i2) as [[o1 i3]| |] eqn:E; cbn [bind] in H; try discriminate.
    inversion H; subst. destruct (IH _ _ _ _ HR2 E) as [-> HR3].
    destruct (p_body ue r'); cbn [fst snd] in *. auto. }
  destruct (name_char d) eqn:EN.
  { destruct (unread d i2) as [i3| |] eqn:U3; cbn [bind] in H; try discriminate.
    destruct (unread r_at i3) as [i4| |] eqn:U4; cbn [bind] in H; try discriminate.
    inversion H; subst. cbn [fst snd]. split; [reflexivity|].
    eapply unread_R; [|discriminate|exact U4]. eapply unread_R; eauto. }
  destruct (N.eqb_spec d eof) as [|_]; [contradiction|].
  destruct (scan_body_loop isln ue f i2) as [[o1 i3]| |] eqn:E; cbn [bind] in H; try discriminate.
  inversion H; subst. destruct (IH _ _ _ _ HR2 E) as [-> HR3].
  destruct (p_body ue r'); cbn [fst snd] in *. auto.
Qed.

Lemma ident_ref : forall fuel i w buf top b' t' i', R i w ->
  scan_identifier_loop isln fuel i buf top = Ok (b', t', i') ->
  let '(pb, pt, pk) := p_ident w buf top in b' = pb /\ t' = pt /\ R i' pk.
Proof.
  induction fuel as [|f IH]; intros i w buf top b' t' i' HR H; [discriminate|].
  cbn [scan_identifier_loop] in H. destruct (read i) as [ch i1] eqn:R1.
  pose proof (read_R _ _ _ _ HR R1) as HR1. destruct w as [|c r].
  { destruct HR1 as [-> HR1]. change (eof =? eof) with true in H. cbv iota in H.
    inversion H; subst. cbn. auto. }
  destruct HR1 as (-> & Hc & HR1). cbn [p_ident].
  destruct (N.eqb_spec c eof) as [|_]; [contradiction|].
  destruct (c =? r_dot) eqn:ED.
  { destruct (read i1) as [peek i2] eqn:R2.
    pose proof (read_R _ _ _ _ HR1 R2) as HR2. destruct r as [|d r'].
    - destruct HR2 as [-> HR2]. rewrite name_char_eof in H.
      destruct (unread eof i2) as [i3| |] eqn:U3; cbn [bind] in H; try discriminate.
      destruct (unread r_dot i3) as [i4| |] eqn:U4; cbn [bind] in H; try discriminate.
      inversion H; subst. split; [reflexivity|]. split; [reflexivity|].
      apply N.eqb_eq in ED. subst c.
      eapply unread_R; [|discriminate|exact U4]. eapply unread_R0; eauto.
    - destruct HR2 as (-> & Hd & HR2). destruct (name_char d) eqn:EN.
      + exact (IH _ _ _ _ _ _ _ HR2 H).
      + destruct (unread d i2) as [i3| |] eqn:U3; cbn [bind] in H; try discriminate.
        destruct (unread r_dot i3) as [i4| |] eqn:U4; cbn [bind] in H; try discriminate.
        inversion H; subst. split; [reflexivity|]. split; [reflexivity|].
        apply N.eqb_eq in ED. subst c.
        eapply unread_R; [|discriminate|exact U4]. eapply unread_R; eauto. }
  destruct (name_char c) eqn:EN.
  - exact (IH _ _ _ _ _ _ _ HR1 H).
  - destruct (unread c i1) as [i2| |] eqn:U2; cbn [bind] in H; try discriminate.
    inversion H; subst. split; [reflexivity|]. split; [reflexivity|].
    eapply unread_R; eauto.
Qed.

Lemma textlit_ref : forall fuel i w esc lit i2, R i w ->
  read_text_literal fuel i esc = Ok (lit, i2) ->
  exists w2, R i2 w2 /\ forall p, p_expr (MLit esc) p w =
     let '(o, p', k) := p_expr MNorm p w2 in (lit ++ o, p', k).
Proof.
  induction fuel as [|f IH]; intros i w esc lit i2 HR H; [discriminate|].
  cbn [read_text_literal] in H. destruct (read i) as [ch i1] eqn:R1.
  pose proof (read_R _ _ _ _ HR R1) as HR1. destruct w as [|c r].
  { destruct HR1 as [-> HR1]. change (eof =? eof) with true in H. cbv iota in H.
    inversion H; subst. exists []. split; [exact HR1|]. intros p. reflexivity. }
  destruct HR1 as (-> & Hc & HR1).
  destruct (N.eqb_spec c eof) as [|_]; [contradiction|].
  destruct ((c =? r_quote) && negb esc) eqn:EQ.
  { inversion H; subst. exists r. split; [exact HR1|]. intros p. cbn [p_expr]. rewrite EQ.
    destruct (p_expr MNorm p r) as [[o p'] k]. reflexivity. }
  destruct (read_text_literal f i1 _) as [[l1 i3]| |] eqn:E; cbn [bind] in H; try discriminate.
  inversion H; subst. destruct (IH _ _ _ _ _ HR1 E) as (w2 & HR2 & Hp).
  exists w2. split; [exact HR2|]. intros p. cbn [p_expr]. rewrite EQ, Hp.
  destruct (p_expr MNorm p w2) as [[o p'] k]. reflexivity.
Qed.

Lemma expr_ref : forall fuel i w p o p' i', R i w ->
  scan_expression_loop fuel i p = Ok (o, p', i') ->
  let '(po, pp, pk) := p_expr MNorm p w in o = po /\ p' = pp /\ R i' pk.
Proof.
  induction fuel as [|f IH]; intros i w p o p' i' HR H; [discriminate|].
  cbn [scan_expression_loop] in H. destruct (read i) as [ch i1] eqn:R1.
  pose proof (read_R _ _ _ _ HR R1) as HR1. destruct w as [|c r].
  { destruct HR1 as [-> HR1]. change (eof =? eof) with true in H. cbv iota in H.
    inversion H; subst. cbn. auto. }
  destruct HR1 as (-> & Hc & HR1). cbn [p_expr].
  destruct (N.eqb_spec c eof) as [|_]; [contradiction|].
  destruct (c =? r_quote) eqn:EQ.
  { destruct (read_text_literal f i1 false) as [[lit i2]| |] eqn:E; cbn [bind] in H; try discriminate.
    destruct (scan_expression_loop f i2 p) as [[[o1 p1] i3]| |] eqn:E2; cbn [bind] in H; try discriminate.
    inversion H; subst. destruct (textlit_ref _ _ _ _ _ _ HR1 E) as (w2 & HR2 & Hp).
    rewrite Hp. specialize (IH _ _ _ _ _ _ HR2 E2).
    destruct (p_expr MNorm p w2) as [[po pp] pk]. destruct IH as (-> & -> & HR3). cbn [pre]. auto. }
  destruct (c =? r_lparen) eqn:EL.
  { destruct (scan_expression_loop f i1 (S p)) as [[[o1 p1] i3]| |] eqn:E2; cbn [bind] in H; try discriminate.
    inversion H; subst. specialize (IH _ _ _ _ _ _ HR1 E2).
    destruct (p_expr MNorm (S p) r) as [[po pp] pk]. destruct IH as (-> & -> & HR3). cbn [pre]. auto. }
  destruct (c =? r_rparen) eqn:ER.
  { destruct (Nat.eqb (Nat.pred p) 0) eqn:EP.
    - inversion H; subst. auto.
    - destruct (scan_expression_loop f i1 (Nat.pred p)) as [[[o1 p1] i3]| |] eqn:E2; cbn [bind] in H; try discriminate.
      inversion H; subst. specialize (IH _ _ _ _ _ _ HR1 E2).
      destruct (p_expr MNorm (Nat.pred p) r) as [[po pp] pk]. destruct IH as (-> & -> & HR3). cbn [pre]. auto. }
  destruct (scan_expression_loop f i1 p) as [[[o1 p1] i3]| |] eqn:E2; cbn [bind] in H; try discriminate.
  inversion H; subst. specialize (IH _ _ _ _ _ _ HR1 E2).
  destruct (p_expr MNorm p r) as [[po pp] pk]. destruct IH as (-> & -> & HR3). cbn [pre]. auto.
Qed.


(* ---------------------------------------------------------------------------------------------- *)
(* one Scan call *)

Definition allowed (tops : option (list text)) (top : text) : bool :=
  match tops with Some valid => existsb (text_eqb top) valid | None => true end.

Definition p_scan_ident (tops : option (list text)) (w : text) : toktype * text * text :=
  let '(ident, top, k) := p_ident w [] [] in
  let top1 := if text_eqb top [] then ident else top in
  if allowed tops (map lower top1) then (IDENTIFIER, ident, k) else (BODY, r_at :: ident, k).

Definition p_scan_expr (ue : bool) (w : text) : toktype * text * text :=
  let '(o, p, k) := p_expr MNorm 1 w in
  if Nat.eqb p 0 then (EXPRESSION, o, k) else (BODY, r_at :: r_lparen :: (if ue then replace_atat o else o), k).

Definition p_scan_body (ue : bool) (w : text) : toktype * text * text :=
  (BODY, fst (p_body ue w), snd (p_body ue w)).

Definition p_scan (tops : option (list text)) (ue : bool) (w : text) : toktype * text * text :=
  match w with
  | [] => (EOF_T, [], [])
  | c :: r =>
      if c =? r_at then
        match r with
        | [] => p_scan_body ue w
        | d :: r' =>
            if d =? r_lparen then p_scan_expr ue r'
            else if d =? r_at then p_scan_body ue w
            else if name_char d then p_scan_ident tops r
            else p_scan_body ue w
        end
      else p_scan_body ue w
  end.

Lemma scan_body_ref ue fuel i w ty tok i' : R i w ->
  scan_body isln ue fuel i = Ok (ty, tok, i') ->
  let '(pt, pk, pr) := p_scan_body ue w in ty = pt /\ tok = pk /\ R i' pr.
Proof.
  intros HR H. unfold scan_body in H.
  destruct (scan_body_loop isln ue fuel i) as [[o i3]| |] eqn:E; cbn [bind] in H; try discriminate.
  inversion H; subst. destruct (body_ref _ _ _ _ _ _ HR E) as [-> HR3]. cbn. auto.
Qed.

Lemma scan_ref tops ue i w ty tok i' : R i w ->
  scan isln lower tops ue i = Ok (ty, tok, i') ->
  let '(pt, pk, pr) := p_scan tops ue w in ty = pt /\ tok = pk /\ R i' pr.
Proof.
  intros HR H. unfold scan in H. set (fuel := scan_fuel i) in *. clearbody fuel.
  destruct (read i) as [ch i1] eqn:R1.
  pose proof (read_R _ _ _ _ HR R1) as HR1. destruct w as [|c r].
  { destruct HR1 as [-> HR1]. change (eof =? eof) with true in H. cbv iota in H.
    inversion H; subst. cbn. auto. }
  destruct HR1 as (-> & Hc & HR1). cbn [p_scan].
  destruct (N.eqb_spec c eof) as [|_]; [contradiction|].
  destruct (c =? r_at) eqn:EA.
  2:{ destruct (unread c i1) as [i2| |] eqn:U2; cbn [bind] in H; try discriminate.
      apply (scan_body_ref ue fuel i2); [eapply unread_R; eauto|exact H]. }
  apply N.eqb_eq in EA. subst c.
  destruct (read i1) as [peek i2] eqn:R2.
  pose proof (read_R _ _ _ _ HR1 R2) as HR2. destruct r as [|d r'].
  { destruct HR2 as [-> HR2]. change (eof =? r_lparen) with false in H. change (eof =? r_at) with false in H.
    rewrite name_char_eof in H.
    destruct (unread eof i2) as [i3| |] eqn:U3; cbn [bind] in H; try discriminate.
    destruct (unread r_at i3) as [i4| |] eqn:U4; cbn [bind] in H; try discriminate.
    apply (scan_body_ref ue fuel i4); [|exact H].
    eapply unread_R; [|discriminate|exact U4]. eapply unread_R0; eauto. }
  destruct HR2 as (-> & Hd & HR2).
  destruct (d =? r_lparen) eqn:EL.
  { unfold scan_expression in H. unfold p_scan_expr.
    destruct (scan_expression_loop fuel i2 1) as [[[o p] i3]| |] eqn:E; cbn [bind] in H; try discriminate.
    pose proof (expr_ref _ _ _ _ _ _ _ HR2 E) as HE.
    destruct (p_expr MNorm 1 r') as [[po pp] pk]. destruct HE as (-> & -> & HR3).
    destruct (Nat.eqb pp 0); inversion H; subst; auto. }
  destruct (d =? r_at) eqn:EA2.
  { destruct (unread r_at i2) as [i3| |] eqn:U3; cbn [bind] in H; try discriminate.
    destruct (unread r_at i3) as [i4| |] eqn:U4; cbn [bind] in H; try discriminate.
    apply N.eqb_eq in EA2. subst d.
    apply (scan_body_ref ue fuel i4); [|exact H].
    eapply unread_R; [|discriminate|exact U4]. eapply unread_R; eauto. }
  destruct (name_char d) eqn:EN.
  { destruct (unread d i2) as [i3| |] eqn:U3; cbn [bind] in H; try discriminate.
    assert (HR3 : R i3 (d :: r')) by (eapply unread_R; eauto).
    unfold scan_identifier in H. unfold p_scan_ident.
    destruct (scan_identifier_loop isln fuel i3 [] []) as [[[b t] i4]| |] eqn:E; cbn [bind] in H; try discriminate.
    pose proof (ident_ref _ _ _ _ _ _ _ _ HR3 E) as HI.
    destruct (p_ident (d :: r') [] []) as [[pb pt] pk]. destruct HI as (-> & -> & HR4).
    unfold allowed. destruct tops as [valid|].
    - destruct (existsb _ valid); inversion H; subst; auto.
    - inversion H; subst; auto. }
  destruct (unread d i2) as [i3| |] eqn:U3; cbn [bind] in H; try discriminate.
  destruct (unread r_at i3) as [i4| |] eqn:U4; cbn [bind] in H; try discriminate.
  apply (scan_body_ref ue fuel i4); [|exact H].
  eapply unread_R; [|discriminate|exact U4]. eapply unread_R; eauto.
Qed.

End Pure.

(* ---------------------------------------------------------------------------------------------- *)
(* C12, first sentence: template text outside expressions passes through.
   SPECIFICATION, written from the property sentence (not from the scanner):
     "'@@' yields '@', and an '@' that is not followed by '(' or an allowed top-level name stays literal". *)

(* what the text must evaluate to *)
Fixpoint unescape_at (t : text) : text :=
  match t with
  | [] => []
  | c :: r =>
      match r with
      | d :: r' => if (c =? r_at) && (d =? r_at) then r_at :: unescape_at r' else c :: unescape_at r
      | [] => [c]
      end
  end.

Section Body.
Variable isln : rune -> bool.
Variable lower : rune -> rune.
Hypothesis isln_eof : isln eof = false.     (* NUL, '.', '@' are neither letters nor numbers *)
Hypothesis isln_dot : isln r_dot = false.
Hypothesis isln_at : isln r_at = false.

Notation name_char := (is_name_char isln).

(* the first segment of a dotted path: name characters up to the first '.' *)
Fixpoint first_segment (l : text) : text :=
  match l with
  | c :: r => if negb (c =? r_dot) && name_char c then c :: first_segment r else []
  | [] => []
  end.

(* the text contains no expression start: reading left to right, pairing "@@", no '@' is followed by '(' or
   by a name whose (lower-cased) first segment is an allowed top level.  tops = None: every name is allowed *)
Fixpoint no_start (tops : option (list text)) (t : text) : bool :=
  match t with
  | [] => true
  | c :: r =>
      if c =? r_at then
        match r with
        | [] => true
        | d :: r' =>
            if d =? r_at then no_start tops r'
            else if d =? r_lparen then false
            else if name_char d then negb (allowed tops (map lower (first_segment r))) && no_start tops r
            else no_start tops r
        end
      else no_start tops r
  end.

Lemma list_ind2 (P : text -> Prop) :
  P [] -> (forall c, P [c]) -> (forall c d r, P r -> P (d :: r) -> P (c :: d :: r)) -> forall w, P w.
Proof.
  intros H0 H1 H2 w. enough (P w /\ forall c, P (c :: w)) by tauto.
  induction w as [|d r [IH1 IH2]]; [split; auto|]. split; [apply IH2|]. intros c. apply H2; auto.
Qed.

Lemma name_char_dot : name_char r_dot = false.
Proof. unfold is_name_char. rewrite isln_dot. reflexivity. Qed.

Lemma name_char_at : name_char r_at = false.
Proof. unfold is_name_char. rewrite isln_at. reflexivity. Qed.

Lemma unescape_at_other c r : c <> r_at -> unescape_at (c :: r) = c :: unescape_at r.
Proof.
  intros Hc. cbn [unescape_at]. destruct r as [|d r']; [reflexivity|].
  destruct (N.eqb_spec c r_at); [contradiction|]. reflexivity.
Qed.

Lemma unescape_at_at_other d r : d <> r_at -> unescape_at (r_at :: d :: r) = r_at :: unescape_at (d :: r).
Proof.
  intros Hd. cbn [unescape_at]. destruct (N.eqb_spec d r_at); [contradiction|]. reflexivity.
Qed.

(* runes that are neither '@' : both specification functions pass over them *)
Lemma unescape_at_app_noat a k : ~ In r_at a -> unescape_at (a ++ k) = a ++ unescape_at k.
Proof.
  induction a as [|c a IH]; intros H; [reflexivity|].
  cbn [app]. rewrite unescape_at_other by (intros ->; apply H; left; reflexivity).
  rewrite IH; [reflexivity|]. intros H1; apply H; right; exact H1.
Qed.

Lemma no_start_app_noat tops a k : ~ In r_at a -> no_start tops (a ++ k) = no_start tops k.
Proof.
  induction a as [|c a IH]; intros H; [reflexivity|].
  cbn [app no_start]. destruct (N.eqb_spec c r_at) as [->|_]; [exfalso; apply H; left; reflexivity|].
  apply IH. intros H1; apply H; right; exact H1.
Qed.

(* scanBody under the specification *)
Lemma p_body_other ue c r : c <> r_at ->
  p_body isln ue (c :: r) = (c :: fst (p_body isln ue r), snd (p_body isln ue r)).
Proof.
  intros Hc. cbn [p_body]. destruct (N.eqb_spec c r_at); [contradiction|].
  destruct (p_body isln ue r); reflexivity.
Qed.

Lemma body_spec tops : forall w, no_start tops w = true ->
  unescape_at w = fst (p_body isln true w) ++ unescape_at (snd (p_body isln true w))
  /\ no_start tops (snd (p_body isln true w)) = true.
Proof.
  induction w as [|c|c d r IH1 IH2] using list_ind2; intros H.
  - cbn. auto.
  - cbn [p_body]. destruct (c =? r_at) eqn:EA.
    + apply N.eqb_eq in EA. subst c. cbn. auto.
    + cbn. auto.
  - destruct (N.eqb_spec c r_at) as [->|Hc].
    + cbn [p_body]. change (r_at =? r_at) with true. cbv iota.
      cbn [no_start] in H. change (r_at =? r_at) with true in H. cbv iota in H.
      destruct (N.eqb_spec d r_lparen) as [->|Hl].
      { change (r_lparen =? r_at) with false in H. cbv iota in H. discriminate. }
      destruct (N.eqb_spec d r_at) as [->|Ha].
      * specialize (IH1 H). destruct (p_body isln true r) as [o k]. cbn [fst snd] in *.
        destruct IH1 as [E1 E2]. split; [|exact E2].
        cbn [unescape_at]. change (r_at =? r_at) with true. cbn [andb]. rewrite E1. reflexivity.
      * destruct (name_char d) eqn:EN.
        { cbn [fst snd app]. split; [reflexivity|].
          cbn [no_start]. change (r_at =? r_at) with true. cbv iota.
          destruct (N.eqb_spec d r_at); [contradiction|]. destruct (N.eqb_spec d r_lparen); [contradiction|].
          rewrite EN. exact H. }
        assert (H' : no_start tops r = true).
        { cbn [no_start] in H. destruct (N.eqb_spec d r_at); [contradiction|]. exact H. }
        specialize (IH1 H'). destruct (p_body isln true r) as [o k]. cbn [fst snd] in *.
        destruct IH1 as [E1 E2]. split; [|exact E2].
        rewrite unescape_at_at_other by exact Ha.
        rewrite unescape_at_other by exact Ha. rewrite E1. reflexivity.
    + rewrite p_body_other by exact Hc. cbn [fst snd].
      assert (H' : no_start tops (d :: r) = true).
      { cbn [no_start] in H. destruct (N.eqb_spec c r_at); [contradiction|]. exact H. }
      destruct (IH2 H') as [E1 E2]. split; [|exact E2].
      rewrite unescape_at_other by exact Hc. rewrite E1. reflexivity.
Qed.

(* scanIdentifier: the identifier is a prefix of the input made of name characters and dots, and the top level
   it is judged by is the first segment *)
Lemma p_ident_name c r buf top : c <> r_dot -> name_char c = true ->
  p_ident isln (c :: r) buf top = p_ident isln r (buf ++ [c]) top.
Proof. intros Hc EN. cbn [p_ident]. destruct (N.eqb_spec c r_dot); [contradiction|]. cbn [andb]. rewrite EN. reflexivity. Qed.

Lemma p_ident_stop c r buf top : c <> r_dot -> name_char c = false ->
  p_ident isln (c :: r) buf top = (buf, top, c :: r).
Proof. intros Hc EN. cbn [p_ident]. destruct (N.eqb_spec c r_dot); [contradiction|]. cbn [andb]. rewrite EN. reflexivity. Qed.

Lemma p_ident_dot_name d r buf top : name_char d = true ->
  p_ident isln (r_dot :: d :: r) buf top = p_ident isln r (buf ++ [r_dot; d]) (if text_eqb top [] then buf else top).
Proof. intros EN. cbn [p_ident]. change (r_dot =? r_dot) with true. cbn [andb]. rewrite EN. reflexivity. Qed.

Lemma p_ident_dot_stop r buf top : match r with [] => True | d :: _ => name_char d = false end ->
  p_ident isln (r_dot :: r) buf top = (buf, (if text_eqb top [] then buf else top), r_dot :: r).
Proof.
  intros EN. cbn [p_ident]. change (r_dot =? r_dot) with true. cbn [andb].
  destruct r as [|d r']; [reflexivity|]. rewrite EN. reflexivity.
Qed.

Lemma first_segment_dot r : first_segment (r_dot :: r) = [].
Proof. cbn [first_segment]. change (r_dot =? r_dot) with true. reflexivity. Qed.

Lemma first_segment_name c r : c <> r_dot -> name_char c = true -> first_segment (c :: r) = c :: first_segment r.
Proof. intros Hc EN. cbn [first_segment]. destruct (N.eqb_spec c r_dot); [contradiction|]. rewrite EN. reflexivity. Qed.

Lemma first_segment_stop c r : name_char c = false -> first_segment (c :: r) = [].
Proof. intros EN. cbn [first_segment]. rewrite EN, andb_false_r. reflexivity. Qed.

Definition ident_post (w buf top : text) (x : text * text * text) : Prop :=
  let '(b', t', k) := x in
  exists idp, b' = buf ++ idp /\ w = idp ++ k /\ ~ In r_at idp
    /\ (top <> [] -> t' = top)
    /\ (top = [] -> buf <> [] -> (if text_eqb t' [] then b' else t') = buf ++ first_segment w).

Lemma text_eqb_nil_ne (t : text) : t <> [] -> text_eqb t [] = false.
Proof. destruct t; [congruence|reflexivity]. Qed.

Lemma ident_post_stop w buf top : first_segment w = [] ->
  ident_post w buf top (buf, top, w).
Proof.
  intros Hf. exists []. rewrite app_nil_r. cbn [app]. repeat split; auto.
  intros -> Hb. cbn [text_eqb]. rewrite Hf, app_nil_r. reflexivity.
Qed.

Lemma ident_post_dot_stop r buf top :
  ident_post (r_dot :: r) buf top (buf, (if text_eqb top [] then buf else top), r_dot :: r).
Proof.
  exists []. rewrite app_nil_r. cbn [app]. repeat split; auto.
  - intros Ht. rewrite (text_eqb_nil_ne _ Ht). reflexivity.
  - intros -> Hb. cbn [text_eqb]. rewrite (text_eqb_nil_ne _ Hb), first_segment_dot, app_nil_r. reflexivity.
Qed.

Lemma ident_spec : forall w buf top, ident_post w buf top (p_ident isln w buf top).
Proof.
  induction w as [|c|c d r IH1 IH2] using list_ind2; intros buf top.
  - apply ident_post_stop. reflexivity.
  - destruct (N.eqb_spec c r_dot) as [->|Hd].
    + rewrite p_ident_dot_stop by exact I. apply ident_post_dot_stop.
    + destruct (name_char c) eqn:EN.
      * rewrite p_ident_name by assumption. cbn [p_ident].
        exists [c]. repeat split; auto.
        { intros [H|[]]. subst c. rewrite name_char_at in EN. discriminate. }
        intros -> Hb. cbn [text_eqb]. rewrite first_segment_name by assumption. reflexivity.
      * rewrite p_ident_stop by assumption. apply ident_post_stop. apply first_segment_stop; assumption.
  - destruct (N.eqb_spec c r_dot) as [->|Hd].
    + destruct (name_char d) eqn:EN.
      * rewrite p_ident_dot_name by exact EN.
        specialize (IH1 (buf ++ [r_dot; d]) (if text_eqb top [] then buf else top)).
        destruct (p_ident isln r (buf ++ [r_dot; d]) _) as [[b' t'] k].
        destruct IH1 as (idp & E1 & E2 & E3 & E4 & E5).
        exists (r_dot :: d :: idp). rewrite E1, <- app_assoc, E2. cbn [app]. repeat split; auto.
        { intros [H|[H|H]]; [discriminate| |contradiction]. subst d. rewrite name_char_at in EN. discriminate. }
        { intros Ht. rewrite (text_eqb_nil_ne _ Ht) in E4. auto. }
        intros -> Hb. cbn [text_eqb] in E4. specialize (E4 Hb). subst t'.
        rewrite (text_eqb_nil_ne _ Hb), first_segment_dot, app_nil_r. reflexivity.
      * rewrite p_ident_dot_stop by exact EN. apply ident_post_dot_stop.
    + destruct (name_char c) eqn:EN.
      * rewrite p_ident_name by assumption.
        specialize (IH2 (buf ++ [c]) top).
        destruct (p_ident isln (d :: r) (buf ++ [c]) top) as [[b' t'] k].
        destruct IH2 as (idp & E1 & E2 & E3 & E4 & E5).
        exists (c :: idp). rewrite E1, <- app_assoc, E2. cbn [app]. repeat split; auto.
        { intros [H|H]; [|contradiction]. subst c. rewrite name_char_at in EN. discriminate. }
        intros -> Hb. rewrite <- E2, (first_segment_name c) by assumption.
        assert (Hb' : buf ++ [c] <> []) by (intros E; apply app_eq_nil in E; destruct E; discriminate).
        specialize (E5 eq_refl Hb'). rewrite E1, <- !app_assoc in E5. exact E5.
      * rewrite p_ident_stop by assumption. apply ident_post_stop. apply first_segment_stop; assumption.
Qed.

(* the whole token loop *)
Lemma passthrough_loop (eval_expr : text -> option text) tops : forall fuel i w toks,
  R i w -> no_start tops w = true ->
  scan_all_loop isln lower tops true fuel i = Ok toks ->
  template_tokens eval_expr toks = (unescape_at w, O).
Proof.
  induction fuel as [|f IH]; intros i w toks HR Hns H; [discriminate|].
  cbn [scan_all_loop] in H.
  destruct (scan isln lower tops true i) as [[[ty tok] i']| |] eqn:ES; cbn [bind] in H; try discriminate.
  pose proof (scan_ref isln lower isln_eof tops true _ _ _ _ _ HR ES) as HS.
  assert (Hbody : (let '(pt, pk, pr) := p_scan_body isln true w in ty = pt /\ tok = pk /\ R i' pr) ->
                  template_tokens eval_expr toks = (unescape_at w, O)).
  { unfold p_scan_body. intros (-> & -> & HR'). cbn [toktype_eqb] in H.
    destruct (scan_all_loop isln lower tops true f i') as [rest| |] eqn:EL; cbn [bind] in H; try discriminate.
    inversion H; subst. destruct (body_spec tops w Hns) as [E1 E2].
    cbn [template_tokens]. rewrite (IH _ _ _ HR' E2 EL). rewrite E1. reflexivity. }
  destruct w as [|c r].
  { cbn [p_scan] in HS. destruct HS as (-> & -> & _). cbn [toktype_eqb] in H. inversion H. reflexivity. }
  cbn [p_scan] in HS. destruct (N.eqb_spec c r_at) as [->|Hc]; [|exact (Hbody HS)].
  destruct r as [|d r']; [exact (Hbody HS)|].
  cbn [no_start] in Hns. change (r_at =? r_at) with true in Hns. cbv iota in Hns.
  destruct (N.eqb_spec d r_lparen) as [->|Hl].
  { change (r_lparen =? r_at) with false in Hns. cbv iota in Hns. discriminate. }
  destruct (N.eqb_spec d r_at) as [->|Ha]; [exact (Hbody HS)|].
  destruct (name_char d) eqn:EN; [|exact (Hbody HS)].
  apply andb_prop in Hns. destruct Hns as [Hrej Hns].
  unfold p_scan_ident in HS.
  assert (Hd : d <> r_dot) by (intros ->; rewrite name_char_dot in EN; discriminate).
  (* first iteration of the identifier loop: d is a name character *)
  pose proof (ident_spec r' [d] []) as HI.
  assert (Hstep : p_ident isln (d :: r') [] [] = p_ident isln r' [d] []).
  { rewrite p_ident_name by assumption. reflexivity. }
  rewrite Hstep in HS. destruct (p_ident isln r' [d] []) as [[b' t'] k].
  destruct HI as (idp & E1 & E2 & E3 & _ & E5).
  specialize (E5 eq_refl ltac:(discriminate)).
  assert (Hfs : first_segment (d :: r') = [d] ++ first_segment r').
  { rewrite first_segment_name by assumption. reflexivity. }
  rewrite E5, <- Hfs in HS. apply negb_true_iff in Hrej. rewrite Hrej in HS.
  destruct HS as (-> & -> & HR'). cbn [toktype_eqb] in H.
  destruct (scan_all_loop isln lower tops true f i') as [rest| |] eqn:EL; cbn [bind] in H; try discriminate.
  inversion H; subst. cbn [template_tokens].
  assert (Hk : no_start tops k = true).
  { rewrite <- Hns. symmetry. apply no_start_app_noat. exact E3. }
  rewrite (IH _ _ _ HR' Hk EL).
  rewrite unescape_at_at_other by exact Ha.
  change (d :: idp ++ k) with ((d :: idp) ++ k). rewrite unescape_at_app_noat.
  2:{ intros [Hx|Hx]; [congruence|contradiction]. }
  reflexivity.
Qed.

(* Evaluator.Template (allowed top levels = Some tops, unescapeBody = true) on expression-free text, for
   every expression evaluator: nothing is evaluated, no error is collected, the output is the text with "@@"
   replaced by "@" *)
Theorem body_passthrough (eval_expr : text -> option text) tops t :
  nulfree t -> no_start (Some tops) t = true ->
  template_with isln lower eval_expr tops t = Ok (unescape_at t, O).
Proof.
  intros Hn Hs. unfold template_with. destruct t as [|c t']; [reflexivity|].
  destruct (scan_all_ok isln lower (Some tops) true (c :: t')) as (toks & HT).
  rewrite HT; cbn [bind]. unfold scan_all in HT.
  rewrite (passthrough_loop eval_expr (Some tops) _ _ _ _ (R_new _ Hn) Hs HT). reflexivity.
Qed.

(* with SetUnescapeBody(false) (refactor.Template, HasExpressions) the text is returned verbatim: stated on the
   token list, for any allowed list including nil *)
End Body.

(* the hypotheses of [body_passthrough] are satisfiable and the statement is not vacuous: an e-mail address, a
   mention, "@@", a trailing '@' and "@." with allowed top levels foo and contact *)
Example body_passthrough_witness :
  let isln := fun c => ((48 <=? c) && (c <=? 57)) || ((65 <=? c) && (c <=? 90)) || ((97 <=? c) && (c <=? 122)) in
  let lower := fun c => if (65 <=? c) && (c <=? 90) then c + 32 else c in
  let tops := [[102; 111; 111]; [99; 111; 110; 116; 97; 99; 116]] in
  (* bob@Nyaruka.com hi @bar.x @@foo @. @ *)
  let t := [98; 111; 98; 64; 78; 121; 97; 114; 117; 107; 97; 46; 99; 111; 109; 32; 104; 105; 32; 64; 98; 97; 114; 46; 120;
            32; 64; 64; 102; 111; 111; 32; 64; 46; 32; 64] in
  isln eof = false /\ isln r_dot = false /\ isln r_at = false /\ nulfree t
  /\ no_start isln lower (Some tops) t = true
  /\ unescape_at t <> t
  /\ no_start isln lower (Some tops) [64; 70; 111; 111; 46; 120] = false.     (* @Foo.x is an expression *)
Proof.
  cbv zeta. repeat split; try reflexivity.
  - repeat constructor; discriminate.
  - vm_compute. discriminate.
Qed.

(* ---------------------------------------------------------------------------------------------- *)
(* C12, second sentence, scanner side: an expression whose text literals are read by the two-state rule
   (a backslash protects the next rune) is cut out exactly. *)

Section Literal.
Variable isln : rune -> bool.
Variable lower : rune -> rune.
Hypothesis isln_eof : isln eof = false.

(* inside a literal: a body accepted by Quote.body_scan is read up to the closing quote that follows it *)
Lemma lit_mode : forall l esc p rest, body_scan esc l = true ->
  p_expr (MLit esc) p (l ++ r_quote :: rest) =
  let '(o, p', k) := p_expr MNorm p rest in (l ++ r_quote :: o, p', k).
Proof.
  induction l as [|c l IH]; intros esc p rest H.
  - cbn [body_scan] in H. apply negb_true_iff in H. subst esc. cbn [app p_expr].
    change (r_quote =? r_quote) with true. cbn [negb andb pre].
    destruct (p_expr MNorm p rest) as [[o p'] k]. reflexivity.
  - cbn [body_scan] in H. cbn [app p_expr]. destruct esc.
    + rewrite andb_false_r. replace (if c =? r_bslash then negb true else false) with false
        by (destruct (c =? r_bslash); reflexivity).
      rewrite (IH _ _ _ H). destruct (p_expr MNorm p rest) as [[o p'] k]. reflexivity.
    + change r_bslash with 92. change r_quote with 34 in *. destruct (c =? 92) eqn:EB.
      * apply N.eqb_eq in EB. subst c. change (92 =? 34) with false. cbn [andb negb].
        rewrite (IH _ _ _ H). destruct (p_expr MNorm p rest) as [[o p'] k]. reflexivity.
      * destruct ((c =? 34) || (c =? 10)) eqn:EQ; [discriminate|]. apply orb_false_elim in EQ. destruct EQ as [EQ _].
        rewrite EQ. cbn [andb]. rewrite (IH _ _ _ H). destruct (p_expr MNorm p rest) as [[o p'] k]. reflexivity.
Qed.

(* "scanner-closed": the scanner, started after "@(", returns exactly e when e is followed by ')' *)
Definition closed_expr (e : text) : Prop :=
  forall rest, p_expr MNorm 1 (e ++ r_rparen :: rest) = (e, O, rest).

Lemma quoted_closed printable s : printable 10 = false -> closed_expr (quote printable s).
Proof.
  intros Hnl rest. unfold quote. cbn [app p_expr]. change (34 =? r_quote) with true. cbv iota.
  rewrite <- app_assoc. cbn [app]. change 34 with r_quote at 2.
  rewrite lit_mode by (apply quote_body_scan; exact Hnl).
  cbn [p_expr]. change (r_rparen =? r_quote) with false. change (r_rparen =? r_lparen) with false.
  change (r_rparen =? r_rparen) with true. cbn [Nat.pred Nat.eqb pre]. reflexivity.
Qed.

(* two closed expressions joined by text that contains no quote and no parenthesis *)
Lemma p_expr_plain : forall m p rest, Forall (fun c => c <> r_quote /\ c <> r_lparen /\ c <> r_rparen) m ->
  p_expr MNorm p (m ++ rest) = let '(o, p', k) := p_expr MNorm p rest in (m ++ o, p', k).
Proof.
  induction m as [|c m IH]; intros p rest H.
  - cbn [app]. destruct (p_expr MNorm p rest) as [[o p'] k]. reflexivity.
  - inversion H as [|? ? (H1 & H2 & H3) H4]; subst. cbn [app p_expr].
    destruct (N.eqb_spec c r_quote); [contradiction|]. destruct (N.eqb_spec c r_lparen); [contradiction|].
    destruct (N.eqb_spec c r_rparen); [contradiction|].
    rewrite (IH _ _ H4). destruct (p_expr MNorm p rest) as [[o p'] k]. reflexivity.
Qed.

Lemma quoted_pair_closed printable s m t : printable 10 = false ->
  Forall (fun c => c <> r_quote /\ c <> r_lparen /\ c <> r_rparen) m ->
  closed_expr (quote printable s ++ m ++ quote printable t).
Proof.
  intros Hnl Hm rest. unfold quote at 1. cbn [app p_expr]. change (34 =? r_quote) with true. cbv iota.
  rewrite <- !app_assoc. cbn [app]. change 34 with r_quote at 2.
  rewrite lit_mode by (apply quote_body_scan; exact Hnl).
  rewrite (p_expr_plain m 1 _ Hm).
  rewrite (quoted_closed printable t Hnl rest). cbn [pre].
  unfold quote at 2. cbn [app]. rewrite <- !app_assoc. reflexivity.
Qed.

(* a template that consists of one expression: one EXPRESSION token, then EOF *)
Lemma single_expression (eval_expr : text -> option text) tops e :
  nulfree e -> closed_expr e ->
  template_with isln lower eval_expr tops (r_at :: r_lparen :: e ++ [r_rparen]) =
  Ok (match eval_expr e with Some v => (v, O) | None => ([], 1%nat) end).
Proof.
  intros Hn Hc. unfold template_with.
  set (w := r_at :: r_lparen :: e ++ [r_rparen]).
  destruct (scan_all_ok isln lower (Some tops) true w) as (toks & HT).
  rewrite HT; cbn [bind]. f_equal. unfold scan_all in HT.
  assert (HR : R (new_input w) w).
  { apply R_new. unfold w. apply nulfree_cons; split; [discriminate|]. apply nulfree_cons; split; [discriminate|].
    apply nulfree_app; split; [exact Hn|]. repeat constructor. discriminate. }
  cbn [length scan_all_loop] in HT.
  destruct (scan isln lower (Some tops) true (new_input w)) as [[[ty tok] i1]| |] eqn:E1; cbn [bind] in HT; try discriminate.
  pose proof (scan_ref isln lower isln_eof _ _ _ _ _ _ _ HR E1) as H1.
  unfold w in H1. cbn [p_scan] in H1. change (r_at =? r_at) with true in H1.
  change (r_lparen =? r_lparen) with true in H1. cbv iota in H1.
  unfold p_scan_expr in H1. rewrite (Hc []) in H1. cbn [Nat.eqb] in H1. destruct H1 as (-> & -> & HR1).
  cbn [toktype_eqb] in HT.
  destruct (length (e ++ [r_rparen])) as [|n] eqn:EL.
  { destruct e; discriminate. }
  cbn [scan_all_loop] in HT.
  destruct (scan isln lower (Some tops) true i1) as [[[ty2 tok2] i2]| |] eqn:E2; cbn [bind] in HT; try discriminate.
  pose proof (scan_ref isln lower isln_eof _ _ _ _ _ _ _ HR1 E2) as H2.
  cbn [p_scan] in H2. destruct H2 as (-> & -> & _). cbn [toktype_eqb bind] in HT.
  inversion HT; subst. cbn [template_tokens]. destruct (eval_expr e); [rewrite app_nil_r|]; reflexivity.
Qed.

End Literal.
