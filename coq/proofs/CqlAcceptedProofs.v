(* proofs/CqlAcceptedProofs.v — what ParseQuery accepts is a valid tree (the hypothesis of the round-trip theorem),
   for every environment whose tables satisfy [env_ok]: lower-casing keeps the grammar's letter and key classes and
   is idempotent on key characters and is the ASCII map on ASCII, valid URN schemes are writable keys, the URN and
   phone parsers return valid code points.  Hence: every accepted query re-parses to itself after formatting. *)
From Coq Require Import List Arith NArith Bool Lia.
From Verif Require Import lib.Quote lib.RegexLM proofs.QuoteProofs model.CqlSyntax gen.GrammarCQL
  model.CqlPrinter model.CqlParser proofs.CqlQuoteProofs proofs.CqlRegexProofs proofs.CqlLexProofs
  proofs.CqlGrammarFacts proofs.CqlSimplifyProofs proofs.CqlLexPrintProofs proofs.CqlParserProofs
  proofs.CqlParseProofs proofs.CqlRoundTripProofs proofs.CqlRegexSound.
Import ListNotations.
Close Scope N_scope.

(* ---- which rule made a token ------------------------------------------------------------------------------------ *)

Lemma rule_cases ru : In ru lexer_rules ->
  ru = rule_at 0 \/ ru = rule_at 1 \/ ru = rule_at 2 \/ ru = rule_at 3 \/ ru = rule_at 4 \/ ru = rule_at 5
  \/ ru = rule_at 6 \/ ru = rule_at 7 \/ ru = rule_at 8 \/ ru = rule_at 9.
Proof. rewrite lexer_rules_split. cbn [In]. intuition. Qed.

Lemma kinds_at : map (fun i => r_kind (rule_at i)) (seq 0 10)
  = [LPAREN; RPAREN; AND; OR; COMPARATOR; STRING; PROPERTY; TEXT; WS; ERROR].
Proof. reflexivity. Qed.

Lemma kind_at i k : nth_error [LPAREN; RPAREN; AND; OR; COMPARATOR; STRING; PROPERTY; TEXT; WS; ERROR] i = Some k ->
  i < 10 -> r_kind (rule_at i) = k.
Proof.
  intros H Hi. rewrite <- kinds_at in H.
  do 10 (destruct i as [|i]; [cbn in H; inversion H; reflexivity|]). lia.
Qed.

Lemma rule_of_kind ru k i : In ru lexer_rules -> r_kind ru = k ->
  nth_error [LPAREN; RPAREN; AND; OR; COMPARATOR; STRING; PROPERTY; TEXT; WS; ERROR] i = Some k ->
  (forall j, j < 10 -> nth_error [LPAREN; RPAREN; AND; OR; COMPARATOR; STRING; PROPERTY; TEXT; WS; ERROR] j = Some k -> j = i) ->
  ru = rule_at i.
Proof.
  intros Hin Hk Hi Huniq.
  destruct (rule_cases ru Hin) as [E|[E|[E|[E|[E|[E|[E|[E|[E|E]]]]]]]]]; subst ru;
    match goal with |- rule_at ?j = _ =>
      assert (Hj : nth_error [LPAREN; RPAREN; AND; OR; COMPARATOR; STRING; PROPERTY; TEXT; WS; ERROR] j = Some k)
        by (rewrite <- Hk; symmetry; cbn [nth_error]; f_equal; symmetry; apply (kind_at j); [reflexivity|lia]);
      rewrite (Huniq j ltac:(lia) Hj); reflexivity
    end.
Qed.

Lemma property_rule ru : In ru lexer_rules -> r_kind ru = PROPERTY -> ru = rule_at 6.
Proof.
  intros H K. apply (rule_of_kind ru PROPERTY 6 H K eq_refl).
  intros j Hj E. do 10 (destruct j as [|j]; [cbn in E; try discriminate; reflexivity|]). lia.
Qed.

Lemma comparator_rule ru : In ru lexer_rules -> r_kind ru = COMPARATOR -> ru = rule_at 4.
Proof.
  intros H K. apply (rule_of_kind ru COMPARATOR 4 H K eq_refl).
  intros j Hj E. do 10 (destruct j as [|j]; [cbn in E; try discriminate; reflexivity|]). lia.
Qed.

(* ---- the language of PROPERTY ------------------------------------------------------------------------------------ *)

Definition prop_shape (t : list N) : Prop :=
  (t <> [] /\ forallb inK t = true)
  \/ (exists a k, t = a ++ 46%N :: k /\ a <> [] /\ forallb inL a = true /\ k <> [] /\ forallb inK k = true).

Lemma matches_property t : matches (r_re (rule_at 6)) t -> prop_shape t.
Proof.
  rewrite re6. intros H.
  apply matches_cat in H. destruct H as (u & v & -> & Hu & Hv).
  apply matches_plus_class in Hv. destruct Hv as [Hv1 Hv2].
  apply matches_alt in Hu. destruct Hu as [Hu|Hu].
  - right. apply matches_cat in Hu. destruct Hu as (a & d & -> & Ha & Hd).
    apply matches_plus_class in Ha. destruct Ha as [Ha1 Ha2].
    apply matches_chr in Hd. destruct Hd as (c & -> & Hc).
    cbn [in_cset] in Hc. rewrite in_ranges_1 in Hc. apply N.eqb_eq in Hc. subst c.
    exists a, v. rewrite <- app_assoc. cbn [app]. auto.
  - left. apply matches_eps in Hu. subst u. cbn [app]. auto.
Qed.

(* ---- the language of COMPARATOR ---------------------------------------------------------------------------------- *)

Definition COMPre : re :=
  Alt (Chr (CRanges [(61, 61)]%N))
  (Alt (Cat (Chr (CRanges [(33, 33)]%N)) (Chr (CRanges [(61, 61)]%N)))
  (Alt (Chr (CRanges [(126, 126)]%N))
  (Alt (Cat (Chr (CRanges [(62, 62)]%N)) (Chr (CRanges [(61, 61)]%N)))
  (Alt (Cat (Chr (CRanges [(60, 60)]%N)) (Chr (CRanges [(61, 61)]%N)))
  (Alt (Chr (CRanges [(60, 60); (62, 62)]%N))
  (Alt frag_HAS frag_IS)))))).

Lemma re4 : r_re (rule_at 4) = COMPre.
Proof. reflexivity. Qed.

Lemma in_pt1 c a : in_ranges c [(a, a)] = true -> c = a.
Proof. rewrite in_ranges_1. apply N.eqb_eq. Qed.

Lemma in_pt2 c a b : in_ranges c [(a, a); (b, b)] = true -> c = a \/ c = b.
Proof.
  cbn [in_ranges]. rewrite orb_false_r. intros H. apply orb_prop in H.
  destruct H as [H|H]; apply andb_prop in H; destruct H as [H1 H2]; apply N.leb_le in H1; apply N.leb_le in H2; [left|right]; lia.
Qed.

Definition comp_texts : list (list N) :=
  [[61]; [33; 61]; [126]; [62; 61]; [60; 61]; [60]; [62];
   [72; 65; 83]; [72; 65; 115]; [72; 97; 83]; [72; 97; 115]; [104; 65; 83]; [104; 65; 115]; [104; 97; 83]; [104; 97; 115];
   [73; 83]; [73; 115]; [105; 83]; [105; 115]]%N.

Ltac split_matches :=
  repeat match goal with
         | H : matches (Alt _ _) _ |- _ => apply matches_alt in H; destruct H as [H|H]
         | H : matches (Cat _ _) _ |- _ =>
             let u := fresh "u" in let v := fresh "v" in let Hu := fresh "Hu" in let Hv := fresh "Hv" in
             apply matches_cat in H; destruct H as (u & v & -> & Hu & Hv)
         | H : matches (Chr _) _ |- _ =>
             let c := fresh "c" in apply matches_chr in H; destruct H as (c & -> & H); cbn [in_cset] in H
         | H : in_ranges _ [(_, _)] = true |- _ => apply in_pt1 in H; subst
         | H : in_ranges _ [(_, _); (_, _)] = true |- _ => apply in_pt2 in H; destruct H as [H|H]; subst
         end.

Lemma matches_comparator t : matches COMPre t -> In t comp_texts.
Proof.
  unfold COMPre, frag_HAS, frag_IS. intros H. split_matches; cbn [app comp_texts In]; tauto.
Qed.

Lemma comp_texts_facts :
  forallb (fun t => forallb (fun c => (c <? 128)%N) t
                    && match lookup_oper (map ascii_lower t) with
                       | OpOther _ => false
                       | o => forallb (fun c => (c <? 128)%N) (oper_text o) && text_eqb (map ascii_lower (oper_text o)) (oper_text o)
                       end) comp_texts = true.
Proof. vm_compute. reflexivity. Qed.
