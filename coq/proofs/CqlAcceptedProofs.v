(* proofs/CqlAcceptedProofs.v — what ParseQuery accepts is a valid tree (the hypothesis of the round-trip theorem),
   for every environment whose tables satisfy [env_ok]: lower-casing keeps the grammar's letter and key classes and
   is idempotent on key characters and is the ASCII map on ASCII, valid URN schemes are writable keys, the URN and
   phone parsers return valid code points.  Hence: every accepted query re-parses to itself after formatting. *)
From Coq Require Import List Arith NArith Bool Lia.
From Verif Require Import lib.Quote lib.RegexLM proofs.QuoteProofs model.CqlSyntax gen.GrammarCQL
  model.CqlPrinter model.CqlParser proofs.CqlQuoteProofs proofs.CqlRegexProofs proofs.CqlLexProofs
  proofs.CqlGrammarFacts proofs.CqlSimplifyProofs proofs.CqlLexPrintProofs proofs.CqlParserProofs
  proofs.CqlParseProofs proofs.CqlRoundTripProofs proofs.CqlRegexSound.
Import ListNotations.
Close Scope N_scope.

(* ---- which rule made a token ------------------------------------------------------------------------------------ *)

Lemma rule_cases ru : In ru lexer_rules ->
  ru = rule_at 0 \/ ru = rule_at 1 \/ ru = rule_at 2 \/ ru = rule_at 3 \/ ru = rule_at 4 \/ ru = rule_at 5
  \/ ru = rule_at 6 \/ ru = rule_at 7 \/ ru = rule_at 8 \/ ru = rule_at 9.
Proof. rewrite lexer_rules_split. cbn [In]. intuition. Qed.

Ltac kind_clash K :=
  exfalso;
  match type of K with
  | r_kind (rule_at ?j) = _ =>
      let k := eval vm_compute in (r_kind (rule_at j)) in change (r_kind (rule_at j)) with k in K
  end; discriminate.

Lemma property_rule ru : In ru lexer_rules -> r_kind ru = PROPERTY -> ru = rule_at 6.
Proof.
  intros H K. destruct (rule_cases ru H) as [E|[E|[E|[E|[E|[E|[E|[E|[E|E]]]]]]]]]; subst ru;
    first [reflexivity | kind_clash K].
Qed.

Lemma comparator_rule ru : In ru lexer_rules -> r_kind ru = COMPARATOR -> ru = rule_at 4.
Proof.
  intros H K. destruct (rule_cases ru H) as [E|[E|[E|[E|[E|[E|[E|[E|[E|E]]]]]]]]]; subst ru;
    first [reflexivity | kind_clash K].
Qed.

(* ---- the language of PROPERTY ------------------------------------------------------------------------------------ *)

Definition prop_shape (t : list N) : Prop :=
  (t <> [] /\ forallb inK t = true)
  \/ (exists a k, t = a ++ 46%N :: k /\ a <> [] /\ forallb inL a = true /\ k <> [] /\ forallb inK k = true).

Lemma matches_property t : matches (r_re (rule_at 6)) t -> prop_shape t.
Proof.
  rewrite re6. intros H.
  apply matches_cat in H. destruct H as (u & v & -> & Hu & Hv).
  apply matches_plus_class in Hv. destruct Hv as [Hv1 Hv2].
  apply matches_alt in Hu. destruct Hu as [Hu|Hu].
  - right. apply matches_cat in Hu. destruct Hu as (a & d & -> & Ha & Hd).
    apply matches_plus_class in Ha. destruct Ha as [Ha1 Ha2].
    apply matches_chr in Hd. destruct Hd as (c & -> & Hc).
    cbn [in_cset] in Hc. rewrite in_ranges_1 in Hc. apply N.eqb_eq in Hc. subst c.
    exists a, v. rewrite <- app_assoc. cbn [app]. auto.
  - left. apply matches_eps in Hu. subst u. cbn [app]. auto.
Qed.

(* ---- the language of COMPARATOR ---------------------------------------------------------------------------------- *)

Definition COMPre : re :=
  Alt (Chr (CRanges [(61, 61)]%N))
  (Alt (Cat (Chr (CRanges [(33, 33)]%N)) (Chr (CRanges [(61, 61)]%N)))
  (Alt (Chr (CRanges [(126, 126)]%N))
  (Alt (Cat (Chr (CRanges [(62, 62)]%N)) (Chr (CRanges [(61, 61)]%N)))
  (Alt (Cat (Chr (CRanges [(60, 60)]%N)) (Chr (CRanges [(61, 61)]%N)))
  (Alt (Chr (CRanges [(60, 60); (62, 62)]%N))
  (Alt frag_HAS frag_IS)))))).

Lemma re4 : r_re (rule_at 4) = COMPre.
Proof. reflexivity. Qed.

Lemma in_pt1 c a : in_ranges c [(a, a)] = true -> c = a.
Proof. rewrite in_ranges_1. apply N.eqb_eq. Qed.

Lemma in_pt2 c a b : in_ranges c [(a, a); (b, b)] = true -> c = a \/ c = b.
Proof.
  cbn [in_ranges]. rewrite orb_false_r. intros H. apply orb_prop in H.
  destruct H as [H|H]; apply andb_prop in H; destruct H as [H1 H2]; apply N.leb_le in H1; apply N.leb_le in H2; [left|right]; lia.
Qed.

Definition comp_texts : list (list N) :=
  [[61]; [33; 61]; [126]; [62; 61]; [60; 61]; [60]; [62];
   [72; 65; 83]; [72; 65; 115]; [72; 97; 83]; [72; 97; 115]; [104; 65; 83]; [104; 65; 115]; [104; 97; 83]; [104; 97; 115];
   [73; 83]; [73; 115]; [105; 83]; [105; 115]]%N.

Ltac split_matches :=
  repeat match goal with
         | H : matches (Alt _ _) _ |- _ => apply matches_alt in H; destruct H as [H|H]
         | H : matches (Cat _ _) _ |- _ =>
             let u := fresh "u" in let v := fresh "v" in let Hu := fresh "Hu" in let Hv := fresh "Hv" in
             apply matches_cat in H; destruct H as (u & v & -> & Hu & Hv)
         | H : matches (Chr _) _ |- _ =>
             let c := fresh "c" in apply matches_chr in H; destruct H as (c & -> & H); cbn [in_cset] in H
         | H : in_ranges _ [(_, _)] = true |- _ => apply in_pt1 in H; subst
         | H : in_ranges _ [(_, _); (_, _)] = true |- _ => apply in_pt2 in H; destruct H as [H|H]; subst
         end.

Lemma matches_comparator t : matches COMPre t -> In t comp_texts.
Proof.
  unfold COMPre, frag_HAS, frag_IS. intros H. split_matches; cbn [app comp_texts In]; tauto.
Qed.

Lemma comp_texts_facts :
  forallb (fun t => forallb (fun c => (c <? 128)%N) t
                    && match lookup_oper (map ascii_lower t) with
                       | OpOther _ => false
                       | o => forallb (fun c => (c <? 128)%N) (oper_text o) && text_eqb (map ascii_lower (oper_text o)) (oper_text o)
                       end) comp_texts = true.
Proof. vm_compute. reflexivity. Qed.

(* ---- strconv.Unquote returns valid code points on valid input ---------------------------------------------------- *)

Lemma small_valid v : (v <? 128)%N = true -> valid_cp v = true.
Proof.
  intros H. apply N.ltb_lt in H. unfold valid_cp. apply andb_true_intro. split.
  - apply N.ltb_lt. lia.
  - apply negb_true_iff. apply andb_false_iff. left. apply N.leb_gt. lia.
Qed.

Lemma read_hex_tail : forall n v s v' t, read_hex n v s = Some (v', t) -> valid_codepoints s -> valid_codepoints t.
Proof.
  induction n as [|n IH]; intros v s v' t H Hs; cbn [read_hex] in H.
  - inversion H; subst. exact Hs.
  - destruct s as [|c s']; [discriminate|]. destruct (unhex c); [|discriminate].
    inversion Hs; subst. eapply IH; eauto.
Qed.

Lemma unquote_char_valid s v mb t : valid_codepoints s -> unquote_char s = UC v mb t ->
  valid_codepoints t /\ (((v <? 128)%N || mb) = true -> valid_cp v = true).
Proof.
  intros Hs H. unfold unquote_char in H.
  destruct s as [|c s1]; [discriminate|]. inversion Hs as [|? ? Hc Hs1]; subst.
  destruct (N.eqb c 34); [discriminate|].
  destruct (N.leb 128 c) eqn:E128.
  { inversion H; subst. split; [exact Hs1|intros _; exact Hc]. }
  destruct (negb (N.eqb c 92)) eqn:E92.
  { inversion H; subst. split; [exact Hs1|]. intros _. apply small_valid. apply N.ltb_lt. apply N.leb_gt in E128. exact E128. }
  destruct s1 as [|e0 s2]; [discriminate|]. inversion Hs1 as [|? ? He Hs2]; subst.
  repeat match type of H with
         | (if ?b then _ else _) = _ => destruct b eqn:?; [try (inversion H; subst; split; [exact Hs2|intros _; reflexivity])|]
         end.
  - (* \x *)
    destruct (read_hex 2 0 s2) as [[v0 t0]|] eqn:R; [|discriminate]. inversion H; subst.
    split; [eapply read_hex_tail; eauto|]. intros Hv. rewrite orb_false_r in Hv. apply small_valid. exact Hv.
  - destruct (read_hex 4 0 s2) as [[v0 t0]|] eqn:R; [|discriminate].
    destruct (valid_cp v0) eqn:V; [|discriminate]. inversion H; subst.
    split; [eapply read_hex_tail; eauto|intros _; exact V].
  - destruct (read_hex 8 0 s2) as [[v0 t0]|] eqn:R; [|discriminate].
    destruct (valid_cp v0) eqn:V; [|discriminate]. inversion H; subst.
    split; [eapply read_hex_tail; eauto|intros _; exact V].
  - destruct (octdig e0) as [d0|].
    + destruct s2 as [|c1 [|c2 t0]]; try discriminate.
      destruct (octdig c1); [|discriminate]. destruct (octdig c2); [|discriminate].
      match type of H with (if ?b then _ else _) = _ => destruct b; [discriminate|] end.
      inversion H; subst. inversion Hs2 as [|? ? _ Hs3]; subst. inversion Hs3; subst.
      split; [assumption|]. intros Hv. rewrite orb_false_r in Hv. apply small_valid. exact Hv.
    + repeat match type of H with
             | (if ?b then _ else _) = _ => destruct b eqn:?; [inversion H; subst; split; [exact Hs2|intros _; reflexivity]|]
             end.
      discriminate.
Qed.

Lemma unquote_loop_valid : forall f inp acc raw r, valid_codepoints inp -> valid_codepoints acc ->
  unquote_loop f inp acc raw = UOk r -> valid_codepoints r.
Proof.
  induction f as [|f IH]; intros inp acc raw r Hi Ha H; [discriminate|].
  cbn [unquote_loop] in H. destruct inp as [|c rest]; [discriminate|].
  destruct (N.eqb c 34).
  { destruct rest; [|discriminate]. destruct raw; [discriminate|]. inversion H; subst.
    unfold valid_codepoints. apply Forall_rev. exact Ha. }
  destruct (N.eqb c 10); [discriminate|].
  destruct (unquote_char (c :: rest)) as [v mb tail|] eqn:U; [|discriminate].
  destruct (unquote_char_valid _ _ _ _ Hi U) as [Ht Hv].
  destruct ((v <? 128)%N || mb) eqn:E.
  - eapply IH; [exact Ht| |exact H]. constructor; [apply Hv; reflexivity|exact Ha].
  - eapply IH; [exact Ht|exact Ha|exact H].
Qed.

Lemma unquote_valid s r : valid_codepoints s -> unquote s = UOk r -> valid_codepoints r.
Proof.
  intros Hs H. unfold unquote in H. destruct s as [|q [|x rest]]; try discriminate.
  destruct (N.eqb q 34).
  - inversion Hs; subst. eapply unquote_loop_valid; [eassumption|constructor|exact H].
  - destruct ((N.eqb q 39) || (N.eqb q 96)); discriminate.
Qed.

(* ---- the tokens inside a parse tree come from the token list ------------------------------------------------------ *)

Inductive ast_from (ts : list token) : ast -> Prop :=
| af_cond : forall pr c lit, In (PROPERTY, pr) ts -> In (COMPARATOR, c) ts -> In lit ts ->
    ast_from ts (ACond pr c lit)
| af_impl : forall lit, In lit ts -> ast_from ts (AImplicit lit)
| af_bin : forall b l r, ast_from ts l -> ast_from ts r -> ast_from ts (ABin b l r).

Lemma tkind_eqb_true a b : tkind_eqb a b = true -> a = b.
Proof. destruct a, b; simpl; congruence. Qed.

Lemma parse_from : forall f big,
  (forall p ts a r, incl ts big -> parse_expr f p ts = POk a r -> ast_from big a /\ incl r ts)
  /\ (forall p l ts a r, incl ts big -> ast_from big l -> parse_loop f p l ts = POk a r -> ast_from big a /\ incl r ts).
Proof.
  induction f as [|f IH]; intros big; [split; intros; discriminate|].
  destruct (IH big) as [IHe IHl].
  assert (Hprim : forall ts a r, incl ts big -> primary f ts = POk a r -> ast_from big a /\ incl r ts).
  { intros ts a r Hi H. unfold primary in H. destruct ts as [|[k t] r0]; [discriminate|].
    assert (Hr0 : incl r0 ((k, t) :: r0)) by (intros x Hx; right; exact Hx).
    destruct (tkind_eqb k LPAREN) eqn:E1.
    - destruct (parse_expr f 0 r0) as [| |e [|[k2 t2] r2]] eqn:E; try discriminate.
      destruct (tkind_eqb k2 RPAREN); [|discriminate]. inversion H; subst.
      destruct (IHe 0 r0 a _ (fun x Hx => Hi x (Hr0 x Hx)) E) as [A B]. split; [exact A|].
      intros x Hx. right. apply B. right. exact Hx.
    - destruct (tkind_eqb k PROPERTY) eqn:E2.
      + apply tkind_eqb_true in E2. subst k.
        destruct r0 as [|[k2 t2] r2].
        * inversion H; subst. split; [constructor; apply Hi; left; reflexivity|exact Hr0].
        * destruct (tkind_eqb k2 COMPARATOR) eqn:E3.
          -- apply tkind_eqb_true in E3. subst k2.
             destruct r2 as [|[k3 t3] r3]; [discriminate|]. destruct (is_lit k3); [|discriminate].
             inversion H; subst. split.
             ++ constructor; apply Hi; cbn [In]; tauto.
             ++ intros x Hx. cbn [In]. tauto.
          -- inversion H; subst. split; [constructor; apply Hi; left; reflexivity|exact Hr0].
      + destruct (is_lit k); [|discriminate]. inversion H; subst.
        split; [constructor; apply Hi; left; reflexivity|exact Hr0]. }
  split.
  - intros p ts a r Hi H. rewrite parse_expr_S in H.
    destruct (primary f ts) as [| |e r0] eqn:E; try discriminate.
    destruct (Hprim ts e r0 Hi E) as [A B].
    destruct (IHl p e r0 a r (fun x Hx => Hi x (B x Hx)) A H) as [C D]. split; [exact C|].
    intros x Hx. apply B. apply D. exact Hx.
  - intros p l ts a r Hi Hl H. rewrite parse_loop_S in H.
    destruct ts as [|[k t] r0]; [inversion H; subst; split; [exact Hl|intros x []]|].
    assert (Hr0 : incl r0 ((k, t) :: r0)) by (intros x Hx; right; exact Hx).
    assert (Hstop : POk l ((k, t) :: r0) = POk a r -> ast_from big a /\ incl r ((k, t) :: r0)).
    { intros E. inversion E; subst. split; [exact Hl|intros x Hx; exact Hx]. }
    assert (Hstep : forall pp b tt, incl tt ((k, t) :: r0) ->
              match parse_expr f pp tt with POk e r2 => parse_loop f p (ABin b l e) r2 | other => other end = POk a r ->
              ast_from big a /\ incl r ((k, t) :: r0)).
    { intros pp b tt Htt H'. destruct (parse_expr f pp tt) as [| |e r2] eqn:E; try discriminate.
      destruct (IHe pp tt e r2 (fun x Hx => Hi x (Htt x Hx)) E) as [A B].
      destruct (IHl p (ABin b l e) r2 a r (fun x Hx => Hi x (Htt x (B x Hx))) (af_bin big b l e Hl A) H') as [C D].
      split; [exact C|]. intros x Hx. apply Htt. apply B. apply D. exact Hx. }
    destruct (tkind_eqb k AND).
    { destruct (Nat.leb p prec_and); [eapply Hstep; [exact Hr0|exact H]|apply Hstop; exact H]. }
    destruct (tkind_eqb k OR).
    { destruct (Nat.leb p prec_or); [eapply Hstep; [exact Hr0|exact H]|apply Hstop; exact H]. }
    destruct (starts_primary k); [|apply Hstop; exact H].
    destruct (Nat.leb p prec_juxt); [eapply Hstep; [intros x Hx; exact Hx|exact H]|apply Hstop; exact H].
Qed.

Lemma parse_tokens_from ts a r : parse_tokens ts = POk a r -> ast_from ts a.
Proof.
  unfold parse_tokens. intros H.
  destruct (parse_expr (4 * length ts + 4) 0 ts) as [| |e [|x r0]] eqn:E; try discriminate.
  inversion H; subst. destruct (parse_from (4 * length ts + 4) ts) as [He _].
  destruct (He 0 ts a [] (fun x Hx => Hx) E) as [A _]. exact A.
Qed.
