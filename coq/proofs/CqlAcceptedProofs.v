(* proofs/CqlAcceptedProofs.v — what ParseQuery accepts is a valid tree (the hypothesis of the round-trip theorem),
   for every environment whose tables satisfy [env_ok]: lower-casing keeps the grammar's letter and key classes and
   is idempotent on key characters and is the ASCII map on ASCII, valid URN schemes are writable keys, the URN and
   phone parsers return valid code points.  Hence: every accepted query re-parses to itself after formatting. *)
From Coq Require Import List Arith NArith Bool Lia.
From Verif Require Import lib.Quote lib.RegexLM proofs.QuoteProofs model.CqlSyntax gen.GrammarCQL
  model.CqlPrinter model.CqlParser proofs.CqlQuoteProofs proofs.CqlRegexProofs proofs.CqlLexProofs
  proofs.CqlGrammarFacts proofs.CqlSimplifyProofs proofs.CqlLexPrintProofs proofs.CqlParserProofs
  proofs.CqlParseProofs proofs.CqlRoundTripProofs proofs.CqlRegexSound.
Import ListNotations.
Close Scope N_scope.

(* ---- which rule made a token ------------------------------------------------------------------------------------ *)

Lemma rule_cases ru : In ru lexer_rules ->
  ru = rule_at 0 \/ ru = rule_at 1 \/ ru = rule_at 2 \/ ru = rule_at 3 \/ ru = rule_at 4 \/ ru = rule_at 5
  \/ ru = rule_at 6 \/ ru = rule_at 7 \/ ru = rule_at 8 \/ ru = rule_at 9.
Proof. rewrite lexer_rules_split. cbn [In]. intuition. Qed.

Ltac kind_clash K :=
  exfalso;
  match type of K with
  | r_kind (rule_at ?j) = _ =>
      let k := eval vm_compute in (r_kind (rule_at j)) in change (r_kind (rule_at j)) with k in K
  end; discriminate.

Lemma property_rule ru : In ru lexer_rules -> r_kind ru = PROPERTY -> ru = rule_at 6.
Proof.
  intros H K. destruct (rule_cases ru H) as [E|[E|[E|[E|[E|[E|[E|[E|[E|E]]]]]]]]]; subst ru;
    first [reflexivity | kind_clash K].
Qed.

Lemma comparator_rule ru : In ru lexer_rules -> r_kind ru = COMPARATOR -> ru = rule_at 4.
Proof.
  intros H K. destruct (rule_cases ru H) as [E|[E|[E|[E|[E|[E|[E|[E|[E|E]]]]]]]]]; subst ru;
    first [reflexivity | kind_clash K].
Qed.

(* ---- the language of PROPERTY ------------------------------------------------------------------------------------ *)

Definition prop_shape (t : list N) : Prop :=
  (t <> [] /\ forallb inK t = true)
  \/ (exists a k, t = a ++ 46%N :: k /\ a <> [] /\ forallb inL a = true /\ k <> [] /\ forallb inK k = true).

Lemma matches_property t : matches (r_re (rule_at 6)) t -> prop_shape t.
Proof.
  rewrite re6. intros H.
  apply matches_cat in H. destruct H as (u & v & -> & Hu & Hv).
  apply matches_plus_class in Hv. destruct Hv as [Hv1 Hv2].
  apply matches_alt in Hu. destruct Hu as [Hu|Hu].
  - right. apply matches_cat in Hu. destruct Hu as (a & d & -> & Ha & Hd).
    apply matches_plus_class in Ha. destruct Ha as [Ha1 Ha2].
    apply matches_chr in Hd. destruct Hd as (c & -> & Hc).
    cbn [in_cset] in Hc. rewrite in_ranges_1 in Hc. apply N.eqb_eq in Hc. subst c.
    exists a, v. rewrite <- app_assoc. cbn [app]. auto.
  - left. apply matches_eps in Hu. subst u. cbn [app]. auto.
Qed.

(* ---- the language of COMPARATOR ---------------------------------------------------------------------------------- *)

Definition COMPre : re :=
  Alt (Chr (CRanges [(61, 61)]%N))
  (Alt (Cat (Chr (CRanges [(33, 33)]%N)) (Chr (CRanges [(61, 61)]%N)))
  (Alt (Chr (CRanges [(126, 126)]%N))
  (Alt (Cat (Chr (CRanges [(62, 62)]%N)) (Chr (CRanges [(61, 61)]%N)))
  (Alt (Cat (Chr (CRanges [(60, 60)]%N)) (Chr (CRanges [(61, 61)]%N)))
  (Alt (Chr (CRanges [(60, 60); (62, 62)]%N))
  (Alt frag_HAS frag_IS)))))).

Lemma re4 : r_re (rule_at 4) = COMPre.
Proof. reflexivity. Qed.

Lemma in_pt1 c a : in_ranges c [(a, a)] = true -> c = a.
Proof. rewrite in_ranges_1. apply N.eqb_eq. Qed.

Lemma in_pt2 c a b : in_ranges c [(a, a); (b, b)] = true -> c = a \/ c = b.
Proof.
  cbn [in_ranges]. rewrite orb_false_r. intros H. apply orb_prop in H.
  destruct H as [H|H]; apply andb_prop in H; destruct H as [H1 H2]; apply N.leb_le in H1; apply N.leb_le in H2; [left|right]; lia.
Qed.

Definition comp_texts : list (list N) :=
  [[61]; [33; 61]; [126]; [62; 61]; [60; 61]; [60]; [62];
   [72; 65; 83]; [72; 65; 115]; [72; 97; 83]; [72; 97; 115]; [104; 65; 83]; [104; 65; 115]; [104; 97; 83]; [104; 97; 115];
   [73; 83]; [73; 115]; [105; 83]; [105; 115]]%N.

Ltac split_matches :=
  repeat match goal with
         | H : matches (Alt _ _) _ |- _ => apply matches_alt in H; destruct H as [H|H]
         | H : matches (Cat _ _) _ |- _ =>
             let u := fresh "u" in let v := fresh "v" in let Hu := fresh "Hu" in let Hv := fresh "Hv" in
             apply matches_cat in H; destruct H as (u & v & -> & Hu & Hv)
         | H : matches (Chr _) _ |- _ =>
             let c := fresh "c" in apply matches_chr in H; destruct H as (c & -> & H); cbn [in_cset] in H
         | H : in_ranges _ [(_, _)] = true |- _ => apply in_pt1 in H; subst
         | H : in_ranges _ [(_, _); (_, _)] = true |- _ => apply in_pt2 in H; destruct H as [H|H]; subst
         end.

Lemma matches_comparator t : matches COMPre t -> In t comp_texts.
Proof.
  unfold COMPre, frag_HAS, frag_IS. intros H. split_matches; cbn [app comp_texts In]; tauto.
Qed.

Lemma comp_texts_facts :
  forallb (fun t => forallb (fun c => (c <? 128)%N) t
                    && match lookup_oper (map ascii_lower t) with
                       | OpOther _ => false
                       | o => forallb (fun c => (c <? 128)%N) (oper_text o) && text_eqb (map ascii_lower (oper_text o)) (oper_text o)
                       end) comp_texts = true.
Proof. vm_compute. reflexivity. Qed.

(* ---- strconv.Unquote returns valid code points on valid input ---------------------------------------------------- *)

Lemma small_valid v : (v <? 128)%N = true -> valid_cp v = true.
Proof.
  intros H. apply N.ltb_lt in H. unfold valid_cp. apply andb_true_intro. split.
  - apply N.ltb_lt. lia.
  - apply negb_true_iff. apply andb_false_iff. left. apply N.leb_gt. lia.
Qed.

Lemma read_hex_tail : forall n v s v' t, read_hex n v s = Some (v', t) -> valid_codepoints s -> valid_codepoints t.
Proof.
  induction n as [|n IH]; intros v s v' t H Hs; cbn [read_hex] in H.
  - inversion H; subst. exact Hs.
  - destruct s as [|c s']; [discriminate|]. destruct (unhex c); [|discriminate].
    inversion Hs; subst. eapply IH; eauto.
Qed.

Lemma unquote_char_valid s v mb t : valid_codepoints s -> unquote_char s = UC v mb t ->
  valid_codepoints t /\ (((v <? 128)%N || mb) = true -> valid_cp v = true).
Proof.
  intros Hs H. unfold unquote_char in H.
  destruct s as [|c s1]; [discriminate|]. inversion Hs as [|? ? Hc Hs1]; subst.
  destruct (N.eqb c 34); [discriminate|].
  destruct (N.leb 128 c) eqn:E128.
  { inversion H; subst. split; [exact Hs1|intros _; exact Hc]. }
  destruct (negb (N.eqb c 92)) eqn:E92.
  { inversion H; subst. split; [exact Hs1|]. intros _. apply small_valid. apply N.ltb_lt. apply N.leb_gt in E128. exact E128. }
  destruct s1 as [|e0 s2]; [discriminate|]. inversion Hs1 as [|? ? He Hs2]; subst.
  repeat match type of H with
         | (if ?b then _ else _) = _ => destruct b eqn:?; [try (inversion H; subst; split; [exact Hs2|intros _; reflexivity])|]
         end.
  - (* \x *)
    destruct (read_hex 2 0 s2) as [[v0 t0]|] eqn:R; [|discriminate]. inversion H; subst.
    split; [eapply read_hex_tail; eauto|]. intros Hv. rewrite orb_false_r in Hv. apply small_valid. exact Hv.
  - destruct (read_hex 4 0 s2) as [[v0 t0]|] eqn:R; [|discriminate].
    destruct (valid_cp v0) eqn:V; [|discriminate]. inversion H; subst.
    split; [eapply read_hex_tail; eauto|intros _; exact V].
  - destruct (read_hex 8 0 s2) as [[v0 t0]|] eqn:R; [|discriminate].
    destruct (valid_cp v0) eqn:V; [|discriminate]. inversion H; subst.
    split; [eapply read_hex_tail; eauto|intros _; exact V].
  - destruct (octdig e0) as [d0|].
    + destruct s2 as [|c1 [|c2 t0]]; try discriminate.
      destruct (octdig c1); [|discriminate]. destruct (octdig c2); [|discriminate].
      match type of H with (if ?b then _ else _) = _ => destruct b; [discriminate|] end.
      inversion H; subst. inversion Hs2 as [|? ? _ Hs3]; subst. inversion Hs3; subst.
      split; [assumption|]. intros Hv. rewrite orb_false_r in Hv. apply small_valid. exact Hv.
    + repeat match type of H with
             | (if ?b then _ else _) = _ => destruct b eqn:?; [inversion H; subst; split; [exact Hs2|intros _; reflexivity]|]
             end.
      discriminate.
Qed.

Lemma unquote_loop_valid : forall f inp acc raw r, valid_codepoints inp -> valid_codepoints acc ->
  unquote_loop f inp acc raw = UOk r -> valid_codepoints r.
Proof.
  induction f as [|f IH]; intros inp acc raw r Hi Ha H; [discriminate|].
  cbn [unquote_loop] in H. destruct inp as [|c rest]; [discriminate|].
  destruct (N.eqb c 34).
  { destruct rest; [|discriminate]. destruct raw; [discriminate|]. inversion H; subst.
    unfold valid_codepoints. apply Forall_rev. exact Ha. }
  destruct (N.eqb c 10); [discriminate|].
  destruct (unquote_char (c :: rest)) as [v mb tail|] eqn:U; [|discriminate].
  destruct (unquote_char_valid _ _ _ _ Hi U) as [Ht Hv].
  destruct ((v <? 128)%N || mb) eqn:E.
  - eapply IH; [exact Ht| |exact H]. constructor; [apply Hv; reflexivity|exact Ha].
  - eapply IH; [exact Ht|exact Ha|exact H].
Qed.

Lemma unquote_valid s r : valid_codepoints s -> unquote s = UOk r -> valid_codepoints r.
Proof.
  intros Hs H. unfold unquote in H. destruct s as [|q [|x rest]]; try discriminate.
  destruct (N.eqb q 34).
  - inversion Hs; subst. eapply unquote_loop_valid; [eassumption|constructor|exact H].
  - destruct ((N.eqb q 39) || (N.eqb q 96)); discriminate.
Qed.

(* ---- the tokens inside a parse tree come from the token list ------------------------------------------------------ *)

Inductive ast_from (ts : list token) : ast -> Prop :=
| af_cond : forall pr c lit, In (PROPERTY, pr) ts -> In (COMPARATOR, c) ts -> In lit ts ->
    ast_from ts (ACond pr c lit)
| af_impl : forall lit, In lit ts -> ast_from ts (AImplicit lit)
| af_bin : forall b l r, ast_from ts l -> ast_from ts r -> ast_from ts (ABin b l r).

Lemma tkind_eqb_true a b : tkind_eqb a b = true -> a = b.
Proof. destruct a, b; simpl; congruence. Qed.

Lemma parse_from : forall f big,
  (forall p ts a r, incl ts big -> parse_expr f p ts = POk a r -> ast_from big a /\ incl r ts)
  /\ (forall p l ts a r, incl ts big -> ast_from big l -> parse_loop f p l ts = POk a r -> ast_from big a /\ incl r ts).
Proof.
  induction f as [|f IH]; intros big; [split; intros; discriminate|].
  destruct (IH big) as [IHe IHl].
  assert (Hprim : forall ts a r, incl ts big -> primary f ts = POk a r -> ast_from big a /\ incl r ts).
  { intros ts a r Hi H. unfold primary in H. destruct ts as [|[k t] r0]; [discriminate|].
    assert (Hr0 : incl r0 ((k, t) :: r0)) by (intros x Hx; right; exact Hx).
    destruct (tkind_eqb k LPAREN) eqn:E1.
    - destruct (parse_expr f 0 r0) as [| |e [|[k2 t2] r2]] eqn:E; try discriminate.
      destruct (tkind_eqb k2 RPAREN); [|discriminate]. inversion H; subst.
      destruct (IHe 0 r0 a _ (fun x Hx => Hi x (Hr0 x Hx)) E) as [A B]. split; [exact A|].
      intros x Hx. right. apply B. right. exact Hx.
    - destruct (tkind_eqb k PROPERTY) eqn:E2.
      + apply tkind_eqb_true in E2. subst k.
        destruct r0 as [|[k2 t2] r2].
        * inversion H; subst. split; [constructor; apply Hi; left; reflexivity|exact Hr0].
        * destruct (tkind_eqb k2 COMPARATOR) eqn:E3.
          -- apply tkind_eqb_true in E3. subst k2.
             destruct r2 as [|[k3 t3] r3]; [discriminate|]. destruct (is_lit k3); [|discriminate].
             inversion H; subst. split.
             ++ constructor; apply Hi; cbn [In]; tauto.
             ++ intros x Hx. cbn [In]. tauto.
          -- inversion H; subst. split; [constructor; apply Hi; left; reflexivity|exact Hr0].
      + destruct (is_lit k); [|discriminate]. inversion H; subst.
        split; [constructor; apply Hi; left; reflexivity|exact Hr0]. }
  split.
  - intros p ts a r Hi H. rewrite parse_expr_S in H.
    destruct (primary f ts) as [| |e r0] eqn:E; try discriminate.
    destruct (Hprim ts e r0 Hi E) as [A B].
    destruct (IHl p e r0 a r (fun x Hx => Hi x (B x Hx)) A H) as [C D]. split; [exact C|].
    intros x Hx. apply B. apply D. exact Hx.
  - intros p l ts a r Hi Hl H. rewrite parse_loop_S in H.
    destruct ts as [|[k t] r0]; [inversion H; subst; split; [exact Hl|intros x []]|].
    assert (Hr0 : incl r0 ((k, t) :: r0)) by (intros x Hx; right; exact Hx).
    assert (Hstop : POk l ((k, t) :: r0) = POk a r -> ast_from big a /\ incl r ((k, t) :: r0)).
    { intros E. inversion E; subst. split; [exact Hl|intros x Hx; exact Hx]. }
    assert (Hstep : forall pp b tt, incl tt ((k, t) :: r0) ->
              match parse_expr f pp tt with POk e r2 => parse_loop f p (ABin b l e) r2 | other => other end = POk a r ->
              ast_from big a /\ incl r ((k, t) :: r0)).
    { intros pp b tt Htt H'. destruct (parse_expr f pp tt) as [| |e r2] eqn:E; try discriminate.
      destruct (IHe pp tt e r2 (fun x Hx => Hi x (Htt x Hx)) E) as [A B].
      destruct (IHl p (ABin b l e) r2 a r (fun x Hx => Hi x (Htt x (B x Hx))) (af_bin big b l e Hl A) H') as [C D].
      split; [exact C|]. intros x Hx. apply Htt. apply B. apply D. exact Hx. }
    destruct (tkind_eqb k AND).
    { destruct (Nat.leb p prec_and); [eapply Hstep; [exact Hr0|exact H]|apply Hstop; exact H]. }
    destruct (tkind_eqb k OR).
    { destruct (Nat.leb p prec_or); [eapply Hstep; [exact Hr0|exact H]|apply Hstop; exact H]. }
    destruct (starts_primary k); [|apply Hstop; exact H].
    destruct (Nat.leb p prec_juxt); [eapply Hstep; [intros x Hx; exact Hx|exact H]|apply Hstop; exact H].
Qed.

Lemma parse_tokens_from ts a r : parse_tokens ts = POk a r -> ast_from ts a.
Proof.
  unfold parse_tokens. intros H.
  destruct (parse_expr (4 * length ts + 4) 0 ts) as [| |e [|x r0]] eqn:E; try discriminate.
  inversion H; subst. destruct (parse_from (4 * length ts + 4) ts) as [He _].
  destruct (He 0 ts a [] (fun x Hx => Hx) E) as [A _]. exact A.
Qed.

(* ---- the environment ------------------------------------------------------------------------------------------------ *)

(* table facts about the environment as a whole *)
Record env_ok (e : penv) : Prop := {
  lower_ascii : forall c, (c <? 128)%N = true -> pe_lower e c = ascii_lower c;
  schemes_ok : forall k, pe_valid_scheme e k = true -> key_chars k /\ lower e k = k;
  urn_ok : forall v s pth, pe_urn e v = Some (s, pth) -> valid_codepoints pth;
  phone_ok : forall s n, pe_phone e s = Some n -> forallb (fun c => (c <? 128)%N) n = true
}.

(* ... and the one fact asked of single characters — of the characters of the query text only: lower-casing keeps
   the character in the grammar's key / letter class and is idempotent on it.  It fails for exactly the characters of
   the known finding (U+13A0 ... whose lower-case forms the grammar's tables lack). *)
Definition lowok (e : penv) (c : N) : Prop :=
  (inK c = true -> inK (pe_lower e c) = true /\ pe_lower e (pe_lower e c) = pe_lower e c)
  /\ (inL c = true -> inL (pe_lower e c) = true).

Lemma ascii_lowok_table :
  forallb (fun c => (negb (inK c) || (inK (ascii_lower c) && N.eqb (ascii_lower (ascii_lower c)) (ascii_lower c)))
                    && (negb (inL c) || inL (ascii_lower c)) && (ascii_lower c <? 128)%N)
          (map N.of_nat (seq 0 128)) = true.
Proof. vm_compute. reflexivity. Qed.

Section Accepted.
  Variable e : penv.
  Hypothesis Henv : env_ok e.

  Definition is_ascii (s : list N) : bool := forallb (fun c => (c <? 128)%N) s.

  Lemma lowok_ascii c : (c <? 128)%N = true -> lowok e c.
  Proof.
    intros H. pose proof ascii_lowok_table as T. rewrite forallb_forall in T.
    assert (Hin : In c (map N.of_nat (seq 0 128))).
    { apply N.ltb_lt in H. apply in_map_iff. exists (N.to_nat c). split; [apply N2Nat.id|]. apply in_seq. lia. }
    specialize (T c Hin). apply andb_prop in T. destruct T as [T T3]. apply andb_prop in T. destruct T as [T1 T2].
    unfold lowok. rewrite (lower_ascii e Henv c H). rewrite (lower_ascii e Henv _ T3).
    split; intros Hc; rewrite Hc in *; cbn [negb orb] in *.
    - apply andb_prop in T1. destruct T1 as [A B]. apply N.eqb_eq in B. split; assumption.
    - exact T2.
  Qed.

  Lemma lowok_ascii_str s : is_ascii s = true -> Forall (lowok e) s.
  Proof. unfold is_ascii. rewrite forallb_forall. intros H. apply Forall_forall. intros c Hc. apply lowok_ascii. auto. Qed.

  Lemma lower_ascii_str s : is_ascii s = true -> lower e s = map ascii_lower s.
  Proof.
    unfold lower, is_ascii. induction s as [|c s IH]; [reflexivity|]. cbn [forallb map]. intros H.
    apply andb_prop in H. destruct H as [H1 H2]. rewrite (lower_ascii e Henv c H1), IH by exact H2. reflexivity.
  Qed.

  Lemma lower_fixed s : is_ascii s = true -> text_eqb (map ascii_lower s) s = true -> lower e s = s.
  Proof. intros H1 H2. rewrite lower_ascii_str by exact H1. apply text_eqb_eq. exact H2. Qed.

  Lemma lower_K s : Forall (lowok e) s -> forallb inK s = true ->
    forallb inK (lower e s) = true /\ lower e (lower e s) = lower e s.
  Proof.
    unfold lower. induction 1 as [|c s [Hc _] Hs IH]; [split; reflexivity|]. cbn [forallb map]. intros H.
    apply andb_prop in H. destruct H as [H1 H2]. destruct (IH H2) as [A B]. destruct (Hc H1) as [C D].
    rewrite C, A, D, B. split; reflexivity.
  Qed.

  Lemma lower_L_nodot s : Forall (lowok e) s -> forallb inL s = true ->
    forallb (fun c => negb (N.eqb c 46)) (lower e s) = true.
  Proof.
    unfold lower. induction 1 as [|c s [_ Hc] Hs IH]; [reflexivity|]. cbn [forallb map]. intros H.
    apply andb_prop in H. destruct H as [H1 H2]. rewrite (IH H2), andb_true_r.
    pose proof (Hc H1) as HL. apply negb_true_iff. apply N.eqb_neq. intros E. rewrite E in HL.
    destruct class_facts as (_ & _ & D & _). congruence.
  Qed.

  (* conditions as the visitor can produce them, the validator aside *)
  Definition cond_pre (pt : ptype) (key : list N) (o : oper) (v : list N) : Prop :=
    key_ok pt key /\ op_ok o
    /\ lower e (prop_prefix pt ++ key) = prop_prefix pt ++ key
    /\ lower e (oper_text o) = oper_text o
    /\ valid_codepoints v
    /\ (redacted e v = true -> pt = PField \/ (pt = PAttr /\ key <> AttributeURN)).

  Inductive pre_tree : node -> Prop :=
  | pt_cond : forall pt key o v, cond_pre pt key o v -> pre_tree (Cond pt key o v)
  | pt_comb : forall b ch, Forall pre_tree ch -> pre_tree (Comb b ch).

  Lemma pre_tree_valid : forall n, pre_tree n -> conditions_valid e n = true -> valid_tree e n.
  Proof.
    induction n as [pt key o v|b ch IH] using node_ind'; intros Hp Hc.
    - inversion Hp as [? ? ? ? (A & B & C & D & E & F)|]; subst. constructor. cbn [conditions_valid] in Hc.
      repeat split; assumption.
    - inversion Hp as [|? ? Hch]; subst. cbn [conditions_valid] in Hc. constructor.
      rewrite Forall_forall in *. rewrite forallb_forall in Hc. intros c Hin. apply IH; auto.
  Qed.

  Lemma mk_cond_pre pt key o v :
    key_ok pt key -> op_ok o -> lower e (prop_prefix pt ++ key) = prop_prefix pt ++ key ->
    lower e (oper_text o) = oper_text o -> valid_codepoints v ->
    (redacted e v = true -> pt = PField \/ (pt = PAttr /\ key <> AttributeURN)) -> cond_pre pt key o v.
  Proof. intros. repeat split; assumption. Qed.

  (* operators *)
  Lemma oper_of_comp c : In c comp_texts ->
    op_ok (lookup_oper (lower e c)) /\ lower e (oper_text (lookup_oper (lower e c))) = oper_text (lookup_oper (lower e c)).
  Proof.
    intros H. pose proof comp_texts_facts as F. rewrite forallb_forall in F. specialize (F c H).
    apply andb_prop in F. destruct F as [F1 F2]. rewrite (lower_ascii_str c F1).
    destruct (lookup_oper (map ascii_lower c)) eqn:E; try discriminate;
      (apply andb_prop in F2; destruct F2 as [F2 F3]; split; [intros t; discriminate|apply lower_fixed; assumption]).
  Qed.

  Lemma lookup_In {A} k (l : list (list N * A)) x : lookup k l = Some x -> In (k, x) l.
  Proof.
    induction l as [|[k' y] l IH]; cbn [lookup]; [discriminate|].
    destruct (text_eqb k k') eqn:E.
    - intros H. inversion H; subst. apply text_eqb_eq in E. subst. left. reflexivity.
    - intros H. right. auto.
  Qed.

  Lemma prefix_lower : lower e prefix_fields = prefix_fields /\ lower e prefix_urns = prefix_urns
    /\ lower e [46%N] = [46%N].
  Proof. repeat split; apply lower_fixed; reflexivity. Qed.

  Lemma lower_app a b : lower e (a ++ b) = lower e a ++ lower e b.
  Proof. unfold lower. apply map_app. Qed.

  Lemma text_eqb_neq a b : text_eqb a b = false -> a <> b.
  Proof. intros H E. subst. rewrite text_eqb_refl in H. discriminate. Qed.

  (* VisitCondition *)
  Lemma visit_condition_pre pr c v n : Forall (lowok e) pr -> prop_shape pr -> In c comp_texts -> valid_codepoints v ->
    visit_condition e pr c v = (n, []) -> exists pt key o, n = Cond pt key o v /\ cond_pre pt key o v.
  Proof.
    intros Hlow Hs Hc Hv H. destruct (oper_of_comp c Hc) as [Ho Hol].
    destruct prefix_lower as (PF & PU & PD).
    unfold visit_condition in H. fold (redacted e v) in H.
    set (o := lookup_oper (lower e c)) in *.
    destruct Hs as [[Hne Hk]|(a & k & -> & Hane & Ha & Hkne & Hk)].
    - (* no prefix *)
      destruct (lower_K pr Hlow Hk) as [HlK Hidem].
      assert (Hlne : lower e pr <> []) by (destruct pr; [congruence|discriminate]).
      rewrite (split_dot_key (lower e pr) HlK) in H.
      destruct (is_attribute (lower e pr)) eqn:EA.
      + inversion H as [[En Ee]]. exists PAttr, (lower e pr), o. split; [reflexivity|].
        unfold is_attribute in EA. destruct (lookup (lower e pr) attributes) as [ft|] eqn:EL; [|discriminate].
        apply mk_cond_pre; try assumption.
        * exists ft. apply lookup_In. exact EL.
        * intros Hr. right. split; [reflexivity|]. rewrite Hr, andb_true_r in Ee.
          destruct (text_eqb (lower e pr) AttributeURN) eqn:EU; [discriminate|]. apply text_eqb_neq. exact EU.
      + destruct (pe_valid_scheme e (lower e pr)) eqn:ES.
        * inversion H as [[En Ee]]. exists PURN, (lower e pr), o. split; [reflexivity|].
          destruct (schemes_ok e Henv _ ES) as [Hkc Hkl].
          apply mk_cond_pre; try assumption.
          -- cbn [prop_prefix]. rewrite lower_app, PU, Hkl. reflexivity.
          -- intros Hr. rewrite Hr in Ee. discriminate.
        * inversion H; subst. exists PField, (lower e pr), o. split; [reflexivity|].
          apply mk_cond_pre; try assumption.
          -- split; assumption.
          -- cbn [prop_prefix]. rewrite lower_app, PF, Hidem. reflexivity.
          -- intros _. left. reflexivity.
    - (* type.key *)
      apply Forall_app in Hlow. destruct Hlow as [Hlowa Hlowk]. inversion Hlowk as [|? ? _ Hlowk']; subst.
      destruct (lower_K k Hlowk' Hk) as [HlK Hidem].
      assert (Hlne : lower e k <> []) by (destruct k; [congruence|discriminate]).
      rewrite lower_app in H. change (46%N :: k) with ([46%N] ++ k) in H. rewrite lower_app, PD in H. cbn [app] in H.
      rewrite (split_dot_prefixed (lower e a) (lower e k) HlK (lower_L_nodot a Hlowa Ha)) in H.
      destruct (text_eqb (lower e a) k_fields) eqn:EF.
      + inversion H; subst. exists PField, (lower e k), o. split; [reflexivity|].
        apply mk_cond_pre; try assumption.
        * split; assumption.
        * cbn [prop_prefix]. rewrite lower_app, PF, Hidem. reflexivity.
        * intros _. left. reflexivity.
      + destruct (text_eqb (lower e a) k_urns) eqn:EU; [|inversion H].
        inversion H as [[En Ee]]. exists PURN, (lower e k), o. split; [reflexivity|].
        apply mk_cond_pre; try assumption.
        * split; assumption.
        * cbn [prop_prefix]. rewrite lower_app, PU, Hidem. reflexivity.
        * intros Hr. rewrite Hr in Ee. discriminate.
  Qed.

  (* strconv.Itoa *)
  Lemma pos_digits_ascii : forall f n acc, Forall (fun c => (c < 128)%N) acc -> Forall (fun c => (c < 128)%N) (pos_digits f n acc).
  Proof.
    induction f as [|f IH]; intros n acc H; cbn [pos_digits]; [exact H|].
    assert (Hd : (48 + n mod 10 < 128)%N) by (pose proof (N.mod_lt n 10 ltac:(discriminate)); lia).
    destruct (N.eqb (n / 10) 0); [constructor; assumption|]. apply IH. constructor; assumption.
  Qed.

  Lemma ascii_valid s : Forall (fun c => (c < 128)%N) s -> valid_codepoints s.
  Proof.
    intros H. unfold valid_codepoints. eapply Forall_impl; [|exact H]. intros c Hc. apply small_valid. apply N.ltb_lt. exact Hc.
  Qed.

  Lemma itoa_valid z : valid_codepoints (itoa z).
  Proof.
    apply ascii_valid. destruct z; cbn [itoa].
    - constructor; [reflexivity|constructor].
    - apply pos_digits_ascii. constructor.
    - constructor; [reflexivity|]. apply pos_digits_ascii. constructor.
  Qed.

  Lemma filter_valid f s : valid_codepoints s -> valid_codepoints (filter f s).
  Proof.
    unfold valid_codepoints. induction 1; cbn [filter]; [constructor|]. destruct (f x); [constructor|]; assumption.
  Qed.

  Lemma attr_cond_pre key o v : (exists ft, In (key, ft) attributes) -> key <> AttributeURN ->
    is_ascii key = true -> text_eqb (map ascii_lower key) key = true -> (o = OpEqual \/ o = OpContains) ->
    valid_codepoints v -> cond_pre PAttr key o v.
  Proof.
    intros Hin Hne Ha Hf Ho Hv. apply mk_cond_pre.
    - exact Hin.
    - destruct Ho as [-> | ->]; intros t; discriminate.
    - cbn [prop_prefix app]. apply lower_fixed; assumption.
    - destruct Ho as [-> | ->]; apply lower_fixed; reflexivity.
    - exact Hv.
    - intros _. right. split; [reflexivity|exact Hne].
  Qed.

  (* VisitImplicitCondition *)
  Lemma visit_implicit_pre v : valid_codepoints v -> pre_tree (visit_implicit e v).
  Proof.
    intros Hv. unfold visit_implicit.
    assert (Hname : forall o, o = OpEqual \/ o = OpContains -> pre_tree (Cond PAttr AttributeName o v)).
    { intros o Ho. constructor. apply attr_cond_pre; try assumption; try reflexivity; [|discriminate].
      exists FText. vm_compute. tauto. }
    assert (Hnc : pre_tree (Cond PAttr AttributeName match name_tokens e v with [] => OpEqual | _ :: _ => OpContains end v)).
    { apply Hname. destruct (name_tokens e v); auto. }
    destruct (pe_redact e) eqn:ER.
    - destruct (atoi v) as [z|]; [|exact Hnc].
      constructor. apply attr_cond_pre; try reflexivity; [|discriminate|left; reflexivity|apply itoa_valid].
      exists FText. vm_compute. tauto.
    - assert (Hnr : forall x, redacted e x = false) by (intros x; unfold redacted; rewrite ER; reflexivity).
      assert (Hnot : pre_tree (if implicit_phone v then Cond PURN k_tel OpContains (clean_phone v)
                               else Cond PAttr AttributeName match name_tokens e v with [] => OpEqual | _ :: _ => OpContains end v)).
      { destruct (implicit_phone v); [|exact Hnc]. constructor.
        destruct prefix_lower as (_ & PU & _).
        apply mk_cond_pre.
        - split; [discriminate|vm_compute; reflexivity].
        - intros t; discriminate.
        - cbn [prop_prefix]. rewrite lower_app, PU. f_equal. apply lower_fixed; reflexivity.
        - apply lower_fixed; reflexivity.
        - apply filter_valid. exact Hv.
        - rewrite Hnr. discriminate. }
      destruct (pe_urn e v) as [[scheme path]|] eqn:EU; [|exact Hnot].
      destruct (pe_valid_scheme e scheme) eqn:ES; [|exact Hnot].
      destruct (schemes_ok e Henv _ ES) as [Hkc Hkl]. destruct prefix_lower as (_ & PU & _).
      constructor. apply mk_cond_pre.
      + exact Hkc.
      + intros t; discriminate.
      + cbn [prop_prefix]. rewrite lower_app, PU, Hkl. reflexivity.
      + apply lower_fixed; reflexivity.
      + eapply urn_ok; eauto.
      + rewrite Hnr. discriminate.
  Qed.

  (* literals *)
  Lemma Forall_removelast {A} (Q : A -> Prop) (l : list A) : Forall Q l -> Forall Q (removelast l).
  Proof. induction 1 as [|x l Hx Hl IH]; [constructor|]. cbn [removelast]. destruct l; [constructor|]. constructor; assumption. Qed.

  Lemma literal_value_valid k t v : valid_codepoints t -> literal_value (k, t) = LVal v -> valid_codepoints v.
  Proof.
    intros Ht H. unfold literal_value in H.
    destruct (find (fun q => tkind_eqb (fst q) k) literal_alts) as [[k' [|]]|]; try (inversion H; subst; exact Ht).
    destruct (unquote t) as [r| | |] eqn:U; try discriminate; inversion H; subst.
    - eapply unquote_valid; eauto.
    - apply Forall_removelast. destruct t; [constructor|]. inversion Ht; assumption.
  Qed.

  (* what the lexer guarantees of every token *)
  Definition tok_fact (kt : token) : Prop :=
    (valid_codepoints (snd kt) /\ Forall (lowok e) (snd kt))
    /\ (fst kt = PROPERTY -> prop_shape (snd kt)) /\ (fst kt = COMPARATOR -> In (snd kt) comp_texts).

  Definition charok (c : N) : Prop := valid_cp c = true /\ lowok e c.

  Lemma charok_split s : Forall charok s -> valid_codepoints s /\ Forall (lowok e) s.
  Proof. intros H. split; (eapply Forall_impl; [|exact H]); intros c [A B]; assumption. Qed.

  Lemma tok_ok_fact kt : tok_ok lexer_rules charok kt -> tok_fact kt.
  Proof.
    destruct kt as [k t]. unfold tok_ok. cbn [fst snd]. intros [Hv (ru & Hin & Hk & Hm)].
    split; [apply charok_split; exact Hv|]. cbn [fst snd]. split; intros K; rewrite K in Hk.
    - rewrite (property_rule ru Hin Hk) in Hm. apply matches_property. exact Hm.
    - rewrite (comparator_rule ru Hin Hk), re4 in Hm. apply matches_comparator. exact Hm.
  Qed.

  Lemma visit_pre : forall ts a n, Forall tok_fact ts -> ast_from ts a -> visit e a = VNode n [] -> pre_tree n.
  Proof.
    intros ts a. induction a as [pr c lit|lit|b l IHl r IHr]; intros n Hts Hf H; cbn [visit] in H.
    - inversion Hf as [? ? ? Hp Hcm Hli| |]; subst. rewrite Forall_forall in Hts.
      destruct (Hts _ Hp) as ((_ & HLow) & HP & _). destruct (Hts _ Hcm) as (_ & _ & HC). destruct (Hts _ Hli) as ((HL & _) & _).
      destruct lit as [k t]. destruct (literal_value (k, t)) as [|v] eqn:EL; [discriminate|].
      pose proof (literal_value_valid k t v HL EL) as Hv.
      destruct (visit_condition e pr c v) as [n' errs] eqn:EV. inversion H; subst.
      destruct (visit_condition_pre pr c v n HLow (HP eq_refl) (HC eq_refl) Hv EV) as (pt & key & o & -> & Hc).
      constructor. exact Hc.
    - inversion Hf as [|? Hli|]; subst. rewrite Forall_forall in Hts. destruct (Hts _ Hli) as ((HL & _) & _).
      destruct lit as [k t]. destruct (literal_value (k, t)) as [|v] eqn:EL; [discriminate|].
      inversion H; subst. apply visit_implicit_pre. eapply literal_value_valid; eauto.
    - inversion Hf as [| |? ? ? Hfl Hfr]; subst.
      destruct (visit e l) as [|n1 e1] eqn:E1; [discriminate|]. destruct (visit e r) as [|n2 e2] eqn:E2; [discriminate|].
      inversion H as [[En Ee]]. apply app_eq_nil in Ee. destruct Ee as [-> ->].
      constructor. constructor; [eapply IHl; eauto|]. constructor; [eapply IHr; eauto|constructor].
  Qed.

  (* Simplify keeps valid trees valid *)
  Lemma promote_valid b cs : Forall (valid_tree e) cs -> Forall (valid_tree e) (flat_map (promote b) cs).
  Proof.
    induction 1 as [|c cs Hc _ IH]; [constructor|]. cbn [flat_map]. apply Forall_app. split; [|exact IH].
    destruct c as [pt k o v|b' gc]; cbn [promote]; [constructor; [exact Hc|constructor]|].
    destruct (boolop_eqb b' b); [inversion Hc; assumption|constructor; [exact Hc|constructor]].
  Qed.

  Lemma simplify_valid : forall n q, valid_tree e n -> simplify n = Some q -> valid_tree e q.
  Proof.
    induction n as [pt k o v|b ch IH] using node_ind'; intros q Hv H.
    - inversion H; subst. exact Hv.
    - inversion Hv as [|? ? Hch]; subst. cbn [simplify] in H.
      assert (Hcs : Forall (valid_tree e) (keep_some (map simplify ch))).
      { clear H Hv. induction ch as [|c ch IHch]; [constructor|].
        inversion IH; subst. inversion Hch; subst. cbn [map keep_some].
        destruct (simplify c) eqn:E; [constructor; [eapply H1; eauto|]|]; auto. }
      pose proof (promote_valid b _ Hcs) as Hp.
      destruct (flat_map (promote b) (keep_some (map simplify ch))) as [|x [|y nc]]; cbn [finish] in H; [discriminate| |].
      + inversion H; subst. inversion Hp; assumption.
      + inversion H; subst. constructor. exact Hp.
  Qed.

  (* the text handed to the lexer *)
  Lemma trim_left_ok (Q : N -> Prop) s : Forall Q s -> Forall Q (trim_left s).
  Proof. induction 1 as [|c s Hc Hs IH]; cbn [trim_left]; [constructor|]. destruct (is_space c); [exact IH|constructor; assumption]. Qed.

  Lemma trim_ok (Q : N -> Prop) s : Forall Q s -> Forall Q (trim s).
  Proof.
    intros H. unfold trim. apply Forall_rev. apply trim_left_ok. apply Forall_rev. apply trim_left_ok. exact H.
  Qed.

  Lemma ascii_charok s : is_ascii s = true -> Forall charok s.
  Proof.
    intros H. apply Forall_forall. intros c Hc. unfold is_ascii in H. rewrite forallb_forall in H.
    split; [apply small_valid; auto|apply lowok_ascii; auto].
  Qed.

  Lemma preprocess_ok s : Forall charok s -> Forall charok (preprocess e s).
  Proof.
    intros H. unfold preprocess. destruct (pe_redact e); [apply trim_ok; exact H|].
    destruct (only_phone (trim (trim s))); [|apply trim_ok; exact H].
    destruct (pe_phone e (trim s)) as [n|] eqn:EP; [|apply trim_ok; exact H].
    apply Forall_app. split; [apply ascii_charok; reflexivity|]. apply ascii_charok. eapply phone_ok; eauto.
  Qed.

  (* what lexer, parser and visitor hand to the validator *)
  Lemma front_pre_tree : forall s n, valid_codepoints s -> Forall (lowok e) s -> parse_front e s = FTree n -> pre_tree n.
  Proof.
    intros s n Hs0 Hl0 F.
    assert (Hs : Forall charok s).
    { apply Forall_forall. intros c Hc. unfold valid_codepoints in Hs0. rewrite Forall_forall in Hs0, Hl0. split; auto. }
    unfold parse_front in F.
    destruct (cql_lex (preprocess e s)) as [ts| |] eqn:L; try discriminate.
    destruct (parse_tokens ts) as [| |a rest] eqn:P; try discriminate.
    destruct (visit e a) as [|n' errs] eqn:V; [discriminate|]. destruct errs; [|discriminate]. inversion F; subst n'.
    assert (Hts : Forall tok_fact ts).
    { unfold cql_lex in L. pose proof (lex_sound lexer_rules charok _ ts (preprocess_ok s Hs) L) as HT.
      eapply Forall_impl; [|exact HT]. intros kt. apply tok_ok_fact. }
    eapply visit_pre; [exact Hts|eapply parse_tokens_from; exact P|exact V].
  Qed.

  (* every accepted query is a valid tree *)
  Theorem accepted_valid : forall s q, valid_codepoints s -> Forall (lowok e) s ->
    parse_query e s = QOk (Some q) -> valid_tree e q.
  Proof.
    intros s q Hs0 Hl0 H.
    assert (Hs : Forall charok s).
    { apply Forall_forall. intros c Hc. unfold valid_codepoints in Hs0. rewrite Forall_forall in Hs0, Hl0. split; auto. }
    unfold parse_query in H.
    destruct (parse_front e s) as [| |n| |] eqn:F; try discriminate.
    destruct (conditions_valid e n) eqn:CV; [|discriminate]. inversion H as [Hq].
    apply (simplify_valid n q); [|exact Hq].
    apply pre_tree_valid; [|exact CV].
    unfold parse_front in F.
    destruct (cql_lex (preprocess e s)) as [ts| |] eqn:L; try discriminate.
    destruct (parse_tokens ts) as [| |a rest] eqn:P; try discriminate.
    destruct (visit e a) as [|n' errs] eqn:V; [discriminate|]. destruct errs; [|discriminate]. inversion F; subst n'.
    assert (Hts : Forall tok_fact ts).
    { unfold cql_lex in L. pose proof (lex_sound lexer_rules charok _ ts (preprocess_ok s Hs) L) as HT.
      eapply Forall_impl; [|exact HT]. intros kt. apply tok_ok_fact. }
    eapply visit_pre; [exact Hts|eapply parse_tokens_from; exact P|exact V].
  Qed.
End Accepted.

(* sentence 1: whatever ParseQuery accepts formats to a text that ParseQuery turns into the same query *)
Theorem parse_print_parse_env : forall p e s q, p 10%N = false -> env_ok e -> valid_codepoints s ->
  Forall (lowok e) s ->
  parse_query e s = QOk (Some q) -> parse_query e (stringify p (Some q)) = QOk (Some q).
Proof.
  intros p e s q Hnl He Hs Hl H. eapply parse_print_parse; [exact Hnl|exact H|].
  eapply accepted_valid; eauto.
Qed.

(* the hypotheses are satisfiable: ASCII lower-casing (identity elsewhere), `tel` the only scheme *)
Lemma ascii_lower_inK_inL : forallb (fun c => (inK c || negb (inK (ascii_lower c))) && (inL c || negb (inL (ascii_lower c)))
                                                && (negb (inK c) || inK (ascii_lower c)) && (negb (inL c) || inL (ascii_lower c)))
                                    (map N.of_nat (seq 65 26)) = true.
Proof. vm_compute. reflexivity. Qed.

Lemma env_example_ok : forall redact, env_ok (env_example redact ascii_lower)
  /\ forall c, lowok (env_example redact ascii_lower) c.
Proof.
  intros redact.
  assert (Hup : forall c, ascii_lower c <> c -> In c (map N.of_nat (seq 65 26))).
  { intros c H. unfold ascii_lower in H. destruct ((65 <=? c) && (c <=? 90))%N eqn:E; [|congruence].
    apply andb_prop in E. destruct E as [E1 E2]. apply N.leb_le in E1. apply N.leb_le in E2.
    apply in_map_iff. exists (N.to_nat c). split; [apply N2Nat.id|]. apply in_seq. lia. }
  assert (Hcls : forall c, (inK c = true -> inK (ascii_lower c) = true) /\ (inL c = true -> inL (ascii_lower c) = true)).
  { intros c. destruct (N.eq_dec (ascii_lower c) c) as [->|Hne]; [split; auto|].
    pose proof ascii_lower_inK_inL as F. rewrite forallb_forall in F. specialize (F c (Hup c Hne)).
    apply andb_prop in F. destruct F as [F F4]. apply andb_prop in F. destruct F as [F F3].
    split; intros Hc; rewrite Hc in *; cbn [negb orb] in *; assumption. }
  assert (Hidem : forall c, ascii_lower (ascii_lower c) = ascii_lower c).
  { intros c. unfold ascii_lower. destruct ((65 <=? c) && (c <=? 90))%N eqn:E; [|rewrite E; reflexivity].
    apply andb_prop in E. destruct E as [E1 E2]. apply N.leb_le in E1. apply N.leb_le in E2.
    replace ((65 <=? c + 32) && (c + 32 <=? 90))%N with false; [reflexivity|].
    symmetry. apply andb_false_iff. right. apply N.leb_gt. lia. }
  split.
  - constructor; cbn [env_example pe_lower pe_valid_scheme pe_urn pe_phone].
    + reflexivity.
    + intros k H. apply text_eqb_eq in H. subst k. split; [split; [discriminate|vm_compute; reflexivity]|reflexivity].
    + discriminate.
    + discriminate.
  - intros c. unfold lowok. cbn [env_example pe_lower]. destruct (Hcls c) as [A B]. split.
    + intros Hc. split; [apply A; exact Hc|apply Hidem].
    + exact B.
Qed.

(* the character of the known finding is exactly where the per-character hypothesis fails *)
Lemma lowok_fails_on_cherokee : ~ lowok (env_example false cherokee_lower) 5024%N.
Proof.
  unfold lowok. cbn [env_example pe_lower]. intros [H _].
  assert (K : inK 5024%N = true) by (vm_compute; reflexivity).
  destruct (H K) as [A _]. vm_compute in A. discriminate.
Qed.
