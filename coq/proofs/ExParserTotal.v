(* ExParserTotal.v — the fuel of the parser model (model/ExParser.v) is sufficient: parse_tokens never answers
   PFuelOut.  One simultaneous induction on the fuel over the six parser functions; each statement has two parts:
   with fuel >= 6 * (number of tokens) + a constant the function does not run out of fuel, and whatever it returns
   leaves a rest that is shorter than (for p_binloop / p_postfix: not longer than) its input. *)
From Coq Require Import List NArith Bool Arith Lia.
From Verif Require Import lib.Quote model.ExSyntax model.ExLexer model.ExParser gen.GrammarE3 proofs.ExRoundtrip.
Import ListNotations.
Open Scope N_scope.

Definition nofuel {A} (r : pr A) : Prop := r <> PFuel.

Definition T_expr (fuel : nat) : Prop := forall p ts,
  ((6 * length ts + 3 <= fuel)%nat -> nofuel (p_expr fuel p ts)) /\
  (forall t r, p_expr fuel p ts = PR (t, r) -> (length r < length ts)%nat).
Definition T_binloop (fuel : nat) : Prop := forall p lhs ts,
  ((6 * length ts + 1 <= fuel)%nat -> nofuel (p_binloop fuel p lhs ts)) /\
  (forall t r, p_binloop fuel p lhs ts = PR (t, r) -> (length r <= length ts)%nat).
Definition T_primary (fuel : nat) : Prop := forall ts,
  ((6 * length ts + 2 <= fuel)%nat -> nofuel (p_primary fuel ts)) /\
  (forall t r, p_primary fuel ts = PR (t, r) -> (length r < length ts)%nat).
Definition T_atom (fuel : nat) : Prop := forall ts,
  ((6 * length ts + 1 <= fuel)%nat -> nofuel (p_atom fuel ts)) /\
  (forall t r, p_atom fuel ts = PR (t, r) -> (length r < length ts)%nat).
Definition T_postfix (fuel : nat) : Prop := forall a ts,
  ((6 * length ts + 1 <= fuel)%nat -> nofuel (p_postfix fuel a ts)) /\
  (forall t r, p_postfix fuel a ts = PR (t, r) -> (length r <= length ts)%nat).
Definition T_params (fuel : nat) : Prop := forall ts,
  ((6 * length ts + 4 <= fuel)%nat -> nofuel (p_params fuel ts)) /\
  (forall es r, p_params fuel ts = PR (es, r) -> (length r < length ts)%nat).

Lemma anon_head_shorter ts names rest : anon_head ts = Some (names, rest) -> (length rest + 3 <= length ts)%nat.
Proof.
  intros H. destruct (anon_head_some (fun _ => false) eq_refl unit (fun _ nm => nm) (fun a _ => a) (fun _ _ => eq_refl) _ _ _ H) as (Hne & hd & -> & HF).
  apply alike_length in HF. rewrite !app_length in *. cbn [length] in HF.
  destruct names as [|n names']; [congruence|]. cbn [names_toks] in HF. destruct names'; cbn [length] in HF; lia.
Qed.

Lemma step_T f : T_expr f -> T_binloop f -> T_primary f -> T_atom f -> T_postfix f -> T_params f ->
  T_expr (S f) /\ T_binloop (S f) /\ T_primary (S f) /\ T_atom (S f) /\ T_postfix (S f) /\ T_params (S f).
Proof.
  intros HE HB HP HA HPo HPa. unfold nofuel in *.
  (* p_expr *)
  assert (TE : T_expr (S f)).
  { intros p ts. rewrite p_expr_eq. destruct (HP ts) as [P1 P2].
    destruct (p_primary f ts) as [[e r]| |] eqn:E1.
    - specialize (P2 _ _ eq_refl). destruct (HB p e r) as [B1 B2]. split.
      + intros Hf. apply B1. lia.
      + intros t r' H. specialize (B2 _ _ H). lia.
    - split; [discriminate|discriminate].
    - split; [intros Hf; exfalso; apply P1; [lia|reflexivity]|discriminate]. }
  (* p_binloop *)
  assert (TB : T_binloop (S f)).
  { intros p lhs ts. rewrite p_binloop_eq. destruct ts as [|t r]; [split; [discriminate|intros ? ? H; inversion H; subst; cbn; lia]|].
    destruct (binop_of (tk t)) as [[prec l]|]; [|split; [discriminate|intros ? ? H; inversion H; subst; cbn; lia]].
    destruct (Nat.leb p prec); [|split; [discriminate|intros ? ? H; inversion H; subst; cbn; lia]].
    destruct (HE (S prec) r) as [E1 E2]. destruct (p_expr f (S prec) r) as [[rhs r']| |] eqn:EQ.
    - specialize (E2 _ _ eq_refl). destruct (HB p (EBin (mk_bin l (tk t)) lhs rhs) r') as [B1 B2]. split.
      + intros Hf. apply B1. cbn [length] in Hf. lia.
      + intros t' r'' H. specialize (B2 _ _ H). cbn [length]. lia.
    - split; discriminate.
    - split; [intros Hf; exfalso; apply E1; [cbn [length] in Hf; lia|reflexivity]|discriminate]. }
  (* p_atom *)
  assert (TA : T_atom (S f)).
  { intros ts. rewrite p_atom_eq. destruct ts as [|t r]; [split; discriminate|].
    destruct (is_k LPAREN t).
    - destruct (HE 0%nat r) as [E1 E2]. destruct (p_expr f 0 r) as [[e [|c r']]| |] eqn:EQ.
      + split; discriminate.
      + specialize (E2 _ _ eq_refl). cbn [length] in E2.
        destruct (is_k RPAREN c); [|split; discriminate].
        destruct (HPo (EParen e) r') as [Q1 Q2]. split.
        * intros Hf. apply Q1. cbn [length] in Hf. lia.
        * intros t' r'' H. specialize (Q2 _ _ H). cbn [length]. lia.
      + split; discriminate.
      + split; [intros Hf; exfalso; apply E1; [cbn [length] in Hf; lia|reflexivity]|discriminate].
    - destruct (is_k NAME t); [|split; discriminate].
      destruct (HPo (ECtxRef (tx t)) r) as [Q1 Q2]. split.
      + intros Hf. apply Q1. cbn [length] in Hf. lia.
      + intros t' r'' H. specialize (Q2 _ _ H). cbn [length]. lia. }
  (* p_primary *)
  assert (TP : T_primary (S f)).
  { intros ts. rewrite p_primary_eq. destruct ts as [|t r]; [split; discriminate|].
    destruct (prefix_of (tk t)) as [prec|].
    { destruct (HE prec r) as [E1 E2]. destruct (p_expr f prec r) as [[e r']| |] eqn:EQ.
      - specialize (E2 _ _ eq_refl). split; [discriminate|]. intros ? ? H; inversion H; subst. cbn [length]. lia.
      - split; discriminate.
      - split; [intros Hf; exfalso; apply E1; [cbn [length] in Hf; lia|reflexivity]|discriminate]. }
    destruct (lit_of (tk t)); [split; [discriminate|intros ? ? H; inversion H; subst; cbn [length]; lia]|].
    assert (Hatom : ((6 * length (t :: r) + 2 <= S f)%nat -> p_atom f (t :: r) <> PFuel) /\
                    (forall t' r', p_atom f (t :: r) = PR (t', r') -> (length r' < length (t :: r))%nat)).
    { destruct (HA (t :: r)) as [A1 A2]. split; [intros Hf; apply A1; lia|exact A2]. }
    destruct (if is_k LPAREN t then anon_head r else None) as [[names r']|] eqn:EH; [|destruct anon_prec; exact Hatom].
    destruct anon_prec as [prec|]; [|exact Hatom].
    assert (Hlen : (length r' + 3 <= length r)%nat).
    { destruct (is_k LPAREN t); [|discriminate]. apply (anon_head_shorter _ _ _ EH). }
    destruct (HE prec r') as [E1 E2]. destruct (p_expr f prec r') as [[body r'']| |] eqn:EQ.
    - specialize (E2 _ _ eq_refl). split; [discriminate|]. intros ? ? H; inversion H; subst. cbn [length]. lia.
    - split; discriminate.
    - split; [intros Hf; exfalso; apply E1; [cbn [length] in Hf; lia|reflexivity]|discriminate]. }
  (* p_params *)
  assert (TPa : T_params (S f)).
  { intros ts. rewrite p_params_eq. destruct (HE 0%nat ts) as [E1 E2].
    destruct (p_expr f 0 ts) as [[e [|c r]]| |] eqn:EQ.
    - specialize (E2 _ _ eq_refl). split; [discriminate|]. intros ? ? H; inversion H; subst. exact E2.
    - specialize (E2 _ _ eq_refl). cbn [length] in E2. destruct (is_k COMMA c).
      + destruct (HPa r) as [Q1 Q2]. destruct (p_params f r) as [[es r']| |] eqn:EQ2.
        * specialize (Q2 _ _ eq_refl). split; [discriminate|]. intros ? ? H; inversion H; subst. lia.
        * split; discriminate.
        * split; [intros Hf; exfalso; apply Q1; [lia|reflexivity]|discriminate].
      + split; [discriminate|]. intros ? ? H; inversion H; subst. cbn [length]. lia.
    - split; discriminate.
    - split; [intros Hf; exfalso; apply E1; [lia|reflexivity]|discriminate]. }
  (* p_postfix *)
  assert (TPo : T_postfix (S f)).
  { intros a ts. rewrite p_postfix_eq. destruct ts as [|t r]; [split; [discriminate|intros ? ? H; inversion H; subst; cbn; lia]|].
    destruct (is_k LPAREN t).
    { destruct r as [|c r']; [split; discriminate|]. destruct (is_k RPAREN c).
      - destruct (HPo (ECall a []) r') as [Q1 Q2]. split.
        + intros Hf. apply Q1. cbn [length] in Hf. lia.
        + intros t' r'' H. specialize (Q2 _ _ H). cbn [length]. lia.
      - destruct (HPa (c :: r')) as [P1 P2]. destruct (p_params f (c :: r')) as [[ps [|c' r'']]| |] eqn:EQ.
        + split; discriminate.
        + specialize (P2 _ _ eq_refl). cbn [length] in P2. destruct (is_k RPAREN c'); [|split; discriminate].
          destruct (HPo (ECall a ps) r'') as [Q1 Q2]. split.
          * intros Hf. apply Q1. cbn [length] in Hf. lia.
          * intros t' r3 H. specialize (Q2 _ _ H). cbn [length]. lia.
        + split; discriminate.
        + split; [intros Hf; exfalso; apply P1; [cbn [length] in *; lia|reflexivity]|discriminate]. }
    destruct (is_k DOT t).
    { destruct r as [|n r']; [split; discriminate|]. destruct (kind_in (tk n) dot_kinds); [|split; discriminate].
      destruct (HPo (EDot a (tx n)) r') as [Q1 Q2]. split.
      - intros Hf. apply Q1. cbn [length] in Hf. lia.
      - intros t' r'' H. specialize (Q2 _ _ H). cbn [length]. lia. }
    destruct (is_k LBRACK t); [|split; [discriminate|intros ? ? H; inversion H; subst; cbn; lia]].
    destruct (HE 0%nat r) as [E1 E2]. destruct (p_expr f 0 r) as [[e [|c r']]| |] eqn:EQ.
    - split; discriminate.
    - specialize (E2 _ _ eq_refl). cbn [length] in E2. destruct (is_k RBRACK c); [|split; discriminate].
      destruct (HPo (EIndex a e) r') as [Q1 Q2]. split.
      + intros Hf. apply Q1. cbn [length] in Hf. lia.
      + intros t' r'' H. specialize (Q2 _ _ H). cbn [length]. lia.
    - split; discriminate.
    - split; [intros Hf; exfalso; apply E1; [cbn [length] in Hf; lia|reflexivity]|discriminate]. }
  exact (conj TE (conj TB (conj TP (conj TA (conj TPo TPa))))).
Qed.

Theorem all_T : forall fuel, T_expr fuel /\ T_binloop fuel /\ T_primary fuel /\ T_atom fuel /\ T_postfix fuel /\ T_params fuel.
Proof.
  induction fuel as [|f (HE & HB & HP & HA & HPo & HPa)].
  - unfold T_expr, T_binloop, T_primary, T_atom, T_postfix, T_params, nofuel.
    repeat split; intros; try discriminate; cbn in *; lia.
  - apply step_T; assumption.
Qed.

(* the fuel parse_tokens passes is sufficient for every token list *)
Theorem parse_tokens_no_fuel ts : parse_tokens ts <> PFuelOut.
Proof.
  unfold parse_tokens. destruct (existsb _ ts); [discriminate|].
  destruct (all_T (parse_fuel ts)) as (HE & _). destruct (HE 0%nat ts) as [E1 _].
  unfold nofuel, parse_fuel in *. destruct (p_expr (6 * length ts + 10) 0 ts) as [[e [|x r]]| |]; try discriminate.
  exfalso. apply E1; [lia|reflexivity].
Qed.
