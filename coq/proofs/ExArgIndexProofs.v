(* ExArgIndexProofs.v — C04 (b): obligations over the source-derived tables of coq/gen/ArgIndex.v
   (regenerated from /repo on every run by translators/cmd/argindex), and the meaning of [site_ok]. *)
From Coq Require Import ZArith List Bool String Lia.
From Verif Require Import model.ExArgIndex model.ExValues model.ExEval model.ExLambda gen.ArgIndex.
Import ListNotations.
Open Scope Z_scope.

(* every constant index args[k] / slice args[k:] in the registered functions, the router tests and the wrappers'
   closures is in range for every argument count its registration admits and its guards let through *)
Lemma arg_index_safe : forallb (site_ok registrations) arg_index_sites = true.
Proof. vm_compute. reflexivity. Qed.

(* ... and every site is owned by at least one registration, so none of them passes vacuously *)
Lemma arg_index_sites_owned : forallb (site_owned registrations) arg_index_sites = true.
Proof. vm_compute. reflexivity. Qed.

(* constant indexes into the other slices of builtins and router tests are under len guards that imply them *)
Lemma local_index_sites_safe :
  forallb local_site_ok local_index_sites = true /\ local_sites_exempt_once local_index_sites = true.
Proof. vm_compute. split; reflexivity. Qed.

(* the two exemptions are for X[0] only (review 2, N4): another index or a slice of the same names is not exempt *)
Example exemption_is_pinned :
  local_site_ok (Site "HasPattern:matches" 1 SIndex 2 []) = false /\
  local_site_ok (Site "hasIntent:classification.Intents" 1 SIndex 1 []) = false /\
  local_site_ok (Site "HasPattern:matches" 1 SSliceFrom 1 []) = false /\
  local_sites_exempt_once [Site "HasPattern:matches" 1 SIndex 0 []; Site "HasPattern:matches" 2 SIndex 0 [];
                           Site "hasIntent:classification.Intents" 3 SIndex 0 []] = false.
Proof. vm_compute. repeat split; reflexivity. Qed.

Example local_guard_matters :
  local_site_ok (Site "hasIntent:possibilities" 0 SIndex 0 [GCmp CGt 0]) = true /\
  local_site_ok (Site "hasIntent:possibilities" 0 SIndex 0 []) = false /\
  local_site_ok (Site "HasDistrict:districts" 0 SIndex 1 [GCmp CEq 1]) = false.
Proof. vm_compute. repeat split; reflexivity. Qed.

(* non-constant indexes occur only where the model has a proved loop *)
Lemma dynamic_sites_covered : dynamic_ok dynamic_sites = true.
Proof. vm_compute. reflexivity. Qed.

(* the registrations assumed by the hand-written model are the ones in the source *)
Lemma model_registry_in_source : registry_matches registrations = true.
Proof. vm_compute. reflexivity. Qed.

(* the limit on rounding places (F4b) is in the source, is the model's, and guards all three functions *)
Lemma rounding_places_guarded :
  max_rounding_places_src = max_rounding_places /\ forallb snd rounding_guarded = true
  /\ List.length rounding_guarded = 3%nat.
Proof. vm_compute. repeat split; reflexivity. Qed.

(* the three base argument-count checks of wrappers.go, RUN by the translator's interpreter on a grid of
   (min, max, count), decide as min_max_args of the model does *)
Lemma base_arity_checks_as_model : forallb snd base_arity_checks = true /\ List.length base_arity_checks = 3%nat.
Proof. vm_compute. split; reflexivity. Qed.

(* the limits on decimal exponents, on the length of texts and on the size of values are in the source and are the
   model's; Concatenate starts with the length guard, Multiply with the exponent and digits guards, Divide and Mod
   with the zero-divisor guard, Exponent with its three guards, Repeat with its length guard *)
Lemma operator_guards_in_source :
  max_number_exponent_src = max_number_exponent /\ max_text_length_src = max_text_length
  /\ max_render_size_src = max_render_size /\ max_repeat_length_src = max_repeat_length
  /\ forallb snd operator_guards = true
  /\ List.length operator_guards = 11%nat.
Proof. vm_compute. repeat split; reflexivity. Qed.

(* the limits of an evaluation (nesting and number of calls of anonymous functions, work budget, charge per call) are
   in excellent/tree.go and are the constants of model/ExLambda.v *)
Lemma evaluation_limits_in_source :
  max_anon_function_depth_src = Z.of_nat max_anon_function_depth /\ max_anon_function_calls_src = Z.of_N max_anon_function_calls
  /\ max_evaluation_work_src = max_evaluation_work /\ function_call_work_src = function_call_work.
Proof. vm_compute. repeat split; reflexivity. Qed.

(* ------------------------------------------------------------------------------------------------ *)
(* what a [true] of the decision procedure means, for the bounded registrations: for EVERY admitted count *)

Lemma zrange_in : forall count lo x, lo <= x < lo + Z.of_nat count -> In x (zrange lo count).
Proof.
  induction count as [|c IH]; intros lo x H; [lia|]. simpl.
  destruct (Z.eq_dec x lo) as [->|Hne]; [left; reflexivity|right]. apply IH. lia.
Qed.

Lemma site_ok_for_sound_bounded : forall s r sh total,
  site_ok_for s r = true -> site_shift s r = Some sh -> 0 <= r_max r ->
  r_min r <= total <= r_max r ->
  forallb (guard_holds (total - sh)) (s_guards s) = true -> in_range s (total - sh) = true.
Proof.
  intros s r sh total Hok Hsh Hmax Ht Hg. unfold site_ok_for in Hok. rewrite Hsh in Hok.
  rewrite forallb_forall in Hok. specialize (Hok total).
  assert (Hin : In total (admitted_counts s r)).
  { unfold admitted_counts. replace (r_max r <? 0) with false by (symmetry; apply Z.ltb_ge; lia).
    apply zrange_in. lia. }
  specialize (Hok Hin). cbv zeta in Hok. rewrite Hg in Hok. exact Hok.
Qed.

(* ... and for the registrations WITHOUT a maximum: beyond the horizon the guards no longer change and the
   index stays in range, so the finitely many counts checked decide all of them *)

Lemma cmp_stable : forall c m n n', Z.abs m < n -> Z.abs m < n' -> cmp_holds c n m = cmp_holds c n' m.
Proof.
  intros c m n n' H H'. destruct c; simpl.
  - replace (n =? m) with false by (symmetry; apply Z.eqb_neq; lia).
    replace (n' =? m) with false by (symmetry; apply Z.eqb_neq; lia). reflexivity.
  - replace (n =? m) with false by (symmetry; apply Z.eqb_neq; lia).
    replace (n' =? m) with false by (symmetry; apply Z.eqb_neq; lia). reflexivity.
  - replace (n <? m) with false by (symmetry; apply Z.ltb_ge; lia).
    replace (n' <? m) with false by (symmetry; apply Z.ltb_ge; lia). reflexivity.
  - replace (n <=? m) with false by (symmetry; apply Z.leb_gt; lia).
    replace (n' <=? m) with false by (symmetry; apply Z.leb_gt; lia). reflexivity.
  - replace (m <? n) with true by (symmetry; apply Z.ltb_lt; lia).
    replace (m <? n') with true by (symmetry; apply Z.ltb_lt; lia). reflexivity.
  - replace (m <=? n) with true by (symmetry; apply Z.leb_le; lia).
    replace (m <=? n') with true by (symmetry; apply Z.leb_le; lia). reflexivity.
Qed.

Lemma guard_max_nonneg : forall g, 0 <= guard_max g.
Proof. induction g; simpl; lia. Qed.

Lemma guard_stable : forall g n n', guard_max g < n -> guard_max g < n' -> guard_holds n g = guard_holds n' g.
Proof.
  induction g as [|c m|g IH|x IHa y IHb|x IHa y IHb]; intros n n' H H'; simpl in *.
  - reflexivity.
  - apply cmp_stable; assumption.
  - f_equal. apply IH; assumption.
  - rewrite (IHa n n'), (IHb n n'); try reflexivity; lia.
  - rewrite (IHa n n'), (IHb n n'); try reflexivity; lia.
Qed.

Lemma horizon_guards : forall s g, In g (s_guards s) -> guard_max g + 2 <= horizon s.
Proof.
  intros s g. unfold horizon. generalize (Z.abs (s_k s)) as k0.
  induction (s_guards s) as [|x r IH]; intros k0 Hin; simpl in *; [contradiction|].
  destruct Hin as [->|Hin]; [lia|]. specialize (IH k0 Hin). lia.
Qed.

Lemma horizon_index : forall s, Z.abs (s_k s) + 2 <= horizon s.
Proof.
  intros s. unfold horizon. induction (s_guards s) as [|x r IH]; simpl; lia.
Qed.

Lemma in_range_mono : forall s n n', in_range s n = true -> n <= n' -> in_range s n' = true.
Proof.
  intros s n n' H Hle. unfold in_range in *. destruct (s_kind s); apply andb_prop in H as [H1 H2];
    apply andb_true_intro; split; try assumption.
  - apply Z.ltb_lt in H2. apply Z.ltb_lt. lia.
  - apply Z.leb_le in H2. apply Z.leb_le. lia.
Qed.

Lemma site_ok_for_sound_unbounded : forall s r sh total,
  site_ok_for s r = true -> site_shift s r = Some sh -> r_max r < 0 -> sh <= Z.max (r_shift r) 0 ->
  r_min r <= total ->
  forallb (guard_holds (total - sh)) (s_guards s) = true -> in_range s (total - sh) = true.
Proof.
  intros s r sh total Hok Hsh Hmax Hshb Ht Hg. unfold site_ok_for in Hok. rewrite Hsh in Hok.
  rewrite forallb_forall in Hok.
  set (hi := Z.max (r_min r) 0 + Z.max (r_shift r) 0 + horizon s).
  assert (Hrange : forall x, r_min r <= x <= hi -> In x (admitted_counts s r)).
  { intros x Hx. unfold admitted_counts. replace (r_max r <? 0) with true by (symmetry; apply Z.ltb_lt; lia).
    apply zrange_in. fold hi. lia. }
  pose proof (horizon_index s) as Hk.
  destruct (Z_le_gt_dec total hi) as [Hle|Hgt].
  - specialize (Hok total (Hrange total (conj Ht Hle))). cbv zeta in Hok. rewrite Hg in Hok. exact Hok.
  - assert (Hhi : r_min r <= hi <= hi) by (unfold hi; lia).
    specialize (Hok hi (Hrange hi Hhi)). cbv zeta in Hok.
    assert (Hg' : forallb (guard_holds (hi - sh)) (s_guards s) = true).
    { rewrite forallb_forall in *. intros g Hin. rewrite <- (Hg g Hin).
      pose proof (horizon_guards s g Hin). apply guard_stable; unfold hi; lia. }
    rewrite Hg' in Hok. simpl in Hok. eapply in_range_mono; [exact Hok|lia].
Qed.

(* the table is not trivially satisfied: there are guarded sites whose guard matters *)
Example guard_matters :
  site_ok registrations (Site "Word" 0 SIndex 1 [GCmp CEq 2]) = true /\
  site_ok registrations (Site "Word" 0 SIndex 1 []) = false /\
  site_ok registrations (Site "Mean" 0 SIndex 1 []) = false.
Proof. vm_compute. repeat split; reflexivity. Qed.
