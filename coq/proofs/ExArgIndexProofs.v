(* ExArgIndexProofs.v — C04 (b): obligations over the source-derived tables of coq/gen/ArgIndex.v
   (regenerated from /repo on every run by translators/cmd/argindex), and the meaning of [site_ok]. *)
From Coq Require Import ZArith List Bool String Lia.
From Verif Require Import model.ExArgIndex model.ExEval gen.ArgIndex.
Import ListNotations.
Open Scope Z_scope.

(* every constant index args[k] / slice args[k:] in the registered functions, the router tests and the wrappers'
   closures is in range for every argument count its registration admits and its guards let through *)
Lemma arg_index_safe : forallb (site_ok registrations) arg_index_sites = true.
Proof. vm_compute. reflexivity. Qed.

(* non-constant indexes occur only where the model has a proved loop *)
Lemma dynamic_sites_covered : dynamic_ok dynamic_sites = true.
Proof. vm_compute. reflexivity. Qed.

(* the registrations assumed by the hand-written model are the ones in the source *)
Lemma model_registry_in_source : registry_matches registrations = true.
Proof. vm_compute. reflexivity. Qed.

(* the limit on rounding places (F4b) is in the source, is the model's, and guards all three functions *)
Lemma rounding_places_guarded :
  max_rounding_places_src = max_rounding_places /\ forallb snd rounding_guarded = true
  /\ List.length rounding_guarded = 3%nat.
Proof. vm_compute. repeat split; reflexivity. Qed.

(* ------------------------------------------------------------------------------------------------ *)
(* what a [true] of the decision procedure means, for the bounded registrations: for EVERY admitted count *)

Lemma zrange_in : forall count lo x, lo <= x < lo + Z.of_nat count -> In x (zrange lo count).
Proof.
  induction count as [|c IH]; intros lo x H; [lia|]. simpl.
  destruct (Z.eq_dec x lo) as [->|Hne]; [left; reflexivity|right]. apply IH. lia.
Qed.

Lemma site_ok_for_sound_bounded : forall s r sh total,
  site_ok_for s r = true -> site_shift s r = Some sh -> 0 <= r_max r ->
  r_min r <= total <= r_max r ->
  forallb (guard_holds (total - sh)) (s_guards s) = true -> in_range s (total - sh) = true.
Proof.
  intros s r sh total Hok Hsh Hmax Ht Hg. unfold site_ok_for in Hok. rewrite Hsh in Hok.
  rewrite forallb_forall in Hok. specialize (Hok total).
  assert (Hin : In total (admitted_counts s r)).
  { unfold admitted_counts. replace (r_max r <? 0) with false by (symmetry; apply Z.ltb_ge; lia).
    apply zrange_in. lia. }
  specialize (Hok Hin). cbv zeta in Hok. rewrite Hg in Hok. exact Hok.
Qed.

(* the table is not trivially satisfied: there are guarded sites whose guard matters *)
Example guard_matters :
  site_ok registrations (Site "Word" 0 SIndex 1 [GCmp CEq 2]) = true /\
  site_ok registrations (Site "Word" 0 SIndex 1 []) = false /\
  site_ok registrations (Site "Mean" 0 SIndex 1 []) = false.
Proof. vm_compute. repeat split; reflexivity. Qed.
