(* MigrateFullProofs.v -- the reader's text-dependent checks on template members survive every migration, provided the
   refactoring function keeps emptiness and attachment validity of every text (tx_keeps); with proofs/MigrateValidProofs.v
   this gives "valid at its version -> loads at the current version" for the whole of model/MigrateValid.v. *)
From Coq Require Import List NArith ZArith Bool String Lia.
From Verif Require Import lib.Json gen.MigrationTable model.Migrate model.MigrateValid
  proofs.MigrateProofs proofs.MigrateValidProofs proofs.MigrateFrameProofs.
Import ListNotations.
Open Scope N_scope.

Definition tx_keeps (tx : str -> str) : Prop := forall x, tx_keeps_on tx x = true.

Section Keeps.
  Variable tx : str -> str.
  Hypothesis Hk : tx_keeps tx.

  Lemma keeps_nonempty : forall x, nonempty (tx x) = nonempty x.
  Proof. intro x. specialize (Hk x). unfold tx_keeps_on in Hk. apply andb_true_iff in Hk. destruct Hk as [H _]. now apply eqb_prop in H. Qed.
  Lemma keeps_attachment : forall x, attachment_ok (tx x) = attachment_ok x.
  Proof. intro x. specialize (Hk x). unfold tx_keeps_on in Hk. apply andb_true_iff in Hk. destruct Hk as [_ H]. now apply eqb_prop in H. Qed.

  Lemma iter_nonempty : forall n x, nonempty (iter_tx tx n x) = nonempty x.
  Proof. induction n as [|n IH]; intro x; [reflexivity|]. cbn [iter_tx]. now rewrite keeps_nonempty, IH. Qed.
  Lemma iter_attachment : forall n x, attachment_ok (iter_tx tx n x) = attachment_ok x.
  Proof. induction n as [|n IH]; intro x; [reflexivity|]. cbn [iter_tx]. now rewrite keeps_attachment, IH. Qed.

  (* a text member before and after *)
  Lemma required_nonempty_rel : forall k a a',
    orel tx (olookup k a) (olookup k a') -> required_field nonempty k a' = required_field nonempty k a.
  Proof.
    intros k a a' H. unfold required_field, string_field, orel in *.
    destruct (olookup k a) as [[| | |x| |]|], (olookup k a') as [[| | |y| |]|]; cbn [txr] in H; try contradiction; try reflexivity.
    destruct H as [n ->]. apply iter_nonempty.
  Qed.

  Lemma field_emptiness_rel : forall k r r', txr_obj tx r r' ->
    match string_field k r, string_field k r' with
    | FText a, FText b => nonempty b = nonempty a
    | FBad, FBad => True
    | _, _ => False
    end.
  Proof.
    intros k r r' H. pose proof (txr_lookup tx r r' k H) as Hl. unfold string_field, orel in *.
    destruct (olookup k r) as [[| | |x| |]|], (olookup k r') as [[| | |y| |]|]; cbn [txr] in Hl; try contradiction; try exact I; try reflexivity.
    destruct Hl as [n ->]. apply iter_nonempty.
  Qed.

  Lemma reference_ok_rel : forall id matcher v v', txr tx v v' -> reference_ok id matcher v' = reference_ok id matcher v.
  Proof.
    intros id matcher v v' H. destruct v, v'; cbn [txr] in H; try contradiction; try reflexivity.
    apply txr_obj_unfold in H. cbn [reference_ok].
    pose proof (field_emptiness_rel id kv kv0 H) as H1. pose proof (field_emptiness_rel matcher kv kv0 H) as H2.
    destruct (string_field id kv), (string_field id kv0); try contradiction; try reflexivity.
    destruct (string_field matcher kv), (string_field matcher kv0); try contradiction; try reflexivity.
    now rewrite H1, H2.
  Qed.

  Lemma forallb_txr_list : forall (p : json -> bool) l l',
    (forall v v', txr tx v v' -> p v' = p v) -> txr_list tx l l' -> forallb p l' = forallb p l.
  Proof.
    intros p l. induction l as [|x l IH]; intros [|y l'] Hp H; cbn in H; try contradiction; [reflexivity|].
    destruct H as [H1 H2]. cbn [forallb]. now rewrite (Hp x y H1), (IH l' Hp H2).
  Qed.

  Lemma references_ok_rel : forall req k id matcher a a',
    orel tx (olookup k a) (olookup k a') -> references_ok req k id matcher a' = references_ok req k id matcher a.
  Proof.
    intros req k id matcher a a' H. unfold references_ok, orel in *.
    destruct (olookup k a) as [v|], (olookup k a') as [v'|]; try contradiction; [|reflexivity].
    destruct v, v'; cbn [txr] in H; try contradiction; try reflexivity.
    apply txr_arr_unfold in H. apply forallb_txr_list; [|exact H].
    intros x y Hxy. rewrite (reference_ok_rel id matcher x y Hxy). destruct x, y; cbn [txr] in Hxy; try contradiction; reflexivity.
  Qed.

  Lemma attachments_ok_rel : forall a a',
    orel tx (olookup k_attachments a) (olookup k_attachments a') -> attachments_ok a' = attachments_ok a.
  Proof.
    intros a a' H. unfold attachments_ok, orel in *.
    destruct (olookup k_attachments a) as [v|], (olookup k_attachments a') as [v'|]; try contradiction; [|reflexivity].
    destruct v, v'; cbn [txr] in H; try contradiction; try reflexivity.
    apply txr_arr_unfold in H. apply forallb_txr_list; [|exact H].
    intros x y Hxy. destruct x, y; cbn [txr] in Hxy; try contradiction; try reflexivity.
    destruct Hxy as [n ->]. apply iter_attachment.
  Qed.

  Ltac outside_fp := apply not_in_keys; reflexivity.

  Lemma action_texts_rel : forall a a',
    action_frame tx a a' -> action_texts_ok a' = action_texts_ok a.
  Proof.
    intros a a' Hf.
    apply (obj_frame_mono tx _ _ action_footprint action_heads a a' (action_fp_sub (type_of a))
             (row_heads_sub catalog_actions (type_of a))) in Hf. destruct Hf as [H1 H2].
    assert (Ht : olookup k_type a' = olookup k_type a).
    { apply H2; [outside_fp|]. apply not_in_keys. pose proof heads_avoid_type_true as H. unfold heads_avoid_type in H.
      apply andb_true_iff in H. destruct H as [H _]. now apply negb_true_iff in H. }
    assert (Hty : forall t, is_type t a' = is_type t a) by (intro t; now apply is_type_same).
    unfold action_texts_ok, is_any_type. cbn [existsb required_texts forallb fst snd]. rewrite !Hty.
    rewrite !(required_nonempty_rel _ a a') by (apply H1; outside_fp).
    rewrite (attachments_ok_rel a a') by (apply H1; outside_fp).
    rewrite !(references_ok_rel _ _ _ _ a a') by (apply H1; outside_fp).
    assert (Ha : match olookup k_assignee a' with None => true | Some v => reference_ok k_email k_email_match v end
                 = match olookup k_assignee a with None => true | Some v => reference_ok k_email k_email_match v end).
    { pose proof (H1 k_assignee ltac:(outside_fp)) as Hr. unfold orel in Hr.
      destruct (olookup k_assignee a), (olookup k_assignee a'); try contradiction; [now apply reference_ok_rel | reflexivity]. }
    now rewrite Ha.
  Qed.

  Lemma router_texts_rel : forall r r',
    router_frame tx r r' -> router_texts_ok r' = router_texts_ok r.
  Proof.
    intros r r' Hf.
    apply (obj_frame_mono tx _ _ router_footprint router_heads r r' (fun k H => H)
             (row_heads_sub catalog_routers (type_of r))) in Hf. destruct Hf as [H1 H2].
    assert (Ht : olookup k_type r' = olookup k_type r).
    { apply H2; [outside_fp|]. apply not_in_keys. pose proof heads_avoid_type_true as H. unfold heads_avoid_type in H.
      apply andb_true_iff in H. destruct H as [_ H]. now apply negb_true_iff in H. }
    unfold router_texts_ok. rewrite (is_type_same _ r' r Ht).
    now rewrite (required_nonempty_rel k_operand r r') by (apply H1; outside_fp).
  Qed.

  Lemma forallb_lifted : forall (R : obj -> obj -> Prop) (p : obj -> bool) l l',
    (forall a a', R a a' -> p a' = p a) -> Forall2 (lifted R) l l' ->
    forallb (fun x => match x with JObj o => p o | _ => true end) l'
    = forallb (fun x => match x with JObj o => p o | _ => true end) l.
  Proof.
    intros R p l l' Hp H. induction H as [|x y l l' Hxy _ IH]; [reflexivity|]. cbn [forallb]. rewrite IH. f_equal.
    destruct x, y; cbn in Hxy; try congruence. now apply Hp.
  Qed.

  Lemma node_texts_rel : forall n n', node_frame tx n n' -> node_texts_ok (JObj n') = node_texts_ok (JObj n).
  Proof.
    intros n n' [_ [Ha Hr]]. cbn [node_texts_ok]. unfold member_frame in *. f_equal.
    - destruct (olookup k_actions n) as [x|], (olookup k_actions n') as [y|]; try contradiction; [|reflexivity].
      destruct x, y; cbn in Ha; try congruence. apply (forallb_lifted _ action_texts_ok _ _ action_texts_rel Ha).
    - destruct (olookup k_router n) as [x|], (olookup k_router n') as [y|]; try contradiction; [|reflexivity].
      destruct x, y; cbn in Hr; try congruence. now apply router_texts_rel.
  Qed.

  Lemma texts_ok_frame : forall f f', flow_frame tx f f' -> texts_ok f' = texts_ok f.
  Proof.
    intros f f' [_ Hn]. unfold texts_ok, member_frame in *.
    destruct (olookup k_nodes f) as [x|], (olookup k_nodes f') as [y|]; try contradiction; [|reflexivity].
    destruct x, y; cbn in Hn; try congruence.
    induction Hn as [|a b l l' Hab _ IH]; [reflexivity|]. cbn [forallb]. rewrite IH. f_equal.
    destruct a, b; cbn in Hab; try congruence. now apply node_texts_rel.
  Qed.

  (* valid at its version, template members included  ->  loads at the current version, template members included *)
  Lemma valid_after_full : forall j fr j' fr',
    valid_source_full true j = true ->
    migrate_to_latest tx j fr = (MOut j', fr') ->
    valid_current_full j' = true.
  Proof.
    intros j fr j' fr' Hv Hm. unfold valid_source_full in Hv. apply andb_true_iff in Hv. destruct Hv as [Hv Ht].
    unfold valid_current_full. rewrite (valid_after tx j fr j' fr' Hv Hm). cbn [andb].
    destruct (migrate_frame tx j None fr j' fr' Hm) as [f [f' [-> [-> Hf]]]]. now rewrite (texts_ok_frame f f' Hf).
  Qed.
End Keeps.

(* the hypothesis on tx can be met: the identity keeps everything *)
Example tx_keeps_identity : tx_keeps (fun x => x).
Proof. intro x. unfold tx_keeps_on. now rewrite !eqb_reflx. Qed.

(* F12 again, now with the template-text checks in the picture *)
Lemma valid_after_full_refuted :
  exists j, valid_source_full false j = true
    /\ match fst (migrate_to_latest (fun x => x) j []) with MOut j' => valid_current_full j' = false | _ => False end.
Proof. exists example_f12. split; vm_compute; reflexivity. Qed.

Example valid_after_full_applies : valid_source_full true example_13_0 = true.
Proof. vm_compute. reflexivity. Qed.
