(* proofs/QuoteProofs.v — facts about lib/Quote.v.
   Lemma Q (unquote_quote): strconv.Unquote inverts strconv.Quote on every valid code-point list, for every
   IsPrint table that does not call the newline printable.  Structural facts about the quoted form used by
   the lexer lemmas of C11/C12/C14/C17. *)
From Coq Require Import List NArith Bool Lia ZifyBool ZifyN ZifyNat.
From Verif Require Import lib.Quote.
Import ListNotations.
Open Scope N_scope.

(* ---------------------------------------------------------------------------------------------- *)
(* hex digits *)

Definition hexchar (x : N) : bool := ((48 <=? x) && (x <=? 57)) || ((97 <=? x) && (x <=? 102)).

Lemma hexdig_hexchar d : d < 16 -> hexchar (hexdig d) = true.
Proof. intros H. unfold hexchar, hexdig. destruct (d <? 10) eqn:E; lia. Qed.

Lemma unhex_hexdig d : d < 16 -> unhex (hexdig d) = Some d.
Proof.
  intros H. unfold unhex, hexdig. destruct (d <? 10) eqn:E.
  - replace ((48 <=? 48 + d) && (48 + d <=? 57)) with true by lia. f_equal. lia.
  - replace ((48 <=? 87 + d) && (87 + d <=? 57)) with false by lia.
    replace ((97 <=? 87 + d) && (87 + d <=? 102)) with true by lia. f_equal. lia.
Qed.

Lemma hexdigits_hexchar n c : Forall (fun x => hexchar x = true) (hexdigits n c).
Proof.
  induction n; cbn [hexdigits]; constructor; auto.
  apply hexdig_hexchar. apply N.mod_lt. lia.
Qed.

Lemma hexdigits_length n c : length (hexdigits n c) = n.
Proof. induction n; cbn [hexdigits length]; congruence. Qed.

Lemma read_hex_hexdigits n : forall c v t,
  read_hex n v (hexdigits n c ++ t) = Some (v * 16 ^ N.of_nat n + c mod 16 ^ N.of_nat n, t).
Proof.
  induction n; intros c v t; cbn [hexdigits read_hex app].
  - change (16 ^ N.of_nat 0) with 1. rewrite N.mod_1_r. f_equal. f_equal. lia.
  - rewrite unhex_hexdig by (apply N.mod_lt; lia). rewrite IHn. f_equal. f_equal.
    rewrite Nat2N.inj_succ, N.pow_succ_r'.
    set (P := 16 ^ N.of_nat n).
    assert (HP : P <> 0) by (apply N.pow_nonzero; lia).
    rewrite (N.mul_comm 16 P), (N.mod_mul_r c P 16) by lia.
    set (d := (c / P) mod 16). set (m := c mod P). ring.
Qed.

Lemma read_hex_len n : forall v s v' t, read_hex n v s = Some (v', t) -> (length t <= length s)%nat.
Proof.
  induction n; intros v s v' t H; cbn [read_hex] in H.
  - inversion H; subst; lia.
  - destruct s as [|c s']; [discriminate|]. destruct (unhex c); [|discriminate].
    apply IHn in H. cbn [length]. lia.
Qed.

(* ---------------------------------------------------------------------------------------------- *)
(* shape of one escaped character *)

Definition escape_letters : list N := [34; 92; 97; 98; 102; 110; 114; 116; 118; 120; 117; 85].

Lemma esc_shape p c :
  (esc p c = [c] /\ c <> 34 /\ c <> 92 /\ p c = true)
  \/ (exists e t, esc p c = 92 :: e :: t /\ In e escape_letters
        /\ Forall (fun x => hexchar x = true) t
        /\ (e = 34 -> c = 34 /\ t = []) /\ (e = 92 -> c = 92 /\ t = [])).
Proof.
  unfold esc.
  destruct ((c =? 34) || (c =? 92)) eqn:E1.
  { right. exists c, []. split; [reflexivity|]. unfold escape_letters.
    split; [|split; [constructor|split; auto]].
    destruct (N.eqb_spec c 34); [subst; cbn; auto|]. destruct (N.eqb_spec c 92); [subst; cbn; auto|discriminate]. }
  destruct (p c) eqn:E2.
  { left. repeat split; auto; intros ->; discriminate. }
  right.
  repeat match goal with
  | |- exists e t, (if ?b then _ else _) = _ /\ _ =>
      destruct b eqn:?;
      [ eexists _, _; split; [reflexivity|]; unfold escape_letters; cbn [In];
        split; [tauto|]; split; [first [apply hexdigits_hexchar | constructor]|];
        split; intros ?; discriminate | ]
  end.
  eexists _, _; split; [reflexivity|]; unfold escape_letters; cbn [In].
  split; [tauto|]; split; [apply hexdigits_hexchar|]. split; intros ?; discriminate.
Qed.

Lemma hexchar_not x : hexchar x = true -> x <> 34 /\ x <> 92 /\ x <> 10.
Proof. unfold hexchar. lia. Qed.

Lemma esc_nonempty p c : esc p c <> [].
Proof.
  destruct (esc_shape p c) as [[-> _]|(e & t & -> & _)]; discriminate.
Qed.

Lemma esc_length p c : (1 <= length (esc p c))%nat.
Proof. pose proof (esc_nonempty p c). destruct (esc p c); [congruence|cbn; lia]. Qed.

Lemma quote_body_length p s : (length s <= length (quote_body p s))%nat.
Proof.
  induction s as [|c s IH]; cbn [quote_body flat_map length]; [lia|].
  rewrite app_length. pose proof (esc_length p c). fold (quote_body p s). lia.
Qed.

Lemma quote_body_cons p c s : quote_body p (c :: s) = esc p c ++ quote_body p s.
Proof. reflexivity. Qed.

Lemma quote_body_app p a b : quote_body p (a ++ b) = quote_body p a ++ quote_body p b.
Proof. unfold quote_body. apply flat_map_app. Qed.

(* ---------------------------------------------------------------------------------------------- *)
(* Lemma Q *)

Lemma loop_bs f s1 acc raw :
  unquote_loop (S f) (92 :: s1) acc raw =
  match unquote_char (92 :: s1) with
  | UCErr => USyntax
  | UC v mb tail => if (v <? 128) || mb then unquote_loop f tail (v :: acc) raw
                    else unquote_loop f tail acc true
  end.
Proof. reflexivity. Qed.

Lemma loop_raw f c t acc raw : c <> 34 -> c <> 92 -> c <> 10 ->
  unquote_loop (S f) (c :: t) acc raw = unquote_loop f t (c :: acc) raw.
Proof.
  intros H1 H2 H3. cbn [unquote_loop unquote_char].
  replace (c =? 34) with false by lia. replace (c =? 10) with false by lia.
  destruct (128 <=? c) eqn:E.
  - rewrite orb_true_r. reflexivity.
  - replace (c =? 92) with false by lia. cbn [negb].
    replace (c <? 128) with true by lia. reflexivity.
Qed.

Lemma mod_pow_small c n : c < 16 ^ N.of_nat n -> 0 * 16 ^ N.of_nat n + c mod 16 ^ N.of_nat n = c.
Proof. intros H. rewrite N.mod_small by exact H. lia. Qed.

Lemma loop_esc p c : p 10 = false -> valid_cp c = true -> forall f t acc raw,
  unquote_loop (S f) (esc p c ++ t) acc raw = unquote_loop f t (c :: acc) raw.
Proof.
  intros Hnl Hv f t acc raw. unfold esc.
  destruct ((c =? 34) || (c =? 92)) eqn:E1.
  { destruct (N.eqb_spec c 34); [subst; reflexivity|].
    destruct (N.eqb_spec c 92); [subst; reflexivity|discriminate]. }
  destruct (p c) eqn:E2.
  { cbn [app]. apply loop_raw; try lia. intros ->. congruence. }
  destruct (N.eqb_spec c 7); [subst; reflexivity|].
  destruct (N.eqb_spec c 8); [subst; reflexivity|].
  destruct (N.eqb_spec c 12); [subst; reflexivity|].
  destruct (N.eqb_spec c 10); [subst; reflexivity|].
  destruct (N.eqb_spec c 13); [subst; reflexivity|].
  destruct (N.eqb_spec c 9); [subst; reflexivity|].
  destruct (N.eqb_spec c 11); [subst; reflexivity|].
  destruct ((c <? 32) || (c =? 127)) eqn:E3.
  { cbn [app]. rewrite loop_bs.
    change (unquote_char (92 :: 120 :: hexdigits 2 c ++ t))
      with (match read_hex 2 0 (hexdigits 2 c ++ t) with Some (v, t') => UC v false t' | None => UCErr end).
    rewrite read_hex_hexdigits, mod_pow_small by (change (16 ^ N.of_nat 2) with 256; lia).
    replace (c <? 128) with true by lia. reflexivity. }
  rewrite Hv. cbn [negb].
  destruct (c <? 0x10000) eqn:E4.
  { cbn [app]. rewrite loop_bs.
    change (unquote_char (92 :: 117 :: hexdigits 4 c ++ t))
      with (match read_hex 4 0 (hexdigits 4 c ++ t) with
            | Some (v, t') => if valid_cp v then UC v true t' else UCErr | None => UCErr end).
    rewrite read_hex_hexdigits, mod_pow_small by (change (16 ^ N.of_nat 4) with 0x10000; lia).
    rewrite Hv, orb_true_r. reflexivity. }
  cbn [app]. rewrite loop_bs.
  change (unquote_char (92 :: 85 :: hexdigits 8 c ++ t))
    with (match read_hex 8 0 (hexdigits 8 c ++ t) with
          | Some (v, t') => if valid_cp v then UC v true t' else UCErr | None => UCErr end).
  rewrite read_hex_hexdigits, mod_pow_small.
  - rewrite Hv, orb_true_r. reflexivity.
  - change (16 ^ N.of_nat 8) with 0x100000000. unfold valid_cp in Hv. lia.
Qed.

Lemma loop_body p : p 10 = false -> forall s, valid_codepoints s -> forall k rest acc raw,
  unquote_loop (length s + k) (quote_body p s ++ rest) acc raw
  = unquote_loop k rest (rev s ++ acc) raw.
Proof.
  intros Hnl s Hs. induction Hs as [|c s Hc Hs IH]; intros k rest acc raw.
  - reflexivity.
  - rewrite quote_body_cons, <- app_assoc. cbn [length Nat.add].
    rewrite (loop_esc p c Hnl Hc), IH. cbn [rev]. rewrite <- app_assoc. reflexivity.
Qed.

(* Lemma Q *)
Theorem unquote_quote : forall printable s,
  printable 10 = false -> valid_codepoints s -> unquote (quote printable s) = UOk s.
Proof.
  intros p s Hnl Hs. unfold quote, unquote.
  destruct (quote_body p s ++ [34]) as [|x l] eqn:E.
  { destruct (quote_body p s); discriminate. }
  rewrite <- E. change (34 =? 34) with true. cbv iota.
  pose proof (quote_body_length p s) as HL.
  assert (HF : exists k, S (length (quote_body p s ++ [34])) = (length s + S k)%nat).
  { exists (length (quote_body p s) - length s + 1)%nat. rewrite app_length. cbn [length]. lia. }
  destruct HF as [k ->]. rewrite (loop_body p Hnl s Hs). cbn [unquote_loop].
  change (34 =? 34) with true. cbv iota. rewrite app_nil_r, rev_involutive. reflexivity.
Qed.

Corollary unquote_opt_quote : forall printable s,
  printable 10 = false -> valid_codepoints s -> unquote_opt (quote printable s) = Some s.
Proof. intros p s H1 H2. unfold unquote_opt. rewrite unquote_quote; auto. Qed.

(* the hypotheses are satisfiable, with a witness exercising every escape class *)
Example unquote_quote_witness :
  let p := fun c => (32 <=? c) && (c <? 127) in
  let s := [97; 34; 92; 10; 9; 7; 1; 127; 233; 0x2028; 0x1F600; 92] in
  p 10 = false /\ valid_codepoints s /\ unquote (quote p s) = UOk s.
Proof. cbv zeta. split; [reflexivity|]. split; [repeat constructor|vm_compute; reflexivity]. Qed.

(* the newline hypothesis is necessary *)
Example unquote_quote_needs_nl :
  unquote (quote (fun _ => true) [10]) = USyntax.
Proof. reflexivity. Qed.

(* ---------------------------------------------------------------------------------------------- *)
(* the fuel is sufficient *)

Lemma unquote_char_len s v mb t : unquote_char s = UC v mb t -> (length t < length s)%nat.
Proof.
  unfold unquote_char. destruct s as [|c s1]; [discriminate|].
  destruct (c =? 34); [discriminate|].
  destruct (128 <=? c). { intros H; inversion H; subst; cbn; lia. }
  destruct (negb (c =? 92)). { intros H; inversion H; subst; cbn; lia. }
  destruct s1 as [|e s2]; [discriminate|].
  repeat match goal with
  | |- (if ?b then _ else _) = _ -> _ => destruct b; [try (intros H; inversion H; subst; cbn; lia)|]
  end.
  - destruct (read_hex 2 0 s2) as [[v' t']|] eqn:R; [|discriminate].
    intros H; inversion H; subst. apply read_hex_len in R. cbn [length]. lia.
  - destruct (read_hex 4 0 s2) as [[v' t']|] eqn:R; [|discriminate].
    destruct (valid_cp v'); [|discriminate].
    intros H; inversion H; subst. apply read_hex_len in R. cbn [length]. lia.
  - destruct (read_hex 8 0 s2) as [[v' t']|] eqn:R; [|discriminate].
    destruct (valid_cp v'); [|discriminate].
    intros H; inversion H; subst. apply read_hex_len in R. cbn [length]. lia.
  - destruct (octdig e).
    + destruct s2 as [|c1 [|c2 t']]; try discriminate.
      destruct (octdig c1); [|discriminate]. destruct (octdig c2); [|discriminate].
      match goal with |- (if ?b then _ else _) = _ -> _ => destruct b; [discriminate|] end.
      intros H; inversion H; subst. cbn [length]. lia.
    + repeat match goal with
      | |- (if ?b then _ else _) = _ -> _ => destruct b; [try (intros H; inversion H; subst; cbn; lia)|]
      end. discriminate.
Qed.

Lemma unquote_loop_no_fuel : forall f inp acc raw,
  (length inp < f)%nat -> unquote_loop f inp acc raw <> UFuel.
Proof.
  induction f; intros inp acc raw H; [lia|]. cbn [unquote_loop].
  destruct inp as [|c rest]; [discriminate|].
  destruct (c =? 34). { destruct rest; [destruct raw|]; discriminate. }
  destruct (c =? 10); [discriminate|].
  destruct (unquote_char (c :: rest)) as [v mb t|] eqn:U; [|discriminate].
  apply unquote_char_len in U. cbn [length] in *.
  destruct ((v <? 128) || mb); apply IHf; lia.
Qed.

Theorem unquote_no_fuel : forall s, unquote s <> UFuel.
Proof.
  intros s. unfold unquote. destruct s as [|q [|x l]]; try discriminate.
  destruct (q =? 34).
  - apply unquote_loop_no_fuel. lia.
  - destruct ((q =? 39) || (q =? 96)); discriminate.
Qed.

(* ---------------------------------------------------------------------------------------------- *)
(* structural facts about the quoted form *)

Lemma quote_starts_ends p s : exists body, quote p s = 34 :: body ++ [34] /\ body = quote_body p s.
Proof. eexists; split; reflexivity. Qed.

(* two-state reading: no unprotected quote, no raw newline, every backslash starts a complete escape *)
Lemma body_scan_hex t : Forall (fun x => hexchar x = true) t ->
  forall r, body_scan false (t ++ r) = body_scan false r.
Proof.
  induction 1 as [|x t Hx Ht IH]; intros r; [reflexivity|].
  apply hexchar_not in Hx. destruct Hx as (H1 & H2 & H3). cbn [app body_scan].
  replace (x =? 92) with false by lia. replace ((x =? 34) || (x =? 10)) with false by lia. apply IH.
Qed.

Lemma body_scan_esc p c r : p 10 = false -> body_scan false (esc p c ++ r) = body_scan false r.
Proof.
  intros Hnl. destruct (esc_shape p c) as [(-> & H1 & H2 & H3)|(e & t & -> & _ & Ht & _)].
  - cbn [app body_scan]. assert (c <> 10) by (intros ->; congruence).
    replace (c =? 92) with false by lia. replace ((c =? 34) || (c =? 10)) with false by lia. reflexivity.
  - cbn [app body_scan]. change (92 =? 92) with true. cbv iota. apply body_scan_hex, Ht.
Qed.

Theorem quote_body_scan p s : p 10 = false -> body_scan false (quote_body p s) = true.
Proof.
  intros Hnl. induction s as [|c s IH]; [reflexivity|].
  rewrite quote_body_cons, body_scan_esc by exact Hnl. exact IH.
Qed.

Lemma last_default_irrelevant {A} (l : list A) d d' : l <> [] -> last l d = last l d'.
Proof.
  induction l as [|x l IH]; [congruence|]. intros _. destruct l; [reflexivity|].
  cbn [last]. apply IH. discriminate.
Qed.

Lemma last_cons {A} (t : list A) x d : last (x :: t) d = last t x.
Proof.
  destruct t as [|y t]; [reflexivity|].
  change (last (x :: y :: t) d) with (last (y :: t) d).
  apply last_default_irrelevant. discriminate.
Qed.

(* every DQUOTE inside the body is immediately preceded by a backslash, whatever precedes the body *)
Lemma quotes_preceded_hex t : Forall (fun x => hexchar x = true) t ->
  forall prev r, quotes_preceded prev (t ++ r) = quotes_preceded (last t prev) r.
Proof.
  induction 1 as [|x t Hx Ht IH]; intros prev r; [reflexivity|].
  apply hexchar_not in Hx. destruct Hx as (H1 & H2 & H3).
  cbn [app quotes_preceded]. replace (x =? 34) with false by lia. cbn [negb orb andb].
  rewrite IH, last_cons. reflexivity.
Qed.

Lemma quotes_preceded_app prev a r :
  quotes_preceded prev a = true -> quotes_preceded prev (a ++ r) = quotes_preceded (last a prev) r.
Proof.
  revert prev. induction a as [|x a IH]; intros prev H; [reflexivity|].
  cbn [app quotes_preceded] in *. apply andb_prop in H. destruct H as [H1 H2].
  rewrite H1, IH by exact H2. rewrite last_cons. reflexivity.
Qed.

Lemma quotes_preceded_esc p c prev : quotes_preceded prev (esc p c) = true.
Proof.
  destruct (esc_shape p c) as [(-> & H1 & H2 & H3)|(e & t & -> & _ & Ht & _)].
  - cbn [quotes_preceded]. replace (c =? 34) with false by lia. reflexivity.
  - cbn [quotes_preceded]. change (92 =? 34) with false. change (92 =? 92) with true.
    cbn [negb orb andb]. rewrite orb_true_r. cbn [andb].
    rewrite <- (app_nil_r t), quotes_preceded_hex by exact Ht. reflexivity.
Qed.

Theorem quote_body_quotes_preceded p s prev : quotes_preceded prev (quote_body p s) = true.
Proof.
  revert prev. induction s as [|c s IH]; intros prev; [reflexivity|].
  rewrite quote_body_cons, quotes_preceded_app by apply quotes_preceded_esc. apply IH.
Qed.

(* the body ends in a backslash exactly when the string does *)
Definition ends_bs (l : list N) : bool := last l 0 =? 92.

Lemma last_app_nonempty {A} (a b : list A) d : b <> [] -> last (a ++ b) d = last b d.
Proof.
  intros Hb. induction a as [|x a IH]; [reflexivity|].
  cbn [app]. rewrite last_cons. destruct (a ++ b) as [|y l] eqn:E.
  - destruct a; [cbn in E; congruence|discriminate].
  - rewrite <- IH. apply last_default_irrelevant. discriminate.
Qed.

Lemma esc_last_bs p c : (last (esc p c) 0 =? 92) = (c =? 92).
Proof.
  destruct (N.eqb_spec c 92) as [->|Hc]; [reflexivity|].
  destruct (esc_shape p c) as [(-> & H1 & H2 & H3)|(e & t & -> & He & Ht & H34 & H92)].
  - cbn [last]. lia.
  - destruct t as [|x t'].
    + cbn [last]. destruct (N.eqb_spec e 92) as [->|Hne]; [|reflexivity].
      destruct (H92 eq_refl) as [-> _]. congruence.
    + assert (Hl : hexchar (last (x :: t') 0) = true).
      { assert (In (last (x :: t') 0) (x :: t')).
        { clear. generalize x. induction t' as [|y t IH]; intros z; [left; reflexivity|].
          right. apply (IH y). }
        rewrite Forall_forall in Ht. apply Ht. assumption. }
      change (last (92 :: e :: x :: t') 0) with (last (x :: t') 0).
      apply hexchar_not in Hl. lia.
Qed.

Theorem quote_body_ends_bs p s : ends_bs (quote_body p s) = ends_bs s.
Proof.
  unfold ends_bs. induction s as [|c s IH]; [reflexivity|].
  rewrite quote_body_cons. destruct s as [|c' s'].
  - cbn [quote_body flat_map]. rewrite app_nil_r. cbn [last]. apply esc_last_bs.
  - rewrite last_app_nonempty.
    + rewrite IH. reflexivity.
    + rewrite quote_body_cons. intros E. apply app_eq_nil in E. destruct E as [E _].
      exact (esc_nonempty p c' E).
Qed.

Lemma last_ends_bs l prev : prev <> 92 -> (last l prev =? 92) = ends_bs l.
Proof.
  intros H. unfold ends_bs. destruct l as [|x l].
  - cbn [last]. replace (prev =? 92) with false by lia. reflexivity.
  - rewrite (last_default_irrelevant (x :: l) prev 0) by discriminate. reflexivity.
Qed.

(* no raw newline and no raw quote that is not escaped, element-wise *)
Lemma quote_body_no_newline p s : p 10 = false -> ~ In 10 (quote_body p s).
Proof.
  intros Hnl. induction s as [|c s IH]; [intros []|].
  rewrite quote_body_cons. intros H. apply in_app_or in H. destruct H as [H|H]; [|auto].
  destruct (esc_shape p c) as [(E & H1 & H2 & H3)|(e & t & E & He & Ht & _)]; rewrite E in H.
  - destruct H as [H|[]]. subst c. congruence.
  - destruct H as [H|[H|H]]; [discriminate| |].
    + subst e. unfold escape_letters in He. cbn [In] in He. lia.
    + rewrite Forall_forall in Ht. apply Ht, hexchar_not in H. lia.
Qed.
