(* ExRenameFull.v — C11: the tree ContextRefRename really leaves, rename (avoid t) with the capture-avoiding step
   included (model/ExRefactor.v: rename_full), is printed to tokens that parse back to it.  The generic induction of
   proofs/ExRoundtrip.v (greparse_tokens) is instantiated with a name-map STATE that follows the alpha steps: for each
   step (name, fresh, suffix) whether we are inside a function with that parameter, and whether a parameter named like
   `from` binds the references. *)
From Coq Require Import List NArith Bool Arith Lia.
From Verif Require Import lib.Quote model.ExSyntax model.ExLexer model.ExParser model.ExPrinter model.ExScanner
  model.ExRefactor proofs.ExPrintProofs proofs.ExRoundtrip.
Import ListNotations.
Open Scope N_scope.

Section Full.
Variable lower : N -> N.
Variable printable : N -> bool.
Hypothesis printable_nl : printable 10 = false.
Variable from : ExSyntax.text.
Variable to : ExSyntax.text.

Notation sn := (same_name lower).
Notation isf := (is_from lower from).
Definition step : Type := (ExSyntax.text * ExSyntax.text * ExSyntax.text)%type.   (* name, fresh, suffix *)

Definition gpar (nm sf : ExSyntax.text) (x : ExSyntax.text) : ExSyntax.text := if sn x nm then x ++ sf else x.

(* a sequence of alpha steps, each with its own "inside a function with that parameter" flag *)
Fixpoint alphaL (L : list step) (inbs : list bool) (e : expr) : expr :=
  match L, inbs with
  | (nm, fr, sf) :: L', i :: inbs' => alphaL L' inbs' (alpha lower nm fr sf i e)
  | _, _ => e
  end.

Fixpoint ref_steps (L : list step) (inbs : list bool) (n : ExSyntax.text) : ExSyntax.text :=
  match L, inbs with
  | (nm, fr, _) :: L', i :: inbs' => ref_steps L' inbs' (if i && sn n nm then fr else n)
  | _, _ => n
  end.

Fixpoint pa_steps (L : list step) (inbs : list bool) (a : list ExSyntax.text) : list ExSyntax.text :=
  match L, inbs with
  | (nm, _, sf) :: L', _ :: inbs' => pa_steps L' inbs' (map (gpar nm sf) a)
  | _, _ => a
  end.

Fixpoint push_inbs (L : list step) (inbs : list bool) (a : list ExSyntax.text) : list bool :=
  match L, inbs with
  | (nm, _, sf) :: L', i :: inbs' => (i || existsb (fun x => sn x nm) a) :: push_inbs L' inbs' (map (gpar nm sf) a)
  | _, _ => []
  end.

(* alpha on an anonymous function, in one equation *)
Lemma alpha_anon nm fr sf i a b :
  alpha lower nm fr sf i (EAnon a b) =
  EAnon (map (gpar nm sf) a) (alpha lower nm fr sf (i || existsb (fun x => sn x nm) a) b).
Proof.
  cbn [alpha]. destruct (existsb (fun x => sn x nm) a) eqn:E.
  - rewrite orb_true_r. reflexivity.
  - rewrite orb_false_r. f_equal. symmetry. rewrite <- (map_id a) at 2. apply map_ext_in. intros x Hx. unfold gpar.
    destruct (sn x nm) eqn:Ex; [|reflexivity]. exfalso.
    assert (H : existsb (fun x => sn x nm) a = true) by (apply existsb_exists; exists x; auto). congruence.
Qed.

(* alphaL distributes over the constructors *)
Lemma alphaL_ref : forall L inbs n, alphaL L inbs (ECtxRef n) = ECtxRef (ref_steps L inbs n).
Proof.
  induction L as [|[[nm fr] sf] L IH]; intros [|i inbs] n; try reflexivity.
  cbn [alphaL ref_steps alpha]. destruct (i && sn n nm); apply IH.
Qed.

Lemma alphaL_dot : forall L inbs c l, alphaL L inbs (EDot c l) = EDot (alphaL L inbs c) l.
Proof. induction L as [|[[nm fr] sf] L IH]; intros [|i inbs] c l; try reflexivity. cbn [alphaL alpha]. apply IH. Qed.

Lemma alphaL_index : forall L inbs c l, alphaL L inbs (EIndex c l) = EIndex (alphaL L inbs c) (alphaL L inbs l).
Proof. induction L as [|[[nm fr] sf] L IH]; intros [|i inbs] c l; try reflexivity. cbn [alphaL alpha]. apply IH. Qed.

Lemma alphaL_call : forall L inbs f ps, alphaL L inbs (ECall f ps) = ECall (alphaL L inbs f) (map (alphaL L inbs) ps).
Proof.
  assert (Hid : forall (g : expr -> expr) ps, (forall x, g x = x) -> map g ps = ps).
  { intros g ps Hg. rewrite <- (map_id ps) at 2. apply map_ext. exact Hg. }
  induction L as [|[[nm fr] sf] L IH]; intros inbs f ps.
  - destruct inbs; cbn [alphaL]; rewrite Hid by (intros; reflexivity); reflexivity.
  - destruct inbs as [|i inbs]; cbn [alphaL].
    + rewrite Hid by (intros; reflexivity). reflexivity.
    + cbn [alpha]. rewrite IH, map_map. reflexivity.
Qed.

Lemma alphaL_anon : forall L inbs a b,
  alphaL L inbs (EAnon a b) = EAnon (pa_steps L inbs a) (alphaL L (push_inbs L inbs a) b).
Proof.
  induction L as [|[[nm fr] sf] L IH]; intros [|i inbs] a b; try reflexivity.
  cbn [alphaL pa_steps push_inbs]. rewrite alpha_anon. apply IH.
Qed.

Lemma alphaL_bin : forall L inbs o a b, alphaL L inbs (EBin o a b) = EBin o (alphaL L inbs a) (alphaL L inbs b).
Proof. induction L as [|[[nm fr] sf] L IH]; intros [|i inbs] o a b; try reflexivity. cbn [alphaL alpha]. apply IH. Qed.

Lemma alphaL_neg : forall L inbs a, alphaL L inbs (ENeg a) = ENeg (alphaL L inbs a).
Proof. induction L as [|[[nm fr] sf] L IH]; intros [|i inbs] a; try reflexivity. cbn [alphaL alpha]. apply IH. Qed.

Lemma alphaL_paren : forall L inbs a, alphaL L inbs (EParen a) = EParen (alphaL L inbs a).
Proof. induction L as [|[[nm fr] sf] L IH]; intros [|i inbs] a; try reflexivity. cbn [alphaL alpha]. apply IH. Qed.

Lemma alphaL_leaf : forall L inbs e, match e with EText _ | ENum _ | EBool _ | ENull => True | _ => False end ->
  alphaL L inbs e = e.
Proof.
  induction L as [|[[nm fr] sf] L IH]; intros [|i inbs] e H; try reflexivity.
  destruct e; try contradiction; cbn [alphaL alpha]; apply IH; exact I.
Qed.

(* ---------------------------------------------------------------------------------------------- *)
(* the state machine *)
Variable L : list step.

Definition fstate : Type := (bool * list bool)%type.
Definition fref (st : fstate) (n : ExSyntax.text) : ExSyntax.text :=
  let n' := ref_steps L (snd st) n in map lower (if negb (fst st) && isf n' then to else n').
Definition fpa (a : list ExSyntax.text) (st : fstate) : list ExSyntax.text := pa_steps L (snd st) a.
Definition fpush (a : list ExSyntax.text) (st : fstate) : fstate :=
  (fst st || existsb isf (pa_steps L (snd st) a), push_inbs L (snd st) a).

Lemma pa_steps_len : forall L0 inbs a, length (pa_steps L0 inbs a) = length a.
Proof.
  induction L0 as [|[[nm fr] sf] L0 IH]; intros [|i inbs] a; try reflexivity. cbn [pa_steps]. rewrite IH. apply map_length.
Qed.

Lemma fpa_len : forall a st, length (fpa a st) = length a.
Proof. intros a st. apply pa_steps_len. Qed.

(* what the state machine prints: the alpha steps, then - unless a parameter binds `from` - the renaming *)
Definition out (st : fstate) (e : expr) : expr :=
  let e' := alphaL L (snd st) e in if fst st then e' else rename isf to e'.

Notation G := (gtoks printable fstate fref fpush fpa).
Notation GN := (gnorm fstate fref fpush fpa).
Notation P := (ptoks lower printable).
Notation NO := (ExPrintProofs.norm lower).

Lemma out_both : forall e, (forall st, G st e = P (out st e)) /\ (forall st, GN st e = NO (out st e)).
Proof.
  induction e as [n|c l IHc|c l [IHc1 IHc2] [IHl1 IHl2]|f ps [IHf1 IHf2] IHps|a b [IHb1 IHb2]|o a b [IHa1 IHa2] [IHb1 IHb2]|a [IHa1 IHa2]|a [IHa1 IHa2]|v|l|b|] using expr_ind'.
  - split; intros [bnd inbs]; unfold out; cbn [fst snd]; rewrite alphaL_ref; cbn [gtoks gnorm]; unfold fref; cbn [fst snd];
      destruct bnd; cbn [negb andb rename ptoks ExPrintProofs.norm]; try reflexivity;
      destruct (isf (ref_steps L inbs n)); reflexivity.
  - destruct IHc as [IHc1 IHc2]. split; intros [bnd inbs]; unfold out in *; cbn [fst snd] in *; rewrite alphaL_dot; cbn [gtoks gnorm].
    + rewrite (IHc1 (bnd, inbs)). cbn [fst snd]. destruct bnd; reflexivity.
    + rewrite (IHc2 (bnd, inbs)). cbn [fst snd]. destruct bnd; reflexivity.
  - split; intros [bnd inbs]; unfold out in *; cbn [fst snd] in *; rewrite alphaL_index; cbn [gtoks gnorm].
    + rewrite (IHc1 (bnd, inbs)), (IHl1 (bnd, inbs)). cbn [fst snd]. destruct bnd; reflexivity.
    + rewrite (IHc2 (bnd, inbs)), (IHl2 (bnd, inbs)). cbn [fst snd]. destruct bnd; reflexivity.
  - split; intros [bnd inbs]; unfold out in *; cbn [fst snd] in *; rewrite alphaL_call.
    + rewrite gtoks_call, (IHf1 (bnd, inbs)). cbn [fst snd].
      assert (E : gtoks_list printable fstate fref fpush fpa (bnd, inbs) ps =
                  ptoks_list lower printable (map (fun x => if bnd then alphaL L inbs x else rename isf to (alphaL L inbs x)) ps)).
      { induction IHps as [|x r [Hx _] Hr IH]; [reflexivity|]. destruct r as [|y r'].
        - cbn. rewrite (Hx (bnd, inbs)). reflexivity.
        - rewrite gtoks_list_cons by discriminate. cbn [map]. rewrite ptoks_list_cons by discriminate.
          rewrite (Hx (bnd, inbs)), IH. reflexivity. }
      rewrite E. destruct bnd; cbn [rename]; rewrite ptoks_call, ?map_map; reflexivity.
    + cbn [gnorm]. rewrite (IHf2 (bnd, inbs)). cbn [fst snd].
      assert (E : map (GN (bnd, inbs)) ps = map (fun x => NO (if bnd then alphaL L inbs x else rename isf to (alphaL L inbs x))) ps).
      { induction IHps as [|x r [_ Hx] Hr IH]; [reflexivity|]. cbn [map]. rewrite (Hx (bnd, inbs)), IH. reflexivity. }
      rewrite E. destruct bnd; cbn [rename ExPrintProofs.norm]; rewrite !map_map; reflexivity.
  - split; intros [bnd inbs]; unfold out in *; cbn [fst snd] in *; rewrite alphaL_anon; cbn [gtoks gnorm]; change (fpa a (bnd, inbs)) with (pa_steps L inbs a); change (fpush a (bnd, inbs)) with (bnd || existsb isf (pa_steps L inbs a), push_inbs L inbs a).
    + rewrite (IHb1 (bnd || existsb isf (pa_steps L inbs a), push_inbs L inbs a)). cbn [fst snd].
      destruct bnd; cbn [orb rename ptoks]; [reflexivity|]. destruct (existsb isf (pa_steps L inbs a)); reflexivity.
    + rewrite (IHb2 (bnd || existsb isf (pa_steps L inbs a), push_inbs L inbs a)). cbn [fst snd].
      destruct bnd; cbn [orb rename ExPrintProofs.norm]; [reflexivity|]. destruct (existsb isf (pa_steps L inbs a)); reflexivity.
  - split; intros [bnd inbs]; unfold out in *; cbn [fst snd] in *; rewrite alphaL_bin; cbn [gtoks gnorm].
    + rewrite (IHa1 (bnd, inbs)), (IHb1 (bnd, inbs)). cbn [fst snd]. destruct bnd; reflexivity.
    + rewrite (IHa2 (bnd, inbs)), (IHb2 (bnd, inbs)). cbn [fst snd]. destruct bnd; reflexivity.
  - split; intros [bnd inbs]; unfold out in *; cbn [fst snd] in *; rewrite alphaL_neg; cbn [gtoks gnorm].
    + rewrite (IHa1 (bnd, inbs)). cbn [fst snd]. destruct bnd; reflexivity.
    + rewrite (IHa2 (bnd, inbs)). cbn [fst snd]. destruct bnd; reflexivity.
  - split; intros [bnd inbs]; unfold out in *; cbn [fst snd] in *; rewrite alphaL_paren; cbn [gtoks gnorm].
    + rewrite (IHa1 (bnd, inbs)). cbn [fst snd]. destruct bnd; reflexivity.
    + rewrite (IHa2 (bnd, inbs)). cbn [fst snd]. destruct bnd; reflexivity.
  - split; intros [bnd inbs]; unfold out; cbn [fst snd]; rewrite alphaL_leaf by exact I; destruct bnd; reflexivity.
  - split; intros [bnd inbs]; unfold out; cbn [fst snd]; rewrite alphaL_leaf by exact I; destruct bnd; reflexivity.
  - split; intros [bnd inbs]; unfold out; cbn [fst snd]; rewrite alphaL_leaf by exact I; destruct bnd; reflexivity.
  - split; intros [bnd inbs]; unfold out; cbn [fst snd]; rewrite alphaL_leaf by exact I; destruct bnd; reflexivity.
Qed.

(* the printed tokens of rename (alphaL t) are parsed back to it *)
Theorem reparse_alphaL ts t : Forall tokok ts -> parse_tokens ts = POk t ->
  let r := rename isf to (alphaL L (map (fun _ => false) L) t) in
  alike ts (P r) /\ parse_tokens (P r) = POk (NO r).
Proof.
  intros Hok H r.
  destruct (out_both t) as [H1 H2].
  pose proof (greparse_tokens printable printable_nl fstate fref fpush fpa fpa_len (false, map (fun _ => false) L) ts t Hok H) as HG.
  rewrite H1, H2 in HG. exact HG.
Qed.

End Full.

(* the capture-avoiding step IS a sequence of alpha steps, each started outside every function *)
Lemma avoid_is_alphaL lower from to : forall names used e,
  exists L, avoid lower from to names used e = alphaL lower L (map (fun _ => false) L) e.
Proof.
  induction names as [|n rest IH]; intros used e; [exists []; reflexivity|].
  cbn [avoid]. destruct (captures lower from n false e).
  - set (taken := used ++ target_names lower to).
    set (fr := pick_fresh (S (length taken)) (n ++ [95]) taken).
    destruct (IH (fr :: used) (alpha lower n fr (skipn (length n) fr) false e)) as (L & HL).
    exists ((n, fr, skipn (length n) fr) :: L). rewrite HL. reflexivity.
  - apply IH.
Qed.

(* the tree ContextRefRename leaves - alpha steps included - is printed to tokens that are kind by kind those of the
   source and parse back to it (normalised) *)
Theorem reparse_rename_full lower printable from to ts t : printable 10 = false ->
  Forall tokok ts -> parse_tokens ts = POk t ->
  let r := rename_full lower from to t in
  alike ts (ptoks lower printable r) /\ parse_tokens (ptoks lower printable r) = POk (ExPrintProofs.norm lower r).
Proof.
  intros Hnl Hok H r. unfold r, rename_full.
  destruct (avoid_is_alphaL lower from to (target_names lower to) (used_names lower t) t) as (L & ->).
  exact (reparse_alphaL lower printable Hnl from to L ts t Hok H).
Qed.
