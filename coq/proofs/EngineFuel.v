(* EngineFuel.v — termination of the main loop of the engine model (C05): a measure that decreases
   with every iteration, hence a bound on the fuel [continue_until_wait] needs, for every flow graph,
   every option value and every session that satisfies the invariant of proofs/EngineInv.v.

   measure = 2 * (iterations that may still count a step) + depth of the current run in the run
             hierarchy + (1 if a flow is pushed) *)

From Coq Require Import List NArith ZArith Bool Lia.
From Verif Require Import model.Lang model.Engine proofs.EngineProofs proofs.EngineInv.
Import ListNotations.
Open Scope N_scope.

(* ---- depth of a run ------------------------------------------------------------------------------------ *)

Fixpoint depth (sh : list shp) (fuel : nat) (o : option nat) : nat :=
  match fuel, o with
  | S f, Some p => match nth_error sh p with
                   | Some z => S (depth sh f (sh_parent z))
                   | None => O
                   end
  | _, _ => O
  end.

Definition depth_of (sh : list shp) (o : option nat) : nat := depth sh (length sh) o.

Lemma depth_fuel : forall sh, wf_parents sh -> forall f1 f2 o,
  (forall p, o = Some p -> (p < f1)%nat /\ (p < f2)%nat) -> depth sh f1 o = depth sh f2 o.
Proof.
  intros sh Hwf. induction f1 as [|f1 IH]; intros f2 o Ho.
  - destruct o as [p|]; [destruct (Ho p eq_refl); lia|destruct f2; reflexivity].
  - destruct o as [p|]; [|destruct f2; reflexivity].
    destruct (Ho p eq_refl) as [H1 H2]. destruct f2 as [|f2]; [lia|]. simpl.
    destruct (nth_error sh p) as [z|] eqn:E; auto. f_equal. apply IH.
    intros q Hq. specialize (Hwf _ _ _ E Hq). lia.
Qed.

Lemma depth_update : forall sh k f, (forall z, sh_parent (f z) = sh_parent z) ->
  forall fuel o, depth (update_nth sh k f) fuel o = depth sh fuel o.
Proof.
  intros sh k f Hf. induction fuel as [|fuel IH]; intros o; simpl; auto.
  destruct o as [p|]; auto. destruct (Nat.eq_dec k p) as [->|Hne].
  - rewrite nth_error_update_nth_eq. destruct (nth_error sh p); simpl; auto. rewrite Hf, IH. reflexivity.
  - rewrite nth_error_update_nth_neq by auto. destruct (nth_error sh p); auto.
Qed.

Lemma depth_map : forall sh f, (forall z, sh_parent (f z) = sh_parent z) ->
  forall fuel o, depth (map f sh) fuel o = depth sh fuel o.
Proof.
  intros sh f Hf. induction fuel as [|fuel IH]; intros o; simpl; auto.
  destruct o as [p|]; auto. rewrite nth_error_map. destruct (nth_error sh p); simpl; auto. rewrite Hf, IH. reflexivity.
Qed.

Lemma depth_app : forall sh z0, wf_parents sh -> forall fuel o, (forall p, o = Some p -> (p < length sh)%nat) ->
  depth (sh ++ [z0]) fuel o = depth sh fuel o.
Proof.
  intros sh z0 Hwf. induction fuel as [|fuel IH]; intros o Ho; simpl; auto.
  destruct o as [p|]; auto. specialize (Ho p eq_refl) as Hp. rewrite nth_error_app1 by auto.
  destruct (nth_error sh p) as [z|] eqn:E; auto. f_equal. apply IH.
  intros q Hq. specialize (Hwf _ _ _ E Hq). lia.
Qed.

Lemma depth_le : forall sh fuel o, (depth sh fuel o <= fuel)%nat.
Proof.
  intros sh. induction fuel as [|fuel IH]; intros o; simpl; [lia|].
  destruct o as [p|]; [|lia]. destruct (nth_error sh p); [|lia]. specialize (IH (sh_parent s)). lia.
Qed.

Lemma depth_of_update : forall sh k f, (forall z, sh_parent (f z) = sh_parent z) ->
  forall o, depth_of (update_nth sh k f) o = depth_of sh o.
Proof. intros. unfold depth_of. rewrite update_nth_length. apply depth_update; auto. Qed.

(* the depth of a run is one more than that of its parent *)
Lemma depth_of_step : forall sh c z, wf_parents sh -> nth_error sh c = Some z ->
  depth_of sh (Some c) = S (depth_of sh (sh_parent z)).
Proof.
  intros sh c z Hwf Hc. unfold depth_of.
  assert (Hlt : (c < length sh)%nat) by (apply nth_error_Some; congruence).
  destruct (length sh) as [|n] eqn:El; [lia|].
  transitivity (S (depth sh n (sh_parent z))); [simpl; rewrite Hc; reflexivity|]. f_equal.
  apply depth_fuel; auto. intros q Hq. specialize (Hwf _ _ _ Hc Hq). lia.
Qed.

(* a new run appended to the list *)
Lemma depth_of_push : forall sh par st ex, wf_parents sh -> (forall p, par = Some p -> (p < length sh)%nat) ->
  depth_of (sh ++ [(par, st, ex)]) (Some (length sh)) = S (depth_of sh par).
Proof.
  intros sh par st ex Hwf Hp.
  assert (Hwf' : wf_parents (sh ++ [(par, st, ex)])) by (apply wf_parents_app; auto).
  rewrite (depth_of_step _ _ (par, st, ex) Hwf') by (apply nth_error_snoc_eq). simpl. f_equal.
  unfold depth_of. rewrite app_length; simpl. rewrite depth_app; auto.
  apply depth_fuel; auto. intros q Hq. specialize (Hp _ Hq). lia.
Qed.

(* depth only depends on the parents *)
Definition parents (sh : list shp) : list (option nat) := map sh_parent sh.

Lemma depth_parents : forall sh sh', parents sh = parents sh' -> forall fuel o, depth sh fuel o = depth sh' fuel o.
Proof.
  intros sh sh' H. induction fuel as [|fuel IH]; intros o; simpl; auto.
  destruct o as [p|]; auto.
  assert (E : option_map sh_parent (nth_error sh p) = option_map sh_parent (nth_error sh' p)).
  { rewrite <- !nth_error_map. unfold parents in H. rewrite H. reflexivity. }
  destruct (nth_error sh p) as [z|], (nth_error sh' p) as [z'|]; simpl in E; try discriminate; auto.
  inversion E as [E']. rewrite E', IH. reflexivity.
Qed.

Lemma depth_of_parents : forall sh sh' o, parents sh = parents sh' -> depth_of sh o = depth_of sh' o.
Proof.
  intros sh sh' o H. unfold depth_of.
  assert (length sh = length sh') by (rewrite <- (map_length sh_parent sh), <- (map_length sh_parent sh'); unfold parents in H; rewrite H; reflexivity).
  rewrite H0. apply depth_parents; auto.
Qed.

Lemma parents_update : forall sh k f, (forall z, sh_parent (f z) = sh_parent z) -> parents (update_nth sh k f) = parents sh.
Proof.
  intros sh k f Hf. unfold parents. revert k. induction sh as [|z sh IH]; intros [|k]; simpl; auto; f_equal; auto.
Qed.

Lemma parents_fail_at : forall sh k, parents (fail_at k sh) = parents sh.
Proof. intros. apply parents_update. reflexivity. Qed.

Lemma parents_wait_at : forall sh k, parents (wait_at k sh) = parents sh.
Proof. intros. apply parents_update. reflexivity. Qed.

(* ---- the measure ---------------------------------------------------------------------------------------- *)

Definition rem (a : assets) (l : lstate) : nat :=
  Z.to_nat (Z.max 0 (Z.max 0 (max_steps (a_opts a)) + 1 - l_steps l)).

Definition mu (a : assets) (x : st) (l : lstate) : nat :=
  (2 * rem a l + depth_of (shape (session_ x)) (l_cur l) + match s_pushed (session_ x) with Some _ => 1 | None => 0 end)%nat.

(* the step limit was hit in this sprint *)
Definition hit (a : assets) (l : lstate) : Prop := (0 < l_steps l /\ max_steps (a_opts a) < l_steps l)%Z.

Record term_inv (a : assets) (x : st) (l : lstate) : Prop := {
  ti_loop : loop_inv x l;
  ti_steps : (0 <= l_steps l)%Z;
  ti_hit : hit a l -> s_pushed (session_ x) = None /\ l_exit l = None /\
                      exists c, l_cur l = Some c /\ st_at (shape (session_ x)) c = Some RFailed
}.

Lemma rem_decreases : forall a l l', (0 <= l_steps l)%Z -> ~ hit a l -> l_steps l' = (l_steps l + 1)%Z ->
  (rem a l' < rem a l)%nat.
Proof.
  intros a l l' H0 Hn E. unfold rem, hit in *. rewrite E. lia.
Qed.

(* ---- what the phases do to the locals -------------------------------------------------------------------- *)

Lemma pick_dest_locals : forall a x l x1 l1 dest,
  term_inv a x l -> pick_dest a x l = (x1, l1, dest) ->
  l_steps l1 = l_steps l /\
  (2 * rem a l1 + depth_of (shape (session_ x1)) (l_cur l1) = mu a x l)%nat /\
  (dest <> None -> ~ hit a l) /\
  (hit a l -> x1 = x /\ l1 = l).
Proof.
  intros a x l x1 l1 dest [HL H0 Hh] Hpd.
  assert (Hnh : s_pushed (session_ x) <> None \/ l_exit l <> None -> ~ hit a l).
  { intros Hor C. destruct (Hh C) as (A & B & _). destruct Hor; contradiction. }
  destruct HL as [[Hwf Hex] Hst Hnw Hcur]. unfold pick_dest in Hpd. unfold mu.
  destruct (s_pushed (session_ x)) as [p|] eqn:Ep.
  - inversion Hpd; subst x1 l1 dest; clear Hpd. cbn [l_steps l_cur].
    split; [reflexivity|]. split; [|split; [intros _; apply Hnh; left; discriminate|intros C; exfalso; apply Hnh in C; auto; left; discriminate]].
    unfold rem; cbn [l_steps]. unfold with_session; cbn [session_]. rewrite shape_push.
    set (x0 := if p_terminal p then {| session_ := exit_all_completed (session_ x); sprint_ := sprint_ x |} else x).
    assert (Hx0 : parents (shape (session_ x0)) = parents (shape (session_ x)) /\ wf_parents (shape (session_ x0)) /\
                  length (shape (session_ x0)) = length (shape (session_ x))).
    { unfold x0. destruct (p_terminal p); [|auto]. cbn [session_]. rewrite shape_exit_all.
      split; [unfold parents; rewrite map_map; apply map_ext; reflexivity|].
      split; [apply wf_parents_map; auto|apply map_length]. }
    destruct Hx0 as (Hp0 & Hwf0 & Hl0).
    assert (Hlen : length (s_runs (session_ x0)) = length (shape (session_ x0))) by (rewrite shape_length; reflexivity).
    rewrite Hlen, depth_of_push; auto.
    + rewrite (depth_of_parents _ _ _ Hp0). lia.
    + intros q Hq. unfold cur_ok in Hcur. rewrite Hq in Hcur. destruct Hcur as (Hlt & _). lia.
  - destruct (l_exit l) as [e|] eqn:Ee.
    + assert (Hx1 : session_ x1 = session_ x /\ l_cur l1 = l_cur l /\ l_steps l1 = l_steps l).
      { revert Hpd. repeat dmatch; intros Hpd; inversion Hpd; subst; auto. }
      destruct Hx1 as (Hx1 & Hc1 & Hs1). rewrite Hx1, Hc1. unfold rem. rewrite Hs1.
      split; [reflexivity|]. split; [lia|]. split; [intros _; apply Hnh; right; discriminate|].
      intros C; exfalso; apply Hnh in C; auto; right; discriminate.
    + inversion Hpd; subst. split; [reflexivity|]. split; [lia|]. split; [intros C; contradiction|auto].
Qed.

Lemma st_at_fail_at_self : forall sh c, (c < length sh)%nat -> st_at (fail_at c sh) c = Some RFailed.
Proof.
  intros sh c H. unfold st_at, fail_at. rewrite nth_error_update_nth_eq.
  destruct (nth_error sh c) eqn:E; [reflexivity|]. apply nth_error_None in E. lia.
Qed.

Lemma goto_node_locals : forall a x l c d x' l',
  mid_inv x l c (Some d) -> goto_node a x l c d = ICont x' l' ->
  l_cur l' = Some c /\ l_steps l' = (l_steps l + 1)%Z /\
  parents (shape (session_ x')) = parents (shape (session_ x)) /\
  ((max_steps (a_opts a) < l_steps l + 1)%Z ->
     s_pushed (session_ x') = None /\ l_exit l' = None /\ st_at (shape (session_ x')) c = Some RFailed).
Proof.
  intros a x l c d x' l' M. unfold goto_node. cbv zeta. cbn [l_trigger l_steps l_cur l_exit l_step l_node l_operand].
  destruct (l_steps l + 1 >? max_steps (a_opts a))%Z eqn:Elim.
  { intros H; inversion H; subst; clear H. cbn [l_cur l_steps l_exit].
    split; [apply (mi_cur _ _ _ _ M)|]. split; [reflexivity|].
    rewrite shape_fail_run. split; [apply parents_fail_at|]. intros _.
    split; [simpl; apply (mi_pushed _ _ _ _ M)|]. split; [apply (mi_exit _ _ _ _ M)|].
    apply st_at_fail_at_self. apply (mi_lt _ _ _ _ M). }
  destruct (get_run (session_ x) c) as [r|]; [|discriminate].
  destruct (get_flow a (r_flow r)) as [f|]; [|discriminate].
  destruct (get_node f d) as [n|]; [|discriminate].
  destruct (visit_node a x c n (l_trigger l)) as [y [[pos e] op]|y|] eqn:Ev; try discriminate.
  assert (Hact : status_at x c = Some RActive).
  { rewrite status_at_st_at. apply (mi_dest _ _ _ _ M). discriminate. }
  destruct (visit_node_shape _ _ _ _ _ _ _ _ _ Hact (mi_pushed _ _ _ _ M) Ev) as [Ho _].
  destruct (sstatus_eqb (s_status (session_ y)) SWaiting); [discriminate|].
  intros H; inversion H; subst; clear H. cbn [l_cur l_steps l_exit].
  split; [reflexivity|]. split; [reflexivity|]. split; [|intros C; lia].
  destruct Ho as [Hs _ _ _ | p Hs _ _ _ | Hs _ _ _ | Hs _ _]; rewrite Hs;
    auto using parents_fail_at, parents_wait_at.
Qed.

Lemma finish_run_locals : forall a x l c x' l',
  mid_inv x l c None -> finish_run a x l c = ICont x' l' ->
  l_steps l' = l_steps l /\
  parents (shape (session_ x')) = parents (shape (session_ x)) /\
  s_pushed (session_ x') = None /\
  exists z pi, nth_error (shape (session_ x)) c = Some z /\ sh_parent z = Some pi /\ l_cur l' = Some pi /\
               (st_at (shape (session_ x)) c = Some RFailed ->
                  l_exit l' = None /\ st_at (shape (session_ x')) pi = Some RFailed).
Proof.
  intros a x l c x' l' M. unfold finish_run.
  destruct M as [[Hwf Hex] Hst Hnw Hcur Hlt Hau Hpu Hexit _].
  destruct (get_run (session_ x) c) as [r|] eqn:Er.
  2:{ apply get_run_none_shape in Er. apply nth_error_None in Er. lia. }
  pose proof (get_run_shape _ _ _ Er) as Hzc.
  set (x1 := if r_exited r then x else with_session x (fun s => upd_run s c (run_exit RCompleted))).
  assert (H1 : parents (shape (session_ x1)) = parents (shape (session_ x)) /\ s_pushed (session_ x1) = None /\
               get_run (session_ x1) c = Some (if r_exited r then r else run_exit RCompleted r) /\
               length (shape (session_ x1)) = length (shape (session_ x)) /\
               (st_at (shape (session_ x)) c = Some RFailed -> x1 = x)).
  { unfold x1. destruct (r_exited r) eqn:Ee.
    - repeat split; auto.
    - split; [simpl; rewrite (shape_upd_run _ c (run_exit RCompleted) (z_exit RCompleted)) by reflexivity; apply parents_update; reflexivity|].
      split; [exact Hpu|]. split.
      + unfold get_run, with_session, upd_run; simpl. rewrite nth_error_update_nth_eq. unfold get_run in Er. rewrite Er. reflexivity.
      + split; [simpl; rewrite (shape_upd_run _ c (run_exit RCompleted) (z_exit RCompleted)) by reflexivity; apply update_nth_length|].
        intros C. exfalso. unfold st_at in C. rewrite Hzc in C. inversion C as [C'].
        pose proof (Hex _ _ Hzc) as Hx. rewrite C' in Hx. simpl in Hx. unfold shp_of in Hx. simpl in Hx. congruence. }
  destruct H1 as (Hp1 & Hpu1 & Hgr1 & Hlen1 & Hf1).
  cbv zeta.
  replace (match get_run (session_ x) c with
           | Some r0 => if r_exited r0 then x else with_session x (fun s => upd_run s c (run_exit RCompleted))
           | None => x end) with x1 by (rewrite Er; reflexivity).
  rewrite Hgr1.
  assert (Hpar : r_parent (if r_exited r then r else run_exit RCompleted r) = r_parent r) by (destruct (r_exited r); reflexivity).
  rewrite Hpar.
  destruct (r_parent r) as [pi|] eqn:Epar.
  2:{ discriminate. }
  destruct (run_status (session_ x1) pi) as [[]|] eqn:Epi; try discriminate.
  assert (Hpi_lt : (pi < length (shape (session_ x1)))%nat).
  { rewrite run_status_shape in Epi. destruct (nth_error (shape (session_ x1)) pi) eqn:E; [|discriminate].
    apply nth_error_Some. congruence. }
  assert (Hcf : st_at (shape (session_ x)) c = Some RFailed ->
                negb match run_status (session_ x1) c with Some RFailed => true | _ => false end = false).
  { intros C. rewrite (Hf1 C). rewrite run_status_shape. fold (st_at (shape (session_ x)) c). rewrite C. reflexivity. }
  assert (Hfail : forall sr cc l2, ICont (fail_run x1 pi sr cc) l2 = ICont x' l' ->
            l_steps l2 = l_steps l -> l_cur l2 = Some pi -> l_exit l2 = None ->
            l_steps l' = l_steps l /\ parents (shape (session_ x')) = parents (shape (session_ x)) /\
            s_pushed (session_ x') = None /\
            exists z pi0, nth_error (shape (session_ x)) c = Some z /\ sh_parent z = Some pi0 /\ l_cur l' = Some pi0 /\
               (st_at (shape (session_ x)) c = Some RFailed -> l_exit l' = None /\ st_at (shape (session_ x')) pi0 = Some RFailed)).
  { intros sr cc l2 H Hs2 Hc2 He2. inversion H; subst; clear H.
    split; [exact Hs2|]. rewrite shape_fail_run. split; [rewrite parents_fail_at; exact Hp1|].
    split; [exact Hpu1|]. exists (shp_of r), pi. split; [exact Hzc|]. split; [exact Epar|]. split; [exact Hc2|].
    intros _. split; [exact He2|]. apply st_at_fail_at_self. exact Hpi_lt. }
  destruct (negb match run_status (session_ x1) c with Some RFailed => true | _ => false end) eqn:Encf.
  - destruct (run_flow_unusable a (session_ x1) pi).
    + intros H. eapply Hfail; [exact H|reflexivity|reflexivity|exact Hexit].
    + pose proof (find_resume_exit_shape a x1 pi false []) as Hfre.
      destruct (find_resume_exit a x1 pi false []) as [y e op|y|y|]; try discriminate.
      * intros H; inversion H; subst; clear H. cbn [l_steps l_cur l_exit].
        split; [reflexivity|].
        assert (Hy : parents (shape (session_ x')) = parents (shape (session_ x1)) /\ s_pushed (session_ x') = None).
        { destruct Hfre as [[[Hs _ Hp _ _] _]|[_ [Hs _ Hp _ _]]]; rewrite Hs, Hp; auto using parents_fail_at. }
        destruct Hy as [Hy1 Hy2]. split; [congruence|]. split; [exact Hy2|].
        exists (shp_of r), pi. split; [exact Hzc|]. split; [exact Epar|]. split; [reflexivity|].
        intros C. pose proof (Hcf C) as Hc'. congruence.
      * subst y. intros H. eapply Hfail; [exact H|reflexivity|reflexivity|reflexivity].
  - intros H. eapply Hfail; [exact H|reflexivity|reflexivity|exact Hexit].
Qed.

(* ---- every iteration decreases the measure --------------------------------------------------------------- *)

Lemma cuw_iter_term : forall a x l x' l',
  term_inv a x l -> cuw_iter a x l = ICont x' l' -> term_inv a x' l' /\ (mu a x' l' < mu a x l)%nat.
Proof.
  intros a x l x' l' T E.
  pose proof (cuw_iter_inv a x l (ti_loop _ _ _ T)) as HI. rewrite E in HI.
  rewrite cuw_iter_phases in E.
  destruct (pick_dest a x l) as [[x1 l1] dest] eqn:Epd.
  destruct (pick_dest_inv _ _ _ _ _ _ (ti_loop _ _ _ T) Epd) as (c & M & _).
  destruct (pick_dest_locals _ _ _ _ _ _ T Epd) as (Hs1 & Hmu1 & Hdest & Hhit1).
  rewrite (mi_cur _ _ _ _ M) in E, Hmu1.
  destruct dest as [d|].
  - (* a node is visited *)
    assert (Hnh : ~ hit a l) by (apply Hdest; discriminate).
    destruct (goto_node_locals _ _ _ _ _ _ _ M E) as (Hc' & Hs' & Hp' & Hlim).
    split.
    + constructor; [exact HI|rewrite Hs', Hs1; pose proof (ti_steps _ _ _ T); lia|].
      intros [_ Hh]. rewrite Hs', Hs1 in Hh. rewrite Hs1 in Hlim. destruct (Hlim Hh) as (A & B & C).
      split; [exact A|]. split; [exact B|]. exists c. split; [exact Hc'|exact C].
    + unfold mu at 1. rewrite Hc', (depth_of_parents _ _ _ Hp').
      assert (Hr : (rem a l' < rem a l1)%nat).
      { apply rem_decreases; [rewrite Hs1; apply (ti_steps _ _ _ T)| |exact Hs'].
        unfold hit in *. rewrite Hs1. exact Hnh. }
      destruct (s_pushed (session_ x')); lia.
  - (* the current run is done *)
    destruct (finish_run_locals _ _ _ _ _ _ M E) as (Hs' & Hp' & Hpu' & z & pi & Hz & Hzp & Hc' & Hf).
    assert (Hd : depth_of (shape (session_ x1)) (Some c) = S (depth_of (shape (session_ x1)) (Some pi))).
    { rewrite (depth_of_step _ _ z (ci_wf _ (mi_core _ _ _ _ M)) Hz), Hzp. reflexivity. }
    split.
    + constructor; [exact HI|rewrite Hs', Hs1; apply (ti_steps _ _ _ T)|].
      intros Hh. assert (Hh0 : hit a l) by (unfold hit in *; rewrite Hs', Hs1 in Hh; exact Hh).
      destruct (Hhit1 Hh0) as [-> ->]. destruct (ti_hit _ _ _ T Hh0) as (_ & _ & c0 & Hc0 & Hf0).
      rewrite (mi_cur _ _ _ _ M) in Hc0. inversion Hc0; subst c0.
      destruct (Hf Hf0) as [A B]. split; [exact Hpu'|]. split; [exact A|]. exists pi. split; [exact Hc'|exact B].
    + unfold mu at 1. rewrite Hc', (depth_of_parents _ _ _ Hp'), Hpu'.
      assert (Hr : rem a l' = rem a l1) by (unfold rem; rewrite Hs'; reflexivity).
      lia.
Qed.

Lemma cuw_iter_stop_not_fuel : forall a x l r, cuw_iter a x l = IStop r -> r <> ROutOfFuel.
Proof.
  intros a x l r. unfold cuw_iter. repeat dmatch; intros H; inversion H; discriminate.
Qed.

Theorem cuw_fuel_suffices : forall a fuel x l,
  term_inv a x l -> (mu a x l < fuel)%nat -> continue_until_wait fuel a x l <> ROutOfFuel.
Proof.
  intros a fuel x l T Hmu.
  eapply (cuw_terminates a (term_inv a) (mu a)); eauto.
  - intros; eapply cuw_iter_term; eauto.
  - intros; eapply cuw_iter_stop_not_fuel; eauto.
Qed.

(* ---- the fuel the model gives itself suffices --------------------------------------------------------- *)

Lemma depth_of_le : forall sh o, (depth_of sh o <= length sh)%nat.
Proof. intros. unfold depth_of. apply depth_le. Qed.

Lemma mu_bound : forall a x l, (0 <= l_steps l)%Z ->
  (mu a x l <= 2 * (Z.to_nat (Z.max 0 (max_steps (a_opts a))) + 1) + length (s_runs (session_ x)) + 1)%nat.
Proof.
  intros a x l H. unfold mu, rem. pose proof (depth_of_le (shape (session_ x)) (l_cur l)) as Hd.
  rewrite shape_length in Hd. destruct (s_pushed (session_ x)); lia.
Qed.

Theorem start_fuel_suffices : forall a t f, start a t f <> ROutOfFuel.
Proof.
  intros a t f. unfold start. destruct (get_flow a f) as [fl|]; [|discriminate].
  apply cuw_fuel_suffices.
  - constructor; [apply loop_inv_start|simpl; lia|]. intros [C _]. simpl in C. lia.
  - eapply Nat.le_lt_trans; [apply mu_bound; simpl; lia|]. unfold fuel_for. simpl. lia.
Qed.

Theorem resume_fuel_suffices : forall a s r tmo,
  post_inv s -> resume_session a s r tmo <> Resumed ROutOfFuel.
Proof.
  intros a s r tmo Hpost C.
  destruct (resume_decompose _ _ _ _ _ Hpost C) as [(y & wi & c & E & _)|(x2 & l & E & HL & Hs & Hp & _ & _)]; [discriminate|].
  symmetry in E. revert E. apply cuw_fuel_suffices.
  - constructor; [exact HL|rewrite Hs; lia|]. intros [C' _]. rewrite Hs in C'. lia.
  - eapply Nat.le_lt_trans; [apply mu_bound; rewrite Hs; lia|]. unfold fuel_for. lia.
Qed.

(* for every history *)
Theorem reachable_resume_fuel_suffices : forall a s r tmo,
  reachable s -> resume_session a s r tmo <> Resumed ROutOfFuel.
Proof. intros. apply resume_fuel_suffices. apply reachable_post; assumption. Qed.
