(* ExRenameGlue.v — C11: the tree ContextRefRename leaves (alpha steps included) is glue-free when the SOURCE is
   (shape, names, texts) and the new names are NAME lexemes: the conditions of proofs/ExGlue.v survive the renaming. *)
From Coq Require Import List NArith Bool Arith Lia.
From Verif Require Import lib.Quote model.ExSyntax model.ExLexer model.ExParser model.ExPrinter model.ExScanner gen.GrammarE3
  model.ExRefactor proofs.ExPrintProofs proofs.ExRoundtrip proofs.ExRender proofs.ExGlue proofs.ExAvoid proofs.ExRenameFull.
Import ListNotations.
Open Scope N_scope.

(* appending underscores to a name that is a NAME lexeme and no keyword gives one *)
Lemma name_char_us : name_char 95 = true.
Proof. vm_compute. reflexivity. Qed.

Lemma m_ci_us : forall s inp : ExSyntax.text, forallb (fun a => (97 <=? a) && (a <=? 122)) s = true ->
  length s = length inp -> In 95 inp -> m_ci s inp = None.
Proof.
  induction s as [|a s IH]; intros [|c r] Hl Hlen Hin; try discriminate; try contradiction.
  cbn [forallb] in Hl. apply andb_prop in Hl. destruct Hl as [Ha Hs]. cbn [m_ci].
  destruct ((a =? c) || (a =? c + 32)) eqn:E; [|reflexivity].
  destruct Hin as [->|Hin].
  - exfalso. apply andb_prop in Ha. destruct Ha as [H1 H2]. apply N.leb_le in H1. apply N.leb_le in H2.
    apply orb_prop in E. destruct E as [E|E]; apply N.eqb_eq in E; lia.
  - rewrite (IH r Hs ltac:(cbn in Hlen; lia) Hin). reflexivity.
Qed.

Lemma pname_app_us (x : ExSyntax.text) k : pname_ok x = true -> pname_ok (x ++ repeat 95 (S k)) = true.
Proof.
  unfold pname_ok. intros H. apply andb_prop in H. destruct H as [H1 _]. apply andb_true_intro. split.
  - unfold name_lexeme in *. destruct x as [|c x']; [discriminate|]. cbn [app]. apply andb_prop in H1. destruct H1 as [Hc Hx].
    rewrite Hc, forallb_app, Hx. cbn [andb]. clear. generalize (S k). intros m. induction m as [|m IH]; [reflexivity|].
    cbn [repeat forallb]. rewrite name_char_us, IH. reflexivity.
  - apply negb_true_iff. unfold is_keyword. apply not_true_is_false. intros E. apply existsb_exists in E.
    destruct E as (s & Hs & E). apply andb_prop in E. destruct E as [E1 E2]. apply Nat.eqb_eq in E1.
    assert (Hl : forallb (fun a => (97 <=? a) && (a <=? 122)) s = true).
    { pose proof kw_lowercase as HK. rewrite forallb_forall in HK. exact (HK s Hs). }
    rewrite (m_ci_us s _ Hl E1) in E2; [discriminate|]. apply in_or_app. right. left. reflexivity.
Qed.

Section Glue.
Variable lower : N -> N.
Variable printable : N -> bool.
Variable from : ExSyntax.text.
Variable to : ExSyntax.text.
Variable L : list step.
Hypothesis Hto : pname_ok (map lower to) = true.
(* every step gives a fresh name that is a NAME lexeme, and a suffix that keeps parameters NAME lexemes *)
Definition step_ok (s : step) : Prop :=
  pname_ok (map lower (snd (fst s))) = true /\ forall x, pname_ok x = true -> pname_ok (x ++ snd s) = true.
Hypothesis HL : Forall step_ok L.

Notation isf := (is_from lower from).
Notation O := (out lower from to L).

Lemma ref_steps_ok : forall L0 inbs n, Forall step_ok L0 -> pname_ok (map lower n) = true ->
  pname_ok (map lower (ref_steps lower L0 inbs n)) = true.
Proof.
  induction L0 as [|[[nm fr] sf] L0 IH]; intros [|i inbs] n HF Hn; try exact Hn.
  inversion HF as [|? ? [Hfr _] HF']; subst. cbn [ref_steps]. apply IH; [exact HF'|].
  destruct (i && same_name lower n nm); assumption.
Qed.

Lemma pa_steps_ok : forall L0 inbs a, Forall step_ok L0 -> forallb pname_ok a = true ->
  forallb pname_ok (pa_steps lower L0 inbs a) = true.
Proof.
  induction L0 as [|[[nm fr] sf] L0 IH]; intros [|i inbs] a HF Ha; try exact Ha.
  inversion HF as [|? ? [_ Hsf] HF']; subst. cbn [pa_steps]. apply IH; [exact HF'|].
  rewrite forallb_forall in *. intros y Hy. apply in_map_iff in Hy. destruct Hy as (x & <- & Hx). unfold gpar.
  destruct (same_name lower x nm); [apply Hsf|]; apply Ha; exact Hx.
Qed.

Lemma pa_steps_nonempty : forall L0 inbs a, a <> [] -> pa_steps lower L0 inbs a <> [].
Proof.
  intros L0 inbs a Ha E. apply (f_equal (@length _)) in E. rewrite pa_steps_len in E. destruct a; [congruence|discriminate].
Qed.

Lemma out_atomic st e : atomic (O st e) = atomic e.
Proof.
  destruct st as [bnd inbs]. unfold out. cbn [fst snd].
  destruct e; rewrite ?alphaL_ref, ?alphaL_dot, ?alphaL_index, ?alphaL_call, ?alphaL_anon, ?alphaL_bin, ?alphaL_neg, ?alphaL_paren;
    try (rewrite alphaL_leaf by exact I); destruct bnd; cbn [rename atomic]; try reflexivity.
  - destruct (isf _); reflexivity.
  - destruct (existsb isf _); reflexivity.
Qed.

Lemma out_conditions : forall e st,
  shape_ok (O st e) = shape_ok e /\ texts_ok (O st e) = texts_ok e
  /\ (names_ok lower e = true -> names_ok lower (O st e) = true).
Proof.
  induction e as [n|c l IHc|c l IHc IHl|f ps IHf IHps|a b IHb|o a b IHa IHb|a IHa|a IHa|v|l|b|] using expr_ind';
    intros [bnd inbs].
  - unfold out. cbn [fst snd]. rewrite alphaL_ref. split; [destruct bnd; cbn [rename]; try destruct (isf _); reflexivity|].
    split; [destruct bnd; cbn [rename]; try destruct (isf _); reflexivity|].
    cbn [names_ok]. intros Hn. pose proof (ref_steps_ok L inbs n HL Hn) as Hr.
    destruct bnd; cbn [rename names_ok]; [exact Hr|]. destruct (isf _); cbn [names_ok]; assumption.
  - pose proof (out_atomic (bnd, inbs) c) as HA. destruct (IHc (bnd, inbs)) as (S1 & T1 & N1).
    unfold out in *. cbn [fst snd] in *. rewrite alphaL_dot.
    destruct bnd; cbn [rename shape_ok texts_ok names_ok]; rewrite HA, S1, T1; (split; [reflexivity|]; split; [reflexivity|]);
      intros H; apply andb_prop in H; destruct H as [H1 H2]; rewrite (N1 H1), H2; reflexivity.
  - pose proof (out_atomic (bnd, inbs) c) as HA. destruct (IHc (bnd, inbs)) as (S1 & T1 & N1). destruct (IHl (bnd, inbs)) as (S2 & T2 & N2).
    unfold out in *. cbn [fst snd] in *. rewrite alphaL_index.
    destruct bnd; cbn [rename shape_ok texts_ok names_ok]; rewrite HA, S1, T1, S2, T2; (split; [reflexivity|]; split; [reflexivity|]);
      intros H; apply andb_prop in H; destruct H as [H1 H2]; rewrite (N1 H1), (N2 H2); reflexivity.
  - pose proof (out_atomic (bnd, inbs) f) as HA. destruct (IHf (bnd, inbs)) as (S1 & T1 & N1).
    assert (HP : forallb shape_ok (map (O (bnd, inbs)) ps) = forallb shape_ok ps
                 /\ forallb texts_ok (map (O (bnd, inbs)) ps) = forallb texts_ok ps
                 /\ (forallb (names_ok lower) ps = true -> forallb (names_ok lower) (map (O (bnd, inbs)) ps) = true)).
    { induction IHps as [|x r Hx Hr IH]; [repeat split; reflexivity|]. destruct (Hx (bnd, inbs)) as (X1 & X2 & X3).
      destruct IH as (I1 & I2 & I3). cbn [map forallb]. rewrite X1, X2, I1, I2. split; [reflexivity|]. split; [reflexivity|].
      intros H. apply andb_prop in H. destruct H as [H1 H2]. rewrite (X3 H1), (I3 H2). reflexivity. }
    destruct HP as (P1 & P2 & P3).
    assert (Hout : O (bnd, inbs) (ECall f ps) = ECall (O (bnd, inbs) f) (map (O (bnd, inbs)) ps)).
    { unfold out. cbn [fst snd]. rewrite alphaL_call. destruct bnd; cbn [rename]; rewrite ?map_map; reflexivity. }
    rewrite Hout. cbn [shape_ok texts_ok names_ok]. rewrite HA, S1, T1, P1, P2. split; [reflexivity|]. split; [reflexivity|].
    intros H. apply andb_prop in H. destruct H as [H1 H2]. rewrite (N1 H1), (P3 H2). reflexivity.
  - set (st' := (bnd || existsb isf (pa_steps lower L inbs a), push_inbs lower L inbs a)).
    destruct (IHb st') as (S1 & T1 & N1).
    assert (Hne : match pa_steps lower L inbs a with [] => false | _ => true end = match a with [] => false | _ => true end).
    { destruct a as [|x a']; [pose proof (pa_steps_len lower L inbs []) as H0; destruct (pa_steps lower L inbs []); [reflexivity|discriminate]|].
      pose proof (pa_steps_nonempty L inbs (x :: a') ltac:(discriminate)) as H. destruct (pa_steps lower L inbs (x :: a')); [congruence|reflexivity]. }
    assert (Hout : O (bnd, inbs) (EAnon a b) = EAnon (pa_steps lower L inbs a) (O st' b)).
    { unfold out, st'. cbn [fst snd]. rewrite alphaL_anon. destruct bnd; cbn [orb rename]; [reflexivity|].
      destruct (existsb isf (pa_steps lower L inbs a)); reflexivity. }
    rewrite Hout. cbn [shape_ok texts_ok names_ok]. rewrite Hne, S1, T1. split; [reflexivity|]. split; [reflexivity|].
    intros H. apply andb_prop in H. destruct H as [H1 H2]. rewrite (pa_steps_ok L inbs a HL H1), (N1 H2). reflexivity.
  - destruct (IHa (bnd, inbs)) as (S1 & T1 & N1). destruct (IHb (bnd, inbs)) as (S2 & T2 & N2).
    unfold out in *. cbn [fst snd] in *. rewrite alphaL_bin.
    destruct bnd; cbn [rename shape_ok texts_ok names_ok]; rewrite S1, T1, S2, T2; (split; [reflexivity|]; split; [reflexivity|]);
      intros H; apply andb_prop in H; destruct H as [H1 H2]; rewrite (N1 H1), (N2 H2); reflexivity.
  - destruct (IHa (bnd, inbs)) as (S1 & T1 & N1). unfold out in *. cbn [fst snd] in *. rewrite alphaL_neg.
    destruct bnd; cbn [rename shape_ok texts_ok names_ok]; rewrite S1, T1; auto.
  - destruct (IHa (bnd, inbs)) as (S1 & T1 & N1). unfold out in *. cbn [fst snd] in *. rewrite alphaL_paren.
    destruct bnd; cbn [rename shape_ok texts_ok names_ok]; rewrite S1, T1; auto.
  - unfold out. cbn [fst snd]. rewrite alphaL_leaf by exact I. destruct bnd; cbn [rename]; auto.
  - unfold out. cbn [fst snd]. rewrite alphaL_leaf by exact I. destruct bnd; cbn [rename]; auto.
  - unfold out. cbn [fst snd]. rewrite alphaL_leaf by exact I. destruct bnd; cbn [rename]; auto.
  - unfold out. cbn [fst snd]. rewrite alphaL_leaf by exact I. destruct bnd; cbn [rename]; auto.
Qed.

End Glue.

(* the steps of the capture-avoiding step are of that kind *)
Lemma avoid_steps_ok lower from to : (forall c, lower (lower c) = lower c) -> lower 95 = 95 ->
  (forall n, In n (target_names lower to) -> pname_ok n = true) ->
  forall names used e, (forall n, In n names -> In n (target_names lower to)) ->
  exists L, avoid lower from to names used e = alphaL lower L (map (fun _ => false) L) e /\ Forall (step_ok lower) L.
Proof.
  intros Hid Hus Hpn. induction names as [|n rest IH]; intros used e Hsub; [exists []; split; [reflexivity|constructor]|].
  assert (Hrest : forall x, In x rest -> In x (target_names lower to)) by (intros x Hx; apply Hsub; right; exact Hx).
  cbn [avoid]. destruct (captures lower from n false e); [|apply IH; exact Hrest].
  set (taken := used ++ target_names lower to).
  destruct (pick_fresh_spec (S (length taken)) (n ++ [95]) taken) as (_ & k & Hk).
  { apply Nat.lt_succ_r. apply count_ge_le. }
  set (fr := pick_fresh (S (length taken)) (n ++ [95]) taken) in *.
  assert (Hk' : fr = n ++ repeat 95 (S k)) by (rewrite Hk, <- app_assoc; reflexivity).
  assert (Hsf : skipn (length n) fr = repeat 95 (S k)).
  { rewrite Hk'. rewrite skipn_app, skipn_all, Nat.sub_diag. reflexivity. }
  destruct (IH (fr :: used) (alpha lower n fr (skipn (length n) fr) false e) Hrest) as (L & HL & HF).
  exists ((n, fr, skipn (length n) fr) :: L). split; [rewrite HL; reflexivity|].
  constructor; [|exact HF]. assert (HnT : In n (target_names lower to)) by (apply Hsub; left; reflexivity).
  split; cbn [fst snd].
  - rewrite Hk'. change (map lower (n ++ repeat 95 (S k))) with (lname lower (n ++ repeat 95 (S k))).
    rewrite (lname_fresh lower Hus n (S k) (target_names_norm lower Hid to n HnT)).
    apply pname_app_us. apply Hpn. exact HnT.
  - intros x Hx. rewrite Hsf. apply pname_app_us. exact Hx.
Qed.

(* the tree ContextRefRename leaves is glue-free when the source is and the new names are NAME lexemes *)
Theorem rename_full_glue_free lower printable from to t :
  printable 10 = false -> (forall c, lower (lower c) = lower c) -> lower 95 = 95 ->
  pname_ok (map lower to) = true -> (forall n, In n (target_names lower to) -> pname_ok n = true) ->
  shape_ok t = true -> names_ok lower t = true -> texts_ok t = true ->
  glue_free lower printable (rename_full lower from to t) = true.
Proof.
  intros Hnl Hid Hus Hto Hpn Hs Hn Ht. unfold rename_full.
  destruct (avoid_steps_ok lower from to Hid Hus Hpn (target_names lower to) (used_names lower t) t (fun n H => H)) as (L & -> & HF).
  destruct (out_conditions lower from to L Hto HF t (false, map (fun _ => false) L)) as (S1 & T1 & N1).
  unfold out in S1, T1, N1. cbn [fst snd] in S1, T1, N1.
  apply glue_free_char; [exact Hnl|rewrite S1; exact Hs|apply N1; exact Hn|rewrite T1; exact Ht].
Qed.
