(* LegacyRescan.v — C17, scanner level: what the template scanner of the new syntax cuts out of a migrated
   template at the place of a migrated expression.

   Uses the scanner model of property C12 (model/ExScanner.v, read-only) through its functional description
   [p_scan] (proofs/ExScannerProofs.v: [scan_ref] shows that the operational model returns what p_scan says,
   proofs/ExScannerBound.v [scan_ok] that it always returns).

   Main result [rescan_expression]: the output of migrating an @(...) token, followed by ANY text f, is read
   back by the scanner as exactly one IDENTIFIER / EXPRESSION token carrying the printed intended tree, and
   the text f is left untouched for the next token.  This needs separateFrom (fix "keeps parentheses when
   following text would extend the identifier"); [glue_without_separation] is the witness that without it
   the statement is false. *)
From Coq Require Import List NArith Bool Arith Lia.
From Verif Require Import model.LegacyTy gen.LegacyTable model.LegacySyntax model.Legacy model.LegacyCorr.
From Verif Require Import proofs.LegacyWf proofs.LegacySyntaxProofs proofs.LegacyProofs.
From Verif Require model.ExScanner proofs.ExScannerProofs proofs.ExScannerBound.
Import ListNotations.
Open Scope N_scope.

Module S := ExScanner.
Module SP := ExScannerProofs.

(* ---------------------------------------------------------------------------------------------- *)
(* text literals as the scanner reads them: a backslash protects the next character *)

Fixpoint lit_scan (esc : bool) (l : text) : bool :=
  match l with
  | [] => negb esc
  | c :: r =>
      if esc then lit_scan false r
      else if c =? 92 then lit_scan true r
      else if c =? 34 then false
      else lit_scan false r
  end.

Definition raw_scan_ok (raw : text) : bool :=
  let body := removelast (tl raw) in
  text_eqb raw (34 :: body ++ [34]) && lit_scan false body.

(* every text literal of the tree is one the scanner reads to its closing quote *)
Fixpoint scan_lits (t : e3) : bool :=
  match t with
  | X3Text raw => raw_scan_ok raw
  | X3Dot c _ => scan_lits c
  | X3Index c i => scan_lits c && scan_lits i
  | X3Call f args => scan_lits f && forallb scan_lits args
  | X3Paren e => scan_lits e
  | X3Neg e => scan_lits e
  | X3Bin _ a b => scan_lits a && scan_lits b
  | _ => true
  end.

Definition ext (m : text) (x : text * nat * text) : text * nat * text :=
  let '(o, p, k) := x in (m ++ o, p, k).

Lemma ext_ext a b x : ext a (ext b x) = ext (a ++ b) x.
Proof. destruct x as [[o p] k]. cbn. rewrite app_assoc. reflexivity. Qed.

Lemma ext_nil x : ext [] x = x.
Proof. destruct x as [[o p] k]. reflexivity. Qed.

Lemma pre_ext c x : SP.pre c x = ext [c] x.
Proof. destruct x as [[o p] k]. reflexivity. Qed.

Lemma lit_ext : forall l esc p rest, lit_scan esc l = true ->
  SP.p_expr (SP.MLit esc) p (l ++ 34 :: rest) = ext (l ++ [34]) (SP.p_expr SP.MNorm p rest).
Proof.
  induction l as [|c l IH]; intros esc p rest H.
  - cbn [lit_scan] in H. apply negb_true_iff in H. subst esc. cbn [app SP.p_expr].
    change (34 =? S.r_quote) with true. cbn [negb andb]. apply pre_ext.
  - cbn [lit_scan] in H. cbn [app SP.p_expr]. destruct esc.
    + rewrite andb_false_r.
      replace (if c =? S.r_bslash then negb true else false) with false by (destruct (c =? S.r_bslash); reflexivity).
      rewrite (IH _ _ _ H), pre_ext, ext_ext. reflexivity.
    + change S.r_bslash with 92. change S.r_quote with 34. destruct (c =? 92) eqn:EB.
      * apply N.eqb_eq in EB. subst c. change (92 =? 34) with false. cbn [andb negb].
        rewrite (IH _ _ _ H), pre_ext, ext_ext. reflexivity.
      * destruct (c =? 34) eqn:EQ; [discriminate|]. cbn [andb].
        rewrite (IH _ _ _ H), pre_ext, ext_ext. reflexivity.
Qed.

(* plain characters: no quote, no parenthesis *)
Definition plain (c : N) : Prop := c <> S.r_quote /\ c <> S.r_lparen /\ c <> S.r_rparen.

Lemma plain_ext m p rest : Forall plain m ->
  SP.p_expr SP.MNorm p (m ++ rest) = ext m (SP.p_expr SP.MNorm p rest).
Proof. intros H. apply (SP.p_expr_plain m p rest H). Qed.

Lemma name_char3_plain c : name_char3 c = true -> plain c.
Proof.
  intros H. repeat split; intros E; subst c; vm_compute in H; discriminate.
Qed.

Lemma name_ok3_plain n : name_ok3 n = true -> Forall plain n.
Proof.
  destruct n as [|c r]; [discriminate|]. cbn [name_ok3]. intros H.
  apply andb_true_iff in H. destruct H as [H _]. apply andb_true_iff in H. destruct H as [Hc Hr].
  constructor.
  - apply name_char3_plain. unfold name_start3 in Hc. unfold name_char3.
    apply orb_true_iff in Hc. destruct Hc as [Hc|Hc]; rewrite Hc; [reflexivity | apply orb_true_r].
  - rewrite forallb_forall in Hr. apply Forall_forall. intros x Hx. apply name_char3_plain. apply Hr. exact Hx.
Qed.

Lemma digit_plain c : ascii_digit c = true -> plain c.
Proof. intros H. apply digit_range in H. unfold plain, S.r_quote, S.r_lparen, S.r_rparen. lia. Qed.

Lemma digits_plain s : forallb ascii_digit s = true -> Forall plain s.
Proof.
  intros H. rewrite forallb_forall in H. apply Forall_forall. intros x Hx. apply digit_plain. apply H. exact Hx.
Qed.

Lemma num_ok_plain raw : num_ok raw = true -> Forall plain raw.
Proof.
  unfold num_ok. destruct (span ascii_digit raw) as [ip r] eqn:Es. intros H.
  apply span_spec in Es. destruct Es as (Eraw & Hip & _). subst raw.
  apply andb_true_iff in H. destruct H as [_ H].
  apply Forall_app. split; [apply digits_plain; exact Hip|].
  destruct r as [|c fp]; [constructor|].
  apply andb_true_iff in H. destruct H as [H Hfp]. apply andb_true_iff in H. destruct H as [Hc _].
  apply N.eqb_eq in Hc. subst c. constructor.
  - unfold plain, S.r_quote, S.r_lparen, S.r_rparen. lia.
  - apply digits_plain. exact Hfp.
Qed.

Lemma op_plain o : Forall plain (32 :: op_text o ++ [32]).
Proof. destruct o; repeat constructor; unfold S.r_quote, S.r_lparen, S.r_rparen; lia. Qed.

(* ---------------------------------------------------------------------------------------------- *)
(* the printed tree is balanced for the scanner *)

Definition bal (m : text) : Prop :=
  forall p rest, (1 <= p)%nat -> SP.p_expr SP.MNorm p (m ++ rest) = ext m (SP.p_expr SP.MNorm p rest).

Lemma bal_plain m : Forall plain m -> bal m.
Proof. intros H p rest _. apply plain_ext. exact H. Qed.

Lemma bal_app a b : bal a -> bal b -> bal (a ++ b).
Proof.
  intros Ha Hb p rest Hp. rewrite <- app_assoc, (Ha p _ Hp), (Hb p _ Hp), ext_ext. reflexivity.
Qed.

(* ( m ) *)
Lemma bal_parens m : bal m -> bal (40 :: m ++ [41]).
Proof.
  intros Hm p rest Hp. cbn [app SP.p_expr].
  change (40 =? S.r_quote) with false. change (40 =? S.r_lparen) with true. cbv iota.
  rewrite <- app_assoc. rewrite (Hm (S p) _ ltac:(lia)). cbn [app SP.p_expr].
  change (41 =? S.r_quote) with false. change (41 =? S.r_lparen) with false. change (41 =? S.r_rparen) with true.
  cbv iota. cbn [Nat.pred].
  destruct (Nat.eqb p 0) eqn:E; [apply Nat.eqb_eq in E; lia|].
  rewrite !pre_ext, !ext_ext. reflexivity.
Qed.

Lemma bal_text raw : raw_scan_ok raw = true -> bal raw.
Proof.
  unfold raw_scan_ok. intros H. apply andb_true_iff in H. destruct H as [E L].
  apply text_eqb_eq in E. set (body := removelast (tl raw)) in *. clearbody body. subst raw.
  intros p rest Hp.
  change ((34 :: body ++ [34]) ++ rest) with (34 :: (body ++ [34]) ++ rest).
  rewrite <- app_assoc. cbn [app]. cbn [SP.p_expr].
  change (34 =? S.r_quote) with true. cbv iota.
  rewrite (lit_ext _ _ _ _ L), pre_ext, ext_ext. reflexivity.
Qed.

Lemma bal_args args : Forall (fun a => bal (print3 a)) args -> bal (print_args args).
Proof.
  induction 1 as [|x r Hx Hr IH]; [apply bal_plain; constructor|].
  destruct r as [|y r']; [exact Hx|].
  change (print_args (x :: y :: r')) with (print3 x ++ comma_space ++ print_args (y :: r')).
  apply bal_app; [exact Hx|]. apply bal_app; [|exact IH].
  apply bal_plain. repeat constructor; unfold S.r_quote, S.r_lparen, S.r_rparen; lia.
Qed.

Lemma balanced : forall t, lex_ok t = true -> scan_lits t = true -> bal (print3 t).
Proof.
  induction t using e3_ind'; intros Hl Hs; cbn [lex_ok scan_lits] in *.
  - apply bal_text. exact Hs.
  - apply bal_plain. apply num_ok_plain. exact Hl.
  - apply bal_plain. repeat constructor; unfold S.r_quote, S.r_lparen, S.r_rparen; lia.
  - apply bal_plain. repeat constructor; unfold S.r_quote, S.r_lparen, S.r_rparen; lia.
  - apply bal_plain. repeat constructor; unfold S.r_quote, S.r_lparen, S.r_rparen; lia.
  - apply bal_plain. apply name_ok3_plain. exact Hl.
  - apply andb_true_iff in Hl. destruct Hl as [Hc Hn]. cbn [print3].
    apply bal_app; [apply IHt; assumption|]. apply bal_plain. constructor.
    + unfold plain, S.r_quote, S.r_lparen, S.r_rparen. lia.
    + apply name_ok3_plain. exact Hn.
  - apply andb_true_iff in Hl. destruct Hl as [Hc Hi]. apply andb_true_iff in Hs. destruct Hs as [Sc Si].
    cbn [print3]. apply bal_app; [apply IHt1; assumption|].
    change (91 :: print3 t2 ++ [93]) with ([91] ++ print3 t2 ++ [93]).
    apply bal_app; [apply bal_plain; repeat constructor; unfold S.r_quote, S.r_lparen, S.r_rparen; lia|].
    apply bal_app; [apply IHt2; assumption|].
    apply bal_plain; repeat constructor; unfold S.r_quote, S.r_lparen, S.r_rparen; lia.
  - apply andb_true_iff in Hl. destruct Hl as [Hf Ha]. apply andb_true_iff in Hs. destruct Hs as [Sf Sa].
    rewrite print3_call. apply bal_app; [apply IHt; assumption|].
    apply bal_parens. apply bal_args.
    rewrite forallb_forall in Ha, Sa. rewrite Forall_forall in H. apply Forall_forall.
    intros a Hin. apply H; [exact Hin | apply Ha; exact Hin | apply Sa; exact Hin].
  - cbn [print3]. apply bal_parens. apply IHt; assumption.
  - cbn [print3]. change (45 :: print3 t) with ([45] ++ print3 t).
    apply bal_app; [apply bal_plain; repeat constructor; unfold S.r_quote, S.r_lparen, S.r_rparen; lia | apply IHt; assumption].
  - apply andb_true_iff in Hl. destruct Hl as [Ha Hb]. apply andb_true_iff in Hs. destruct Hs as [Sa Sb].
    cbn [print3]. apply bal_app; [apply IHt1; assumption|].
    replace (32 :: op_text o ++ 32 :: print3 t2) with ((32 :: op_text o ++ [32]) ++ print3 t2) by (cbn [app]; rewrite <- app_assoc; reflexivity).
    apply bal_app; [apply bal_plain; apply op_plain | apply IHt2; assumption].
Qed.

Lemma closed_print3 t : lex_ok t = true -> scan_lits t = true -> SP.closed_expr (print3 t).
Proof.
  intros Hl Hs rest. rewrite (balanced t Hl Hs 1%nat _ (Nat.le_refl _)). cbn [SP.p_expr].
  change (S.r_rparen =? S.r_quote) with false. change (S.r_rparen =? S.r_lparen) with false.
  change (S.r_rparen =? S.r_rparen) with true. cbn [Nat.pred Nat.eqb ext]. rewrite app_nil_r. reflexivity.
Qed.

(* a migrated legacy literal without backslash is read by the scanner to its closing quote *)
Lemma lit_scan_escape_quotes : forall s, Forall (fun c => c <> c_bslash) s -> lit_scan false (escape_quotes s) = true.
Proof.
  induction s as [|c r IH]; intros Hp; [reflexivity|].
  inversion Hp as [|? ? Hb Hr]; subst. cbn [escape_quotes]. destruct (c =? c_dquote) eqn:E.
  - cbn [lit_scan]. unfold c_bslash. cbn [N.eqb Pos.eqb]. apply IH. exact Hr.
  - cbn [lit_scan]. unfold c_bslash, c_dquote in *.
    replace (c =? 92) with false by lia. rewrite E. apply IH. exact Hr.
Qed.

Lemma literal_scan_ok s : Forall (fun c => c <> c_bslash) s ->
  scan_lits (X3Text (migrate_string_literal (legacy_quote s))) = true.
Proof.
  intros Hp. rewrite migrate_legacy_quote. cbn [scan_lits]. unfold raw_scan_ok. cbn [tl].
  rewrite removelast_app1. unfold c_dquote. rewrite text_eqb_refl. cbn [andb]. apply lit_scan_escape_quotes. exact Hp.
Qed.

(* ---------------------------------------------------------------------------------------------- *)
(* re-scanning a migrated expression together with the text that follows it *)

Section Rescan.
  Variable isln : N -> bool.
  Variable lower_rune : N -> N.
  Hypothesis isln_eof : isln S.eof = false.       (* unicode.IsLetter(0) = unicode.IsNumber(0) = false *)
  Hypothesis isln_at : isln S.r_at = false.       (* '@' is neither a letter nor a number *)

  Let tops := Some run_top_levels.
  Let pscan := SP.p_scan isln lower_rune tops true.
  Let sep := separate_from isln lower_rune.

  (* an output @x that separateFrom left without parentheses is read back as the identifier x, and the
     following text is left alone *)
  Lemma bare_identifier_rescans x f :
    separates_identifiers = true -> is_prefix [64; 40] (64 :: x) = false -> SP.nulfree (64 :: x ++ f) ->
    sep (64 :: x) f = 64 :: x ->
    pscan (64 :: x ++ f) = (S.IDENTIFIER, x, f).
  Proof.
    intros Hflag Hpre Hnul Hsep. unfold sep, separate_from in Hsep. rewrite Hflag, Hpre in Hsep. cbn [negb] in Hsep.
    destruct (S.scan isln lower_rune (Some run_top_levels) true (S.new_input ((64 :: x) ++ f))) as [[[ty tok] i']| |] eqn:Es.
    2,3: (apply (f_equal (@length N)) in Hsep; cbn in Hsep; rewrite app_length in Hsep; cbn in Hsep; lia).
    assert (Hty : ty = S.IDENTIFIER /\ tok = x).
    { destruct ty; try (apply (f_equal (@length N)) in Hsep; cbn in Hsep; rewrite app_length in Hsep; cbn in Hsep; lia).
      cbn [tl] in Hsep. destruct (text_eqb tok x) eqn:Et.
      - split; [reflexivity | apply text_eqb_eq; exact Et].
      - apply (f_equal (@length N)) in Hsep. cbn in Hsep. rewrite app_length in Hsep. cbn in Hsep. lia. }
    destruct Hty as [-> ->].
    pose proof (SP.scan_ref isln lower_rune isln_eof tops true _ _ _ _ _ (SP.R_new _ Hnul) Es) as Href.
    change ((64 :: x) ++ f) with (64 :: x ++ f) in Href.
    unfold pscan. destruct (SP.p_scan isln lower_rune tops true (64 :: x ++ f)) as [[pt pk] pr] eqn:Ep.
    destruct Href as (Et & Ek & _). subst pt pk.
    (* which branch of p_scan produced an IDENTIFIER? only scanIdentifier *)
    revert Ep. cbn [SP.p_scan]. change (64 =? S.r_at) with true. cbv iota.
    destruct (x ++ f) as [|d r'] eqn:Exf.
    { unfold SP.p_scan_body. intros Ep. inversion Ep. }
    destruct (d =? S.r_lparen).
    { unfold SP.p_scan_expr. destruct (SP.p_expr SP.MNorm 1 r') as [[o p] k]. destruct (Nat.eqb p 0); intros Ep; inversion Ep. }
    destruct (d =? S.r_at); [unfold SP.p_scan_body; intros Ep; inversion Ep|].
    destruct (S.is_name_char isln d); [|unfold SP.p_scan_body; intros Ep; inversion Ep].
    unfold SP.p_scan_ident.
    pose proof (SP.ident_spec isln isln_at (d :: r') [] []) as Hspec.
    destruct (SP.p_ident isln (d :: r') [] []) as [[ident top] k].
    destruct Hspec as (idp & Hb & Hw & _). cbn [app] in Hb. subst ident.
    cbv zeta. match goal with |- (if ?c then _ else _) = _ -> _ => destruct c end; intros Ep; inversion Ep; subst.
    rewrite <- Exf in Hw. apply app_inv_head in Hw. subst. reflexivity.
  Qed.

  (* an output @( x ) with a balanced x is read back as the expression x *)
  Lemma parenthesized_rescans x f : SP.closed_expr x ->
    pscan (64 :: 40 :: x ++ [41] ++ f) = (S.EXPRESSION, x, f).
  Proof.
    intros Hc. unfold pscan. cbn [SP.p_scan]. change (64 =? S.r_at) with true. change (40 =? S.r_lparen) with true.
    cbv iota. unfold SP.p_scan_expr. change (x ++ [41] ++ f) with (x ++ S.r_rparen :: f). rewrite (Hc f). reflexivity.
  Qed.

  Variable ctxmap : text -> text.
  Variable raw_dates : bool.
  Variable printable : N -> bool.

  Theorem rescan_expression : forall s e t f,
    separates_identifiers = true ->
    text_eqb s t_empty_literal = false ->
    parse1 s = Some e -> mt ctxmap raw_dates e = Some t -> scan_lits t = true ->
    expression_size_ok s = true ->
    too_long ctxmap raw_dates (max_migrated_length s) e = false ->
    SP.nulfree (print3 t ++ f) ->
    let out := fst (migrate_seg ctxmap raw_dates false false printable isln lower_rune (SExpr s) f) in
    pscan (out ++ f) = (S.IDENTIFIER, print3 t, f) \/ pscan (out ++ f) = (S.EXPRESSION, print3 t, f).
  Proof.
    intros s e t f Hflag Hne Hp Hm Hs Hsize Hcap Hnul. cbn zeta.
    unfold migrate_seg, migrate_expression. rewrite Hne, Hsize, Hp, (mt_no_errs ctxmap raw_dates e t Hm), Hcap. cbn [orb negb].
    destruct (visit_mt ctxmap raw_dates e t Hm) as [Pv [W L]]. rewrite Pv, (parse3_print3 t W L). cbn [fst]. unfold wrap_raw.
    pose proof (closed_print3 t L Hs) as Hclosed.
    destruct (is_valid_identifier (print3 t)) eqn:Ev.
    - destruct (separate_from_cases isln lower_rune (64 :: print3 t) f) as [E|E].
      + left. rewrite E. cbn [app].
        destruct (is_prefix [64; 40] (64 :: print3 t)) eqn:Epre.
        * (* the text would start with "(": impossible for a valid identifier *)
          exfalso. destruct (print3 t) as [|c r] eqn:Ept; [cbn in Epre; discriminate|].
          cbn [is_prefix] in Epre. rewrite N.eqb_refl in Epre. cbn [andb] in Epre.
          apply andb_true_iff in Epre. destruct Epre as [Ec _]. apply N.eqb_eq in Ec. subst c. cbn [is_valid_identifier] in Ev. change (uletter 40) with false in Ev.
          discriminate Ev.
        * apply bare_identifier_rescans; try assumption.
          constructor; [discriminate|exact Hnul].
      + right. rewrite E. cbn [tl].
        change ((64 :: 40 :: print3 t ++ [41]) ++ f) with (64 :: 40 :: (print3 t ++ [41]) ++ f).
        rewrite <- app_assoc. apply parenthesized_rescans. exact Hclosed.
    - right.
      destruct (separate_from_cases isln lower_rune (64 :: 40 :: print3 t ++ [41]) f) as [E|E]; rewrite E.
      + change ((64 :: 40 :: print3 t ++ [41]) ++ f) with (64 :: 40 :: (print3 t ++ [41]) ++ f).
        rewrite <- app_assoc. apply parenthesized_rescans. exact Hclosed.
      + exfalso. unfold sep, separate_from in E. rewrite Hflag in E. cbn [negb is_prefix] in E.
        rewrite !N.eqb_refl in E. cbn [andb] in E.
        apply (f_equal (@length N)) in E. cbn in E. rewrite !app_length in E. cbn in E. lia.
  Qed.

  (* the same for an @identifier token whose migration is a canonically printed expression *)
  Theorem rescan_identifier : forall n tr f,
    separates_identifiers = true ->
    canon (ctxmap n) = Some tr -> scan_lits tr = true ->
    SP.nulfree (print3 tr ++ f) ->
    let out := fst (migrate_seg ctxmap raw_dates false false printable isln lower_rune (SIdent n) f) in
    pscan (out ++ f) = (S.IDENTIFIER, print3 tr, f) \/ pscan (out ++ f) = (S.EXPRESSION, print3 tr, f).
  Proof.
    intros n tr f Hflag Hc Hs Hnul. cbn zeta. apply canon_spec in Hc. destruct Hc as [E [W L]].
    unfold migrate_seg. rewrite E. cbn [fst]. unfold wrap_raw.
    pose proof (closed_print3 tr L Hs) as Hclosed.
    destruct (is_valid_identifier (print3 tr)) eqn:Ev.
    - destruct (separate_from_cases isln lower_rune (64 :: print3 tr) f) as [E'|E'].
      + left. rewrite E'. cbn [app].
        destruct (is_prefix [64; 40] (64 :: print3 tr)) eqn:Epre.
        * exfalso. destruct (print3 tr) as [|c r] eqn:Ept; [cbn in Epre; discriminate|].
          cbn [is_prefix] in Epre. rewrite N.eqb_refl in Epre. cbn [andb] in Epre.
          apply andb_true_iff in Epre. destruct Epre as [Ec _]. apply N.eqb_eq in Ec. subst c.
          cbn [is_valid_identifier] in Ev. change (uletter 40) with false in Ev. discriminate Ev.
        * apply bare_identifier_rescans; try assumption. constructor; [discriminate|exact Hnul].
      + right. rewrite E'. cbn [tl].
        change ((64 :: 40 :: print3 tr ++ [41]) ++ f) with (64 :: 40 :: (print3 tr ++ [41]) ++ f).
        rewrite <- app_assoc. apply parenthesized_rescans. exact Hclosed.
    - right.
      destruct (separate_from_cases isln lower_rune (64 :: 40 :: print3 tr ++ [41]) f) as [E'|E']; rewrite E'.
      + change ((64 :: 40 :: print3 tr ++ [41]) ++ f) with (64 :: 40 :: (print3 tr ++ [41]) ++ f).
        rewrite <- app_assoc. apply parenthesized_rescans. exact Hclosed.
      + exfalso. unfold separate_from in E'. rewrite Hflag in E'. cbn [negb is_prefix] in E'.
        rewrite !N.eqb_refl in E'. cbn [andb] in E'.
        apply (f_equal (@length N)) in E'. cbn in E'. rewrite !app_length in E'. cbn in E'. lia.
  Qed.
End Rescan.

(* the body clause at the scanner level is FALSE of the code (known finding body:new-toplevel-identifier-becomes-live):
   the body text `mail @fields.n1 now` of a legacy template is copied unchanged (body_only), but the scanner of the new
   syntax does not read it back as one body token: fields is a top level there *)
Lemma body_rescan_refuted :
  exists t, fst (migrate_template (fun n => lower n) false false false printable_approx isln_approx lower_cp [SBody t]) = t /\
            SP.p_scan isln_approx lower_cp (Some run_top_levels) true t <> (S.BODY, t, []).
Proof.
  exists [109; 97; 105; 108; 32; 64; 102; 105; 101; 108; 100; 115; 46; 110; 49; 32; 110; 111; 119].
  split; [reflexivity | vm_compute; discriminate].
Qed.

(* ---------------------------------------------------------------------------------------------- *)
(* table obligation: the migrator separates identifiers from the text that follows (fix db33e56) *)
Lemma separates : separates_identifiers = true.
Proof. reflexivity. Qed.

(* without separateFrom the statement is false: @contact.name followed by s is read as @contact.names *)
Lemma glue_without_separation :
  exists x f, SP.p_scan isln_approx lower_cp (Some run_top_levels) true (64 :: x ++ f) <> (S.IDENTIFIER, x, f).
Proof.
  exists [99; 111; 110; 116; 97; 99; 116; 46; 110; 97; 109; 101], [115]. vm_compute. discriminate.
Qed.

(* the hypotheses of rescan_expression are satisfiable: @(contact.name)s and @(SUM(1, 2) * 3) th *)
Example rescan_example :
  let ctx := fun n => lower n in
  exists e t, parse1 [99; 111; 110; 116; 97; 99; 116; 46; 110; 97; 109; 101] = Some e /\ mt ctx false e = Some t /\
    scan_lits t = true /\
    fst (migrate_seg ctx false false false printable_approx isln_approx lower_cp
           (SExpr [99; 111; 110; 116; 97; 99; 116; 46; 110; 97; 109; 101]) [115])
    = [64; 40; 99; 111; 110; 116; 97; 99; 116; 46; 110; 97; 109; 101; 41].
Proof.
  cbn zeta. eexists. eexists. split; [vm_compute; reflexivity|]. split; [vm_compute; reflexivity|].
  split; vm_compute; reflexivity.
Qed.

(* ---------------------------------------------------------------------------------------------- *)
(* coverage of the hypotheses on the cases of a run: as LegacyProofs.check_hyp, and additionally [scan_lits] of the
   intended tree of every expression token of a clean case *)
Definition hyp_seg2 (ctx : text -> text) (raw_dates : bool) (s : seg) : bool :=
  match s with
  | SExpr t =>
      if text_eqb t t_empty_literal then true
      else match parse1 t with
           | Some e => match mt ctx raw_dates e with
                       | Some tr => scan_lits tr && expression_size_ok t && negb (too_long ctx raw_dates (max_migrated_length t) e)
                       | None => false
                       end
           | None => false
           end
  | _ => hyp_seg ctx raw_dates s
  end.

Fixpoint hyp_mismatches2_from (i : N) (ks : list (lcase * bool)) : list N :=
  match ks with
  | [] => []
  | (k, clean) :: rest =>
      (* (an [if], not [||]: vm_compute is call by value and must not evaluate the hypothesis on cases that are not clean) *)
      (if (if clean then forallb (hyp_seg2 (ctx_of (k_ctx k)) (k_raw_dates k)) (k_segs k) else true) then [] else [i])
      ++ hyp_mismatches2_from (i + 1) rest
  end.

Definition hyp_mismatches2 (ks : list (lcase * bool)) : list N := hyp_mismatches2_from 0 ks.
