(* MapOrderProofs.v -- generic facts for property C08: sorting removes the visiting order, association-list
   maps as lookup functions, folds over a permuted visiting order.  Model: model/MapOrder.v. *)
From Coq Require Import List String NArith ZArith Bool Permutation Sorting.Sorted Lia RelationClasses Morphisms.
From Verif Require Import model.MapOrder.
Import ListNotations.

(* ================================================================================================ *)
(** * Strings *)

Lemma str_eqb_spec : forall a b, str_eqb a b = true <-> a = b.
Proof.
  induction a as [|x a IH]; destruct b as [|y b]; simpl; split; intro H; try reflexivity; try discriminate.
  - apply andb_true_iff in H. destruct H as [H1 H2]. apply N.eqb_eq in H1. apply IH in H2. subst. reflexivity.
  - inversion H; subst. apply andb_true_iff. split. apply N.eqb_refl. apply IH. reflexivity.
Qed.

Lemma str_eqb_refl : forall a, str_eqb a a = true.
Proof. intro a. apply str_eqb_spec. reflexivity. Qed.

Lemma str_leb_total : forall a b, str_leb a b = true \/ str_leb b a = true.
Proof.
  induction a as [|x a IH]; destruct b as [|y b]; simpl; auto.
  destruct (N.ltb x y) eqn:E1; auto. destruct (N.ltb y x) eqn:E2; auto.
Qed.

Lemma str_leb_refl : forall a, str_leb a a = true.
Proof. intro a. destruct (str_leb_total a a); assumption. Qed.

Lemma str_leb_antisym : forall a b, str_leb a b = true -> str_leb b a = true -> a = b.
Proof.
  induction a as [|x a IH]; destruct b as [|y b]; simpl; intros H1 H2; try reflexivity; try discriminate.
  destruct (N.ltb x y) eqn:E1; destruct (N.ltb y x) eqn:E2;
    try (apply N.ltb_lt in E1); try (apply N.ltb_lt in E2); try discriminate; try lia.
  apply N.ltb_ge in E1. apply N.ltb_ge in E2. assert (x = y) by lia. subst. f_equal. apply IH; assumption.
Qed.

Lemma str_leb_trans : forall a b c, str_leb a b = true -> str_leb b c = true -> str_leb a c = true.
Proof.
  induction a as [|x a IH]; destruct b as [|y b]; destruct c as [|z c]; simpl; intros H1 H2;
    try reflexivity; try discriminate.
  destruct (N.ltb x y) eqn:E1; destruct (N.ltb y x) eqn:E2; destruct (N.ltb y z) eqn:E3; destruct (N.ltb z y) eqn:E4;
    try discriminate;
    repeat match goal with
           | H : N.ltb _ _ = true |- _ => apply N.ltb_lt in H
           | H : N.ltb _ _ = false |- _ => apply N.ltb_ge in H
           end.
  all: try (assert (Hxz : (x < z)%N) by lia; apply N.ltb_lt in Hxz; rewrite Hxz; reflexivity).
  (* x = y and y = z *)
  assert (x = y) by lia. assert (y = z) by lia. subst.
  rewrite N.ltb_irrefl. apply (IH b c); assumption.
Qed.

(* ================================================================================================ *)
(** * Sorting *)

Section SortFacts.
  Context {A : Type}.
  Variable leb : A -> A -> bool.
  Hypothesis leb_total : forall a b, leb a b = true \/ leb b a = true.
  Hypothesis leb_trans : forall a b c, leb a b = true -> leb b c = true -> leb a c = true.

  Let R (a b : A) : Prop := leb a b = true.

  Lemma insert_perm : forall x l, Permutation (insert leb x l) (x :: l).
  Proof.
    intros x l. induction l as [|y t IH]; simpl.
    - apply Permutation_refl.
    - destruct (leb x y).
      + apply Permutation_refl.
      + eapply Permutation_trans. apply perm_skip. exact IH. apply perm_swap.
  Qed.

  Lemma isort_perm : forall l, Permutation (isort leb l) l.
  Proof.
    induction l as [|x t IH]; simpl.
    - apply Permutation_refl.
    - eapply Permutation_trans. apply insert_perm. apply perm_skip. exact IH.
  Qed.

  Lemma insert_sorted : forall x l, StronglySorted R l -> StronglySorted R (insert leb x l).
  Proof.
    intros x l Hs. induction Hs as [|y t Hs IH Hall]; simpl.
    - constructor. constructor. constructor.
    - destruct (leb x y) eqn:E.
      + constructor. constructor; assumption.
        constructor. exact E. eapply Forall_impl. 2: exact Hall. intros z Hz. unfold R in *. eapply leb_trans; eassumption.
      + constructor. exact IH.
        assert (Hyx : leb y x = true) by (destruct (leb_total x y) as [H|H]; [rewrite H in E; discriminate | exact H]).
        assert (Hp := insert_perm x t).
        apply Forall_forall. intros z Hz. eapply Permutation_in in Hz. 2: exact Hp.
        destruct Hz as [Hz|Hz]. subst. exact Hyx. rewrite Forall_forall in Hall. apply Hall. exact Hz.
  Qed.

  Lemma isort_sorted : forall l, StronglySorted R (isort leb l).
  Proof.
    induction l as [|x t IH]; simpl. constructor. apply insert_sorted. exact IH.
  Qed.

  (* two sorted lists with the same elements are the same list, as soon as elements of the list that are
     equivalent for the order are equal *)
  Lemma sorted_perm_eq : forall l1 l2,
    StronglySorted R l1 -> StronglySorted R l2 -> Permutation l1 l2 ->
    (forall x y, In x l1 -> In y l1 -> leb x y = true -> leb y x = true -> x = y) ->
    l1 = l2.
  Proof.
    induction l1 as [|a t1 IH]; intros l2 H1 H2 Hp Hanti.
    - apply Permutation_nil in Hp. subst. reflexivity.
    - destruct l2 as [|b t2]. { apply Permutation_sym in Hp. apply Permutation_nil in Hp. discriminate. }
      inversion H1 as [|? ? Hs1 Hall1]; subst. inversion H2 as [|? ? Hs2 Hall2]; subst.
      assert (Hab : a = b).
      { assert (Hb : In b (a :: t1)) by (eapply Permutation_in; [apply Permutation_sym; exact Hp | left; reflexivity]).
        assert (Ha : In a (b :: t2)) by (eapply Permutation_in; [exact Hp | left; reflexivity]).
        destruct Hb as [Hb|Hb]. exact Hb.
        destruct Ha as [Ha|Ha]. symmetry; exact Ha.
        rewrite Forall_forall in Hall1, Hall2.
        apply Hanti. left; reflexivity. right; exact Hb. apply Hall1; exact Hb. apply Hall2; exact Ha. }
      subst b. f_equal. apply IH; try assumption.
      + eapply Permutation_cons_inv. exact Hp.
      + intros x y Hx Hy. apply Hanti; right; assumption.
  Qed.

  (* CollectThenSort / CollectThenStableSortBy: sorting forgets the order of its input, exactly when the order
     separates the collected items *)
  Theorem isort_perm_invariant : forall l1 l2,
    Permutation l1 l2 ->
    (forall x y, In x l1 -> In y l1 -> leb x y = true -> leb y x = true -> x = y) ->
    isort leb l1 = isort leb l2.
  Proof.
    intros l1 l2 Hp Hanti. apply sorted_perm_eq.
    - apply isort_sorted.
    - apply isort_sorted.
    - eapply Permutation_trans. apply isort_perm. eapply Permutation_trans. exact Hp. apply Permutation_sym. apply isort_perm.
    - intros x y Hx Hy. apply Hanti; eapply Permutation_in; try apply isort_perm; assumption.
  Qed.
End SortFacts.

(* sort.Strings / slices.Sort on strings *)
Theorem sort_strings_perm_invariant : forall l1 l2 : list str,
  Permutation l1 l2 -> isort str_leb l1 = isort str_leb l2.
Proof.
  intros l1 l2 Hp. apply isort_perm_invariant.
  - exact str_leb_total.
  - exact str_leb_trans.
  - exact Hp.
  - intros x y _ _. apply str_leb_antisym.
Qed.

Lemma nodup_fst_inj : forall {K V : Type} (l : list (K * V)) a b,
  NoDup (map fst l) -> In a l -> In b l -> fst a = fst b -> a = b.
Proof.
  intros K V l. induction l as [|x t IH]; intros a b Hnd Ha Hb Hab. contradiction.
  simpl in Hnd. inversion Hnd as [|? ? Hnot Hnd']; subst.
  destruct Ha as [Ha|Ha]; destruct Hb as [Hb|Hb]; subst.
  - reflexivity.
  - exfalso. apply Hnot. rewrite Hab. apply in_map. exact Hb.
  - exfalso. apply Hnot. rewrite <- Hab. apply in_map. exact Ha.
  - apply IH; assumption.
Qed.

(* `for _, k := range slices.Sorted(maps.Keys(m))`: the entries of a map in key order do not depend on the
   order in which the runtime hands them out *)
Theorem sorted_entries_perm_invariant : forall {V : Type} (l1 l2 : list (str * V)),
  NoDup (map fst l1) -> Permutation l1 l2 -> sorted_entries l1 = sorted_entries l2.
Proof.
  intros V l1 l2 Hnd Hp. unfold sorted_entries. apply isort_perm_invariant.
  - intros a b. apply str_leb_total.
  - intros a b c. apply str_leb_trans.
  - exact Hp.
  - intros x y Hx Hy H1 H2. eapply nodup_fst_inj; try eassumption. apply str_leb_antisym; assumption.
Qed.

Theorem sorted_keys_perm_invariant : forall {V : Type} (l1 l2 : list (str * V)),
  Permutation l1 l2 -> sorted_keys l1 = sorted_keys l2.
Proof.
  intros V l1 l2 Hp. unfold sorted_keys. apply sort_strings_perm_invariant. apply Permutation_map. exact Hp.
Qed.

(* ================================================================================================ *)
(** * Folds over a permuted visiting order *)

Section FoldPerm.
  Context {S K V : Type}.
  Variable Req : S -> S -> Prop.
  Variable step : S -> K * V -> S.
  Hypothesis Req_equiv : Equivalence Req.
  Hypothesis step_cong : forall s s' x, Req s s' -> Req (step s x) (step s' x).
  Hypothesis step_comm : forall s x y, fst x <> fst y -> Req (step (step s x) y) (step (step s y) x).

  Lemma fold_left_cong : forall l s s', Req s s' -> Req (fold_left step l s) (fold_left step l s').
  Proof.
    induction l as [|x t IH]; intros s s' H; simpl. exact H. apply IH. apply step_cong. exact H.
  Qed.

  (* CommutativeFold: a loop whose iterations for distinct keys commute reaches the same state for every
     visiting order of a map (keys are distinct) *)
  Theorem fold_left_perm_nodup : forall l1 l2,
    Permutation l1 l2 -> NoDup (map fst l1) -> forall s, Req (fold_left step l1 s) (fold_left step l2 s).
  Proof.
    intros l1 l2 Hp. induction Hp as [|x l l' Hp IH|x y l|l l' l'' Hp1 IH1 Hp2 IH2]; intros Hnd s.
    - reflexivity.
    - simpl. apply IH. simpl in Hnd. inversion Hnd; assumption.
    - simpl. apply fold_left_cong. apply step_comm.
      simpl in Hnd. inversion Hnd as [|? ? Hnot _]; subst. intro E. apply Hnot. left. symmetry. exact E.
    - etransitivity. apply IH1. exact Hnd. apply IH2.
      eapply Permutation_NoDup. 2: exact Hnd. apply Permutation_map. exact Hp1.
  Qed.
End FoldPerm.

(* ================================================================================================ *)
(** * Association lists as maps *)

Section AssocFacts.
  Context {K V : Type}.
  Variable keq : K -> K -> bool.
  Hypothesis keq_spec : forall a b, keq a b = true <-> a = b.

  Lemma keq_refl : forall a, keq a a = true.
  Proof. intro a. apply keq_spec. reflexivity. Qed.

  Lemma keq_neq : forall a b, a <> b -> keq a b = false.
  Proof. intros a b H. destruct (keq a b) eqn:E; [apply keq_spec in E; contradiction | reflexivity]. Qed.

  Definition map_equiv (m1 m2 : list (K * V)) : Prop := forall k, lookup keq k m1 = lookup keq k m2.

  Global Instance map_equiv_Equivalence : Equivalence map_equiv.
  Proof.
    split.
    - intros m k. reflexivity.
    - intros m1 m2 H k. symmetry. apply H.
    - intros m1 m2 m3 H1 H2 k. rewrite H1. apply H2.
  Qed.

  Lemma lookup_upsert : forall k k' v (m : list (K * V)),
    lookup keq k (upsert keq k' v m) = if keq k k' then Some v else lookup keq k m.
  Proof.
    intros k k' v m. induction m as [|[k0 v0] t IH]; simpl.
    - reflexivity.
    - destruct (keq k' k0) eqn:E0; simpl.
      + apply keq_spec in E0. subst k0. destruct (keq k k'); reflexivity.
      + destruct (keq k k0) eqn:E1.
        * apply keq_spec in E1. subst k0. destruct (keq k k') eqn:E2.
          -- apply keq_spec in E2. subst k'. rewrite keq_refl in E0. discriminate.
          -- reflexivity.
        * exact IH.
  Qed.

  Lemma lookup_remove_key : forall k k' (m : list (K * V)),
    lookup keq k (remove_key keq k' m) = if keq k k' then None else lookup keq k m.
  Proof.
    intros k k' m. induction m as [|[k0 v0] t IH]; simpl.
    - destruct (keq k k'); reflexivity.
    - destruct (keq k' k0) eqn:E0; simpl.
      + apply keq_spec in E0. subst k0. rewrite IH. destruct (keq k k'); reflexivity.
      + destruct (keq k k0) eqn:E1.
        * apply keq_spec in E1. subst k0. destruct (keq k k') eqn:E2.
          -- apply keq_spec in E2. subst k'. rewrite keq_refl in E0. discriminate.
          -- reflexivity.
        * exact IH.
  Qed.

  Lemma upsert_cong : forall k v m1 m2, map_equiv m1 m2 -> map_equiv (upsert keq k v m1) (upsert keq k v m2).
  Proof. intros k v m1 m2 H k0. rewrite !lookup_upsert. destruct (keq k0 k). reflexivity. apply H. Qed.

  Lemma remove_key_cong : forall k m1 m2, map_equiv m1 m2 -> map_equiv (remove_key keq k m1) (remove_key keq k m2).
  Proof. intros k m1 m2 H k0. rewrite !lookup_remove_key. destruct (keq k0 k). reflexivity. apply H. Qed.

  Lemma upsert_comm : forall k1 v1 k2 v2 m, k1 <> k2 ->
    map_equiv (upsert keq k2 v2 (upsert keq k1 v1 m)) (upsert keq k1 v1 (upsert keq k2 v2 m)).
  Proof.
    intros k1 v1 k2 v2 m Hne k. rewrite !lookup_upsert.
    destruct (keq k k2) eqn:E2; destruct (keq k k1) eqn:E1; try reflexivity.
    apply keq_spec in E1. apply keq_spec in E2. subst. contradiction.
  Qed.

  Lemma upsert_remove_comm : forall k1 v1 k2 m, k1 <> k2 ->
    map_equiv (remove_key keq k2 (upsert keq k1 v1 m)) (upsert keq k1 v1 (remove_key keq k2 m)).
  Proof.
    intros k1 v1 k2 m Hne k. rewrite lookup_remove_key, !lookup_upsert, lookup_remove_key.
    destruct (keq k k2) eqn:E2; destruct (keq k k1) eqn:E1; try reflexivity.
    apply keq_spec in E1. apply keq_spec in E2. subst. contradiction.
  Qed.

  Lemma remove_remove_comm : forall k1 k2 m,
    map_equiv (remove_key keq k2 (remove_key keq k1 m)) (remove_key keq k1 (remove_key keq k2 m)).
  Proof.
    intros k1 k2 m k. rewrite !lookup_remove_key. destruct (keq k k2); destruct (keq k k1); reflexivity.
  Qed.

  (* a Go map read through its keys: the order in which the entries are stored is invisible *)
  Theorem lookup_perm_invariant : forall (l1 l2 : list (K * V)) k,
    NoDup (map fst l1) -> Permutation l1 l2 -> lookup keq k l1 = lookup keq k l2.
  Proof.
    intros l1 l2 k Hnd Hp. revert Hnd.
    induction Hp as [|[k0 v0] l l' Hp IH|[k1 v1] [k2 v2] l|l l' l'' Hp1 IH1 Hp2 IH2]; intro Hnd.
    - reflexivity.
    - simpl. destruct (keq k k0). reflexivity. apply IH. simpl in Hnd. inversion Hnd; assumption.
    - simpl. destruct (keq k k2) eqn:E2; destruct (keq k k1) eqn:E1; try reflexivity.
      apply keq_spec in E1. apply keq_spec in E2. subst. simpl in Hnd. inversion Hnd as [|? ? Hnot _]; subst.
      exfalso. apply Hnot. left. reflexivity.
    - rewrite IH1 by exact Hnd. apply IH2. eapply Permutation_NoDup. 2: exact Hnd. apply Permutation_map. exact Hp1.
  Qed.
End AssocFacts.

(* ================================================================================================ *)
(** * Schemas *)

(* AnyAll / search loops *)
Theorem existsb_perm_invariant : forall {A : Type} (p : A -> bool) l1 l2,
  Permutation l1 l2 -> existsb p l1 = existsb p l2.
Proof.
  intros A p l1 l2 Hp. induction Hp as [|x l l' Hp IH|x y l|l l' l'' Hp1 IH1 Hp2 IH2]; simpl.
  - reflexivity.
  - rewrite IH. reflexivity.
  - destruct (p x); destruct (p y); reflexivity.
  - rewrite IH1. exact IH2.
Qed.

Theorem forallb_perm_invariant : forall {A : Type} (p : A -> bool) l1 l2,
  Permutation l1 l2 -> forallb p l1 = forallb p l2.
Proof.
  intros A p l1 l2 Hp. induction Hp as [|x l l' Hp IH|x y l|l l' l'' Hp1 IH1 Hp2 IH2]; simpl.
  - reflexivity.
  - rewrite IH. reflexivity.
  - destruct (p x); destruct (p y); reflexivity.
  - rewrite IH1. exact IH2.
Qed.

Theorem search_loop_perm_invariant : forall {K V R : Type} (p : K -> V -> bool) (c1 c2 : R) l1 l2,
  Permutation l1 l2 -> search_loop K V p c1 c2 l1 = search_loop K V p c1 c2 l2.
Proof.
  intros K V R p c1 c2 l1 l2 Hp. unfold search_loop.
  rewrite (existsb_perm_invariant _ l1 l2 Hp). reflexivity.
Qed.

(* FirstMatch: invariant when at most one visited pair matches *)
Theorem first_match_unique_perm_invariant : forall {K V R : Type} (p : K * V -> bool) (f : K * V -> R) l1 l2,
  Permutation l1 l2 ->
  (forall x y, In x l1 -> In y l1 -> p x = true -> p y = true -> x = y) ->
  first_match p f l1 = first_match p f l2.
Proof.
  intros K V R p f l1 l2 Hp. unfold first_match.
  induction Hp as [|x l l' Hp IH|x y l|l l' l'' Hp1 IH1 Hp2 IH2]; intro Huniq; simpl.
  - reflexivity.
  - destruct (p x). reflexivity. apply IH. intros a b Ha Hb. apply Huniq; right; assumption.
  - destruct (p x) eqn:Ex; destruct (p y) eqn:Ey; try reflexivity.
    assert (y = x) by (apply Huniq; [left; reflexivity | right; left; reflexivity | exact Ey | exact Ex]).
    subst. reflexivity.
  - rewrite IH1 by exact Huniq. apply IH2.
    intros a b Ha Hb. apply Huniq; eapply Permutation_in; try (apply Permutation_sym; exact Hp1); assumption.
Qed.

(* whether anything matches never depends on the order *)
Theorem first_match_presence_perm_invariant : forall {K V R : Type} (p : K * V -> bool) (f : K * V -> R) l1 l2,
  Permutation l1 l2 ->
  (match first_match p f l1 with Some _ => true | None => false end)
  = (match first_match p f l2 with Some _ => true | None => false end).
Proof.
  intros K V R p f l1 l2 Hp.
  assert (H : forall l, (match first_match p f l with Some _ => true | None => false end) = existsb p l).
  { intro l. unfold first_match. induction l as [|x t IH]; simpl. reflexivity.
    destruct (p x); simpl. reflexivity. exact IH. }
  rewrite !H. apply existsb_perm_invariant. exact Hp.
Qed.

(* ... and it is order-dependent otherwise: two matching keys, two visiting orders, two answers *)
Theorem first_match_refuted :
  exists (p : N * N -> bool) (l1 l2 : list (N * N)),
    NoDup (map fst l1) /\ Permutation l1 l2 /\ first_match p (fun kv => kv) l1 <> first_match p (fun kv => kv) l2.
Proof.
  exists (fun _ => true), [(1, 10); (2, 20)]%N, [(2, 20); (1, 10)]%N. split; [|split].
  - simpl. constructor. intros [H|[]]. discriminate. constructor. intros []. constructor.
  - apply perm_swap.
  - simpl. discriminate.
Qed.

(* AppendInOrder is order-dependent *)
Theorem append_in_order_refuted :
  exists (l1 l2 : list (N * N)),
    NoDup (map fst l1) /\ Permutation l1 l2 /\ append_in_order fst l1 <> append_in_order fst l2.
Proof.
  exists [(1, 10); (2, 20)]%N, [(2, 20); (1, 10)]%N. split; [|split].
  - simpl. constructor. intros [H|[]]. discriminate. constructor. intros []. constructor.
  - apply perm_swap.
  - simpl. discriminate.
Qed.

(* CollectThenStableSortBy a key with ties is order-dependent *)
Theorem stable_sort_ties_refuted :
  exists (l1 l2 : list (N * N)),
    NoDup (map fst l1) /\ Permutation l1 l2 /\
    collect_then_stable_sort (fun a b => N.leb (snd a) (snd b)) (fun kv => kv) l1
    <> collect_then_stable_sort (fun a b => N.leb (snd a) (snd b)) (fun kv => kv) l2.
Proof.
  exists [(1, 7); (2, 7)]%N, [(2, 7); (1, 7)]%N. split; [|split].
  - simpl. constructor. intros [H|[]]. discriminate. constructor. intros []. constructor.
  - apply perm_swap.
  - vm_compute. discriminate.
Qed.

(* BuildMap *)
Section BuildMap.
  Context {K V K2 V2 : Type}.
  Variable keq2 : K2 -> K2 -> bool.
  Hypothesis keq2_spec : forall a b, keq2 a b = true <-> a = b.

  (* `out[f k] = g k v` with f injective on the keys: the built map is the same for every visiting order *)
  Theorem build_map_perm_invariant : forall (f : K -> K2) (g : K -> V -> V2) l1 l2,
    (forall a b, In a (map fst l1) -> In b (map fst l1) -> f a = f b -> a = b) ->
    NoDup (map fst l1) -> Permutation l1 l2 ->
    map_equiv keq2 (build_map keq2 f g l1) (build_map keq2 f g l2).
  Proof.
    intros f g l1 l2 Hinj Hnd Hp. unfold build_map.
    (* strengthen: any start map, injectivity carried along the permutation *)
    assert (H : forall s, map_equiv keq2
              (fold_left (fun acc kv => upsert keq2 (f (fst kv)) (g (fst kv) (snd kv)) acc) l1 s)
              (fold_left (fun acc kv => upsert keq2 (f (fst kv)) (g (fst kv) (snd kv)) acc) l2 s)).
    { revert Hinj Hnd.
      induction Hp as [|x l l' Hp IH|x y l|l l' l'' Hp1 IH1 Hp2 IH2]; intros Hinj Hnd s.
      - reflexivity.
      - simpl. apply IH.
        + intros a b Ha Hb. apply Hinj; right; assumption.
        + simpl in Hnd. inversion Hnd; assumption.
      - simpl.
        assert (Hne : f (fst y) <> f (fst x)).
        { intro E. apply Hinj in E. 2: left; reflexivity. 2: right; left; reflexivity.
          simpl in Hnd. inversion Hnd as [|? ? Hnot _]; subst. apply Hnot. left. symmetry. exact E. }
        generalize (upsert_comm keq2 keq2_spec (f (fst y)) (g (fst y) (snd y)) (f (fst x)) (g (fst x) (snd x)) s Hne).
        intro Hc. clear - Hc keq2_spec.
        revert Hc. generalize (upsert keq2 (f (fst x)) (g (fst x) (snd x)) (upsert keq2 (f (fst y)) (g (fst y) (snd y)) s)).
        generalize (upsert keq2 (f (fst y)) (g (fst y) (snd y)) (upsert keq2 (f (fst x)) (g (fst x) (snd x)) s)).
        induction l as [|z t IHt]; intros m1 m2 Hc; simpl. exact Hc.
        apply IHt. apply upsert_cong. exact keq2_spec. exact Hc.
      - etransitivity. apply IH1; assumption. apply IH2.
        + intros a b Ha Hb. apply Hinj; eapply Permutation_in; try (apply Permutation_sym; apply Permutation_map; exact Hp1); assumption.
        + eapply Permutation_NoDup. 2: exact Hnd. apply Permutation_map. exact Hp1. }
    apply H.
  Qed.
End BuildMap.

(* BuildMap through a key transformer that identifies two keys is order-dependent: the pair visited last wins *)
Theorem build_map_collision_refuted :
  exists (l1 l2 : list (N * N)),
    NoDup (map fst l1) /\ Permutation l1 l2 /\
    lookup N.eqb 0%N (build_map N.eqb (fun _ => 0%N) (fun _ v => v) l1)
    <> lookup N.eqb 0%N (build_map N.eqb (fun _ => 0%N) (fun _ v => v) l2).
Proof.
  exists [(1, 10); (2, 20)]%N, [(2, 20); (1, 10)]%N. split; [|split].
  - simpl. constructor. intros [H|[]]. discriminate. constructor. intros []. constructor.
  - apply perm_swap.
  - vm_compute. discriminate.
Qed.
