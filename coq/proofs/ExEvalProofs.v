(* ExEvalProofs.v — C04: the guards of the modelled builtins keep every partial primitive inside its domain.
   Model: model/ExValues.v, model/ExEval.v.  Statements are re-exported by props/C04.v. *)
From Coq Require Import ZArith NArith List Bool Lia.
From Verif Require Import lib.Dec model.NumText model.ExValues model.ExEval.
Import ListNotations.

Local Open Scope Z_scope.

(* ------------------------------------------------------------------------------------------------ *)
(* partial primitives: where they are defined *)

Lemma go_index_some : forall {A} (l : list A) i,
  0 <= i < zlen l -> exists x, go_index l i = Some x.
Proof.
  intros A l i [H0 H1]. unfold go_index, zlen in *.
  destruct (i <? 0) eqn:E; [apply Z.ltb_lt in E; lia|].
  destruct (nth_error l (Z.to_nat i)) eqn:En; [eauto|].
  apply nth_error_None in En. lia.
Qed.

Lemma go_slice_some : forall {A} (l : list A) lo hi,
  0 <= lo <= hi -> hi <= zlen l -> exists s, go_slice l lo hi = Some s.
Proof.
  intros A l lo hi [H0 H1] H2. unfold go_slice, zlen in *.
  replace (0 <=? lo) with true by (symmetry; apply Z.leb_le; lia).
  replace (lo <=? hi) with true by (symmetry; apply Z.leb_le; lia).
  replace (hi <=? Z.of_nat (length l)) with true by (symmetry; apply Z.leb_le; lia).
  simpl. eauto.
Qed.

Lemma go_slice_from_some : forall {A} (l : list A) lo,
  0 <= lo <= zlen l -> exists s, go_slice_from l lo = Some s.
Proof. intros. unfold go_slice_from. apply go_slice_some; unfold zlen in *; lia. Qed.

Lemma go_slice_from_length : forall {A} (l s : list A) k,
  go_slice_from l (Z.of_nat k) = Some s -> (length s = length l - k)%nat.
Proof.
  intros A l s k. unfold go_slice_from, go_slice.
  destruct ((0 <=? Z.of_nat k) && (Z.of_nat k <=? Z.of_nat (length l)) && (Z.of_nat (length l) <=? Z.of_nat (length l))) eqn:E;
    [|discriminate].
  intros H. injection H as <-.
  apply andb_prop in E as [E _]. apply andb_prop in E as [_ E]. apply Z.leb_le in E.
  rewrite Nat2Z.id, firstn_length, skipn_length. lia.
Qed.

(* ------------------------------------------------------------------------------------------------ *)
(* the continuation combinators *)

Section WithExt.

Variable wclass : N -> N.
Variable regex_submatch : text -> text -> option (list text).
Variable ext_call : N -> list value -> res.

Lemma with_arg_ok : forall args k f,
  (k < length args)%nat -> (forall v, f v <> Panic) -> with_arg args k f <> Panic.
Proof.
  intros args k f Hk Hf. unfold with_arg.
  destruct (nth_error args k) eqn:E; [apply Hf|]. apply nth_error_None in E. lia.
Qed.

Lemma with_rest_ok : forall args k f,
  (k <= length args)%nat -> (forall r, (length r = length args - k)%nat -> f r <> Panic) ->
  with_rest args k f <> Panic.
Proof.
  intros args k f Hk Hf. unfold with_rest.
  destruct (go_slice_from args (Z.of_nat k)) eqn:E.
  - apply Hf. eapply go_slice_from_length; eauto.
  - destruct (go_slice_from_some args (Z.of_nat k)) as [s Hs]; [unfold zlen; lia|]. congruence.
Qed.

(* which argument counts a wrapper lets through to the body *)
Definition admitted (min : nat) (max : Z) (n : nat) : Prop :=
  (min <= n)%nat /\ (max < 0 \/ Z.of_nat n <= max).

Lemma min_max_args_ok : forall min max f,
  (forall args, admitted min max (length args) -> f args <> Panic) ->
  forall args, min_max_args min max f args <> Panic.
Proof.
  intros min max f Hf args. unfold min_max_args.
  destruct (Z.of_nat min =? max) eqn:E1.
  - apply Z.eqb_eq in E1. destruct (Nat.eqb (length args) min) eqn:E2; simpl; [|discriminate].
    apply Nat.eqb_eq in E2. apply Hf. unfold admitted. lia.
  - destruct (max <? 0) eqn:E2.
    + apply Z.ltb_lt in E2. destruct (Nat.ltb (length args) min) eqn:E3; [discriminate|].
      apply Nat.ltb_ge in E3. apply Hf. unfold admitted. lia.
    + apply Z.ltb_ge in E2.
      destruct (Nat.ltb (length args) min) eqn:E3; simpl; [discriminate|].
      destruct (max <? Z.of_nat (length args)) eqn:E4; [discriminate|].
      apply Nat.ltb_ge in E3. apply Z.ltb_ge in E4. apply Hf. unfold admitted. lia.
Qed.

(* rejected argument counts give an error VALUE (the error branch, explicitly) *)
Lemma min_max_args_rejects : forall min max f args,
  ~ admitted min max (length args) -> min_max_args min max f args = Ret VErr.
Proof.
  intros min max f args H. unfold min_max_args, admitted in *.
  destruct (Z.of_nat min =? max) eqn:E1.
  - apply Z.eqb_eq in E1. destruct (Nat.eqb (length args) min) eqn:E2; simpl; [|reflexivity].
    apply Nat.eqb_eq in E2. exfalso. apply H. lia.
  - apply Z.eqb_neq in E1. destruct (max <? 0) eqn:E2.
    + apply Z.ltb_lt in E2. destruct (Nat.ltb (length args) min) eqn:E3; [reflexivity|].
      apply Nat.ltb_ge in E3. exfalso. apply H. lia.
    + apply Z.ltb_ge in E2.
      destruct (Nat.ltb (length args) min) eqn:E3; simpl; [reflexivity|].
      destruct (max <? Z.of_nat (length args)) eqn:E4; [reflexivity|].
      apply Nat.ltb_ge in E3. apply Z.ltb_ge in E4. exfalso. apply H. lia.
Qed.

Ltac conv_cases :=
  repeat match goal with
  | |- Ret _ <> Panic => discriminate
  | |- (match ?c with Ok _ => _ | Bad => _ end) <> Panic => destruct c
  | |- (if ?b then _ else _) <> Panic => destruct b eqn:?
  end.

Lemma num_args_ok : forall n f,
  (forall args, length args = n -> f args <> Panic) -> forall args, num_args n f args <> Panic.
Proof.
  intros n f Hf. apply min_max_args_ok. intros args [H1 [H2|H2]]; apply Hf; lia.
Qed.

Lemma initial_text_function_ok : forall mn mx f,
  (forall t r, (mn <= length r <= mx)%nat -> f t r <> Panic) ->
  forall args, initial_text_function mn mx f args <> Panic.
Proof.
  intros mn mx f Hf. apply min_max_args_ok. intros args [H1 [H2|H2]]; [lia|].
  apply with_arg_ok; [lia|]. intros v. destruct (to_text v); [|discriminate].
  apply with_rest_ok; [lia|]. intros r Hr. apply Hf. lia.
Qed.

Lemma one_number_function_ok : forall f,
  (forall d, f d <> Panic) -> forall args, one_number_function f args <> Panic.
Proof.
  intros f Hf. apply num_args_ok. intros args Hl.
  apply with_arg_ok; [lia|]. intros v. destruct (to_number v); [apply Hf|discriminate].
Qed.

Lemma text_and_integer_function_ok : forall f,
  (forall t n, f t n <> Panic) -> forall args, text_and_integer_function f args <> Panic.
Proof.
  intros f Hf. apply num_args_ok. intros args Hl.
  apply with_arg_ok; [lia|]. intros v. destruct (to_text v); [|discriminate].
  apply with_arg_ok; [lia|]. intros v'. destruct (to_integer v'); [apply Hf|discriminate].
Qed.

Lemma one_number_and_optional_integer_function_ok : forall f dflt,
  (forall d n, f d n <> Panic) -> forall args, one_number_and_optional_integer_function f dflt args <> Panic.
Proof.
  intros f dflt Hf. apply min_max_args_ok. intros args [H1 [H2|H2]]; [lia|].
  apply with_arg_ok; [lia|]. intros v. destruct (to_number v); [|discriminate].
  destruct (Nat.eqb (length args) 2) eqn:E; [|apply Hf].
  apply Nat.eqb_eq in E. apply with_arg_ok; [lia|]. intros v'. destruct (to_integer v'); [apply Hf|discriminate].
Qed.

Lemma three_integer_function_ok : forall f,
  (forall a b c, f a b c <> Panic) -> forall args, three_integer_function f args <> Panic.
Proof.
  intros f Hf. apply num_args_ok. intros args Hl.
  apply with_arg_ok; [lia|]. intros v0. destruct (to_integer v0); [|discriminate].
  apply with_arg_ok; [lia|]. intros v1. destruct (to_integer v1); [|discriminate].
  apply with_arg_ok; [lia|]. intros v2. destruct (to_integer v2); [apply Hf|discriminate].
Qed.

(* a guarded index *)
Lemma guarded_index : forall {A} (l : list A) i (k : A -> res),
  0 <= i < zlen l -> (forall x, k x <> Panic) ->
  match go_index l i with Some w => k w | None => Panic end <> Panic.
Proof. intros A l i k H Hk. destruct (go_index_some l i H) as [x ->]. apply Hk. Qed.

(* ------------------------------------------------------------------------------------------------ *)
(* the bodies *)

Lemma word_finish_ok : forall t index delims, word_finish wclass t index delims <> Panic.
Proof.
  intros t index delims. unfold word_finish. cbv zeta.
  destruct (negb _) eqn:E; [discriminate|]. apply negb_false_iff in E.
  apply andb_prop in E as [E1 E2]. apply Z.leb_le in E1. apply Z.ltb_lt in E2.
  apply guarded_index; [lia|]. discriminate.
Qed.

Lemma word_body_ok : forall t r, (1 <= length r <= 2)%nat -> word_body wclass t r <> Panic.
Proof.
  intros t r Hr. unfold word_body.
  apply with_arg_ok; [lia|]. intros va0. destruct (to_integer va0) as [index|]; [|discriminate].
  destruct (Nat.eqb (length r) 2) eqn:E2; [|apply word_finish_ok].
  apply Nat.eqb_eq in E2. apply with_arg_ok; [lia|]. intros va1.
  destruct (is_nil va1); [apply word_finish_ok|]. destruct (to_text va1); [apply word_finish_ok|discriminate].
Qed.

Lemma word_slice_finish_ok : forall t start end_ delims,
  0 <= start -> (0 <? end_) && (end_ <=? start) = false ->
  word_slice_finish wclass t start end_ delims <> Panic.
Proof.
  intros t start end_ delims Es Hg. unfold word_slice_finish. cbv zeta.
  set (words := extract_words wclass t delims).
  destruct (zlen words <=? start) eqn:E1; [discriminate|]. apply Z.leb_gt in E1.
  destruct (zlen words <=? end_) eqn:E2.
  - apply Z.leb_le in E2. destruct (0 <? zlen words) eqn:E3.
    + destruct (go_slice_some words start (zlen words)) as [s ->]; [lia|lia|discriminate].
    + destruct (go_slice_from_some words start) as [s ->]; [lia|discriminate].
  - apply Z.leb_gt in E2. destruct (0 <? end_) eqn:E3.
    + simpl in Hg. apply Z.leb_gt in Hg. apply Z.ltb_lt in E3.
      destruct (go_slice_some words start end_) as [s ->]; [lia|lia|discriminate].
    + destruct (go_slice_from_some words start) as [s ->]; [lia|discriminate].
Qed.

Lemma word_slice_after_end_ok : forall t r start end_,
  0 <= start -> word_slice_after_end wclass t r start end_ <> Panic.
Proof.
  intros t r start end_ Es. unfold word_slice_after_end.
  destruct ((0 <? end_) && (end_ <=? start)) eqn:Hg; [discriminate|].
  destruct (Nat.leb 3 (length r)) eqn:E3; [|apply word_slice_finish_ok; assumption].
  apply Nat.leb_le in E3. apply with_arg_ok; [lia|]. intros va2.
  destruct (is_nil va2); [apply word_slice_finish_ok; assumption|].
  destruct (to_text va2) as [d|]; [apply word_slice_finish_ok; assumption|discriminate].
Qed.

Lemma word_slice_body_ok : forall t r, (1 <= length r <= 3)%nat -> word_slice_body wclass t r <> Panic.
Proof.
  intros t r Hr. unfold word_slice_body.
  apply with_arg_ok; [lia|]. intros va0. destruct (to_integer va0) as [start|]; [|discriminate].
  destruct (start <? 0) eqn:Es; [discriminate|]. apply Z.ltb_ge in Es.
  destruct (Nat.leb 2 (length r)) eqn:E2; [|apply word_slice_after_end_ok; assumption].
  apply Nat.leb_le in E2. apply with_arg_ok; [lia|]. intros va1.
  destruct (to_integer va1) as [e|]; [apply word_slice_after_end_ok; assumption|discriminate].
Qed.

Lemma field_body_ok : forall t r, length r = 2%nat -> field_body t r <> Panic.
Proof.
  intros t r Hr. unfold field_body.
  apply with_arg_ok; [lia|]. intros va0. destruct (to_integer va0) as [field|]; [|discriminate].
  destruct (field <? 0) eqn:Ef; [discriminate|]. apply Z.ltb_ge in Ef.
  apply with_arg_ok; [lia|]. intros va1. destruct (to_text va1) as [sep|]; [|discriminate].
  cbv zeta.
  match goal with |- (if zlen ?l <=? field then _ else _) <> Panic => set (fields := l) end.
  destruct (zlen fields <=? field) eqn:E; [discriminate|]. apply Z.leb_gt in E.
  apply guarded_index; [lia|]. discriminate.
Qed.

Lemma text_slice_body_ok : forall t r, (1 <= length r <= 3)%nat -> text_slice_body t r <> Panic.
Proof.
  intros t r Hr. unfold text_slice_body. cbv zeta.
  apply with_arg_ok; [lia|]. intros va0. destruct (to_integer va0) as [start|]; [|discriminate].
  destruct (Nat.eqb (length r) 2) eqn:E2; [|discriminate].
  apply Nat.eqb_eq in E2. apply with_arg_ok; [lia|]. intros va1.
  destruct (to_integer va1); discriminate.
Qed.

Lemma char_body_ok : forall d, char_body d <> Panic.
Proof. intros d. unfold char_body. destruct (to_integer (VNum d)); discriminate. Qed.

Lemma repeat_body_ok : forall t n, repeat_body t n <> Panic.
Proof. intros t n. unfold repeat_body. destruct (n <? 0); [discriminate|]. destruct t; discriminate. Qed.

Lemma replace_body_ok : forall args, (3 <= length args <= 4)%nat -> replace_body args <> Panic.
Proof.
  intros args H. unfold replace_body.
  apply with_arg_ok; [lia|]. intros va0. destruct (to_text va0); [|discriminate].
  apply with_arg_ok; [lia|]. intros va1. destruct (to_text va1); [|discriminate].
  apply with_arg_ok; [lia|]. intros va2. destruct (to_text va2); [|discriminate].
  destruct (Nat.eqb (length args) 4) eqn:E; [|discriminate].
  apply Nat.eqb_eq in E. apply with_arg_ok; [lia|]. intros va3. destruct (to_integer va3); discriminate.
Qed.

Lemma round_body_ok : forall d n, round_body d n <> Panic.
Proof. intros. unfold round_body. destruct (bad_places n); discriminate. Qed.
Lemma round_up_body_ok : forall d n, round_up_body d n <> Panic.
Proof. intros. unfold round_up_body. destruct (bad_places n); [discriminate|]. destruct (dec_eqb _ _); discriminate. Qed.
Lemma round_down_body_ok : forall d n, round_down_body d n <> Panic.
Proof. intros. unfold round_down_body. destruct (bad_places n); [discriminate|]. destruct (dec_eqb _ _); discriminate. Qed.

Lemma format_number_body_ok : forall args, (1 <= length args <= 3)%nat -> format_number_body args <> Panic.
Proof.
  intros args H. unfold format_number_body.
  assert (Hf : forall num places, format_number_finish args num places <> Panic).
  { intros num places. unfold format_number_finish. destruct (Nat.ltb 2 (length args)) eqn:E; [|discriminate].
    apply Nat.ltb_lt in E. apply with_arg_ok; [lia|]. intros va2. destruct (to_bool va2); discriminate. }
  apply with_arg_ok; [lia|]. intros va0. destruct (to_number va0) as [num|]; [|discriminate].
  destruct (Nat.ltb 1 (length args)) eqn:E; [|apply Hf].
  apply Nat.ltb_lt in E. apply with_arg_ok; [lia|]. intros va1. destruct (to_integer va1) as [places|]; [|discriminate].
  destruct ((places <? 0) || (9 <? places)); [discriminate|apply Hf].
Qed.

Lemma date_from_parts_body_ok : forall a b c, date_from_parts_body a b c <> Panic.
Proof. intros. unfold date_from_parts_body. destruct (_ || _); discriminate. Qed.

Lemma time_from_parts_body_ok : forall a b c, time_from_parts_body a b c <> Panic.
Proof. intros. unfold time_from_parts_body. repeat (destruct (_ || _); [discriminate|]). discriminate. Qed.

Lemma datetime_add_fn_ok : forall args, datetime_add_fn args <> Panic.
Proof.
  intros args. unfold datetime_add_fn. destruct (Nat.eqb (length args) 3) eqn:E; simpl; [|discriminate].
  apply Nat.eqb_eq in E.
  apply with_arg_ok; [lia|]. intros va0. destruct (to_datetime va0); [|discriminate].
  apply with_arg_ok; [lia|]. intros va1. destruct (to_integer va1); [|discriminate].
  apply with_arg_ok; [lia|]. intros va2. destruct (to_text va2) as [u|]; [|discriminate].
  destruct u as [|c [|c' u]]; try discriminate.
  match goal with |- (if ?b then _ else _) <> _ => destruct b end; discriminate.
Qed.

Lemma array_fn_ok : forall args, array_fn args <> Panic.
Proof. intros. unfold array_fn. destruct (find is_err args); discriminate. Qed.

Lemma regex_match_body_ok : forall t r, (1 <= length r <= 2)%nat -> regex_match_body regex_submatch t r <> Panic.
Proof.
  intros t r Hr. unfold regex_match_body.
  assert (Hf : forall pattern g, regex_match_finish regex_submatch t pattern g <> Panic).
  { intros pattern g. unfold regex_match_finish. destruct (regex_submatch pattern t) as [groups|]; [|discriminate].
    destruct ((g <? 0) || (zlen groups <=? g)) eqn:E; [discriminate|].
    apply orb_false_iff in E as [E1 E2]. apply Z.ltb_ge in E1. apply Z.leb_gt in E2.
    apply guarded_index; [lia|]. discriminate. }
  apply with_arg_ok; [lia|]. intros va0. destruct (to_text va0) as [pattern|]; [|discriminate].
  destruct (Nat.eqb (length r) 2) eqn:E; [|apply Hf].
  apply Nat.eqb_eq in E. apply with_arg_ok; [lia|]. intros va1. destruct (to_integer va1); [apply Hf|discriminate].
Qed.

Lemma extract_object_body_ok : forall args, (2 <= length args)%nat -> extract_object_body args <> Panic.
Proof.
  intros args H. unfold extract_object_body.
  apply with_arg_ok; [lia|]. intros va0. destruct (to_object va0); [|discriminate].
  apply with_rest_ok; [lia|]. intros r _. destruct (texts_of r); discriminate.
Qed.

Lemma fold_extreme_ok : forall pick vs cur, fold_extreme pick vs cur <> Panic.
Proof.
  intros pick vs. induction vs as [|v r IH]; intros cur; simpl; [discriminate|].
  destruct (to_number v); [apply IH|discriminate].
Qed.

Lemma extreme_body_ok : forall pick args, (1 <= length args)%nat -> extreme_body pick args <> Panic.
Proof.
  intros pick args H. unfold extreme_body.
  apply with_arg_ok; [lia|]. intros v0. destruct (to_number v0); [|discriminate].
  apply with_rest_ok; [lia|]. intros r _. apply fold_extreme_ok.
Qed.

Lemma has_group_loop_ok : forall fuel items i uuid,
  0 <= i -> has_group_loop fuel items i uuid <> Panic.
Proof.
  induction fuel as [|fuel IH]; intros items i uuid Hi; simpl; [discriminate|].
  destruct (i <? zlen items) eqn:E; simpl; [|discriminate]. apply Z.ltb_lt in E.
  destruct (go_index_some items i) as [item ->]; [lia|].
  destruct (to_object item) as [group|]; [|discriminate].
  destruct (to_text _) as [u|]; [|discriminate].
  destruct (text_eqb u uuid); [discriminate|]. apply IH. lia.
Qed.

Lemma has_group_loop_fuel : forall fuel items i uuid,
  0 <= i -> (Z.to_nat (zlen items - i) < fuel)%nat -> has_group_loop fuel items i uuid <> NoFuel.
Proof.
  induction fuel as [|fuel IH]; intros items i uuid Hi Hf; [lia|]. simpl.
  destruct (i <? zlen items) eqn:E; simpl; [|discriminate]. apply Z.ltb_lt in E.
  destruct (go_index items i) as [item|]; [|discriminate].
  destruct (to_object item) as [group|]; [|discriminate].
  destruct (to_text _) as [u|]; [|discriminate].
  destruct (text_eqb u uuid); [discriminate|]. apply IH; lia.
Qed.

Lemma has_group_body_ok : forall args, (2 <= length args <= 3)%nat -> has_group_body args <> Panic.
Proof.
  intros args H. unfold has_group_body.
  apply with_arg_ok; [lia|]. intros va0. destruct (to_array va0) as [items|]; [|discriminate].
  apply with_arg_ok; [lia|]. intros va1. destruct (to_text va1); [|discriminate].
  apply has_group_loop_ok. lia.
Qed.

(* Object: pairs[i+1] is inside because the length is even *)
Lemma object_pairs_ok : forall fuel pairs i acc,
  Nat.even (length pairs) = true -> Nat.even i = true -> object_pairs fuel pairs i acc <> Panic.
Proof.
  induction fuel as [|fuel IH]; intros pairs i acc Hp Hi; simpl; [discriminate|].
  destruct (Nat.leb (length pairs) i) eqn:E; [discriminate|]. apply Nat.leb_gt in E.
  assert (Hi1 : (i + 1 < length pairs)%nat).
  { destruct (Nat.eq_dec (i + 1) (length pairs)) as [Heq|Hne]; [|lia].
    rewrite <- Heq in Hp. rewrite Nat.add_1_r, Nat.even_succ, <- Nat.negb_even, Hi in Hp. discriminate. }
  apply with_arg_ok; [lia|]. intros key. apply with_arg_ok; [lia|]. intros val.
  destruct (to_text key); [|discriminate]. apply IH; [assumption|].
  replace (i + 2)%nat with (S (S i)) by lia. rewrite Nat.even_succ_succ. assumption.
Qed.

Lemma object_fn_ok : forall args, object_fn args <> Panic.
Proof.
  intros args. unfold object_fn. destruct (find is_err args); [discriminate|].
  destruct (Nat.eqb (Nat.modulo (length args) 2) 0) eqn:E; cbn [negb]; [|discriminate].
  apply object_pairs_ok; [|reflexivity].
  apply Nat.eqb_eq in E. apply Nat.even_spec. exists (length args / 2)%nat.
  pose proof (Nat.div_mod (length args) 2). lia.
Qed.

End WithExt.
