(* ExEvalProofs.v — C04: the guards of the modelled builtins keep every partial primitive inside its domain.
   Model: model/ExValues.v, model/ExEval.v.  Statements are re-exported by props/C04.v. *)
From Coq Require Import ZArith NArith List Bool Lia.
From Verif Require Import lib.Dec model.NumText model.ExValues model.ExEval.
Import ListNotations.

Local Open Scope Z_scope.

(* ------------------------------------------------------------------------------------------------ *)
(* partial primitives: where they are defined *)

Lemma go_index_some : forall {A} (l : list A) i,
  0 <= i < zlen l -> exists x, go_index l i = Some x.
Proof.
  intros A l i [H0 H1]. unfold go_index, zlen in *.
  destruct (i <? 0) eqn:E; [apply Z.ltb_lt in E; lia|].
  destruct (nth_error l (Z.to_nat i)) eqn:En; [eauto|].
  apply nth_error_None in En. lia.
Qed.

Lemma go_slice_some : forall {A} (l : list A) lo hi,
  0 <= lo <= hi -> hi <= zlen l -> exists s, go_slice l lo hi = Some s.
Proof.
  intros A l lo hi [H0 H1] H2. unfold go_slice, zlen in *.
  replace (0 <=? lo) with true by (symmetry; apply Z.leb_le; lia).
  replace (lo <=? hi) with true by (symmetry; apply Z.leb_le; lia).
  replace (hi <=? Z.of_nat (length l)) with true by (symmetry; apply Z.leb_le; lia).
  simpl. eauto.
Qed.

Lemma go_slice_from_some : forall {A} (l : list A) lo,
  0 <= lo <= zlen l -> exists s, go_slice_from l lo = Some s.
Proof. intros. unfold go_slice_from. apply go_slice_some; unfold zlen in *; lia. Qed.

Lemma go_slice_from_length : forall {A} (l s : list A) k,
  go_slice_from l (Z.of_nat k) = Some s -> (length s = length l - k)%nat.
Proof.
  intros A l s k. unfold go_slice_from, go_slice.
  destruct ((0 <=? Z.of_nat k) && (Z.of_nat k <=? Z.of_nat (length l)) && (Z.of_nat (length l) <=? Z.of_nat (length l))) eqn:E;
    [|discriminate].
  intros H. injection H as <-.
  apply andb_prop in E as [E _]. apply andb_prop in E as [_ E]. apply Z.leb_le in E.
  rewrite Nat2Z.id, firstn_length, skipn_length. lia.
Qed.

(* ------------------------------------------------------------------------------------------------ *)
(* the continuation combinators *)

Section WithExt.

Variable wclass : N -> N.
Variable regex_submatch : text -> text -> option (list text).
Variable ext_call : N -> list value -> res.

Lemma with_arg_ok : forall args k f,
  (k < length args)%nat -> (forall v, f v <> Panic) -> with_arg args k f <> Panic.
Proof.
  intros args k f Hk Hf. unfold with_arg.
  destruct (nth_error args k) eqn:E; [apply Hf|]. apply nth_error_None in E. lia.
Qed.

Lemma with_rest_ok : forall args k f,
  (k <= length args)%nat -> (forall r, (length r = length args - k)%nat -> f r <> Panic) ->
  with_rest args k f <> Panic.
Proof.
  intros args k f Hk Hf. unfold with_rest.
  destruct (go_slice_from args (Z.of_nat k)) eqn:E.
  - apply Hf. eapply go_slice_from_length; eauto.
  - destruct (go_slice_from_some args (Z.of_nat k)) as [s Hs]; [unfold zlen; lia|]. congruence.
Qed.

(* which argument counts a wrapper lets through to the body *)
Definition admitted (min : nat) (max : Z) (n : nat) : Prop :=
  (min <= n)%nat /\ (max < 0 \/ Z.of_nat n <= max).

Lemma min_max_args_ok : forall min max f,
  (forall args, admitted min max (length args) -> f args <> Panic) ->
  forall args, min_max_args min max f args <> Panic.
Proof.
  intros min max f Hf args. unfold min_max_args.
  destruct (Z.of_nat min =? max) eqn:E1.
  - apply Z.eqb_eq in E1. destruct (Nat.eqb (length args) min) eqn:E2; simpl; [|discriminate].
    apply Nat.eqb_eq in E2. apply Hf. unfold admitted. lia.
  - destruct (max <? 0) eqn:E2.
    + apply Z.ltb_lt in E2. destruct (Nat.ltb (length args) min) eqn:E3; [discriminate|].
      apply Nat.ltb_ge in E3. apply Hf. unfold admitted. lia.
    + apply Z.ltb_ge in E2.
      destruct (Nat.ltb (length args) min) eqn:E3; simpl; [discriminate|].
      destruct (max <? Z.of_nat (length args)) eqn:E4; [discriminate|].
      apply Nat.ltb_ge in E3. apply Z.ltb_ge in E4. apply Hf. unfold admitted. lia.
Qed.

(* rejected argument counts give an error VALUE (the error branch, explicitly) *)
Lemma min_max_args_rejects : forall min max f args,
  ~ admitted min max (length args) -> min_max_args min max f args = Ret VErr.
Proof.
  intros min max f args H. unfold min_max_args, admitted in *.
  destruct (Z.of_nat min =? max) eqn:E1.
  - apply Z.eqb_eq in E1. destruct (Nat.eqb (length args) min) eqn:E2; simpl; [|reflexivity].
    apply Nat.eqb_eq in E2. exfalso. apply H. lia.
  - apply Z.eqb_neq in E1. destruct (max <? 0) eqn:E2.
    + apply Z.ltb_lt in E2. destruct (Nat.ltb (length args) min) eqn:E3; [reflexivity|].
      apply Nat.ltb_ge in E3. exfalso. apply H. lia.
    + apply Z.ltb_ge in E2.
      destruct (Nat.ltb (length args) min) eqn:E3; simpl; [reflexivity|].
      destruct (max <? Z.of_nat (length args)) eqn:E4; [reflexivity|].
      apply Nat.ltb_ge in E3. apply Z.ltb_ge in E4. exfalso. apply H. lia.
Qed.

Ltac conv_cases :=
  repeat match goal with
  | |- Ret _ <> Panic => discriminate
  | |- (match ?c with Ok _ => _ | Bad => _ end) <> Panic => destruct c
  | |- (if ?b then _ else _) <> Panic => destruct b eqn:?
  end.

Lemma num_args_ok : forall n f,
  (forall args, length args = n -> f args <> Panic) -> forall args, num_args n f args <> Panic.
Proof.
  intros n f Hf. apply min_max_args_ok. intros args [H1 [H2|H2]]; apply Hf; lia.
Qed.

Lemma initial_text_function_ok : forall mn mx f,
  (forall t r, (mn <= length r <= mx)%nat -> f t r <> Panic) ->
  forall args, initial_text_function mn mx f args <> Panic.
Proof.
  intros mn mx f Hf. apply min_max_args_ok. intros args [H1 [H2|H2]]; [lia|].
  apply with_arg_ok; [lia|]. intros v. destruct (to_text v); [|discriminate].
  apply with_rest_ok; [lia|]. intros r Hr. apply Hf. lia.
Qed.

Lemma one_number_function_ok : forall f,
  (forall d, f d <> Panic) -> forall args, one_number_function f args <> Panic.
Proof.
  intros f Hf. apply num_args_ok. intros args Hl.
  apply with_arg_ok; [lia|]. intros v. destruct (to_number v); [apply Hf|discriminate].
Qed.

Lemma text_and_integer_function_ok : forall f,
  (forall t n, f t n <> Panic) -> forall args, text_and_integer_function f args <> Panic.
Proof.
  intros f Hf. apply num_args_ok. intros args Hl.
  apply with_arg_ok; [lia|]. intros v. destruct (to_text v); [|discriminate].
  apply with_arg_ok; [lia|]. intros v'. destruct (to_integer v'); [apply Hf|discriminate].
Qed.

Lemma one_number_and_optional_integer_function_ok : forall f dflt,
  (forall d n, f d n <> Panic) -> forall args, one_number_and_optional_integer_function f dflt args <> Panic.
Proof.
  intros f dflt Hf. apply min_max_args_ok. intros args [H1 [H2|H2]]; [lia|].
  apply with_arg_ok; [lia|]. intros v. destruct (to_number v); [|discriminate].
  destruct (Nat.eqb (length args) 2) eqn:E; [|apply Hf].
  apply Nat.eqb_eq in E. apply with_arg_ok; [lia|]. intros v'. destruct (to_integer v'); [apply Hf|discriminate].
Qed.

Lemma three_integer_function_ok : forall f,
  (forall a b c, f a b c <> Panic) -> forall args, three_integer_function f args <> Panic.
Proof.
  intros f Hf. apply num_args_ok. intros args Hl.
  apply with_arg_ok; [lia|]. intros v0. destruct (to_integer v0); [|discriminate].
  apply with_arg_ok; [lia|]. intros v1. destruct (to_integer v1); [|discriminate].
  apply with_arg_ok; [lia|]. intros v2. destruct (to_integer v2); [apply Hf|discriminate].
Qed.

(* a guarded index *)
Lemma guarded_index : forall {A} (l : list A) i (k : A -> res),
  0 <= i < zlen l -> (forall x, k x <> Panic) ->
  match go_index l i with Some w => k w | None => Panic end <> Panic.
Proof. intros A l i k H Hk. destruct (go_index_some l i H) as [x ->]. apply Hk. Qed.

(* ------------------------------------------------------------------------------------------------ *)
(* the bodies *)

Lemma word_body_ok : forall t r, (1 <= length r <= 2)%nat -> word_body wclass t r <> Panic.
Proof.
  intros t r Hr. unfold word_body.
  apply with_arg_ok; [lia|]. intros a0. destruct (to_integer a0) as [index|]; [|discriminate].
  assert (Hc : forall delims,
    (let words := extract_words wclass t delims in
     let offset := if index <? 0 then index + zlen words else index in
     if negb ((0 <=? offset) && (offset <? zlen words)) then Ret VErr
     else match go_index words offset with Some w => Ret (VText w) | None => Panic end) <> Panic).
  { intros delims. cbv zeta.
    destruct (negb _) eqn:E; [discriminate|]. apply negb_false_iff in E.
    apply andb_prop in E as [E1 E2]. apply Z.leb_le in E1. apply Z.ltb_lt in E2.
    apply guarded_index; [lia|]. discriminate. }
  destruct (Nat.eqb (length r) 2) eqn:E2.
  - apply Nat.eqb_eq in E2. apply with_arg_ok; [lia|]. intros a1.
    destruct (is_nil a1); [apply Hc|]. destruct (to_text a1); [apply Hc|discriminate].
  - apply Hc.
Qed.

Lemma word_slice_body_ok : forall t r, (1 <= length r <= 3)%nat -> word_slice_body wclass t r <> Panic.
Proof.
  intros t r Hr. unfold word_slice_body.
  apply with_arg_ok; [lia|]. intros a0. destruct (to_integer a0) as [start|]; [|discriminate].
  destruct (start <? 0) eqn:Es; [discriminate|]. apply Z.ltb_ge in Es.
  assert (H2 : forall end_ delims, (0 <? end_) && (end_ <=? start) = false ->
    (let words := extract_words wclass t delims in
     if zlen words <=? start then Ret (VText []) else
     let end_ := if zlen words <=? end_ then zlen words else end_ in
     if 0 <? end_ then
       match go_slice words start end_ with Some ws => Ret (VText (join_sp ws)) | None => Panic end
     else
       match go_slice_from words start with Some ws => Ret (VText (join_sp ws)) | None => Panic end) <> Panic).
  { intros end_ delims Hg. cbv zeta.
    destruct (zlen _ <=? start) eqn:E1; [discriminate|]. apply Z.leb_gt in E1.
    set (words := extract_words wclass t delims) in *.
    destruct (zlen words <=? end_) eqn:E2.
    - apply Z.leb_le in E2. destruct (0 <? zlen words) eqn:E3.
      + destruct (go_slice_some words start (zlen words)) as [s ->]; [lia|lia|discriminate].
      + destruct (go_slice_from_some words start) as [s ->]; [lia|discriminate].
    - apply Z.leb_gt in E2. destruct (0 <? end_) eqn:E3.
      + apply Z.ltb_lt in E3. simpl in Hg. rewrite E3 in Hg. simpl in Hg. apply Z.leb_gt in Hg.
        destruct (go_slice_some words start end_) as [s ->]; [lia|lia|discriminate].
      + destruct (go_slice_from_some words start) as [s ->]; [lia|discriminate]. }
  assert (H1 : forall end_,
    (if (0 <? end_) && (end_ <=? start) then Ret VErr else
     if Nat.leb 3 (length r) then
       with_arg r 2 (fun a2 => if is_nil a2 then
           (fun (end_ : Z) (delims : text) =>
             let words := extract_words wclass t delims in
             if zlen words <=? start then Ret (VText []) else
             let end_ := if zlen words <=? end_ then zlen words else end_ in
             if 0 <? end_ then
               match go_slice words start end_ with Some ws => Ret (VText (join_sp ws)) | None => Panic end
             else
               match go_slice_from words start with Some ws => Ret (VText (join_sp ws)) | None => Panic end) end_ []
         else match to_text a2 with
              | Ok d => (fun (end_ : Z) (delims : text) =>
                 let words := extract_words wclass t delims in
                 if zlen words <=? start then Ret (VText []) else
                 let end_ := if zlen words <=? end_ then zlen words else end_ in
                 if 0 <? end_ then
                   match go_slice words start end_ with Some ws => Ret (VText (join_sp ws)) | None => Panic end
                 else
                   match go_slice_from words start with Some ws => Ret (VText (join_sp ws)) | None => Panic end) end_ d
              | Bad => Ret VErr
              end)
     else (fun (end_ : Z) (delims : text) =>
             let words := extract_words wclass t delims in
             if zlen words <=? start then Ret (VText []) else
             let end_ := if zlen words <=? end_ then zlen words else end_ in
             if 0 <? end_ then
               match go_slice words start end_ with Some ws => Ret (VText (join_sp ws)) | None => Panic end
             else
               match go_slice_from words start with Some ws => Ret (VText (join_sp ws)) | None => Panic end) end_ []) <> Panic).
  { intros end_. destruct ((0 <? end_) && (end_ <=? start)) eqn:Hg; [discriminate|].
    destruct (Nat.leb 3 (length r)) eqn:E3.
    - apply Nat.leb_le in E3. apply with_arg_ok; [lia|]. intros a2.
      destruct (is_nil a2); [apply (H2 end_ [] Hg)|].
      destruct (to_text a2) as [d|]; [apply (H2 end_ d Hg)|discriminate].
    - apply (H2 end_ [] Hg). }
  destruct (Nat.leb 2 (length r)) eqn:E2.
  - apply Nat.leb_le in E2. apply with_arg_ok; [lia|]. intros a1.
    destruct (to_integer a1) as [e|]; [apply H1|discriminate].
  - apply H1.
Qed.

End WithExt.
