(* ExEvalProofs.v — C04: the guards of the modelled builtins keep every partial primitive inside its domain.
   Model: model/ExValues.v, model/ExEval.v.  Statements are re-exported by props/C04.v. *)
From Coq Require Import ZArith NArith List Bool Lia.
From Verif Require Import lib.Dec model.NumText model.ExValues model.ExEval.
Import ListNotations.

Local Open Scope Z_scope.

(* ------------------------------------------------------------------------------------------------ *)
(* partial primitives: where they are defined *)

Lemma go_index_some : forall {A} (l : list A) i,
  0 <= i < zlen l -> exists x, go_index l i = Some x.
Proof.
  intros A l i [H0 H1]. unfold go_index, zlen in *.
  destruct (i <? 0) eqn:E; [apply Z.ltb_lt in E; lia|].
  destruct (nth_error l (Z.to_nat i)) eqn:En; [eauto|].
  apply nth_error_None in En. lia.
Qed.

Lemma go_slice_some : forall {A} (l : list A) lo hi,
  0 <= lo <= hi -> hi <= zlen l -> exists s, go_slice l lo hi = Some s.
Proof.
  intros A l lo hi [H0 H1] H2. unfold go_slice, zlen in *.
  replace (0 <=? lo) with true by (symmetry; apply Z.leb_le; lia).
  replace (lo <=? hi) with true by (symmetry; apply Z.leb_le; lia).
  replace (hi <=? Z.of_nat (length l)) with true by (symmetry; apply Z.leb_le; lia).
  simpl. eauto.
Qed.

Lemma go_slice_from_some : forall {A} (l : list A) lo,
  0 <= lo <= zlen l -> exists s, go_slice_from l lo = Some s.
Proof. intros. unfold go_slice_from. apply go_slice_some; unfold zlen in *; lia. Qed.

Lemma go_slice_from_length : forall {A} (l s : list A) k,
  go_slice_from l (Z.of_nat k) = Some s -> (length s = length l - k)%nat.
Proof.
  intros A l s k. unfold go_slice_from, go_slice.
  destruct ((0 <=? Z.of_nat k) && (Z.of_nat k <=? Z.of_nat (length l)) && (Z.of_nat (length l) <=? Z.of_nat (length l))) eqn:E;
    [|discriminate].
  intros H. injection H as <-.
  apply andb_prop in E as [E _]. apply andb_prop in E as [_ E]. apply Z.leb_le in E.
  rewrite Nat2Z.id, firstn_length, skipn_length. lia.
Qed.

(* ------------------------------------------------------------------------------------------------ *)
(* what a result may be: [ok false r] = r is a value: no panic at all, and the model's fuel did not run out;
   [ok true r] = the same except that the decimal library's exponent-overflow panic is allowed *)

Definition ok (allow_exp : bool) (r : res) : Prop :=
  match r with
  | Ret _ => True
  | Panic PExponent => allow_exp = true
  | Panic _ => False
  | NoFuel => False
  end.

Lemma ok_false_iff : forall r, ok false r <-> (r <> NoFuel /\ forall c, r <> Panic c).
Proof.
  intros r; split.
  - intros H. split; [intros E; subst r; exact H|].
    intros c E. subst r. destruct c; simpl in H; try contradiction; discriminate.
  - intros [H0 H]. destruct r as [v|c|]; simpl; auto. destruct c; try (exfalso; eapply H; reflexivity).
Qed.

Lemma ok_true_iff : forall r, ok true r <-> (r <> NoFuel /\ forall c, r = Panic c -> c = PExponent).
Proof.
  intros r; split.
  - intros H. split; [intros E; subst r; exact H|].
    intros c E. subst r. destruct c; simpl in H; try contradiction; reflexivity.
  - intros [H0 H]. destruct r as [v|c|]; simpl; auto. destruct c; auto; specialize (H _ eq_refl); discriminate.
Qed.

Lemma ok_weaken : forall b r, ok false r -> ok b r.
Proof. intros b [v|[]|]; simpl; auto; discriminate. Qed.

(* ------------------------------------------------------------------------------------------------ *)
(* the continuation combinators *)

Section WithExt.

Variable wclass : N -> N.
Variable regex_submatch : text -> text -> option (list text).
Variable ext_call : N -> list value -> res.
Variable b : bool.

Lemma with_arg_ok : forall args k f,
  (k < length args)%nat -> (forall v, ok b (f v)) -> ok b (with_arg args k f).
Proof.
  intros args k f Hk Hf. unfold with_arg.
  destruct (nth_error args k) eqn:E; [apply Hf|]. apply nth_error_None in E. lia.
Qed.

Lemma with_rest_ok : forall args k f,
  (k <= length args)%nat -> (forall r, (length r = length args - k)%nat -> ok b (f r)) ->
  ok b (with_rest args k f).
Proof.
  intros args k f Hk Hf. unfold with_rest.
  destruct (go_slice_from args (Z.of_nat k)) eqn:E.
  - apply Hf. eapply go_slice_from_length; eauto.
  - destruct (go_slice_from_some args (Z.of_nat k)) as [s Hs]; [unfold zlen; lia|]. congruence.
Qed.

(* which argument counts a wrapper lets through to the body *)
Definition admitted (min : nat) (max : Z) (n : nat) : Prop :=
  (min <= n)%nat /\ (max < 0 \/ Z.of_nat n <= max).

Lemma min_max_args_ok : forall min max f,
  (forall args, admitted min max (length args) -> ok b (f args)) ->
  forall args, ok b (min_max_args min max f args).
Proof.
  intros min max f Hf args. unfold min_max_args.
  destruct (Z.of_nat min =? max) eqn:E1.
  - apply Z.eqb_eq in E1. destruct (Nat.eqb (length args) min) eqn:E2; simpl; [|exact I].
    apply Nat.eqb_eq in E2. apply Hf. unfold admitted. lia.
  - destruct (max <? 0) eqn:E2.
    + apply Z.ltb_lt in E2. destruct (Nat.ltb (length args) min) eqn:E3; [exact I|].
      apply Nat.ltb_ge in E3. apply Hf. unfold admitted. lia.
    + apply Z.ltb_ge in E2.
      destruct (Nat.ltb (length args) min) eqn:E3; simpl; [exact I|].
      destruct (max <? Z.of_nat (length args)) eqn:E4; [exact I|].
      apply Nat.ltb_ge in E3. apply Z.ltb_ge in E4. apply Hf. unfold admitted. lia.
Qed.

Lemma min_max_args_ok_at : forall min max f args,
  (admitted min max (length args) -> ok b (f args)) -> ok b (min_max_args min max f args).
Proof.
  intros min max f args Hf. unfold min_max_args.
  destruct (Z.of_nat min =? max) eqn:E1.
  - apply Z.eqb_eq in E1. destruct (Nat.eqb (length args) min) eqn:E2; simpl; [|exact I].
    apply Nat.eqb_eq in E2. apply Hf. unfold admitted. lia.
  - destruct (max <? 0) eqn:E2.
    + apply Z.ltb_lt in E2. destruct (Nat.ltb (length args) min) eqn:E3; [exact I|].
      apply Nat.ltb_ge in E3. apply Hf. unfold admitted. lia.
    + apply Z.ltb_ge in E2.
      destruct (Nat.ltb (length args) min) eqn:E3; simpl; [exact I|].
      destruct (max <? Z.of_nat (length args)) eqn:E4; [exact I|].
      apply Nat.ltb_ge in E3. apply Z.ltb_ge in E4. apply Hf. unfold admitted. lia.
Qed.

(* rejected argument counts give an error VALUE (the error branch, explicitly) *)
Lemma min_max_args_rejects : forall min max f args,
  ~ admitted min max (length args) -> min_max_args min max f args = Ret VErr.
Proof.
  intros min max f args H. unfold min_max_args, admitted in *.
  destruct (Z.of_nat min =? max) eqn:E1.
  - apply Z.eqb_eq in E1. destruct (Nat.eqb (length args) min) eqn:E2; simpl; [|reflexivity].
    apply Nat.eqb_eq in E2. exfalso. apply H. lia.
  - apply Z.eqb_neq in E1. destruct (max <? 0) eqn:E2.
    + apply Z.ltb_lt in E2. destruct (Nat.ltb (length args) min) eqn:E3; [reflexivity|].
      apply Nat.ltb_ge in E3. exfalso. apply H. lia.
    + apply Z.ltb_ge in E2.
      destruct (Nat.ltb (length args) min) eqn:E3; simpl; [reflexivity|].
      destruct (max <? Z.of_nat (length args)) eqn:E4; [reflexivity|].
      apply Nat.ltb_ge in E3. apply Z.ltb_ge in E4. exfalso. apply H. lia.
Qed.

Lemma num_args_ok : forall n f,
  (forall args, length args = n -> ok b (f args)) -> forall args, ok b (num_args n f args).
Proof.
  intros n f Hf. apply min_max_args_ok. intros args [H1 [H2|H2]]; apply Hf; lia.
Qed.

Lemma initial_text_function_ok : forall mn mx f,
  (forall t r, (mn <= length r <= mx)%nat -> ok b (f t r)) ->
  forall args, ok b (initial_text_function mn mx f args).
Proof.
  intros mn mx f Hf. apply min_max_args_ok. intros args [H1 [H2|H2]]; [lia|].
  apply with_arg_ok; [lia|]. intros v. destruct (to_text v); [|exact I].
  apply with_rest_ok; [lia|]. intros r Hr. apply Hf. lia.
Qed.

Lemma one_arg_function_ok : forall f,
  (forall v, ok b (f v)) -> forall args, ok b (one_arg_function f args).
Proof. intros f Hf. apply num_args_ok. intros args Hl. apply with_arg_ok; [lia|]. apply Hf. Qed.

Lemma two_arg_function_ok : forall f,
  (forall x y, ok b (f x y)) -> forall args, ok b (two_arg_function f args).
Proof.
  intros f Hf. apply num_args_ok. intros args Hl.
  apply with_arg_ok; [lia|]. intros v0. apply with_arg_ok; [lia|]. intros v1. apply Hf.
Qed.

Lemma three_arg_function_ok : forall f,
  (forall x y z, ok b (f x y z)) -> forall args, ok b (three_arg_function f args).
Proof.
  intros f Hf. apply num_args_ok. intros args Hl.
  apply with_arg_ok; [lia|]. intros v0. apply with_arg_ok; [lia|]. intros v1.
  apply with_arg_ok; [lia|]. intros v2. apply Hf.
Qed.

Lemma one_text_function_ok : forall f,
  (forall t, ok b (f t)) -> forall args, ok b (one_text_function f args).
Proof.
  intros f Hf. apply num_args_ok. intros args Hl.
  apply with_arg_ok; [lia|]. intros v. destruct (to_text v); [apply Hf|exact I].
Qed.

Lemma two_text_function_ok : forall f,
  (forall x y, ok b (f x y)) -> forall args, ok b (two_text_function f args).
Proof.
  intros f Hf. apply num_args_ok. intros args Hl.
  apply with_arg_ok; [lia|]. intros v. destruct (to_text v); [|exact I].
  apply with_arg_ok; [lia|]. intros v'. destruct (to_text v'); [apply Hf|exact I].
Qed.

Lemma one_array_function_ok : forall f,
  (forall items, ok b (f items)) -> forall args, ok b (one_array_function f args).
Proof.
  intros f Hf. apply num_args_ok. intros args Hl.
  apply with_arg_ok; [lia|]. intros v. destruct (to_array v); [apply Hf|exact I].
Qed.

Lemma two_array_function_ok : forall f,
  (forall x y, ok b (f x y)) -> forall args, ok b (two_array_function f args).
Proof.
  intros f Hf. apply num_args_ok. intros args Hl.
  apply with_arg_ok; [lia|]. intros v. destruct (to_array v); [|exact I].
  apply with_arg_ok; [lia|]. intros v'. destruct (to_array v'); [apply Hf|exact I].
Qed.

Lemma and_fn_ok : forall vs, ok b (and_fn vs).
Proof. induction vs as [|v r IH]; simpl; [exact I|]. destruct (to_bool v) as [[]|]; [apply IH|exact I|exact I]. Qed.

Lemma or_fn_ok : forall vs, ok b (or_fn vs).
Proof. induction vs as [|v r IH]; simpl; [exact I|]. destruct (to_bool v) as [[]|]; [exact I|apply IH|exact I]. Qed.

Lemma one_number_function_ok : forall f,
  (forall d, ok b (f d)) -> forall args, ok b (one_number_function f args).
Proof.
  intros f Hf. apply num_args_ok. intros args Hl.
  apply with_arg_ok; [lia|]. intros v. destruct (to_number v); [apply Hf|exact I].
Qed.

Lemma two_number_function_ok : forall f,
  (forall x y, ok b (f x y)) -> forall args, ok b (two_number_function f args).
Proof.
  intros f Hf. apply num_args_ok. intros args Hl.
  apply with_arg_ok; [lia|]. intros v. destruct (to_number v); [|exact I].
  apply with_arg_ok; [lia|]. intros v'. destruct (to_number v'); [apply Hf|exact I].
Qed.

Lemma text_and_integer_function_ok : forall f,
  (forall t n, ok b (f t n)) -> forall args, ok b (text_and_integer_function f args).
Proof.
  intros f Hf. apply num_args_ok. intros args Hl.
  apply with_arg_ok; [lia|]. intros v. destruct (to_text v); [|exact I].
  apply with_arg_ok; [lia|]. intros v'. destruct (to_integer v'); [apply Hf|exact I].
Qed.

Lemma one_number_and_optional_integer_function_ok : forall f dflt,
  (forall d n, ok b (f d n)) -> forall args, ok b (one_number_and_optional_integer_function f dflt args).
Proof.
  intros f dflt Hf. apply min_max_args_ok. intros args [H1 [H2|H2]]; [lia|].
  apply with_arg_ok; [lia|]. intros v. destruct (to_number v); [|exact I].
  destruct (Nat.eqb (length args) 2) eqn:E; [|apply Hf].
  apply Nat.eqb_eq in E. apply with_arg_ok; [lia|]. intros v'. destruct (to_integer v'); [apply Hf|exact I].
Qed.

Lemma three_integer_function_ok : forall f,
  (forall x y z, ok b (f x y z)) -> forall args, ok b (three_integer_function f args).
Proof.
  intros f Hf. apply num_args_ok. intros args Hl.
  apply with_arg_ok; [lia|]. intros v0. destruct (to_integer v0); [|exact I].
  apply with_arg_ok; [lia|]. intros v1. destruct (to_integer v1); [|exact I].
  apply with_arg_ok; [lia|]. intros v2. destruct (to_integer v2); [apply Hf|exact I].
Qed.

(* a guarded index *)
Lemma guarded_index : forall {A} (l : list A) i (k : A -> res),
  0 <= i < zlen l -> (forall x, ok b (k x)) ->
  ok b (match go_index l i with Some w => k w | None => Panic PBounds end).
Proof. intros A l i k H Hk. destruct (go_index_some l i H) as [x ->]. apply Hk. Qed.

(* ------------------------------------------------------------------------------------------------ *)
(* the bodies *)

Lemma word_finish_ok : forall t index delims, ok b (word_finish wclass t index delims).
Proof.
  intros t index delims. unfold word_finish. cbv zeta.
  destruct (negb _) eqn:E; [exact I|]. apply negb_false_iff in E.
  apply andb_prop in E as [E1 E2]. apply Z.leb_le in E1. apply Z.ltb_lt in E2.
  apply guarded_index; [lia|]. intros; exact I.
Qed.

Lemma word_body_ok : forall t r, (1 <= length r <= 2)%nat -> ok b (word_body wclass t r).
Proof.
  intros t r Hr. unfold word_body.
  apply with_arg_ok; [lia|]. intros va0. destruct (to_integer va0) as [index|]; [|exact I].
  destruct (Nat.eqb (length r) 2) eqn:E2; [|apply word_finish_ok].
  apply Nat.eqb_eq in E2. apply with_arg_ok; [lia|]. intros va1.
  destruct (is_nil va1); [apply word_finish_ok|]. destruct (to_text va1); [apply word_finish_ok|exact I].
Qed.

Lemma word_slice_finish_ok : forall t start end_ delims,
  0 <= start -> (0 <? end_) && (end_ <=? start) = false ->
  ok b (word_slice_finish wclass t start end_ delims).
Proof.
  intros t start end_ delims Es Hg. unfold word_slice_finish. cbv zeta.
  set (words := extract_words wclass t delims).
  destruct (zlen words <=? start) eqn:E1; [exact I|]. apply Z.leb_gt in E1.
  destruct (zlen words <=? end_) eqn:E2.
  - apply Z.leb_le in E2. destruct (0 <? zlen words) eqn:E3.
    + destruct (go_slice_some words start (zlen words)) as [s ->]; [lia|lia|exact I].
    + destruct (go_slice_from_some words start) as [s ->]; [lia|exact I].
  - apply Z.leb_gt in E2. destruct (0 <? end_) eqn:E3.
    + simpl in Hg. apply Z.leb_gt in Hg. apply Z.ltb_lt in E3.
      destruct (go_slice_some words start end_) as [s ->]; [lia|lia|exact I].
    + destruct (go_slice_from_some words start) as [s ->]; [lia|exact I].
Qed.

Lemma word_slice_after_end_ok : forall t r start end_,
  0 <= start -> ok b (word_slice_after_end wclass t r start end_).
Proof.
  intros t r start end_ Es. unfold word_slice_after_end.
  destruct ((0 <? end_) && (end_ <=? start)) eqn:Hg; [exact I|].
  destruct (Nat.leb 3 (length r)) eqn:E3; [|apply word_slice_finish_ok; assumption].
  apply Nat.leb_le in E3. apply with_arg_ok; [lia|]. intros va2.
  destruct (is_nil va2); [apply word_slice_finish_ok; assumption|].
  destruct (to_text va2) as [d|]; [apply word_slice_finish_ok; assumption|exact I].
Qed.

Lemma word_slice_body_ok : forall t r, (1 <= length r <= 3)%nat -> ok b (word_slice_body wclass t r).
Proof.
  intros t r Hr. unfold word_slice_body.
  apply with_arg_ok; [lia|]. intros va0. destruct (to_integer va0) as [start|]; [|exact I].
  destruct (start <? 0) eqn:Es; [exact I|]. apply Z.ltb_ge in Es.
  destruct (Nat.leb 2 (length r)) eqn:E2; [|apply word_slice_after_end_ok; assumption].
  apply Nat.leb_le in E2. apply with_arg_ok; [lia|]. intros va1.
  destruct (to_integer va1) as [e|]; [apply word_slice_after_end_ok; assumption|exact I].
Qed.

Lemma field_body_ok : forall t r, length r = 2%nat -> ok b (field_body t r).
Proof.
  intros t r Hr. unfold field_body.
  apply with_arg_ok; [lia|]. intros va0. destruct (to_integer va0) as [field|]; [|exact I].
  destruct (field <? 0) eqn:Ef; [exact I|]. apply Z.ltb_ge in Ef.
  apply with_arg_ok; [lia|]. intros va1. destruct (to_text va1) as [sep|]; [|exact I].
  cbv zeta.
  match goal with |- ok b (if zlen ?l <=? field then _ else _) => set (fields := l) end.
  destruct (zlen fields <=? field) eqn:E; [exact I|]. apply Z.leb_gt in E.
  apply guarded_index; [lia|]. intros; exact I.
Qed.

Lemma text_slice_body_ok : forall t r, (1 <= length r <= 3)%nat -> ok b (text_slice_body t r).
Proof.
  intros t r Hr. unfold text_slice_body. cbv zeta.
  apply with_arg_ok; [lia|]. intros va0. destruct (to_integer va0) as [start|]; [|exact I].
  destruct (Nat.eqb (length r) 2) eqn:E2; [|exact I].
  apply Nat.eqb_eq in E2. apply with_arg_ok; [lia|]. intros va1.
  destruct (to_integer va1); exact I.
Qed.

Lemma char_body_ok : forall d, ok b (char_body d).
Proof. intros d. unfold char_body. destruct (to_integer (VNum d)); exact I. Qed.

Lemma repeat_body_ok : forall t n, ok b (repeat_body t n).
Proof.
  intros t n. unfold repeat_body. destruct (n <? 0); [exact I|]. destruct t; [exact I|].
  destruct (max_repeat_length <? _); exact I.
Qed.

Lemma limited_text_ok : forall t, ok b (limited_text t).
Proof. intros t. unfold limited_text. destruct (max_text_length <? byte_len t)%Z; exact I. Qed.

Lemma replace_body_ok : forall args, (3 <= length args <= 4)%nat -> ok b (replace_body args).
Proof.
  intros args H. unfold replace_body.
  apply with_arg_ok; [lia|]. intros va0. destruct (to_text va0); [|exact I].
  apply with_arg_ok; [lia|]. intros va1. destruct (to_text va1); [|exact I].
  apply with_arg_ok; [lia|]. intros va2. destruct (to_text va2); [|exact I].
  destruct (Nat.eqb (length args) 4) eqn:E; [|apply limited_text_ok].
  apply Nat.eqb_eq in E. apply with_arg_ok; [lia|]. intros va3. destruct (to_integer va3); [apply limited_text_ok|exact I].
Qed.

Lemma round_body_ok : forall d n, ok b (round_body d n).
Proof. intros. unfold round_body. destruct (bad_places n); exact I. Qed.
Lemma round_up_body_ok : forall d n, ok b (round_up_body d n).
Proof. intros. unfold round_up_body. destruct (bad_places n); [exact I|]. destruct (dec_eqb _ _); exact I. Qed.
Lemma round_down_body_ok : forall d n, ok b (round_down_body d n).
Proof. intros. unfold round_down_body. destruct (bad_places n); [exact I|]. destruct (dec_eqb _ _); exact I. Qed.

Lemma format_number_body_ok : forall args, (1 <= length args <= 3)%nat -> ok b (format_number_body args).
Proof.
  intros args H. unfold format_number_body.
  assert (Hf : forall num places, ok b (format_number_finish args num places)).
  { intros num places. unfold format_number_finish. destruct (Nat.ltb 2 (length args)) eqn:E; [|exact I].
    apply Nat.ltb_lt in E. apply with_arg_ok; [lia|]. intros va2. destruct (to_bool va2); exact I. }
  apply with_arg_ok; [lia|]. intros va0. destruct (to_number va0) as [num|]; [|exact I].
  destruct (Nat.ltb 1 (length args)) eqn:E; [|apply Hf].
  apply Nat.ltb_lt in E. apply with_arg_ok; [lia|]. intros va1. destruct (to_integer va1) as [places|]; [|exact I].
  destruct ((places <? 0) || (9 <? places)); [exact I|apply Hf].
Qed.

Lemma date_from_parts_body_ok : forall x y z, ok b (date_from_parts_body x y z).
Proof. intros. unfold date_from_parts_body. repeat (destruct (_ || _); [exact I|]). exact I. Qed.

Lemma time_from_parts_body_ok : forall x y z, ok b (time_from_parts_body x y z).
Proof. intros. unfold time_from_parts_body. repeat (destruct (_ || _); [exact I|]). exact I. Qed.

Lemma datetime_add_fn_ok : forall args, ok b (datetime_add_fn args).
Proof.
  intros args. unfold datetime_add_fn. destruct (Nat.eqb (length args) 3) eqn:E; simpl; [|exact I].
  apply Nat.eqb_eq in E.
  apply with_arg_ok; [lia|]. intros va0. destruct (to_datetime va0); [|exact I].
  apply with_arg_ok; [lia|]. intros va1. destruct (to_integer va1); [|exact I].
  apply with_arg_ok; [lia|]. intros va2. destruct (to_text va2) as [u|]; [|exact I].
  destruct u as [|c [|c' u]]; try exact I.
  match goal with |- ok b (if ?x then _ else _) => destruct x end; exact I.
Qed.

Lemma array_fn_ok : forall args, ok b (array_fn args).
Proof. intros. unfold array_fn. destruct (find is_err args); exact I. Qed.

Lemma regex_match_body_ok : forall t r, (1 <= length r <= 2)%nat -> ok b (regex_match_body regex_submatch t r).
Proof.
  intros t r Hr. unfold regex_match_body.
  assert (Hf : forall pattern g, ok b (regex_match_finish regex_submatch t pattern g)).
  { intros pattern g. unfold regex_match_finish. destruct (regex_submatch pattern t) as [groups|]; [|exact I].
    destruct ((g <? 0) || (zlen groups <=? g)) eqn:E; [exact I|].
    apply orb_false_iff in E as [E1 E2]. apply Z.ltb_ge in E1. apply Z.leb_gt in E2.
    apply guarded_index; [lia|]. intros; exact I. }
  apply with_arg_ok; [lia|]. intros va0. destruct (to_text va0) as [pattern|]; [|exact I].
  destruct (Nat.eqb (length r) 2) eqn:E; [|apply Hf].
  apply Nat.eqb_eq in E. apply with_arg_ok; [lia|]. intros va1. destruct (to_integer va1); [apply Hf|exact I].
Qed.

Lemma extract_object_body_ok : forall args, (2 <= length args)%nat -> ok b (extract_object_body args).
Proof.
  intros args H. unfold extract_object_body.
  apply with_arg_ok; [lia|]. intros va0. destruct (to_object va0); [|exact I].
  apply with_rest_ok; [lia|]. intros r _. destruct (texts_of r); exact I.
Qed.

Lemma fold_extreme_ok : forall pick vs cur, ok b (fold_extreme pick vs cur).
Proof.
  intros pick vs. induction vs as [|v r IH]; intros cur; simpl; [exact I|].
  destruct (to_number v); [apply IH|exact I].
Qed.

Lemma extreme_body_ok : forall pick args, (1 <= length args)%nat -> ok b (extreme_body pick args).
Proof.
  intros pick args H. unfold extreme_body.
  apply with_arg_ok; [lia|]. intros v0. destruct (to_number v0); [|exact I].
  apply with_rest_ok; [lia|]. intros r _. apply fold_extreme_ok.
Qed.

Lemma has_group_loop_ok : forall fuel items i uuid,
  0 <= i -> (Z.to_nat (zlen items - i) < fuel)%nat -> ok b (has_group_loop fuel items i uuid).
Proof.
  induction fuel as [|fuel IH]; intros items i uuid Hi Hf; [lia|]. simpl.
  destruct (i <? zlen items) eqn:E; simpl; [|exact I]. apply Z.ltb_lt in E.
  destruct (go_index_some items i) as [item ->]; [lia|].
  destruct (to_object item) as [group|]; [|exact I].
  destruct (to_text _) as [u|]; [|exact I].
  destruct (text_eqb u uuid); [exact I|]. apply IH; lia.
Qed.

Lemma has_group_body_ok : forall args, (2 <= length args <= 3)%nat -> ok b (has_group_body args).
Proof.
  intros args H. unfold has_group_body.
  apply with_arg_ok; [lia|]. intros va0. destruct (to_array va0) as [items|]; [|exact I].
  apply with_arg_ok; [lia|]. intros va1. destruct (to_text va1); [|exact I].
  apply has_group_loop_ok; [lia|]. unfold zlen. lia.
Qed.

(* Object: pairs[i+1] is inside because the length is even *)
Lemma object_pairs_ok : forall fuel pairs i acc,
  Nat.even (length pairs) = true -> Nat.even i = true -> (length pairs - i < fuel)%nat ->
  ok b (object_pairs fuel pairs i acc).
Proof.
  induction fuel as [|fuel IH]; intros pairs i acc Hp Hi Hf; [lia|]. simpl.
  destruct (Nat.leb (length pairs) i) eqn:E; [exact I|]. apply Nat.leb_gt in E.
  assert (Hi1 : (i + 1 < length pairs)%nat).
  { destruct (Nat.eq_dec (i + 1) (length pairs)) as [Heq|Hne]; [|lia].
    rewrite <- Heq in Hp. rewrite Nat.add_1_r, Nat.even_succ, <- Nat.negb_even, Hi in Hp. discriminate. }
  apply with_arg_ok; [lia|]. intros key. apply with_arg_ok; [lia|]. intros val.
  destruct (to_text key); [|exact I]. apply IH; [assumption| |lia].
  replace (i + 2)%nat with (S (S i)) by lia. rewrite Nat.even_succ_succ. assumption.
Qed.

Lemma object_fn_ok : forall args, ok b (object_fn args).
Proof.
  intros args. unfold object_fn. destruct (find is_err args); [exact I|].
  destruct (Nat.eqb (Nat.modulo (length args) 2) 0) eqn:E; cbn [negb]; [|exact I].
  apply object_pairs_ok; [|reflexivity|lia].
  apply Nat.eqb_eq in E. apply Nat.even_spec. exists (length args / 2)%nat.
  pose proof (Nat.div_mod (length args) 2). lia.
Qed.

End WithExt.

(* ------------------------------------------------------------------------------------------------ *)
(* the bodies that reach Decimal.Mul / Decimal.QuoRem: the zero-divisor guard is there, the exponent check of
   the library is the one panic left *)

Lemma dec_eqb_zero : forall d, dec_eqb d (Dec 0 0) = true <-> mant d = 0.
Proof.
  intros [m e]. unfold dec_eqb, dec_cmp, rescale_pair. simpl.
  rewrite Z.compare_eq_iff || idtac.
  destruct (Z.compare_spec (m * 10 ^ (e - Z.min e 0)) 0) as [H|H|H]; split; intros H'; try discriminate; try reflexivity.
  - apply Z.mul_eq_0 in H as [H|H]; [assumption|]. pose proof (pow10_pos' (e - Z.min e 0)). lia.
  - subst m. simpl in H. lia.
  - subst m. simpl in H. lia.
Qed.

Lemma dec_quorem_class : forall x y p c, dec_quorem x y p = inl c -> (c = PDivZero /\ mant y = 0) \/ c = PExponent.
Proof.
  intros x y p c. unfold dec_quorem. destruct (mant y =? 0) eqn:E.
  - intros H. injection H as <-. left. split; [reflexivity|apply Z.eqb_eq; assumption].
  - destruct (negb _); [|discriminate]. intros H. injection H as <-. right. reflexivity.
Qed.

Lemma mod_body_ok : forall x y, ok true (mod_body x y).
Proof.
  intros x y. unfold mod_body. destruct (dec_eqb y (Dec 0 0)) eqn:E; [exact I|].
  unfold dec_mod. destruct (dec_quorem x y 0) as [c|[q r]] eqn:Eq; [|exact I].
  apply dec_quorem_class in Eq. destruct Eq as [[Hc Hz]|Hc]; subst c; [|reflexivity].
  apply dec_eqb_zero in Hz. congruence.
Qed.

(* F4a: a zero divisor is an error VALUE *)
Lemma mod_body_zero : forall x y, mant y = 0 -> mod_body x y = Ret VErr.
Proof. intros x y H. unfold mod_body. apply dec_eqb_zero in H. rewrite H. reflexivity. Qed.

Lemma mean_body_ok : forall args, (1 <= length args)%nat -> ok true (mean_body args).
Proof.
  intros args H. unfold mean_body. destruct (sum_numbers args decimal_zero) as [sum|]; [|exact I].
  unfold dec_div, dec_div_round. destruct (dec_quorem sum (dec_of_Z (zlen args)) division_precision) as [c|[q r]] eqn:Eq.
  - apply dec_quorem_class in Eq. destruct Eq as [[Hc Hz]|Hc]; subst c; [|reflexivity].
    simpl in Hz. unfold zlen in Hz. lia.
  - destruct (dec_cmp _ _); exact I.
Qed.

Lemma percent_body_ok : forall d, ok true (percent_body d).
Proof. intros d. unfold percent_body. destruct (dec_mul d (Dec 1 2)); [exact I|reflexivity]. Qed.

(* ------------------------------------------------------------------------------------------------ *)
(* the registry *)

Lemma fname_eq_foreach : forall f, {f = FForEach} + {f <> FForEach}.
Proof. intros f. destruct f; try (right; discriminate); left; reflexivity. Qed.


Section Calls.

Variable wclass : N -> N.
Variable regex_submatch : text -> text -> option (list text).
Variable ext_call : N -> list value -> res.

Notation call_simple := (call_simple wclass regex_submatch ext_call).
Notation call := (call wclass regex_submatch ext_call).
Notation call_function := (call_function wclass regex_submatch ext_call).

(* functions whose model never panics, whatever the arguments *)
Definition exponent_free (f : fname) : bool :=
  match f with
  | FMod | FMean | FPercent | FForEach | FOther _ => false
  | _ => true
  end.

Lemma call_simple_exponent_free : forall f args, exponent_free f = true -> ok false (call_simple f args).
Proof.
  intros f args Hf. destruct f; try discriminate Hf; unfold ExEval.call_simple.
  - apply initial_text_function_ok. intros; apply word_body_ok; assumption.
  - apply initial_text_function_ok. intros; apply word_slice_body_ok; assumption.
  - apply initial_text_function_ok. intros; apply field_body_ok; lia.
  - apply initial_text_function_ok. intros; apply text_slice_body_ok; assumption.
  - apply one_number_function_ok. apply char_body_ok.
  - apply text_and_integer_function_ok. apply repeat_body_ok.
  - apply min_max_args_ok. intros a [H1 [H2|H2]]; [lia|]. apply replace_body_ok; lia.
  - apply one_number_and_optional_integer_function_ok. apply round_body_ok.
  - apply one_number_and_optional_integer_function_ok. apply round_up_body_ok.
  - apply one_number_and_optional_integer_function_ok. apply round_down_body_ok.
  - apply min_max_args_ok. intros a [H1 _]. apply extreme_body_ok; lia.
  - apply min_max_args_ok. intros a [H1 _]. apply extreme_body_ok; lia.
  - apply min_max_args_ok. intros a [H1 [H2|H2]]; [lia|]. apply format_number_body_ok; lia.
  - apply three_integer_function_ok. apply date_from_parts_body_ok.
  - apply three_integer_function_ok. apply time_from_parts_body_ok.
  - apply datetime_add_fn_ok.
  - apply array_fn_ok.
  - apply object_fn_ok.
  - apply min_max_args_ok. intros a [H1 _]. apply extract_object_body_ok; lia.
  - apply initial_text_function_ok. intros; apply regex_match_body_ok; assumption.
  - apply min_max_args_ok. intros a [H1 [H2|H2]]; [lia|]. apply has_group_body_ok; lia.
  - apply one_arg_function_ok. intros v. unfold text_fn. destruct (to_text v); exact I.
  - apply one_arg_function_ok. intros v. unfold number_fn. destruct (to_number v); exact I.
  - apply one_arg_function_ok. intros v. unfold boolean_fn. destruct (to_bool v); exact I.
  - apply min_max_args_ok. intros a _. apply and_fn_ok.
  - apply min_max_args_ok. intros a _. apply or_fn_ok.
  - apply three_arg_function_ok. intros x y z. unfold if_fn. destruct (to_bool x); exact I.
  - apply one_number_function_ok. intros d. exact I.
  - apply one_arg_function_ok. intros v. unfold count_fn. destruct v; exact I.
  - apply two_arg_function_ok. intros x y. unfold default_fn. destruct (to_text x) as [[|c t]|]; exact I.
  - apply two_arg_function_ok. intros x y. unfold join_fn. destruct (to_array x) as [items|]; [|exact I].
    destruct (to_text y); [|exact I]. destruct (texts_of items); [apply limited_text_ok|exact I].
  - apply one_array_function_ok. intros items. exact I.
  - apply one_array_function_ok. intros items. unfold sum_body. destruct (sum_numbers items decimal_zero); exact I.
  - apply two_array_function_ok. intros x y. unfold concat_body. destruct (max_render_size <? _)%Z; exact I.
  - apply one_arg_function_ok. intros v. exact I.
  - apply one_text_function_ok. intros t. exact I.
  - apply two_text_function_ok. intros x y. exact I.
Qed.

Lemma call_not_foreach : forall fuel f args, f <> FForEach -> call fuel f args = call_simple f args.
Proof. intros fuel f args H. destruct fuel; destruct f; try reflexivity; contradiction. Qed.

Hypothesis ext_ok : forall id args, ok true (ext_call id args).

Lemma call_simple_ok : forall f args, f <> FForEach -> ok true (call_simple f args).
Proof.
  intros f args Hf. destruct (exponent_free f) eqn:E.
  - apply ok_weaken. apply call_simple_exponent_free. assumption.
  - destruct f; try discriminate E; unfold ExEval.call_simple.
    + apply two_number_function_ok. apply mod_body_ok.
    + apply min_max_args_ok. intros a [H1 _]. apply mean_body_ok; lia.
    + apply one_number_function_ok. apply percent_body_ok.
    + contradiction.
    + apply ext_ok.
Qed.

Lemma foreach_items_ok : forall bb call_f items other acc budget,
  (forall item, ok bb (call_f (item :: other))) -> ok bb (foreach_items call_f items other acc budget).
Proof.
  intros bb call_f items other. induction items as [|item r IH]; intros acc budget H; simpl; [exact I|].
  pose proof (H item) as H1. destruct (call_f (item :: other)) as [v|c|]; try assumption.
  destruct (is_err v); [exact I|]. destruct (_ <? 0)%Z; [exact I|]. apply IH. assumption.
Qed.

Lemma foreach_items_in_ok : forall bb call_f items other acc budget,
  (forall item, In item items -> ok bb (call_f (item :: other))) -> ok bb (foreach_items call_f items other acc budget).
Proof.
  intros bb call_f items other. induction items as [|item r IH]; intros acc budget H; simpl; [exact I|].
  pose proof (H item (or_introl eq_refl)) as H1. destruct (call_f (item :: other)) as [v|c|]; try assumption.
  destruct (is_err v); [exact I|]. destruct (_ <? 0)%Z; [exact I|]. apply IH. intros i Hi. apply H. right. assumption.
Qed.

Lemma with_rest_skipn : forall args k f, (k <= length args)%nat -> with_rest args k f = f (skipn k args).
Proof.
  intros args k f Hk. unfold with_rest, go_slice_from, go_slice.
  replace ((0 <=? Z.of_nat k) && (Z.of_nat k <=? Z.of_nat (length args)) && (Z.of_nat (length args) <=? Z.of_nat (length args))) with true.
  - rewrite Nat2Z.id. replace (Z.to_nat (Z.of_nat (length args) - Z.of_nat k)) with (length (skipn k args))
      by (rewrite skipn_length; lia). rewrite firstn_all. reflexivity.
  - symmetry. repeat (apply andb_true_iff; split); apply Z.leb_le; lia.
Qed.

(* the nested call of foreach has one argument fewer: the number of arguments is enough fuel *)
Lemma call_ok : forall fuel f args, (length args <= fuel)%nat -> ok true (call fuel f args).
Proof.
  induction fuel as [|fuel IH]; intros f args Hl.
  - destruct (fname_eq_foreach f) as [->|Hne]; [|rewrite call_not_foreach by assumption; apply call_simple_ok; assumption].
    simpl. apply min_max_args_ok_at. intros [H1 _]. lia.
  - destruct (fname_eq_foreach f) as [->|Hne]; [|rewrite call_not_foreach by assumption; apply call_simple_ok; assumption].
    simpl. apply min_max_args_ok_at. intros [H1 _].
    apply with_arg_ok; [lia|]. intros v0. destruct (to_array v0); [|exact I].
    apply with_arg_ok; [lia|]. intros v1. destruct (to_function v1) as [g|]; [|exact I].
    apply with_rest_ok; [lia|]. intros r Hr. apply foreach_items_ok. intros item. apply IH. simpl. lia.
Qed.

End Calls.

(* ------------------------------------------------------------------------------------------------ *)
(* operators, lookups, the tree evaluator *)

Lemma dec_div_round_some : forall x y p, mant y <> 0 -> in_int32 (dexp x - dexp y + p) = true ->
  exists q, dec_div_round x y p = inr q.
Proof.
  intros x y p Hy He. unfold dec_div_round, dec_quorem.
  replace (mant y =? 0) with false by (symmetry; apply Z.eqb_neq; assumption).
  replace (dexp x - dexp y - - p) with (dexp x - dexp y + p) by lia. rewrite He. cbn [negb].
  destruct (dexp x - dexp y + p <? 0); cbv zeta;
    match goal with |- context [dec_cmp ?u ?v] => destruct (dec_cmp u v) end; eauto.
Qed.

(* Decimal.Pow under the guards of operators.Exponent: the exponent limit keeps Mul and QuoRem inside int32 *)
Lemma exponent_in_range : forall e, exponent_out_of_range e = false -> - 100000 <= e <= 100000.
Proof.
  intros e H. unfold exponent_out_of_range, max_number_exponent in H. apply orb_false_iff in H as [H1 H2].
  apply Z.ltb_ge in H1. apply Z.ltb_ge in H2. lia.
Qed.

(* the series part of a non-integral power: what is assumed of it where a statement needs it *)
Definition frac_pow_well_behaved (fp : dec -> dec -> dec -> pclass + dec) : Prop :=
  forall x y whole c, fp x y whole = inl c -> c = PExponent.

(* [bb] = may the exponent class remain; [need_fp]: the statement about fp that the non-integral branch uses *)
Lemma dec_pow_ok : forall bb fp x y,
  (dec_is_integer y = false -> forall whole, match fp x y whole with inl c => ok bb (Panic c) | inr _ => True end) ->
  exponent_out_of_range (dexp x * dec_trunc y) = false -> ok bb (dec_pow fp x y).
Proof.
  intros bb fp x y Hfp Hr. apply exponent_in_range in Hr. unfold dec_pow.
  destruct (mant x =? 0) eqn:Ex; [exact I|]. apply Z.eqb_neq in Ex.
  destruct (mant y =? 0); [exact I|]. cbv zeta.
  destruct (negb (dec_is_integer y) && (mant x <? 0)); [exact I|].
  assert (Habs : - 100000 <= dexp x * Z.abs (dec_trunc y) <= 100000).
  { destruct (Z.abs_spec (dec_trunc y)) as [[_ ->]|[_ ->]]; lia. }
  unfold dec_pow_nat.
  replace (in_int32 (dexp x * Z.abs (dec_trunc y))) with true
    by (symmetry; unfold in_int32, int32_min, int32_max; apply andb_true_iff; split; apply Z.leb_le; lia).
  assert (Hfin : forall whole, ok bb (if dec_is_integer y then Ret (VNum whole)
                                     else match fp x y whole with inr r => Ret (VNum r) | inl c => Panic c end)).
  { intros whole. destruct (dec_is_integer y) eqn:Ei; [exact I|]. specialize (Hfp eq_refl whole).
    destruct (fp x y whole); [exact Hfp|exact I]. }
  destruct (0 <=? dec_trunc y); [apply Hfin|].
  destruct (dec_div_round_some (Dec 1 0) (Dec (mant x ^ Z.abs (dec_trunc y)) (dexp x * Z.abs (dec_trunc y)))
              pow_precision_negative_exponent) as [q ->]; [| |apply Hfin].
  - cbn [mant]. apply Z.pow_nonzero; [assumption|apply Z.abs_nonneg].
  - cbn [dexp]. unfold pow_precision_negative_exponent, in_int32, int32_min, int32_max.
    apply andb_true_iff; split; apply Z.leb_le; lia.
Qed.

(* a power that is a whole number: no panic of any class, for every base (the three guards keep PowBigInt's
   multiplications and the DivRound of a negative power inside int32) *)
Lemma pow_body_integral_ok : forall fp x y, dec_is_integer (dec_canonical y) = true -> ok false (pow_body fp x y).
Proof.
  intros fp x y Hi. unfold pow_body. cbv zeta.
  destruct (exponent_out_of_range (dexp (dec_canonical x) * dec_trunc (dec_canonical y))) eqn:E; [exact I|].
  destruct (_ && _); [exact I|]. destruct (_ && _); [exact I|]. apply dec_pow_ok; [|assumption].
  intros Hn. congruence.
Qed.

(* any power: the whole-part computation adds no panic; what remains is what the series part may do *)
Lemma pow_body_ok : forall fp x y, frac_pow_well_behaved fp -> ok true (pow_body fp x y).
Proof.
  intros fp x y Hfp. unfold pow_body. cbv zeta.
  destruct (exponent_out_of_range (dexp (dec_canonical x) * dec_trunc (dec_canonical y))) eqn:E; [exact I|].
  destruct (_ && _); [exact I|]. destruct (_ && _); [exact I|]. apply dec_pow_ok; [|assumption].
  intros _ whole. destruct (fp _ _ whole) as [c|] eqn:Ef; [|exact I]. rewrite (Hfp _ _ _ _ Ef). reflexivity.
Qed.

Lemma mul_body_ok : forall x y, ok false (mul_body x y).
Proof.
  intros x y. unfold mul_body. cbv zeta.
  destruct (exponent_out_of_range (dexp (dec_canonical x) + dexp (dec_canonical y))) eqn:E; [exact I|].
  apply exponent_in_range in E. unfold dec_mul.
  replace (in_int32 (dexp (dec_canonical x) + dexp (dec_canonical y))) with true;
    [destruct (exponent_out_of_range (num_digits _ + num_digits _)); exact I|].
  symmetry. unfold in_int32, int32_min, int32_max. apply andb_true_iff. split; apply Z.leb_le; lia.
Qed.

(* a power whose decimal exponent would leave the limit is an error VALUE (`@(0.001 ^ 999999999)` panicked) *)
Lemma pow_out_of_range : forall fp x y n1 n2, to_number x = Ok n1 -> to_number y = Ok n2 ->
  (dexp (dec_canonical n1) * dec_trunc (dec_canonical n2) < - max_number_exponent
   \/ max_number_exponent < dexp (dec_canonical n1) * dec_trunc (dec_canonical n2)) ->
  eval_binop fp OPow x y = Ret VErr.
Proof.
  intros fp x y n1 n2 H1 H2 Hr. simpl. unfold numerical_binary. rewrite H1, H2. unfold pow_body. cbv zeta.
  replace (exponent_out_of_range (dexp (dec_canonical n1) * dec_trunc (dec_canonical n2))) with true; [reflexivity|].
  symmetry. unfold exponent_out_of_range. apply orb_true_iff.
  destruct Hr; [left; apply Z.ltb_lt|right; apply Z.ltb_lt]; assumption.
Qed.

Lemma eval_binop_ok : forall fp op x y, frac_pow_well_behaved fp -> ok true (eval_binop fp op x y).
Proof.
  intros fp op x y Hfp. destruct op; simpl; unfold textual_binary, numerical_binary, cmp_is;
    try (destruct (to_text x); [|exact I]; destruct (to_text y); [|exact I]; try destruct (max_text_length <? _)%Z; exact I);
    (destruct (to_number x) as [n1|]; [|exact I]; destruct (to_number y) as [n2|]; [|exact I]); try exact I.
  - apply ok_weaken. apply mul_body_ok.
  - destruct (dec_eqb n2 (Dec 0 0)) eqn:E; [exact I|].
    unfold dec_div, dec_div_round. destruct (dec_quorem n1 n2 division_precision) as [c|[q r]] eqn:Eq.
    + apply dec_quorem_class in Eq. destruct Eq as [[Hc Hz]|Hc]; subst c; [|reflexivity].
      apply dec_eqb_zero in Hz. congruence.
    + destruct (dec_cmp _ _); exact I.
  - apply pow_body_ok. assumption.
Qed.

(* every operator except / and ^ is free of panics of any class: Multiply checks the exponent itself *)
Lemma eval_binop_no_panic : forall fp op x y, op <> ODiv -> op <> OPow -> ok false (eval_binop fp op x y).
Proof.
  intros fp op x y H2 H3. destruct op; try contradiction; simpl; unfold textual_binary, numerical_binary, cmp_is;
    try (destruct (to_text x); [|exact I]; destruct (to_text y); [|exact I]; try destruct (max_text_length <? _)%Z; exact I);
    (destruct (to_number x) as [n1|]; [|exact I]; destruct (to_number y) as [n2|]; [|exact I]); try exact I.
  apply mul_body_ok.
Qed.

Lemma binop_no_panic_statement : forall fp op x y c, op <> ODiv -> op <> OPow -> eval_binop fp op x y <> Panic c.
Proof. intros fp op x y c H H'. apply ok_false_iff. apply eval_binop_no_panic; assumption. Qed.

(* ^ with a power that is a whole number: no panic of any class *)
Lemma power_integral_no_panic : forall fp x y n2 c, to_number y = Ok n2 -> dec_is_integer (dec_canonical n2) = true ->
  eval_binop fp OPow x y <> Panic c.
Proof.
  intros fp x y n2 c H2 Hi. apply ok_false_iff. simpl. unfold numerical_binary.
  destruct (to_number x) as [n1|]; [|exact I]. rewrite H2. apply pow_body_integral_ok. assumption.
Qed.

(* ^ with any power: only what the (unmodelled) series part may do *)
Lemma power_exponent_only : forall fp x y c, frac_pow_well_behaved fp ->
  eval_binop fp OPow x y = Panic c -> c = PExponent.
Proof. intros fp x y c Hfp. apply ok_true_iff. apply eval_binop_ok. assumption. Qed.

(* a product whose decimal exponent would leave the limit is an error VALUE *)
Lemma multiply_out_of_range : forall fp x y n1 n2, to_number x = Ok n1 -> to_number y = Ok n2 ->
  (dexp (dec_canonical n1) + dexp (dec_canonical n2) < - max_number_exponent
   \/ max_number_exponent < dexp (dec_canonical n1) + dexp (dec_canonical n2)) ->
  eval_binop fp OMul x y = Ret VErr.
Proof.
  intros fp x y n1 n2 H1 H2 Hr. simpl. unfold numerical_binary. rewrite H1, H2. unfold mul_body. cbv zeta.
  replace (exponent_out_of_range (dexp (dec_canonical n1) + dexp (dec_canonical n2))) with true; [reflexivity|].
  symmetry. unfold exponent_out_of_range. apply orb_true_iff.
  destruct Hr; [left; apply Z.ltb_lt|right; apply Z.ltb_lt]; assumption.
Qed.

(* ------------------------------------------------------------------------------------------------ *)
(* the canonical form: numerically equal decimals have THE SAME canonical form, so * and ^ (limits and results)
   do not depend on how a number was written: 0.10 and 0.1, 1E3 and 1000 *)

Definition is_canonical (d : dec) : Prop := dexp d <= 0 /\ (dexp d < 0 -> Z.rem (mant d) 10 <> 0).

Lemma strip_frac_zeros_spec : forall fuel m e, e <= 0 -> (Z.to_nat (- e) <= fuel)%nat ->
  is_canonical (strip_frac_zeros fuel m e) /\ dec_eq (strip_frac_zeros fuel m e) (Dec m e).
Proof.
  induction fuel as [|fuel IH]; intros m e He Hf; simpl.
  - split; [|apply dec_eq_refl]. split; cbn [dexp mant]; lia.
  - destruct ((e <? 0) && (Z.rem m 10 =? 0)) eqn:E.
    + apply andb_prop in E as [E1 E2]. apply Z.ltb_lt in E1. apply Z.eqb_eq in E2.
      destruct (IH (Z.quot m 10) (e + 1)) as [Hc Hq]; [lia|lia|]. split; [assumption|].
      eapply dec_eq_trans; [exact Hq|].
      replace m with (Z.quot m 10 * 10 ^ 1) at 2
        by (rewrite Z.pow_1_r; pose proof (Z.quot_rem' m 10); lia).
      replace e with ((e + 1) - 1) at 2 by lia. apply dec_eq_sym. apply dec_eq_scale. lia.
    + split; [|apply dec_eq_refl]. split; cbn [dexp mant]; [assumption|].
      intros Hlt Hr. apply andb_false_iff in E as [E|E]; [apply Z.ltb_ge in E; lia|apply Z.eqb_neq in E; contradiction].
Qed.

Lemma dec_canonical_spec : forall d, is_canonical (dec_canonical d) /\ dec_eq (dec_canonical d) d.
Proof.
  intros [m e]. unfold dec_canonical. cbn [mant dexp].
  destruct (m =? 0) eqn:Em.
  - apply Z.eqb_eq in Em. subst m. split; [split; cbn [dexp mant]; lia|].
    apply (dec_eq_at _ _ (Z.min 0 e)); cbn [dexp mant]; lia.
  - destruct (0 <=? e) eqn:Ee.
    + apply Z.leb_le in Ee. split; [split; cbn [dexp mant]; lia|].
      pose proof (dec_eq_scale m e e Ee) as Hs. rewrite Z.sub_diag in Hs. exact Hs.
    + apply Z.leb_gt in Ee. apply strip_frac_zeros_spec; lia.
Qed.

Lemma canonical_unique : forall a b, is_canonical a -> is_canonical b -> dec_eq a b -> a = b.
Proof.
  assert (H : forall a b, is_canonical a -> is_canonical b -> dec_eq a b -> dexp a <= dexp b -> a = b).
  { intros [ma ea] [mb eb] [Ha1 Ha2] [Hb1 Hb2] Heq Hle. cbn [dexp mant] in *.
    pose proof (dec_eq_inv _ _ Heq Hle) as Hm. cbn [dexp mant] in Hm.
    destruct (Z.eq_dec ea eb) as [->|Hne].
    - rewrite Z.sub_diag, Z.pow_0_r, Z.mul_1_r in Hm. subst. reflexivity.
    - exfalso. apply Ha2; [lia|]. rewrite Hm.
      replace (eb - ea) with (1 + (eb - ea - 1)) by lia. rewrite Z.pow_add_r by lia.
      rewrite Z.pow_1_r. replace (mb * (10 * 10 ^ (eb - ea - 1))) with ((mb * 10 ^ (eb - ea - 1)) * 10) by lia.
      apply Z.rem_mul. lia. }
  intros a b Ha Hb Heq. destruct (Z_le_gt_dec (dexp a) (dexp b)); [apply H; assumption|].
  symmetry. apply H; try assumption; [apply dec_eq_sym; assumption|lia].
Qed.

Lemma canonical_respects_equality : forall a b, dec_eq a b -> dec_canonical a = dec_canonical b.
Proof.
  intros a b H. destruct (dec_canonical_spec a) as [Ca Ea]. destruct (dec_canonical_spec b) as [Cb Eb].
  apply canonical_unique; try assumption.
  eapply dec_eq_trans; [exact Ea|]. eapply dec_eq_trans; [exact H|]. apply dec_eq_sym. exact Eb.
Qed.

(* numerically equal operands give the SAME result of * and ^ (value or error) *)
Lemma mul_pow_respect_equality : forall fp op a a' b b', (op = OMul \/ op = OPow) -> dec_eq a a' -> dec_eq b b' ->
  eval_binop fp op (VNum a) (VNum b) = eval_binop fp op (VNum a') (VNum b').
Proof.
  intros fp op a a' b b' Hop Ha Hb. destruct Hop; subst op; simpl; unfold numerical_binary; simpl;
    unfold mul_body, pow_body; rewrite (canonical_respects_equality a a' Ha), (canonical_respects_equality b b' Hb);
    reflexivity.
Qed.

Example canonical_examples :
  dec_canonical (Dec 10 (-2)) = Dec 1 (-1) /\ dec_canonical (Dec 1 3) = Dec 1000 0 /\ dec_canonical (Dec 0 (-5)) = Dec 0 0
  /\ dec_canonical (Dec 10000 (-2)) = Dec 100 0 /\ dec_canonical (Dec (-2500) (-3)) = Dec (-25) (-1).
Proof. vm_compute. repeat split; reflexivity. Qed.

(* the divide-by-zero guard: an error VALUE *)
Lemma eval_div_zero : forall fp x y n1 n2, to_number x = Ok n1 -> to_number y = Ok n2 -> mant n2 = 0 ->
  eval_binop fp ODiv x y = Ret VErr.
Proof.
  intros fp x y n1 n2 H1 H2 Hz. simpl. unfold numerical_binary. rewrite H1, H2.
  apply dec_eqb_zero in Hz. rewrite Hz. reflexivity.
Qed.

Lemma eval_neg_ok : forall x, ok false (eval_neg x).
Proof. intros x. unfold eval_neg. destruct (to_number x); exact I. Qed.

Lemma resolve_lookup_ok : forall c l dot, ok false (resolve_lookup c l dot).
Proof.
  intros c l dot. unfold resolve_lookup. destruct c; try exact I.
  - destruct (to_integer l) as [index|]; [|exact I].
    destruct ((zlen items <=? index) || (index <? - zlen items)) eqn:E; [exact I|].
    apply orb_false_iff in E as [E1 E2]. apply Z.leb_gt in E1. apply Z.ltb_ge in E2.
    apply guarded_index; [|intros; exact I].
    destruct (index <? 0) eqn:E3; [apply Z.ltb_lt in E3|apply Z.ltb_ge in E3]; lia.
  - destruct (to_text l) as [p|]; [|exact I]. destruct (obj_get props p); [exact I|]. destruct dot; exact I.
Qed.

(* the index >= Count guard: an error VALUE, for indexes on either side *)
Lemma resolve_lookup_out_of_range : forall items l index dot,
  to_integer l = Ok index -> (zlen items <= index \/ index < - zlen items) ->
  resolve_lookup (VArray items) l dot = Ret VErr.
Proof.
  intros items l index dot H Hr. unfold resolve_lookup. rewrite H.
  replace ((zlen items <=? index) || (index <? - zlen items)) with true; [reflexivity|].
  symmetry. apply orb_true_iff. destruct Hr; [left; apply Z.leb_le|right; apply Z.ltb_lt]; assumption.
Qed.

Lemma lookup_no_panic : forall container lookup dot c, resolve_lookup container lookup dot <> Panic c.
Proof. intros container lookup dot. apply ok_false_iff. apply resolve_lookup_ok. Qed.

Lemma bind_ok : forall bb r k, ok bb r -> (forall v, ok bb (k v)) -> ok bb (bind r k).
Proof. intros bb [v|c|] k H Hk; simpl; auto. Qed.

(* induction over expression trees (parameters of calls are a nested list) *)
Lemma expr_ind_nested : forall P : expr -> Prop,
  (forall v, P (ELit v)) -> (forall n, P (ERef n)) ->
  (forall c l, P c -> P (EDot c l)) -> (forall c l, P c -> P l -> P (EIdx c l)) ->
  (forall fn ps, P fn -> Forall P ps -> P (ECall fn ps)) ->
  (forall e, P e -> P (ENeg e)) -> (forall op x y, P x -> P y -> P (EBin op x y)) ->
  forall e, P e.
Proof.
  intros P Hl Hr Hd Hi Hc Hn Hb. fix IH 1. intros e. destruct e.
  - apply Hl.
  - apply Hr.
  - apply Hd. apply IH.
  - apply Hi; apply IH.
  - apply Hc; [apply IH|]. induction params as [|p r IHr]; constructor; [apply IH|apply IHr].
  - apply Hn. apply IH.
  - apply Hb; apply IH.
Qed.

Section Eval.

Variable wclass : N -> N.
Variable regex_submatch : text -> text -> option (list text).
Variable ext_call : N -> list value -> res.
Variable frac_pow : dec -> dec -> dec -> pclass + dec.
Variable lookup_function : text -> option fname.
Hypothesis ext_ok : forall id args, ok true (ext_call id args).
Hypothesis frac_ok : frac_pow_well_behaved frac_pow.

Notation eval := (eval wclass regex_submatch ext_call frac_pow lookup_function).

Theorem eval_ok : forall ctx e, ok true (eval ctx e).
Proof.
  intros ctx e. induction e using expr_ind_nested; simpl.
  - exact I.
  - destruct (scope_get lookup_function ctx n); exact I.
  - apply bind_ok; [assumption|]. intros cv. destruct (is_err cv); [exact I|].
    apply ok_weaken. apply resolve_lookup_ok.
  - apply bind_ok; [assumption|]. intros cv. destruct (is_err cv); [exact I|].
    apply bind_ok; [assumption|]. intros lv. destruct (is_err lv); [exact I|].
    apply ok_weaken. apply resolve_lookup_ok.
  - apply bind_ok; [assumption|]. intros fv. destruct (is_err fv); [exact I|].
    destruct fv; try exact I.
    generalize (@nil value). induction H as [|p r Hp Hr IHr]; intros acc.
    + unfold call_function. apply call_ok; [assumption|lia].
    + apply bind_ok; [assumption|]. intros pv. apply IHr.
  - apply bind_ok; [assumption|]. intros v. apply ok_weaken. apply eval_neg_ok.
  - apply bind_ok; [assumption|]. intros av. apply bind_ok; [assumption|]. intros bv. apply eval_binop_ok. exact frac_ok.
Qed.

End Eval.

(* ------------------------------------------------------------------------------------------------ *)
(* mod, mean, percent and / on numbers whose decimal exponents are within +-10^9: no panic of any class.
   (Evaluation only produces exponents within max(100000, length of a text): not proved here.) *)

Definition exp_ok (d : dec) : Prop := - 1000000000 <= dexp d <= 1000000000.
Definition arg_exp_ok (v : value) : Prop := forall d, to_number v = Ok d -> exp_ok d.

Lemma dec_quorem_some : forall x y p, mant y <> 0 -> in_int32 (dexp x - dexp y + p) = true ->
  exists qr, dec_quorem x y p = inr qr.
Proof.
  intros x y p Hy He. unfold dec_quorem.
  replace (mant y =? 0) with false by (symmetry; apply Z.eqb_neq; assumption).
  replace (dexp x - dexp y - - p) with (dexp x - dexp y + p) by lia. rewrite He. cbn [negb]. eauto.
Qed.

Lemma in_int32_of_bounds : forall e, - 2147483648 <= e <= 2147483647 -> in_int32 e = true.
Proof. intros e H. unfold in_int32, int32_min, int32_max. apply andb_true_iff. split; apply Z.leb_le; lia. Qed.

(* the exponent-overflow panic needs two exponents about 2^31 apart *)
Lemma quorem_exponent_panic_needs_huge_exponents : forall x y p,
  dec_quorem x y p = inl PExponent -> 2147483647 - Z.abs p <= Z.abs (dexp x) + Z.abs (dexp y).
Proof.
  intros x y p. unfold dec_quorem. destruct (mant y =? 0); [discriminate|].
  destruct (in_int32 (dexp x - dexp y - - p)) eqn:E; [discriminate|]. intros _.
  unfold in_int32, int32_min, int32_max in E. apply andb_false_iff in E as [E|E];
    [apply Z.leb_gt in E|apply Z.leb_gt in E]; lia.
Qed.

Lemma mod_body_full : forall x y, exp_ok x -> exp_ok y -> ok false (mod_body x y).
Proof.
  intros x y Hx Hy. unfold mod_body, exp_ok in *. destruct (dec_eqb y (Dec 0 0)) eqn:E; [exact I|].
  assert (Hz : mant y <> 0) by (intros H; apply dec_eqb_zero in H; congruence).
  unfold dec_mod. destruct (dec_quorem_some x y 0 Hz) as [[q r] ->]; [apply in_int32_of_bounds; lia|exact I].
Qed.

Lemma sum_numbers_exp : forall args acc sum, Forall arg_exp_ok args -> exp_ok acc ->
  sum_numbers args acc = Ok sum -> exp_ok sum.
Proof.
  induction args as [|v r IH]; intros acc sum HF Ha H; simpl in H.
  - injection H as <-. assumption.
  - destruct (to_number v) as [n|] eqn:En; [|discriminate].
    apply (IH (dec_add acc n)); [inversion HF; assumption| |assumption].
    inversion HF as [|? ? Hv _]; subst. specialize (Hv n En). unfold exp_ok, dec_add in *. cbn [dexp]. lia.
Qed.

Lemma mean_body_full : forall args, (1 <= length args)%nat -> Forall arg_exp_ok args -> ok false (mean_body args).
Proof.
  intros args Hl HF. unfold mean_body. destruct (sum_numbers args decimal_zero) as [sum|] eqn:Es; [|exact I].
  assert (Hs : exp_ok sum) by (eapply sum_numbers_exp; eauto; unfold exp_ok; simpl; lia).
  unfold dec_div. destruct (dec_div_round_some sum (dec_of_Z (zlen args)) division_precision) as [q ->]; [| |exact I].
  - simpl. unfold zlen. lia.
  - unfold exp_ok, division_precision in *. simpl. apply in_int32_of_bounds. lia.
Qed.

Lemma percent_body_full : forall d, exp_ok d -> ok false (percent_body d).
Proof.
  intros d Hd. unfold percent_body, dec_mul, exp_ok in *. cbn [dexp].
  rewrite in_int32_of_bounds by lia. exact I.
Qed.

Lemma divide_full : forall fp x y, arg_exp_ok x -> arg_exp_ok y -> ok false (eval_binop fp ODiv x y).
Proof.
  intros fp x y Hx Hy. simpl. unfold numerical_binary.
  destruct (to_number x) as [n1|] eqn:E1; [|exact I]. destruct (to_number y) as [n2|] eqn:E2; [|exact I].
  specialize (Hx n1 E1). specialize (Hy n2 E2). unfold exp_ok in *.
  destruct (dec_eqb n2 (Dec 0 0)) eqn:E; [exact I|].
  assert (Hz : mant n2 <> 0) by (intros H; apply dec_eqb_zero in H; congruence).
  unfold dec_div. destruct (dec_div_round_some n1 n2 division_precision Hz) as [q ->]; [|exact I].
  unfold division_precision. apply in_int32_of_bounds. lia.
Qed.

Section FullCalls.

Variable wclass : N -> N.
Variable regex_submatch : text -> text -> option (list text).
Variable ext_call : N -> list value -> res.
Notation call_function := (call_function wclass regex_submatch ext_call).

Notation call_simple := (call_simple wclass regex_submatch ext_call).

Lemma mod_call_ok : forall args, Forall arg_exp_ok args -> ok false (call_simple FMod args).
Proof.
  intros args HF. unfold ExEval.call_simple, two_number_function, num_args.
  apply min_max_args_ok_at. intros [H1 [H2|H2]]; [lia|].
  destruct args as [|v0 [|v1 [|v2 r]]]; simpl in *; try lia. unfold with_arg. simpl.
  destruct (to_number v0) as [n1|] eqn:E1; [|exact I]. destruct (to_number v1) as [n2|] eqn:E2; [|exact I].
  inversion HF as [|? ? H0 HF']; subst. inversion HF' as [|? ? H1' _]; subst.
  apply mod_body_full; [apply H0|apply H1']; assumption.
Qed.

Lemma mean_call_ok : forall args, Forall arg_exp_ok args -> ok false (call_simple FMean args).
Proof.
  intros args HF. unfold ExEval.call_simple, min_args. apply min_max_args_ok_at. intros [H1 _].
  apply mean_body_full; assumption.
Qed.

Lemma percent_call_ok : forall args, Forall arg_exp_ok args -> ok false (call_simple FPercent args).
Proof.
  intros args HF. unfold ExEval.call_simple, one_number_function, num_args.
  apply min_max_args_ok_at. intros [H1 [H2|H2]]; [lia|].
  destruct args as [|v0 [|v1 r]]; simpl in *; try lia. unfold with_arg. simpl.
  destruct (to_number v0) as [n1|] eqn:E1; [|exact I].
  inversion HF as [|? ? H0 _]; subst. apply percent_body_full. apply H0. assumption.
Qed.

Lemma mod_full : forall args c, Forall arg_exp_ok args -> call_function FMod args <> Panic c.
Proof.
  intros args c HF. apply ok_false_iff. unfold ExEval.call_function. rewrite call_not_foreach by discriminate.
  apply mod_call_ok. assumption.
Qed.

Lemma mean_full : forall args c, Forall arg_exp_ok args -> call_function FMean args <> Panic c.
Proof.
  intros args c HF. apply ok_false_iff. unfold ExEval.call_function. rewrite call_not_foreach by discriminate.
  apply mean_call_ok. assumption.
Qed.

Lemma percent_full : forall args c, Forall arg_exp_ok args -> call_function FPercent args <> Panic c.
Proof.
  intros args c HF. apply ok_false_iff. unfold ExEval.call_function. rewrite call_not_foreach by discriminate.
  apply percent_call_ok. assumption.
Qed.

End FullCalls.

Lemma divide_full_statement : forall fp x y c, arg_exp_ok x -> arg_exp_ok y -> eval_binop fp ODiv x y <> Panic c.
Proof. intros fp x y c Hx Hy. apply ok_false_iff. apply divide_full; assumption. Qed.

(* the hypothesis is satisfiable: ordinary numbers and numeric texts *)
Example arg_exp_ok_satisfiable : Forall arg_exp_ok [VNum (Dec 15 (-1)); VNil; VText [49%N; 46%N; 53%N]].
Proof.
  apply Forall_cons; [|apply Forall_cons; [|apply Forall_cons; [|apply Forall_nil]]]; intros d H; unfold exp_ok.
  - injection H as <-. simpl. lia.
  - discriminate.
  - vm_compute in H. injection H as <-. simpl. lia.
Qed.

(* ------------------------------------------------------------------------------------------------ *)
(* the int32 range check of ToInteger, with the int64 wrap of IntPart *)

Lemma to_integer_range : forall v i, to_integer v = Ok i -> int32_min <= i <= int32_max.
Proof.
  intros v i. unfold to_integer. destruct (to_number v) as [d|]; [|discriminate].
  destruct ((int_part d <? int32_min) || (int32_max <? int_part d)) eqn:E; [discriminate|].
  intros H. injection H as <-. apply orb_false_iff in E as [E1 E2].
  apply Z.ltb_ge in E1. apply Z.ltb_ge in E2. lia.
Qed.

(* 2^64 wraps to 0 and passes the range check (char(18446744073709551616) is "\x00"); 2^31 does not *)
Example to_integer_wraps : to_integer (VNum (Dec 18446744073709551616 0)) = Ok 0.
Proof. vm_compute. reflexivity. Qed.
Example to_integer_rejects : to_integer (VNum (Dec 2147483648 0)) = Bad.
Proof. vm_compute. reflexivity. Qed.

(* ------------------------------------------------------------------------------------------------ *)
(* work bound for the loops driven by a numeric argument *)

(* the instrumented loop: what it builds and how many cells it writes *)
Lemma repeat_loop_spec : forall t n out cells,
  length (fst (repeat_loop t n out cells)) = (length out + n * length t)%nat /\
  snd (repeat_loop t n out cells) = (cells + N.of_nat (n * length t))%N.
Proof.
  intros t n. induction n as [|n IH]; intros out cells; simpl.
  - split; [lia|]. lia.
  - destruct (IH (out ++ t) (cells + N.of_nat (length t))%N) as [H1 H2]. rewrite H1, H2, app_length. split; lia.
Qed.

(* repeat never builds more than max_repeat_length characters; beyond that it answers with an error VALUE
   (`repeat("x", 2147483647)` used to exhaust the memory of the host) *)
Lemma repeat_body_bounded : forall t count s, repeat_body t count = Ret (VText s) -> zlen s <= max_repeat_length.
Proof.
  intros t count s. unfold repeat_body. destruct (count <? 0) eqn:En; [discriminate|]. apply Z.ltb_ge in En.
  destruct t as [|c t]; [intros H; injection H as <-; unfold zlen, max_repeat_length; simpl; lia|].
  destruct (max_repeat_length <? zlen (c :: t) * count) eqn:El; [discriminate|]. apply Z.ltb_ge in El.
  intros H. injection H as <-. unfold zlen in *.
  destruct (repeat_loop_spec (c :: t) (Z.to_nat count) [] 0%N) as [H1 _]. rewrite H1.
  change (length (@nil N)) with 0%nat. rewrite Nat.add_0_l, Nat2Z.inj_mul, Z2Nat.id by assumption. lia.
Qed.

Lemma repeat_body_over_limit : forall t count, t <> [] -> max_repeat_length < zlen t * count -> repeat_body t count = Ret VErr.
Proof.
  intros t count Ht H. unfold repeat_body.
  destruct (count <? 0) eqn:En; [reflexivity|]. destruct t as [|c t]; [contradiction|].
  replace (max_repeat_length <? zlen (c :: t) * count) with true by (symmetry; apply Z.ltb_lt; assumption). reflexivity.
Qed.

Definition work_constant : N := 408%N.

Section Work.

Variable wclass : N -> N.
Variable regex_submatch : text -> text -> option (list text).
Variable ext_call : N -> list value -> res.
Notation call_function := (call_function wclass regex_submatch ext_call).

(* numeric arguments are at least as large as the number they denote: holds by definition for number values *)
Definition numbers_sized (args : list value) : Prop :=
  forall a d, In a args -> to_number a = Ok d -> (dec_size d <= value_size a)%N.

Lemma numbers_sized_numbers : forall ds, numbers_sized (map VNum ds).
Proof.
  intros ds a d Hin H. apply in_map_iff in Hin as [d' [<- _]]. simpl in H. injection H as ->. simpl. lia.
Qed.

Lemma args_size_in : forall a args, In a args -> (value_size a <= args_size args)%N.
Proof.
  intros a args. induction args as [|x r IH]; simpl; [contradiction|].
  intros [->|H]; [lia|]. specialize (IH H). lia.
Qed.

Lemma trunc_cost_bound : forall d, (trunc_cost d <= 2 * dec_size d)%N.
Proof. intros d. unfold trunc_cost, rescale_cost, dec_size. lia. Qed.

Lemma to_integer_work_bound : forall a args, numbers_sized args -> In a args ->
  (to_integer_work a <= 2 * args_size args)%N.
Proof.
  intros a args Hs Hin. unfold to_integer_work. destruct (to_number a) as [d|] eqn:E; [|lia].
  pose proof (trunc_cost_bound d). pose proof (Hs a d Hin E). pose proof (args_size_in a args Hin). lia.
Qed.

Lemma round_work_bound : forall d places,
  bad_places places = false -> (2 * round_work d places + 2 <= 4 * dec_size d + 208)%N.
Proof.
  intros d places H. unfold bad_places, max_rounding_places in H. apply orb_false_iff in H as [H1 H2].
  apply Z.ltb_ge in H1. apply Z.ltb_ge in H2. unfold round_work, rescale_cost, dec_size. lia.
Qed.

Lemma round_family_bound : forall a0 r, numbers_sized (a0 :: r) ->
  (match to_number a0 with
   | Ok d => match r with
             | [] => round_work d 0
             | a1 :: _ => (to_integer_work a1 +
                           match to_integer a1 with
                           | Ok places => if bad_places places then 0%N else (2 * round_work d places + 2)%N
                           | Bad => 0%N
                           end)%N
             end
   | Bad => 0%N
   end <= work_constant * (args_size (a0 :: r) + 1))%N.
Proof.
  intros a0 r Hs. unfold work_constant.
  destruct (to_number a0) as [d|] eqn:Ed; [|lia].
  assert (Hd : (dec_size d <= args_size (a0 :: r))%N).
  { etransitivity; [apply (Hs a0 d); [left; reflexivity|assumption]|apply args_size_in; left; reflexivity]. }
  destruct r as [|a1 r].
  - pose proof (round_work_bound d 0 eq_refl). lia.
  - pose proof (to_integer_work_bound a1 (a0 :: a1 :: r) Hs (or_intror (or_introl eq_refl))) as H1.
    destruct (to_integer a1) as [places|]; [|lia].
    destruct (bad_places places) eqn:Eb; [lia|].
    pose proof (round_work_bound d places Eb). lia.
Qed.

Theorem work_bound : forall f args, numbers_sized args ->
  (work f args <= work_constant * (args_size args + res_size (call_function f args) + 1))%N.
Proof.
  intros f args Hs. unfold work.
  destruct f; try (apply N.le_0_l); destruct args as [|a0 r]; try (apply N.le_0_l).
  - (* char *)
    destruct r; [|apply N.le_0_l].
    pose proof (to_integer_work_bound a0 [a0] Hs (or_introl eq_refl)). unfold work_constant. lia.
  - (* repeat *)
    destruct r as [|a1 [|a2 r]]; try (apply N.le_0_l).
    pose proof (to_integer_work_bound a1 [a0; a1] Hs (or_intror (or_introl eq_refl))) as Hi.
    destruct (to_text a0) as [t|] eqn:Et; [|unfold work_constant; lia].
    destruct (to_integer a1) as [count|] eqn:Ec; [|unfold work_constant; lia].
    destruct (count <? 0) eqn:En; [unfold work_constant; lia|]. destruct t as [|c t]; [unfold work_constant; lia|].
    destruct (max_repeat_length <? zlen (c :: t) * count) eqn:El; [unfold work_constant; lia|].
    assert (Hr : call_function FRepeat [a0; a1] = Ret (VText (fst (repeat_loop (c :: t) (Z.to_nat count) [] 0%N)))).
    { unfold ExEval.call_function. simpl. unfold text_and_integer_function, num_args, min_max_args, with_arg. simpl.
      rewrite Et, Ec. unfold repeat_body. rewrite En, El. reflexivity. }
    rewrite Hr. simpl res_size. unfold value_size. simpl render_value.
    destruct (repeat_loop_spec (c :: t) (Z.to_nat count) [] 0%N) as [H1 H2]. rewrite H1, H2.
    unfold work_constant. simpl length. lia.
  - pose proof (round_family_bound a0 r Hs). unfold work_constant in *. lia.
  - pose proof (round_family_bound a0 r Hs). unfold work_constant in *. lia.
  - pose proof (round_family_bound a0 r Hs). unfold work_constant in *. lia.
Qed.

(* + - < <= > >= : both operands are brought to the smaller exponent *)
Theorem binop_work_bound : forall op x y, numbers_sized [x; y] ->
  (binop_work op x y <= 2 * (value_size x + value_size y))%N.
Proof.
  intros op x y Hs. unfold binop_work.
  assert (H : (match to_number x, to_number y with Ok a, Ok b => rescale_pair_cost a b | _, _ => 0%N end
               <= 2 * (value_size x + value_size y))%N).
  { destruct (to_number x) as [a|] eqn:Ex; [|lia]. destruct (to_number y) as [b|] eqn:Ey; [|lia].
    pose proof (Hs x a (or_introl eq_refl) Ex). pose proof (Hs y b (or_intror (or_introl eq_refl)) Ey).
    unfold rescale_pair_cost, rescale_cost, dec_size in *. lia. }
  destruct op; try lia; exact H.
Qed.

End Work.

(* ------------------------------------------------------------------------------------------------ *)
(* size limits (664d88e, 1fba51e): what &, replace, join, concat, foreach and * return is bounded, and a value that is
   converted to text is within the size budget *)

Lemma byte_len_app : forall a b, byte_len (a ++ b) = byte_len a + byte_len b.
Proof. intros a b. induction a as [|c a IH]; simpl; [reflexivity|]. rewrite IH. lia. Qed.

Lemma byte_len_nonneg : forall a, 0 <= byte_len a.
Proof.
  induction a as [|c a IH]; simpl; [lia|]. unfold rune_bytes.
  destruct (c <? 128)%N; [lia|]. destruct (c <? 2048)%N; [lia|]. destruct (c <? 65536)%N; lia.
Qed.

(* a text result is within types.MaxTextLength *)
Definition text_within (r : res) : Prop :=
  match r with Ret (VText t) => byte_len t <= max_text_length | _ => True end.

Lemma limited_text_within : forall t, text_within (limited_text t).
Proof.
  intros t. unfold limited_text. destruct (max_text_length <? byte_len t) eqn:E; [exact I|].
  apply Z.ltb_ge in E. exact E.
Qed.

Lemma concat_op_within : forall fp x y, text_within (eval_binop fp OConcat x y).
Proof.
  intros fp x y. simpl. unfold textual_binary.
  destruct (to_text x) as [a|]; [|exact I]. destruct (to_text y) as [b|]; [|exact I].
  destruct (max_text_length <? byte_len a + byte_len b) eqn:E; [exact I|].
  apply Z.ltb_ge in E. simpl. rewrite byte_len_app. exact E.
Qed.

Lemma with_arg_within : forall args k f, (forall v, text_within (f v)) -> text_within (with_arg args k f).
Proof. intros args k f H. unfold with_arg. destruct (nth_error args k); [apply H|exact I]. Qed.

Lemma replace_body_within : forall args, text_within (replace_body args).
Proof.
  intros args. unfold replace_body.
  apply with_arg_within. intros v0. destruct (to_text v0); [|exact I].
  apply with_arg_within. intros v1. destruct (to_text v1); [|exact I].
  apply with_arg_within. intros v2. destruct (to_text v2); [|exact I].
  destruct (Nat.eqb (length args) 4); [|apply limited_text_within].
  apply with_arg_within. intros v3. destruct (to_integer v3); [apply limited_text_within|exact I].
Qed.

Lemma join_fn_within : forall x y, text_within (join_fn x y).
Proof.
  intros x y. unfold join_fn. destruct (to_array x); [|exact I]. destruct (to_text y); [|exact I].
  destruct (texts_of _); [apply limited_text_within|exact I].
Qed.

(* concat returns at most types.MaxRenderSize items *)
Lemma concat_body_within : forall x y items, concat_body x y = Ret (VArray items) -> zlen items <= max_render_size.
Proof.
  intros x y items. unfold concat_body. destruct (max_render_size <? zlen x + zlen y) eqn:E; [discriminate|].
  intros H. injection H as <-. apply Z.ltb_ge in E. unfold zlen in *. rewrite app_length. lia.
Qed.

(* a product: the digits of the (canonical) factors add up to at most the limit *)
Lemma mul_body_digits : forall x y p, mul_body x y = Ret (VNum p) ->
  num_digits (dec_canonical x) + num_digits (dec_canonical y) <= max_number_exponent.
Proof.
  intros x y p. unfold mul_body. cbv zeta. destruct (exponent_out_of_range (dexp _ + dexp _)); [discriminate|].
  destruct (exponent_out_of_range (num_digits _ + num_digits _)) eqn:E; [discriminate|]. intros _.
  unfold exponent_out_of_range in E. apply orb_false_iff in E as [_ E]. apply Z.ltb_ge in E. exact E.
Qed.

(* a value that ToXText converts is nil, a text (which is not written again) or within the size budget (the walk of the
   budget and the writing are in proportion to its cost) *)
Lemma to_text_within_budget : forall v t, to_text v = Ok t ->
  v = VNil \/ (exists s, v = VText s) \/ value_cost false 0 v <= max_render_size.
Proof.
  intros v t. unfold to_text, too_large.
  destruct v; try (intros _; left; reflexivity); try discriminate; try (intros _; right; left; eexists; reflexivity);
    (destruct (max_render_size <? _) eqn:E; [discriminate|]; intros _; right; right; apply Z.ltb_ge in E; exact E).
Qed.

(* what foreach collects: the costs (as JSON) of the items add up to at most the budget it starts with *)
Fixpoint items_cost (l : list value) : Z :=
  match l with [] => 0 | x :: r => value_cost true 0 x + items_cost r end.

Lemma items_cost_app : forall a b, items_cost (a ++ b) = items_cost a + items_cost b.
Proof. intros a b. induction a as [|x a IH]; simpl; [reflexivity|]. rewrite IH. lia. Qed.

Lemma foreach_items_budget : forall call_f items other acc budget out,
  0 <= budget -> foreach_items call_f items other acc budget = Ret (VArray out) ->
  exists rest, out = rev acc ++ rest /\ items_cost rest <= budget.
Proof.
  intros call_f items other. induction items as [|item r IH]; intros acc budget out Hb; simpl.
  - intros H. injection H as <-. exists []. rewrite app_nil_r. split; [reflexivity|simpl; lia].
  - destruct (call_f (item :: other)) as [v|c|]; try discriminate.
    destruct (is_err v) eqn:Ee; [destruct v; discriminate|].
    destruct (budget - value_cost true 0 v <? 0) eqn:El; [discriminate|]. apply Z.ltb_ge in El.
    intros H. destruct (IH _ _ _ El H) as [rest [H1 H2]]. exists (v :: rest). split.
    + rewrite H1. simpl. rewrite <- app_assoc. reflexivity.
    + simpl. lia.
Qed.

(* ------------------------------------------------------------------------------------------------ *)
(* closed statements (re-exported by props/C04.v) *)

Section Statements.

Variable wclass : N -> N.
Variable regex_submatch : text -> text -> option (list text).
Variable ext_call : N -> list value -> res.
Notation call_function := (call_function wclass regex_submatch ext_call).

Lemma builtin_ok : forall f args, exponent_free f = true -> ok false (call_function f args).
Proof.
  intros f args Hf. unfold ExEval.call_function. rewrite call_not_foreach by (intros ->; discriminate).
  apply call_simple_exponent_free. assumption.
Qed.

Lemma builtin_no_panic : forall f args c, exponent_free f = true -> call_function f args <> Panic c.
Proof. intros f args c Hf. apply (proj2 (proj1 (ok_false_iff _) (builtin_ok f args Hf))). Qed.

(* the fuel of the model's loops (object pairs, has_group) never runs out: no statement is true for that reason *)
Lemma builtin_fuel : forall f args, exponent_free f = true -> call_function f args <> NoFuel.
Proof. intros f args Hf. apply (proj1 (proj1 (ok_false_iff _) (builtin_ok f args Hf))). Qed.

Lemma builtin_exponent_only : forall f args c, f <> FForEach -> (forall id, f <> FOther id) ->
  call_function f args = Panic c -> c = PExponent.
Proof.
  intros f args c Hf Ho. unfold ExEval.call_function. rewrite call_not_foreach by assumption.
  revert c. apply (fun H => proj2 (proj1 (ok_true_iff _) H)). destruct (exponent_free f) eqn:E.
  - apply ok_weaken. apply call_simple_exponent_free. assumption.
  - destruct f; try discriminate E; unfold ExEval.call_simple.
    + apply two_number_function_ok. apply mod_body_ok.
    + apply min_max_args_ok. intros a [H1 _]. apply mean_body_ok; lia.
    + apply one_number_function_ok. apply percent_body_ok.
    + contradiction.
    + exfalso. eapply Ho. reflexivity.
Qed.

(* size limits, as statements about calls *)
Lemma replace_result_within : forall args, text_within (call_function FReplace args).
Proof.
  intros args. unfold ExEval.call_function. rewrite call_not_foreach by discriminate. unfold ExEval.call_simple, min_max_args.
  match goal with |- text_within (if ?c then _ else _) => destruct c end; [exact I|apply replace_body_within].
Qed.

Lemma join_result_within : forall args, text_within (call_function FJoin args).
Proof.
  intros args. unfold ExEval.call_function. rewrite call_not_foreach by discriminate.
  unfold ExEval.call_simple, two_arg_function, num_args, min_max_args.
  match goal with |- text_within (if ?c then _ else _) => destruct c end; [exact I|].
  apply with_arg_within. intros v0. apply with_arg_within. intros v1. apply join_fn_within.
Qed.

Lemma foreach_result_within : forall args out,
  call_function FForEach args = Ret (VArray out) -> items_cost out <= max_render_size.
Proof.
  intros args out. unfold ExEval.call_function. destruct (length args) as [|fuel] eqn:El; simpl; unfold min_args, min_max_args;
    (match goal with |- (if ?c then _ else _) = _ -> _ => destruct c end; [discriminate|]);
    unfold with_arg; (destruct (nth_error args 0) as [v0|]; [|discriminate]);
    (destruct (to_array v0) as [items|]; [|discriminate]);
    (destruct (nth_error args 1) as [v1|]; [|discriminate]);
    (destruct (to_function v1) as [g|]; [|discriminate]);
    unfold with_rest; (destruct (go_slice_from args (Z.of_nat 2)) as [other|]; [|discriminate]); [discriminate|].
  intros H. apply foreach_items_budget in H; [|unfold max_render_size; lia].
  destruct H as [rest [H1 H2]]. simpl in H1. subst out. exact H2.
Qed.

Lemma word_no_panic : forall args c, call_function FWord args <> Panic c.
Proof. intros. apply builtin_no_panic. reflexivity. Qed.
Lemma word_slice_no_panic : forall args c, call_function FWordSlice args <> Panic c.
Proof. intros. apply builtin_no_panic. reflexivity. Qed.
Lemma field_no_panic : forall args c, call_function FField args <> Panic c.
Proof. intros. apply builtin_no_panic. reflexivity. Qed.
Lemma text_slice_no_panic : forall args c, call_function FTextSlice args <> Panic c.
Proof. intros. apply builtin_no_panic. reflexivity. Qed.
Lemma char_no_panic : forall args c, call_function FChar args <> Panic c.
Proof. intros. apply builtin_no_panic. reflexivity. Qed.
Lemma repeat_no_panic : forall args c, call_function FRepeat args <> Panic c.
Proof. intros. apply builtin_no_panic. reflexivity. Qed.
Lemma replace_no_panic : forall args c, call_function FReplace args <> Panic c.
Proof. intros. apply builtin_no_panic. reflexivity. Qed.
Lemma round_no_panic : forall args c, call_function FRound args <> Panic c.
Proof. intros. apply builtin_no_panic. reflexivity. Qed.
Lemma round_up_no_panic : forall args c, call_function FRoundUp args <> Panic c.
Proof. intros. apply builtin_no_panic. reflexivity. Qed.
Lemma round_down_no_panic : forall args c, call_function FRoundDown args <> Panic c.
Proof. intros. apply builtin_no_panic. reflexivity. Qed.
Lemma max_no_panic : forall args c, call_function FMax args <> Panic c.
Proof. intros. apply builtin_no_panic. reflexivity. Qed.
Lemma min_no_panic : forall args c, call_function FMin args <> Panic c.
Proof. intros. apply builtin_no_panic. reflexivity. Qed.
Lemma format_number_no_panic : forall args c, call_function FFormatNumber args <> Panic c.
Proof. intros. apply builtin_no_panic. reflexivity. Qed.
Lemma date_from_parts_no_panic : forall args c, call_function FDateFromParts args <> Panic c.
Proof. intros. apply builtin_no_panic. reflexivity. Qed.
Lemma time_from_parts_no_panic : forall args c, call_function FTimeFromParts args <> Panic c.
Proof. intros. apply builtin_no_panic. reflexivity. Qed.
Lemma datetime_add_no_panic : forall args c, call_function FDateTimeAdd args <> Panic c.
Proof. intros. apply builtin_no_panic. reflexivity. Qed.
Lemma array_no_panic : forall args c, call_function FArray args <> Panic c.
Proof. intros. apply builtin_no_panic. reflexivity. Qed.
Lemma object_no_panic : forall args c, call_function FObject args <> Panic c.
Proof. intros. apply builtin_no_panic. reflexivity. Qed.
Lemma extract_object_no_panic : forall args c, call_function FExtractObject args <> Panic c.
Proof. intros. apply builtin_no_panic. reflexivity. Qed.
Lemma regex_match_no_panic : forall args c, call_function FRegexMatch args <> Panic c.
Proof. intros. apply builtin_no_panic. reflexivity. Qed.
Lemma has_group_no_panic : forall args c, call_function FHasGroup args <> Panic c.
Proof. intros. apply builtin_no_panic. reflexivity. Qed.
Lemma text_no_panic : forall args c, call_function FText args <> Panic c.
Proof. intros. apply builtin_no_panic. reflexivity. Qed.
Lemma number_no_panic : forall args c, call_function FNumber args <> Panic c.
Proof. intros. apply builtin_no_panic. reflexivity. Qed.
Lemma boolean_no_panic : forall args c, call_function FBoolean args <> Panic c.
Proof. intros. apply builtin_no_panic. reflexivity. Qed.
Lemma and_no_panic : forall args c, call_function FAnd args <> Panic c.
Proof. intros. apply builtin_no_panic. reflexivity. Qed.
Lemma or_no_panic : forall args c, call_function FOr args <> Panic c.
Proof. intros. apply builtin_no_panic. reflexivity. Qed.
Lemma if_no_panic : forall args c, call_function FIf args <> Panic c.
Proof. intros. apply builtin_no_panic. reflexivity. Qed.
Lemma abs_no_panic : forall args c, call_function FAbs args <> Panic c.
Proof. intros. apply builtin_no_panic. reflexivity. Qed.
Lemma count_no_panic : forall args c, call_function FCount args <> Panic c.
Proof. intros. apply builtin_no_panic. reflexivity. Qed.
Lemma default_no_panic : forall args c, call_function FDefault args <> Panic c.
Proof. intros. apply builtin_no_panic. reflexivity. Qed.
Lemma join_no_panic : forall args c, call_function FJoin args <> Panic c.
Proof. intros. apply builtin_no_panic. reflexivity. Qed.
Lemma reverse_no_panic : forall args c, call_function FReverse args <> Panic c.
Proof. intros. apply builtin_no_panic. reflexivity. Qed.
Lemma sum_no_panic : forall args c, call_function FSum args <> Panic c.
Proof. intros. apply builtin_no_panic. reflexivity. Qed.
Lemma concat_no_panic : forall args c, call_function FConcat args <> Panic c.
Proof. intros. apply builtin_no_panic. reflexivity. Qed.
Lemma is_error_no_panic : forall args c, call_function FIsError args <> Panic c.
Proof. intros. apply builtin_no_panic. reflexivity. Qed.
Lemma text_length_no_panic : forall args c, call_function FTextLength args <> Panic c.
Proof. intros. apply builtin_no_panic. reflexivity. Qed.
Lemma text_compare_no_panic : forall args c, call_function FTextCompare args <> Panic c.
Proof. intros. apply builtin_no_panic. reflexivity. Qed.
Lemma mod_exponent_only : forall args c, call_function FMod args = Panic c -> c = PExponent.
Proof. intros args c. apply builtin_exponent_only; [discriminate|intros id; discriminate]. Qed.
Lemma mean_exponent_only : forall args c, call_function FMean args = Panic c -> c = PExponent.
Proof. intros args c. apply builtin_exponent_only; [discriminate|intros id; discriminate]. Qed.
Lemma percent_exponent_only : forall args c, call_function FPercent args = Panic c -> c = PExponent.
Proof. intros args c. apply builtin_exponent_only; [discriminate|intros id; discriminate]. Qed.

(* mod(x, 0): an error value (F4a) *)
Lemma mod_zero_divisor : forall x y dx dy, to_number x = Ok dx -> to_number y = Ok dy -> mant dy = 0 ->
  call_function FMod [x; y] = Ret VErr.
Proof.
  intros x y dx dy Hx Hy Hz. unfold ExEval.call_function. simpl.
  unfold two_number_function, num_args, min_max_args, with_arg. simpl. rewrite Hx, Hy. apply mod_body_zero. assumption.
Qed.

(* foreach and every function value: panics of the called function are the only panics; the number of arguments
   is enough fuel for the nesting of foreach *)
Definition ext_well_behaved : Prop :=
  forall id args, ext_call id args <> NoFuel /\ forall c, ext_call id args = Panic c -> c = PExponent.

Lemma call_function_ok : ext_well_behaved -> forall f args, ok true (call_function f args).
Proof.
  intros Hext f args. unfold ExEval.call_function. apply call_ok; [|lia].
  intros id a. apply ok_true_iff. apply Hext.
Qed.

Lemma call_function_exponent_only : ext_well_behaved ->
  forall f args c, call_function f args = Panic c -> c = PExponent.
Proof. intros Hext f args. apply (proj2 (proj1 (ok_true_iff _) (call_function_ok Hext f args))). Qed.

Lemma call_function_fuel : ext_well_behaved -> forall f args, call_function f args <> NoFuel.
Proof. intros Hext f args. apply (proj1 (proj1 (ok_true_iff _) (call_function_ok Hext f args))). Qed.

Lemma eval_statement : forall frac_pow lookup_function, ext_well_behaved -> frac_pow_well_behaved frac_pow ->
  forall ctx e, eval wclass regex_submatch ext_call frac_pow lookup_function ctx e <> NoFuel /\
                forall c, eval wclass regex_submatch ext_call frac_pow lookup_function ctx e = Panic c -> c = PExponent.
Proof.
  intros fp lf Hext Hfp ctx e. apply ok_true_iff. apply eval_ok; [|exact Hfp]. intros id a. apply ok_true_iff. apply Hext.
Qed.

(* a rejected argument count is an error value, for every wrapper-checked registration *)
Lemma arity_rejected_is_error : forall min max f args,
  ~ admitted min max (List.length args) -> min_max_args min max f args = Ret VErr.
Proof. exact min_max_args_rejects. Qed.

Lemma work_bound_statement : forall f args, numbers_sized args ->
  (work f args <= work_constant * (args_size args + res_size (call_function f args) + 1))%N.
Proof. apply work_bound. Qed.

End Statements.

(* the hypothesis of the two evaluator statements is satisfiable *)
Example frac_pow_hypothesis_satisfiable : exists fp, frac_pow_well_behaved fp.
Proof. exists (fun _ _ _ => inr (Dec 0 0)). intros x y w c H. discriminate. Qed.

Example ext_hypothesis_satisfiable : exists ext : N -> list value -> res, ext_well_behaved ext.
Proof. exists (fun _ _ => Ret VNil). intros id args. split; [discriminate|intros; discriminate]. Qed.

Example numbers_sized_satisfiable : numbers_sized [VNum (Dec 15 (-1)); VNum (Dec 100 0)].
Proof. apply (numbers_sized_numbers [Dec 15 (-1); Dec 100 0]). Qed.

(* the exponent class is still reachable in the MODEL: Decimal.QuoRem on two numbers whose exponents are more
   than 2^31 apart.  No evaluation produces such numbers since multiplication and exponentiation limit the
   exponent to +-100000 (that invariant is not proved here); a caller of operators.Divide can construct them. *)
Example quorem_exponent_panics : forall fp,
  eval_binop fp ODiv (VNum (Dec 1 2147483647)) (VNum (Dec 1 (-100))) = Panic PExponent.
Proof. intros fp. vm_compute. reflexivity. Qed.
