(* ExScannerBound.v — the operational scanner model (model/ExScanner.v) never panics and never runs
   out of fuel, on ANY input (NUL included): the unread stack holds at most 2 runes at every call
   boundary and is given at most 2 more... precisely: every function keeps `stack <= 2`, and `unread`
   is only ever called with at most 1 rune on the stack, far from the capacity 4.
   Measure: mu i = length (base i) + number of non-eof runes on the unread stack. *)
From Coq Require Import List NArith Bool Arith Lia.
From Verif Require Import model.ExScanner.
Import ListNotations.
Open Scope N_scope.

Definition sl (i : xinput) : nat := length (unread_runes i).

Definition nz (c : rune) : nat := if c =? eof then 0%nat else 1%nat.

Fixpoint nzcount (l : list rune) : nat :=
  match l with [] => 0%nat | c :: r => (nz c + nzcount r)%nat end.

Definition mu (i : xinput) : nat := (length (base i) + nzcount (unread_runes i))%nat.

Lemma mu_le_pending i : (mu i <= pending i)%nat.
Proof.
  unfold mu, pending. destruct i as [b u]; cbn [base unread_runes].
  induction u as [|c u IH]; cbn [nzcount length]; [lia|]. unfold nz. destruct (c =? eof); lia.
Qed.

Lemma read_spec i ch i1 : read i = (ch, i1) ->
  sl i1 = Nat.pred (sl i) /\ (mu i1 <= mu i)%nat /\ (ch <> eof -> S (mu i1) = mu i).
Proof.
  unfold read, sl, mu. destruct i as [b u]; cbn [base unread_runes].
  destruct u as [|c u].
  - destruct b as [|c b]; intros H; inversion H; subst; cbn [base unread_runes length nzcount].
    + split; [reflexivity|]. split; [lia|]. intros H0; exfalso; apply H0; reflexivity.
    + split; [reflexivity|]. split; [lia|]. intros _. lia.
  - intros H; inversion H; subst; cbn [base unread_runes length nzcount Nat.pred].
    split; [reflexivity|]. unfold nz. destruct (ch =? eof) eqn:E.
    + split; [lia|]. intros H0. apply N.eqb_eq in E. contradiction.
    + split; [lia|]. intros _. lia.
Qed.

Lemma unread_spec ch i : (sl i <= 3)%nat ->
  exists i', unread ch i = Ok i' /\ sl i' = S (sl i) /\ mu i' = (mu i + nz ch)%nat.
Proof.
  unfold unread, sl, mu, capacity. intros H.
  destruct (Nat.ltb_spec (length (unread_runes i)) 4) as [L|L]; [|lia].
  eexists; split; [reflexivity|]. cbn [base unread_runes length nzcount]. split; lia.
Qed.

Lemma nz_le1 c : (nz c <= 1)%nat.
Proof. unfold nz; destruct (c =? eof); lia. Qed.

Lemma nz_ne c : c <> eof -> nz c = 1%nat.
Proof. unfold nz. intros H. destruct (N.eqb_spec c eof); [contradiction|reflexivity]. Qed.

Lemma eqb_ne c d : (c =? d) = false -> c <> d.
Proof. apply N.eqb_neq. Qed.

Section Bound.
Variable isln : rune -> bool.
Variable lower : rune -> rune.

Lemma read_text_literal_ok : forall fuel i esc, (mu i < fuel)%nat ->
  exists w i', read_text_literal fuel i esc = Ok (w, i') /\ (sl i' <= sl i)%nat /\ (mu i' <= mu i)%nat.
Proof.
  induction fuel as [|f IH]; intros i esc Hf; [lia|].
  cbn [read_text_literal]. destruct (read i) as [ch i1] eqn:R.
  destruct (read_spec _ _ _ R) as (S1 & M1 & M2).
  destruct (ch =? eof) eqn:E0.
  { do 2 eexists; split; [reflexivity|]. split; lia. }
  specialize (M2 (eqb_ne _ _ E0)).
  destruct ((ch =? r_quote) && negb esc).
  { do 2 eexists; split; [reflexivity|]. split; lia. }
  destruct (IH i1 (if ch =? r_bslash then negb esc else false)) as (w & i' & H & S2 & M3); [lia|].
  rewrite H. cbn [bind]. do 2 eexists; split; [reflexivity|]. split; lia.
Qed.

Lemma scan_expression_loop_ok : forall fuel i p, (mu i < fuel)%nat ->
  exists w p' i', scan_expression_loop fuel i p = Ok (w, p', i') /\ (sl i' <= sl i)%nat /\ (mu i' <= mu i)%nat.
Proof.
  induction fuel as [|f IH]; intros i p Hf; [lia|].
  cbn [scan_expression_loop]. destruct (read i) as [ch i1] eqn:R.
  destruct (read_spec _ _ _ R) as (S1 & M1 & M2).
  destruct (ch =? eof) eqn:E0.
  { do 3 eexists; split; [reflexivity|]. split; lia. }
  specialize (M2 (eqb_ne _ _ E0)).
  destruct (ch =? r_quote).
  { destruct (read_text_literal_ok f i1 false) as (lit & i2 & H & S2 & M3); [lia|].
    rewrite H; cbn [bind].
    destruct (IH i2 p) as (w & p' & i3 & H3 & S3 & M4); [lia|].
    rewrite H3; cbn [bind]. do 3 eexists; split; [reflexivity|]. split; lia. }
  destruct (ch =? r_lparen).
  { destruct (IH i1 (S p)) as (w & p' & i3 & H3 & S3 & M4); [lia|].
    rewrite H3; cbn [bind]. do 3 eexists; split; [reflexivity|]. split; lia. }
  destruct (ch =? r_rparen).
  { destruct (Nat.eqb (Nat.pred p) 0).
    - do 3 eexists; split; [reflexivity|]. split; lia.
    - destruct (IH i1 (Nat.pred p)) as (w & p' & i3 & H3 & S3 & M4); [lia|].
      rewrite H3; cbn [bind]. do 3 eexists; split; [reflexivity|]. split; lia. }
  destruct (IH i1 p) as (w & p' & i3 & H3 & S3 & M4); [lia|].
  rewrite H3; cbn [bind]. do 3 eexists; split; [reflexivity|]. split; lia.
Qed.

Lemma scan_expression_ok ue fuel i : (mu i < fuel)%nat ->
  exists ty w i', scan_expression ue fuel i = Ok (ty, w, i') /\ ty <> EOF_T /\ (sl i' <= sl i)%nat /\ (mu i' <= mu i)%nat.
Proof.
  intros Hf. unfold scan_expression.
  destruct (scan_expression_loop_ok fuel i 1 Hf) as (w & p & i' & H & S1 & M1).
  rewrite H; cbn [bind]. destruct (Nat.eqb p 0); do 3 eexists; (split; [reflexivity|]); (split; [discriminate|]); split; lia.
Qed.

(* scanIdentifier: called with at most one rune on the stack; leaves at most two *)
Lemma scan_identifier_loop_ok : forall fuel i buf top, (mu i < fuel)%nat -> (sl i <= 2)%nat ->
  exists buf' top' i', scan_identifier_loop isln fuel i buf top = Ok (buf', top', i') /\ (sl i' <= 2)%nat /\ (mu i' <= mu i)%nat.
Proof.
  induction fuel as [|f IH]; intros i buf top Hf Hs; [lia|].
  cbn [scan_identifier_loop]. destruct (read i) as [ch i1] eqn:R.
  destruct (read_spec _ _ _ R) as (S1 & M1 & M2).
  destruct (ch =? eof) eqn:E0.
  { do 3 eexists; split; [reflexivity|]. split; lia. }
  specialize (M2 (eqb_ne _ _ E0)).
  destruct (ch =? r_dot) eqn:ED.
  { destruct (read i1) as [peek i2] eqn:R2.
    destruct (read_spec _ _ _ R2) as (S2 & M3 & M4).
    destruct (is_name_char isln peek).
    - destruct (IH i2 (buf ++ [ch; peek]) (if true && text_eqb top [] then buf else top)) as (b' & t' & i' & H & S3 & M5); [lia|lia|].
      cbn [andb] in *. rewrite H. do 3 eexists; split; [reflexivity|]. split; lia.
    - destruct (unread_spec peek i2) as (i3 & U3 & S3 & M5); [lia|].
      rewrite U3; cbn [bind].
      destruct (unread_spec r_dot i3) as (i4 & U4 & S4 & M6); [lia|].
      rewrite U4; cbn [bind]. do 3 eexists; split; [reflexivity|].
      assert (nz r_dot = 1%nat) as Hd by reflexivity.
      split; [lia|].
      destruct (peek =? eof) eqn:EP; unfold nz in M5; rewrite EP in M5.
      + lia.
      + specialize (M4 (eqb_ne _ _ EP)). lia. }
  destruct (is_name_char isln ch).
  - destruct (IH i1 (buf ++ [ch]) (if false && text_eqb top [] then buf else top)) as (b' & t' & i' & H & S3 & M5); [lia|lia|].
    cbn [andb] in *. rewrite H. do 3 eexists; split; [reflexivity|]. split; lia.
  - destruct (unread_spec ch i1) as (i2 & U2 & S2 & M3); [lia|].
    rewrite U2; cbn [bind]. do 3 eexists; split; [reflexivity|].
    pose proof (nz_le1 ch). split; lia.
Qed.

Lemma scan_identifier_ok tops fuel i : (mu i < fuel)%nat -> (sl i <= 2)%nat ->
  exists ty w i', scan_identifier isln lower tops fuel i = Ok (ty, w, i') /\ ty <> EOF_T /\ (sl i' <= 2)%nat /\ (mu i' <= mu i)%nat.
Proof.
  intros Hf Hs. unfold scan_identifier.
  destruct (scan_identifier_loop_ok fuel i [] [] Hf Hs) as (b & t & i' & H & S1 & M1).
  rewrite H; cbn [bind]. destruct tops as [valid|].
  - destruct (existsb _ valid); do 3 eexists; (split; [reflexivity|]); (split; [discriminate|]); split; lia.
  - do 3 eexists; (split; [reflexivity|]); (split; [discriminate|]); split; lia.
Qed.

Lemma scan_body_loop_ok ue : forall fuel i, (mu i < fuel)%nat -> (sl i <= 2)%nat ->
  exists w i', scan_body_loop isln ue fuel i = Ok (w, i') /\ (sl i' <= 2)%nat /\ (mu i' <= mu i)%nat.
Proof.
  induction fuel as [|f IH]; intros i Hf Hs; [lia|].
  cbn [scan_body_loop]. destruct (read i) as [ch i1] eqn:R.
  destruct (read_spec _ _ _ R) as (S1 & M1 & M2).
  destruct (ch =? eof) eqn:E0.
  { do 2 eexists; split; [reflexivity|]. split; lia. }
  specialize (M2 (eqb_ne _ _ E0)).
  destruct (ch =? r_at) eqn:EA.
  2:{ destruct (IH i1) as (w & i' & H & S2 & M3); [lia|lia|].
      rewrite H; cbn [bind]. do 2 eexists; split; [reflexivity|]. split; lia. }
  destruct (read i1) as [peek i2] eqn:R2.
  destruct (read_spec _ _ _ R2) as (S2 & M3 & M4).
  assert (Hbreak : exists w i', bind (unread peek i2) (fun i3 => bind (unread r_at i3) (fun i4 => Ok (@nil rune, i4))) = Ok (w, i')
                   /\ (sl i' <= 2)%nat /\ (mu i' <= mu i2 + nz peek + 1)%nat).
  { destruct (unread_spec peek i2) as (i3 & U3 & S3 & M5); [lia|].
    rewrite U3; cbn [bind].
    destruct (unread_spec r_at i3) as (i4 & U4 & S4 & M6); [lia|].
    rewrite U4; cbn [bind]. do 2 eexists; split; [reflexivity|].
    pose proof (nz_le1 r_at). split; lia. }
  destruct (peek =? r_lparen) eqn:EL.
  { destruct Hbreak as (w & i' & H & S3 & M5). rewrite H. do 2 eexists; split; [reflexivity|]. split; [lia|].
    assert (peek <> eof) by (apply N.eqb_eq in EL; subst; discriminate).
    specialize (M4 H0). rewrite (nz_ne _ H0) in M5. lia. }
  destruct (peek =? r_at) eqn:EA2.
  { destruct (IH i2) as (w & i' & H & S3 & M5); [lia|lia|].
    rewrite H; cbn [bind]. do 2 eexists; split; [reflexivity|]. split; lia. }
  destruct (is_name_char isln peek).
  { destruct Hbreak as (w & i' & H & S3 & M5). rewrite H. do 2 eexists; split; [reflexivity|]. split; [lia|].
    unfold nz in M5. destruct (peek =? eof) eqn:EP; [lia|].
    specialize (M4 (eqb_ne _ _ EP)). lia. }
  destruct (peek =? eof).
  { destruct (IH i2) as (w & i' & H & S3 & M5); [lia|lia|].
    rewrite H; cbn [bind]. do 2 eexists; split; [reflexivity|]. split; lia. }
  destruct (IH i2) as (w & i' & H & S3 & M5); [lia|lia|].
  rewrite H; cbn [bind]. do 2 eexists; split; [reflexivity|]. split; lia.
Qed.

(* one unfolding of the body loop whose first rune is not eof: the measure strictly decreases when
   the loop is entered on a state whose next rune(s) it consumes *)
Lemma scan_body_loop_progress ue : forall fuel i ch i1, (S (mu i) < fuel)%nat -> (sl i <= 2)%nat ->
  read i = (ch, i1) -> ch <> eof ->
  (ch = r_at -> forall peek i2, read i1 = (peek, i2) -> peek <> r_lparen /\ (peek = r_at \/ is_name_char isln peek = false)) ->
  exists w i', scan_body_loop isln ue fuel i = Ok (w, i') /\ (sl i' <= 2)%nat /\ (mu i' < mu i)%nat.
Proof.
  intros fuel i ch i1 Hf Hs R Hne Hat.
  destruct fuel as [|f]; [lia|].
  cbn [scan_body_loop]. rewrite R.
  destruct (read_spec _ _ _ R) as (S1 & M1 & M2). specialize (M2 Hne).
  destruct (N.eqb_spec ch eof) as [|_]; [contradiction|].
  destruct (ch =? r_at) eqn:EA.
  2:{ destruct (scan_body_loop_ok ue f i1) as (w & i' & H & S2 & M3); [lia|lia|].
      rewrite H; cbn [bind]. do 2 eexists; split; [reflexivity|]. split; lia. }
  apply N.eqb_eq in EA.
  destruct (read i1) as [peek i2] eqn:R2.
  destruct (read_spec _ _ _ R2) as (S2 & M3 & M4).
  destruct (Hat EA peek i2 eq_refl) as (HL & Hor).
  destruct (N.eqb_spec peek r_lparen) as [|_]; [contradiction|].
  destruct (peek =? r_at) eqn:EA2.
  { destruct (scan_body_loop_ok ue f i2) as (w & i' & H & S3 & M5); [lia|lia|].
    rewrite H; cbn [bind]. do 2 eexists; split; [reflexivity|]. split; lia. }
  destruct Hor as [Hor|Hor]; [apply N.eqb_neq in EA2; contradiction|].
  rewrite Hor.
  destruct (peek =? eof).
  { destruct (scan_body_loop_ok ue f i2) as (w & i' & H & S3 & M5); [lia|lia|].
    rewrite H; cbn [bind]. do 2 eexists; split; [reflexivity|]. split; lia. }
  destruct (scan_body_loop_ok ue f i2) as (w & i' & H & S3 & M5); [lia|lia|].
  rewrite H; cbn [bind]. do 2 eexists; split; [reflexivity|]. split; lia.
Qed.

Lemma read_unread_same ch i i' : unread ch i = Ok i' -> read i' = (ch, i).
Proof.
  unfold unread. destruct (Nat.ltb _ _); [|discriminate]. intros H; inversion H; subst.
  unfold read; cbn [unread_runes base]. destruct i; reflexivity.
Qed.

(* Scan: on a state with at most 2 unread runes it returns a token, leaves at most 2 unread runes, and
   unless the token is EOF it consumed input *)
Theorem scan_ok tops ue i : (sl i <= 2)%nat ->
  exists ty w i', scan isln lower tops ue i = Ok (ty, w, i') /\ (sl i' <= 2)%nat /\
                  (ty <> EOF_T -> (mu i' < mu i)%nat).
Proof.
  intros Hs. unfold scan.
  pose proof (mu_le_pending i) as HP.
  assert (HF : (S (mu i) < scan_fuel i)%nat) by (unfold scan_fuel; lia).
  set (fuel := scan_fuel i) in *. clearbody fuel.
  destruct (read i) as [ch i1] eqn:R.
  destruct (read_spec _ _ _ R) as (S1 & M1 & M2).
  destruct (ch =? eof) eqn:E0.
  { do 3 eexists; split; [reflexivity|]. split; [lia|]. intros H; exfalso; apply H; reflexivity. }
  specialize (M2 (eqb_ne _ _ E0)).
  assert (Hbody : forall i2, unread ch i1 = Ok i2 ->
            (ch = r_at -> forall peek i3, read i1 = (peek, i3) -> peek <> r_lparen /\ (peek = r_at \/ is_name_char isln peek = false)) ->
            exists ty w i', scan_body isln ue fuel i2 = Ok (ty, w, i') /\ (sl i' <= 2)%nat /\ (ty <> EOF_T -> (mu i' < mu i)%nat)).
  { intros i2 U Hat.
    destruct (unread_spec ch i1) as (i2' & U' & S2 & M3); [lia|].
    rewrite U in U'; inversion U'; subst i2'.
    rewrite (nz_ne _ (eqb_ne _ _ E0)) in M3.
    destruct (scan_body_loop_progress ue fuel i2 ch i1) as (w & i' & H & S3 & M4);
      [lia|lia|apply read_unread_same; exact U|apply eqb_ne; exact E0|exact Hat|].
    unfold scan_body. rewrite H; cbn [bind]. do 3 eexists; split; [reflexivity|]. split; [lia|]. intros _. lia. }
  destruct (ch =? r_at) eqn:EA.
  2:{ destruct (unread_spec ch i1) as (i2 & U & S2 & M3); [lia|].
      rewrite U; cbn [bind]. apply (Hbody i2 U). intros Hc. apply N.eqb_neq in EA. contradiction. }
  apply N.eqb_eq in EA.
  destruct (read i1) as [peek i2] eqn:R2.
  destruct (read_spec _ _ _ R2) as (S2 & M3 & M4).
  destruct (peek =? r_lparen) eqn:EL.
  { destruct (scan_expression_ok ue fuel i2) as (ty & w & i' & H & Hty & S3 & M5); [lia|].
    rewrite H. do 3 eexists; split; [reflexivity|]. split; [lia|]. intros _. lia. }
  (* the two branches that push (peek, '@') back and scan a body *)
  assert (Hpush : (peek = r_at \/ is_name_char isln peek = false) ->
            exists ty w i', bind (unread peek i2) (fun i3 => bind (unread r_at i3) (fun i4 => scan_body isln ue fuel i4)) = Ok (ty, w, i')
                            /\ (sl i' <= 2)%nat /\ (ty <> EOF_T -> (mu i' < mu i)%nat)).
  { intros Hor.
    destruct (unread_spec peek i2) as (i3 & U3 & S3 & M5); [lia|].
    rewrite U3; cbn [bind].
    destruct (unread_spec r_at i3) as (i4 & U4 & S4 & M6); [lia|].
    rewrite U4; cbn [bind].
    pose proof (nz_le1 peek) as Hn.
    assert (nz r_at = 1%nat) as Hn2 by reflexivity.
    destruct (scan_body_loop_progress ue fuel i4 r_at i3) as (w & i' & H & S5 & M7).
    - destruct (peek =? eof) eqn:EP.
      + unfold nz in M5; rewrite EP in M5. lia.
      + specialize (M4 (eqb_ne _ _ EP)). lia.
    - lia.
    - apply read_unread_same; exact U4.
    - discriminate.
    - intros _ pk ix Rx. rewrite (read_unread_same _ _ _ U3) in Rx. inversion Rx; subst pk ix.
      split; [apply eqb_ne; exact EL|exact Hor].
    - unfold scan_body. rewrite H; cbn [bind]. do 3 eexists; split; [reflexivity|]. split; [lia|]. intros _.
      destruct (peek =? eof) eqn:EP.
      + unfold nz in M5; rewrite EP in M5. lia.
      + specialize (M4 (eqb_ne _ _ EP)). rewrite (nz_ne _ (eqb_ne _ _ EP)) in M5. lia. }
  destruct (peek =? r_at) eqn:EA2.
  { apply N.eqb_eq in EA2. subst peek. apply Hpush. left; reflexivity. }
  destruct (is_name_char isln peek) eqn:EN.
  { destruct (unread_spec peek i2) as (i3 & U3 & S3 & M5); [lia|].
    rewrite U3; cbn [bind].
    pose proof (nz_le1 peek) as Hn.
    destruct (scan_identifier_ok tops fuel i3) as (ty & w & i' & H & Hty & S4 & M6).
    - destruct (peek =? eof) eqn:EP.
      + unfold nz in M5; rewrite EP in M5. lia.
      + specialize (M4 (eqb_ne _ _ EP)). lia.
    - lia.
    - rewrite H. do 3 eexists; split; [reflexivity|]. split; [lia|]. intros _.
      destruct (peek =? eof) eqn:EP.
      + unfold nz in M5; rewrite EP in M5. lia.
      + specialize (M4 (eqb_ne _ _ EP)). rewrite (nz_ne _ (eqb_ne _ _ EP)) in M5. lia. }
  apply Hpush. right; reflexivity.
Qed.

Lemma scan_all_loop_ok tops ue : forall fuel i, (mu i < fuel)%nat -> (sl i <= 2)%nat ->
  exists toks, scan_all_loop isln lower tops ue fuel i = Ok toks.
Proof.
  induction fuel as [|f IH]; intros i Hf Hs; [lia|].
  cbn [scan_all_loop].
  destruct (scan_ok tops ue i Hs) as (ty & w & i' & H & S1 & M1).
  rewrite H; cbn [bind].
  destruct (toktype_eqb ty EOF_T) eqn:E.
  - eexists; reflexivity.
  - assert (ty <> EOF_T) by (intros ->; discriminate).
    destruct (IH i') as (toks & Ht); [specialize (M1 H0); lia|lia|].
    rewrite Ht; cbn [bind]. eexists; reflexivity.
Qed.

(* on every input whatsoever the whole token loop returns normally *)
Theorem scan_all_ok tops ue s : exists toks, scan_all isln lower tops ue s = Ok toks.
Proof.
  unfold scan_all. apply scan_all_loop_ok.
  - unfold mu, new_input; cbn [base unread_runes nzcount]. lia.
  - unfold sl, new_input; cbn. lia.
Qed.

Theorem template_ok eval_expr tops s : exists out errs, template_with isln lower eval_expr tops s = Ok (out, errs).
Proof.
  unfold template_with. destruct s as [|c s]; [do 2 eexists; reflexivity|].
  destruct (scan_all_ok (Some tops) true (c :: s)) as (toks & H). rewrite H; cbn [bind].
  destruct (template_tokens eval_expr toks) as [o e]. do 2 eexists; reflexivity.
Qed.

End Bound.
