(* EnginePaths.v — C01 clause 3 (each run's path is a walk in its flow's graph), the second half of clause 2
   (the waiting run sits on a node whose router has a wait) and the first half of clause 5 (an event that
   names a step names a step of the run that recorded it), for histories over a fixed store of validated
   definitions. *)

From Coq Require Import List NArith ZArith Bool Lia.
From Verif Require Import model.Lang model.Engine model.EngineCorr proofs.EngineProofs proofs.EngineInv proofs.EngineNoErr proofs.EngineResumes.
Import ListNotations.
Open Scope N_scope.

(* ---- the paths of the runs ---------------------------------------------------------------------------------- *)

Definition pth (x : st) : list (list step) := map r_path (s_runs (session_ x)).

Lemma pth_upd : forall x k g, (forall r, r_path (g r) = r_path r) -> pth (with_session x (fun s => upd_run s k g)) = pth x.
Proof.
  intros. unfold pth, upd_run; simpl. rewrite (update_nth_map _ _ r_path g (fun z => z)) by auto. apply update_nth_id; auto.
Qed.

Lemma pth_upd_path : forall x k g g', (forall r, r_path (g r) = g' (r_path r)) ->
  pth (with_session x (fun s => upd_run s k g)) = update_nth (pth x) k g'.
Proof. intros. unfold pth, upd_run; simpl. apply update_nth_map; auto. Qed.

Lemma pth_log_event : forall x ri sr k, pth (log_event x ri sr k) = pth x.
Proof.
  intros. unfold pth, log_event, upd_run; simpl.
  rewrite (update_nth_map _ _ r_path _ (fun z => z)) by reflexivity. apply update_nth_id; auto.
Qed.

Lemma pth_fail_run : forall x ri sr c, pth (fail_run x ri sr c) = pth x.
Proof. intros. unfold fail_run. rewrite pth_log_event. apply pth_upd. reflexivity. Qed.

Lemma save_and_log_pth : forall a x ri sr name value cat nid input x' v,
  save_and_log a x ri sr name value cat nid input = Done x' v -> pth x' = pth x.
Proof.
  intros a x ri sr name value cat nid input x' v. unfold save_and_log.
  destruct (trunc value _); [|discriminate]. destruct (trunc_ellipsis input _) as [kept|]; [|discriminate]. destruct (get_run (session_ x) ri).
  - destruct (save_result _ _) as [rs ch]. intros H; inversion H; subst.
    destruct ch; rewrite ?pth_log_event; apply pth_upd; reflexivity.
  - intros H; inversion H; reflexivity.
Qed.

Lemma route_to_category_pth : forall a x ri sr n rt cat m op x' v,
  route_to_category a x ri sr n rt cat m op = Done x' v ->
  pth x' = pth x /\ (forall i, v = Some i -> exists ci c, cat = Some ci /\ nth_error (rt_cats rt) ci = Some c /\ cat_exit c = i).
Proof.
  intros a x ri sr n rt cat m op x' v. unfold route_to_category.
  destruct cat as [ci|]; [|intros H; inversion H; split; [reflexivity|intros i C; discriminate]].
  destruct (nth_error (rt_cats rt) ci) as [c|] eqn:Ec; [|discriminate].
  destruct (rt_result rt).
  - destruct (save_and_log _ _ _ _ _ _ _ _ _) eqn:E; try discriminate.
    intros H; inversion H; subst. split; [eapply save_and_log_pth; eauto|].
    intros i Hi; inversion Hi; subst. eauto.
  - intros H; inversion H; subst. split; [reflexivity|]. intros i Hi; inversion Hi; subst. eauto.
Qed.

(* set the exit of the step at position pos *)
Definition set_exit_at (pos : nat) (eid : option id) (p : list step) : list step :=
  update_nth p pos (fun stp => {| st_node := st_node stp; st_exit := eid |}).

(* the exits a router can pick are exits of categories *)
Definition cat_exits_ok (n : node) : Prop :=
  forall rt c, n_router n = Some rt -> In c (rt_cats rt) -> find_exit (n_exits n) (cat_exit c) <> None.

Lemma find_exit_head : forall e es, find_exit (e :: es) (e_id e) = Some e.
Proof. intros. simpl. rewrite N.eqb_refl. reflexivity. Qed.

(* pickNodeExit: either the run was failed (paths untouched), or the exit of the step at pos was set to
   an exit of the node (or to none, for a node without router and without exits) *)
Lemma pick_node_exit_pth : forall a x ri n pos it tmo x' e op,
  cat_exits_ok n -> pick_node_exit a x ri n pos it tmo = Done x' (e, op) ->
  (pth x' = pth x /\ e = None) \/
  (exists eid, pth x' = update_nth (pth x) ri (set_exit_at pos eid) /\
               e = match eid with Some i => find_exit (n_exits n) i | None => None end /\
               (forall i, eid = Some i -> find_exit (n_exits n) i <> None)).
Proof.
  intros a x ri n pos it tmo x' e op Hcat. unfold pick_node_exit.
  destruct (n_router n) as [rt|] eqn:Er.
  - assert (Kf : forall y, pth y = pth x -> pth (fail_run y ri (Some (ri, pos)) FNoCategory) = pth x)
      by (intros y Hy; rewrite pth_fail_run; exact Hy).
    assert (Ks : forall y i, pth y = pth x ->
              pth (with_session y (fun s => upd_run s ri (set_step_exit (Some i) pos))) = update_nth (pth x) ri (set_exit_at pos (Some i))).
    { intros y i Hy. rewrite (pth_upd_path y ri (set_step_exit (Some i) pos) (set_exit_at pos (Some i))) by reflexivity.
      rewrite Hy. reflexivity. }
    assert (Kc : forall i ci c, nth_error (rt_cats rt) ci = Some c -> cat_exit c = i -> find_exit (n_exits n) i <> None).
    { intros i ci c Hc <-. eapply Hcat; [exact Er|eapply nth_error_In; eauto]. }
    destruct it.
    + unfold route_timeout. destruct (rt_wait rt) as [[wt [[sec ci]|]]|]; try discriminate.
      destruct (route_to_category a x ri (Some (ri, pos)) n rt (Some ci) tmo []) as [y w| |] eqn:E; try discriminate.
      destruct (route_to_category_pth _ _ _ _ _ _ _ _ _ _ _ E) as [Hy Hw].
      destruct w as [i|]; intros H; inversion H; subst; clear H.
      * right. exists (Some i). split; [apply Ks; exact Hy|]. split; [reflexivity|].
        intros i0 Hi0; inversion Hi0; subst. destruct (Hw _ eq_refl) as (ci' & c & _ & Hc & Hx). eapply Kc; eauto.
      * left. split; [apply Kf; exact Hy|reflexivity].
    + unfold route.
      match goal with |- context [route_to_category ?A ?X ?R ?S ?N ?RT ?C ?M ?O] =>
        destruct (route_to_category A X R S N RT C M O) as [y w| |] eqn:E end; try discriminate.
      destruct (route_to_category_pth _ _ _ _ _ _ _ _ _ _ _ E) as [Hy Hw].
      destruct w as [i|]; intros H; inversion H; subst; clear H.
      * right. exists (Some i). split; [apply Ks; exact Hy|]. split; [reflexivity|].
        intros i0 Hi0; inversion Hi0; subst. destruct (Hw _ eq_refl) as (ci' & c & _ & Hc & Hx). eapply Kc; eauto.
      * left. split; [apply Kf; exact Hy|reflexivity].
  - destruct (n_exits n) as [|e0 es] eqn:Ee; intros H; inversion H; subst; right.
    + exists None. split; [|split; [reflexivity|intros i C; discriminate]].
      apply (pth_upd_path x ri (set_step_exit None pos) (set_exit_at pos None)). reflexivity.
    + exists (Some (e_id e0)). split; [|split].
      * apply (pth_upd_path x ri (set_step_exit (Some (e_id e0)) pos) (set_exit_at pos (Some (e_id e0)))). reflexivity.
      * reflexivity.
      * intros i Hi; inversion Hi; subst. rewrite find_exit_head. discriminate.
Qed.

Lemma exec_actions_pth : forall a acts x ri pos n x' b, exec_actions a x ri pos n acts = Done x' b -> pth x' = pth x.
Proof.
  induction acts as [|act acts IH]; intros x ri pos n x' b; simpl.
  - intros H; inversion H; reflexivity.
  - destruct (exec_action a x ri pos n act) as [y v| |] eqn:E; try discriminate.
    assert (Hy : pth y = pth x).
    { revert E. unfold exec_action. destruct act.
      - destruct (trunc_ellipsis _ _); [|discriminate]. intros H; inversion H; subst. apply pth_log_event.
      - destruct (trunc_ellipsis _ _); [|discriminate]. apply save_and_log_pth.
      - destruct (get_flow a flow); [destruct (negb _)|]; intros H; inversion H; subst;
          rewrite ?pth_log_event; try reflexivity; apply pth_upd; reflexivity. }
    destruct (run_status (session_ y) ri) as [[]|]; try (intros H; rewrite (IH _ _ _ _ _ _ H); exact Hy).
    intros H; inversion H; subst. exact Hy.
Qed.

Lemma set_exit_at_last : forall p stp eid,
  set_exit_at (length p) eid (p ++ [stp]) = p ++ [{| st_node := st_node stp; st_exit := eid |}].
Proof. induction p; intros; simpl; auto. unfold set_exit_at in *. simpl. f_equal. apply IHp. Qed.

Lemma nth_error_pth : forall x i, nth_error (pth x) i = option_map r_path (get_run (session_ x) i).
Proof. intros. unfold pth, get_run. apply nth_error_map. Qed.

(* visitNode appends one step on the node; its exit (if it gets one) is an exit of the node *)
Lemma visit_node_pth : forall a x ri n wt x' pos e op,
  cat_exits_ok n -> visit_node a x ri n wt = Done x' (pos, e, op) ->
  exists p0 eid, nth_error (pth x) ri = Some p0 /\ pos = length p0 /\
    pth x' = update_nth (pth x) ri (fun p => p ++ [{| st_node := n_id n; st_exit := eid |}]) /\
    e = match eid with Some i => find_exit (n_exits n) i | None => None end /\
    (forall i, eid = Some i -> find_exit (n_exits n) i <> None).
Proof.
  intros a x ri n wt x' pos e op Hcat. unfold visit_node.
  destruct (get_run (session_ x) ri) as [r0|] eqn:Er; [|discriminate].
  assert (Hp0 : nth_error (pth x) ri = Some (r_path r0)) by (rewrite nth_error_pth, Er; reflexivity).
  set (x1 := with_session x (fun s => upd_run s ri (run_add_step {| st_node := n_id n; st_exit := None |}))).
  assert (H1 : pth x1 = update_nth (pth x) ri (fun p => p ++ [{| st_node := n_id n; st_exit := None |}])).
  { apply (pth_upd_path x ri _ (fun p => p ++ [{| st_node := n_id n; st_exit := None |}])). reflexivity. }
  match goal with |- context [exec_actions a ?X ri ?P n ?A] => set (x2 := X) end.
  assert (H2 : pth x2 = pth x1).
  { unfold x2. destruct wt; [destruct (s_trigger (session_ x1))|]; auto. rewrite pth_log_event. reflexivity. }
  destruct (exec_actions a x2 ri (length (r_path r0)) n (n_actions n)) as [x3 b| |] eqn:Ea; try discriminate.
  pose proof (exec_actions_pth _ _ _ _ _ _ _ _ Ea) as H3.
  assert (Hnone : forall y, pth y = pth x3 -> Done y (length (r_path r0), @None exit, @nil N) = Done x' (pos, e, op) ->
            exists p0 eid, Some (r_path r0) = Some p0 /\ pos = length p0 /\
              pth x' = update_nth (pth x) ri (fun p => p ++ [{| st_node := n_id n; st_exit := eid |}]) /\
              e = match eid with Some i => find_exit (n_exits n) i | None => None end /\
              (forall i, eid = Some i -> find_exit (n_exits n) i <> None)).
  { intros y Hy H; inversion H; subst. exists (r_path r0), None. split; [reflexivity|]. split; [reflexivity|].
    split; [congruence|]. split; [reflexivity|intros i C; discriminate]. }
  rewrite Hp0.
  destruct b; [apply Hnone; reflexivity|].
  destruct (s_pushed (session_ x3)); [apply Hnone; reflexivity|].
  match goal with |- context [match ?bw with Some _ => _ | None => match pick_node_exit ?A ?X ?R ?N ?P ?I ?T with _ => _ end end] =>
    destruct bw as [x4|] eqn:Ebw end.
  - apply Hnone.
    assert (H4 : pth x4 = pth x3).
    { destruct (n_router n) as [rt|]; [|discriminate]. destruct (rt_wait rt) as [[[] tmo]|]; try discriminate; try (dmatch_hyp Ebw; [discriminate|]); inversion Ebw; subst.
      all: (apply pth_log_event). }
    change (pth (with_session x4 (fun s => upd_run s ri (run_set_status RWaiting))) = pth x3). rewrite pth_upd by reflexivity. exact H4.
  - destruct (pick_node_exit a x3 ri n (length (r_path r0)) false []) as [x5 [e5 op5]| |] eqn:Epk; try discriminate.
    intros H; inversion H; subst.
    destruct (pick_node_exit_pth _ _ _ _ _ _ _ _ _ _ Hcat Epk) as [[Hs He]|(eid & Hs & He & Hv)].
    + exists (r_path r0), None. split; [reflexivity|]. split; [reflexivity|].
      split; [congruence|]. split; [exact He|intros i C; discriminate].
    + exists (r_path r0), eid. split; [reflexivity|]. split; [reflexivity|]. split; [|split; auto].
      rewrite Hs, H3, H2, H1, update_nth_twice.
      eapply update_nth_at; [exact Hp0|]. simpl. apply set_exit_at_last.
Qed.

(* ---- walks ---------------------------------------------------------------------------------------------------- *)

(* the statement's clause: a step's exit belongs to the step's node and leads to the next step's node;
   only the last step may lack an exit (and every step is on a node of the flow) *)
Definition step_ok (f : flow) (path : list step) (k : nat) (stp : step) : Prop :=
  exists n, get_node f (st_node stp) = Some n /\
    match st_exit stp with
    | None => S k = length path
    | Some eid => exists e, find_exit (n_exits n) eid = Some e /\
                  forall stp', nth_error path (S k) = Some stp' -> e_dest e = Some (st_node stp')
    end.

Definition walk (f : flow) (path : list step) : Prop :=
  forall k stp, nth_error path k = Some stp -> step_ok f path k stp.

Lemma walk_nil : forall f, walk f [].
Proof. intros f k stp H. destruct k; discriminate. Qed.

Definition exit_valid (n : node) (eid : option id) : Prop := forall i, eid = Some i -> find_exit (n_exits n) i <> None.

Lemma get_node_id : forall f d n, get_node f d = Some n -> get_node f (n_id n) = Some n.
Proof. intros f d n H. pose proof H as H'. apply find_node_in in H'. destruct H' as [_ E]. rewrite E. exact H. Qed.

(* appending a step that the last step's exit leads to *)
Lemma walk_snoc : forall f p n eid,
  walk f p -> get_node f (n_id n) = Some n -> exit_valid n eid ->
  (p = [] \/ exists stp0 n0 e0, nth_error p (pred (length p)) = Some stp0 /\ get_node f (st_node stp0) = Some n0 /\
                               (exists i0, st_exit stp0 = Some i0 /\ find_exit (n_exits n0) i0 = Some e0) /\
                               e_dest e0 = Some (n_id n)) ->
  walk f (p ++ [{| st_node := n_id n; st_exit := eid |}]).
Proof.
  intros f p n eid Hw Hn Hv Hlast k stp Hk.
  destruct (Nat.lt_ge_cases k (length p)) as [Hlt|Hge].
  - rewrite nth_error_app1 in Hk by auto. destruct (Hw _ _ Hk) as (nk & Hnk & Hex). exists nk. split; auto.
    destruct (st_exit stp) as [i|] eqn:Ei.
    + destruct Hex as (e & He & Hnext). exists e. split; auto. intros stp' Hs'.
      destruct (Nat.lt_ge_cases (S k) (length p)).
      * rewrite nth_error_app1 in Hs' by auto. auto.
      * assert (S k = length p) by lia. rewrite nth_error_app2 in Hs' by lia. replace (S k - length p)%nat with O in Hs' by lia.
        simpl in Hs'. inversion Hs'; subst stp'. simpl.
        destruct Hlast as [->|(stp0 & n0 & e0 & Hl & Hn0 & (i0 & Hi0 & He0) & Hd)]; [simpl in Hlt; lia|].
        replace (pred (length p)) with k in Hl by lia. rewrite Hk in Hl. inversion Hl; subst stp0.
        rewrite Hnk in Hn0. inversion Hn0; subst n0. rewrite Ei in Hi0. inversion Hi0; subst i0. rewrite He in He0. inversion He0; subst e0. exact Hd.
    + (* a step without exit that is no longer the last: impossible, the old last step had an exit *)
      exfalso.
      destruct Hlast as [->|(stp0 & n0 & e0 & Hl & Hn0 & (i0 & Hi0 & He0) & Hd)]; [simpl in Hlt; lia|].
      assert (k = pred (length p)) by lia. subst k. rewrite Hk in Hl. inversion Hl; subst. congruence.
  - rewrite nth_error_app2 in Hk by auto. destruct (k - length p)%nat eqn:E; simpl in Hk; [|destruct n0; discriminate].
    inversion Hk; subst stp. simpl. exists n. split; auto.
    destruct eid as [i|].
    + destruct (find_exit (n_exits n) i) as [e|] eqn:Ee; [|exfalso; eapply Hv; eauto].
      exists e. split; auto. intros stp' Hs'. rewrite nth_error_app2 in Hs' by lia.
      destruct (S k - length p)%nat eqn:E2; [lia|]. simpl in Hs'. destruct n0; discriminate.
    + rewrite app_length. simpl. lia.
Qed.

(* setting the exit of the last step *)
Lemma walk_set_last : forall f p stp n eid,
  walk f p -> nth_error p (pred (length p)) = Some stp -> p <> [] -> get_node f (st_node stp) = Some n -> exit_valid n eid ->
  walk f (set_exit_at (pred (length p)) eid p).
Proof.
  intros f p stp n eid Hw Hl Hne Hn Hv k stp' Hk. unfold set_exit_at in *.
  assert (Hlen : length (update_nth p (pred (length p)) (fun s => {| st_node := st_node s; st_exit := eid |})) = length p)
    by apply update_nth_length.
  assert (Hnodes : forall j s, nth_error (update_nth p (pred (length p)) (fun s => {| st_node := st_node s; st_exit := eid |})) j = Some s ->
                   exists s0, nth_error p j = Some s0 /\ st_node s = st_node s0).
  { intros j s Hj. destruct (Nat.eq_dec (pred (length p)) j) as [<-|Hne'].
    - rewrite nth_error_update_nth_eq, Hl in Hj. inversion Hj; subst. eauto.
    - rewrite nth_error_update_nth_neq in Hj by auto. eauto. }
  destruct (Nat.eq_dec (pred (length p)) k) as [<-|Hnk].
  - rewrite nth_error_update_nth_eq, Hl in Hk. inversion Hk; subst stp'. simpl. exists n. split; auto.
    destruct eid as [i|].
    + destruct (find_exit (n_exits n) i) as [e|] eqn:Ee; [|exfalso; eapply Hv; eauto].
      exists e. split; auto. intros s' Hs'. exfalso.
      assert (S (pred (length p)) < length p)%nat by (rewrite <- Hlen; apply nth_error_Some; congruence).
      destruct p; [contradiction|simpl in *; lia].
    + rewrite Hlen. destruct p; [contradiction|simpl; lia].
  - rewrite nth_error_update_nth_neq in Hk by auto. destruct (Hw _ _ Hk) as (nk & Hnk' & Hex). exists nk. split; auto.
    destruct (st_exit stp') as [i|].
    + destruct Hex as (e & He & Hnext). exists e. split; auto. intros s' Hs'.
      destruct (Hnodes _ _ Hs') as (s0 & Hs0 & ->). auto.
    + rewrite Hlen. exact Hex.
Qed.

(* ---- validity needed for paths: the exit of every category is an exit of the node ---------------------------- *)

Definition valid_cat_exits (a : assets) : Prop :=
  forall f n, In f (a_flows a) -> In n (f_nodes f) -> cat_exits_ok n.

Lemma valid_cat_exits_node : forall a fid f d n, valid_cat_exits a -> get_flow a fid = Some f -> get_node f d = Some n -> cat_exits_ok n.
Proof.
  intros a fid f d n Hv Hf Hn. apply find_flow_in in Hf. apply find_node_in in Hn. destruct Hf, Hn. eapply Hv; eauto.
Qed.

(* ---- invariants ----------------------------------------------------------------------------------------------- *)

(* every run's path is a walk in its flow (when the flow is in the store) *)
Definition paths_ok (a : assets) (x : st) : Prop :=
  forall i fid p f, nth_error (fl x) i = Some fid -> nth_error (pth x) i = Some p -> get_flow a fid = Some f -> walk f p.

(* the last step of path p, on node n of flow f, was left by exit e *)
Definition left_by (f : flow) (p : list step) (e : exit) : Prop :=
  exists stp n, nth_error p (pred (length p)) = Some stp /\ p <> [] /\ get_node f (st_node stp) = Some n /\
                st_exit stp = Some (e_id e) /\ find_exit (n_exits n) (e_id e) = Some e.

(* the pending exit is the exit by which the current run's last step was left *)
Definition pend (a : assets) (x : st) (l : lstate) : Prop :=
  forall e c, l_exit l = Some e -> l_cur l = Some c ->
  exists fid f p, nth_error (fl x) c = Some fid /\ get_flow a fid = Some f /\ nth_error (pth x) c = Some p /\ left_by f p e.

Lemma fl_pth_length : forall x, length (fl x) = length (pth x).
Proof. intros. unfold fl, pth. rewrite !map_length. reflexivity. Qed.

Lemma paths_ok_same : forall a x x', fl x' = fl x -> pth x' = pth x -> paths_ok a x -> paths_ok a x'.
Proof. intros a x x' Hf Hp H i fid p f. rewrite Hf, Hp. apply H. Qed.

(* paths change at one run only *)
Lemma paths_ok_update : forall a x x' ri g,
  fl x' = fl x -> pth x' = update_nth (pth x) ri g -> paths_ok a x ->
  (forall fid p f, nth_error (fl x) ri = Some fid -> nth_error (pth x) ri = Some p -> get_flow a fid = Some f -> walk f p -> walk f (g p)) ->
  paths_ok a x'.
Proof.
  intros a x x' ri g Hf Hp H Hg i fid p f. rewrite Hf, Hp. intros Hi Hpi Hfl.
  destruct (Nat.eq_dec ri i) as [->|Hne].
  - rewrite nth_error_update_nth_eq in Hpi. destruct (nth_error (pth x) i) as [p0|] eqn:E; inversion Hpi; subst.
    eapply Hg; eauto.
  - rewrite nth_error_update_nth_neq in Hpi by auto. eapply H; eauto.
Qed.

(* ---- the run-local helpers on (fl, pth) ------------------------------------------------------------------------ *)

Lemma find_resume_exit_paths : forall a x ri it tmo x' e op,
  valid_cat_exits a -> paths_ok a x -> find_resume_exit a x ri it tmo = FreOk x' e op ->
  fl x' = fl x /\ paths_ok a x' /\
  (forall e0, e = Some e0 -> exists fid f p, nth_error (fl x') ri = Some fid /\ get_flow a fid = Some f /\
                                            nth_error (pth x') ri = Some p /\ left_by f p e0).
Proof.
  intros a x ri it tmo x' e op Hv Hok. unfold find_resume_exit.
  destruct (run_status (session_ x) ri) as [[]|];
    try (intros H; inversion H; subst; split; [reflexivity|split; [exact Hok|intros e0 C; discriminate]]).
  unfold path_location. destruct (get_run (session_ x) ri) as [r|] eqn:Er; [|discriminate].
  destruct (r_path r) as [|stp0 rest] eqn:Ep; [discriminate|].
  destruct (nth_error (stp0 :: rest) (Nat.pred (length (stp0 :: rest)))) as [stp|] eqn:El; [|discriminate].
  destruct (get_flow a (r_flow r)) as [f|] eqn:Ef; [|discriminate].
  destruct (get_node f (st_node stp)) as [n|] eqn:En; [|discriminate].
  destruct (pick_node_exit a x ri n _ it tmo) as [y [e' op']| |] eqn:Epk; try discriminate.
  intros H; inversion H; subst. clear H.
  pose proof (pick_node_exit_fl _ _ _ _ _ _ _ _ _ Epk) as Hfl.
  assert (Hfi : nth_error (fl x) ri = Some (r_flow r)) by (rewrite nth_error_fl, Er; reflexivity).
  assert (Hpi : nth_error (pth x) ri = Some (stp0 :: rest)) by (rewrite nth_error_pth, Er; simpl; rewrite Ep; reflexivity).
  pose proof (valid_cat_exits_node _ _ _ _ _ Hv Ef En) as Hcat.
  destruct (pick_node_exit_pth _ _ _ _ _ _ _ _ _ _ Hcat Epk) as [[Hs He]|(eid & Hs & He & Hvl)].
  - split; [exact Hfl|]. split; [eapply paths_ok_same; eauto|]. intros e0 C; congruence.
  - split; [exact Hfl|]. split.
    + eapply paths_ok_update; [exact Hfl|exact Hs|exact Hok|].
      intros fid p f0 A B C W. rewrite Hfi in A. inversion A; subst fid. rewrite Hpi in B. inversion B; subst p.
      rewrite Ef in C. inversion C; subst f0.
      eapply walk_set_last; [exact W|exact El|discriminate|exact En|exact Hvl].
    + intros e0 He0. exists (r_flow r), f, (set_exit_at (Nat.pred (length (stp0 :: rest))) eid (stp0 :: rest)).
      split; [rewrite Hfl; exact Hfi|]. split; [exact Ef|]. split; [rewrite Hs, nth_error_update_nth_eq, Hpi; reflexivity|].
      destruct eid as [i|]; [|congruence]. rewrite He in He0.
      pose proof (find_exit_in _ _ _ He0) as [_ Hid].
      exists {| st_node := st_node stp; st_exit := Some i |}, n.
      unfold set_exit_at. rewrite update_nth_length, nth_error_update_nth_eq, El. simpl.
      split; [reflexivity|]. split; [destruct (length rest); discriminate|].
      split; [exact En|]. rewrite Hid. split; [reflexivity|exact He0].
Qed.

(* ---- the phases ------------------------------------------------------------------------------------------------ *)

(* where the destination of an iteration comes from: the first node of a freshly pushed run (empty path), or
   the exit by which the current run's last step was left *)
Definition dsrc (a : assets) (x : st) (c : nat) (dest : option id) : Prop :=
  forall d, dest = Some d ->
  exists fid f p n, nth_error (fl x) c = Some fid /\ get_flow a fid = Some f /\ nth_error (pth x) c = Some p /\
                    get_node f d = Some n /\ (p = [] \/ exists e, left_by f p e /\ e_dest e = Some d).

Lemma pick_dest_paths : forall a x l x1 l1 dest c,
  valid_assets a -> paths_ok a x -> pend a x l ->
  pick_dest a x l = (x1, l1, dest) -> l_cur l1 = Some c -> paths_ok a x1 /\ dsrc a x1 c dest.
Proof.
  intros a x l x1 l1 dest c Hv Hok Hpe. unfold pick_dest.
  destruct (s_pushed (session_ x)) as [p|].
  - intros H; inversion H; subst; clear H. cbn [l_cur]. intros Hc; inversion Hc; subst; clear Hc.
    set (x0 := if p_terminal p then with_session x exit_all_completed else x).
    assert (H0 : fl x0 = fl x /\ pth x0 = pth x).
    { unfold x0. destruct (p_terminal p); [|auto]. unfold fl, pth, exit_all_completed; simpl. rewrite !map_map. split; apply map_ext; reflexivity. }
    destruct H0 as [Hf0 Hp0].
    set (x1 := with_session x0 (fun s => set_pushed (set_runs s (s_runs s ++ [new_run (p_flow p) (l_cur l)])) None)).
    assert (Hf1 : fl x1 = fl x ++ [p_flow p]) by (unfold x1, fl; simpl; rewrite map_app; simpl; fold (fl x0); rewrite Hf0; reflexivity).
    assert (Hp1 : pth x1 = pth x ++ [[]]) by (unfold x1, pth; simpl; rewrite map_app; simpl; fold (pth x0); rewrite Hp0; reflexivity).
    assert (Hlen : length (s_runs (session_ x0)) = length (fl x)) by (rewrite <- Hf0; unfold fl; rewrite map_length; reflexivity).
    split.
    + intros i fid q f. rewrite Hf1, Hp1. intros A B C.
      destruct (Nat.lt_ge_cases i (length (fl x))) as [Hlt|Hge].
      * rewrite nth_error_app1 in A by auto. rewrite nth_error_app1 in B by (rewrite <- fl_pth_length; auto). eapply Hok; eauto.
      * rewrite nth_error_app2 in B by (rewrite <- fl_pth_length; auto).
        destruct (i - length (pth x))%nat; simpl in B; [inversion B; apply walk_nil|destruct n; discriminate].
    + intros d Hd. destruct (get_flow a (p_flow p)) as [f|] eqn:Ef; [|discriminate].
      destruct (f_nodes f) as [|n0 ns] eqn:En; [discriminate|]. inversion Hd; subst.
      exists (p_flow p), f, [], n0. rewrite Hlen, Hf1, Hp1.
      split; [rewrite nth_error_app2 by lia; rewrite Nat.sub_diag; reflexivity|]. split; [exact Ef|].
      split; [rewrite fl_pth_length, nth_error_app2 by lia; rewrite Nat.sub_diag; reflexivity|].
      split; [unfold get_node; rewrite En; simpl; rewrite N.eqb_refl; reflexivity|left; reflexivity].
  - destruct (l_exit l) as [e|] eqn:Ee.
    + intros H Hc.
      assert (Hx1 : fl x1 = fl x /\ pth x1 = pth x /\ l_cur l1 = l_cur l /\ dest = e_dest e).
      { revert H. repeat dmatch; intros H; inversion H; subst; auto. }
      destruct Hx1 as (Hf & Hp & Hc1 & Hdd). rewrite Hc1 in Hc. split; [eapply paths_ok_same; eauto|].
      destruct (Hpe e c Ee Hc) as (fid & f & p & A & B & C & D).
      intros d Hd. rewrite Hdd in Hd.
      destruct D as (stp & n & D1 & D2 & D3 & D4 & D5).
      pose proof (find_exit_in _ _ _ D5) as [Hin _].
      destruct (valid_get_node _ _ _ _ _ Hv B D3) as [[Hvd _] _].
      destruct (get_node f d) as [nd|] eqn:End; [|exfalso; eapply Hvd; eauto].
      exists fid, f, p, nd. rewrite Hf, Hp. repeat split; auto. right. exists e. split; auto.
      exists stp, n. auto.
    + intros H Hc. inversion H; subst. split; [exact Hok|]. intros d Hd. discriminate.
Qed.

Lemma goto_node_paths : forall a x l c d r,
  valid_cat_exits a -> mid_inv x l c (Some d) -> paths_ok a x -> dsrc a x c (Some d) -> goto_node a x l c d = r ->
  match r with
  | ICont x' l' => paths_ok a x' /\ pend a x' l'
  | IStop (ROk x') => paths_ok a x'
  | IStop _ => True
  end.
Proof.
  intros a x l c d r Hv M Hok Hd. unfold goto_node. cbv zeta. cbn [l_trigger l_steps l_cur l_exit l_step l_node l_operand].
  destruct (l_steps l + 1 >? max_steps (a_opts a))%Z.
  { intros <-. split.
    - eapply paths_ok_same; [apply fl_fail_run|apply pth_fail_run|exact Hok].
    - intros e c0 He. simpl in He. rewrite (mi_exit _ _ _ _ M) in He. discriminate. }
  destruct (Hd d eq_refl) as (fid & f & p & n & Hfid & Hf & Hp & Hn & Hsrc).
  rewrite nth_error_fl in Hfid.
  destruct (get_run (session_ x) c) as [r0|] eqn:Er; [|discriminate]. simpl in Hfid. inversion Hfid; subst fid.
  rewrite Hf, Hn.
  pose proof (valid_cat_exits_node _ _ _ _ _ Hv Hf Hn) as Hcat.
  destruct (visit_node a x c n (l_trigger l)) as [y [[pos e] op]|y|] eqn:Ev; try (intros <-; exact I).
  destruct (visit_node_pth _ _ _ _ _ _ _ _ _ Hcat Ev) as (p0 & eid & Hp0 & Hpos & Hpy & He & Hvl).
  pose proof (visit_node_fl _ _ _ _ _ _ _ Ev) as Hfy.
  rewrite Hp in Hp0. inversion Hp0; subst p0.
  pose proof (get_node_id _ _ _ Hn) as Hnid.
  assert (Hnd : n_id n = d) by (apply find_node_in in Hn; destruct Hn; auto).
  assert (Hoky : paths_ok a y).
  { eapply paths_ok_update; [exact Hfy|exact Hpy|exact Hok|].
    intros fid q f0 A B C W. rewrite nth_error_fl, Er in A. simpl in A. inversion A; subst fid.
    rewrite Hp in B. inversion B; subst q. rewrite Hf in C. inversion C; subst f0.
    apply walk_snoc; auto.
    destruct Hsrc as [->|(e0 & (stp & n0 & L1 & L2 & L3 & L4 & L5) & Hde)]; [left; reflexivity|right].
    exists stp, n0, e0. split; auto. split; auto. split; [exists (e_id e0); auto|]. rewrite Hnd. exact Hde. }
  destruct (sstatus_eqb (s_status (session_ y)) SWaiting); intros <-; [exact Hoky|].
  split; [exact Hoky|].
  intros e0 c0 He0 Hc0. simpl in He0, Hc0. inversion Hc0; subst c0. subst e.
  destruct eid as [i|]; [|discriminate].
  pose proof (find_exit_in _ _ _ He0) as [_ Hid].
  exists (r_flow r0), f, (p ++ [{| st_node := n_id n; st_exit := Some i |}]).
  split; [rewrite Hfy, nth_error_fl, Er; reflexivity|]. split; [exact Hf|].
  split; [rewrite Hpy, nth_error_update_nth_eq, Hp; reflexivity|].
  exists {| st_node := n_id n; st_exit := Some i |}, n. rewrite app_length. simpl.
  replace (pred (length p + 1)) with (length p) by lia.
  split; [rewrite nth_error_app2 by lia; rewrite Nat.sub_diag; reflexivity|].
  split; [destruct p; discriminate|]. split; [exact Hnid|]. rewrite Hid. split; [reflexivity|exact He0].
Qed.

Definition iter_paths (a : assets) (r : iter) : Prop :=
  match r with
  | ICont x' l' => paths_ok a x' /\ pend a x' l'
  | IStop (ROk x') => paths_ok a x'
  | IStop _ => True
  end.

Lemma pend_no_exit : forall a x l, l_exit l = None -> pend a x l.
Proof. intros a x l H e c He. congruence. Qed.

Lemma finish_run_paths : forall a x l c r,
  valid_cat_exits a -> paths_ok a x -> l_exit l = None -> finish_run a x l c = r -> iter_paths a r.
Proof.
  intros a x l c r Hv Hok He. unfold finish_run.
  set (x1 := match get_run (session_ x) c with
             | Some r => if r_exited r then x else with_session x (fun s => upd_run s c (run_exit RCompleted))
             | None => x end).
  assert (H1 : paths_ok a x1).
  { unfold x1. destruct (get_run (session_ x) c) as [r0|]; [destruct (r_exited r0)|]; auto.
    eapply paths_ok_same; [apply fl_upd; reflexivity|apply pth_upd; reflexivity|exact Hok]. }
  assert (Hfail : forall y pi sr cc, paths_ok a y -> paths_ok a (fail_run y pi sr cc)).
  { intros. eapply paths_ok_same; [apply fl_fail_run|apply pth_fail_run|assumption]. }
  cbv zeta.
  destruct (match get_run (session_ x1) c with Some r => r_parent r | None => None end) as [pi|].
  2:{ intros <-. simpl. eapply paths_ok_same; [| |exact H1]; reflexivity. }
  destruct (run_status (session_ x1) pi) as [[]|];
    try (intros <-; simpl; eapply paths_ok_same; [| |exact H1]; reflexivity).
  destruct (negb match run_status (session_ x1) c with Some RFailed => true | _ => false end).
  - destruct (run_flow_unusable a (session_ x1) pi).
    + intros <-. simpl. split; [apply Hfail; exact H1|apply pend_no_exit; exact He].
    + destruct (find_resume_exit a x1 pi false []) as [y e op|y|y|] eqn:Efre; try (intros <-; exact I).
      * destruct (find_resume_exit_paths _ _ _ _ _ _ _ _ Hv H1 Efre) as (Hf & Hp & Hl).
        intros <-. simpl. split; [exact Hp|]. intros e0 c0 He0 Hc0. simpl in He0, Hc0. inversion Hc0; subst c0. subst e. apply Hl. reflexivity.
      * pose proof (find_resume_exit_fl a x1 pi false []) as K. rewrite Efre in K. subst y.
        intros <-. simpl. split; [apply Hfail; exact H1|apply pend_no_exit; reflexivity].
  - intros <-. simpl. split; [apply Hfail; exact H1|apply pend_no_exit; exact He].
Qed.

Record path_inv (a : assets) (x : st) (l : lstate) : Prop := {
  pi_loop : loop_inv x l;
  pi_paths : paths_ok a x;
  pi_pend : pend a x l
}.

Lemma cuw_iter_paths : forall a x l,
  valid_assets a -> valid_cat_exits a -> path_inv a x l -> iter_paths a (cuw_iter a x l).
Proof.
  intros a x l Hv Hvc [HL Hok Hpe]. rewrite cuw_iter_phases.
  destruct (pick_dest a x l) as [[x1 l1] dest] eqn:Epd.
  destruct (pick_dest_inv _ _ _ _ _ _ HL Epd) as (c & M & _).
  destruct (pick_dest_paths _ _ _ _ _ _ c Hv Hok Hpe Epd (mi_cur _ _ _ _ M)) as [Hok1 Hd].
  rewrite (mi_cur _ _ _ _ M). destruct dest as [d|].
  - pose proof (goto_node_paths a x1 l1 c d _ Hvc M Hok1 Hd eq_refl) as K. unfold iter_paths.
    destruct (goto_node a x1 l1 c d) as [[]|]; auto.
  - eapply finish_run_paths; [exact Hvc|exact Hok1|apply (mi_exit _ _ _ _ M)|reflexivity].
Qed.

Lemma cuw_paths : forall a fuel x l x',
  valid_assets a -> valid_cat_exits a -> path_inv a x l -> continue_until_wait fuel a x l = ROk x' -> paths_ok a x'.
Proof.
  intros a fuel x l x' Hv Hvc HI Hr.
  pose proof (cuw_induct a (path_inv a) (fun r => match r with ROk x2 => paths_ok a x2 | _ => True end)) as P.
  specialize (P ltac:(intros x1 l1 x2 l2 H1 E; pose proof (cuw_iter_inv a x1 l1 (pi_loop _ _ _ H1)) as K;
                      pose proof (cuw_iter_paths a x1 l1 Hv Hvc H1) as F; rewrite E in K, F; destruct F; constructor; auto)).
  specialize (P ltac:(intros x1 l1 r H1 E; pose proof (cuw_iter_paths a x1 l1 Hv Hvc H1) as F; rewrite E in F; destruct r; auto)).
  specialize (P I fuel x l HI). rewrite Hr in P. exact P.
Qed.

(* ---- engine calls -------------------------------------------------------------------------------------------- *)

Definition session_paths_ok (a : assets) (s : session) : Prop :=
  forall i r f, nth_error (s_runs s) i = Some r -> get_flow a (r_flow r) = Some f -> walk f (r_path r).

Lemma paths_ok_session : forall a x, paths_ok a x <-> session_paths_ok a (session_ x).
Proof.
  intros a x. split.
  - intros H i r f Hr Hf. apply (H i (r_flow r) (r_path r) f); auto.
    + rewrite nth_error_fl. unfold get_run. rewrite Hr. reflexivity.
    + rewrite nth_error_pth. unfold get_run. rewrite Hr. reflexivity.
  - intros H i fid p f A B C. rewrite nth_error_fl in A. rewrite nth_error_pth in B. unfold get_run in *.
    destruct (nth_error (s_runs (session_ x)) i) as [r|] eqn:E; [|discriminate]. simpl in A, B. inversion A; inversion B; subst.
    eapply H; eauto.
Qed.

Lemma apply_resume_fl_pth : forall x wi sr r, fl (apply_resume x wi sr r) = fl x /\ pth (apply_resume x wi sr r) = pth x.
Proof.
  intros x wi sr r.
  assert (Hbase : forall y, fl (with_session (with_session y (fun s => match run_status s wi with
                                                                   | Some RWaiting => upd_run s wi (run_set_status RActive)
                                                                   | _ => s end)) (fun s => set_input s None)) = fl y /\
                            pth (with_session (with_session y (fun s => match run_status s wi with
                                                                   | Some RWaiting => upd_run s wi (run_set_status RActive)
                                                                   | _ => s end)) (fun s => set_input s None)) = pth y).
  { intros y. unfold fl, pth; simpl. destruct (run_status (session_ y) wi) as [[]|]; try (split; reflexivity).
    split; [change (fl (with_session y (fun s => upd_run s wi (run_set_status RActive))) = fl y); apply fl_upd; reflexivity
           |change (pth (with_session y (fun s => upd_run s wi (run_set_status RActive))) = pth y); apply pth_upd; reflexivity]. }
  destruct r; unfold apply_resume; cbv zeta.
  - rewrite fl_log_event, pth_log_event. destruct (Hbase x) as [A B]. unfold fl, pth in *; simpl in *. auto.
  - destruct (Hbase (log_event x wi sr EWaitTimedOut)) as [A B]. rewrite A, B, fl_log_event, pth_log_event. auto.
  - destruct (Hbase (log_event (with_session x (fun s => upd_run s wi (run_exit RExpired))) wi sr ERunExpired)) as [A B].
    rewrite A, B, fl_log_event, pth_log_event, fl_upd, pth_upd by reflexivity. auto.
  - destruct (Hbase (log_event x wi sr EDialEnded)) as [A B]. rewrite A, B, fl_log_event, pth_log_event. auto.
Qed.

Lemma fail_session_fl_pth : forall x wi c, fl (fail_session x wi c) = fl x /\ pth (fail_session x wi c) = pth x.
Proof.
  intros. unfold fail_session. unfold fl at 1, pth at 1. cbn [session_ with_session s_runs set_status set_runs].
  rewrite !map_map. split.
  - rewrite <- (fl_fail_run x wi None c). unfold fl. apply map_ext. intros r; destruct (r_status r); reflexivity.
  - rewrite <- (pth_fail_run x wi None c). unfold pth. apply map_ext. intros r; destruct (r_status r); reflexivity.
Qed.

Theorem start_paths : forall a t f x',
  valid_assets a -> valid_cat_exits a -> start a t f = ROk x' -> session_paths_ok a (session_ x').
Proof.
  intros a t f x' Hv Hvc. unfold start. destruct (get_flow a f) as [fl0|]; [|discriminate].
  intros H. apply paths_ok_session. eapply cuw_paths; eauto. constructor.
  - apply loop_inv_start.
  - intros i fid p f0 A. destruct i; discriminate.
  - apply pend_no_exit. reflexivity.
Qed.

Theorem resume_paths : forall a s r tmo x',
  valid_assets a -> valid_cat_exits a -> post_inv s -> session_paths_ok a s ->
  resume_session a s r tmo = Resumed (ROk x') -> session_paths_ok a (session_ x').
Proof.
  intros a s r tmo x' Hv Hvc Hpost Hs H. apply paths_ok_session.
  assert (H0 : paths_ok a (resume_x0 s)) by (apply paths_ok_session; exact Hs).
  destruct (resume_decompose _ _ _ _ _ Hpost H) as [(y & wi & c & E & _ & _ & _ & _ & Hy)|(x2 & l & E & HL & _ & _ & _ & wi & pos & e & op & _ & Hc & He & Hfre & _)].
  - inversion E; subst. destruct (fail_session_fl_pth y wi c) as [A B].
    eapply paths_ok_same; [exact A|exact B|]. destruct Hy as [->|(pos & n0 & _ & ->)]; [exact H0|].
    destruct (apply_resume_fl_pth (resume_x0 s) wi (Some (wi, pos)) r) as [A' B']. eapply paths_ok_same; eauto.
  - destruct (apply_resume_fl_pth (resume_x0 s) wi (Some (wi, pos)) r) as [A' B'].
    assert (H1 : paths_ok a (apply_resume (resume_x0 s) wi (Some (wi, pos)) r)) by (eapply paths_ok_same; eauto).
    destruct (find_resume_exit_paths _ _ _ _ _ _ _ _ Hvc H1 Hfre) as (_ & Hp2 & Hl2).
    symmetry in E. eapply cuw_paths; [exact Hv|exact Hvc| |exact E]. constructor; auto.
    intros e0 c0 He0 Hc0. rewrite Hc in Hc0. inversion Hc0; subst c0. rewrite He0 in He. apply Hl2. congruence.
Qed.

(* histories over one store of validated definitions *)
Inductive reachable_in (a : assets) : session -> Prop :=
| rin_start : forall t f x, start a t f = ROk x -> reachable_in a (session_ x)
| rin_resume : forall s r tmo x, reachable_in a s -> resume_session a s r tmo = Resumed (ROk x) -> reachable_in a (session_ x).

Lemma reachable_in_reachable : forall a s, reachable_in a s -> reachable s.
Proof. induction 1; eauto using reachable. Qed.

Theorem reachable_paths : forall a s, valid_assets a -> valid_cat_exits a -> reachable_in a s -> session_paths_ok a s.
Proof.
  intros a s Hv Hvc H. induction H.
  - eapply start_paths; eauto.
  - eapply resume_paths; eauto. apply reachable_post. eapply reachable_in_reachable; eauto.
Qed.

Lemma valid_cat_exits_b_sound : forall a, valid_cat_exits_b a = true -> valid_cat_exits a.
Proof.
  intros a H f n Hf Hn rt c Hr Hc. unfold valid_cat_exits_b in H. rewrite forallb_forall in H. specialize (H f Hf).
  rewrite forallb_forall in H. specialize (H n Hn). rewrite Hr in H. rewrite forallb_forall in H. specialize (H c Hc).
  destruct (find_exit (n_exits n) (cat_exit c)); [discriminate|discriminate H].
Qed.

(* ================================================================================================== *)
(* The waiting run sits on a node whose router has a wait (C01 clause 2, second half)                  *)
(* ================================================================================================== *)

Lemma visit_node_waiting_node : forall a x ri n wt x' v,
  visit_node a x ri n wt = Done x' v -> s_status (session_ x) <> SWaiting -> s_status (session_ x') = SWaiting ->
  wait_of n <> None.
Proof.
  intros a x ri n wt x' v. unfold visit_node.
  destruct (get_run (session_ x) ri) as [r0|] eqn:Er; [|discriminate].
  set (x1 := with_session x (fun s => upd_run s ri (run_add_step {| st_node := n_id n; st_exit := None |}))).
  match goal with |- context [exec_actions a ?X ri ?P n ?A] => set (x2 := X) end.
  assert (S2 : s_status (session_ x2) = s_status (session_ x)).
  { unfold x2. destruct wt; [destruct (s_trigger (session_ x1))|]; reflexivity. }
  destruct (exec_actions a x2 ri (length (r_path r0)) n (n_actions n)) as [x3 b| |] eqn:Ea; try discriminate.
  destruct (exec_actions_status a (n_actions n) x2 ri (length (r_path r0)) n x3 b Ea) as [S3 _].
  destruct b; [intros H A B; inversion H; subst; exfalso; apply A; congruence|].
  destruct (s_pushed (session_ x3)); [intros H A B; inversion H; subst; exfalso; apply A; congruence|].
  match goal with |- context [match ?bw with Some _ => _ | None => match pick_node_exit ?A ?X ?R ?N ?P ?I ?T with _ => _ end end] =>
    destruct bw as [x4|] eqn:Ebw end.
  - intros _ _ _. unfold wait_of. destruct (n_router n) as [rt|]; [|discriminate]. destruct (rt_wait rt); [discriminate|discriminate Ebw].
  - destruct (pick_node_exit a x3 ri n (length (r_path r0)) false []) as [x5 [e5 op5]| |] eqn:Epk; try discriminate.
    intros H A B; inversion H; subst. exfalso. apply A.
    destruct (pick_node_exit_shape _ _ _ _ _ _ _ _ _ _ Epk) as [[]|[_ []]]; congruence.
Qed.

(* when visitNode makes the session wait, it has appended one step (without exit) on the node *)
Lemma visit_node_waiting_path : forall a x ri n wt x' v,
  visit_node a x ri n wt = Done x' v -> s_status (session_ x) <> SWaiting -> s_status (session_ x') = SWaiting ->
  pth x' = update_nth (pth x) ri (fun p => p ++ [{| st_node := n_id n; st_exit := None |}]).
Proof.
  intros a x ri n wt x' v. unfold visit_node.
  destruct (get_run (session_ x) ri) as [r0|] eqn:Er; [|discriminate].
  set (x1 := with_session x (fun s => upd_run s ri (run_add_step {| st_node := n_id n; st_exit := None |}))).
  assert (H1 : pth x1 = update_nth (pth x) ri (fun p => p ++ [{| st_node := n_id n; st_exit := None |}])).
  { apply (pth_upd_path x ri _ (fun p => p ++ [{| st_node := n_id n; st_exit := None |}])). reflexivity. }
  match goal with |- context [exec_actions a ?X ri ?P n ?A] => set (x2 := X) end.
  assert (S2 : s_status (session_ x2) = s_status (session_ x) /\ pth x2 = pth x1).
  { unfold x2. destruct wt; [destruct (s_trigger (session_ x1))|]; split; try reflexivity. rewrite pth_log_event. reflexivity. }
  destruct S2 as [S2 P2].
  destruct (exec_actions a x2 ri (length (r_path r0)) n (n_actions n)) as [x3 b| |] eqn:Ea; try discriminate.
  destruct (exec_actions_status a (n_actions n) x2 ri (length (r_path r0)) n x3 b Ea) as [S3 _].
  pose proof (exec_actions_pth _ _ _ _ _ _ _ _ Ea) as P3.
  destruct b; [intros H A B; inversion H; subst; exfalso; apply A; congruence|].
  destruct (s_pushed (session_ x3)); [intros H A B; inversion H; subst; exfalso; apply A; congruence|].
  match goal with |- context [match ?bw with Some _ => _ | None => match pick_node_exit ?A ?X ?R ?N ?P ?I ?T with _ => _ end end] =>
    destruct bw as [x4|] eqn:Ebw end.
  - intros H _ _; inversion H; subst.
    assert (H4 : pth x4 = pth x3).
    { destruct (n_router n) as [rt|]; [|discriminate]. destruct (rt_wait rt) as [[[] tmo]|]; try discriminate; try (dmatch_hyp Ebw; [discriminate|]); inversion Ebw; subst.
      all: (apply pth_log_event). }
    change (pth (with_session x4 (fun s => upd_run s ri (run_set_status RWaiting))) = update_nth (pth x) ri (fun p => p ++ [{| st_node := n_id n; st_exit := None |}])).
    rewrite pth_upd by reflexivity. congruence.
  - destruct (pick_node_exit a x3 ri n (length (r_path r0)) false []) as [x5 [e5 op5]| |] eqn:Epk; try discriminate.
    intros H A B; inversion H; subst. exfalso. apply A.
    destruct (pick_node_exit_shape _ _ _ _ _ _ _ _ _ _ Epk) as [[]|[_ []]]; congruence.
Qed.

(* every waiting run is located on a node whose router has a wait *)
Definition waiting_on_wait (a : assets) (s : session) : Prop :=
  forall i r, nth_error (s_runs s) i = Some r -> r_status r = RWaiting ->
  exists pos n, path_location a s i = Some (pos, n) /\ wait_of n <> None.

Lemma goto_node_waiting : forall a x l c d x',
  mid_inv x l c (Some d) -> goto_node a x l c d = IStop (ROk x') -> waiting_on_wait a (session_ x').
Proof.
  intros a x l c d x' M. unfold goto_node. cbv zeta. cbn [l_trigger l_steps l_cur l_exit l_step l_node l_operand].
  destruct (l_steps l + 1 >? max_steps (a_opts a))%Z; [discriminate|].
  destruct (get_run (session_ x) c) as [r0|] eqn:Er; [|discriminate].
  destruct (get_flow a (r_flow r0)) as [f|] eqn:Ef; [|discriminate].
  destruct (get_node f d) as [n|] eqn:En; [|discriminate].
  destruct (visit_node a x c n (l_trigger l)) as [y [[pos e] op]|y|] eqn:Ev; try discriminate.
  destruct (sstatus_eqb (s_status (session_ y)) SWaiting) eqn:Es; [|discriminate].
  intros H; inversion H; subst y; clear H. apply sstatus_eqb_true in Es.
  assert (Hns : s_status (session_ x) <> SWaiting) by (rewrite (mi_status _ _ _ _ M); discriminate).
  pose proof (visit_node_waiting_node _ _ _ _ _ _ _ Ev Hns Es) as Hw.
  assert (Hact : status_at x c = Some RActive) by (rewrite status_at_st_at; apply (mi_dest _ _ _ _ M); discriminate).
  destruct (visit_node_shape _ _ _ _ _ _ _ _ _ Hact (mi_pushed _ _ _ _ M) Ev) as [Ho _].
  assert (Hsh : shape (session_ x') = wait_at c (shape (session_ x))).
  { destruct Ho as [_ Ht _ _|p _ Ht _ _|Hs _ _ _|_ Ht _]; auto; exfalso; apply Hns; congruence. }
  pose proof (visit_node_waiting_path _ _ _ _ _ _ _ Ev Hns Es) as Hpy.
  assert (Hp0 : nth_error (pth x) c = Some (r_path r0)) by (rewrite nth_error_pth, Er; reflexivity).
  set (p0 := r_path r0) in *. set (eid := @None id).
  pose proof (visit_node_fl _ _ _ _ _ _ _ Ev) as Hfy.
  intros i r Hi Hrs.
  (* only run c is waiting *)
  assert (i = c).
  { destruct (Nat.eq_dec i c); auto. exfalso.
    assert (Hz : nth_error (shape (session_ x')) i = Some (shp_of r)) by (rewrite nth_error_shape, Hi; reflexivity).
    rewrite Hsh in Hz. unfold wait_at in Hz. rewrite nth_error_update_nth_neq in Hz by auto.
    eapply (mi_nw _ _ _ _ M); eauto. }
  subst i.
  assert (Hfl : r_flow r = r_flow r0).
  { assert (K : nth_error (fl x') c = nth_error (fl x) c) by (rewrite Hfy; reflexivity).
    rewrite !nth_error_fl in K. unfold get_run in K at 1. rewrite Hi, Er in K. simpl in K. congruence. }
  assert (Hpath : r_path r = p0 ++ [{| st_node := n_id n; st_exit := eid |}]).
  { assert (K : nth_error (pth x') c = Some (p0 ++ [{| st_node := n_id n; st_exit := eid |}])).
    { rewrite Hpy, nth_error_update_nth_eq, Hp0. reflexivity. }
    rewrite nth_error_pth in K. unfold get_run in K. rewrite Hi in K. simpl in K. congruence. }
  exists (length p0), n. split; [|exact Hw].
  unfold path_location, get_run. rewrite Hi, Hpath, Hfl, Ef.
  destruct (p0 ++ [{| st_node := n_id n; st_exit := eid |}]) as [|s0 rest] eqn:Epp; [destruct p0; discriminate|].
  rewrite <- Epp, app_length. simpl. replace (Nat.pred (length p0 + 1)) with (length p0) by lia.
  rewrite nth_error_app2 by lia. rewrite Nat.sub_diag. simpl. rewrite (get_node_id _ _ _ En). reflexivity.
Qed.

Lemma none_live_waiting_on_wait : forall a s, none_live (shape s) -> waiting_on_wait a s.
Proof.
  intros a s H i r Hi Hr. exfalso.
  assert (Hz : nth_error (shape s) i = Some (shp_of r)) by (rewrite nth_error_shape, Hi; reflexivity).
  destruct (H _ _ Hz) as [_ C]. apply C. exact Hr.
Qed.

Lemma cuw_waiting : forall a fuel x l x',
  loop_inv x l -> continue_until_wait fuel a x l = ROk x' -> waiting_on_wait a (session_ x').
Proof.
  intros a fuel x l x' HL Hr.
  pose proof (cuw_induct a loop_inv (fun r => match r with ROk x2 => waiting_on_wait a (session_ x2) | _ => True end)) as P.
  specialize (P ltac:(intros x1 l1 x2 l2 H1 E; pose proof (cuw_iter_inv a x1 l1 H1) as K; rewrite E in K; exact K)).
  assert (Hstop : forall x1 l1 r, loop_inv x1 l1 -> cuw_iter a x1 l1 = IStop r ->
                  match r with ROk x2 => waiting_on_wait a (session_ x2) | _ => True end).
  { intros x1 l1 r H1 E. destruct r as [x2| | |]; auto.
    pose proof (cuw_iter_inv a x1 l1 H1) as K. rewrite E in K.
    rewrite cuw_iter_phases in E.
    destruct (pick_dest a x1 l1) as [[y ly] dest] eqn:Epd.
    destruct (pick_dest_inv _ _ _ _ _ _ H1 Epd) as (c & M & _). rewrite (mi_cur _ _ _ _ M) in E.
    destruct dest as [d|].
    - eapply goto_node_waiting; eauto.
    - (* the loop stops in finish_run: the session is completed or failed, no run is waiting *)
      destruct K as [_ [_ K]].
      assert (Hst : s_status (session_ x2) = SFailed \/ s_status (session_ x2) = SCompleted).
      { revert E. unfold finish_run. repeat dmatch; intros E; inversion E; subst; simpl; auto. }
      apply none_live_waiting_on_wait. destruct Hst as [Hst|Hst]; rewrite Hst in K; exact K. }
  specialize (P Hstop I fuel x l HL). rewrite Hr in P. exact P.
Qed.

Theorem start_waiting_on_wait : forall a t f x',
  start a t f = ROk x' -> waiting_on_wait a (session_ x').
Proof.
  intros a t f x'. unfold start. destruct (get_flow a f) as [fl0|]; [|discriminate].
  intros H. eapply cuw_waiting; eauto. apply loop_inv_start.
Qed.

Theorem resume_waiting_on_wait : forall a s r tmo x',
  post_inv s -> resume_session a s r tmo = Resumed (ROk x') -> waiting_on_wait a (session_ x').
Proof.
  intros a s r tmo x' Hpost H.
  destruct (resume_decompose _ _ _ _ _ Hpost H) as [(y & wi & c & E & Hc & Hp & _)|(x2 & l & E & HL & _)].
  - inversion E; subst. apply none_live_waiting_on_wait.
    pose proof (fail_session_post y wi c Hc Hp) as [_ [_ K]]. exact K.
  - symmetry in E. eapply cuw_waiting; eauto.
Qed.

(* ================================================================================================== *)
(* The "unable to resolve router exit" failure (FRouteError) cannot happen on validated definitions     *)
(* ================================================================================================== *)

Lemma path_location_frame : forall a x y i, fl y = fl x -> pth y = pth x ->
  path_location a (session_ y) i = path_location a (session_ x) i.
Proof.
  intros a x y i Hf Hp.
  assert (A : option_map r_flow (get_run (session_ y) i) = option_map r_flow (get_run (session_ x) i)) by (rewrite <- !nth_error_fl, Hf; reflexivity).
  assert (B : option_map r_path (get_run (session_ y) i) = option_map r_path (get_run (session_ x) i)) by (rewrite <- !nth_error_pth, Hp; reflexivity).
  unfold path_location. destruct (get_run (session_ y) i) as [ry|], (get_run (session_ x) i) as [rx|]; simpl in A, B; try discriminate; auto.
  inversion A as [A']. inversion B as [B']. rewrite A', B'. reflexivity.
Qed.

Lemma path_location_node : forall a s i pos n, path_location a s i = Some (pos, n) ->
  exists r f stp, get_run s i = Some r /\ get_flow a (r_flow r) = Some f /\ get_node f (st_node stp) = Some n.
Proof.
  intros a s i pos n. unfold path_location. destruct (get_run s i) as [r|]; [|discriminate].
  destruct (r_path r); [discriminate|]. destruct (nth_error _ _) as [stp|]; [|discriminate].
  destruct (get_flow a (r_flow r)) as [f|] eqn:Ef; [|discriminate].
  destruct (get_node f (st_node stp)) as [n'|] eqn:En; [|discriminate]. intros H; inversion H; subst.
  exists r, f, stp. repeat split; auto.
Qed.

Lemma pick_node_exit_timeout_no_goerr : forall a x ri n pos tmo rt w sec ci x',
  n_router n = Some rt -> valid_router rt -> rt_wait rt = Some w -> w_timeout w = Some (sec, ci) ->
  pick_node_exit a x ri n pos true tmo <> GoErr x'.
Proof.
  intros a x ri n pos tmo rt w sec ci x' Hr (_ & _ & Hw) Hrw Hto. unfold pick_node_exit. rewrite Hr.
  unfold route_timeout. rewrite Hrw. destruct w as [wt wtm]. simpl in Hto. subst wtm.
  destruct (route_to_category a x ri (Some (ri, pos)) n rt (Some ci) tmo []) as [y v| |] eqn:E; try discriminate.
  - destruct v; discriminate.
  - exfalso. eapply route_to_category_no_goerr; [|exact E]. eapply Hw; [exact Hrw|reflexivity].
Qed.

Theorem route_error_unreachable : forall a s r tmo wi pos n rt w y,
  valid_assets a -> path_location a s wi = Some (pos, n) -> n_router n = Some rt -> rt_wait rt = Some w ->
  accepts w r = true ->
  find_resume_exit a (apply_resume (resume_x0 s) wi (Some (wi, pos)) r) wi (is_timeout r) tmo <> FreErr y.
Proof.
  intros a s r tmo wi pos n rt w y Hv Hpl Hr Hrw Hacc.
  destruct (apply_resume_fl_pth (resume_x0 s) wi (Some (wi, pos)) r) as [Hf Hp].
  set (x1 := apply_resume (resume_x0 s) wi (Some (wi, pos)) r) in *.
  assert (Hpl1 : path_location a (session_ x1) wi = Some (pos, n)).
  { rewrite (path_location_frame a (resume_x0 s) x1 wi Hf Hp). exact Hpl. }
  destruct (path_location_node _ _ _ _ _ Hpl) as (r0 & f & stp & _ & Hfl & Hn).
  destruct (valid_get_node _ _ _ _ _ Hv Hfl Hn) as [[_ Hvr] _].
  unfold find_resume_exit. destruct (run_status (session_ x1) wi) as [[]|]; try discriminate.
  rewrite Hpl1. destruct (pick_node_exit a x1 wi n pos (is_timeout r) tmo) as [z [e op]|z|] eqn:E; try discriminate.
  exfalso. destruct r; simpl in E.
  - eapply pick_node_exit_route_no_goerr; [|exact E]. exact Hvr.
  - destruct w as [wt [[sec ci]|]]; simpl in Hacc; [|destruct wt; discriminate].
    eapply pick_node_exit_timeout_no_goerr; [exact Hr|apply Hvr; exact Hr|exact Hrw|reflexivity|exact E].
  - eapply pick_node_exit_route_no_goerr; [|exact E]. exact Hvr.
  - eapply pick_node_exit_route_no_goerr; [|exact E]. exact Hvr.
Qed.

(* ================================================================================================== *)
(* On an unchanged store the flow of every run is in the store                                         *)
(* ================================================================================================== *)

Definition flows_known (a : assets) (x : st) : Prop :=
  (forall i fid, nth_error (fl x) i = Some fid -> get_flow a fid <> None) /\
  (forall p, s_pushed (session_ x) = Some p -> get_flow a (p_flow p) <> None).

Lemma flows_known_same : forall a x x', fl x' = fl x -> s_pushed (session_ x') = s_pushed (session_ x) ->
  flows_known a x -> flows_known a x'.
Proof. intros a x x' Hf Hp [A B]. split; [rewrite Hf; exact A|rewrite Hp; exact B]. Qed.

Lemma exec_actions_known : forall a acts x ri pos n x' b,
  flows_known a x -> exec_actions a x ri pos n acts = Done x' b -> flows_known a x'.
Proof.
  induction acts as [|act acts IH]; intros x ri pos n x' b H; simpl.
  - intros E; inversion E; subst; auto.
  - destruct (exec_action a x ri pos n act) as [y v| |] eqn:E; try discriminate.
    assert (Hy : flows_known a y).
    { revert E. unfold exec_action. destruct act.
      - destruct (trunc_ellipsis _ _); [|discriminate]. intros E; inversion E; subst.
        eapply flows_known_same; [apply fl_log_event|reflexivity|exact H].
      - destruct (trunc_ellipsis _ _); [|discriminate]. intros E.
        eapply flows_known_same; [eapply save_and_log_fl; eauto|apply (ss_pushed _ _ (save_and_log_shape _ _ _ _ _ _ _ _ _ _ _ E))|exact H].
      - destruct (get_flow a flow) as [f0|] eqn:Ef; [destruct (negb _)|]; intros E; inversion E; subst.
        + eapply flows_known_same; [apply (fl_fail_run x ri (Some (ri, pos)) FEnterFlowType)|reflexivity|exact H].
        + destruct H as [A B]. split; [rewrite fl_log_event; exact A|]. simpl. intros p Hp; inversion Hp; subst. simpl. congruence.
        + eapply flows_known_same; [apply (fl_fail_run x ri (Some (ri, pos)) FEnterMissingFlow)|reflexivity|exact H]. }
    destruct (run_status (session_ y) ri) as [[]|]; try (intros E'; eapply IH; [exact Hy|exact E']).
    intros E'; inversion E'; subst. destruct Hy as [A B]. split; [exact A|]. simpl. intros p Hp; discriminate.
Qed.

Lemma visit_node_known : forall a x ri n wt x' v,
  flows_known a x -> visit_node a x ri n wt = Done x' v -> flows_known a x'.
Proof.
  intros a x ri n wt x' v H. unfold visit_node.
  destruct (get_run (session_ x) ri) as [r0|] eqn:Er; [|discriminate].
  set (x1 := with_session x (fun s => upd_run s ri (run_add_step {| st_node := n_id n; st_exit := None |}))).
  match goal with |- context [exec_actions a ?X ri ?P n ?A] => set (x2 := X) end.
  assert (H1 : flows_known a x1) by (eapply flows_known_same; [apply fl_upd; reflexivity|reflexivity|exact H]).
  assert (H2 : flows_known a x2).
  { unfold x2. destruct wt; [destruct (s_trigger (session_ x1))|]; try exact H1.
    eapply flows_known_same; [rewrite fl_log_event; reflexivity|reflexivity|exact H1]. }
  destruct (exec_actions a x2 ri (length (r_path r0)) n (n_actions n)) as [x3 b| |] eqn:Ea; try discriminate.
  pose proof (exec_actions_known _ _ _ _ _ _ _ _ H2 Ea) as H3.
  destruct b; [intros E; inversion E; subst; exact H3|].
  destruct (s_pushed (session_ x3)) eqn:Ep3; [intros E; inversion E; subst; exact H3|].
  match goal with |- context [match ?bw with Some _ => _ | None => match pick_node_exit ?A ?X ?R ?N ?P ?I ?T with _ => _ end end] =>
    destruct bw as [x4|] eqn:Ebw end.
  - intros E; inversion E; subst.
    assert (H4 : fl x4 = fl x3 /\ s_pushed (session_ x4) = s_pushed (session_ x3)).
    { destruct (n_router n) as [rt|]; [|discriminate]. destruct (rt_wait rt) as [[[] tmo]|]; try discriminate; try (dmatch_hyp Ebw; [discriminate|]); inversion Ebw; subst.
      all: (split; [apply fl_log_event|reflexivity]). }
    destruct H4 as [F4 P4]. eapply flows_known_same; [|simpl; exact P4|exact H3].
    change (fl (with_session x4 (fun s => upd_run s ri (run_set_status RWaiting))) = fl x3). rewrite fl_upd by reflexivity. exact F4.
  - destruct (pick_node_exit a x3 ri n (length (r_path r0)) false []) as [x5 [e5 op5]| |] eqn:Epk; try discriminate.
    intros E; inversion E; subst.
    eapply flows_known_same; [eapply pick_node_exit_fl; eauto| |exact H3].
    destruct (pick_node_exit_shape _ _ _ _ _ _ _ _ _ _ Epk) as [[]|[_ []]]; assumption.
Qed.

Definition iter_known (a : assets) (r : iter) : Prop :=
  match r with ICont x' _ => flows_known a x' | IStop (ROk x') => flows_known a x' | _ => True end.

Lemma cuw_iter_known : forall a x l, flows_known a x -> iter_known a (cuw_iter a x l).
Proof.
  intros a x l H. rewrite cuw_iter_phases.
  destruct (pick_dest a x l) as [[x1 l1] dest] eqn:Epd.
  assert (H1 : flows_known a x1).
  { revert Epd. unfold pick_dest. destruct (s_pushed (session_ x)) as [p|] eqn:Ep.
    - intros E; inversion E; subst; clear E. destruct H as [A B]. split; [|simpl; intros q Hq; discriminate].
      intros i fid Hi. unfold fl in Hi; simpl in Hi. rewrite map_app in Hi. simpl in Hi.
      assert (Hfl0 : map r_flow (s_runs (session_ (if p_terminal p then with_session x exit_all_completed else x))) = fl x).
      { destruct (p_terminal p); [|reflexivity]. unfold fl, exit_all_completed; simpl. rewrite map_map. apply map_ext. reflexivity. }
      rewrite Hfl0 in Hi. apply nth_error_snoc_inv in Hi. destruct Hi as [[_ Hi]|[_ ->]]; [eapply A; eauto|eapply B; eauto].
    - destruct (l_exit l); [|intros E; inversion E; subst; exact H].
      intros E. assert (Hs : session_ x1 = session_ x) by (revert E; repeat dmatch; intros E; inversion E; subst; auto).
      eapply flows_known_same; [unfold fl; rewrite Hs; reflexivity|rewrite Hs; reflexivity|exact H]. }
  destruct (l_cur l1) as [c|]; [|exact I].
  destruct dest as [d|].
  - unfold goto_node. cbv zeta. cbn [l_trigger l_steps l_cur l_exit l_step l_node l_operand].
    destruct (l_steps l1 + 1 >? max_steps (a_opts a))%Z.
    { simpl. eapply flows_known_same; [apply fl_fail_run|reflexivity|exact H1]. }
    destruct (get_run (session_ x1) c) as [r0|]; [|exact I].
    destruct (get_flow a (r_flow r0)) as [f|]; [|exact I].
    destruct (get_node f d) as [n|]; [|exact I].
    destruct (visit_node a x1 c n (l_trigger l1)) as [y [[pos e] op]|y|] eqn:Ev; try exact I.
    pose proof (visit_node_known _ _ _ _ _ _ _ H1 Ev) as Hy.
    destruct (sstatus_eqb (s_status (session_ y)) SWaiting); exact Hy.
  - assert (K : forall r, finish_run a x1 l1 c = r -> iter_known a r).
    { intros r. unfold finish_run.
      set (y1 := match get_run (session_ x1) c with
                 | Some r => if r_exited r then x1 else with_session x1 (fun s => upd_run s c (run_exit RCompleted))
                 | None => x1 end).
      assert (Hy1 : flows_known a y1).
      { unfold y1. destruct (get_run (session_ x1) c) as [r0|]; [destruct (r_exited r0)|]; auto.
        eapply flows_known_same; [apply fl_upd; reflexivity|reflexivity|exact H1]. }
      assert (Hfail : forall pi sr cc, flows_known a (fail_run y1 pi sr cc)).
      { intros. eapply flows_known_same; [apply fl_fail_run|reflexivity|exact Hy1]. }
      cbv zeta.
      destruct (match get_run (session_ y1) c with Some r => r_parent r | None => None end) as [pi|].
      2:{ intros <-. simpl. eapply flows_known_same; [| |exact Hy1]; reflexivity. }
      destruct (run_status (session_ y1) pi) as [[]|];
        try (intros <-; simpl; eapply flows_known_same; [| |exact Hy1]; reflexivity).
      destruct (negb match run_status (session_ y1) c with Some RFailed => true | _ => false end).
      - destruct (run_flow_unusable a (session_ y1) pi); [intros <-; apply Hfail|].
        pose proof (find_resume_exit_fl a y1 pi false []) as Kf. pose proof (find_resume_exit_shape a y1 pi false []) as Ks.
        destruct (find_resume_exit a y1 pi false []) as [z e op|z|z|]; try (intros <-; exact I).
        + intros <-. simpl. eapply flows_known_same; [exact Kf| |exact Hy1].
          destruct Ks as [[[] _]|[_ []]]; assumption.
        + subst z. intros <-. apply Hfail.
      - intros <-. apply Hfail. }
    apply K. reflexivity.
Qed.

Lemma cuw_known : forall a fuel x l x', flows_known a x -> continue_until_wait fuel a x l = ROk x' -> flows_known a x'.
Proof.
  intros a fuel x l x' H Hr.
  pose proof (cuw_induct a (fun x1 _ => flows_known a x1) (fun r => match r with ROk x2 => flows_known a x2 | _ => True end)) as P.
  specialize (P ltac:(intros x1 l1 x2 l2 H1 E; pose proof (cuw_iter_known a x1 l1 H1) as K; rewrite E in K; exact K)).
  specialize (P ltac:(intros x1 l1 r H1 E; pose proof (cuw_iter_known a x1 l1 H1) as K; rewrite E in K; destruct r; auto)).
  specialize (P I fuel x l H). rewrite Hr in P. exact P.
Qed.

Theorem reachable_flows_known : forall a s, reachable_in a s ->
  forall i r, nth_error (s_runs s) i = Some r -> exists f, get_flow a (r_flow r) = Some f.
Proof.
  intros a s H.
  assert (K : flows_known a {| session_ := s; sprint_ := empty_sprint |}).
  { induction H.
    - revert H. unfold start. destruct (get_flow a f) as [fl0|] eqn:Ef; [|discriminate]. intros H.
      assert (K0 : flows_known a {| session_ := set_pushed (set_type (new_session t f) (f_type fl0)) (Some {| p_flow := f; p_terminal := false |});
                                    sprint_ := empty_sprint |}).
      { split; [intros i fid Hi; destruct i; discriminate|]. simpl. intros p Hp; inversion Hp; subst; simpl. congruence. }
      pose proof (cuw_known a _ _ _ _ K0 H) as [A B]. split; [exact A|exact B].
    - assert (Hpost : post_inv s) by (apply reachable_post; eapply reachable_in_reachable; eauto).
      assert (H1 : flows_known a (resume_x0 s)) by (eapply flows_known_same; [| |exact IHreachable_in]; reflexivity).
      destruct (resume_decompose _ _ _ _ _ Hpost H0) as [(y & wi & c & E & _ & _ & _ & _ & Hy)|(x2 & l & E & _ & _ & _ & _ & wi & pos & e & op & _ & _ & _ & Hfre & _)].
      + inversion E; subst. destruct (fail_session_fl_pth y wi c) as [A _].
        assert (Hyk : flows_known a y).
        { destruct Hy as [->|(pos & n & _ & ->)]; [exact IHreachable_in|].
          destruct (apply_resume_fl_pth (resume_x0 s) wi (Some (wi, pos)) r) as [A' _].
          destruct (apply_resume_shape (resume_x0 s) wi (Some (wi, pos)) r) as (g & _ & _ & _ & Hp & _).
          eapply flows_known_same; [exact A'|exact Hp|exact H1]. }
        eapply flows_known_same; [exact A|reflexivity|exact Hyk].
      + destruct (apply_resume_fl_pth (resume_x0 s) wi (Some (wi, pos)) r) as [A' _].
        destruct (apply_resume_shape (resume_x0 s) wi (Some (wi, pos)) r) as (g & _ & _ & _ & Hp & _).
        assert (H2 : flows_known a (apply_resume (resume_x0 s) wi (Some (wi, pos)) r)) by (eapply flows_known_same; [exact A'|exact Hp|exact H1]).
        pose proof (find_resume_exit_fl a (apply_resume (resume_x0 s) wi (Some (wi, pos)) r) wi (is_timeout r) tmo) as Kf. rewrite Hfre in Kf.
        pose proof (find_resume_exit_shape a (apply_resume (resume_x0 s) wi (Some (wi, pos)) r) wi (is_timeout r) tmo) as Ks. rewrite Hfre in Ks.
        assert (H3 : flows_known a x2).
        { eapply flows_known_same; [exact Kf| |exact H2]. destruct Ks as [[[] _]|[_ []]]; assumption. }
        symmetry in E. pose proof (cuw_known a _ _ _ _ H3 E) as [A B]. split; [exact A|exact B]. }
  intros i r Hi. destruct K as [A _].
  destruct (get_flow a (r_flow r)) as [f|] eqn:Ef; [eauto|]. exfalso. apply (A i (r_flow r)); [|exact Ef].
  rewrite nth_error_fl. unfold get_run. simpl. rewrite Hi. reflexivity.
Qed.
