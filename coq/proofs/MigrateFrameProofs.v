(* MigrateFrameProofs.v -- what a migration may change, for an arbitrary refactoring function tx.
   [txr tx a b]: b has the shape of a (same constructors, same array lengths, same object keys in the same order) and
   every text leaf of b is the corresponding leaf of a with tx applied to it zero or more times.
   (More than once only if two catalogue paths of one action reach the same leaf; the generated catalogue has no such
   pair, but the statement does not depend on that.) *)
From Coq Require Import List NArith ZArith Bool String Lia.
From Verif Require Import lib.Json gen.MigrationTable model.Migrate proofs.MigrateProofs.
Import ListNotations.
Open Scope N_scope.

Section Txr.
  Variable tx : str -> str.

  Fixpoint iter_tx (n : nat) (x : str) : str := match n with O => x | S n => tx (iter_tx n x) end.

  Fixpoint txr (a b : json) {struct a} : Prop :=
    match a, b with
    | JNull, JNull => True
    | JBool x, JBool y => x = y
    | JNum m e, JNum m' e' => m = m' /\ e = e'
    | JStr x, JStr y => exists n : nat, y = iter_tx n x
    | JArr l, JArr l' =>
        (fix go (l l' : list json) : Prop :=
           match l, l' with
           | [], [] => True
           | x :: r, y :: r' => txr x y /\ go r r'
           | _, _ => False
           end) l l'
    | JObj o, JObj o' =>
        (fix go (o o' : list (str * json)) : Prop :=
           match o, o' with
           | [], [] => True
           | (k, x) :: r, (k', y) :: r' => k = k' /\ txr x y /\ go r r'
           | _, _ => False
           end) o o'
    | _, _ => False
    end.

  (* the two nested recursions, named *)
  Fixpoint txr_list (l l' : list json) : Prop :=
    match l, l' with
    | [], [] => True
    | x :: r, y :: r' => txr x y /\ txr_list r r'
    | _, _ => False
    end.
  Fixpoint txr_obj (o o' : list (str * json)) : Prop :=
    match o, o' with
    | [], [] => True
    | (k, x) :: r, (k', y) :: r' => k = k' /\ txr x y /\ txr_obj r r'
    | _, _ => False
    end.

  Lemma txr_arr_unfold : forall l l', txr (JArr l) (JArr l') <-> txr_list l l'.
  Proof. induction l as [|x l IH]; destruct l' as [|y l']; cbn; try tauto; try (specialize (IH l'); cbn in IH; tauto). Qed.

  Lemma txr_obj_unfold : forall o o', txr (JObj o) (JObj o') <-> txr_obj o o'.
  Proof.
    induction o as [|[k x] o IH]; destruct o' as [|[k' y] o']; cbn; try tauto; try (specialize (IH o'); cbn in IH; tauto).
  Qed.

  Lemma txr_refl : forall a, txr a a.
  Proof.
    induction a as [| b | m e | x | l IH | o IH] using json_ind'; cbn [txr]; auto.
    - now exists 0%nat.
    - apply txr_arr_unfold. induction IH as [|x l Hx _ IHl]; cbn; auto.
    - apply txr_obj_unfold. induction IH as [|[k x] o Hx _ IHo]; cbn; auto.
  Qed.

  Lemma iter_add : forall n m (x : str), iter_tx n (iter_tx m x) = iter_tx (n + m) x.
  Proof. induction n as [|n IH]; intros m x; [reflexivity|]. cbn. now rewrite IH. Qed.

  Lemma txr_trans : forall a b c, txr a b -> txr b c -> txr a c.
  Proof.
    induction a as [| x | m e | x | l IH | o IH] using json_ind'; intros b c Hab Hbc;
      destruct b; try contradiction; destruct c; try contradiction; cbn [txr] in *; auto.
    - congruence.
    - destruct Hab, Hbc. split; congruence.
    - destruct Hab as [n ->]. destruct Hbc as [m ->]. exists (m + n)%nat. apply iter_add.
    - apply txr_arr_unfold. apply txr_arr_unfold in Hab, Hbc. revert l0 l1 Hab Hbc.
      induction IH as [|x l Hx _ IHl]; intros [|y l0] [|z l1] Hab Hbc; cbn in *; try tauto.
      destruct Hab, Hbc. split; [eapply Hx; eassumption | eapply IHl; eassumption].
    - apply txr_obj_unfold. apply txr_obj_unfold in Hab, Hbc. revert kv kv0 Hab Hbc.
      induction IH as [|[k x] o Hx _ IHo]; intros [|[k1 y] o1] [|[k2 z] o2] Hab Hbc; cbn in *; try tauto.
      destruct Hab as [-> [H1 H2]]. destruct Hbc as [-> [H3 H4]]. cbn [snd] in Hx.
      split; [reflexivity|]. split; [eapply Hx; eassumption | eapply IHo; eassumption].
  Qed.

  (* members correspond *)
  Definition orel (a b : option json) : Prop :=
    match a, b with
    | Some x, Some y => txr x y
    | None, None => True
    | _, _ => False
    end.

  Lemma txr_lookup : forall o o' k, txr_obj o o' -> orel (olookup k o) (olookup k o').
  Proof.
    induction o as [|[k0 x] o IH]; intros [|[k1 y] o'] k H; cbn in H; try contradiction; [exact I|].
    destruct H as [-> [Hx Ho]]. cbn [olookup]. destruct (str_eqb k k1); [exact Hx | now apply IH].
  Qed.

  Lemma orel_refl : forall a, orel a a.
  Proof. intros [x|]; cbn; [apply txr_refl | exact I]. Qed.

  Lemma orel_trans : forall a b c, orel a b -> orel b c -> orel a c.
  Proof. intros [x|] [y|] [z|] H1 H2; cbn in *; try contradiction; auto. eapply txr_trans; eassumption. Qed.

  (* state-passing map: every element related to its image *)
  Lemma map_st_rel : forall {S A} (R : A -> A -> Prop) (g : S -> A -> S * A) l st,
    (forall st x, R x (snd (g st x))) -> Forall2 R l (snd (map_st g st l)).
  Proof.
    intros S A R g l. induction l as [|x l IH]; intros st H; cbn [map_st]; [constructor|].
    pose proof (H st x) as Hx. destruct (g st x) as [st1 y]. specialize (IH st1 H).
    destruct (map_st g st1 l) as [st2 r]. cbn [snd] in *. now constructor.
  Qed.

  Lemma txr_list_of_Forall2 : forall l l', Forall2 txr l l' -> txr_list l l'.
  Proof. induction 1; cbn; auto. Qed.

  Lemma txr_obj_of_Forall2 : forall o o',
    Forall2 (fun kv kv' : str * json => fst kv = fst kv' /\ txr (snd kv) (snd kv')) o o' -> txr_obj o o'.
  Proof. induction 1 as [|[k x] [k' y] o o' [H1 H2] _ IH]; cbn in *; auto. Qed.

  (* ---- jsonpath.visit --------------------------------------------------------------------------------------------- *)

  Lemma txl_txr : forall loc container key val, txr val (snd (txl tx loc container key val)).
  Proof.
    intros. unfold txl. cbn [snd]. destruct val as [| | |x|vs|]; try apply txr_refl.
    - cbn. now exists 1%nat.
    - apply txr_arr_unfold. induction vs as [|v vs IH]; cbn; [exact I|]. split; [|exact IH].
      destruct v; try apply txr_refl. cbn. now exists 1%nat.
  Qed.

  Lemma visit_txr : forall path loc j, txr j (snd (visit tx path loc j)).
  Proof.
    induction path as [|sel rem IH]; intros loc j; [apply txr_refl|].
    assert (Hv : forall container key loc0 v,
               txr v (snd (match rem with [] => txl tx loc0 container key v | _ => visit tx rem loc0 v end))).
    { intros. destruct rem; [apply txl_txr | apply IH]. }
    destruct j as [| | | |l|o]; try apply txr_refl.
    - cbn [visit].
      assert (Hf : forall l0 i loc0 out out0, txr_list out0 out ->
                 txr_list (out0 ++ l0)
                   (snd (fold_left (fun (acc : N * option obj * list json) v =>
                      let '(i, loc, out) := acc in
                      if (match parse_number sel with Some n => n =? i | None => false end) || str_eqb sel star then
                        match rem with
                        | [] => let '(loc', v') := txl tx loc (JArr l) None v in (i + 1, loc', out ++ [v'])
                        | _ => let '(loc', v') := visit tx rem loc v in (i + 1, loc', out ++ [v'])
                        end
                      else (i + 1, loc, out ++ [v])) l0 (i, loc0, out)))).
      { assert (Happ : forall a b x y, txr_list a b -> txr x y -> txr_list (a ++ [x]) (b ++ [y])).
        { induction a as [|p a IHa]; intros [|q b] x y H1 H2; cbn in *; try tauto. destruct H1. split; auto. }
        induction l0 as [|v l0 IHl]; intros i loc0 out out0 H0; cbn [fold_left snd]; [now rewrite app_nil_r|].
        replace (out0 ++ v :: l0) with ((out0 ++ [v]) ++ l0) by now rewrite <- app_assoc.
        destruct (_ || _).
        - pose proof (Hv (JArr l) None loc0 v) as H. destruct rem as [|r0 rem0].
          + destruct (txl tx loc0 (JArr l) None v) as [loc' v']. apply IHl. now apply Happ.
          + destruct (visit tx (r0 :: rem0) loc0 v) as [loc' v']. apply IHl. now apply Happ.
        - apply IHl. apply Happ; [exact H0 | apply txr_refl]. }
      specialize (Hf l 0 loc [] [] I). destruct (fold_left _ l (0, loc, [])) as [[i loc'] l']. cbn [snd app] in *.
      now apply txr_arr_unfold.
    - cbn [visit].
      match goal with |- context [map_st ?g loc o] =>
        pose proof (map_st_rel (fun kv kv' : str * json => fst kv = fst kv' /\ txr (snd kv) (snd kv')) g o loc) as Hm;
        destruct (map_st g loc o) as [loc' o'] end.
      cbn [snd] in *. apply txr_obj_unfold, txr_obj_of_Forall2, Hm.
      intros st [k v]. destruct (_ || _); [|split; [reflexivity | apply txr_refl]].
      pose proof (Hv (JObj o) (Some k) st v) as H. destruct rem as [|r0 rem0].
      + destruct (txl tx st (JObj o) (Some k) v) as [l1 v']. cbn [fst snd] in *. auto.
      + destruct (visit tx (r0 :: rem0) st v) as [l1 v']. cbn [fst snd] in *. auto.
  Qed.
End Txr.
