(* MigrateFrameProofs.v -- what a migration may change, for an arbitrary refactoring function tx.
   [txr tx a b]: b has the shape of a (same constructors, same array lengths, same object keys in the same order) and
   every text leaf of b is the corresponding leaf of a with tx applied to it zero or more times.
   (More than once only if two catalogue paths of one action reach the same leaf; the generated catalogue has no such
   pair, but the statement does not depend on that.) *)
From Coq Require Import List NArith ZArith Bool String Lia.
From Verif Require Import lib.Json gen.MigrationTable model.Migrate model.MigrateValid proofs.MigrateProofs proofs.MigrateValidProofs.
Import ListNotations.
Open Scope N_scope.

Section Txr.
  Variable tx : str -> str.

  Fixpoint iter_tx (n : nat) (x : str) : str := match n with O => x | S n => tx (iter_tx n x) end.

  Fixpoint txr (a b : json) {struct a} : Prop :=
    match a, b with
    | JNull, JNull => True
    | JBool x, JBool y => x = y
    | JNum m e, JNum m' e' => m = m' /\ e = e'
    | JStr x, JStr y => exists n : nat, y = iter_tx n x
    | JArr l, JArr l' =>
        (fix go (l l' : list json) : Prop :=
           match l, l' with
           | [], [] => True
           | x :: r, y :: r' => txr x y /\ go r r'
           | _, _ => False
           end) l l'
    | JObj o, JObj o' =>
        (fix go (o o' : list (str * json)) : Prop :=
           match o, o' with
           | [], [] => True
           | (k, x) :: r, (k', y) :: r' => k = k' /\ txr x y /\ go r r'
           | _, _ => False
           end) o o'
    | _, _ => False
    end.

  (* the two nested recursions, named *)
  Fixpoint txr_list (l l' : list json) : Prop :=
    match l, l' with
    | [], [] => True
    | x :: r, y :: r' => txr x y /\ txr_list r r'
    | _, _ => False
    end.
  Fixpoint txr_obj (o o' : list (str * json)) : Prop :=
    match o, o' with
    | [], [] => True
    | (k, x) :: r, (k', y) :: r' => k = k' /\ txr x y /\ txr_obj r r'
    | _, _ => False
    end.

  Lemma txr_arr_unfold : forall l l', txr (JArr l) (JArr l') <-> txr_list l l'.
  Proof. induction l as [|x l IH]; destruct l' as [|y l']; cbn; try tauto; try (specialize (IH l'); cbn in IH; tauto). Qed.

  Lemma txr_obj_unfold : forall o o', txr (JObj o) (JObj o') <-> txr_obj o o'.
  Proof.
    induction o as [|[k x] o IH]; destruct o' as [|[k' y] o']; cbn; try tauto; try (specialize (IH o'); cbn in IH; tauto).
  Qed.

  Lemma txr_refl : forall a, txr a a.
  Proof.
    induction a as [| b | m e | x | l IH | o IH] using json_ind'; cbn [txr]; auto.
    - now exists 0%nat.
    - apply txr_arr_unfold. induction IH as [|x l Hx _ IHl]; cbn; auto.
    - apply txr_obj_unfold. induction IH as [|[k x] o Hx _ IHo]; cbn; auto.
  Qed.

  Lemma iter_add : forall n m (x : str), iter_tx n (iter_tx m x) = iter_tx (n + m) x.
  Proof. induction n as [|n IH]; intros m x; [reflexivity|]. cbn. now rewrite IH. Qed.

  Lemma txr_trans : forall a b c, txr a b -> txr b c -> txr a c.
  Proof.
    induction a as [| x | m e | x | l IH | o IH] using json_ind'; intros b c Hab Hbc;
      destruct b; try contradiction; destruct c; try contradiction; cbn [txr] in *; auto.
    - congruence.
    - destruct Hab, Hbc. split; congruence.
    - destruct Hab as [n ->]. destruct Hbc as [m ->]. exists (m + n)%nat. apply iter_add.
    - apply txr_arr_unfold. apply txr_arr_unfold in Hab, Hbc. revert l0 l1 Hab Hbc.
      induction IH as [|x l Hx _ IHl]; intros [|y l0] [|z l1] Hab Hbc; cbn in *; try tauto.
      destruct Hab, Hbc. split; [eapply Hx; eassumption | eapply IHl; eassumption].
    - apply txr_obj_unfold. apply txr_obj_unfold in Hab, Hbc. revert kv kv0 Hab Hbc.
      induction IH as [|[k x] o Hx _ IHo]; intros [|[k1 y] o1] [|[k2 z] o2] Hab Hbc; cbn in *; try tauto.
      destruct Hab as [-> [H1 H2]]. destruct Hbc as [-> [H3 H4]]. cbn [snd] in Hx.
      split; [reflexivity|]. split; [eapply Hx; eassumption | eapply IHo; eassumption].
  Qed.

  (* members correspond *)
  Definition orel (a b : option json) : Prop :=
    match a, b with
    | Some x, Some y => txr x y
    | None, None => True
    | _, _ => False
    end.

  Lemma txr_lookup : forall o o' k, txr_obj o o' -> orel (olookup k o) (olookup k o').
  Proof.
    induction o as [|[k0 x] o IH]; intros [|[k1 y] o'] k H; cbn in H; try contradiction; [exact I|].
    destruct H as [-> [Hx Ho]]. cbn [olookup]. destruct (str_eqb k k1); [exact Hx | now apply IH].
  Qed.

  Lemma orel_refl : forall a, orel a a.
  Proof. intros [x|]; cbn; [apply txr_refl | exact I]. Qed.

  Lemma orel_trans : forall a b c, orel a b -> orel b c -> orel a c.
  Proof. intros [x|] [y|] [z|] H1 H2; cbn in *; try contradiction; auto. eapply txr_trans; eassumption. Qed.

  (* state-passing map: every element related to its image *)
  Lemma map_st_rel : forall {S A} (R : A -> A -> Prop) (g : S -> A -> S * A) l st,
    (forall st x, R x (snd (g st x))) -> Forall2 R l (snd (map_st g st l)).
  Proof.
    intros S A R g l. induction l as [|x l IH]; intros st H; cbn [map_st]; [constructor|].
    pose proof (H st x) as Hx. destruct (g st x) as [st1 y]. specialize (IH st1 H).
    destruct (map_st g st1 l) as [st2 r]. cbn [snd] in *. now constructor.
  Qed.

  Lemma txr_list_of_Forall2 : forall l l', Forall2 txr l l' -> txr_list l l'.
  Proof. induction 1; cbn; auto. Qed.

  Lemma txr_obj_of_Forall2 : forall o o',
    Forall2 (fun kv kv' : str * json => fst kv = fst kv' /\ txr (snd kv) (snd kv')) o o' -> txr_obj o o'.
  Proof. induction 1 as [|[k x] [k' y] o o' [H1 H2] _ IH]; cbn in *; auto. Qed.

  (* ---- jsonpath.visit --------------------------------------------------------------------------------------------- *)

  Lemma txl_txr : forall loc container key val, txr val (snd (txl tx loc container key val)).
  Proof.
    intros. unfold txl. cbn [snd]. destruct val as [| | |x|vs|]; try apply txr_refl.
    - cbn. now exists 1%nat.
    - apply txr_arr_unfold. induction vs as [|v vs IH]; cbn; [exact I|]. split; [|exact IH].
      destruct v; try apply txr_refl. cbn. now exists 1%nat.
  Qed.

  Lemma visit_txr : forall path loc j, txr j (snd (visit tx path loc j)).
  Proof.
    induction path as [|sel rem IH]; intros loc j; [apply txr_refl|].
    assert (Hv : forall container key loc0 v,
               txr v (snd (match rem with [] => txl tx loc0 container key v | _ => visit tx rem loc0 v end))).
    { intros. destruct rem; [apply txl_txr | apply IH]. }
    destruct j as [| | | |l|o]; try apply txr_refl.
    - cbn [visit].
      assert (Hf : forall l0 i loc0 out out0, txr_list out0 out ->
                 txr_list (out0 ++ l0)
                   (snd (fold_left (fun (acc : N * option obj * list json) v =>
                      let '(i, loc, out) := acc in
                      if (match parse_number sel with Some n => n =? i | None => false end) || str_eqb sel star then
                        match rem with
                        | [] => let '(loc', v') := txl tx loc (JArr l) None v in (i + 1, loc', out ++ [v'])
                        | _ => let '(loc', v') := visit tx rem loc v in (i + 1, loc', out ++ [v'])
                        end
                      else (i + 1, loc, out ++ [v])) l0 (i, loc0, out)))).
      { assert (Happ : forall a b x y, txr_list a b -> txr x y -> txr_list (a ++ [x]) (b ++ [y])).
        { induction a as [|p a IHa]; intros [|q b] x y H1 H2; cbn in *; try tauto. destruct H1. split; auto. }
        induction l0 as [|v l0 IHl]; intros i loc0 out out0 H0; cbn [fold_left snd]; [now rewrite app_nil_r|].
        replace (out0 ++ v :: l0) with ((out0 ++ [v]) ++ l0) by now rewrite <- app_assoc.
        destruct (_ || _).
        - pose proof (Hv (JArr l) None loc0 v) as H. destruct rem as [|r0 rem0].
          + destruct (txl tx loc0 (JArr l) None v) as [loc' v']. apply IHl. now apply Happ.
          + destruct (visit tx (r0 :: rem0) loc0 v) as [loc' v']. apply IHl. now apply Happ.
        - apply IHl. apply Happ; [exact H0 | apply txr_refl]. }
      specialize (Hf l 0 loc [] [] I). destruct (fold_left _ l (0, loc, [])) as [[i loc'] l']. cbn [snd app] in *.
      now apply txr_arr_unfold.
    - cbn [visit].
      match goal with |- context [map_st ?g loc o] =>
        pose proof (map_st_rel (fun kv kv' : str * json => fst kv = fst kv' /\ txr (snd kv) (snd kv')) g o loc) as Hm;
        destruct (map_st g loc o) as [loc' o'] end.
      cbn [snd] in *. apply txr_obj_unfold, txr_obj_of_Forall2, Hm.
      intros st [k v]. destruct (_ || _); [|split; [reflexivity | apply txr_refl]].
      pose proof (Hv (JObj o) (Some k) st v) as H. destruct rem as [|r0 rem0].
      + destruct (txl tx st (JObj o) (Some k) v) as [l1 v']. cbn [fst snd] in *. auto.
      + destruct (visit tx (r0 :: rem0) st v) as [l1 v']. cbn [fst snd] in *. auto.
  Qed.
End Txr.

(* ---- the frame of a migration: what lies outside the members migrations are written for ------------------------------- *)

(* the first steps of the catalogue's paths: the only members of an action / a router Migrate13_3 can reach *)
Definition heads (tab : list (string * list string)) : list str :=
  flat_map (fun row : string * list string =>
              flat_map (fun p => match steps_of p with Some (sel :: _) => [sel] | _ => [] end) (snd row)) tab.
Definition action_heads : list str := heads catalog_actions.
Definition router_heads : list str := heads catalog_routers.

Lemma catalog_paths_head : forall tab t p sel rem,
  In p (catalog_paths tab t) -> steps_of p = Some (sel :: rem) -> In sel (heads tab).
Proof.
  intros tab t p sel rem Hp Hs. induction tab as [|[k ps] tab IH]; [contradiction|].
  unfold heads. cbn [flat_map snd]. apply in_or_app. cbn [catalog_paths] in Hp. destruct (str_eqb (s k) t).
  - left. apply in_flat_map. exists p. split; [exact Hp|]. rewrite Hs. now left.
  - right. now apply IH.
Qed.

(* the first steps of the paths of ONE row: what Migrate13_3 can reach in an action / a router of that type *)
Definition row_heads (tab : list (string * list string)) (t : str) : list str :=
  flat_map (fun p => match steps_of p with Some (sel :: _) => [sel] | _ => [] end) (catalog_paths tab t).

Lemma row_heads_sub : forall tab t k, In k (row_heads tab t) -> In k (heads tab).
Proof.
  intros tab t k H. unfold row_heads in H. apply in_flat_map in H. destruct H as [p [Hp Hk]].
  destruct (steps_of p) as [[|sel rem]|] eqn:E; try contradiction. destruct Hk as [<-|[]].
  eapply catalog_paths_head; eassumption.
Qed.

(* finite obligation over the generated catalogue: no path starts at `type` *)
Definition heads_avoid_type : bool := negb (mem_str k_type action_heads) && negb (mem_str k_type router_heads).
Lemma heads_avoid_type_true : heads_avoid_type = true.
Proof. vm_compute. reflexivity. Qed.

(* the members of an action that the migrations other than 13.3 are written for, BY ACTION TYPE: 13.1, 13.4 and 13.5 touch
   the templating / template / template_variables of a send_msg, 13.6 the name and category of a set_run_result; nothing
   else of any action *)
Definition action_fp (t : str) : list str :=
  (if str_eqb t (s "send_msg") then [k_templating; k_template; k_template_variables] else [])
  ++ (if str_eqb t (s "set_run_result") then [k_name; k_category] else []).

Definition action_footprint : list str := [k_templating; k_template; k_template_variables; k_name; k_category].
Definition router_footprint : list str := [k_result_name; k_categories].

Lemma action_fp_sub : forall t k, In k (action_fp t) -> In k action_footprint.
Proof.
  intros t k H. unfold action_fp in H. apply in_app_or in H. unfold action_footprint.
  destruct (str_eqb t (s "send_msg")), (str_eqb t (s "set_run_result")); cbn in *; tauto.
Qed.

Lemma type_not_in_action_fp : forall t, ~ In k_type (action_fp t).
Proof. intros t H. apply action_fp_sub in H. revert H. apply not_in_keys. reflexivity. Qed.

Lemma type_not_in_row_heads : forall t, ~ In k_type (row_heads catalog_actions t) /\ ~ In k_type (row_heads catalog_routers t).
Proof.
  intro t. pose proof heads_avoid_type_true as H. unfold heads_avoid_type in H. apply andb_true_iff in H. destruct H as [H1 H2].
  apply negb_true_iff in H1, H2. split; intro Hin; apply row_heads_sub in Hin.
  - revert Hin. now apply not_in_keys.
  - revert Hin. now apply not_in_keys.
Qed.

Section Frame.
  Variable tx : str -> str.

  Definition flow_footprint : list str := [k_nodes; k_localization; k_language; k_spec_version].

  (* outside the footprint a member keeps its shape and its texts, up to tx; if no catalogue path starts at it, it
     is the same *)
  Definition obj_frame (fp hd : list str) (a a' : obj) : Prop :=
    (forall k, ~ In k fp -> orel tx (olookup k a) (olookup k a'))
    /\ (forall k, ~ In k fp -> ~ In k hd -> olookup k a' = olookup k a).

  Definition lifted (R : obj -> obj -> Prop) (x y : json) : Prop :=
    match x, y with JObj a, JObj b => R a b | _, _ => x = y end.
  Definition arr_frame (R : json -> json -> Prop) (x y : json) : Prop :=
    match x, y with JArr l, JArr l' => Forall2 R l l' | _, _ => x = y end.
  Definition member_frame (k : str) (R : json -> json -> Prop) (a a' : obj) : Prop :=
    match olookup k a, olookup k a' with
    | Some x, Some y => R x y
    | None, None => True
    | _, _ => False
    end.

  (* an action against its migrated self: footprint and reachable members are those of ITS type *)
  Definition action_frame (a a' : obj) : Prop :=
    obj_frame (action_fp (type_of a)) (row_heads catalog_actions (type_of a)) a a'.
  Definition router_frame (r r' : obj) : Prop :=
    obj_frame router_footprint (row_heads catalog_routers (type_of r)) r r'.

  Definition node_frame (n n' : obj) : Prop :=
    (forall k, k <> k_actions -> k <> k_router -> olookup k n' = olookup k n)
    /\ member_frame k_actions (arr_frame (lifted action_frame)) n n'
    /\ member_frame k_router (lifted router_frame) n n'.

  Definition flow_frame (f f' : obj) : Prop :=
    (forall k, ~ In k flow_footprint -> olookup k f' = olookup k f)
    /\ member_frame k_nodes (arr_frame (lifted node_frame)) f f'.

  (* reflexivity, transitivity *)
  Definition refl_rel {A} (R : A -> A -> Prop) := forall x, R x x.
  Definition trans_rel {A} (R : A -> A -> Prop) := forall x y z, R x y -> R y z -> R x z.

  Lemma obj_frame_refl : forall fp hd, refl_rel (obj_frame fp hd).
  Proof. intros fp hd a. split; [intros k _; apply orel_refl | reflexivity]. Qed.
  Lemma obj_frame_trans : forall fp hd, trans_rel (obj_frame fp hd).
  Proof.
    intros fp hd a b c [H1 H1'] [H2 H2']. split.
    - intros k Hk. eapply orel_trans; [apply H1 | apply H2]; exact Hk.
    - intros k Hk Hh. now rewrite H2', H1'.
  Qed.

  Lemma obj_frame_mono : forall fp hd fp' hd' a a',
    (forall k, In k fp -> In k fp') -> (forall k, In k hd -> In k hd') ->
    obj_frame fp hd a a' -> obj_frame fp' hd' a a'.
  Proof.
    intros fp hd fp' hd' a a' Hf Hh [H1 H2]. split.
    - intros k Hk. apply H1. intro Hin. apply Hk, Hf, Hin.
    - intros k Hk Hk'. apply H2; intro Hin; [apply Hk, Hf, Hin | apply Hk', Hh, Hin].
  Qed.

  Lemma action_frame_type : forall a a', action_frame a a' -> type_of a' = type_of a.
  Proof.
    intros a a' [_ H]. unfold type_of, get_str. rewrite (H k_type); [reflexivity | apply type_not_in_action_fp |].
    apply (proj1 (type_not_in_row_heads (type_of a))).
  Qed.
  Lemma router_frame_type : forall r r', router_frame r r' -> type_of r' = type_of r.
  Proof.
    intros r r' [_ H]. unfold type_of, get_str. rewrite (H k_type); [reflexivity | apply not_in_keys; reflexivity |].
    apply (proj2 (type_not_in_row_heads (type_of r))).
  Qed.

  Lemma action_frame_refl : refl_rel action_frame.
  Proof. intro a. apply obj_frame_refl. Qed.
  Lemma action_frame_trans : trans_rel action_frame.
  Proof.
    intros a b c H1 H2. unfold action_frame in *. rewrite (action_frame_type a b H1) in H2. eapply obj_frame_trans; eassumption.
  Qed.
  Lemma router_frame_refl : refl_rel router_frame.
  Proof. intro r. apply obj_frame_refl. Qed.
  Lemma router_frame_trans : trans_rel router_frame.
  Proof.
    intros a b c H1 H2. unfold router_frame in *. rewrite (router_frame_type a b H1) in H2. eapply obj_frame_trans; eassumption.
  Qed.

  Lemma lifted_refl : forall R, refl_rel R -> refl_rel (lifted R).
  Proof. intros R H x. destruct x; cbn; auto. Qed.
  Lemma lifted_trans : forall R, trans_rel R -> trans_rel (lifted R).
  Proof.
    intros R H x y z H1 H2. destruct x, y, z; cbn in *; try congruence. eapply H; eassumption.
  Qed.

  Lemma Forall2_refl : forall {A} (R : A -> A -> Prop), refl_rel R -> forall l, Forall2 R l l.
  Proof. intros A R H l. induction l; constructor; auto. Qed.
  Lemma Forall2_trans : forall {A} (R : A -> A -> Prop), trans_rel R -> trans_rel (Forall2 R).
  Proof.
    intros A R H x y z H1. revert z. induction H1 as [|a b l l' Hab _ IH]; intros z H2; inversion H2; subst; constructor.
    - eapply H; eassumption.
    - now apply IH.
  Qed.

  Lemma arr_frame_refl : forall R, refl_rel R -> refl_rel (arr_frame R).
  Proof. intros R H x. destruct x; cbn; auto. now apply Forall2_refl. Qed.
  Lemma arr_frame_trans : forall R, trans_rel R -> trans_rel (arr_frame R).
  Proof.
    intros R H x y z H1 H2. destruct x, y, z; cbn in *; try congruence. eapply (Forall2_trans R H); eassumption.
  Qed.

  Lemma member_frame_refl : forall k R, refl_rel R -> refl_rel (member_frame k R).
  Proof. intros k R H a. unfold member_frame. destruct (olookup k a); auto. Qed.
  Lemma member_frame_trans : forall k R, trans_rel R -> trans_rel (member_frame k R).
  Proof.
    intros k R H a b c. unfold member_frame.
    destruct (olookup k a), (olookup k b), (olookup k c); try tauto. apply H.
  Qed.

  Lemma node_frame_refl : refl_rel node_frame.
  Proof.
    intro n. split; [reflexivity|]. split.
    - apply member_frame_refl, arr_frame_refl, lifted_refl, action_frame_refl.
    - apply member_frame_refl, lifted_refl, router_frame_refl.
  Qed.
  Lemma node_frame_trans : trans_rel node_frame.
  Proof.
    intros a b c [H1 [H2 H3]] [H4 [H5 H6]]. split; [|split].
    - intros k Ha Hr. now rewrite H4, H1.
    - eapply member_frame_trans; [apply arr_frame_trans, lifted_trans, action_frame_trans | exact H2 | exact H5].
    - eapply member_frame_trans; [apply lifted_trans, router_frame_trans | exact H3 | exact H6].
  Qed.

  Lemma flow_frame_refl : refl_rel flow_frame.
  Proof. intro f. split; [reflexivity|]. apply member_frame_refl, arr_frame_refl, lifted_refl, node_frame_refl. Qed.
  Lemma flow_frame_trans : trans_rel flow_frame.
  Proof.
    intros a b c [H1 H2] [H3 H4]. split.
    - intros k Hk. now rewrite H3, H1.
    - eapply member_frame_trans; [apply arr_frame_trans, lifted_trans, node_frame_trans | exact H2 | exact H4].
  Qed.

  (* traversals *)
  Lemma on_array_member_rel : forall {S} k (step : S -> obj -> S * obj) (R : obj -> obj -> Prop) st o,
    refl_rel R -> (forall st a, R a (snd (step st a))) ->
    member_frame k (arr_frame (lifted R)) o (snd (on_array_member k step st o)).
  Proof.
    intros S k step R st o Hr Hs. unfold on_array_member.
    destruct (olookup k o) as [[| | | |l|]|] eqn:E; cbn [snd];
      try (apply member_frame_refl, arr_frame_refl, lifted_refl, Hr).
    unfold on_objects.
    pose proof (map_st_rel (lifted R)
                  (fun st x => match x with JObj o0 => let '(st', o') := step st o0 in (st', JObj o') | _ => (st, x) end) l st) as Hm.
    destruct (map_st _ st l) as [st' l']. cbn [snd] in *. unfold member_frame. rewrite E, olookup_oset_same. cbn [arr_frame].
    apply Hm. intros st0 x. destruct x; cbn; auto. specialize (Hs st0 kv). destruct (step st0 kv) as [s1 o1]. exact Hs.
  Qed.

  Lemma on_object_member_rel : forall {S} k (step : S -> obj -> S * obj) (R : obj -> obj -> Prop) st o,
    refl_rel R -> (forall st a, R a (snd (step st a))) ->
    member_frame k (lifted R) o (snd (on_object_member k step st o)).
  Proof.
    intros S k step R st o Hr Hs. unfold on_object_member.
    destruct (olookup k o) as [[| | | | |x]|] eqn:E; cbn [snd]; try (apply member_frame_refl, lifted_refl, Hr).
    specialize (Hs st x). destruct (step st x) as [st' x']. cbn [snd] in *. unfold member_frame.
    rewrite E, olookup_oset_same. exact Hs.
  Qed.

  Lemma same_outside_frame : forall fp hd a a', (forall k, ~ In k fp -> olookup k a' = olookup k a) -> obj_frame fp hd a a'.
  Proof. intros fp hd a a' H. split; [intros k Hk; rewrite (H k Hk); apply orel_refl | intros k Hk _; now apply H]. Qed.

  (* a migration that loops over the nodes with a step that respects node_frame *)
  Lemma nodes_migration_frame : forall (node_step : mstate -> obj -> mstate * obj),
    (forall st n, node_frame n (snd (node_step st n))) ->
    forall fr f, flow_frame f (fst (with_localization (on_array_member k_nodes node_step) fr f)).
  Proof.
    intros node_step Hs fr f. unfold with_localization.
    pose proof (on_array_member_rel k_nodes node_step node_frame (fr, get_obj k_localization f) f node_frame_refl Hs) as Hn.
    pose proof (on_array_member_other k_nodes node_step (fr, get_obj k_localization f) f) as Ho.
    destruct (on_array_member k_nodes node_step (fr, get_obj k_localization f) f) as [[fr' loc'] f']. cbn [fst snd] in *.
    assert (Hk : forall k, ~ In k flow_footprint -> k <> k_nodes /\ k <> k_localization).
    { intros k Hk. split; intro E; subst; apply Hk; cbn; tauto. }
    destruct loc' as [l|]; split.
    - intros k Hin. destruct (Hk k Hin). rewrite olookup_oset_other by congruence. now apply Ho.
    - unfold member_frame in *. now rewrite olookup_oset_other by key_neq.
    - intros k Hin. destruct (Hk k Hin). now apply Ho.
    - exact Hn.
  Qed.

  (* node steps *)
  Lemma actions_only_node_frame : forall (step : mstate -> obj -> mstate * obj),
    (forall st a, action_frame a (snd (step st a))) ->
    forall st n, node_frame n (snd (on_array_member k_actions step st n)).
  Proof.
    intros step Hs st n. split; [|split].
    - intros k Ha _. now apply on_array_member_other.
    - apply on_array_member_rel; [apply action_frame_refl | exact Hs].
    - unfold member_frame. rewrite on_array_member_other by key_neq.
      destruct (olookup k_router n) as [x|]; [|exact I]. apply lifted_refl, router_frame_refl.
  Qed.

  Lemma actions_router_node_frame : forall (fa fr : mstate -> obj -> mstate * obj),
    (forall st a, action_frame a (snd (fa st a))) ->
    (forall st r, router_frame r (snd (fr st r))) ->
    forall st n, node_frame n (snd (let '(st1, n1) := on_array_member k_actions fa st n in on_object_member k_router fr st1 n1)).
  Proof.
    intros fa fr Ha Hr st n.
    pose proof (actions_only_node_frame fa Ha st n) as H1.
    destruct (on_array_member k_actions fa st n) as [st1 n1]. cbn [snd] in H1.
    eapply node_frame_trans; [exact H1|]. split; [|split].
    - intros k _ Hk. now apply on_object_member_other.
    - unfold member_frame. rewrite on_object_member_other by key_neq.
      destruct (olookup k_actions n1) as [x|]; [|exact I]. apply arr_frame_refl, lifted_refl, action_frame_refl.
    - apply on_object_member_rel; [apply router_frame_refl | exact Hr].
  Qed.

  Ltac outside := apply same_outside_frame; intros k Hk;
    repeat first [rewrite olookup_oset_other by (intro; subst; apply Hk; cbn; tauto)
                 | rewrite olookup_odel_other by (intro; subst; apply Hk; cbn; tauto)]; reflexivity.

  Lemma is_type_eq : forall t a, is_type t a = true -> type_of a = s t.
  Proof. intros t a H. unfold is_type in H. now apply str_eqb_eq in H. Qed.

  Lemma step_13_1_frame : forall st a, action_frame a (snd (step_13_1 st a)).
  Proof.
    intros st a. unfold step_13_1. destruct (is_type "send_msg" a) eqn:Et; [|apply action_frame_refl].
    destruct (get_obj k_templating a); [|apply action_frame_refl]. destruct (next_uuid (fst st)) as [u0 fr0]. cbn [snd].
    unfold action_frame. rewrite (is_type_eq _ _ Et).
    change (action_fp (s "send_msg")) with [k_templating; k_template; k_template_variables]. outside.
  Qed.

  Lemma step_13_4_frame : forall st a, action_frame a (snd (step_13_4 st a)).
  Proof.
    intros st a. unfold step_13_4. destruct (is_type "send_msg" a) eqn:Et; [|apply action_frame_refl].
    destruct (get_obj k_templating a); [|apply action_frame_refl]. destruct (next_uuid (fst st)) as [u0 fr0]. cbn [snd].
    unfold action_frame. rewrite (is_type_eq _ _ Et).
    change (action_fp (s "send_msg")) with [k_templating; k_template; k_template_variables]. outside.
  Qed.

  Lemma step_13_5_frame : forall st a, action_frame a (snd (step_13_5 st a)).
  Proof.
    intros st a. unfold step_13_5. destruct (is_type "send_msg" a) eqn:Et; [|apply action_frame_refl].
    destruct (get_obj k_templating a); [|apply action_frame_refl]. cbn [snd].
    unfold action_frame. rewrite (is_type_eq _ _ Et).
    change (action_fp (s "send_msg")) with [k_templating; k_template; k_template_variables]. outside.
  Qed.

  Lemma limit_member_outside : forall fp hd k max o, In k fp -> obj_frame fp hd o (limit_member k max o).
  Proof.
    intros fp hd k max o Hin. unfold limit_member. destruct (get_str k o) as [v|]; [|apply obj_frame_refl].
    destruct (max <? utf8_len v); [|apply obj_frame_refl]. apply same_outside_frame. intros k' Hk'.
    apply olookup_oset_other. intro; subst; contradiction.
  Qed.

  Lemma action_13_6_frame : forall st a, action_frame a (snd (action_13_6 st a)).
  Proof.
    intros st a. unfold action_13_6. destruct (is_type "set_run_result" a) eqn:Et; cbn [snd]; [|apply action_frame_refl].
    unfold action_frame. rewrite (is_type_eq _ _ Et).
    change (action_fp (s "set_run_result")) with [k_name; k_category].
    eapply obj_frame_trans; apply limit_member_outside; cbn; tauto.
  Qed.

  Lemma router_13_6_frame : forall st r, router_frame r (snd (router_13_6 st r)).
  Proof.
    intros st r. unfold router_13_6, router_frame.
    eapply obj_frame_trans; [apply (limit_member_outside router_footprint _ k_result_name); cbn; tauto|].
    apply same_outside_frame. intros k Hk. apply on_array_member_other. intro; subst; apply Hk; cbn; tauto.
  Qed.

  Lemma rewrite_templates_frame : forall fp tab t loc o p,
    In p (catalog_paths tab t) ->
    match steps_of p with Some (sel :: _) => str_eqb sel star = false | _ => True end ->
    obj_frame fp (row_heads tab t) o (snd (rewrite_templates tx loc o p)).
  Proof.
    intros fp tab t loc o p Hp Hstar. unfold rewrite_templates. fold (steps_of p).
    destruct (steps_of p) as [steps|] eqn:Es; [|apply obj_frame_refl].
    pose proof (visit_txr tx steps loc (JObj o)) as Hv.
    destruct (visit tx steps loc (JObj o)) as [loc' j] eqn:Ev. cbn [snd] in *.
    destruct j as [| | | | |o']; try contradiction. split.
    - intros k _. apply txr_lookup. now apply txr_obj_unfold.
    - intros k _ Hh. destruct steps as [|sel rem]; [cbn in Ev; now inversion Ev|].
      apply (visit_obj_other tx sel rem loc o k Hstar); [|now rewrite Ev].
      destruct (str_eqb k sel) eqn:E; [|reflexivity]. apply str_eqb_eq in E. subst k.
      exfalso. apply Hh. unfold row_heads. apply in_flat_map. exists p. split; [exact Hp|]. rewrite Es. now left.
  Qed.

  Lemma rewrite_all_frame : forall fp tab st o,
    (forall p, In p (catalog_paths tab (type_of o)) ->
               match steps_of p with Some (sel :: _) => str_eqb sel star = false | _ => True end) ->
    obj_frame fp (row_heads tab (type_of o)) o (snd (rewrite_all tx tab st o)).
  Proof.
    intros fp tab st o Hstar. unfold rewrite_all.
    assert (H : forall ps acc, (forall p, In p ps -> In p (catalog_paths tab (type_of o))) ->
                 obj_frame fp (row_heads tab (type_of o)) (snd acc)
                 (snd (fold_left (fun (acc : option obj * obj) p => rewrite_path tx (fst acc) (snd acc) p) ps acc))).
    { induction ps as [|p ps IH]; intros acc Hin; [apply obj_frame_refl|]. cbn [fold_left].
      eapply obj_frame_trans; [|apply IH; intros q Hq; apply Hin; now right].
      rewrite rewrite_path_snd.
      apply (rewrite_templates_frame fp tab (type_of o)); [apply Hin; now left | apply Hstar, Hin; now left]. }
    specialize (H (catalog_paths tab (type_of o)) (snd st, o) (fun p Hp => Hp)).
    destruct (fold_left _ (catalog_paths tab (type_of o)) (snd st, o)) as [loc' o']. exact H.
  Qed.

  Lemma catalog_no_star_actions : forall t p, In p (catalog_paths catalog_actions t) ->
    match steps_of p with Some (sel :: _) => str_eqb sel star = false | _ => True end.
  Proof.
    intros t p Hp. pose proof catalog_frame_true as Hc. unfold catalog_frame in Hc. apply andb_true_iff in Hc. destruct Hc as [Hc _].
    pose proof (catalog_paths_row catalog_actions t p action_steps_ok Hc Hp) as H.
    destruct (steps_of p) as [[|sel rem]|]; try exact I. cbn [action_steps_ok] in H.
    apply andb_true_iff in H. destruct H as [H _]. apply andb_true_iff in H. destruct H as [H _].
    apply andb_true_iff in H. destruct H as [H _]. now apply negb_true_iff in H.
  Qed.

  Lemma catalog_no_star_routers : forall t p, In p (catalog_paths catalog_routers t) ->
    match steps_of p with Some (sel :: _) => str_eqb sel star = false | _ => True end.
  Proof.
    intros t p Hp. pose proof catalog_frame_true as Hc. unfold catalog_frame in Hc. apply andb_true_iff in Hc. destruct Hc as [_ Hc].
    pose proof (catalog_paths_row catalog_routers t p (fun _ => router_steps_ok) Hc Hp) as H.
    destruct (steps_of p) as [[|sel rem]|]; try exact I. cbn [router_steps_ok] in H.
    apply andb_true_iff in H. destruct H as [H _]. apply andb_true_iff in H. destruct H as [H _]. now apply negb_true_iff in H.
  Qed.

  (* every transcribed migration respects the frame *)
  Lemma known_migration_frame : forall name m, migration_of_name name = Some m ->
    forall fr f, flow_frame f (fst (m tx fr f)).
  Proof.
    intros name m. unfold migration_of_name.
    destruct (String.eqb name "Migrate13_1"); [intro H; inversion H; subst; intros; apply nodes_migration_frame, actions_only_node_frame, step_13_1_frame|].
    destruct (String.eqb name "Migrate13_2").
    { intro H; inversion H; subst. intros fr f. unfold migrate_13_2. destruct (Nat.eqb _ 3); cbn [fst]; [apply flow_frame_refl|].
      destruct (get_obj k_localization (oset k_language (JStr und) f)); split;
        try (intros k Hk; rewrite !olookup_oset_other by (intro; subst; apply Hk; cbn; tauto); reflexivity);
        unfold member_frame; rewrite !olookup_oset_other by key_neq;
        (destruct (olookup k_nodes f); [apply arr_frame_refl, lifted_refl, node_frame_refl | exact I]). }
    destruct (String.eqb name "Migrate13_3").
    { intro H; inversion H; subst. intros. apply nodes_migration_frame. unfold node_13_3.
      apply actions_router_node_frame; intros; [unfold action_frame | unfold router_frame]; apply rewrite_all_frame;
        [apply catalog_no_star_actions | apply catalog_no_star_routers]. }
    destruct (String.eqb name "Migrate13_4"); [intro H; inversion H; subst; intros; apply nodes_migration_frame, actions_only_node_frame, step_13_4_frame|].
    destruct (String.eqb name "Migrate13_5"); [intro H; inversion H; subst; intros; apply nodes_migration_frame, actions_only_node_frame, step_13_5_frame|].
    destruct (String.eqb name "Migrate13_6"); [|discriminate].
    intro H; inversion H; subst. intros. apply nodes_migration_frame. unfold node_13_6.
    apply actions_router_node_frame; [apply action_13_6_frame | apply router_13_6_frame].
  Qed.

  Lemma apply_versions_frame : forall steps fr f j' fr',
    apply_versions tx steps fr f = (MOut j', fr') -> exists f', j' = JObj f' /\ flow_frame f f'.
  Proof.
    induction steps as [|[v name] rest IH]; intros fr f j' fr' H; cbn [apply_versions] in H.
    - inversion H; subst. exists f. split; [reflexivity | apply flow_frame_refl].
    - destruct (migration_of_name name) as [m|] eqn:Em; [|discriminate].
      pose proof (known_migration_frame name m Em fr f) as Hm. destruct (m tx fr f) as [f1 fr1]. cbn [fst] in Hm.
      apply IH in H. destruct H as [f' [-> Hf]]. exists f'. split; [reflexivity|].
      eapply flow_frame_trans; [exact Hm|]. eapply flow_frame_trans; [|exact Hf]. split.
      + intros k Hk. apply olookup_oset_other. intro; subst; apply Hk; cbn; tauto.
      + unfold member_frame. rewrite olookup_oset_other by key_neq.
        destruct (olookup k_nodes f1); [apply arr_frame_refl, lifted_refl, node_frame_refl | exact I].
  Qed.

  (* outside the members the migrations are written for, a migrated definition is the source up to tx *)
  Lemma migrate_frame : forall j to fr j' fr',
    migrate_to tx j to fr = (MOut j', fr') -> exists f f', j = JObj f /\ j' = JObj f' /\ flow_frame f f'.
  Proof.
    intros j to fr j' fr' H. unfold migrate_to, migrate_with in H.
    destruct (header_version j) as [from|] eqn:Hh; [|destruct j; discriminate].
    destruct (header_is_object _ _ Hh) as [f ->].
    destruct (select_versions registered from to) as [|s0 steps]; [discriminate|].
    apply apply_versions_frame in H. destruct H as [f' [-> Hf]]. eauto.
  Qed.
End Frame.

(* ---- Migrate13_3 for an arbitrary tx: the whole of `nodes` keeps its shape, texts change only by tx --------------------- *)

Section Parametric13_3.
  Variable tx : str -> str.

  Lemma txr_obj_refl : forall o, txr_obj tx o o.
  Proof. intro o. apply txr_obj_unfold. apply (txr_refl tx (JObj o)). Qed.

  Lemma txr_oset : forall k v v' o, olookup k o = Some v -> txr tx v v' -> txr_obj tx o (oset k v' o).
  Proof.
    intros k v v' o. induction o as [|[k0 x] o IH]; cbn [olookup oset]; [discriminate|].
    destruct (str_eqb k k0) eqn:E; intros H Hv.
    - inversion H; subst. cbn. split; [reflexivity|]. split; [exact Hv | apply txr_obj_refl].
    - cbn. split; [reflexivity|]. split; [apply txr_refl | now apply IH].
  Qed.

  Lemma on_array_member_txr : forall {S} k (step : S -> obj -> S * obj) st o,
    (forall st a, txr_obj tx a (snd (step st a))) -> txr_obj tx o (snd (on_array_member k step st o)).
  Proof.
    intros S k step st o Hs. unfold on_array_member.
    destruct (olookup k o) as [[| | | |l|]|] eqn:E; cbn [snd]; try apply txr_obj_refl.
    unfold on_objects.
    pose proof (map_st_rel (txr tx)
                  (fun st x => match x with JObj o0 => let '(st', o') := step st o0 in (st', JObj o') | _ => (st, x) end) l st) as Hm.
    destruct (map_st _ st l) as [st' l']. cbn [snd] in *.
    apply (txr_oset k (JArr l)); [exact E|]. apply txr_arr_unfold, txr_list_of_Forall2, Hm.
    intros st0 x. destruct x; try apply txr_refl. specialize (Hs st0 kv). destruct (step st0 kv) as [s1 o1].
    cbn [snd] in *. now apply txr_obj_unfold.
  Qed.

  Lemma on_object_member_txr : forall {S} k (step : S -> obj -> S * obj) st o,
    (forall st a, txr_obj tx a (snd (step st a))) -> txr_obj tx o (snd (on_object_member k step st o)).
  Proof.
    intros S k step st o Hs. unfold on_object_member.
    destruct (olookup k o) as [[| | | | |x]|] eqn:E; cbn [snd]; try apply txr_obj_refl.
    specialize (Hs st x). destruct (step st x) as [st' x']. cbn [snd] in *.
    apply (txr_oset k (JObj x)); [exact E | now apply txr_obj_unfold].
  Qed.

  Lemma txr_obj_trans : forall a b c, txr_obj tx a b -> txr_obj tx b c -> txr_obj tx a c.
  Proof.
    intros a b c H1 H2. apply txr_obj_unfold. eapply (txr_trans tx (JObj a) (JObj b) (JObj c)); now apply txr_obj_unfold.
  Qed.

  Lemma rewrite_all_txr : forall tab st o, txr_obj tx o (snd (rewrite_all tx tab st o)).
  Proof.
    intros tab st o. unfold rewrite_all.
    assert (H : forall ps acc, txr_obj tx (snd acc)
                 (snd (fold_left (fun (acc : option obj * obj) p => rewrite_path tx (fst acc) (snd acc) p) ps acc))).
    { induction ps as [|p ps IH]; intro acc; [apply txr_obj_refl|]. cbn [fold_left].
      eapply txr_obj_trans; [|apply IH]. rewrite rewrite_path_snd. unfold rewrite_templates.
      destruct (parse_path _) as [steps|]; [|apply txr_obj_refl].
      match goal with |- context [visit tx steps ?l0 ?j0] =>
        pose proof (visit_txr tx steps l0 j0) as Hv; destruct (visit tx steps l0 j0) as [loc' j] end.
      cbn [snd] in *. destruct j; try contradiction. cbn [snd]. now apply txr_obj_unfold. }
    specialize (H (catalog_paths tab (type_of o)) (snd st, o)).
    match goal with |- context [fold_left ?g ?l ?a] =>
      change (txr_obj tx o (snd (fold_left g l a))) in H; destruct (fold_left g l a) as [loc' o'] end.
    exact H.
  Qed.

  Lemma node_13_3_txr : forall st n, txr_obj tx n (snd (node_13_3 tx st n)).
  Proof.
    intros st n. unfold node_13_3.
    pose proof (on_array_member_txr k_actions (rewrite_all tx catalog_actions) st n (rewrite_all_txr catalog_actions)) as H1.
    destruct (on_array_member k_actions (rewrite_all tx catalog_actions) st n) as [st1 n1]. cbn [snd] in H1.
    eapply txr_obj_trans; [exact H1|]. apply on_object_member_txr, rewrite_all_txr.
  Qed.

  (* every member of the definition other than `localization` comes back with its shape, every text in it being the
     original with tx applied zero or more times; members no catalogue path leads into are covered by the frame lemmas *)
  Lemma migrate_13_3_parametric : forall fr f k,
    k <> k_localization -> orel tx (olookup k f) (olookup k (fst (migrate_13_3 tx fr f))).
  Proof.
    intros fr f k Hk. unfold migrate_13_3, with_localization.
    pose proof (on_array_member_txr k_nodes (node_13_3 tx) (fr, get_obj k_localization f) f node_13_3_txr) as H.
    destruct (on_array_member k_nodes (node_13_3 tx) (fr, get_obj k_localization f) f) as [[fr' loc'] f']. cbn [snd fst] in *.
    destruct loc' as [l|]; [rewrite olookup_oset_other by congruence|]; now apply txr_lookup.
  Qed.
End Parametric13_3.

(* the per-type frame of one action, spelled out *)
Lemma action_frame_says : forall tx a a',
  action_frame tx a a' ->
  type_of a' = type_of a
  /\ (forall k, ~ In k (action_fp (type_of a)) -> ~ In k (row_heads catalog_actions (type_of a)) -> olookup k a' = olookup k a)
  /\ (forall k, ~ In k (action_fp (type_of a)) -> orel tx (olookup k a) (olookup k a')).
Proof.
  intros tx a a' H. split; [now apply (action_frame_type tx)|]. destruct H as [H1 H2]. split; assumption.
Qed.

(* what the tables say for some types of the generated catalogue (closed computations) *)
Example frame_examples :
  action_fp (s "set_contact_name") = [] /\ mem_str k_name (row_heads catalog_actions (s "set_contact_name")) = true
  /\ action_fp (s "call_webhook") = [] /\ mem_str k_result_name (row_heads catalog_actions (s "call_webhook")) = false
  /\ mem_str k_name (row_heads catalog_actions (s "send_msg")) = false
  /\ action_fp (s "set_run_result") = [k_name; k_category]
  /\ action_fp (s "send_msg") = [k_templating; k_template; k_template_variables].
Proof. vm_compute. repeat split. Qed.
