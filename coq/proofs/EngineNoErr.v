(* EngineNoErr.v — for validated flow definitions no engine call of the model returns a Go error (C05:
   "every engine call returns normally"; C10: "never with a Go error").

   [valid_assets] models what flow validation (definition/node.go Validate, routers/switch.go Validate,
   flow.go: destinations exist) guarantees of a loadable definition, as far as the engine relies on it:
   every exit's destination is a node of the flow, every case / default / timeout category exists. *)

From Coq Require Import List NArith ZArith Bool Lia.
From Verif Require Import model.Lang model.Engine model.EngineCorr proofs.EngineProofs proofs.EngineInv.
Import ListNotations.
Open Scope N_scope.

Definition valid_router (rt : router) : Prop :=
  (forall arg ci, In (arg, ci) (rt_cases rt) -> (ci < length (rt_cats rt))%nat) /\
  (forall ci, rt_default rt = Some ci -> (ci < length (rt_cats rt))%nat) /\
  (forall w sec ci, rt_wait rt = Some w -> w_timeout w = Some (sec, ci) -> (ci < length (rt_cats rt))%nat).

Definition valid_node (f : flow) (n : node) : Prop :=
  (forall e d, In e (n_exits n) -> e_dest e = Some d -> get_node f d <> None) /\
  (forall rt, n_router n = Some rt -> valid_router rt).

Definition valid_flow (f : flow) : Prop := forall n, In n (f_nodes f) -> valid_node f n.
Definition valid_assets (a : assets) : Prop := forall f, In f (a_flows a) -> valid_flow f.

Lemma find_flow_in : forall fs i f, find_flow fs i = Some f -> In f fs /\ f_id f = i.
Proof.
  induction fs as [|f0 fs IH]; intros i f; simpl; [discriminate|].
  destruct (N.eqb_spec (f_id f0) i); [intros H; inversion H; subst; auto|].
  intros H. destruct (IH _ _ H). auto.
Qed.

Lemma find_node_in : forall ns i n, find_node ns i = Some n -> In n ns /\ n_id n = i.
Proof.
  induction ns as [|n0 ns IH]; intros i n; simpl; [discriminate|].
  destruct (N.eqb_spec (n_id n0) i); [intros H; inversion H; subst; auto|].
  intros H. destruct (IH _ _ H). auto.
Qed.

Lemma find_exit_in : forall es i e, find_exit es i = Some e -> In e es /\ e_id e = i.
Proof.
  induction es as [|e0 es IH]; intros i e; simpl; [discriminate|].
  destruct (N.eqb_spec (e_id e0) i); [intros H; inversion H; subst; auto|].
  intros H. destruct (IH _ _ H). auto.
Qed.

Lemma match_case_in : forall cs op ci, match_case cs op = Some ci -> exists arg, In (arg, ci) cs.
Proof.
  induction cs as [|[arg c] cs IH]; intros op ci; simpl; [discriminate|].
  destruct (text_eqb op arg); [intros H; inversion H; subst; eauto|].
  intros H. destruct (IH _ _ H) as (arg' & Hin). eauto.
Qed.

Lemma valid_get_node : forall a fid f nid n, valid_assets a -> get_flow a fid = Some f -> get_node f nid = Some n ->
  valid_node f n /\ In n (f_nodes f).
Proof.
  intros a fid f nid n Hv Hf Hn. apply find_flow_in in Hf. apply find_node_in in Hn.
  destruct Hf, Hn. split; auto. apply Hv; auto.
Qed.

(* ---- routing does not return a Go error on a valid router ---------------------------------------------- *)

Lemma route_to_category_no_goerr : forall a x ri sr n rt ci m op x',
  (ci < length (rt_cats rt))%nat -> route_to_category a x ri sr n rt (Some ci) m op <> GoErr x'.
Proof.
  intros a x ri sr n rt ci m op x' Hlt. unfold route_to_category.
  destruct (nth_error (rt_cats rt) ci) eqn:E; [|apply nth_error_None in E; lia].
  destruct (rt_result rt); [|discriminate].
  destruct (save_and_log _ _ _ _ _ _ _ _ _) eqn:Es; try discriminate.
  exfalso; eapply save_and_log_no_goerr; eauto.
Qed.

Lemma route_no_goerr : forall a x ri sr n rt x', valid_router rt -> route a x ri sr n rt <> GoErr x'.
Proof.
  intros a x ri sr n rt x' (Hc & Hd & _). unfold route.
  destruct (match_case (rt_cases rt) (operand_of (session_ x))) as [ci|] eqn:Em.
  - destruct (match_case_in _ _ _ Em) as (arg & Hin).
    destruct (route_to_category a x ri sr n rt (Some ci) _ _) eqn:E; try discriminate.
    exfalso; eapply route_to_category_no_goerr; [eapply Hc; eauto|exact E].
  - destruct (rt_default rt) as [ci|] eqn:Ed.
    + destruct (route_to_category a x ri sr n rt (Some ci) _ _) eqn:E; try discriminate.
      exfalso; eapply route_to_category_no_goerr; [eapply Hd; eauto|exact E].
    + simpl. discriminate.
Qed.

Lemma pick_node_exit_route_no_goerr : forall a x ri n pos x',
  (forall rt, n_router n = Some rt -> valid_router rt) -> pick_node_exit a x ri n pos false [] <> GoErr x'.
Proof.
  intros a x ri n pos x' Hv. unfold pick_node_exit.
  destruct (n_router n) as [rt|] eqn:Er.
  - destruct (route a x ri (Some (ri, pos)) n rt) as [y [w op]| |] eqn:E; try discriminate.
    + destruct w; discriminate.
    + exfalso; eapply route_no_goerr; [apply Hv; reflexivity|exact E].
  - destruct (n_exits n); discriminate.
Qed.

Lemma visit_node_no_goerr : forall a x ri n wt x',
  (ri < length (s_runs (session_ x)))%nat -> (forall rt, n_router n = Some rt -> valid_router rt) ->
  visit_node a x ri n wt <> GoErr x'.
Proof.
  intros a x ri n wt x' Hlt Hv. unfold visit_node.
  destruct (get_run (session_ x) ri) as [r0|] eqn:Er.
  2:{ unfold get_run in Er. apply nth_error_None in Er. lia. }
  match goal with |- context [exec_actions a ?X ri ?P n ?A] => destruct (exec_actions a X ri P n A) as [x3 b| |] eqn:Ea end;
    try discriminate.
  2:{ exfalso; eapply exec_actions_no_goerr; eauto. }
  destruct b; [discriminate|]. destruct (s_pushed (session_ x3)); [discriminate|].
  match goal with |- context [match ?bw with Some _ => _ | None => match pick_node_exit ?A ?X ?R ?N ?P ?I ?T with _ => _ end end] =>
    destruct bw; [discriminate|]; destruct (pick_node_exit A X R N P I T) as [? [? ?]| |] eqn:E2 end; try discriminate.
  exfalso; eapply pick_node_exit_route_no_goerr; eauto.
Qed.

(* ---- the flow of a run never changes ---------------------------------------------------------------------- *)

Definition fl (x : st) : list id := map r_flow (s_runs (session_ x)).

Lemma fl_upd : forall x k g, (forall r, r_flow (g r) = r_flow r) -> fl (with_session x (fun s => upd_run s k g)) = fl x.
Proof.
  intros. unfold fl, upd_run; simpl. rewrite (update_nth_map _ _ r_flow g (fun z => z)) by auto. apply update_nth_id; auto.
Qed.

Lemma fl_log_event : forall x ri sr k, fl (log_event x ri sr k) = fl x.
Proof.
  intros. unfold fl, log_event, upd_run; simpl.
  rewrite (update_nth_map _ _ r_flow _ (fun z => z)) by reflexivity. apply update_nth_id; auto.
Qed.

Lemma fl_fail_run : forall x ri sr c, fl (fail_run x ri sr c) = fl x.
Proof. intros. unfold fail_run. rewrite fl_log_event. apply fl_upd. reflexivity. Qed.

Lemma save_and_log_fl : forall a x ri sr name value cat nid input x' v,
  save_and_log a x ri sr name value cat nid input = Done x' v -> fl x' = fl x.
Proof.
  intros a x ri sr name value cat nid input x' v. unfold save_and_log.
  destruct (trunc value _); [|discriminate]. destruct (trunc_ellipsis input _) as [kept|]; [|discriminate]. destruct (get_run (session_ x) ri).
  - destruct (save_result _ _) as [rs ch]. intros H; inversion H; subst.
    destruct ch; rewrite ?fl_log_event; apply fl_upd; reflexivity.
  - intros H; inversion H; reflexivity.
Qed.

Lemma route_to_category_fl : forall a x ri sr n rt cat m op x' v,
  route_to_category a x ri sr n rt cat m op = Done x' v -> fl x' = fl x.
Proof.
  intros a x ri sr n rt cat m op x' v. unfold route_to_category.
  destruct cat; [|intros H; inversion H; reflexivity].
  destruct (nth_error _ _); [|discriminate].
  destruct (rt_result rt); [|intros H; inversion H; reflexivity].
  destruct (save_and_log _ _ _ _ _ _ _ _ _) eqn:E; try discriminate.
  intros H; inversion H; subst. eapply save_and_log_fl; eauto.
Qed.

Lemma pick_node_exit_fl : forall a x ri n pos it tmo x' v,
  pick_node_exit a x ri n pos it tmo = Done x' v -> fl x' = fl x.
Proof.
  intros a x ri n pos it tmo x' v. unfold pick_node_exit.
  destruct (n_router n) as [rt|].
  - destruct it.
    + unfold route_timeout. destruct (rt_wait rt) as [[wt [[? ci]|]]|]; try discriminate.
      destruct (route_to_category a x ri (Some (ri, pos)) n rt (Some ci) tmo []) as [y w| |] eqn:E; try discriminate.
      pose proof (route_to_category_fl _ _ _ _ _ _ _ _ _ _ _ E) as Hy.
      destruct w; intros H; inversion H; subst; rewrite ?fl_fail_run, ?fl_upd; auto.
    + unfold route.
      match goal with |- context [route_to_category ?A ?X ?R ?S ?N ?RT ?C ?M ?O] =>
        destruct (route_to_category A X R S N RT C M O) as [y w| |] eqn:E end; try discriminate.
      pose proof (route_to_category_fl _ _ _ _ _ _ _ _ _ _ _ E) as Hy.
      destruct w; intros H; inversion H; subst; rewrite ?fl_fail_run, ?fl_upd; auto.
  - destruct (n_exits n); intros H; inversion H; subst; rewrite fl_upd; auto.
Qed.

Lemma find_resume_exit_fl : forall a x ri it tmo,
  match find_resume_exit a x ri it tmo with
  | FreOk x' _ _ => fl x' = fl x
  | FreErr x' => x' = x
  | _ => True
  end.
Proof.
  intros. unfold find_resume_exit. destruct (run_status (session_ x) ri) as [[]|]; auto.
  destruct (path_location a (session_ x) ri) as [[pos n]|]; auto.
  destruct (pick_node_exit a x ri n pos it tmo) as [x' [e op]|x'|] eqn:E; auto.
  - eapply pick_node_exit_fl; eauto.
  - eapply pick_node_exit_goerr; eauto.
Qed.

Lemma exec_actions_fl : forall a acts x ri pos n x' b, exec_actions a x ri pos n acts = Done x' b -> fl x' = fl x.
Proof.
  induction acts as [|act acts IH]; intros x ri pos n x' b; simpl.
  - intros H; inversion H; reflexivity.
  - destruct (exec_action a x ri pos n act) as [y v| |] eqn:E; try discriminate.
    assert (Hy : fl y = fl x).
    { revert E. unfold exec_action. destruct act.
      - destruct (trunc_ellipsis _ _); [|discriminate]. intros H; inversion H; subst. apply fl_log_event.
      - destruct (trunc_ellipsis _ _); [|discriminate]. apply save_and_log_fl.
      - destruct (get_flow a flow); [destruct (negb _)|]; intros H; inversion H; subst;
          rewrite ?fl_log_event; try reflexivity; apply fl_upd; reflexivity. }
    destruct (run_status (session_ y) ri) as [[]|]; try (intros H; rewrite (IH _ _ _ _ _ _ H); exact Hy).
    intros H; inversion H; subst. exact Hy.
Qed.

Lemma visit_node_fl : forall a x ri n wt x' v, visit_node a x ri n wt = Done x' v -> fl x' = fl x.
Proof.
  intros a x ri n wt x' v. unfold visit_node.
  destruct (get_run (session_ x) ri) as [r0|] eqn:Er; [|discriminate].
  set (x1 := with_session x (fun s => upd_run s ri (run_add_step {| st_node := n_id n; st_exit := None |}))).
  assert (H1 : fl x1 = fl x) by (apply fl_upd; reflexivity).
  match goal with |- context [exec_actions a ?X ri ?P n ?A] => set (x2 := X) end.
  assert (H2 : fl x2 = fl x).
  { unfold x2. destruct wt; [destruct (s_trigger (session_ x1))|]; auto. rewrite fl_log_event. exact H1. }
  destruct (exec_actions a x2 ri (length (r_path r0)) n (n_actions n)) as [x3 b| |] eqn:Ea; try discriminate.
  pose proof (exec_actions_fl _ _ _ _ _ _ _ _ Ea) as H3.
  destruct b; [intros H; inversion H; subst; congruence|].
  destruct (s_pushed (session_ x3)); [intros H; inversion H; subst; congruence|].
  match goal with |- context [match ?bw with Some _ => _ | None => match pick_node_exit ?A ?X ?R ?N ?P ?I ?T with _ => _ end end] =>
    destruct bw as [x4|] eqn:Ebw end.
  - intros H; inversion H; subst.
    assert (H4 : fl x4 = fl x3).
    { destruct (n_router n) as [rt|]; [|discriminate]. destruct (rt_wait rt) as [[[] tmo]|]; try discriminate; try (dmatch_hyp Ebw; [discriminate|]); inversion Ebw; subst.
      all: (apply fl_log_event). }
    change (fl (with_session x4 (fun s => upd_run s ri (run_set_status RWaiting))) = fl x). rewrite fl_upd by reflexivity. congruence.
  - destruct (pick_node_exit a x3 ri n (length (r_path r0)) false []) as [x5 [e5 op5]| |] eqn:Epk; try discriminate.
    intros H; inversion H; subst. rewrite (pick_node_exit_fl _ _ _ _ _ _ _ _ _ Epk). congruence.
Qed.

(* ---- where a pending exit comes from -------------------------------------------------------------------- *)

(* the destination of the pending exit (if any) is a node of the current run's flow *)
Definition exit_ok (a : assets) (x : st) (l : lstate) : Prop :=
  forall e c, l_exit l = Some e -> l_cur l = Some c ->
  exists fid f, nth_error (fl x) c = Some fid /\ get_flow a fid = Some f /\
                forall d, e_dest e = Some d -> get_node f d <> None.

Lemma pick_node_exit_in : forall a x ri n pos it tmo x' e op,
  pick_node_exit a x ri n pos it tmo = Done x' (Some e, op) -> In e (n_exits n).
Proof.
  intros a x ri n pos it tmo x' e op. unfold pick_node_exit.
  repeat dmatch; intros H; inversion H; subst; try discriminate;
    match goal with K : find_exit _ _ = Some _ |- _ => apply find_exit_in in K; destruct K; auto end.
Qed.

Lemma visit_node_exit_in : forall a x ri n wt x' pos e op,
  visit_node a x ri n wt = Done x' (pos, Some e, op) -> In e (n_exits n).
Proof.
  intros a x ri n wt x' pos e op. unfold visit_node.
  destruct (get_run (session_ x) ri) as [r0|]; [|discriminate].
  match goal with |- context [exec_actions a ?X ri ?P n ?A] => destruct (exec_actions a X ri P n A) as [x3 b| |] end; try discriminate.
  destruct b; [discriminate|]. destruct (s_pushed (session_ x3)); [discriminate|].
  match goal with |- context [match ?bw with Some _ => _ | None => match pick_node_exit ?A ?X ?R ?N ?P ?I ?T with _ => _ end end] =>
    destruct bw; [discriminate|]; destruct (pick_node_exit A X R N P I T) as [? [? ?]| |] eqn:E2 end; try discriminate.
  intros H; inversion H; subst. eapply pick_node_exit_in; eauto.
Qed.

Lemma nth_error_fl : forall x i, nth_error (fl x) i = option_map r_flow (get_run (session_ x) i).
Proof. intros. unfold fl, get_run. apply nth_error_map. Qed.

Lemma find_resume_exit_exit_ok : forall a x ri it tmo x' e op,
  valid_assets a -> find_resume_exit a x ri it tmo = FreOk x' (Some e) op ->
  exists fid f, nth_error (fl x') ri = Some fid /\ get_flow a fid = Some f /\
                forall d, e_dest e = Some d -> get_node f d <> None.
Proof.
  intros a x ri it tmo x' e op Hv. unfold find_resume_exit.
  destruct (run_status (session_ x) ri) as [[]|]; try discriminate.
  unfold path_location. destruct (get_run (session_ x) ri) as [r|] eqn:Er; [|discriminate].
  destruct (r_path r) as [|stp0 rest] eqn:Ep; [discriminate|].
  destruct (nth_error (stp0 :: rest) (Nat.pred (length (stp0 :: rest)))) as [stp|]; [|discriminate].
  destruct (get_flow a (r_flow r)) as [f|] eqn:Ef; [|discriminate].
  destruct (get_node f (st_node stp)) as [n|] eqn:En; [|discriminate].
  destruct (pick_node_exit a x ri n _ it tmo) as [y [e' op']| |] eqn:Epk; try discriminate.
  intros H; inversion H; subst.
  pose proof (pick_node_exit_in _ _ _ _ _ _ _ _ _ _ Epk) as Hin.
  pose proof (pick_node_exit_fl _ _ _ _ _ _ _ _ _ Epk) as Hfl.
  destruct (valid_get_node _ _ _ _ _ Hv Ef En) as [[Hd _] _].
  exists (r_flow r), f. rewrite Hfl, nth_error_fl, Er. repeat split; auto. intros d Hdst. eapply Hd; eauto.
Qed.

(* ---- no iteration returns a Go error ---------------------------------------------------------------------- *)

Definition dest_ok (a : assets) (x : st) (c : nat) (dest : option id) : Prop :=
  forall d, dest = Some d -> exists fid f, nth_error (fl x) c = Some fid /\ get_flow a fid = Some f /\ get_node f d <> None.

Lemma pick_dest_noerr : forall a x l x1 l1 dest c,
  exit_ok a x l -> (forall c0, l_cur l = Some c0 -> (c0 < length (s_runs (session_ x)))%nat) ->
  pick_dest a x l = (x1, l1, dest) -> l_cur l1 = Some c -> dest_ok a x1 c dest.
Proof.
  intros a x l x1 l1 dest c Hx Hlt. unfold pick_dest.
  destruct (s_pushed (session_ x)) as [p|].
  - intros H; inversion H; subst; clear H. cbn [l_cur]. intros Hc; inversion Hc; subst; clear Hc.
    intros d Hd. destruct (get_flow a (p_flow p)) as [f|] eqn:Ef; [|discriminate].
    destruct (f_nodes f) as [|n0 ns] eqn:En; [discriminate|]. inversion Hd; subst.
    exists (p_flow p), f. split; [|split; [exact Ef|]].
    + unfold fl; simpl. rewrite map_app. simpl. rewrite nth_error_app2 by (rewrite map_length; lia).
      rewrite map_length, Nat.sub_diag. reflexivity.
    + unfold get_node. rewrite En. simpl. rewrite N.eqb_refl. discriminate.
  - destruct (l_exit l) as [e|] eqn:Ee.
    + intros H Hc.
      assert (Hx1 : fl x1 = fl x /\ l_cur l1 = l_cur l /\ dest = e_dest e).
      { revert H. repeat dmatch; intros H; inversion H; subst; auto. }
      destruct Hx1 as (Hf & Hc1 & Hdd). rewrite Hc1 in Hc.
      destruct (Hx e c Ee Hc) as (fid & f & A & B & C).
      intros d Hd. exists fid, f. rewrite Hf. repeat split; auto. apply C. congruence.
    + intros H Hc. inversion H; subst. intros d Hd. discriminate.
Qed.

Lemma goto_node_noerr : forall a x l c d,
  valid_assets a -> mid_inv x l c (Some d) -> dest_ok a x c (Some d) ->
  match goto_node a x l c d with
  | IStop (RGoError _) => False
  | ICont x' l' => exit_ok a x' l'
  | _ => True
  end.
Proof.
  intros a x l c d Hv M Hd. unfold goto_node. cbv zeta. cbn [l_trigger l_steps l_cur l_exit l_step l_node l_operand].
  pose proof (mi_lt _ _ _ _ M) as Hlt. rewrite shape_length in Hlt.
  destruct (l_steps l + 1 >? max_steps (a_opts a))%Z.
  { intros e c0 He. simpl in He. rewrite (mi_exit _ _ _ _ M) in He. discriminate. }
  destruct (Hd d eq_refl) as (fid & f & Hfid & Hf & Hn).
  rewrite nth_error_fl in Hfid.
  destruct (get_run (session_ x) c) as [r|] eqn:Er; [|discriminate]. simpl in Hfid. inversion Hfid; subst fid.
  rewrite Hf. destruct (get_node f d) as [n|] eqn:En; [|contradiction].
  destruct (valid_get_node _ _ _ _ _ Hv Hf En) as [[Hvd Hvr] Hin].
  destruct (visit_node a x c n (l_trigger l)) as [y [[pos e] op]|y|] eqn:Ev; auto.
  - destruct (sstatus_eqb (s_status (session_ y)) SWaiting); auto.
    intros e0 c0 He Hc. simpl in He, Hc. inversion Hc; subst c0. subst e.
    pose proof (visit_node_exit_in _ _ _ _ _ _ _ _ _ Ev) as Hine.
    exists (r_flow r), f. rewrite (visit_node_fl _ _ _ _ _ _ _ Ev), nth_error_fl, Er. repeat split; auto.
    intros d0 Hd0. eapply Hvd; eauto.
  - eapply visit_node_no_goerr; eauto.
Qed.

Definition iter_noerr (a : assets) (r : iter) : Prop :=
  match r with
  | IStop (RGoError _) => False
  | ICont x' l' => exit_ok a x' l'
  | _ => True
  end.

Lemma finish_run_noerr : forall a x l c r,
  valid_assets a -> l_exit l = None -> finish_run a x l c = r -> iter_noerr a r.
Proof.
  intros a x l c r Hv He. unfold finish_run.
  destruct (get_run (session_ x) c) as [r0|] eqn:Er0; [destruct (r_exited r0) eqn:Ex0|];
  repeat (first
    [ match goal with
      | H : find_resume_exit _ _ _ _ _ = FreGoErr _ |- _ => exfalso; eapply find_resume_exit_no_goerr; exact H
      | H : find_resume_exit ?a ?X ?pi ?b ?t = FreOk ?y ?e ?op |- _ =>
          let K := fresh "K" in pose proof (fun e0 (E : e = Some e0) => find_resume_exit_exit_ok a X pi b t y e0 op Hv ltac:(rewrite <- E; exact H)) as K; clear H
      end
    | dmatch ]); intros <-; unfold iter_noerr; auto;
  try (intros e0 c0 He0; simpl in He0; rewrite ?He in He0; discriminate).
  all: intros e0 c0 He0 Hc0; simpl in He0, Hc0; inversion Hc0; subst; eapply K; reflexivity.
Qed.

Lemma cuw_iter_noerr : forall a x l,
  valid_assets a -> loop_inv x l -> exit_ok a x l -> iter_noerr a (cuw_iter a x l).
Proof.
  intros a x l Hv HL Hx. rewrite cuw_iter_phases.
  destruct (pick_dest a x l) as [[x1 l1] dest] eqn:Epd.
  destruct (pick_dest_inv _ _ _ _ _ _ HL Epd) as (c & M & _).
  assert (Hlt : forall c0, l_cur l = Some c0 -> (c0 < length (s_runs (session_ x)))%nat).
  { intros c0 Hc0. pose proof (li_cur _ _ HL) as Hc. unfold cur_ok in Hc. rewrite Hc0 in Hc.
    destruct Hc as (Hl & _). rewrite shape_length in Hl. exact Hl. }
  pose proof (pick_dest_noerr _ _ _ _ _ _ c Hx Hlt Epd (mi_cur _ _ _ _ M)) as Hd.
  rewrite (mi_cur _ _ _ _ M). destruct dest as [d|].
  - pose proof (goto_node_noerr a x1 l1 c d Hv M Hd) as K. unfold iter_noerr.
    destruct (goto_node a x1 l1 c d) as [[]|]; auto.
  - eapply finish_run_noerr; [exact Hv|apply (mi_exit _ _ _ _ M)|reflexivity].
Qed.

Lemma cuw_noerr : forall a fuel x l,
  valid_assets a -> loop_inv x l -> exit_ok a x l ->
  forall y, continue_until_wait fuel a x l <> RGoError y.
Proof.
  intros a fuel x l Hv HL Hx y C.
  pose proof (cuw_induct a (fun x1 l1 => loop_inv x1 l1 /\ exit_ok a x1 l1)
                (fun r => match r with RGoError _ => False | _ => True end)) as P.
  specialize (P ltac:(intros x1 l1 x2 l2 [H1 H2] E; pose proof (cuw_iter_inv a x1 l1 H1) as K;
                      pose proof (cuw_iter_noerr a x1 l1 Hv H1 H2) as F; rewrite E in K, F; split; [exact K|exact F])).
  specialize (P ltac:(intros x1 l1 r [H1 H2] E; pose proof (cuw_iter_noerr a x1 l1 Hv H1 H2) as F; rewrite E in F;
                      destruct r; auto)).
  specialize (P I fuel x l (conj HL Hx)). rewrite C in P. exact P.
Qed.

(* a started session: no Go error as long as the trigger's flow exists *)
Theorem start_no_go_error : forall a t f y,
  valid_assets a -> get_flow a f <> None -> start a t f <> RGoError y.
Proof.
  intros a t f y Hv Hf. unfold start. destruct (get_flow a f) as [fl0|]; [|contradiction].
  apply cuw_noerr; auto.
  - apply loop_inv_start.
  - intros e c He. simpl in He. discriminate.
Qed.

(* a resume of a session that satisfies the invariant: no Go error, whatever happened to the assets
   since the session last ran, provided the assets it is resumed against are valid *)
Theorem resume_no_go_error : forall a s r tmo y,
  valid_assets a -> post_inv s -> resume_session a s r tmo <> Resumed (RGoError y).
Proof.
  intros a s r tmo y Hv Hpost C.
  destruct (resume_decompose _ _ _ _ _ Hpost C) as [(y0 & wi & c & E & _)|(x2 & l & E & HL & Hs & _ & _ & wi & pos & e & op & _ & Hc & He & Hfre & _)];
    [discriminate|].
  symmetry in E. revert E. apply cuw_noerr; auto.
  intros e0 c0 He0 Hc0. rewrite Hc in Hc0. inversion Hc0; subst c0. rewrite He0 in He. subst e.
  eapply find_resume_exit_exit_ok; eauto.
Qed.

Theorem reachable_resume_no_go_error : forall a s r tmo y,
  valid_assets a -> reachable s -> resume_session a s r tmo <> Resumed (RGoError y).
Proof. intros. apply resume_no_go_error; auto. apply reachable_post; assumption. Qed.

(* ---- a decidable version of validity, evaluated on every generated asset store by the correspondence run -- *)

Lemma valid_assets_b_sound : forall a, valid_assets_b a = true -> valid_assets a.
Proof.
  intros a H f Hf n Hn. unfold valid_assets_b in H. rewrite forallb_forall in H. specialize (H f Hf).
  rewrite forallb_forall in H. specialize (H n Hn). unfold valid_node_b in H. apply andb_true_iff in H. destruct H as [He Hr].
  split.
  - intros e d Hin Hd. rewrite forallb_forall in He. specialize (He e Hin). rewrite Hd in He.
    destruct (get_node f d); [discriminate|discriminate He].
  - intros rt Hrt. rewrite Hrt in Hr. unfold valid_router_b in Hr.
    apply andb_true_iff in Hr. destruct Hr as [Hr Hw]. apply andb_true_iff in Hr. destruct Hr as [Hc Hd].
    split; [|split].
    + intros arg ci Hin. rewrite forallb_forall in Hc. specialize (Hc (arg, ci) Hin). simpl in Hc. apply Nat.ltb_lt. exact Hc.
    + intros ci Hdf. rewrite Hdf in Hd. apply Nat.ltb_lt. exact Hd.
    + intros w sec ci Hwt Htm. rewrite Hwt in Hw. destruct w as [wt tmo]. simpl in Htm. subst tmo. apply Nat.ltb_lt. exact Hw.
Qed.
