(* ConcHB.v -- property C09: the race reports of the instrumented semantics (model/Conc.v) are sound for the
   RELATIONAL definition of a data race: two conflicting accesses by different goroutines that are not ordered by
   happens-before, where happens-before is the transitive closure of program order and "an Unlock happens before
   every later Lock" (the Go memory model's rule for sync.Mutex).  This holds for EVERY program and discipline: it is
   a fact about the instrumentation, not about goflow.  Together with proofs/ConcProofs.v: under the extracted
   discipline no schedule has a data race in the relational sense. *)
From Coq Require Import List String NArith Bool Arith Lia.
From Verif Require Import model.Conc proofs.ConcProofs.
Import ListNotations.

Inductive kind := KAcc (a : access) | KSync (s : sync).

Definition evs_of (hist : list event) (syncs : list sevent) : list (nat * nat * kind) :=
  map (fun e => (ev_id e, ev_tid e, KAcc (ev_acc e))) hist ++ map (fun s => (se_id s, se_tid s, KSync (se_kind s))) syncs.

Definition all_events (c : cfg) : list (nat * nat * kind) := evs_of (g_hist c) (g_sync c).

Inductive hb (evs : list (nat * nat * kind)) : nat -> nat -> Prop :=
| hb_po : forall i j t ki kj, In (i, t, ki) evs -> In (j, t, kj) evs -> i < j -> hb evs i j
| hb_sw : forall i j ti tj, In (i, ti, KSync SRel) evs -> In (j, tj, KSync SAcq) evs -> i < j -> hb evs i j
| hb_trans : forall i j k, hb evs i j -> hb evs j k -> hb evs i k.

Definition relational_race (c : cfg) : Prop :=
  exists e1 e2, In e1 (g_hist c) /\ In e2 (g_hist c) /\ ev_id e1 < ev_id e2 /\ ev_tid e1 <> ev_tid e2 /\
                conflicts (ev_acc e1) (ev_acc e2) = true /\ ~ hb (all_events c) (ev_id e1) (ev_id e2).

Lemma hb_mono : forall evs evs' i j, incl evs evs' -> hb evs i j -> hb evs' i j.
Proof.
  intros evs evs' i j Hi H. induction H.
  - eapply hb_po; eauto.
  - eapply hb_sw; eauto.
  - eapply hb_trans; eauto.
Qed.

(* id is known to happen before (or be) some event of thread t *)
Definition reaches_thread (evs : list (nat * nat * kind)) (id t : nat) : Prop :=
  exists j kj, In (j, t, kj) evs /\ (id = j \/ hb evs id j).

Definition reaches_release (evs : list (nat * nat * kind)) (id : nat) : Prop :=
  exists j tj, In (j, tj, KSync SRel) evs /\ (id = j \/ hb evs id j).

Record hbinv (next : nat) (hist : list event) (syncs : list sevent) (lockk : list nat)
             (knows : list (list nat)) (races : list (nat * nat)) : Prop := {
  hi_fresh : forall i t k, In (i, t, k) (evs_of hist syncs) -> i < next;
  hi_know : forall t k id, nth_error knows t = Some k -> In id k -> reaches_thread (evs_of hist syncs) id t;
  hi_lock : forall id, In id lockk -> reaches_release (evs_of hist syncs) id;
  hi_pairs : forall e1 e2, In e1 hist -> In e2 hist -> ev_id e1 < ev_id e2 -> ev_tid e1 <> ev_tid e2 ->
             conflicts (ev_acc e1) (ev_acc e2) = true ->
             hb (evs_of hist syncs) (ev_id e1) (ev_id e2) \/ In (ev_id e1, ev_id e2) races
}.

Lemma evs_incl_hist : forall hist syncs e, incl (evs_of hist syncs) (evs_of (e :: hist) syncs).
Proof. intros hist syncs e x Hx. unfold evs_of in *. simpl. right. exact Hx. Qed.

Lemma evs_incl_sync : forall hist syncs s, incl (evs_of hist syncs) (evs_of hist (s :: syncs)).
Proof.
  intros hist syncs s x Hx. unfold evs_of in *. apply in_app_or in Hx. apply in_or_app.
  destruct Hx as [H|H]. left; exact H. right. simpl. right. exact H.
Qed.

Lemma reaches_thread_mono : forall evs evs' id t, incl evs evs' -> reaches_thread evs id t -> reaches_thread evs' id t.
Proof.
  intros evs evs' id t Hi [j [kj [Hin H]]]. exists j, kj. split. apply Hi. exact Hin.
  destruct H as [H|H]. left; exact H. right. eapply hb_mono; eassumption.
Qed.

Lemma reaches_release_mono : forall evs evs' id, incl evs evs' -> reaches_release evs id -> reaches_release evs' id.
Proof.
  intros evs evs' id Hi [j [tj [Hin H]]]. exists j, tj. split. apply Hi. exact Hin.
  destruct H as [H|H]. left; exact H. right. eapply hb_mono; eassumption.
Qed.

Lemma nth_error_set_nth_cases : forall {A : Type} (l : list A) n m x y,
  nth_error (set_nth n x l) m = Some y -> (n = m /\ y = x) \/ (n <> m /\ nth_error l m = Some y).
Proof.
  intros A l n m x y H. destruct (Nat.eq_dec n m) as [E|E].
  - subst m. left. split. reflexivity.
    destruct (nth_error l n) as [z|] eqn:Hz.
    + rewrite (nth_error_set_nth_eq l n x z Hz) in H. inversion H. reflexivity.
    + exfalso. apply nth_error_None in Hz.
      assert (Hl : List.length (set_nth n x l) = List.length l).
      { clear. revert n. induction l as [|a t IH]; intro n; destruct n; simpl; try reflexivity. rewrite IH. reflexivity. }
      assert (n < List.length (set_nth n x l)) by (apply nth_error_Some; rewrite H; discriminate). lia.
  - right. split. exact E. rewrite (nth_error_set_nth_neq l n m x E) in H. exact H.
Qed.

(* an access by thread t whose knowledge is k *)
Lemma hbinv_emit : forall next hist syncs lockk knows races t k a,
  hbinv next hist syncs lockk knows races -> nth_error knows t = Some k ->
  hbinv (S next) ({| ev_id := next; ev_tid := t; ev_acc := a |} :: hist) syncs lockk
        (set_nth t (next :: k) knows)
        (map (fun e => (ev_id e, next)) (filter (racy_with k t a) hist) ++ races).
Proof.
  intros next hist syncs lockk knows races t k a H Hk.
  set (e0 := {| ev_id := next; ev_tid := t; ev_acc := a |}).
  assert (Hinc := evs_incl_hist hist syncs e0).
  assert (He0 : In (next, t, KAcc a) (evs_of (e0 :: hist) syncs)).
  { unfold evs_of. simpl. left. reflexivity. }
  constructor.
  - intros i t' k' Hin. unfold evs_of in Hin. simpl in Hin. destruct Hin as [Hin|Hin].
    + inversion Hin. lia.
    + assert (i < next). { apply (hi_fresh _ _ _ _ _ _ H i t' k'). exact Hin. } lia.
  - intros t' k' id Hn Hid. apply nth_error_set_nth_cases in Hn. destruct Hn as [[Et Ek]|[Et Hn]].
    + subst t' k'. destruct Hid as [Hid|Hid].
      * subst id. exists next, (KAcc a). split. exact He0. left. reflexivity.
      * eapply reaches_thread_mono. exact Hinc. apply (hi_know _ _ _ _ _ _ H t k id Hk Hid).
    + eapply reaches_thread_mono. exact Hinc. apply (hi_know _ _ _ _ _ _ H t' k' id Hn Hid).
  - intros id Hid. eapply reaches_release_mono. exact Hinc. apply (hi_lock _ _ _ _ _ _ H id Hid).
  - intros e1 e2 [H1|H1] [H2|H2] Hlt Hne Hc.
    + subst e1 e2. lia.
    + (* the new event cannot be the earlier one *)
      subst e1. simpl in Hlt.
      assert (ev_id e2 < next).
      { apply (hi_fresh _ _ _ _ _ _ H (ev_id e2) (ev_tid e2) (KAcc (ev_acc e2))). unfold evs_of. apply in_or_app. left.
        apply in_map_iff. exists e2. split. reflexivity. exact H2. }
      lia.
    + subst e2. simpl in *.
      destruct (racy_with k t a e1) eqn:Er.
      * right. apply in_or_app. left. apply in_map_iff. exists e1. split. reflexivity. apply filter_In. split; assumption.
      * left. unfold racy_with in Er.
        assert (Htid : Nat.eqb (ev_tid e1) t = false) by (apply Nat.eqb_neq; exact Hne).
        rewrite Htid, Hc in Er. simpl in Er. apply negb_false_iff in Er. apply mem_nat_In in Er.
        destruct (hi_know _ _ _ _ _ _ H t k (ev_id e1) Hk Er) as [j [kj [Hj Hr]]].
        assert (Hjlt : j < next) by (apply (hi_fresh _ _ _ _ _ _ H j t kj Hj)).
        assert (Hpo : hb (evs_of (e0 :: hist) syncs) j next).
        { eapply hb_po. apply Hinc. exact Hj. exact He0. exact Hjlt. }
        destruct Hr as [Hr|Hr].
        -- rewrite Hr. exact Hpo.
        -- eapply hb_trans. eapply hb_mono. exact Hinc. exact Hr. exact Hpo.
    + destruct (hi_pairs _ _ _ _ _ _ H e1 e2 H1 H2 Hlt Hne Hc) as [Hh|Hr].
      * left. eapply hb_mono. exact Hinc. exact Hh.
      * right. apply in_or_app. right. exact Hr.
Qed.

(* Lock by thread t *)
Lemma hbinv_acq : forall next hist syncs lockk knows races t k,
  hbinv next hist syncs lockk knows races -> nth_error knows t = Some k ->
  hbinv (S next) hist ({| se_id := next; se_tid := t; se_kind := SAcq |} :: syncs) lockk
        (set_nth t (lockk ++ k) knows) races.
Proof.
  intros next hist syncs lockk knows races t k H Hk.
  set (s0 := {| se_id := next; se_tid := t; se_kind := SAcq |}).
  assert (Hinc := evs_incl_sync hist syncs s0).
  assert (Hs0 : In (next, t, KSync SAcq) (evs_of hist (s0 :: syncs))).
  { unfold evs_of. apply in_or_app. right. simpl. left. reflexivity. }
  constructor.
  - intros i t' k' Hin. unfold evs_of in Hin. apply in_app_or in Hin. destruct Hin as [Hin|Hin].
    + assert (i < next). { apply (hi_fresh _ _ _ _ _ _ H i t' k'). unfold evs_of. apply in_or_app. left. exact Hin. } lia.
    + simpl in Hin. destruct Hin as [Hin|Hin].
      * inversion Hin. lia.
      * assert (i < next). { apply (hi_fresh _ _ _ _ _ _ H i t' k'). unfold evs_of. apply in_or_app. right. exact Hin. } lia.
  - intros t' k' id Hn Hid. apply nth_error_set_nth_cases in Hn. destruct Hn as [[Et Ek]|[Et Hn]].
    + subst t' k'. apply in_app_or in Hid. destruct Hid as [Hid|Hid].
      * (* released before: the release synchronises with this acquisition *)
        destruct (hi_lock _ _ _ _ _ _ H id Hid) as [j [tj [Hj Hr]]].
        assert (Hjlt : j < next) by (apply (hi_fresh _ _ _ _ _ _ H j tj (KSync SRel) Hj)).
        assert (Hsw : hb (evs_of hist (s0 :: syncs)) j next).
        { eapply hb_sw. apply Hinc. exact Hj. exact Hs0. exact Hjlt. }
        exists next, (KSync SAcq). split. exact Hs0. right. destruct Hr as [Hr|Hr].
        -- rewrite Hr. exact Hsw.
        -- eapply hb_trans. eapply hb_mono. exact Hinc. exact Hr. exact Hsw.
      * eapply reaches_thread_mono. exact Hinc. apply (hi_know _ _ _ _ _ _ H t k id Hk Hid).
    + eapply reaches_thread_mono. exact Hinc. apply (hi_know _ _ _ _ _ _ H t' k' id Hn Hid).
  - intros id Hid. eapply reaches_release_mono. exact Hinc. apply (hi_lock _ _ _ _ _ _ H id Hid).
  - intros e1 e2 H1 H2 Hlt Hne Hc. destruct (hi_pairs _ _ _ _ _ _ H e1 e2 H1 H2 Hlt Hne Hc) as [Hh|Hr].
    + left. eapply hb_mono. exact Hinc. exact Hh.
    + right. exact Hr.
Qed.

(* Unlock by thread t *)
Lemma hbinv_rel : forall next hist syncs lockk knows races t k,
  hbinv next hist syncs lockk knows races -> nth_error knows t = Some k ->
  hbinv (S next) hist ({| se_id := next; se_tid := t; se_kind := SRel |} :: syncs) (k ++ lockk) knows races.
Proof.
  intros next hist syncs lockk knows races t k H Hk.
  set (s0 := {| se_id := next; se_tid := t; se_kind := SRel |}).
  assert (Hinc := evs_incl_sync hist syncs s0).
  assert (Hs0 : In (next, t, KSync SRel) (evs_of hist (s0 :: syncs))).
  { unfold evs_of. apply in_or_app. right. simpl. left. reflexivity. }
  constructor.
  - intros i t' k' Hin. unfold evs_of in Hin. apply in_app_or in Hin. destruct Hin as [Hin|Hin].
    + assert (i < next). { apply (hi_fresh _ _ _ _ _ _ H i t' k'). unfold evs_of. apply in_or_app. left. exact Hin. } lia.
    + simpl in Hin. destruct Hin as [Hin|Hin].
      * inversion Hin. lia.
      * assert (i < next). { apply (hi_fresh _ _ _ _ _ _ H i t' k'). unfold evs_of. apply in_or_app. right. exact Hin. } lia.
  - intros t' k' id Hn Hid. eapply reaches_thread_mono. exact Hinc. apply (hi_know _ _ _ _ _ _ H t' k' id Hn Hid).
  - intros id Hid. apply in_app_or in Hid. destruct Hid as [Hid|Hid].
    + destruct (hi_know _ _ _ _ _ _ H t k id Hk Hid) as [j [kj [Hj Hr]]].
      assert (Hjlt : j < next) by (apply (hi_fresh _ _ _ _ _ _ H j t kj Hj)).
      assert (Hpo : hb (evs_of hist (s0 :: syncs)) j next).
      { eapply hb_po. apply Hinc. exact Hj. exact Hs0. exact Hjlt. }
      exists next, t. split. exact Hs0. right. destruct Hr as [Hr|Hr].
      * rewrite Hr. exact Hpo.
      * eapply hb_trans. eapply hb_mono. exact Hinc. exact Hr. exact Hpo.
    + eapply reaches_release_mono. exact Hinc. apply (hi_lock _ _ _ _ _ _ H id Hid).
  - intros e1 e2 H1 H2 Hlt Hne Hc. destruct (hi_pairs _ _ _ _ _ _ H e1 e2 H1 H2 Hlt Hne Hc) as [Hh|Hr].
    + left. eapply hb_mono. exact Hinc. exact Hh.
    + right. exact Hr.
Qed.

Definition knows_of (c : cfg) : list (list nat) := map t_know (g_threads c).

Definition cfg_hbinv (c : cfg) : Prop :=
  hbinv (g_next c) (g_hist c) (g_sync c) (g_lockk c) (knows_of c) (g_races c).

Lemma map_set_nth : forall {A B : Type} (f : A -> B) n x l, map f (set_nth n x l) = set_nth n (f x) (map f l).
Proof.
  intros A B f n x l. revert n. induction l as [|a t IH]; intro n; destruct n; simpl; try reflexivity. rewrite IH. reflexivity.
Qed.

Lemma set_nth_same : forall {A : Type} n (x : A) l, nth_error l n = Some x -> set_nth n x l = l.
Proof.
  intros A n x l. revert n. induction l as [|a t IH]; intros n H; destruct n; simpl in *; try discriminate.
  - inversion H. reflexivity.
  - rewrite IH. reflexivity. exact H.
Qed.

Lemma set_nth_twice : forall {A : Type} n (x y : A) l, set_nth n x (set_nth n y l) = set_nth n x l.
Proof.
  intros A n x y l. revert n. induction l as [|a t IH]; intro n; destruct n; simpl; try reflexivity. rewrite IH. reflexivity.
Qed.

Lemma knows_nth : forall c t ts, nth_error (g_threads c) t = Some ts -> nth_error (knows_of c) t = Some (t_know ts).
Proof. intros c t ts H. unfold knows_of. rewrite nth_error_map. rewrite H. reflexivity. Qed.

Lemma init_hbinv : forall locked progs, cfg_hbinv (init locked progs).
Proof.
  intros locked progs. unfold cfg_hbinv. simpl. constructor; simpl.
  - intros i t k [].
  - intros t k id Hn Hid. unfold knows_of in Hn. simpl in Hn. rewrite map_map in Hn. simpl in Hn.
    apply nth_error_In in Hn. apply in_map_iff in Hn. destruct Hn as [p [Hp _]]. subst k. contradiction.
  - intros id [].
  - intros e1 e2 [].
Qed.

(* every step keeps the instrumentation sound, whatever the program does *)
Theorem step_hbinv : forall load t c, cfg_hbinv c -> cfg_hbinv (step load t c).
Proof.
  intros load t c H. unfold step.
  destruct (nth_error (g_threads c) t) as [ts|] eqn:Hn; [|exact H].
  pose proof (knows_nth c t ts Hn) as Hk.
  destruct (t_code ts) as [|m rest] eqn:Hcode; [exact H|].
  unfold cfg_hbinv in *. unfold knows_of in *.
  destruct m.
  - (* MAcq *)
    destruct (g_holder c); [exact H|]. simpl. rewrite map_set_nth. simpl.
    apply hbinv_acq; assumption.
  - (* MRel *)
    simpl. rewrite map_set_nth. simpl. rewrite (set_nth_same t (t_know ts) _ Hk).
    apply (hbinv_rel _ _ _ _ _ _ t (t_know ts)); assumption.
  - (* MCacheRead *)
    unfold emit. simpl. destruct (mem_nat u (g_cache c)); simpl; rewrite map_set_nth; simpl;
      apply hbinv_emit; assumption.
  - (* MLoad: two accesses *)
    unfold emit. simpl. simpl. rewrite map_set_nth. simpl.
    pose proof (hbinv_emit _ _ _ _ _ _ t (t_know ts) (Wr (LDef u)) H Hk) as H1.
    assert (Hk1 : nth_error (set_nth t (g_next c :: t_know ts) (map t_know (g_threads c))) t = Some (g_next c :: t_know ts)).
    { eapply nth_error_set_nth_eq. exact Hk. }
    pose proof (hbinv_emit _ _ _ _ _ _ t (g_next c :: t_know ts) (Wr LCache) H1 Hk1) as H2.
    rewrite set_nth_twice in H2. exact H2.
  - (* MRead *)
    destruct (mem_nat u (t_known ts)).
    + unfold emit. simpl. simpl. rewrite map_set_nth. simpl. apply hbinv_emit; assumption.
    + simpl. rewrite map_set_nth. simpl. rewrite (set_nth_same t (t_know ts) _ Hk). exact H.
  - (* MLazyRead *)
    unfold emit. simpl. destruct (mem_nat o (g_lazy c)); simpl; rewrite map_set_nth; simpl;
      apply hbinv_emit; assumption.
  - (* MLazyWrite *)
    unfold emit. simpl. simpl. rewrite map_set_nth. simpl. apply hbinv_emit; assumption.
  - (* MWriteDef *)
    destruct (mem_nat u (t_known ts)).
    + unfold emit. simpl. simpl. rewrite map_set_nth. simpl. apply hbinv_emit; assumption.
    + simpl. rewrite map_set_nth. simpl. rewrite (set_nth_same t (t_know ts) _ Hk). exact H.
Qed.

Theorem run_hbinv : forall load sched c, cfg_hbinv c -> cfg_hbinv (run load sched c).
Proof.
  intros load sched. unfold run. induction sched as [|t r IH]; intros c H; simpl. exact H.
  apply IH. apply step_hbinv. exact H.
Qed.

(* SOUNDNESS of the instrumentation, for every program, lock discipline and schedule: if the run reports no race then
   every two conflicting accesses by different goroutines are ordered by happens-before *)
Theorem no_report_no_race : forall load locked progs sched,
  g_races (run load sched (init locked progs)) = [] -> ~ relational_race (run load sched (init locked progs)).
Proof.
  intros load locked progs sched Hr [e1 [e2 [H1 [H2 [Hlt [Hne [Hc Hnhb]]]]]]].
  pose proof (run_hbinv load sched (init locked progs) (init_hbinv locked progs)) as Hi.
  destruct (hi_pairs _ _ _ _ _ _ Hi e1 e2 H1 H2 Hlt Hne Hc) as [Hh|Hin].
  - apply Hnhb. exact Hh.
  - rewrite Hr in Hin. contradiction.
Qed.

(* RACE FREEDOM in the relational sense *)
Theorem race_free_relational : forall load progs sched,
  Forall (Forall disciplined) progs -> ~ relational_race (run load sched (init true progs)).
Proof.
  intros load progs sched Hd. apply no_report_no_race. apply race_free. exact Hd.
Qed.

(* ================================================================================================ *)
(** * One load per flow *)

Definition is_def_write (u : nat) (e : event) : bool :=
  match ev_acc e with Wr (LDef v) => Nat.eqb u v | _ => false end.

Definition loads_of (u : nat) (c : cfg) : nat := List.length (filter (is_def_write u) (g_hist c)).

Definition single_loads (c : cfg) : Prop :=
  forall u, loads_of u c <= (if mem_nat u (g_cache c) then 1 else 0).

Lemma step_single_loads : forall load t c, inv load c -> single_loads c -> single_loads (step load t c).
Proof.
  intros load t c Hi Hs.
  destruct (nth_error (g_threads c) t) as [ts|] eqn:Hn.
  2: { unfold step. rewrite Hn. exact Hs. }
  destruct (t_code ts) as [|m rest] eqn:Hcode.
  { unfold step. rewrite Hn, Hcode. exact Hs. }
  pose proof (shape_head load c t ts m rest (iv_threads load c Hi t ts Hn) Hcode) as Hh.
  unfold step. rewrite Hn, Hcode. unfold single_loads, loads_of in *.
  destruct m; try contradiction.
  - destruct (g_holder c); [exact Hs|]. simpl. exact Hs.
  - simpl. exact Hs.
  - unfold emit. simpl. destruct (mem_nat u (g_cache c)); simpl; exact Hs.
  - (* MLoad u: the only step that writes a definition, and only when u is not cached *)
    destruct Hh as [_ [Hnew _]]. unfold emit. simpl. intro u0. specialize (Hs u0).
    unfold is_def_write at 1. simpl.
    destruct (Nat.eqb u0 u) eqn:E; simpl.
    + apply Nat.eqb_eq in E. subst u0. apply mem_nat_false in Hnew. rewrite Hnew in Hs. lia.
    + exact Hs.
  - destruct (mem_nat u (t_known ts)); unfold emit; simpl; exact Hs.
Qed.

(* under the discipline every flow is read, migrated and built at most once per cold cache, whatever the schedule:
   all goroutines share ONE definition object per flow *)
Theorem single_load : forall load progs sched u,
  Forall (Forall disciplined) progs -> loads_of u (run load sched (init true progs)) <= 1.
Proof.
  intros load progs sched u Hd.
  assert (H : forall sched0 c, inv load c -> single_loads c -> single_loads (run load sched0 c)).
  { unfold run. induction sched0 as [|t r IH]; intros c Hi Hs; simpl. exact Hs.
    apply IH. apply step_inv. exact Hi. apply step_single_loads; assumption. }
  assert (Hs : single_loads (run load sched (init true progs))).
  { apply H. apply init_inv. exact Hd. intro u0. unfold loads_of. simpl. lia. }
  specialize (Hs u). destruct (mem_nat u (g_cache (run load sched (init true progs)))); lia.
Qed.

(* ================================================================================================ *)
(** * The refutations are relational races too (schedules without any lock operation) *)

Fixpoint tid_of (evs : list (nat * nat * kind)) (i : nat) : option nat :=
  match evs with
  | [] => None
  | (j, t, _) :: r => if Nat.eqb i j then Some t else tid_of r i
  end.

Definition no_sync (evs : list (nat * nat * kind)) : Prop :=
  forall i t s, ~ In (i, t, KSync s) evs.

Lemma tid_of_in : forall evs i t k, NoDup (map (fun x => fst (fst x)) evs) -> In (i, t, k) evs -> tid_of evs i = Some t.
Proof.
  induction evs as [|[[j tj] kj] r IH]; intros i t k Hnd Hin; simpl in *. contradiction.
  inversion Hnd as [|? ? Hnot Hnd']; subst. destruct Hin as [Hin|Hin].
  - inversion Hin; subst. rewrite Nat.eqb_refl. reflexivity.
  - destruct (Nat.eqb i j) eqn:E.
    + apply Nat.eqb_eq in E. subst j. exfalso. apply Hnot. apply in_map_iff. exists (i, t, k). split. reflexivity. exact Hin.
    + eapply IH; eassumption.
Qed.

(* without lock operations happens-before is program order: it never relates events of different goroutines *)
Lemma hb_no_sync_same_thread : forall evs i j,
  NoDup (map (fun x => fst (fst x)) evs) -> no_sync evs -> hb evs i j ->
  exists t, tid_of evs i = Some t /\ tid_of evs j = Some t.
Proof.
  intros evs i j Hnd Hns H. induction H.
  - exists t. split; eapply tid_of_in; eassumption.
  - exfalso. eapply Hns. eassumption.
  - destruct IHhb1 as [t1 [Ha Hb]]. destruct IHhb2 as [t2 [Hc Hd]]. rewrite Hb in Hc. inversion Hc; subst.
    exists t2. split; assumption.
Qed.

Lemma no_sync_of_empty : forall hist, no_sync (evs_of hist []).
Proof.
  intros hist i t s Hin. unfold evs_of in Hin. rewrite app_nil_r in Hin. apply in_map_iff in Hin.
  destruct Hin as [e [He _]]. discriminate.
Qed.

Ltac solve_nodup := vm_compute; repeat (constructor; [simpl; intuition discriminate|]); constructor.

Theorem unlocked_cache_relational_race :
  exists (progs : list (list op)) (sched : list nat), relational_race (run (fun u => u) sched (init false progs)).
Proof.
  exists [[OGet 1]; [OGet 1]], [0; 1; 0; 1].
  (* goroutine 1 reads the cache map (event 1), goroutine 0 writes it (event 3): no lock operation anywhere *)
  exists {| ev_id := 1; ev_tid := 1; ev_acc := Rd LCache |}, {| ev_id := 3; ev_tid := 0; ev_acc := Wr LCache |}.
  split. vm_compute. intuition.
  split. vm_compute. intuition.
  split. simpl. lia.
  split. simpl. discriminate.
  split. reflexivity.
  intro Hhb.
  assert (Hs : g_sync (run (fun u => u) [0; 1; 0; 1] (init false [[OGet 1]; [OGet 1]])) = []) by (vm_compute; reflexivity).
  apply hb_no_sync_same_thread in Hhb.
  - destruct Hhb as [t [H1 H2]]. vm_compute in H1. vm_compute in H2. rewrite <- H1 in H2. discriminate.
  - solve_nodup.
  - unfold all_events. rewrite Hs. apply no_sync_of_empty.
Qed.

Theorem shared_lazy_relational_race :
  exists (progs : list (list op)) (sched : list nat), relational_race (run (fun u => u) sched (init true progs)).
Proof.
  exists [[OLazy 0]; [OLazy 0]], [0; 1; 0; 1].
  (* goroutine 1 reads the guard field (event 1), goroutine 0 writes it (event 2) *)
  exists {| ev_id := 1; ev_tid := 1; ev_acc := Rd (LLazy 0) |}, {| ev_id := 2; ev_tid := 0; ev_acc := Wr (LLazy 0) |}.
  split. vm_compute. intuition.
  split. vm_compute. intuition.
  split. simpl. lia.
  split. simpl. discriminate.
  split. reflexivity.
  intro Hhb.
  assert (Hs : g_sync (run (fun u => u) [0; 1; 0; 1] (init true [[OLazy 0]; [OLazy 0]])) = []) by (vm_compute; reflexivity).
  apply hb_no_sync_same_thread in Hhb.
  - destruct Hhb as [t [H1 H2]]. vm_compute in H1. vm_compute in H2. rewrite <- H1 in H2. discriminate.
  - solve_nodup.
  - unfold all_events. rewrite Hs. apply no_sync_of_empty.
Qed.
