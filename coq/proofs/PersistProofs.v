(* PersistProofs.v — lemmas for property C02 over model/Persist.v and model/Engine.v.

   Specification (written from the property sentence):
     (1) reading back a marshalled session gives a session that marshals to the same value;
     (2) a resume of the re-read session gives the same outcome, events, segments and resulting persisted
         session as the same resume of the session kept in memory, and its actions see the same per-call
         fields (batch flag, current resume, parent run);
     (3) hence for every subset of the waits at which the host restarts, every call of a history has the same
         visible result as when the session is never re-read.

   The engine enters through an invariant of Engine.start / Engine.resume_session that implies: a sprint that ends
   normally leaves no pushed flow behind, every run's parent was created before it, the trigger is never replaced.
   In Section Bisim the invariant is abstract; it is instantiated with EngineInv.post_inv (proofs/EngineInv.v, by the
   owner of Engine.v) at the end of the file. *)

From Coq Require Import List NArith ZArith Bool Lia Arith.
From Verif Require Import model.Lang model.Engine model.Persist proofs.EngineInv model.PersistFields gen.C02Fields.
Import ListNotations.

(* ---- well-formedness of the run list ------------------------------------------------------------------------ *)

(* every run's parent has a smaller index (k = index of the first run of the list) *)
Definition parents_precede_from (k : nat) (rs : list run) : Prop :=
  forall j r p, nth_error rs j = Some r -> r_parent r = Some p -> (p < k + j)%nat.

Definition parents_precede (rs : list run) : Prop := parents_precede_from 0 rs.

(* what a session must satisfy at a wait for persistence to be transparent *)
Definition persistable (s : session) : Prop := s_pushed s = None /\ parents_precede (s_runs s).

(* ---- session.GetRun over the runs read so far ------------------------------------------------------------------ *)

Definition seen_upto (i n : nat) : list uuid := map run_uuid (seq i n).

Lemma run_uuid_inj : forall i j, run_uuid i = run_uuid j -> i = j.
Proof. unfold run_uuid. intros i j H. apply Nat2N.inj. exact H. Qed.

Lemma lookup_from_known : forall n i p found,
  lookup_uuid_from i (seen_upto i n) (run_uuid p) found
  = if ((i <=? p) && (p <? i + n))%nat then Some p else found.
Proof.
  induction n as [|n IH]; intros i p found.
  - cbn [seen_upto seq map lookup_uuid_from].
    destruct (Nat.leb_spec i p); destruct (Nat.ltb_spec p (i + 0)); cbn; try reflexivity. lia.
  - cbn [seen_upto seq map lookup_uuid_from]. fold (seen_upto (S i) n). rewrite IH.
    destruct (N.eqb_spec (run_uuid i) (run_uuid p)) as [e|ne].
    + apply run_uuid_inj in e. subst p.
      destruct (Nat.leb_spec (S i) i); [lia|].
      destruct (Nat.leb_spec i i); [|lia].
      destruct (Nat.ltb_spec i (i + S n)); [|lia]. cbn. reflexivity.
    + assert (i <> p) by (intro; subst; apply ne; reflexivity).
      destruct (Nat.leb_spec (S i) p); destruct (Nat.ltb_spec p (S i + n));
      destruct (Nat.leb_spec i p); destruct (Nat.ltb_spec p (i + S n)); cbn; try reflexivity; lia.
Qed.

Lemma lookup_from_any : forall n i u found j,
  lookup_uuid_from i (seen_upto i n) u found = Some j ->
  found = Some j \/ (u = run_uuid j /\ (i <= j < i + n)%nat).
Proof.
  induction n as [|n IH]; intros i u found j H.
  - cbn in H. left. exact H.
  - cbn [seen_upto seq map lookup_uuid_from] in H. fold (seen_upto (S i) n) in H.
    apply IH in H. destruct H as [H|[H1 H2]].
    + destruct (N.eqb_spec (run_uuid i) u) as [e|ne].
      * inversion H. subst j. right. split; [symmetry; exact e | lia].
      * left. exact H.
    + right. split; [exact H1 | lia].
Qed.

Lemma seen_upto_snoc : forall k, seen_upto 0 k ++ [run_uuid k] = seen_upto 0 (S k).
Proof. intro k. unfold seen_upto. rewrite seq_S. rewrite map_app. reflexivity. Qed.

(* ---- ReadRun after MarshalJSON ------------------------------------------------------------------------------------- *)

Lemma restore_run_known : forall k r,
  (forall p, r_parent r = Some p -> (p < k)%nat) ->
  restore_run (seen_upto 0 k) (persist_run k r) = Some r.
Proof.
  intros k r H. destruct r as [fl par stt ex pa ev rs]. unfold restore_run, persist_run. cbn.
  destruct par as [p|]; cbn.
  - unfold lookup_uuid. rewrite lookup_from_known.
    specialize (H p eq_refl). cbn in H.
    destruct (Nat.ltb_spec p (0 + k)); [|lia]. cbn. reflexivity.
  - reflexivity.
Qed.

Lemma restore_run_inv : forall k r r',
  restore_run (seen_upto 0 k) (persist_run k r) = Some r' ->
  r' = r /\ (forall p, r_parent r = Some p -> (p < k)%nat).
Proof.
  intros k r r' H. destruct r as [fl par stt ex pa ev rs]. unfold restore_run, persist_run in H. cbn in H.
  destruct par as [p|]; cbn in H.
  - destruct (lookup_uuid (seen_upto 0 k) (run_uuid p)) as [i|] eqn:E; [|discriminate].
    unfold lookup_uuid in E. apply lookup_from_any in E. destruct E as [E|[E1 E2]]; [discriminate|].
    apply run_uuid_inj in E1. subst i. inversion H. subst r'. split; [reflexivity|].
    cbn. intros q Hq. inversion Hq. subst q. lia.
  - inversion H. split; [reflexivity|]. cbn. intros q Hq. discriminate.
Qed.

Lemma restore_runs_known : forall rs k acc,
  parents_precede_from k rs ->
  restore_runs (persist_runs k rs) (seen_upto 0 k) acc = Restored (acc ++ rs).
Proof.
  induction rs as [|r rs IH]; intros k acc H.
  - cbn. rewrite app_nil_r. reflexivity.
  - cbn [persist_runs restore_runs]. rewrite restore_run_known.
    + cbn [pr_uuid persist_run]. rewrite seen_upto_snoc. rewrite IH.
      * rewrite <- app_assoc. reflexivity.
      * intros j r' p Hn Hp. specialize (H (S j) r' p Hn Hp). lia.
    + intros p Hp. specialize (H 0%nat r p eq_refl Hp). lia.
Qed.

Lemma restore_runs_inv : forall rs k acc out,
  restore_runs (persist_runs k rs) (seen_upto 0 k) acc = Restored out ->
  parents_precede_from k rs.
Proof.
  induction rs as [|r rs IH]; intros k acc out H.
  - intros j r p Hn. destruct j; discriminate.
  - cbn [persist_runs restore_runs] in H.
    destruct (restore_run (seen_upto 0 k) (persist_run k r)) as [r'|] eqn:E; [|discriminate].
    apply restore_run_inv in E. destruct E as [-> Hp].
    cbn [pr_uuid persist_run] in H. rewrite seen_upto_snoc in H. apply IH in H.
    intros j r0 p Hn Hpar. destruct j as [|j].
    + cbn in Hn. inversion Hn. subst r0. specialize (Hp p Hpar). lia.
    + cbn in Hn. specialize (H j r0 p Hn Hpar). lia.
Qed.

(* the session readSession builds from the marshalled form of [lv] *)
Definition reread (lv : live) : live :=
  {| lv_core := set_pushed (lv_core lv) None; lv_batch_trigger := lv_batch_trigger lv;
     lv_tr := transient_after_read (s_trigger (lv_core lv)) |}.

Lemma restore_persist_known : forall lv,
  parents_precede (s_runs (lv_core lv)) -> restore (persist lv) = Restored (reread lv).
Proof.
  intros lv H. unfold restore, persist. cbn [ps_runs].
  change (@nil uuid) with (seen_upto 0 0). rewrite restore_runs_known by exact H.
  cbn. unfold reread, set_pushed. reflexivity.
Qed.

Lemma restore_persist_inv : forall lv lv',
  restore (persist lv) = Restored lv' -> parents_precede (s_runs (lv_core lv)).
Proof.
  intros lv lv' H. unfold restore, persist in H. cbn [ps_runs] in H.
  destruct (restore_runs (persist_runs 0 (s_runs (lv_core lv))) [] []) as [out|i] eqn:E; [|discriminate].
  change (@nil uuid) with (seen_upto 0 0) in E. apply restore_runs_inv in E. exact E.
Qed.

Lemma persist_reread : forall lv, persist (reread lv) = persist lv.
Proof. intro lv. reflexivity. Qed.

(* (1) — for EVERY session: if reading back succeeds, the result marshals to the same value; and reading back
   succeeds exactly when every run's parent precedes it *)
Lemma marshal_fixpoint : forall lv lv', restore (persist lv) = Restored lv' -> persist lv' = persist lv.
Proof.
  intros lv lv' H. pose proof (restore_persist_inv _ _ H) as Hp.
  rewrite (restore_persist_known _ Hp) in H. inversion H. apply persist_reread.
Qed.

Lemma reread_succeeds_iff : forall lv,
  (exists lv', restore (persist lv) = Restored lv') <-> parents_precede (s_runs (lv_core lv)).
Proof.
  intro lv. split.
  - intros [lv' H]. exact (restore_persist_inv _ _ H).
  - intro H. exists (reread lv). exact (restore_persist_known _ H).
Qed.

(* ---- the persisted form determines the persisted part of the state ------------------------------------------- *)

Lemma persist_run_inj : forall k r1 r2, persist_run k r1 = persist_run k r2 -> r1 = r2.
Proof.
  intros k r1 r2 H. destruct r1 as [f1 p1 s1 e1 pa1 ev1 rs1], r2 as [f2 p2 s2 e2 pa2 ev2 rs2].
  unfold persist_run in H. cbn in H. inversion H. subst.
  assert (p1 = p2) as ->.
  { destruct p1 as [a|], p2 as [b|]; cbn in *; try discriminate; try reflexivity.
    match goal with Hq : Some _ = Some _ |- _ => inversion Hq as [Hq'] end.
    apply run_uuid_inj in Hq'. subst. reflexivity. }
  reflexivity.
Qed.

Lemma persist_runs_inj : forall rs1 rs2 k, persist_runs k rs1 = persist_runs k rs2 -> rs1 = rs2.
Proof.
  induction rs1 as [|r1 rs1 IH]; intros rs2 k H; destruct rs2 as [|r2 rs2]; cbn in H; try discriminate; [reflexivity|].
  assert (persist_run k r1 = persist_run k r2) as H1 by (exact (f_equal (hd (persist_run k r1)) H)).
  assert (persist_runs (S k) rs1 = persist_runs (S k) rs2) as H2 by (apply (f_equal (@tl prun)) in H; exact H).
  apply persist_run_inj in H1. apply IH in H2. subst. reflexivity.
Qed.

Lemma persist_inj : forall lv1 lv2,
  s_pushed (lv_core lv1) = s_pushed (lv_core lv2) ->
  persist lv1 = persist lv2 ->
  lv_core lv1 = lv_core lv2 /\ lv_batch_trigger lv1 = lv_batch_trigger lv2.
Proof.
  intros [c1 b1 t1] [c2 b2 t2] Hp H. cbn in *. unfold persist in H. cbn in H.
  destruct c1 as [st1 ty1 tg1 fl1 rs1 in1 pu1], c2 as [st2 ty2 tg2 fl2 rs2 in2 pu2]. cbn in *.
  inversion H as [[Hty Htg Hfl Hb Hrs Hst Hin]]. apply persist_runs_inj in Hrs. subst. split; reflexivity.
Qed.

(* ---- the per-call fields --------------------------------------------------------------------------------------------- *)

(* parentRun is only ever loaded from a trigger that carries a run summary *)
Definition tr_ok (t : trigger) (tr : transient) : Prop := t_parent tr = true -> is_flow_action t = true.

Lemma tr_ok_start : forall t b, tr_ok t (transient_at_start t b).
Proof. intros t b H. exact H. Qed.

Lemma tr_ok_read : forall t, tr_ok t (transient_after_read t).
Proof. intros t H. exact H. Qed.

Lemma prepare_parent : forall t tr, tr_ok t tr -> t_parent (prepare_for_sprint t tr) = is_flow_action t.
Proof.
  intros t tr H. unfold prepare_for_sprint. cbn. unfold tr_ok in H.
  destruct (t_parent tr); destruct (is_flow_action t); cbn; try reflexivity. symmetry. apply H. reflexivity.
Qed.

Lemma tr_ok_resume : forall a s tr r, tr_ok (s_trigger s) tr -> tr_ok (s_trigger s) (transient_in_resume a s tr r).
Proof.
  intros a s tr r H. unfold transient_in_resume.
  destruct (resume_applies a s r); unfold tr_ok; cbn; intro Hp;
  (destruct (t_parent tr) eqn:E; [apply H; exact E | cbn in Hp; exact Hp]).
Qed.

(* what the actions and templates of a resumed sprint can read of the per-call fields: nothing is read when the
   resume is turned away before `s.currentResume = resume` (rejections and failSession run no action) *)
Definition context_in_resume (a : assets) (s : session) (tr : transient) (r : resume) : option transient :=
  if resume_applies a s r then Some (transient_in_resume a s tr r) else None.

(* (2a) the per-call fields seen by the sprint do not depend on what they were before the call *)
Lemma context_rederived : forall a s tr1 tr2 r,
  tr_ok (s_trigger s) tr1 -> tr_ok (s_trigger s) tr2 ->
  context_in_resume a s tr1 r = context_in_resume a s tr2 r.
Proof.
  intros a s tr1 tr2 r H1 H2. unfold context_in_resume, transient_in_resume.
  destruct (resume_applies a s r); [|reflexivity].
  rewrite (prepare_parent _ _ H1), (prepare_parent _ _ H2). reflexivity.
Qed.

(* ---- resume_applies is the guard chain of Engine.resume_session ------------------------------------------------------ *)

(* what the engine does with the session when every guard passed (the tail of resume_session) *)
Definition proceeds (a : assets) (s : session) (r : resume) (tmo : text) (wi pos : nat) (n : node) : resume_result :=
  let x := apply_resume (with_session {| session_ := s; sprint_ := empty_sprint |} (fun s => set_status s SActive)) wi (Some (wi, pos)) r in
  match find_resume_exit a x wi (is_timeout r) tmo with
  | FreErr x' => Resumed (ROk (fail_session x' wi FRouteError))
  | FreGoErr x' => Resumed (RGoError x')
  | FrePanic => Resumed RPanic
  | FreOk x' e op =>
      Resumed (continue_until_wait (fuel_for a (session_ x')) a x'
                 {| l_cur := Some wi; l_node := Some (match get_run s wi with Some rn => r_flow rn | None => 0%N end, n_id n);
                    l_exit := e; l_operand := op; l_step := Some (wi, pos); l_steps := 0%Z; l_trigger := false |})
  end.

(* true: the engine reaches `resume.Apply` (the point where Go assigns currentResume and clears batchStart) *)
Lemma resume_applies_true : forall a s r tmo,
  resume_applies a s r = true ->
  exists wi pos n, waiting_run s = Some wi /\ path_location a s wi = Some (pos, n) /\
                   resume_session a s r tmo = proceeds a s r tmo wi pos n.
Proof.
  intros a s r tmo H. unfold resume_applies in H. unfold resume_session.
  destruct (sstatus_eqb (s_status s) SWaiting); cbn [andb negb] in *; [|discriminate].
  destruct (waiting_run s) as [wi|] eqn:Ewr; [|discriminate].
  destruct (run_flow_unusable a s wi); cbn [andb negb] in *; [discriminate|].
  destruct (Z.of_nat (count_waits s) >=? max_resumes (a_opts a))%Z; cbn [andb negb] in *; [discriminate|].
  destruct (path_location a s wi) as [[pos n]|] eqn:Epl; [|discriminate].
  destruct (n_router n) as [[[w|] res cats cases def]|]; try discriminate.
  rewrite H. cbn [negb]. exists wi, pos, n. split; [first [reflexivity|exact Ewr]|]. split; [first [reflexivity|exact Epl]|].
  unfold proceeds. reflexivity.
Qed.

Lemma fail_session_fresh_sprint : forall s wi c,
  sprint_ (fail_session {| session_ := s; sprint_ := empty_sprint |} wi c)
  = {| sp_events := [(Some wi, {| ev_step := None; ev_kind := EFailure c |})]; sp_segments := [] |}.
Proof. intros. reflexivity. Qed.

(* false: the resume is turned away before any action or template runs — an engine error that leaves the session
   untouched, or the session is failed with a single failure event and no segment *)
Lemma resume_applies_false : forall a s r tmo,
  resume_applies a s r = false ->
  (exists code, resume_session a s r tmo = Rejected code) \/
  (exists wi c, resume_session a s r tmo = Resumed (ROk (fail_session {| session_ := s; sprint_ := empty_sprint |} wi c))).
Proof.
  intros a s r tmo H. unfold resume_applies in H. unfold resume_session.
  destruct (sstatus_eqb (s_status s) SWaiting); cbn [andb negb] in *; [|left; eauto].
  destruct (waiting_run s) as [wi|]; [|left; eauto].
  destruct (run_flow_unusable a s wi); cbn [andb negb] in *; [right; eauto|].
  destruct (Z.of_nat (count_waits s) >=? max_resumes (a_opts a))%Z; cbn [andb negb] in *; [right; eauto|].
  destruct (path_location a s wi) as [[pos n]|]; [|right; eauto].
  destruct (n_router n) as [[[w|] res cats cases def]|]; try (right; eauto; fail).
  rewrite H. cbn [negb]. left; eauto.
Qed.

(* so: the context column of a call is None exactly when the call ran no action *)
Lemma no_context_no_action : forall a s tr r tmo,
  context_in_resume a s tr r = None ->
  match resume_session a s r tmo with
  | Rejected _ => True
  | Resumed (ROk x) => exists wi c, sp_events (sprint_ x) = [(Some wi, {| ev_step := None; ev_kind := EFailure c |})] /\ sp_segments (sprint_ x) = []
  | Resumed _ => False
  end.
Proof.
  intros a s tr r tmo H. unfold context_in_resume in H.
  destruct (resume_applies a s r) eqn:E; [discriminate|].
  destruct (resume_applies_false a s r tmo E) as [[code ->]|[wi [c ->]]]; [exact I|].
  exists wi, c. rewrite fail_session_fresh_sprint. split; reflexivity.
Qed.

Lemma context_reaches_apply : forall a s tr r tmo c,
  context_in_resume a s tr r = Some c ->
  exists wi pos n, waiting_run s = Some wi /\ path_location a s wi = Some (pos, n) /\
                   resume_session a s r tmo = proceeds a s r tmo wi pos n.
Proof.
  intros a s tr r tmo c H. unfold context_in_resume in H.
  destruct (resume_applies a s r) eqn:E; [|discriminate]. exact (resume_applies_true a s r tmo E).
Qed.

(* ---- visible result of a call ------------------------------------------------------------------------------------------- *)

Record visible := { v_outcome : outcome_; v_context : option transient }.

(* the same history, keeping next to every observation what the sprint could read *)
Fixpoint run_resumes_v (a : assets) (tmo : text) (lv : live) (ops : list (bool * resume)) : list visible :=
  match ops with
  | [] => []
  | (restart, r) :: rest =>
      let lv0 := if restart then restore (persist lv) else Restored lv in
      match lv0 with
      | RestoreError i => [{| v_outcome := ORestoreError i; v_context := None |}]
      | Restored lv1 =>
          let '(res, tr) := live_resume a lv1 r tmo in
          {| v_outcome := outcome_of (lv_batch_trigger lv1) res tr;
             v_context := context_in_resume a (lv_core lv1) (lv_tr lv1) r |} ::
          match after_call lv1 res tr with
          | Some lv2 => run_resumes_v a tmo lv2 rest
          | None => []
          end
      end
  end.

Definition run_history_v (a : assets) (tmo : text) (t : trigger) (flow : id) (batch : bool) (ops : list (bool * resume)) : list visible :=
  let '(res, tr) := live_start a t flow batch in
  {| v_outcome := outcome_of batch (Resumed res) tr; v_context := Some tr |} ::
  match res with
  | ROk x => run_resumes_v a tmo {| lv_core := session_ x; lv_batch_trigger := batch; lv_tr := tr |} ops
  | _ => []
  end.

(* run_resumes_v is run_resumes with the context column added: same outcomes *)
Lemma run_resumes_v_outcomes : forall a tmo ops lv,
  map v_outcome (run_resumes_v a tmo lv ops) = map o_outcome (run_resumes a tmo lv ops).
Proof.
  intros a tmo. induction ops as [|[b r] ops IH]; intro lv; [reflexivity|].
  cbn [run_resumes_v run_resumes].
  destruct (if b then restore (persist lv) else Restored lv) as [lv1|i]; [|reflexivity].
  unfold live_resume. cbn [map v_outcome o_outcome].
  destruct (after_call lv1 _ _) as [lv2|]; cbn [map]; [rewrite IH|]; reflexivity.
Qed.

(* ---- bisimulation ----------------------------------------------------------------------------------------------------------- *)

Lemma persist_ignores_transient : forall c b t1 t2,
  persist {| lv_core := c; lv_batch_trigger := b; lv_tr := t1 |} = persist {| lv_core := c; lv_batch_trigger := b; lv_tr := t2 |}.
Proof. reflexivity. Qed.

Lemma outcome_ignores_transient : forall b res t1 t2, outcome_of b res t1 = outcome_of b res t2.
Proof. intros b res t1 t2. destruct res as [c|[x|x| |]]; reflexivity. Qed.

Section Bisim.
  Variable a : assets.
  Variable tmo : text.

  (* an invariant of the engine's session states at the end of a sprint *)
  Variable Inv : session -> Prop.
  Hypothesis inv_persistable : forall s, Inv s -> persistable s.
  Hypothesis start_inv : forall t f x, start a t f = ROk x -> Inv (session_ x).
  Hypothesis resume_inv : forall s r x, Inv s -> resume_session a s r tmo = Resumed (ROk x) -> Inv (session_ x).

  (* the trigger of a session never changes *)
  Hypothesis start_trigger : forall t f x, start a t f = ROk x -> s_trigger (session_ x) = t.
  Hypothesis resume_trigger : forall s r x,
    Inv s -> resume_session a s r tmo = Resumed (ROk x) -> s_trigger (session_ x) = s_trigger s.

  (* two Go sessions that may differ only in their per-call fields *)
  Definition sim (lv1 lv2 : live) : Prop :=
    lv_core lv1 = lv_core lv2 /\ lv_batch_trigger lv1 = lv_batch_trigger lv2 /\
    Inv (lv_core lv1) /\
    tr_ok (s_trigger (lv_core lv1)) (lv_tr lv1) /\ tr_ok (s_trigger (lv_core lv2)) (lv_tr lv2).

  Lemma sim_restore : forall lv,
    Inv (lv_core lv) -> tr_ok (s_trigger (lv_core lv)) (lv_tr lv) ->
    exists lv', restore (persist lv) = Restored lv' /\ sim lv lv'.
  Proof.
    intros lv Hi Htr. destruct (inv_persistable _ Hi) as [Hpu Hpp]. exists (reread lv). split.
    - apply restore_persist_known. exact Hpp.
    - unfold sim, reread. cbn [lv_core lv_batch_trigger lv_tr].
      assert (set_pushed (lv_core lv) None = lv_core lv) as E.
      { destruct (lv_core lv) as [st ty tg fl rs inp pu]. unfold set_pushed. cbn in *. subst pu. reflexivity. }
      rewrite E. repeat split; try assumption. apply tr_ok_read.
  Qed.

  (* (2) one resume on related sessions: same visible result, related successors *)
  Lemma sim_step : forall lv1 lv2 r,
    sim lv1 lv2 ->
    let '(res1, tr1) := live_resume a lv1 r tmo in
    let '(res2, tr2) := live_resume a lv2 r tmo in
    res1 = res2 /\
    outcome_of (lv_batch_trigger lv1) res1 tr1 = outcome_of (lv_batch_trigger lv2) res2 tr2 /\
    context_in_resume a (lv_core lv1) (lv_tr lv1) r = context_in_resume a (lv_core lv2) (lv_tr lv2) r /\
    match after_call lv1 res1 tr1, after_call lv2 res2 tr2 with
    | Some n1, Some n2 => sim n1 n2
    | None, None => True
    | _, _ => False
    end.
  Proof.
    intros [c1 b1 t1] [c2 b2 t2] r [Hc [Hb [Hp [Ht1 Ht2]]]]. cbn [lv_core lv_batch_trigger lv_tr] in *. subst c2 b2.
    unfold live_resume. cbn [lv_core lv_batch_trigger lv_tr].
    split; [reflexivity|]. split; [apply outcome_ignores_transient|].
    split; [apply context_rederived; assumption|].
    destruct (resume_session a c1 r tmo) as [code|[x|x| |]] eqn:E; cbn [after_call]; try exact I.
    - (* rejected: the session is untouched *)
      unfold sim. cbn [lv_core lv_batch_trigger lv_tr]. repeat split; try assumption;
      apply tr_ok_resume; assumption.
    - (* a sprint ran *)
      unfold sim. cbn [lv_core lv_batch_trigger lv_tr].
      pose proof (resume_inv _ _ _ Hp E) as Hp'. pose proof (resume_trigger _ _ _ Hp E) as Htg.
      repeat split; try exact Hp'; rewrite Htg; apply tr_ok_resume; assumption.
  Qed.

  (* (3) any two restart patterns over the same resumes give the same visible results *)
  Lemma sim_history : forall rs bs1 bs2 lv1 lv2,
    sim lv1 lv2 ->
    run_resumes_v a tmo lv1 (with_pattern bs1 rs) = run_resumes_v a tmo lv2 (with_pattern bs2 rs).
  Proof.
    induction rs as [|r rs IH]; intros bs1 bs2 lv1 lv2 Hs; [reflexivity|].
    (* reduce to: both sides take one step from related sessions, whatever the two restart flags are *)
    assert (forall b1 b2 bs1' bs2',
      run_resumes_v a tmo lv1 ((b1, r) :: with_pattern bs1' rs) = run_resumes_v a tmo lv2 ((b2, r) :: with_pattern bs2' rs)) as Hstep.
    { intros b1 b2 bs1' bs2'. cbn [run_resumes_v].
      destruct Hs as [Hc [Hb [Hp [Ht1 Ht2]]]].
      assert (exists m1, (if b1 then restore (persist lv1) else Restored lv1) = Restored m1 /\ sim lv1 m1) as [m1 [E1 S1]].
      { destruct b1.
        - apply sim_restore; assumption.
        - exists lv1. split; [reflexivity|]. unfold sim. repeat split; assumption. }
      assert (exists m2, (if b2 then restore (persist lv2) else Restored lv2) = Restored m2 /\ sim lv2 m2) as [m2 [E2 S2]].
      { destruct b2.
        - apply sim_restore; [rewrite <- Hc; exact Hp | exact Ht2].
        - exists lv2. split; [reflexivity|]. unfold sim. rewrite <- Hc. repeat split; try assumption;
          rewrite Hc; exact Ht2. }
      rewrite E1, E2.
      assert (sim m1 m2) as S12.
      { destruct S1 as [c1 [b1' [p1 [t1 t1']]]]. destruct S2 as [c2 [b2' [p2 [t2 t2']]]].
        unfold sim. rewrite <- c1, <- b1', <- c2, <- b2'. repeat split; try assumption.
        - rewrite c1. exact t1'.
        - rewrite c2. exact t2'. }
      pose proof (sim_step m1 m2 r S12) as Hst.
      destruct (live_resume a m1 r tmo) as [res1 tr1] eqn:L1. destruct (live_resume a m2 r tmo) as [res2 tr2] eqn:L2.
      destruct Hst as [Hres [Hout [Hctx Hnext]]].
      rewrite Hout, Hctx. f_equal.
      destruct (after_call m1 res1 tr1) as [n1|]; destruct (after_call m2 res2 tr2) as [n2|]; try contradiction; [|reflexivity].
      apply IH. exact Hnext. }
    destruct bs1 as [|b1 bs1]; destruct bs2 as [|b2 bs2]; cbn [with_pattern]; apply Hstep.
  Qed.

  Lemma any_restart_subset : forall t f batch rs bs,
    run_history_v a tmo t f batch (with_pattern bs rs) = run_history_v a tmo t f batch (never rs).
  Proof.
    intros t f batch rs bs. unfold run_history_v, live_start, never.
    destruct (start a t f) as [x|x| |] eqn:E; try reflexivity.
    f_equal. apply sim_history.
    pose proof (start_inv _ _ _ E) as Hp.
    pose proof (start_trigger _ _ _ E) as Htg.
    unfold sim. cbn [lv_core lv_batch_trigger lv_tr]. repeat split; try exact Hp; rewrite Htg; apply tr_ok_start.
  Qed.
End Bisim.

(* ---- the engine invariant (proofs/EngineInv.v) --------------------------------------------------------------------------------- *)

Lemma post_inv_persistable : forall s, post_inv s -> persistable s.
Proof.
  intros s [Hc [Hp _]]. split; [exact Hp|].
  intros j r p Hn Hpar. cbn.
  apply (ci_wf _ Hc j (shp_of r) p).
  - rewrite nth_error_shape, Hn. reflexivity.
  - exact Hpar.
Qed.

Lemma start_post_inv : forall a t f x, start a t f = ROk x -> post_inv (session_ x).
Proof. intros a t f x H. exact (proj1 (start_post _ _ _ _ H)). Qed.

Lemma start_post_trigger : forall a t f x, start a t f = ROk x -> s_trigger (session_ x) = t.
Proof. intros a t f x H. exact (proj1 (proj2 (start_post _ _ _ _ H))). Qed.

Lemma resume_post_inv : forall a tmo s r x, post_inv s -> resume_session a s r tmo = Resumed (ROk x) -> post_inv (session_ x).
Proof. intros a tmo s r x Hp H. exact (proj1 (resume_post _ _ _ _ _ Hp H)). Qed.

Lemma resume_post_trigger : forall a tmo s r x,
  post_inv s -> resume_session a s r tmo = Resumed (ROk x) -> s_trigger (session_ x) = s_trigger s.
Proof. intros a tmo s r x Hp H. exact (proj1 (proj2 (resume_post _ _ _ _ _ Hp H))). Qed.

(* ---- closed forms for props/C02.v ---------------------------------------------------------------------------------------------- *)

(* (3) *)
Lemma any_restart_subset_full : forall a tmo t f batch rs bs,
  run_history_v a tmo t f batch (with_pattern bs rs) = run_history_v a tmo t f batch (never rs).
Proof.
  intros a tmo. apply (any_restart_subset a tmo post_inv).
  - exact post_inv_persistable.
  - exact (start_post_inv a).
  - exact (resume_post_inv a tmo).
  - exact (start_post_trigger a).
  - exact (resume_post_trigger a tmo).
Qed.

(* the Go sessions a host can hold: made by NewSession, advanced by Resume (accepted or rejected), re-read *)
Inductive reachable (a : assets) (tmo : text) : live -> Prop :=
| reach_start : forall t f batch x,
    start a t f = ROk x ->
    reachable a tmo {| lv_core := session_ x; lv_batch_trigger := batch; lv_tr := transient_at_start t batch |}
| reach_resume : forall lv r lv',
    reachable a tmo lv ->
    after_call lv (fst (live_resume a lv r tmo)) (snd (live_resume a lv r tmo)) = Some lv' ->
    reachable a tmo lv'
| reach_reread : forall lv lv',
    reachable a tmo lv -> restore (persist lv) = Restored lv' -> reachable a tmo lv'.

Lemma reachable_ok : forall a tmo lv,
  reachable a tmo lv -> post_inv (lv_core lv) /\ tr_ok (s_trigger (lv_core lv)) (lv_tr lv).
Proof.
  intros a tmo lv H. induction H as [t f batch x E | lv r lv' H [IHp IHt] E | lv lv' H [IHp IHt] E].
  - cbn [lv_core lv_tr]. split; [exact (start_post_inv _ _ _ _ E)|].
    rewrite (start_post_trigger _ _ _ _ E). apply tr_ok_start.
  - unfold live_resume in E. cbn [fst snd] in E.
    destruct (resume_session a (lv_core lv) r tmo) as [code|[x|x| |]] eqn:R; cbn [after_call] in E; try discriminate;
    inversion E; subst lv'; cbn [lv_core lv_tr].
    + split; [exact IHp | apply tr_ok_resume; exact IHt].
    + split; [exact (resume_post_inv _ _ _ _ _ IHp R)|].
      rewrite (resume_post_trigger _ _ _ _ _ IHp R). apply tr_ok_resume. exact IHt.
  - destruct (post_inv_persistable _ IHp) as [Hpu Hpp].
    rewrite (restore_persist_known _ Hpp) in E. inversion E. subst lv'. unfold reread. cbn [lv_core lv_tr].
    assert (set_pushed (lv_core lv) None = lv_core lv) as Eq.
    { destruct (lv_core lv) as [st ty tg fl rs inp pu]. unfold set_pushed. cbn in *. subst pu. reflexivity. }
    rewrite Eq. split; [exact IHp | apply tr_ok_read].
Qed.

(* (2) for every reachable session and every resume *)
Lemma resume_bisim_full : forall a tmo lv r, reachable a tmo lv ->
  exists lv', restore (persist lv) = Restored lv' /\
    lv_core lv' = lv_core lv /\
    fst (live_resume a lv' r tmo) = fst (live_resume a lv r tmo) /\
    outcome_of (lv_batch_trigger lv') (fst (live_resume a lv' r tmo)) (snd (live_resume a lv' r tmo))
      = outcome_of (lv_batch_trigger lv) (fst (live_resume a lv r tmo)) (snd (live_resume a lv r tmo)) /\
    context_in_resume a (lv_core lv') (lv_tr lv') r = context_in_resume a (lv_core lv) (lv_tr lv) r.
Proof.
  intros a tmo lv r H. destruct (reachable_ok _ _ _ H) as [Hp Ht].
  destruct (sim_restore post_inv post_inv_persistable lv Hp Ht) as [lv' [E S]]. exists lv'. split; [exact E|].
  pose proof (sim_step a tmo post_inv (resume_post_inv a tmo) (resume_post_trigger a tmo) lv lv' r S) as Hs.
  destruct S as [Hc _].
  destruct (live_resume a lv r tmo) as [res1 tr1]. destruct (live_resume a lv' r tmo) as [res2 tr2].
  destruct Hs as [Hr [Ho [Hx _]]]. cbn [fst snd]. repeat split; symmetry; assumption.
Qed.

(* the statements are not vacuous: a two-flow session (parent waiting inside a child) is persistable, is read back,
   and a restart pattern over two resumes is evaluated *)
Definition ex_assets : assets :=
  {| a_flows := [ {| f_id := 1; f_type := 0; f_nodes := [
                      {| n_id := 101; n_actions := [AEnterFlow 2 false]; n_router := None; n_exits := [{| e_id := 1011; e_dest := Some 102%N |}] |};
                      {| n_id := 102; n_actions := [ASendMsg [98%N]]; n_router := None; n_exits := [{| e_id := 1021; e_dest := None |}] |} ] |};
                  {| f_id := 2; f_type := 0; f_nodes := [
                      {| n_id := 201; n_actions := [ASendMsg [97%N]];
                         n_router := Some {| rt_wait := Some {| w_type := WMsg; w_timeout := None |}; rt_result := Some [114%N];
                                             rt_cats := [{| cat_name := [67%N]; cat_exit := 2011 |}]; rt_cases := []; rt_default := Some 0%nat |};
                         n_exits := [{| e_id := 2011; e_dest := None |}] |} ] |} ];
     a_opts := {| max_steps := 100; max_resumes := 500; max_template_chars := 10000; max_result_chars := 640 |} |}.

Definition ex_live : option live :=
  match start ex_assets TManual 1%N with
  | ROk x => Some {| lv_core := session_ x; lv_batch_trigger := true; lv_tr := transient_at_start TManual true |}
  | _ => None
  end.

Example ex_session_is_waiting_in_child :
  match ex_live with
  | Some lv => s_status (lv_core lv) = SWaiting /\ length (s_runs (lv_core lv)) = 2%nat /\
               option_map r_parent (nth_error (s_runs (lv_core lv)) 1) = Some (Some 0%nat) /\
               s_pushed (lv_core lv) = None /\ t_batch (lv_tr lv) = true
  | None => False
  end.
Proof. vm_compute. repeat split; reflexivity. Qed.

Example ex_live_reachable : match ex_live with Some lv => reachable ex_assets [84%N] lv | None => False end.
Proof.
  unfold ex_live. destruct (start ex_assets TManual 1%N) as [x|x| |] eqn:E; try (vm_compute in E; discriminate).
  apply (reach_start ex_assets [84%N] TManual 1%N true x E).
Qed.

Example ex_reread_and_resume :
  match ex_live with
  | Some lv =>
      match restore (persist lv) with
      | Restored lv' =>
          persist lv' = persist lv /\ t_batch (lv_tr lv') = false /\
          context_in_resume ex_assets (lv_core lv') (lv_tr lv') (RMsg [120%N])
            = Some {| t_batch := false; t_resume := Some (RMsg [120%N]); t_parent := false |} /\
          context_in_resume ex_assets (lv_core lv) (lv_tr lv) (RMsg [120%N])
            = Some {| t_batch := false; t_resume := Some (RMsg [120%N]); t_parent := false |}
      | RestoreError _ => False
      end
  | None => False
  end.
Proof. vm_compute. repeat split; reflexivity. Qed.

Example ex_patterns_agree :
  run_history_v ex_assets [84%N] TManual 1%N true (with_pattern [true; false] [RMsg [120%N]; RMsg [121%N]])
  = run_history_v ex_assets [84%N] TManual 1%N true (never [RMsg [120%N]; RMsg [121%N]])
  /\ length (run_history_v ex_assets [84%N] TManual 1%N true (never [RMsg [120%N]; RMsg [121%N]])) = 3%nat.
Proof. vm_compute. split; reflexivity. Qed.

(* reading back fails exactly on run lists no engine call produces: a run whose parent comes after it *)
Example ex_reread_rejects_forward_parent :
  restore (persist {| lv_core := {| s_status := SWaiting; s_type := 0; s_trigger := TManual; s_flow := 1%N;
                                    s_runs := [ {| r_flow := 1%N; r_parent := Some 1%nat; r_status := RActive; r_exited := false;
                                                   r_path := []; r_events := []; r_results := [] |};
                                                {| r_flow := 2%N; r_parent := None; r_status := RWaiting; r_exited := false;
                                                   r_path := []; r_events := []; r_results := [] |} ];
                                    s_input := None; s_pushed := None |};
                      lv_batch_trigger := false; lv_tr := transient_after_read TManual |})
  = RestoreError 0.
Proof. vm_compute. reflexivity. Qed.

(* ---- every member of the Go structs is persisted, rebuilt, per-call, exempt or host-supplied ------------------------------- *)
(* tables regenerated from the source by translators/c02fields.py *)

Definition session_tables : tables :=
  {| tb_fields := go_session_fields; tb_envelope := go_session_envelope; tb_written := go_session_written; tb_read := go_session_read |}.
Definition run_tables : tables :=
  {| tb_fields := go_run_fields; tb_envelope := go_run_envelope; tb_written := go_run_written; tb_read := go_run_read |}.
Definition step_tables : tables :=
  {| tb_fields := go_step_fields; tb_envelope := go_step_envelope; tb_written := go_step_written; tb_read := go_step_read |}.

Lemma fields_classified :
  kind_ok session_tables session_classes session_legacy_keys = true /\
  kind_ok run_tables run_classes [] = true /\
  kind_ok step_tables step_classes [] = true.
Proof. vm_compute. repeat split; reflexivity. Qed.

(* the per-call members are exactly the ones Persist.transient and Engine.s_pushed stand for, the exempt ones exactly
   the statement's two *)
Lemma per_call_and_exempt_members :
  names_with is_per_call session_classes = per_call_members /\
  names_with is_rebuilt session_classes = rebuilt_session_members /\
  names_with is_per_call run_classes = [] /\
  names_with is_exempt run_classes = exempt_members /\
  names_with is_exempt session_classes = [].
Proof. vm_compute. repeat split; reflexivity. Qed.

(* a session started by a flow_action trigger: parentRun is loaded at start and again when the session is read
   (readSession calls prepareForSprint since goflow f4c75dd), so the resumed sprint reads it on both paths *)
Example ex_flow_action_parent :
  match start ex_assets TFlowAction 1%N with
  | ROk x =>
      let lv := {| lv_core := session_ x; lv_batch_trigger := false; lv_tr := transient_at_start TFlowAction false |} in
      t_parent (lv_tr lv) = true /\
      match restore (persist lv) with
      | Restored lv' =>
          t_parent (lv_tr lv') = true /\
          option_map t_parent (context_in_resume ex_assets (lv_core lv') (lv_tr lv') (RMsg [120%N])) = Some true /\
          option_map t_parent (context_in_resume ex_assets (lv_core lv) (lv_tr lv) (RMsg [120%N])) = Some true
      | RestoreError _ => False
      end
  | _ => False
  end.
Proof. vm_compute. repeat split; reflexivity. Qed.

(* a rejected resume (timeout against a wait without timeout: engine error 103) between two restarts *)
Example ex_rejected_between_restarts :
  run_history_v ex_assets [84%N] TManual 1%N true (with_pattern [true; true] [RTimeout; RMsg [121%N]])
  = run_history_v ex_assets [84%N] TManual 1%N true (never [RTimeout; RMsg [121%N]])
  /\ map v_outcome (firstn 1 (skipn 1 (run_history_v ex_assets [84%N] TManual 1%N true (never [RTimeout; RMsg [121%N]])))) = [ORejected 103]
  /\ map v_context (firstn 1 (skipn 1 (run_history_v ex_assets [84%N] TManual 1%N true (never [RTimeout; RMsg [121%N]])))) = [None]
  /\ length (run_history_v ex_assets [84%N] TManual 1%N true (never [RTimeout; RMsg [121%N]])) = 3%nat.
Proof. vm_compute. repeat split; reflexivity. Qed.

(* since readSession loads the trigger's parent run (goflow f4c75dd), a re-read session has the same parentRun flag as
   the session that was written, not only from the next call on *)
Lemma reachable_parent_exact : forall a tmo lv,
  reachable a tmo lv -> t_parent (lv_tr lv) = is_flow_action (s_trigger (lv_core lv)).
Proof.
  intros a tmo lv H. induction H as [t f batch x E | lv r lv' H IH E | lv lv' H IH E].
  - cbn [lv_core lv_tr transient_at_start t_parent]. rewrite (start_post_trigger _ _ _ _ E). reflexivity.
  - destruct (reachable_ok _ _ _ H) as [Hp _].
    unfold live_resume in E. cbn [fst snd] in E.
    assert (forall s', s_trigger s' = s_trigger (lv_core lv) ->
              t_parent (transient_in_resume a (lv_core lv) (lv_tr lv) r) = is_flow_action (s_trigger s')) as Hgen.
    { intros s' Hs. rewrite Hs. unfold transient_in_resume, prepare_for_sprint.
      destruct (resume_applies a (lv_core lv) r); cbn [t_parent]; rewrite IH; destruct (is_flow_action _); reflexivity. }
    destruct (resume_session a (lv_core lv) r tmo) as [code|[x|x| |]] eqn:R; cbn [after_call] in E; try discriminate;
    inversion E; subst lv'; cbn [lv_core lv_tr].
    + apply Hgen. reflexivity.
    + apply Hgen. exact (resume_post_trigger _ _ _ _ _ Hp R).
  - destruct (reachable_ok _ _ _ H) as [Hp _]. destruct (post_inv_persistable _ Hp) as [Hpu Hpp].
    rewrite (restore_persist_known _ Hpp) in E. inversion E. subst lv'. unfold reread. cbn [lv_core lv_tr].
    destruct (lv_core lv) as [st ty tg fl rs inp pu]. reflexivity.
Qed.

Lemma reread_keeps_parent : forall a tmo lv lv',
  reachable a tmo lv -> restore (persist lv) = Restored lv' -> t_parent (lv_tr lv') = t_parent (lv_tr lv).
Proof.
  intros a tmo lv lv' H E.
  rewrite (reachable_parent_exact _ _ _ H).
  rewrite (reachable_parent_exact a tmo lv' (reach_reread a tmo lv lv' H E)).
  destruct (reachable_ok _ _ _ H) as [Hp _]. destruct (post_inv_persistable _ Hp) as [Hpu Hpp].
  rewrite (restore_persist_known _ Hpp) in E. inversion E. unfold reread. cbn [lv_core].
  destruct (lv_core lv) as [st ty tg fl rs inp pu]. reflexivity.
Qed.

(* no engine call changes whether parentRun is loaded: NewSession and ReadSession have loaded it whenever the trigger carries
   a run summary, so prepareForSprint at the start of Resume finds nothing to do — in particular a REJECTED resume leaves
   ParentRun() (and @parent of a top-level run) as it was (C10: "the session is left exactly as it was") *)
Lemma resume_keeps_parent : forall a tmo lv r,
  reachable a tmo lv -> t_parent (snd (live_resume a lv r tmo)) = t_parent (lv_tr lv).
Proof.
  intros a tmo lv r H. pose proof (reachable_parent_exact _ _ _ H) as E.
  unfold live_resume. cbn [snd]. unfold transient_in_resume, prepare_for_sprint.
  destruct (resume_applies a (lv_core lv) r); cbn [t_parent]; rewrite E; destruct (is_flow_action _); reflexivity.
Qed.

Lemma rejected_resume_leaves_session : forall a tmo lv r code,
  reachable a tmo lv -> fst (live_resume a lv r tmo) = Rejected code ->
  exists lv', after_call lv (fst (live_resume a lv r tmo)) (snd (live_resume a lv r tmo)) = Some lv' /\
              lv_core lv' = lv_core lv /\ lv_batch_trigger lv' = lv_batch_trigger lv /\
              t_parent (lv_tr lv') = t_parent (lv_tr lv).
Proof.
  intros a tmo lv r code H E. pose proof (resume_keeps_parent a tmo lv r H) as P.
  rewrite E. cbn [after_call]. eexists. split; [reflexivity|]. cbn [lv_core lv_batch_trigger lv_tr].
  repeat split. exact P.
Qed.
