(* proofs/CqlLexPrintProofs.v — the lexer on formatted queries: [cql_lex (print p q ++ rest)] is the token list
   [toks p q] followed by the tokens of [rest], for every tree whose property keys can be written as properties. *)
From Coq Require Import List Arith NArith Bool Lia.
From Verif Require Import lib.Quote lib.RegexLM proofs.QuoteProofs model.CqlSyntax gen.GrammarCQL
  model.CqlPrinter model.CqlParser proofs.CqlQuoteProofs proofs.CqlRegexProofs proofs.CqlLexProofs
  proofs.CqlGrammarFacts proofs.CqlSimplifyProofs.
Import ListNotations.
Close Scope N_scope.

(* ---- pick: the winner among the rules ------------------------------------------------------------------- *)

Section Pick.
  Context {kind : Type}.

  Lemma pick_app : forall (a b : list (rule kind)) s cur, pick (a ++ b) s cur = pick b s (pick a s cur).
  Proof. induction a as [|r a IH]; intros b s cur; [reflexivity|]. cbn [app pick]. apply IH. Qed.

  Definition olen (o : option nat) : nat := match o with Some n => n | None => 0 end.

  Definition cur_lt (n : nat) (cur : option (rule kind * nat)) : Prop :=
    match cur with None => True | Some (_, m) => m < n end.

  Lemma pick_below : forall (rules : list (rule kind)) s n cur,
    (forall r, In r rules -> olen (longest (r_re r) s) < n) -> cur_lt n cur -> cur_lt n (pick rules s cur).
  Proof.
    induction rules as [|ru rules IH]; intros s n cur H Hc; [exact Hc|].
    cbn [pick]. apply IH; [intros r Hr; apply H; right; exact Hr|].
    pose proof (H ru (or_introl eq_refl)) as Hru.
    destruct (longest (r_re ru) s) as [[|m]|]; try exact Hc.
    cbn [olen] in Hru. destruct cur as [[r0 k]|]; cbn [cur_lt] in *; [|exact Hru].
    destruct (Nat.ltb k (S m)); cbn [cur_lt]; assumption.
  Qed.

  Lemma pick_keep : forall (rules : list (rule kind)) s ru n,
    (forall r, In r rules -> olen (longest (r_re r) s) <= n) -> pick rules s (Some (ru, n)) = Some (ru, n).
  Proof.
    induction rules as [|r rules IH]; intros s ru n H; [reflexivity|].
    cbn [pick]. pose proof (H r (or_introl eq_refl)) as Hr.
    destruct (longest (r_re r) s) as [[|m]|]; try (apply IH; intros r' Hr'; apply H; right; exact Hr').
    cbn [olen] in Hr. replace (Nat.ltb n (S m)) with false by (symmetry; apply Nat.ltb_ge; lia).
    apply IH. intros r' Hr'. apply H. right. exact Hr'.
  Qed.

  Lemma pick_winner : forall (pre : list (rule kind)) ru post s n,
    1 <= n -> longest (r_re ru) s = Some n ->
    (forall r, In r pre -> olen (longest (r_re r) s) < n) ->
    (forall r, In r post -> olen (longest (r_re r) s) <= n) ->
    pick (pre ++ ru :: post) s None = Some (ru, n).
  Proof.
    intros pre ru post s n Hn Hl Hpre Hpost. rewrite pick_app.
    pose proof (pick_below pre s n None Hpre I) as Hc.
    cbn [pick]. rewrite Hl. destruct n as [|m]; [lia|].
    destruct (pick pre s None) as [[r0 k]|]; cbn [cur_lt] in Hc.
    - replace (Nat.ltb k (S m)) with true by (symmetry; apply Nat.ltb_lt; exact Hc). apply pick_keep. exact Hpost.
    - apply pick_keep. exact Hpost.
  Qed.
End Pick.

(* ---- rules that die on the first character ----------------------------------------------------------------- *)

Definition dead1 (c : N) (i : nat) : bool :=
  negb (nullable (r_re (rule_at i))) && is_Empty (deriv c (r_re (rule_at i))).

Lemma dead1_olen c i s : dead1 c i = true -> olen (longest (r_re (rule_at i)) (c :: s)) = 0.
Proof.
  unfold dead1. intros H. apply andb_prop in H. destruct H as [H1 H2]. apply negb_true_iff in H1.
  rewrite longest_dead by assumption. reflexivity.
Qed.

Ltac in_cases H := cbn [In] in H; repeat (destruct H as [<-|H]); try contradiction.

Lemma dead_lparen : forall i, In i [1; 2; 3; 4; 5; 6; 7; 8] -> dead1 40%N i = true.
Proof. intros i H. in_cases H; vm_compute; reflexivity. Qed.
Lemma dead_rparen : forall i, In i [0; 2; 3; 4; 5; 6; 7; 8] -> dead1 41%N i = true.
Proof. intros i H. in_cases H; vm_compute; reflexivity. Qed.
Lemma dead_space : forall i, In i [0; 1; 2; 3; 4; 5; 6; 7] -> dead1 32%N i = true.
Proof. intros i H. in_cases H; vm_compute; reflexivity. Qed.
Lemma dead_f : forall i, In i [0; 1; 2; 3; 4; 5; 8] -> dead1 102%N i = true.
Proof. intros i H. in_cases H; vm_compute; reflexivity. Qed.
Lemma dead_u : forall i, In i [0; 1; 2; 3; 4; 5; 8] -> dead1 117%N i = true.
Proof. intros i H. in_cases H; vm_compute; reflexivity. Qed.
Lemma dead_digit : forall c i, is_digit c = true -> In i [0; 1; 2; 3; 4; 5; 8] -> dead1 c i = true.
Proof.
  intros c i Hc H. unfold is_digit in Hc. apply andb_prop in Hc. destruct Hc as [H1 H2].
  apply N.leb_le in H1. apply N.leb_le in H2.
  assert (E : In c [48; 49; 50; 51; 52; 53; 54; 55; 56; 57]%N) by (cbn [In]; lia).
  in_cases E; in_cases H; vm_compute; reflexivity.
Qed.

(* the rules as a list split at position i *)
Lemma rules_at : forall i, (i <? 10) = true ->
  lexer_rules = map rule_at (seq 0 i) ++ rule_at i :: map rule_at (seq (S i) (9 - i)).
Proof. intros i H. do 10 (destruct i as [|i]; [reflexivity|]). discriminate. Qed.

Lemma in_map_rule_at r l : In r (map rule_at l) -> exists i, In i l /\ r = rule_at i.
Proof. intros H. apply in_map_iff in H. destruct H as (i & <- & Hi). eauto. Qed.

Lemma error_olen c s : olen (longest (r_re (rule_at 9)) (c :: s)) = 1.
Proof. destruct error_rule as [-> _]. rewrite longest_class. reflexivity. Qed.

(* ---- one token at the head of a text --------------------------------------------------------------------- *)

Definition pushl (ts : list token) (r : lexres tkind) : lexres tkind :=
  match r with LexOk ts' => LexOk (ts ++ ts') | o => o end.

Lemma pushl_app a b r : pushl (a ++ b) r = pushl a (pushl b r).
Proof. destruct r; cbn [pushl]; try reflexivity. rewrite app_assoc. reflexivity. Qed.

Lemma pushl_nil r : pushl [] r = r.
Proof. destruct r; reflexivity. Qed.

(* a token of n characters chosen by rule ru *)
Lemma lex_token : forall w t ru, w <> [] ->
  pick lexer_rules (w ++ t) None = Some (ru, length w) ->
  cql_lex (w ++ t) = if r_skip ru then cql_lex t else pushl [(r_kind ru, w)] (cql_lex t).
Proof.
  intros w t ru Hw P. unfold cql_lex.
  assert (Hne : w ++ t <> []) by (destruct w; [congruence|discriminate]).
  rewrite (lex_step lexer_rules _ _ _ Hne P).
  rewrite skipn_app, skipn_all, Nat.sub_diag. cbn [skipn app].
  rewrite firstn_app, firstn_all, Nat.sub_diag. cbn [firstn]. rewrite app_nil_r.
  destruct (r_skip ru); destruct (lex lexer_rules t); reflexivity.
Qed.

(* LPAREN *)
Lemma lex_lparen t : cql_lex (40%N :: t) = pushl [(LPAREN, [40%N])] (cql_lex t).
Proof.
  assert (P : pick lexer_rules ([40%N] ++ t) None = Some (rule_at 0, 1)).
  { rewrite (rules_at 0 eq_refl). apply (pick_winner []); [lia| |intros r []|].
    - rewrite re0. cbn [app]. rewrite longest_class. reflexivity.
    - cbn [seq map Nat.sub]. intros r Hr.
      destruct Hr as [<-|[<-|[<-|[<-|[<-|[<-|[<-|[<-|[<-|[]]]]]]]]]];
        try (cbn [app]; rewrite dead1_olen by (apply dead_lparen; cbn [In]; tauto); lia).
      cbn [app]. rewrite error_olen. lia. }
  change (40%N :: t) with ([40%N] ++ t).
  rewrite (lex_token [40%N] t (rule_at 0) ltac:(discriminate) P). rewrite sk0, kd0. reflexivity.
Qed.

(* RPAREN *)
Lemma lex_rparen t : cql_lex (41%N :: t) = pushl [(RPAREN, [41%N])] (cql_lex t).
Proof.
  assert (P : pick lexer_rules ([41%N] ++ t) None = Some (rule_at 1, 1)).
  { rewrite (rules_at 1 eq_refl). apply pick_winner; [lia| | |].
    - rewrite re1. cbn [app]. rewrite longest_class. reflexivity.
    - cbn [seq map]. intros r [<-|[]]. cbn [app]. rewrite dead1_olen by (apply dead_rparen; cbn [In]; tauto). lia.
    - cbn [seq map Nat.sub]. intros r Hr.
      destruct Hr as [<-|[<-|[<-|[<-|[<-|[<-|[<-|[<-|[]]]]]]]]];
        try (cbn [app]; rewrite dead1_olen by (apply dead_rparen; cbn [In]; tauto); lia).
      cbn [app]. rewrite error_olen. lia. }
  change (41%N :: t) with ([41%N] ++ t).
  rewrite (lex_token [41%N] t (rule_at 1) ltac:(discriminate) P). rewrite sk1, kd1. reflexivity.
Qed.

(* a single space before a character that is not white space: skipped *)
Lemma lex_space c t : inW c = false -> cql_lex (32%N :: c :: t) = cql_lex (c :: t).
Proof.
  intros Hc.
  assert (P : pick lexer_rules ([32%N] ++ c :: t) None = Some (rule_at 8, 1)).
  { rewrite (rules_at 8 eq_refl). apply pick_winner; [lia| | |].
    - rewrite re8. rewrite longest_plus_class. cbn [app span].
      replace (in_cset 32%N Wset) with true by (vm_compute; reflexivity).
      unfold inW in Hc. rewrite Hc. reflexivity.
    - cbn [seq map]. intros r Hr.
      destruct Hr as [<-|[<-|[<-|[<-|[<-|[<-|[<-|[<-|[]]]]]]]]];
        cbn [app]; rewrite dead1_olen by (apply dead_space; cbn [In]; tauto); lia.
    - cbn [seq map Nat.sub]. intros r [<-|[]]. cbn [app]. rewrite error_olen. lia. }
  change (32%N :: c :: t) with ([32%N] ++ c :: t).
  rewrite (lex_token [32%N] (c :: t) (rule_at 8) ltac:(discriminate) P). rewrite sk8. reflexivity.
Qed.

(* ---- tokens with a fixed text: attribute names, operators, AND, OR ----------------------------------------- *)

Definition concrete_ok (k : tkind) (w : list N) : bool :=
  forallb (fun ru => dies (r_re ru) (w ++ [32%N])) lexer_rules
  && match pick lexer_rules (w ++ [32%N]) None with
     | Some (ru, n) => tkind_eqb (r_kind ru) k && Nat.eqb n (length w) && negb (r_skip ru)
     | None => false
     end
  && negb (Nat.eqb (length w) 0).

Lemma tkind_eqb_eq a b : tkind_eqb a b = true -> a = b.
Proof. destruct a, b; simpl; congruence. Qed.

Lemma lex_concrete : forall k w t, concrete_ok k w = true ->
  cql_lex (w ++ 32%N :: t) = pushl [(k, w)] (cql_lex (32%N :: t)).
Proof.
  intros k w t H. unfold concrete_ok in H.
  apply andb_prop in H. destruct H as [H Hlen]. apply andb_prop in H. destruct H as [Hd Hp].
  destruct (pick lexer_rules (w ++ [32%N]) None) as [[ru n]|] eqn:P; [|discriminate].
  apply andb_prop in Hp. destruct Hp as [Hp Hs]. apply andb_prop in Hp. destruct Hp as [Hk Hn].
  apply tkind_eqb_eq in Hk. apply Nat.eqb_eq in Hn. apply negb_true_iff in Hs. subst n.
  assert (Hw : w <> []) by (intros ->; discriminate).
  assert (P' : pick lexer_rules (w ++ 32%N :: t) None = Some (ru, length w)).
  { replace (w ++ 32%N :: t) with ((w ++ [32%N]) ++ t) by (rewrite <- app_assoc; reflexivity).
    rewrite pick_dies by exact Hd. exact P. }
  rewrite (lex_token w (32%N :: t) ru Hw P'). rewrite Hs, Hk. reflexivity.
Qed.

Definition kw_and : list N := [65; 78; 68]%N.
Definition kw_or : list N := [79; 82]%N.

Lemma concrete_tokens :
  forallb (fun a => concrete_ok PROPERTY (fst a)) attributes = true
  /\ forallb (fun o => concrete_ok COMPARATOR (snd o)) operator_texts = true
  /\ concrete_ok AND kw_and = true /\ concrete_ok OR kw_or = true.
Proof. repeat split; vm_compute; reflexivity. Qed.

(* ---- property tokens ---------------------------------------------------------------------------------------- *)

Definition PROPre : re :=
  Cat (Alt (Cat (Cat (Chr Lset) (Star (Chr Lset))) (Chr Dot)) Eps) (Cat (Chr Kset) (Star (Chr Kset))).

Lemma prefix_states :
  alive PROPre prefix_fields = true /\ derivs PROPre prefix_fields = Cat (Chr Kset) (Star (Chr Kset))
  /\ alive PROPre prefix_urns = true /\ derivs PROPre prefix_urns = Cat (Chr Kset) (Star (Chr Kset)).
Proof. repeat split; vm_compute; reflexivity. Qed.

Lemma olen_span n : olen (match n with O => None | S m => Some (S m) end) = n.
Proof. destruct n; reflexivity. Qed.

Definition key_chars (key : list N) : Prop := key <> [] /\ forallb inK key = true.

Lemma sepK c : In c [32; 40; 41; 34; 9; 10; 13]%N -> in_cset c Kset = false.
Proof. intros H. destruct (sep_facts c H) as (A & _). exact A. Qed.
Lemma sepT c : In c [32; 40; 41; 34; 9; 10; 13]%N -> in_cset c Tset = false.
Proof. intros H. destruct (sep_facts c H) as (_ & A & _). exact A. Qed.

Lemma lex_prefixed : forall pre key t, (pre = prefix_fields \/ pre = prefix_urns) -> key_chars key ->
  cql_lex (pre ++ key ++ 32%N :: t) = pushl [(PROPERTY, pre ++ key)] (cql_lex (32%N :: t)).
Proof.
  intros pre key t Hpre [Hne Hk].
  destruct prefix_states as (A1 & D1 & A2 & D2).
  assert (Hal : alive PROPre pre = true /\ derivs PROPre pre = Cat (Chr Kset) (Star (Chr Kset))
                /\ exists c pre', pre = c :: pre' /\ (c = 102 \/ c = 117)%N).
  { destruct Hpre as [-> | ->]; (split; [assumption|split; [assumption|]]); eexists _, _; (split; [reflexivity|]); auto. }
  destruct Hal as (Hal & Hd & c0 & pre' & Epre & Hc0).
  assert (Hw : pre ++ key <> []) by (rewrite Epre; discriminate).
  assert (P : pick lexer_rules ((pre ++ key) ++ 32%N :: t) None = Some (rule_at 6, length (pre ++ key))).
  { rewrite (rules_at 6 eq_refl). apply pick_winner.
    - rewrite Epre. cbn [app length]. lia.
    - rewrite re6. fold PROPre. rewrite <- app_assoc. unfold longest.
      destruct (lm_alive pre PROPre (key ++ 32%N :: t) 0 None Hal) as [b ->].
      rewrite Hd. rewrite (lm_key Kset key (32%N :: t) (0 + length pre) b Hne Hk).
      + rewrite app_length. reflexivity.
      + cbn [stops]. apply sepK. cbn [In]. tauto.
    - cbn [seq map]. intros r Hr. rewrite <- app_assoc, Epre. cbn [app].
      assert (Hdead : forall i, In i [0; 1; 2; 3; 4; 5; 8] -> dead1 c0 i = true).
      { destruct Hc0 as [-> | ->]; [apply dead_f|apply dead_u]. }
      destruct Hr as [<-|[<-|[<-|[<-|[<-|[<-|[]]]]]]];
        rewrite dead1_olen by (apply Hdead; cbn [In]; tauto); cbn [length]; lia.
    - cbn [seq map Nat.sub]. intros r Hr. destruct Hr as [<-|[<-|[<-|[]]]].
      + rewrite re7, longest_plus_class, olen_span. apply span_bound. apply sepT. cbn [In]. tauto.
      + rewrite <- app_assoc, Epre. cbn [app].
        rewrite dead1_olen; [lia|]. destruct Hc0 as [-> | ->]; [apply dead_f|apply dead_u]; cbn [In]; tauto.
      + rewrite <- app_assoc, Epre. cbn [app]. rewrite error_olen. cbn [app length]. lia. }
  rewrite app_assoc. rewrite (lex_token (pre ++ key) (32%N :: t) (rule_at 6) Hw P). rewrite sk6, kd6. reflexivity.
Qed.

Lemma lex_attribute : forall key ft t, In (key, ft) attributes ->
  cql_lex (key ++ 32%N :: t) = pushl [(PROPERTY, key)] (cql_lex (32%N :: t)).
Proof.
  intros key ft t H. apply lex_concrete.
  destruct concrete_tokens as (A & _). rewrite forallb_forall in A. exact (A _ H).
Qed.

(* ---- value tokens ------------------------------------------------------------------------------------------- *)

(* what can follow a value in a formatted query: the end, a space, a closing parenthesis *)
Definition rest_ok (t : list N) : Prop := match t with [] => True | c :: _ => (c = 32 \/ c = 41)%N end.

Lemma rest_ok_stops t : rest_ok t -> stops Kset t /\ stops Tset t.
Proof.
  destruct t as [|c t]; cbn [rest_ok stops]; [tauto|].
  intros [-> | ->]; (split; [apply sepK|apply sepT]); cbn [In]; tauto.
Qed.

Lemma digits_inK v : forallb is_digit v = true -> forallb (fun c => in_cset c Kset) v = true.
Proof.
  intros H. rewrite forallb_forall in *. intros c Hc. destruct (digit_facts c (H c Hc)) as (A & _). exact A.
Qed.
Lemma digits_inT v : forallb is_digit v = true -> forallb (fun c => in_cset c Tset) v = true.
Proof.
  intros H. rewrite forallb_forall in *. intros c Hc. destruct (digit_facts c (H c Hc)) as (_ & A & _). exact A.
Qed.

Lemma lex_digits : forall v t, v <> [] -> forallb is_digit v = true -> rest_ok t ->
  cql_lex (v ++ t) = pushl [(PROPERTY, v)] (cql_lex t).
Proof.
  intros v t Hne Hd Ht.
  destruct (rest_ok_stops t Ht) as [HsK HsT].
  destruct v as [|c v']; [congruence|]. cbn [forallb] in Hd. apply andb_prop in Hd. destruct Hd as [Hc Hd'].
  destruct (digit_facts c Hc) as (HcK & HcT & HcL).
  assert (P : pick lexer_rules ((c :: v') ++ t) None = Some (rule_at 6, length (c :: v'))).
  { rewrite (rules_at 6 eq_refl). apply pick_winner.
    - cbn [length]. lia.
    - rewrite re6. cbn [app]. rewrite (longest_prop_nonletter Lset Kset c (v' ++ t) HcL HcK).
      rewrite span_run by (try apply digits_inK; assumption). reflexivity.
    - cbn [seq map]. intros r Hr. cbn [app length].
      destruct Hr as [<-|[<-|[<-|[<-|[<-|[<-|[]]]]]]];
        rewrite dead1_olen by (apply dead_digit; [exact Hc|cbn [In]; tauto]); lia.
    - cbn [seq map Nat.sub]. intros r Hr. destruct Hr as [<-|[<-|[<-|[]]]].
      + rewrite re7, longest_plus_class, olen_span.
        rewrite span_run; [lia| |exact HsT]. apply digits_inT. cbn [forallb]. rewrite Hc, Hd'. reflexivity.
      + cbn [app]. rewrite dead1_olen by (apply dead_digit; [exact Hc|cbn [In]; tauto]). lia.
      + cbn [app]. rewrite error_olen. cbn [length]. lia. }
  rewrite (lex_token (c :: v') t (rule_at 6) ltac:(discriminate) P). rewrite sk6, kd6. reflexivity.
Qed.

Lemma lex_decimal : forall a d t, a <> [] -> d <> [] -> forallb is_digit a = true -> forallb is_digit d = true ->
  rest_ok t ->
  cql_lex ((a ++ 46%N :: d) ++ t) = pushl [(TEXT, a ++ 46%N :: d)] (cql_lex t).
Proof.
  intros a d t Ha Hd Hda Hdd Ht.
  destruct (rest_ok_stops t Ht) as [HsK HsT].
  destruct class_facts as (_ & D_K & D_L & D_T & _).
  destruct a as [|c a']; [congruence|]. cbn [forallb] in Hda. apply andb_prop in Hda. destruct Hda as [Hc Hda'].
  destruct (digit_facts c Hc) as (HcK & HcT & HcL).
  cbn [app].
  assert (HvT : forallb (fun x => in_cset x Tset) (c :: a' ++ 46%N :: d) = true).
  { change (c :: a' ++ 46%N :: d) with ((c :: a') ++ 46%N :: d). rewrite forallb_app.
    rewrite (digits_inT (c :: a')) by (cbn [forallb]; rewrite Hc, Hda'; reflexivity).
    cbn [forallb andb]. unfold inT in D_T. rewrite D_T. rewrite (digits_inT d Hdd). reflexivity. }
  assert (Hlen : S (length a') < length (c :: a' ++ 46%N :: d)).
  { clear. cbn [length]. rewrite app_length. cbn [length]. lia. }
  assert (Hdead : forall i, In i [0; 1; 2; 3; 4; 5; 8] -> dead1 c i = true).
  { intros i Hi. apply dead_digit; assumption. }
  assert (P : pick lexer_rules ((c :: a' ++ 46%N :: d) ++ t) None = Some (rule_at 7, length (c :: a' ++ 46%N :: d))).
  { rewrite (rules_at 7 eq_refl). apply pick_winner.
    - clear. cbn [length]. lia.
    - rewrite re7, longest_plus_class. rewrite span_run by assumption. reflexivity.
    - cbn [seq map]. intros r Hr. cbn [app].
      destruct Hr as [<-|[<-|[<-|[<-|[<-|[<-|[<-|[]]]]]]]];
        try (rewrite dead1_olen by (apply Hdead; cbn [In]; tauto); clear; cbn [length]; lia).
      rewrite re6.
      rewrite (longest_prop_nonletter Lset Kset c _ HcL HcK). cbn [olen].
      rewrite <- app_assoc. cbn [app].
      rewrite (span_run Kset a' (46%N :: d ++ t)); [exact Hlen|apply digits_inK; exact Hda'|].
      cbn [stops]. exact D_K.
    - cbn [seq map Nat.sub]. intros r Hr. cbn [app]. destruct Hr as [<-|[<-|[]]].
      + rewrite dead1_olen by (apply Hdead; cbn [In]; tauto). clear. lia.
      + rewrite error_olen. clear. cbn [length]. lia. }
  change (c :: (a' ++ 46%N :: d) ++ t) with ((c :: a' ++ 46%N :: d) ++ t).
  rewrite (lex_token (c :: a' ++ 46%N :: d) t (rule_at 7) ltac:(discriminate) P). rewrite sk7, kd7. reflexivity.
Qed.

(* the regular expression ^\d+(\.\d+)?$ by cases *)
Lemma span_digits_spec : forall s a b, span_digits s = (a, b) ->
  s = a ++ b /\ forallb is_digit a = true /\ match b with [] => True | c :: _ => is_digit c = false end.
Proof.
  induction s as [|c s IH]; intros a b H; cbn [span_digits] in H.
  - inversion H. repeat split.
  - destruct (is_digit c) eqn:E.
    + destruct (span_digits s) as [a' b'] eqn:E'. inversion H; subst.
      destruct (IH a' b eq_refl) as (-> & A & B). cbn [app forallb]. rewrite E, A. repeat split. exact B.
    + inversion H; subst. cbn [app forallb]. repeat split. exact E.
Qed.

Inductive number_shape (v : list N) : Prop :=
| num_int : v <> [] -> forallb is_digit v = true -> number_shape v
| num_dec : forall a d, v = a ++ 46%N :: d -> a <> [] -> d <> [] -> forallb is_digit a = true ->
    forallb is_digit d = true -> number_shape v.

Lemma is_number_shape v : is_number v = true -> number_shape v.
Proof.
  unfold is_number. destruct (span_digits v) as [a b] eqn:E.
  destruct (span_digits_spec v a b E) as (-> & Ha & Hb).
  destruct a as [|x a]; [discriminate|].
  destruct b as [|c d].
  - intros _. rewrite app_nil_r. apply num_int; [discriminate|exact Ha].
  - intros H. apply andb_prop in H. destruct H as [H1 H2]. apply N.eqb_eq in H1. subst c.
    unfold all_digits1 in H2. destruct d as [|y d]; [discriminate|].
    eapply num_dec; [reflexivity|discriminate|discriminate|exact Ha|exact H2].
Qed.

Definition has_dot (v : list N) : bool := existsb (N.eqb 46%N) v.

Lemma digits_no_dot v : forallb is_digit v = true -> has_dot v = false.
Proof.
  unfold has_dot. induction v as [|c v IH]; [reflexivity|]. cbn [forallb existsb]. intros H.
  apply andb_prop in H. destruct H as [H1 H2]. rewrite (IH H2), orb_false_r.
  unfold is_digit in H1. apply andb_prop in H1. destruct H1 as [A B]. apply N.leb_le in A. apply N.leb_le in B.
  apply N.eqb_neq. lia.
Qed.

Section Toks.
  Variable p : N -> bool.

  Definition tok_value (v : list N) : token :=
    if is_number v then (if has_dot v then (TEXT, v) else (PROPERTY, v)) else (STRING, quote_value p v).

  Lemma lex_value : forall v t, rest_ok t ->
    cql_lex (print_value p v ++ t) = pushl [tok_value v] (cql_lex t).
  Proof.
    intros v t Ht. unfold print_value, tok_value. destruct (is_number v) eqn:E.
    - destruct (is_number_shape v E) as [Hne Hd|a d -> Ha Hd Hda Hdd].
      + rewrite (digits_no_dot v Hd). apply lex_digits; assumption.
      + replace (has_dot (a ++ 46%N :: d)) with true.
        * apply lex_decimal; assumption.
        * unfold has_dot. rewrite existsb_app. cbn [existsb]. rewrite N.eqb_refl, orb_true_r. reflexivity.
    - rewrite lex_quoted_value. destruct (cql_lex t); reflexivity.
  Qed.

  (* the first character of a printed value is not white space *)
  Lemma print_value_head : forall v, exists c s, print_value p v = c :: s /\ inW c = false.
  Proof.
    intros v. unfold print_value. destruct (is_number v) eqn:E.
    - destruct (is_number_shape v E) as [Hne Hd|a d -> Ha Hd Hda Hdd].
      + destruct v as [|c v']; [congruence|]. exists c, v'. split; [reflexivity|].
        cbn [forallb] in Hd. apply andb_prop in Hd. destruct Hd as [Hc _].
        apply inK_not_W. destruct (digit_facts c Hc) as (A & _). exact A.
      + destruct a as [|c a']; [congruence|]. exists c, (a' ++ 46%N :: d). split; [reflexivity|].
        cbn [forallb] in Hda. apply andb_prop in Hda. destruct Hda as [Hc _].
        apply inK_not_W. destruct (digit_facts c Hc) as (A & _). exact A.
    - destruct (quote_value_shape p v) as (body & -> & _). exists 34%N, (body ++ [34%N]). split; [reflexivity|].
      vm_compute. reflexivity.
  Qed.
End Toks.

(* ---- conditions and trees ---------------------------------------------------------------------------------------- *)

(* keys that can be written as a property *)
Definition key_ok (pt : ptype) (key : list N) : Prop :=
  match pt with
  | PAttr => exists ft, In (key, ft) attributes
  | PURN | PField => key_chars key
  | PNone => False
  end.

Definition op_ok (o : oper) : Prop := forall t, o <> OpOther t.

Inductive lexable : node -> Prop :=
| lx_cond : forall pt key o v, key_ok pt key -> op_ok o -> lexable (Cond pt key o v)
| lx_comb : forall b ch, Forall lexable ch -> lexable (Comb b ch).

Lemma oper_text_in o : op_ok o -> In (o, oper_text o) operator_texts.
Proof.
  intros H. destruct o; try (vm_compute; tauto). exfalso. exact (H t eq_refl).
Qed.

Lemma oper_heads : forallb (fun o => match snd o with c :: _ => negb (inW c) | [] => false end) operator_texts = true.
Proof. vm_compute. reflexivity. Qed.

Lemma oper_text_head o : op_ok o -> exists c s, oper_text o = c :: s /\ inW c = false.
Proof.
  intros H. pose proof (oper_text_in o H) as Hin. pose proof oper_heads as A.
  rewrite forallb_forall in A. specialize (A _ Hin). cbn [snd] in A.
  destruct (oper_text o) as [|c s]; [discriminate|]. exists c, s. split; [reflexivity|].
  apply negb_true_iff in A. exact A.
Qed.

Lemma lex_operator o t : op_ok o ->
  cql_lex (oper_text o ++ 32%N :: t) = pushl [(COMPARATOR, oper_text o)] (cql_lex (32%N :: t)).
Proof.
  intros H. apply lex_concrete. destruct concrete_tokens as (_ & A & _).
  rewrite forallb_forall in A. exact (A _ (oper_text_in o H)).
Qed.

Section Trees.
  Variable p : N -> bool.

  Definition toks_cond (pt : ptype) (key : list N) (o : oper) (v : list N) : list token :=
    [(PROPERTY, prop_prefix pt ++ key); (COMPARATOR, oper_text o); tok_value p v].

  Definition bool_tok (b : boolop) : token :=
    match b with BAnd => (AND, kw_and) | BOr => (OR, kw_or) end.

  Fixpoint jointoks (sep : token) (l : list (list token)) : list token :=
    match l with
    | [] => []
    | [x] => x
    | x :: r => x ++ sep :: jointoks sep r
    end.

  Fixpoint toks (q : node) : list token :=
    match q with
    | Cond pt key o v => toks_cond pt key o v
    | Comb b ch => (LPAREN, [40%N]) :: jointoks (bool_tok b) (map toks ch) ++ [(RPAREN, [41%N])]
    end.

  Lemma lex_property pt key t : key_ok pt key ->
    cql_lex (prop_prefix pt ++ key ++ 32%N :: t) = pushl [(PROPERTY, prop_prefix pt ++ key)] (cql_lex (32%N :: t)).
  Proof.
    intros H. destruct pt; cbn [key_ok prop_prefix] in *.
    - destruct H as [ft H]. cbn [app]. eapply lex_attribute. exact H.
    - apply lex_prefixed; [right; reflexivity|exact H].
    - apply lex_prefixed; [left; reflexivity|exact H].
    - contradiction.
  Qed.

  Lemma lex_cond pt key o v t : key_ok pt key -> op_ok o -> rest_ok t ->
    cql_lex (print_cond p pt key o v ++ t) = pushl (toks_cond pt key o v) (cql_lex t).
  Proof.
    intros Hk Ho Ht. unfold print_cond, toks_cond.
    repeat rewrite <- app_assoc. cbn [app].
    rewrite (lex_property pt key _ Hk).
    destruct (oper_text_head o Ho) as (c & s & Eo & Hc).
    rewrite Eo. cbn [app]. rewrite (lex_space c _ Hc). rewrite <- Eo.
    change (c :: s ++ 32%N :: print_value p v ++ t) with ((c :: s) ++ 32%N :: print_value p v ++ t).
    rewrite <- Eo. rewrite (lex_operator o _ Ho).
    destruct (print_value_head p v) as (c' & s' & Ev & Hc').
    rewrite Ev. cbn [app]. rewrite (lex_space c' _ Hc').
    change (c' :: s' ++ t) with ((c' :: s') ++ t). rewrite <- Ev.
    rewrite (lex_value p v t Ht).
    destruct (cql_lex t); reflexivity.
  Qed.

  (* a condition whose value was substituted with the escaping, in front of ANY remaining template text *)
  Lemma lex_cond_escaped pt key o v t : key_ok pt key -> op_ok o ->
    cql_lex (prop_prefix pt ++ key ++ [32%N] ++ oper_text o ++ [32%N] ++ quote_value p v ++ t)
    = pushl [(PROPERTY, prop_prefix pt ++ key); (COMPARATOR, oper_text o); (STRING, quote_value p v)] (cql_lex t).
  Proof.
    intros Hk Ho. cbn [app].
    rewrite (lex_property pt key _ Hk).
    destruct (oper_text_head o Ho) as (c & s & Eo & Hc).
    rewrite Eo. cbn [app]. rewrite (lex_space c _ Hc).
    change (c :: s ++ 32%N :: quote_value p v ++ t) with ((c :: s) ++ 32%N :: quote_value p v ++ t).
    rewrite <- Eo. rewrite (lex_operator o _ Ho).
    destruct (quote_value_shape p v) as (body & Eq & _).
    rewrite Eq. cbn [app]. rewrite (lex_space 34%N) by (vm_compute; reflexivity).
    change (34%N :: (body ++ [34%N]) ++ t) with ((34%N :: body ++ [34%N]) ++ t). rewrite <- Eq.
    rewrite lex_quoted_value.
    destruct (cql_lex t); reflexivity.
  Qed.

  (* the first character of a printed tree is not white space *)
  Lemma key_head pt key : key_ok pt key -> exists c s, prop_prefix pt ++ key = c :: s /\ inW c = false.
  Proof.
    intros H. destruct pt; cbn [key_ok prop_prefix] in *.
    - destruct H as [ft H]. cbn [app].
      assert (A : forallb (fun a => match fst a with c :: _ => negb (inW c) | [] => false end) attributes = true)
        by (vm_compute; reflexivity).
      rewrite forallb_forall in A. specialize (A _ H). cbn [fst] in A.
      destruct key as [|c s]; [discriminate|]. exists c, s. split; [reflexivity|]. apply negb_true_iff in A. exact A.
    - eexists _, _. split; [reflexivity|]. vm_compute. reflexivity.
    - eexists _, _. split; [reflexivity|]. vm_compute. reflexivity.
    - contradiction.
  Qed.

  Lemma print_head q : lexable q -> exists c s, print p q = c :: s /\ inW c = false.
  Proof.
    intros H. destruct H as [pt key o v Hk Ho|b ch Hch].
    - destruct (key_head pt key Hk) as (c & s & E & Hc). cbn [print]. unfold print_cond.
      rewrite app_assoc, E. cbn [app]. eauto.
    - cbn [print app]. eexists _, _. split; [reflexivity|]. vm_compute. reflexivity.
  Qed.

  Lemma bool_word_eq b : bool_word b = 32%N :: snd (bool_tok b) ++ [32%N].
  Proof. destruct b; reflexivity. Qed.

  Lemma lex_bool_word b c t : inW c = false ->
    cql_lex (bool_word b ++ c :: t) = pushl [bool_tok b] (cql_lex (c :: t)).
  Proof.
    intros Hc. destruct concrete_tokens as (_ & _ & A & O).
    destruct b; cbn [bool_word app bool_tok].
    - rewrite (lex_space 65%N) by (vm_compute; reflexivity).
      change (65%N :: 78%N :: 68%N :: 32%N :: c :: t) with (kw_and ++ 32%N :: c :: t).
      rewrite (lex_concrete AND kw_and _ A). rewrite (lex_space c _ Hc). reflexivity.
    - rewrite (lex_space 79%N) by (vm_compute; reflexivity).
      change (79%N :: 82%N :: 32%N :: c :: t) with (kw_or ++ 32%N :: c :: t).
      rewrite (lex_concrete OR kw_or _ O). rewrite (lex_space c _ Hc). reflexivity.
  Qed.

  (* children joined by " AND " / " OR " *)
  Lemma lex_children b : forall ch,
    Forall (fun c => lexable c /\ forall t, rest_ok t -> cql_lex (print p c ++ t) = pushl (toks c) (cql_lex t)) ch ->
    forall t, rest_ok t ->
    cql_lex (join (bool_word b) (map (print p) ch) ++ t) = pushl (jointoks (bool_tok b) (map toks ch)) (cql_lex t).
  Proof.
    induction ch as [|x ch IH]; intros H t Ht.
    - cbn [map join jointoks app]. rewrite pushl_nil. reflexivity.
    - inversion H as [|? ? [Hx Hlx] Hrest]; subst.
      destruct ch as [|y ch'].
      + cbn [map join jointoks]. apply Hlx. exact Ht.
      + change (join (bool_word b) (map (print p) (x :: y :: ch')))
          with (print p x ++ bool_word b ++ join (bool_word b) (map (print p) (y :: ch'))).
        change (jointoks (bool_tok b) (map toks (x :: y :: ch')))
          with (toks x ++ bool_tok b :: jointoks (bool_tok b) (map toks (y :: ch'))).
        repeat rewrite <- app_assoc.
        rewrite Hlx by (rewrite bool_word_eq; cbn [app rest_ok]; left; reflexivity).
        (* the next child starts with a character that is not white space *)
        assert (Hy : exists c s, join (bool_word b) (map (print p) (y :: ch')) ++ t = c :: s /\ inW c = false).
        { inversion Hrest as [|? ? [Hly _] _]; subst. destruct (print_head y Hly) as (c & s & E & Hc).
          destruct ch' as [|z ch'']; cbn [map join]; rewrite E; cbn [app]; eauto. }
        destruct Hy as (c & s & E & Hc). rewrite E. rewrite (lex_bool_word b c s Hc). rewrite <- E.
        rewrite (IH Hrest t Ht).
        destruct (cql_lex t); cbn [pushl]; [|reflexivity|reflexivity].
        rewrite <- app_assoc. reflexivity.
  Qed.

  Lemma lex_node : forall q, lexable q -> forall t, rest_ok t ->
    cql_lex (print p q ++ t) = pushl (toks q) (cql_lex t).
  Proof.
    induction q as [pt key o v|b ch IH] using node_ind'; intros Hl t Ht.
    - inversion Hl; subst. cbn [print toks]. apply lex_cond; assumption.
    - inversion Hl as [|? ? Hch]; subst. cbn [print toks].
      repeat rewrite <- app_assoc. cbn [app]. rewrite lex_lparen.
      assert (HF : Forall (fun c => lexable c /\ forall t, rest_ok t -> cql_lex (print p c ++ t) = pushl (toks c) (cql_lex t)) ch).
      { rewrite Forall_forall in *. intros c Hc. split; [apply Hch; exact Hc|]. apply IH; [exact Hc|apply Hch; exact Hc]. }
      rewrite (lex_children b ch HF (41%N :: t)) by (cbn [rest_ok]; right; reflexivity).
      rewrite lex_rparen.
      destruct (cql_lex t); cbn [pushl]; try reflexivity.
      cbn [app]. rewrite <- app_assoc. reflexivity.
  Qed.
End Trees.
