(* ModifiersIdem.v — C03, last clause: applying the same modifier a second time changes and reports nothing.
   What the proof needs to know about gocommon/urns is the computable premise [mod_env_ok] of model/Modifiers.v
   (evaluated on every case of the correspondence run). *)
From Coq Require Import List NArith Bool Lia Setoid.
From Verif Require Import model.Contact model.Modifiers proofs.ModifiersBase proofs.GroupsProofs proofs.ModifiersProofs.
Import ListNotations.
Open Scope N_scope.

Section Idem.
Variable E : menv.

(* ---- URNs: append ------------------------------------------------------------------------------------------ *)
Lemma has_urn_app : forall us vs u, has_urn E (us ++ vs) u = has_urn E us u || has_urn E vs u.
Proof. intros. unfold has_urn. apply existsb_app. Qed.

Lemma add_urn_mono : forall us u v, has_urn E us v = true -> has_urn E (add_urn E us u) v = true.
Proof.
  intros us u v H. unfold add_urn. destruct (has_urn E us u); [exact H|]. rewrite has_urn_app, H. reflexivity.
Qed.

Lemma add_urn_self : forall us u,
  urn_identity E (urn_normalize E u) = urn_identity E u -> has_urn E (add_urn E us u) u = true.
Proof.
  intros us u Hid. unfold add_urn. destruct (has_urn E us u) eqn:Hh; [exact Hh|].
  rewrite has_urn_app. unfold has_urn at 2. cbn [existsb cu_urn]. rewrite Hid, N.eqb_refl. apply orb_true_r.
Qed.

Lemma step_append_mono : forall cur u v, has_urn E cur v = true -> has_urn E (urn_step E UAppend cur u) v = true.
Proof.
  intros cur u v H. unfold urn_step. destruct (negb (urn_valid E (urn_normalize E u))); [exact H|].
  apply add_urn_mono. exact H.
Qed.

Lemma fold_append_mono : forall todo cur v, has_urn E cur v = true -> has_urn E (urns_fold E UAppend todo cur) v = true.
Proof.
  induction todo as [|u todo IH]; intros cur v H; [exact H|]. cbn [urns_fold fold_left].
  apply IH. apply step_append_mono. exact H.
Qed.

Definition norm_stable (u : N) : Prop :=
  urn_valid E (urn_normalize E u) = true ->
  urn_identity E (urn_normalize E (urn_normalize E u)) = urn_identity E (urn_normalize E u).

Lemma norm_fixed : forall u, urn_norm1 E u = u -> urn_normalize E u = u.
Proof. intros u H. unfold urn_normalize. cbn [norm_iter]. rewrite H, N.eqb_refl. reflexivity. Qed.

Lemma fold_append_all : forall todo cur u,
  Forall norm_stable todo -> In u todo -> urn_valid E (urn_normalize E u) = true ->
  has_urn E (urns_fold E UAppend todo cur) (urn_normalize E u) = true.
Proof.
  induction todo as [|h todo IH]; intros cur u Hst Hin Hv; [destruct Hin|].
  inversion Hst as [|? ? Hh Hst']; subst. cbn [urns_fold fold_left]. destruct Hin as [e|Hin].
  - subst h. apply fold_append_mono. unfold urn_step. rewrite Hv. cbn [negb].
    apply add_urn_self. apply Hh. exact Hv.
  - apply IH; assumption.
Qed.

Lemma fold_append_fix : forall todo cur,
  (forall u, In u todo -> urn_valid E (urn_normalize E u) = true -> has_urn E cur (urn_normalize E u) = true) ->
  urns_fold E UAppend todo cur = cur.
Proof.
  induction todo as [|h todo IH]; intros cur H; [reflexivity|]. cbn [urns_fold fold_left].
  assert (Hs : urn_step E UAppend cur h = cur).
  { unfold urn_step. destruct (urn_valid E (urn_normalize E h)) eqn:Hv; cbn [negb]; [|reflexivity].
    unfold add_urn. rewrite (H h (or_introl eq_refl) Hv). reflexivity. }
  rewrite Hs. apply IH. intros u Hu. apply H. right. exact Hu.
Qed.

(* ---- URNs: remove ----------------------------------------------------------------------------------------- *)
Definition settled (cur : list curn) (v : N) : Prop :=
  has_urn E cur v = false \/ Forall (fun x => N.eqb (urn_identity E (cu_urn x)) (urn_identity E v) = false) cur.

Lemma existsb_filter_false : forall (A : Type) (f p : A -> bool) l, existsb f l = false -> existsb f (filter p l) = false.
Proof.
  induction l as [|x l IH]; cbn; intro H; [reflexivity|]. apply orb_false_iff in H. destruct H as [H1 H2].
  destruct (p x); cbn; [rewrite H1|]; apply IH; exact H2.
Qed.

Lemma Forall_filter' : forall (A : Type) (P : A -> Prop) (p : A -> bool) l, Forall P l -> Forall P (filter p l).
Proof.
  induction l as [|x l IH]; cbn; intro H; [constructor|]. inversion H; subst.
  destruct (p x); [constructor; [assumption|]|]; apply IH; assumption.
Qed.

Lemma remove_fix : forall cur v, settled cur v -> remove_urn E cur v = cur.
Proof.
  intros cur v [H|H]; unfold remove_urn.
  - rewrite H. reflexivity.
  - destruct (has_urn E cur v); cbn [negb]; [|reflexivity]. apply filter_all.
    intros x Hx. rewrite Forall_forall in H. rewrite (H x Hx). reflexivity.
Qed.

Lemma remove_settles : forall cur v, settled (remove_urn E cur v) v.
Proof.
  intros cur v. unfold remove_urn. destruct (has_urn E cur v) eqn:Hh; cbn [negb]; [|left; exact Hh].
  right. apply Forall_forall. intros x Hx. apply filter_In in Hx. destruct Hx as [_ Hx].
  apply negb_true_iff in Hx. exact Hx.
Qed.

Lemma remove_keeps_settled : forall cur u v, settled cur v -> settled (remove_urn E cur u) v.
Proof.
  intros cur u v H. unfold remove_urn. destruct (negb (has_urn E cur u)); [exact H|].
  destruct H as [H|H]; [left; unfold has_urn in *; apply existsb_filter_false; exact H | right; apply Forall_filter'; exact H].
Qed.

Lemma step_remove_keeps : forall cur u v, settled cur v -> settled (urn_step E URemove cur u) v.
Proof.
  intros cur u v H. unfold urn_step. destruct (negb (urn_valid E (urn_normalize E u))); [exact H|].
  apply remove_keeps_settled. exact H.
Qed.

Lemma fold_remove_keeps : forall todo cur v, settled cur v -> settled (urns_fold E URemove todo cur) v.
Proof.
  induction todo as [|u todo IH]; intros cur v H; [exact H|]. cbn [urns_fold fold_left].
  apply IH. apply step_remove_keeps. exact H.
Qed.

Lemma fold_remove_all : forall todo cur u,
  In u todo -> urn_valid E (urn_normalize E u) = true -> settled (urns_fold E URemove todo cur) (urn_normalize E u).
Proof.
  induction todo as [|h todo IH]; intros cur u Hin Hv; [destruct Hin|].
  cbn [urns_fold fold_left]. destruct Hin as [e|Hin].
  - subst h. apply fold_remove_keeps. unfold urn_step. rewrite Hv. cbn [negb]. apply remove_settles.
  - apply IH; assumption.
Qed.

Lemma fold_remove_fix : forall todo cur,
  (forall u, In u todo -> urn_valid E (urn_normalize E u) = true -> settled cur (urn_normalize E u)) ->
  urns_fold E URemove todo cur = cur.
Proof.
  induction todo as [|h todo IH]; intros cur H; [reflexivity|]. cbn [urns_fold fold_left].
  assert (Hs : urn_step E URemove cur h = cur).
  { unfold urn_step. destruct (urn_valid E (urn_normalize E h)) eqn:Hv; cbn [negb]; [|reflexivity].
    apply remove_fix. apply H; [left; reflexivity | exact Hv]. }
  rewrite Hs. apply IH. intros u Hu. apply H. right. exact Hu.
Qed.

Lemma apply_urns_twice : forall us md c c1 evs b c2 evs2 b2 gs,
  mod_env_ok E (MURNs us md) c = true ->
  apply_urns E us md c = (c1, evs, b) ->
  apply_urns E us md (with_groups c1 gs) = (c2, evs2, b2) -> b2 = false.
Proof.
  intros us md c c1 evs b c2 evs2 b2 gs Hok H1 H2.
  unfold apply_urns in H1.
  destruct (urns_loop_spec E md us (match md with USet => [] | _ => c_urns c end) []) as [errs [HL _]].
  rewrite HL in H1. set (cur := urns_fold E md us (match md with USet => [] | _ => c_urns c end)) in *.
  assert (Hc1 : c_urns c1 = cur).
  { destruct (negb (listN_eqb (raw_urns (c_urns c)) (raw_urns cur))); inversion H1; subst; destruct c; reflexivity. }
  unfold apply_urns in H2.
  assert (Hu : c_urns (with_groups c1 gs) = cur) by (destruct c1; exact Hc1).
  rewrite Hu in H2.
  destruct (urns_loop_spec E md us (match md with USet => [] | _ => cur end) []) as [errs2 [HL2 _]].
  rewrite HL2 in H2.
  assert (Hfix : urns_fold E md us (match md with USet => [] | _ => cur end) = cur).
  { destruct md.
    - apply fold_append_fix. intros u Hin Hv. unfold cur. apply fold_append_all; [|exact Hin | exact Hv].
      cbn [mod_env_ok] in Hok. rewrite forallb_forall in Hok. apply Forall_forall. intros x Hx Hvx.
      specialize (Hok x Hx). rewrite Hvx in Hok. cbn [negb orb] in Hok. apply N.eqb_eq in Hok.
      rewrite (norm_fixed _ Hok). reflexivity.
    - apply fold_remove_fix. intros u Hin Hv. unfold cur. apply fold_remove_all; assumption.
    - reflexivity. }
  rewrite Hfix, listN_eqb_refl in H2. cbn [negb] in H2. inversion H2. reflexivity.
Qed.

(* ---- channel ----------------------------------------------------------------------------------------------- *)
Definition setch_ok (ch : option N) (u : N) : Prop :=
  urn_set_channel E ch (urn_set_channel E ch u) = urn_set_channel E ch u
  /\ urn_scheme E (urn_set_channel E ch u) = urn_scheme E u.

Lemma prefer_step_idem : forall k x, setch_ok (Some k) (cu_urn x) -> prefer_step E k (prefer_step E k x) = prefer_step E k x.
Proof.
  intros k [u ch] [H1 H2]. unfold prefer_step, set_channel. cbn [cu_urn cu_chan] in *.
  destruct (N.eqb (urn_scheme E u) (tel_scheme E) && chan_supports E k (tel_scheme E)) eqn:Ht;
    destruct ch as [j|]; destruct (chan_supports E k (urn_scheme E u)) eqn:Hs;
    do 4 (cbn [cu_urn cu_chan]; rewrite ?H2, ?Ht, ?Hs, ?H1); reflexivity.
Qed.

Lemma filter_partition_idem : forall (A : Type) (p : A -> bool) l,
  filter p (filter p l ++ filter (fun x => negb (p x)) l) = filter p l
  /\ filter (fun x => negb (p x)) (filter p l ++ filter (fun x => negb (p x)) l) = filter (fun x => negb (p x)) l.
Proof.
  intros A p l. rewrite !filter_app. split.
  - rewrite (filter_all _ p (filter p l)) by (intros x Hx; apply filter_In in Hx; tauto).
    assert (Hn : filter p (filter (fun x => negb (p x)) l) = []).
    { induction l as [|x l IH]; cbn; [reflexivity|]. destruct (p x) eqn:Hp; cbn; [|rewrite Hp]; exact IH. }
    rewrite Hn, app_nil_r. reflexivity.
  - rewrite (filter_all _ (fun x => negb (p x)) (filter (fun x => negb (p x)) l)) by (intros x Hx; apply filter_In in Hx; tauto).
    assert (Hn : filter (fun x => negb (p x)) (filter p l) = []).
    { induction l as [|x l IH]; cbn; [reflexivity|]. destruct (p x) eqn:Hp; cbn; [rewrite Hp; cbn|]; exact IH. }
    rewrite Hn. reflexivity.
Qed.

Lemma update_preferred_twice : forall ch us us' changed,
  Forall (fun x => setch_ok ch (cu_urn x)) us ->
  update_preferred_channel E ch us = (us', changed) ->
  snd (update_preferred_channel E ch us') = false.
Proof.
  intros ch us us' changed Hok H. unfold update_preferred_channel in *. destruct ch as [k|].
  - destruct (negb (chan_can_send E k)) eqn:Hs; [reflexivity|]. inversion H; subst us' changed. clear H.
    set (us1 := map (prefer_step E k) us).
    assert (Hmap : map (prefer_step E k) (filter (has_chan k) us1 ++ filter (fun u => negb (has_chan k u)) us1)
                   = filter (has_chan k) us1 ++ filter (fun u => negb (has_chan k u)) us1).
    { rewrite <- (map_id (filter (has_chan k) us1 ++ filter (fun u => negb (has_chan k u)) us1)) at 2.
      apply map_ext_in. intros y Hy. apply in_app_iff in Hy.
      assert (Hy1 : In y us1) by (destruct Hy as [Hy|Hy]; apply filter_In in Hy; tauto).
      unfold us1 in Hy1. apply in_map_iff in Hy1. destruct Hy1 as [x [Hx1 Hx2]]. subst y.
      apply prefer_step_idem. rewrite Forall_forall in Hok. apply Hok. exact Hx2. }
    cbn [snd]. rewrite Hmap.
    destruct (filter_partition_idem _ (has_chan k) us1) as [F1 F2]. rewrite F1, F2.
    unfold urns_equal. rewrite listN_eqb_refl. reflexivity.
  - inversion H; subst us' changed. cbn [snd]. unfold urns_equal.
    assert (Hr : raw_urns (map (set_channel E None) (map (set_channel E None) us)) = raw_urns (map (set_channel E None) us)).
    { unfold raw_urns. rewrite !map_map. apply map_ext_in. intros x Hx. cbn.
      rewrite Forall_forall in Hok. destruct (Hok x Hx) as [H1 _]. exact H1. }
    rewrite Hr, listN_eqb_refl. reflexivity.
Qed.

Lemma apply_channel_twice : forall ch c c1 evs b c2 evs2 b2 gs,
  mod_env_ok E (MChannel ch) c = true ->
  apply_channel E ch c = (c1, evs, b) ->
  apply_channel E ch (with_groups c1 gs) = (c2, evs2, b2) -> b2 = false.
Proof.
  intros ch c c1 evs b c2 evs2 b2 gs Hok H1 H2. unfold apply_channel in *.
  destruct (match ch with Some k => negb (chan_can_send E k) | None => false end).
  { inversion H2. reflexivity. }
  destruct (update_preferred_channel E ch (c_urns c)) as [us' changed] eqn:HU.
  assert (Hc1 : c_urns (with_groups c1 gs) = us').
  { destruct changed; inversion H1; subst; destruct c; reflexivity. }
  rewrite Hc1 in H2.
  assert (Hf : Forall (fun x => setch_ok ch (cu_urn x)) (c_urns c)).
  { cbn [mod_env_ok] in Hok. rewrite forallb_forall in Hok. apply Forall_forall. intros x Hx.
    assert (Hin : In (cu_urn x) (raw_urns (c_urns c))) by (unfold raw_urns; apply in_map; exact Hx).
    specialize (Hok _ Hin). apply andb_true_iff in Hok. destruct Hok as [K1 K2].
    apply N.eqb_eq in K1. apply N.eqb_eq in K2. split; assumption. }
  pose proof (update_preferred_twice ch (c_urns c) us' changed Hf HU) as Ht.
  destruct (update_preferred_channel E ch us') as [us'' changed2]. cbn [snd] in Ht. subst changed2.
  inversion H2. reflexivity.
Qed.

(* ---- fields: the parent location a value is resolved under is not the field being set ------------------- *)
Lemma ftype_eqb_eq : forall a b, ftype_eqb a b = true -> a = b.
Proof. destruct a, b; cbn; intro H; congruence || discriminate. Qed.

Lemma first_of_type_from_spec : forall ts i t k,
  first_of_type_from i ts t = Some k -> exists j : nat, k = i + N.of_nat j /\ nth j ts FText = t /\ (j < length ts)%nat.
Proof.
  induction ts as [|x ts IH]; cbn; intros i t k H; [discriminate|].
  destruct (ftype_eqb x t) eqn:Hx.
  - inversion H; subst. exists 0%nat. split; [lia|]. split; [apply ftype_eqb_eq; exact Hx | lia].
  - destruct (IH _ _ _ H) as [j [H1 [H2 H3]]]. exists (S j). split; [lia|]. split; [exact H2 | lia].
Qed.

Lemma first_of_type_type : forall t k, first_of_type E t = Some k -> field_type E k = t.
Proof.
  intros t k H. unfold first_of_type in H. destruct (first_of_type_from_spec _ _ _ _ H) as [j [H1 [H2 _]]].
  unfold field_type. subst k. rewrite N.add_0_l, Nnat.Nat2N.id. exact H2.
Qed.

Lemma parse_value_fset : forall f v fs raw, parse_value E (fset f v fs) f raw = parse_value E fs f raw.
Proof.
  intros f v fs raw. unfold parse_value. destruct raw as [|x raw]; [reflexivity|].
  assert (Hp : forall pt, parent_type (field_type E f) = Some pt ->
                          first_location_value E (fset f v fs) pt = first_location_value E fs pt).
  { intros pt Hpt. unfold first_location_value. destruct (first_of_type E pt) as [k|] eqn:Hk; [|reflexivity].
    assert (Hne : k <> f).
    { intro e. subst k. apply first_of_type_type in Hk. rewrite Hk in Hpt. destruct pt; discriminate. }
    rewrite fget_fset_other by exact Hne. reflexivity. }
  destruct (parent_type (field_type E f)) as [pt|]; [rewrite (Hp pt eq_refl)|]; reflexivity.
Qed.

Lemma apply_field_twice : forall f raw c c1 evs b c2 evs2 b2 gs,
  apply_field E f raw c = (c1, evs, b) ->
  apply_field E f raw (with_groups c1 gs) = (c2, evs2, b2) -> b2 = false.
Proof.
  intros f raw c c1 evs b c2 evs2 b2 gs H1 H2. unfold apply_field in *.
  set (new := parse_value E (c_fields c) f (truncate (max_field_chars E) raw)) in *.
  assert (Hst : stored new = new) by (unfold new; apply stored_parse).
  assert (Hfs : c_fields (with_groups c1 gs) = c_fields c1) by (destruct c1; reflexivity). rewrite Hfs in H2.
  assert (Hsame : parse_value E (c_fields c1) f (truncate (max_field_chars E) raw) = new
                  /\ fget f (c_fields c1) = new).
  { destruct (ofvalue_eqb new (fget f (c_fields c))) eqn:Heq; cbn [negb] in H1; inversion H1; subst c1 evs b.
    - apply ofvalue_eqb_eq in Heq. split; [reflexivity | symmetry; exact Heq].
    - assert (Hf : c_fields (with_fields c (fset f new (c_fields c))) = fset f new (c_fields c)) by (destruct c; reflexivity).
      rewrite Hf, parse_value_fset, fget_fset_same. split; [reflexivity | exact Hst]. }
  destruct Hsame as [S1 S2]. rewrite S1, S2, (proj2 (ofvalue_eqb_eq new new) eq_refl) in H2.
  cbn [negb] in H2. inversion H2. reflexivity.
Qed.

(* ---- groups ----------------------------------------------------------------------------------------------- *)
Lemma apply_groups_twice : forall gs md c c1 evs b c2 evs2 b2 gs',
  NoDup (c_groups c) -> NoDup gs' ->
  (is_active c1 = true -> forall g, uses_query E g = false -> (In g gs' <-> In g (c_groups c1))) ->
  apply_groups E gs md c = (c1, evs, b) ->
  apply_groups E gs md (with_groups c1 gs') = (c2, evs2, b2) -> b2 = false.
Proof.
  intros gs md c c1 evs b c2 evs2 b2 gs' Hnd Hnd' Hst H1 H2. unfold apply_groups in *.
  assert (Hs1 : c_status (with_groups c1 gs') = c_status c1) by (destruct c1; reflexivity).
  assert (Hg1 : c_groups (with_groups c1 gs') = gs') by (destruct c1; reflexivity).
  rewrite Hs1, Hg1 in H2.
  destruct (status_eqb (c_status c) Active) eqn:Hact; cbn [negb] in H1.
  2:{ inversion H1; subst c1. rewrite Hact in H2. cbn [negb] in H2. inversion H2. reflexivity. }
  destruct md.
  - destruct (groups_add_loop_spec E gs (c_groups c) [] []) as [d [errs [HL [_ [_ [H4 _]]]]]].
    rewrite HL in H1.
    assert (Hc1 : c_groups c1 = fold_left add_group d (c_groups c) /\ c_status c1 = c_status c).
    { destruct ([] ++ d); inversion H1; subst; destruct c; split; reflexivity. }
    destruct Hc1 as [Hc1 Hs]. rewrite Hs, Hact in H2. cbn [negb] in H2.
    destruct (groups_add_loop_spec E gs gs' [] []) as [d2 [errs2 [HL2 [_ [K3 _]]]]].
    rewrite HL2 in H2. destruct d2 as [|g d2]; [cbn [app] in H2; inversion H2; reflexivity|]. exfalso.
    destruct (K3 g (or_introl eq_refl)) as [Kt [Kq Kn]]. apply Kn.
    apply Hst; [unfold is_active; rewrite Hs; exact Hact | exact Kq |]. rewrite Hc1. apply H4; assumption.
  - destruct (groups_remove_loop_spec E gs (c_groups c) [] [] Hnd) as [d [errs [HL [_ [_ [_ [H4 _]]]]]]].
    rewrite HL in H1.
    assert (Hc1 : c_groups c1 = fold_left remove_group d (c_groups c) /\ c_status c1 = c_status c).
    { destruct ([] ++ d); inversion H1; subst; destruct c; split; reflexivity. }
    destruct Hc1 as [Hc1 Hs]. rewrite Hs, Hact in H2. cbn [negb] in H2.
    destruct (groups_remove_loop_spec E gs gs' [] [] Hnd') as [d2 [errs2 [HL2 [_ [_ [K3 _]]]]]].
    rewrite HL2 in H2. destruct d2 as [|g d2]; [cbn [app] in H2; inversion H2; reflexivity|]. exfalso.
    destruct (K3 g (or_introl eq_refl)) as [Kt [Kq Kin]].
    apply (H4 g Kt Kq). rewrite <- Hc1. apply Hst; [unfold is_active; rewrite Hs; exact Hact | exact Kq | exact Kin].
Qed.

(* ---- any modifier: the inner application after the first one (and its group re-evaluation) reports nothing --- *)
Lemma inner_twice : forall fresh fresh' m c c1 evs b c2 evs2 b2 gs',
  NoDup (c_groups c) -> NoDup gs' ->
  (is_active c1 = true -> forall g, uses_query E g = false -> (In g gs' <-> In g (c_groups c1))) ->
  mod_env_ok E m c = true ->
  apply_inner E fresh m c = (c1, evs, b) ->
  apply_inner E fresh' m (with_groups c1 gs') = (c2, evs2, b2) -> b2 = false.
Proof.
  intros fresh fresh' m c c1 evs b c2 evs2 b2 gs' Hnd Hnd' Hst Hok H1 H2.
  destruct m; cbn [apply_inner] in H1, H2.
  - unfold apply_name in *.
    assert (Hn : c_name (with_groups c1 gs') = truncate (max_field_chars E) n).
    { destruct (text_eqb (c_name c) (truncate (max_field_chars E) n)) eqn:Heq; cbn [negb] in H1; inversion H1; subst c1.
      - apply text_eqb_eq in Heq. destruct c; exact Heq.
      - destruct c; reflexivity. }
    rewrite Hn, text_eqb_refl in H2. inversion H2. reflexivity.
  - unfold apply_language in *.
    assert (Hn : c_lang (with_groups c1 gs') = l).
    { destruct (N.eqb (c_lang c) l) eqn:Heq; cbn [negb] in H1; inversion H1; subst c1.
      - apply N.eqb_eq in Heq. destruct c; exact Heq.
      - destruct c; reflexivity. }
    rewrite Hn, N.eqb_refl in H2. inversion H2. reflexivity.
  - unfold apply_status in *.
    assert (Hn : c_status (with_groups c1 gs') = s).
    { destruct (status_eqb (c_status c) s) eqn:Heq; cbn [negb] in H1; inversion H1; subst c1.
      - apply status_eqb_eq in Heq. destruct c; exact Heq.
      - destruct c; reflexivity. }
    rewrite Hn, (proj2 (status_eqb_eq s s) eq_refl) in H2. inversion H2. reflexivity.
  - unfold apply_timezone in *.
    assert (Hn : c_tz (with_groups c1 gs') = tz).
    { destruct (optN_eqb (c_tz c) tz) eqn:Heq; cbn [negb] in H1; inversion H1; subst c1.
      - apply optN_eqb_eq in Heq. destruct c; exact Heq.
      - destruct c; reflexivity. }
    rewrite Hn, (proj2 (optN_eqb_eq tz tz) eq_refl) in H2. inversion H2. reflexivity.
  - exact (apply_field_twice f raw c c1 evs b c2 evs2 b2 gs' H1 H2).
  - exact (apply_groups_twice gs md c c1 evs b c2 evs2 b2 gs' Hnd Hnd' Hst H1 H2).
  - exact (apply_urns_twice us md c c1 evs b c2 evs2 b2 gs' Hok H1 H2).
  - exact (apply_channel_twice ch c c1 evs b c2 evs2 b2 gs' Hok H1 H2).
  - unfold apply_ticket in *.
    assert (Hn : exists t, c_ticket (with_groups c1 gs') = Some t).
    { destruct (c_ticket c) as [t|] eqn:Ht; inversion H1; subst c1.
      - exists t. destruct c; exact Ht.
      - destruct c; eexists; reflexivity. }
    destruct Hn as [t Hn]. rewrite Hn in H2. inversion H2. reflexivity.
Qed.

(* C03, third clause: the second application of the same modifier reports nothing, emits no change event and
   leaves the contact as it is *)
Theorem idempotent : forall fresh fresh' m c c1 evs1 b1 c2 evs2 b2,
  wf_contact E c -> mod_wf E m -> mod_env_ok E m c = true ->
  apply E fresh m c = (c1, evs1, b1) ->
  apply E fresh' m c1 = (c2, evs2, b2) ->
  b2 = false /\ has_change_event evs2 = false /\ erase c2 = erase c1.
Proof.
  intros fresh fresh' m c c1 evs1 b1 c2 evs2 b2 Hwf Hm Hok H1 H2.
  assert (Hwf1 : wf_contact E c1).
  { destruct b1; [eapply after_modifier | eapply after_noop_modifier]; eassumption. }
  assert (Hb2 : b2 = false).
  { unfold apply in H1, H2.
    destruct (apply_inner E fresh m c) as [[ci evsi] bi] eqn:HI.
    destruct (apply_inner_spec E fresh m c ci evsi bi Hwf Hm HI) as [_ [_ [_ [_ Hwfi]]]].
    assert (Hshape : c1 = with_groups ci (c_groups c1)
                     /\ (is_active ci = true -> forall g, uses_query E g = false -> (In g (c_groups c1) <-> In g (c_groups ci)))).
    { destruct bi.
      - destruct (reevaluate_groups E ci) as [cr evr] eqn:HR. inversion H1; subst c1 evs1 b1.
        destruct (reevaluate_groups_spec E ci cr evr Hwfi HR) as [G1 [_ [_ [_ [_ [G6 _]]]]]].
        split; [exact G1|]. intros Hact g Hq. apply G6; [exact Hact|]. intros [_ Hu]. congruence.
      - inversion H1; subst c1 evs1 b1. split; [symmetry; apply with_groups_same | tauto]. }
    destruct Hshape as [Hs1 Hs2].
    destruct (apply_inner E fresh' m c1) as [[cj evsj] bj] eqn:HJ.
    assert (Hbj : bj = false).
    { rewrite Hs1 in HJ. destruct Hwf as [Hnd _]. destruct Hwf1 as [Hnd1 _].
      eapply (inner_twice fresh fresh' m c ci evsi bi cj evsj bj (c_groups c1)); eassumption. }
    subst bj. inversion H2. reflexivity. }
  subst b2. split; [reflexivity|].
  unfold apply in H2. destruct (apply_inner E fresh' m c1) as [[cj evsj] bj] eqn:HJ.
  destruct (apply_inner_spec E fresh' m c1 cj evsj bj Hwf1 Hm HJ) as [_ [K2 [K3 _]]].
  destruct bj; [destruct (reevaluate_groups E cj); inversion H2|]. inversion H2; subst c2 evs2.
  split; [exact K2 | apply K3; reflexivity].
Qed.

End Idem.

(* the premises are satisfiable (an appending URNs modifier and a channel modifier on a contact with URNs), and
   idempotence is false when the clock moves between the two applications: the second environment differs from the
   first only in what a date without time of day parses to (finding F3e, listed in KNOWN_FINDINGS.txt) *)
Definition ex_urn_contact : contact :=
  {| c_name := [106]; c_lang := 1; c_status := Active; c_tz := None; c_last_seen := None;
     c_urns := [{| cu_urn := 3; cu_chan := None |}]; c_groups := [0]; c_fields := []; c_ticket := None |}.

Example ex_env_ok : mod_env_ok ex_env (MURNs [3; 4] UAppend) ex_urn_contact = true
                    /\ mod_env_ok ex_env (MChannel (Some 2)) ex_urn_contact = true.
Proof. split; reflexivity. Qed.

Example ex_twice :
  apply ex_env 7 (MURNs [3; 4] UAppend) ex_urn_contact
  = (with_urns ex_urn_contact [{| cu_urn := 3; cu_chan := None |}; {| cu_urn := 4; cu_chan := None |}],
     [EURNsChanged [3; 4]], true).
Proof. reflexivity. Qed.

Definition with_parse_dt (E : menv) (p : text -> option N) : menv :=
  {| max_field_chars := max_field_chars E; urn_norm1 := urn_norm1 E; urn_valid := urn_valid E;
     urn_identity := urn_identity E; urn_scheme := urn_scheme E; urn_set_channel := urn_set_channel E;
     urn_channel := urn_channel E;
     tel_scheme := tel_scheme E; chan_can_send := chan_can_send E; chan_supports := chan_supports E;
     field_types := field_types E; parse_num := parse_num E; parse_dt := p; parse_loc := parse_loc E;
     all_groups := all_groups E; uses_query := uses_query E; matches := matches E |}.

Theorem idempotent_moving_clock_refuted :
  exists E p2 fresh m c c1 evs1 b1 c2 evs2,
    wf_contact E c /\ mod_wf E m /\ mod_env_ok E m c = true
    /\ apply E fresh m c = (c1, evs1, b1)
    /\ apply (with_parse_dt E p2) (fresh + 1) m c1 = (c2, evs2, true).
Proof.
  exists (with_parse_dt ex_env (fun _ => Some 1)), (fun _ => Some 2), 7, (MField 0 [50]), (ex_contact [106] [0]).
  eexists. eexists. eexists. eexists. eexists.
  split; [split; [repeat constructor; cbn; intuition discriminate | intros g [H|[]]; subst; cbn; tauto]|].
  split; [exact I|]. split; [reflexivity|]. split; reflexivity.
Qed.

(* MaxFieldChars = 0: a field value is truncated to nothing, which is no value — nothing is reported, announced
   or stored (before fix F3f the modifier reported a change and announced an empty value) *)
Definition with_max (E : menv) (n : N) : menv :=
  {| max_field_chars := n; urn_norm1 := urn_norm1 E; urn_valid := urn_valid E;
     urn_identity := urn_identity E; urn_scheme := urn_scheme E; urn_set_channel := urn_set_channel E;
     urn_channel := urn_channel E;
     tel_scheme := tel_scheme E; chan_can_send := chan_can_send E; chan_supports := chan_supports E;
     field_types := field_types E; parse_num := parse_num E; parse_dt := parse_dt E; parse_loc := parse_loc E;
     all_groups := all_groups E; uses_query := uses_query E; matches := matches E |}.

Example ex_zero_limit :
  apply (with_max ex_env 0) 7 (MField 0 [50]) (ex_contact [106] [0]) = (ex_contact [106] [0], [], false).
Proof. reflexivity. Qed.
