(* InspectProofs.v — proofs for property C20 (flow inspection over-approximates what a run can do).

   Specification (written from the property sentence, over the model of model/Inspect.v):
     result_covered f (name, cat)   the inspection of f has a result spec whose key is the key the run stores
                                    [name] under (snakify name), and [cat] is among its categories (or the result
                                    was saved without a category)
     In e (waiting_exits f)         e is listed as a waiting exit
     In r (dependencies f)          r is listed as a dependency
   and the executions they are stated for are ALL traces accepted by the step acceptor of the model
   ([accepts names A tr = true]), for ALL lists of flows A: induction over the trace, the nodes and the actions.

   The finite obligations over the source-derived table gen/ActionResults.v are at the end. *)
From Coq Require Import List NArith Bool String Ascii Lia.
From Verif Require Import model.ActionRow gen.ActionResults model.Inspect.
Import ListNotations.
Open Scope N_scope.

(* ------------------------------------------------------------------------------------------------ *)
(* texts and references: the boolean equalities decide equality *)

Lemma text_eqb_eq : forall a b, text_eqb a b = true <-> a = b.
Proof.
  induction a as [|x a IH]; destruct b as [|y b]; cbn [text_eqb]; split; intro H; try reflexivity; try discriminate.
  - apply andb_true_iff in H. destruct H as [H1 H2]. apply N.eqb_eq in H1. apply IH in H2. subst. reflexivity.
  - inversion H; subst. apply andb_true_iff. split; [apply N.eqb_refl | apply IH; reflexivity].
Qed.

Lemma text_eqb_refl : forall a, text_eqb a a = true.
Proof. intro a. apply text_eqb_eq. reflexivity. Qed.

Lemma eq_fold_refl : forall a, eq_fold a a = true.
Proof. intro a. unfold eq_fold. apply text_eqb_refl. Qed.

Lemma text_empty_nil : forall t, text_empty t = true <-> t = [].
Proof. destruct t; cbn; split; intro H; try reflexivity; discriminate. Qed.

Lemma existsb_text_In : forall c l, existsb (text_eqb c) l = true -> In c l.
Proof.
  intros c l H. apply existsb_exists in H. destruct H as [x [Hin Hx]]. apply text_eqb_eq in Hx. subst. exact Hin.
Qed.

Lemma akind_code_inj : forall a b, akind_code a = akind_code b -> a = b.
Proof. destruct a; destruct b; cbn; intro H; try reflexivity; discriminate. Qed.

Lemma aref_eqb_eq : forall a b, aref_eqb a b = true <-> a = b.
Proof.
  intros [ka ia] [kb ib]. unfold aref_eqb. cbn [r_kind r_id]. split; intro H.
  - apply andb_true_iff in H. destruct H as [H1 H2]. apply N.eqb_eq in H1. apply akind_code_inj in H1.
    apply text_eqb_eq in H2. subst. reflexivity.
  - inversion H; subst. apply andb_true_iff. split; [apply N.eqb_refl | apply text_eqb_refl].
Qed.

Lemma ref_in_In : forall r l, ref_in r l = true <-> In r l.
Proof.
  intros r l. unfold ref_in. split; intro H.
  - apply existsb_exists in H. destruct H as [x [Hin Hx]]. apply aref_eqb_eq in Hx. subst. exact Hin.
  - apply existsb_exists. exists r. split; [exact H | apply aref_eqb_eq; reflexivity].
Qed.

(* ------------------------------------------------------------------------------------------------ *)
(* NewResultSpecs: every extracted result info is covered by the merged specs *)

Lemma contains_exact_app_l : forall l l' c, contains_exact l c = true -> contains_exact (l ++ l') c = true.
Proof. intros l l' c H. unfold contains_exact in *. rewrite existsb_app. rewrite H. reflexivity. Qed.

Lemma contains_exact_self : forall l c, contains_exact (l ++ [c]) c = true.
Proof.
  intros l c. unfold contains_exact. rewrite existsb_app. cbn [existsb]. rewrite text_eqb_refl.
  rewrite orb_true_r. reflexivity.
Qed.

Lemma contains_exact_In : forall l c, contains_exact l c = true <-> In c l.
Proof.
  intros l c. unfold contains_exact. split; intro H.
  - apply existsb_text_In. exact H.
  - apply existsb_exists. exists c. split; [exact H | apply text_eqb_refl].
Qed.

Lemma merge_cats_keeps : forall new ex c, contains_exact ex c = true -> contains_exact (merge_cats ex new) c = true.
Proof.
  induction new as [|d new IH]; intros ex c H; cbn [merge_cats]; [exact H|].
  apply IH. destruct (contains_exact ex d); [exact H | apply contains_exact_app_l; exact H].
Qed.

Lemma merge_cats_adds : forall new ex c, In c new -> contains_exact (merge_cats ex new) c = true.
Proof.
  induction new as [|d new IH]; intros ex c H; [destruct H|].
  cbn [merge_cats]. destruct H as [H|H].
  - subst d. apply merge_cats_keeps. destruct (contains_exact ex c) eqn:E; [exact E | apply contains_exact_self].
  - apply IH. exact H.
Qed.

(* the specs cover info [i]: same key, and every category of [i] is listed, as the very string *)
Definition covers (specs : list result_spec) (i : result_info) : Prop :=
  exists s, In s specs /\ rs_key s = ri_key i /\ forall c, In c (ri_cats i) -> In c (rs_cats s).

Lemma merge_into_covers_new : forall specs nid i, covers (merge_into specs nid i) i.
Proof.
  induction specs as [|s rest IH]; intros nid i; cbn [merge_into].
  - eexists. split; [left; reflexivity|]. cbn [rs_key rs_cats]. split; [reflexivity|].
    intros c Hc. exact Hc.
  - destruct (text_eqb (rs_key s) (ri_key i)) eqn:E.
    + exists (merge_spec s nid i). split; [left; reflexivity|]. unfold merge_spec; cbn [rs_key rs_cats].
      split; [apply text_eqb_eq; exact E|]. intros c Hc. apply contains_exact_In. apply merge_cats_adds. exact Hc.
    + destruct (IH nid i) as [s0 [Hin H0]]. exists s0. split; [right; exact Hin | exact H0].
Qed.

Lemma merge_into_preserves : forall specs nid i j, covers specs j -> covers (merge_into specs nid i) j.
Proof.
  induction specs as [|s rest IH]; intros nid i j [s0 [Hin [Hk Hc]]]; [destruct Hin|].
  cbn [merge_into]. destruct (text_eqb (rs_key s) (ri_key i)) eqn:E.
  - destruct Hin as [Hin|Hin].
    + subst s0. exists (merge_spec s nid i). split; [left; reflexivity|]. unfold merge_spec; cbn [rs_key rs_cats].
      split; [exact Hk|]. intros c Hcin. apply contains_exact_In. apply merge_cats_keeps. apply contains_exact_In. apply Hc. exact Hcin.
    + exists s0. split; [right; exact Hin|]. split; assumption.
  - destruct Hin as [Hin|Hin].
    + subst s0. exists s. split; [left; reflexivity|]. split; assumption.
    + destruct (IH nid i j) as [s1 [Hin1 H1]]; [exists s0; split; [exact Hin|split; assumption]|].
      exists s1. split; [right; exact Hin1 | exact H1].
Qed.

Lemma fold_merge_covers : forall (rs : list (N * result_info)) acc j,
  covers acc j \/ In j (map snd rs) ->
  covers (fold_left (fun specs ni => merge_into specs (fst ni) (snd ni)) rs acc) j.
Proof.
  induction rs as [|[nid i] rs IH]; intros acc j H; cbn [fold_left].
  - destruct H as [H|H]; [exact H | destruct H].
  - apply IH. cbn [fst snd]. destruct H as [H|H].
    + left. apply merge_into_preserves. exact H.
    + cbn [map snd] in H. destruct H as [H|H].
      * subst j. left. apply merge_into_covers_new.
      * right. exact H.
Qed.

Lemma new_result_specs_covers : forall rs nid i, In (nid, i) rs -> covers (new_result_specs rs) i.
Proof.
  intros rs nid i H. unfold new_result_specs. apply fold_merge_covers. right.
  apply in_map_iff. exists (nid, i). split; [reflexivity | exact H].
Qed.

Lemma inspect_results_covers : forall f n i,
  In n (f_nodes f) -> In i (node_result_infos n) -> covers (inspect_results f) i.
Proof.
  intros f n i Hn Hi. unfold inspect_results. apply new_result_specs_covers with (nid := n_id n).
  unfold extract_results. apply in_flat_map. exists n. split; [exact Hn|].
  apply in_map_iff. exists i. split; [reflexivity | exact Hi].
Qed.

(* ---- and nothing else: the keys of the specs are pairwise different and each comes from a declaration *)

Definition has_key (specs : list result_spec) (k : text) : bool := existsb (fun s => text_eqb (rs_key s) k) specs.

Lemma has_key_In : forall specs k, has_key specs k = true <-> In k (map rs_key specs).
Proof.
  intros specs k. unfold has_key. split; intro H.
  - apply existsb_exists in H. destruct H as [s [Hs Hk]]. apply text_eqb_eq in Hk. subst k. apply in_map. exact Hs.
  - apply in_map_iff in H. destruct H as [s [Hk Hs]]. apply existsb_exists. exists s. split; [exact Hs|].
    apply text_eqb_eq. exact Hk.
Qed.

Lemma merge_into_keys : forall specs nid i,
  map rs_key (merge_into specs nid i)
  = if has_key specs (ri_key i) then map rs_key specs else (map rs_key specs ++ [ri_key i])%list.
Proof.
  induction specs as [|s rest IH]; intros nid i; cbn [merge_into has_key existsb map app]; [reflexivity|].
  destruct (text_eqb (rs_key s) (ri_key i)) eqn:E; cbn [orb map].
  - unfold merge_spec; cbn [rs_key]. reflexivity.
  - rewrite IH. unfold has_key. destruct (existsb (fun s0 => text_eqb (rs_key s0) (ri_key i)) rest); reflexivity.
Qed.

Lemma nodup_snoc : forall (l : list text) k, NoDup l -> ~ In k l -> NoDup (l ++ [k])%list.
Proof.
  induction l as [|x l IH]; intros k Hn Hk; cbn [app].
  - constructor; [intros []|constructor].
  - inversion Hn; subst. constructor.
    + intro Hin. apply in_app_or in Hin. destruct Hin as [Hin|[Hin|[]]]; [contradiction|]. subst k. apply Hk. left. reflexivity.
    + apply IH; [assumption|]. intro Hin. apply Hk. right. exact Hin.
Qed.

Lemma merge_into_nodup : forall specs nid i, NoDup (map rs_key specs) -> NoDup (map rs_key (merge_into specs nid i)).
Proof.
  intros specs nid i H. rewrite merge_into_keys. destruct (has_key specs (ri_key i)) eqn:E; [exact H|].
  apply nodup_snoc; [exact H|]. intro Hin. apply has_key_In in Hin. rewrite Hin in E. discriminate.
Qed.

Lemma fold_merge_keys : forall (rs : list (N * result_info)) acc,
  NoDup (map rs_key acc) ->
  NoDup (map rs_key (fold_left (fun specs ni => merge_into specs (fst ni) (snd ni)) rs acc))
  /\ forall k, In k (map rs_key (fold_left (fun specs ni => merge_into specs (fst ni) (snd ni)) rs acc)) ->
        In k (map rs_key acc) \/ In k (map (fun ni => ri_key (snd ni)) rs).
Proof.
  induction rs as [|[nid i] rs IH]; intros acc H; cbn [fold_left].
  - split; [exact H|]. intros k Hk. left. exact Hk.
  - destruct (IH (merge_into acc nid i) (merge_into_nodup acc nid i H)) as [H1 H2]. cbn [fst snd] in *.
    split; [exact H1|]. intros k Hk. destruct (H2 k Hk) as [Hin|Hin].
    + rewrite merge_into_keys in Hin. destruct (has_key acc (ri_key i)).
      * left. exact Hin.
      * apply in_app_or in Hin. destruct Hin as [Hin|[Hin|[]]]; [left; exact Hin|]. right. left. cbn [snd]. exact Hin.
    + right. right. exact Hin.
Qed.

Lemma inspect_results_exact : forall f,
  NoDup (map rs_key (inspect_results f))
  /\ forall s, In s (inspect_results f) ->
        exists n i, In n (f_nodes f) /\ In i (node_result_infos n) /\ rs_key s = ri_key i.
Proof.
  intro f. unfold inspect_results, new_result_specs.
  destruct (fold_merge_keys (extract_results f) [] (NoDup_nil _)) as [H1 H2]. split; [exact H1|].
  intros s Hs. destruct (H2 (rs_key s) (in_map rs_key _ s Hs)) as [[]|Hin].
  apply in_map_iff in Hin. destruct Hin as [[nid i] [Hk Hni]]. cbn [snd] in Hk.
  unfold extract_results in Hni. apply in_flat_map in Hni. destruct Hni as [n [Hn Hi]].
  apply in_map_iff in Hi. destruct Hi as [i' [Heq Hi]]. inversion Heq; subst.
  exists n, i. split; [exact Hn|]. split; [exact Hi | symmetry; exact Hk].
Qed.

(* ------------------------------------------------------------------------------------------------ *)
(* what an action or router can save, it declares *)

(* the obligation on a saver action type, read off the source-derived table through Inspect.sv_*: if executing
   it can save a result, it declares one, with every category it can save *)
Definition saver_ok (s : saver) : bool :=
  implb (sv_saves s) (sv_declares s && forallb (fun c => existsb (text_eqb c) (sv_decl_cats s)) (sv_save_cats s)).

Definition action_avoids_undeclared (a : action) : bool :=
  match a_behav a with BSaver s _ => saver_ok s | _ => true end.

Definition flows_avoid_undeclared (A : list flow) : bool :=
  forallb (fun f => forallb (fun n => forallb action_avoids_undeclared (n_actions n)) (f_nodes f)) A.

(* no open_ticket action anywhere in the flows *)
Definition action_not_open_ticket (a : action) : bool :=
  match a_behav a with BSaver SvOpenTicket _ => false | _ => true end.

Definition no_open_ticket (A : list flow) : bool :=
  forallb (fun f => forallb (fun n => forallb action_not_open_ticket (n_actions n)) (f_nodes f)) A.

(* finite obligation over the regenerated table: open_ticket is the ONLY saver action type that can save a
   result without declaring it (with all its categories) *)
Lemma saver_ok_table : forall s, saver_ok s = match s with SvOpenTicket => false | _ => true end.
Proof. destruct s; vm_compute; reflexivity. Qed.

Lemma no_open_ticket_avoids : forall A, no_open_ticket A = true -> flows_avoid_undeclared A = true.
Proof.
  intros A H. unfold no_open_ticket in H. unfold flows_avoid_undeclared.
  apply forallb_forall. intros f Hf. apply forallb_forall. intros n Hn. apply forallb_forall. intros a Ha.
  rewrite forallb_forall in H. specialize (H f Hf). rewrite forallb_forall in H. specialize (H n Hn).
  rewrite forallb_forall in H. specialize (H a Ha).
  unfold action_not_open_ticket in H. unfold action_avoids_undeclared.
  destruct (a_behav a) as [| | |s rn]; try reflexivity. rewrite saver_ok_table. destruct s; try reflexivity. discriminate.
Qed.

Definition nc_covered_by (i : result_info) (nc : text * text) : Prop :=
  ri_key i = snakify (fst nc) /\ (snd nc = [] \/ In (snd nc) (ri_cats i)).

Lemma valid_result_name_nonempty : forall t, valid_result_name t = true -> text_empty t = false.
Proof.
  intros t H. unfold valid_result_name in H. apply andb_true_iff in H. destruct H as [H _].
  apply andb_true_iff in H. destruct H as [H _]. apply negb_true_iff in H. exact H.
Qed.

Lemma action_can_save_declared : forall a nc,
  valid_action a = true -> action_avoids_undeclared a = true -> action_can_save a nc = true ->
  exists i, In i (action_result_infos a) /\ nc_covered_by i nc.
Proof.
  intros a [name cat] Hv Hu Hs. unfold action_can_save in Hs. unfold action_result_infos.
  unfold valid_action in Hv. unfold action_avoids_undeclared in Hu.
  destruct (a_behav a) as [|rname rcat| |s rn]; try discriminate.
  - cbn [fst snd] in Hs. apply andb_true_iff in Hs. destruct Hs as [H1 H2].
    apply text_eqb_eq in H1. apply text_eqb_eq in H2. subst.
    eexists. split; [left; reflexivity|]. unfold nc_covered_by, new_result_info; cbn [ri_key ri_cats fst snd].
    split; [reflexivity|]. destruct (text_empty rcat) eqn:E.
    + left. apply text_empty_nil. exact E.
    + right. left. reflexivity.
  - cbn [fst snd] in Hs.
    apply andb_true_iff in Hs. destruct Hs as [Hs Hcat]. apply andb_true_iff in Hs. destruct Hs as [Hs Hname].
    apply andb_true_iff in Hs. destruct Hs as [Hsaves Hguard].
    apply text_eqb_eq in Hname. subst name. apply existsb_text_In in Hcat.
    assert (Hne : text_empty rn = false).
    { destruct (sv_guarded s) eqn:G.
      - cbn [negb orb] in Hguard. apply negb_true_iff in Hguard. exact Hguard.
      - apply valid_result_name_nonempty. exact Hv. }
    unfold saver_ok in Hu. rewrite Hsaves in Hu. cbn [implb] in Hu. apply andb_true_iff in Hu. destruct Hu as [Hd Hc].
    rewrite Hd, Hne. cbn [negb andb].
    eexists. split; [left; reflexivity|]. unfold nc_covered_by, new_result_info; cbn [ri_key ri_cats fst snd].
    split; [reflexivity|]. right.
    rewrite forallb_forall in Hc. apply existsb_text_In. apply Hc. exact Hcat.
Qed.

Lemma router_can_save_declared : forall r ex nc,
  router_can_save r ex nc = true -> exists i, In i (router_result_infos r) /\ nc_covered_by i nc.
Proof.
  intros r ex [name cat] H. unfold router_can_save in H. cbn [fst snd] in H.
  apply andb_true_iff in H. destruct H as [H Hex]. apply andb_true_iff in H. destruct H as [Hne Hname].
  apply text_eqb_eq in Hname. subst name. unfold router_result_infos. rewrite Hne.
  eexists. split; [left; reflexivity|]. unfold nc_covered_by, new_result_info; cbn [ri_key ri_cats fst snd].
  split; [reflexivity|]. right. destruct ex as [e|]; [|discriminate].
  apply existsb_exists in Hex. destruct Hex as [c [Hc Hcc]]. apply andb_true_iff in Hcc. destruct Hcc as [Hn _].
  apply text_eqb_eq in Hn. subst cat. apply in_map. exact Hc.
Qed.

(* ------------------------------------------------------------------------------------------------ *)
(* the step acceptor *)

Lemma match_saves_sound : forall ems obs, match_saves ems obs = true ->
  forall o, In o obs -> exists e, In e ems /\ e o = true.
Proof.
  induction ems as [|e ems IH]; intros obs H o Ho.
  - destruct obs; [destruct Ho | discriminate].
  - destruct obs as [|o1 obs]; [destruct Ho|]. cbn [match_saves] in H. destruct (e o1) eqn:E.
    + destruct Ho as [Ho|Ho].
      * subst o1. exists e. split; [left; reflexivity | exact E].
      * destruct (IH obs H o Ho) as [e' [He' Heo]]. exists e'. split; [right; exact He' | exact Heo].
    + destruct (IH (o1 :: obs) H o Ho) as [e' [He' Heo]]. exists e'. split; [right; exact He' | exact Heo].
Qed.

Lemma lookup_flow_In : forall A id f, lookup_flow A id = Some f -> In f A.
Proof. intros A id f H. unfold lookup_flow in H. apply find_some in H. apply H. Qed.

Lemma lookup_node_In : forall f id n, lookup_node f id = Some n -> In n (f_nodes f).
Proof. intros f id n H. unfold lookup_node in H. apply find_some in H. apply H. Qed.

Record step_facts (names : list named) (A : list flow) (o : ostep) (f : flow) (n : node) : Prop := {
  sf_flow : lookup_flow A (os_flow o) = Some f;
  sf_node : In n (f_nodes f);
  sf_saves : match_saves (node_emitters n (os_exit o)) (os_saved o) = true;
  sf_touched : touched_ok names n (os_touched o) = true;
  sf_exit : exit_ok n o = true
}.

Lemma step_ok_facts : forall names A st o st', step_ok names A st o = Some st' -> exists f n, step_facts names A o f n.
Proof.
  intros names A st o st' H. unfold step_ok in H.
  destruct (lookup_flow A (os_flow o)) as [f|] eqn:Ef; [|discriminate].
  destruct (lookup_node f (os_node o)) as [n|] eqn:En; [|discriminate].
  destruct (position_ok A st f o && match_saves (node_emitters n (os_exit o)) (os_saved o)
            && touched_ok names n (os_touched o) && exit_ok n o) eqn:E; [|discriminate].
  apply andb_true_iff in E. destruct E as [E E4]. apply andb_true_iff in E. destruct E as [E E3].
  apply andb_true_iff in E. destruct E as [_ E2].
  exists f, n. constructor; try assumption. apply lookup_node_In with (id := os_node o). exact En.
Qed.

Lemma accepts_from_steps : forall names A tr st, accepts_from names A st tr = true ->
  forall o, In o tr -> exists f n, step_facts names A o f n.
Proof.
  induction tr as [|o1 tr IH]; intros st H o Ho; [destruct Ho|].
  cbn [accepts_from] in H. destruct (step_ok names A st o1) as [st'|] eqn:E; [|discriminate].
  destruct Ho as [Ho|Ho].
  - subst o1. apply step_ok_facts with (st := st) (st' := st'). exact E.
  - apply IH with (st := st'); assumption.
Qed.

Lemma valid_flows_node : forall A f n, forallb valid_flow A = true -> In f A -> In n (f_nodes f) -> valid_node n = true.
Proof.
  intros A f n H Hf Hn. rewrite forallb_forall in H. specialize (H f Hf). unfold valid_flow in H.
  rewrite forallb_forall in H. apply H. exact Hn.
Qed.

(* ------------------------------------------------------------------------------------------------ *)
(* results *)

Definition result_covered (f : flow) (nc : text * text) : Prop :=
  exists s, In s (inspect_results f) /\ rs_key s = snakify (fst nc)
            /\ (snd nc = [] \/ In (snd nc) (rs_cats s)).

(* a saved (name, category) that is exactly F16: saved by an open_ticket action of the flow under its result_name *)
Definition saved_by_open_ticket (f : flow) (nc : text * text) : Prop :=
  (exists n a, In n (f_nodes f) /\ In a (n_actions n) /\ a_behav a = BSaver SvOpenTicket (fst nc))
  /\ In (snd nc) (sv_save_cats SvOpenTicket).

(* every step of the trace is one the model can take (what [accepts] establishes, and what the executable engine
   of model/InspectExec.v establishes for its own traces) *)
Definition steps_ok (names : list named) (A : list flow) (tr : list ostep) : Prop :=
  forall o, In o tr -> exists f n, step_facts names A o f n.

Lemma accepts_steps_ok : forall names A tr, accepts names A tr = true -> steps_ok names A tr.
Proof. intros names A tr H o Ho. apply (accepts_from_steps names A tr [] H o Ho). Qed.

(* an action that can save (name, cat) either declares it, or is an open_ticket saving under its result_name *)
Lemma action_can_save_declared_or_f16 : forall a nc,
  valid_action a = true -> action_can_save a nc = true ->
  (exists i, In i (action_result_infos a) /\ nc_covered_by i nc)
  \/ (a_behav a = BSaver SvOpenTicket (fst nc) /\ In (snd nc) (sv_save_cats SvOpenTicket)).
Proof.
  intros a nc Hv Hs. destruct (action_avoids_undeclared a) eqn:Hu.
  - left. apply action_can_save_declared; assumption.
  - right. unfold action_avoids_undeclared in Hu. unfold action_can_save in Hs.
    destruct (a_behav a) as [| | |s rn]; try discriminate.
    rewrite saver_ok_table in Hu. destruct s; try discriminate.
    apply andb_true_iff in Hs. destruct Hs as [Hs Hcat]. apply andb_true_iff in Hs. destruct Hs as [_ Hname].
    apply text_eqb_eq in Hname. rewrite Hname. split; [reflexivity | apply existsb_text_In; exact Hcat].
Qed.

Lemma step_results_covered : forall names A o f n,
  forallb valid_flow A = true -> step_facts names A o f n ->
  forall nc, In nc (os_saved o) -> result_covered f nc \/ saved_by_open_ticket f nc.
Proof.
  intros names A o f n Hv F nc Hnc. destruct F as [Ff Fn Fs _ _].
  assert (HfA : In f A) by (apply lookup_flow_In with (id := os_flow o); exact Ff).
  assert (Hvn : valid_node n = true) by (apply valid_flows_node with (A := A) (f := f); assumption).
  destruct (match_saves_sound _ _ Fs nc Hnc) as [e [He Henc]].
  assert (Hinfo : (exists i, In i (node_result_infos n) /\ nc_covered_by i nc) \/ saved_by_open_ticket f nc).
  { unfold node_emitters in He. apply in_app_or in He. destruct He as [He|He].
    - apply in_map_iff in He. destruct He as [a [Hea Ha]]. subst e.
      unfold valid_node in Hvn. apply andb_true_iff in Hvn. destruct Hvn as [Hva _].
      rewrite forallb_forall in Hva.
      destruct (action_can_save_declared_or_f16 a nc (Hva a Ha) Henc) as [[i [Hi Hc]]|H16].
      + left. exists i. split; [|exact Hc]. unfold node_result_infos. apply in_or_app. left.
        apply in_flat_map. exists a. split; assumption.
      + right. destruct H16 as [H16 H16c]. split; [|exact H16c]. exists n, a. split; [exact Fn|]. split; [exact Ha | exact H16].
    - left. destruct (n_router n) as [r|] eqn:Er; [|destruct He]. destruct He as [He|He]; [|destruct He]. subst e.
      destruct (router_can_save_declared r (os_exit o) nc Henc) as [i [Hi Hc]].
      exists i. split; [|exact Hc]. unfold node_result_infos. apply in_or_app. right. rewrite Er. exact Hi. }
  destruct Hinfo as [[i [Hi [Hkey Hcat]]]|H16]; [left|right; exact H16].
  destruct (inspect_results_covers f n i Fn Hi) as [s [Hs [Hk Hc]]].
  exists s. split; [exact Hs|]. split; [rewrite Hk; exact Hkey|].
  destruct Hcat as [Hcat|Hcat]; [left; exact Hcat | right; apply Hc; exact Hcat].
Qed.

(* the sharp statement: every saved result is covered, or it is exactly an open_ticket's result (F16) *)
Lemma results_covered_or_f16_steps : forall names A tr,
  forallb valid_flow A = true -> steps_ok names A tr ->
  forall fid nc, In (fid, nc) (saved_results tr) ->
  exists f, lookup_flow A fid = Some f /\ (result_covered f nc \/ saved_by_open_ticket f nc).
Proof.
  intros names A tr Hv Hok fid nc Hin. unfold saved_results in Hin. apply in_flat_map in Hin.
  destruct Hin as [o [Ho Hnc]]. apply in_map_iff in Hnc. destruct Hnc as [nc' [Heq Hnc]].
  inversion Heq; subst fid nc'; clear Heq.
  destruct (Hok o Ho) as [f [n F]]. exists f. split; [apply (sf_flow _ _ _ _ _ F)|].
  apply step_results_covered with (names := names) (A := A) (o := o) (n := n); assumption.
Qed.

Lemma results_covered_or_f16 : forall names A tr,
  forallb valid_flow A = true -> accepts names A tr = true ->
  forall fid nc, In (fid, nc) (saved_results tr) ->
  exists f, lookup_flow A fid = Some f /\ (result_covered f nc \/ saved_by_open_ticket f nc).
Proof. intros names A tr Hv Hacc. apply results_covered_or_f16_steps with (names := names); [exact Hv | apply accepts_steps_ok; exact Hacc]. Qed.

(* corollary: flows without open_ticket actions *)
Lemma results_covered_partial : forall names A tr,
  forallb valid_flow A = true -> no_open_ticket A = true -> accepts names A tr = true ->
  forall fid nc, In (fid, nc) (saved_results tr) ->
  exists f, lookup_flow A fid = Some f /\ result_covered f nc.
Proof.
  intros names A tr Hv Hn Hacc fid nc Hin.
  destruct (results_covered_or_f16 names A tr Hv Hacc fid nc Hin) as [f [Hf [Hc|[[n [a [Hn' [Ha Hb]]]] _]]]].
  - exists f. split; assumption.
  - exfalso. unfold no_open_ticket in Hn. rewrite forallb_forall in Hn.
    specialize (Hn f (lookup_flow_In _ _ _ Hf)). rewrite forallb_forall in Hn. specialize (Hn n Hn').
    rewrite forallb_forall in Hn. specialize (Hn a Ha). unfold action_not_open_ticket in Hn. rewrite Hb in Hn.
    discriminate.
Qed.

(* ---- the full statement is false of the model: F16 *)

Definition t (s : string) : text := text_of_string s.

(* one node: open_ticket(result_name "Ticket") *)
Definition f16_flow : flow :=
  {| f_id := 0; f_uuid := t "f0";
     f_nodes := [ {| n_id := 1;
                     n_actions := [ {| a_items := [IRef {| r_kind := KTopic; r_id := t "t1" |}];
                                       a_behav := BSaver SvOpenTicket (t "Ticket") |} ];
                     n_router := None; n_exits := [ {| e_id := 1; e_dest := None |} ] |} ] |}.

Definition f16_trace : list ostep :=
  [ {| os_run := 0; os_parent := None; os_flow := 0; os_node := 1; os_saved := [(t "Ticket", t "Success")];
       os_touched := [ {| r_kind := KTopic; r_id := t "t1" |} ]; os_exit := Some 1; os_resumed := false |} ].

Lemma results_covered_refuted :
  exists A tr, forallb valid_flow A = true /\ accepts [] A tr = true /\
    exists fid nc f, In (fid, nc) (saved_results tr) /\ lookup_flow A fid = Some f /\ ~ result_covered f nc.
Proof.
  exists [f16_flow], f16_trace. split; [vm_compute; reflexivity|]. split; [vm_compute; reflexivity|].
  exists 0, (t "Ticket", t "Success"), f16_flow. split; [left; reflexivity|]. split; [reflexivity|].
  intros [s [Hs _]]. vm_compute in Hs. exact Hs.
Qed.

(* "among the listed ones" is literal: two declarations of one key whose categories differ in letter case are both
   listed (NewResultSpecs merges exact strings since the repair of the second hunt's finding) *)
Definition fold_flow : flow :=
  {| f_id := 0; f_uuid := t "f0";
     f_nodes := [ {| n_id := 1;
                     n_actions := [ {| a_items := []; a_behav := BSetRunResult (t "x") (t "Yes") |};
                                    {| a_items := []; a_behav := BSetRunResult (t "x") (t "yes") |} ];
                     n_router := None; n_exits := [ {| e_id := 1; e_dest := None |} ] |} ] |}.

Example case_variants_both_listed :
  map rs_cats (inspect_results fold_flow) = [[t "Yes"; t "yes"]].
Proof. vm_compute. reflexivity. Qed.

(* ------------------------------------------------------------------------------------------------ *)
(* waiting exits *)

Lemma exit_in_In : forall e exits, exit_in e exits = true -> In e (map e_id exits).
Proof.
  intros e exits H. unfold exit_in in H. apply existsb_exists in H. destruct H as [x [Hx He]].
  apply N.eqb_eq in He. subst e. apply in_map. exact Hx.
Qed.

Lemma waiting_exits_listed_steps : forall names A tr,
  forallb valid_flow A = true -> steps_ok names A tr ->
  forall fid e, In (fid, e) (resumed_exits tr) ->
  exists f, lookup_flow A fid = Some f /\ In e (waiting_exits f).
Proof.
  intros names A tr Hv Hacc fid e Hin. unfold resumed_exits in Hin. apply in_flat_map in Hin.
  destruct Hin as [o [Ho He]].
  destruct (os_exit o) as [e'|] eqn:Ee; [|destruct He]. destruct (os_resumed o) eqn:Er; [|destruct He].
  destruct He as [He|[]]. inversion He; subst fid e'; clear He.
  destruct (Hacc o Ho) as [f [n F]]. destruct F as [Ff Fn _ _ Fe].
  exists f. split; [exact Ff|].
  assert (HfA : In f A) by (apply lookup_flow_In with (id := os_flow o); exact Ff).
  assert (Hvn : valid_node n = true) by (apply valid_flows_node with (A := A) (f := f); assumption).
  unfold exit_ok in Fe. rewrite Er, Ee in Fe. cbn [negb orb] in Fe. apply andb_true_iff in Fe.
  destruct Fe as [Hw Hx]. unfold waiting_exits. apply in_flat_map. exists n. split; [exact Fn|]. rewrite Hw.
  unfold node_has_wait in Hw. unfold valid_node in Hvn. apply andb_true_iff in Hvn. destruct Hvn as [_ Hvr].
  destruct (n_router n) as [r|]; [|discriminate].
  apply andb_true_iff in Hvr. destruct Hvr as [_ Hcats].
  apply existsb_exists in Hx. destruct Hx as [c [Hc Hce]]. apply N.eqb_eq in Hce. subst e.
  rewrite forallb_forall in Hcats. apply exit_in_In. apply Hcats. exact Hc.
Qed.

Lemma waiting_exits_listed : forall names A tr,
  forallb valid_flow A = true -> accepts names A tr = true ->
  forall fid e, In (fid, e) (resumed_exits tr) ->
  exists f, lookup_flow A fid = Some f /\ In e (waiting_exits f).
Proof. intros names A tr Hv Hacc. apply waiting_exits_listed_steps with (names := names); [exact Hv | apply accepts_steps_ok; exact Hacc]. Qed.

(* conversely the list is exact: only exits of nodes whose router has a wait *)
Lemma waiting_exits_only_waits : forall f e, In e (waiting_exits f) ->
  exists n, In n (f_nodes f) /\ node_has_wait n = true /\ In e (map e_id (n_exits n)).
Proof.
  intros f e H. unfold waiting_exits in H. apply in_flat_map in H. destruct H as [n [Hn He]].
  exists n. split; [exact Hn|]. destruct (node_has_wait n); [split; [reflexivity | exact He] | destruct He].
Qed.

(* ------------------------------------------------------------------------------------------------ *)
(* dependencies *)

Lemma dedup_refs_keeps : forall l seen r, In r l -> In r seen \/ In r (dedup_refs seen l).
Proof.
  induction l as [|x l IH]; intros seen r H; [destruct H|]. cbn [dedup_refs].
  destruct (ref_in x seen) eqn:E.
  - destruct H as [H|H].
    + subst x. left. apply ref_in_In. exact E.
    + apply IH. exact H.
  - destruct H as [H|H].
    + subst x. right. left. reflexivity.
    + destruct (IH (x :: seen) r H) as [H1|H1].
      * destruct H1 as [H1|H1]; [subst x; right; left; reflexivity | left; exact H1].
      * right. right. exact H1.
Qed.

Lemma dedup_refs_sub : forall l seen r, In r (dedup_refs seen l) -> In r l /\ ~ In r seen.
Proof.
  induction l as [|x l IH]; intros seen r H; [destruct H|]. cbn [dedup_refs] in H.
  destruct (ref_in x seen) eqn:E.
  - destruct (IH seen r H) as [H1 H2]. split; [right; exact H1 | exact H2].
  - destruct H as [H|H].
    + subst x. split; [left; reflexivity|]. intro Hs. apply ref_in_In in Hs. rewrite Hs in E. discriminate.
    + destruct (IH (x :: seen) r H) as [H1 H2]. split; [right; exact H1|]. intro Hs. apply H2. right. exact Hs.
Qed.

Lemma dedup_refs_nodup : forall l seen, NoDup (dedup_refs seen l).
Proof.
  induction l as [|x l IH]; intros seen; cbn [dedup_refs]; [constructor|].
  destruct (ref_in x seen); [apply IH|]. constructor; [|apply IH].
  intro H. apply dedup_refs_sub in H. destruct H as [_ H]. apply H. left. reflexivity.
Qed.

(* an asset a node of the flow touches without a fixed reference to it being written there (hunt findings 2, 3):
   named by an expression-free name_match / email_match / legacy_vars value, or the default topic of open_ticket *)
Definition touched_implicitly (names : list named) (f : flow) (r : aref) : Prop :=
  exists n, In n (f_nodes f) /\ In r (node_implicit_refs names n).

(* the sharp statement: a reference a step carries is a dependency, or is exactly such an implicitly named asset *)
Lemma dependencies_or_implicit_steps : forall names A tr,
  steps_ok names A tr ->
  forall fid r, In (fid, r) (assets_touched tr) ->
  exists f, lookup_flow A fid = Some f
    /\ ((In r (dependencies f) /\ ref_variable r = false) \/ touched_implicitly names f r).
Proof.
  intros names A tr Hacc fid r Hin. unfold assets_touched in Hin. apply in_flat_map in Hin.
  destruct Hin as [o [Ho Hr]]. apply in_map_iff in Hr. destruct Hr as [r' [Heq Hr]].
  inversion Heq; subst fid r'; clear Heq.
  destruct (Hacc o Ho) as [f [n F]]. destruct F as [Ff Fn _ Ft _].
  exists f. split; [exact Ff|].
  unfold touched_ok in Ft. rewrite forallb_forall in Ft. specialize (Ft r Hr). apply orb_true_iff in Ft.
  destruct Ft as [Ft|Ft]; apply ref_in_In in Ft.
  - left.
    assert (Hfix : ref_variable r = false).
    { unfold node_asset_refs, keep_fixed in Ft. apply filter_In in Ft. destruct Ft as [_ Ft].
      apply negb_true_iff in Ft. exact Ft. }
    split; [|exact Hfix]. unfold dependencies.
    destruct (dedup_refs_keeps (extract_refs f) [] r) as [H|H]; [|destruct H|exact H].
    unfold extract_refs. apply in_flat_map. exists n. split; assumption.
  - right. exists n. split; assumption.
Qed.

Lemma dependencies_or_implicit : forall names A tr,
  accepts names A tr = true ->
  forall fid r, In (fid, r) (assets_touched tr) ->
  exists f, lookup_flow A fid = Some f
    /\ ((In r (dependencies f) /\ ref_variable r = false) \/ touched_implicitly names f r).
Proof. intros names A tr Hacc. apply dependencies_or_implicit_steps. apply accepts_steps_ok. exact Hacc. Qed.

(* corollary: when no name of the flows denotes an asset (no literal name_match / email_match / legacy_vars value
   naming an existing asset, no open_ticket without topic where a topic "General" exists) every carried reference
   is a dependency *)
Definition no_implicit (names : list named) (A : list flow) : Prop :=
  forall f n, In f A -> In n (f_nodes f) -> node_implicit_refs names n = [].

Lemma dependencies_listed_partial : forall names A tr,
  no_implicit names A -> accepts names A tr = true ->
  forall fid r, In (fid, r) (assets_touched tr) ->
  exists f, lookup_flow A fid = Some f /\ In r (dependencies f) /\ ref_variable r = false.
Proof.
  intros names A tr Hno Hacc fid r Hin.
  destruct (dependencies_or_implicit names A tr Hacc fid r Hin) as [f [Hf [H|[n [Hn Hr]]]]].
  - exists f. split; [exact Hf | exact H].
  - exfalso. rewrite (Hno f n (lookup_flow_In _ _ _ Hf) Hn) in Hr. destruct Hr.
Qed.

(* the full statement (every carried reference is a dependency) is false of the model.  One witness per listed known
   class, each the input of its known: line; [dependency_gap k names f tr] pins the kind of the asset and that it is
   one the flow names implicitly *)
Definition dependency_gap (k : akind) (names : list named) (f : flow) (tr : list ostep) : Prop :=
  forallb valid_flow [f] = true /\ accepts names [f] tr = true /\
  exists r, In (f_id f, r) (assets_touched tr) /\ r_kind r = k /\ ~ In r (dependencies f)
            /\ touched_implicitly names f r.

Definition ts (s : string) : text := text_of_string s.
Definition lit (s : string) : tpl := {| t_raw := ts s; t_paths := []; t_literal := true |}.
Definition one_node (acts : list action) : flow :=
  {| f_id := 0; f_uuid := ts "f0";
     f_nodes := [ {| n_id := 1; n_actions := acts; n_router := None; n_exits := [ {| e_id := 1; e_dest := None |} ] |} ] |}.
Definition one_step (saved : list (text * text)) (r : aref) : list ostep :=
  [ {| os_run := 0; os_parent := None; os_flow := 0; os_node := 1; os_saved := saved; os_touched := [r];
       os_exit := Some 1; os_resumed := false |} ].

(* class touched-asset-not-a-dependency:topic:default-topic — open_ticket without topic, assets have "General" *)
Definition w_default_topic : flow := one_node [ {| a_items := []; a_behav := BSaver SvOpenTicket (ts "Ticket") |} ].
(* class …:group:literal-name_match — add_contact_groups groups [{"name_match": "Group 1"}] *)
Definition w_group_name_match : flow := one_node [ {| a_items := [IVar KGroup (lit "Group 1")]; a_behav := BPlain |} ].
(* class …:label:literal-name_match — add_input_labels labels [{"name_match": "label 0"}], the label is "Label 0" *)
Definition w_label_name_match : flow := one_node [ {| a_items := [IVar KLabel (lit "label 0")]; a_behav := BPlain |} ].
(* class …:user:literal-email_match — open_ticket with a topic and assignee {"email_match": "bob@acme.io"} *)
Definition w_user_email_match : flow :=
  one_node [ {| a_items := [IRef {| r_kind := KTopic; r_id := ts "t1" |}; IVar KUser (lit "bob@acme.io")];
                a_behav := BSaver SvOpenTicket (ts "Ticket") |} ].
(* class …:group:literal-legacy_var — send_broadcast legacy_vars [" Group 2 "] *)
Definition w_legacy_var : flow :=
  one_node [ {| a_items := [ILegacy {| tf_vals := [lit " Group 2 "]; tf_trans := [] |}]; a_behav := BPlain |} ].

Definition nm (k : akind) (name id : string) : named := {| nm_kind := k; nm_name := ts name; nm_id := ts id |}.

Ltac gap_witness names tr r :=
  exists names, tr; split; [vm_compute; reflexivity|]; split; [vm_compute; reflexivity|];
  exists r; split; [left; reflexivity|]; split; [reflexivity|]; split;
  [let H := fresh "H" in intro H; vm_compute in H; intuition discriminate
  | eexists; split; [left; reflexivity | vm_compute; left; reflexivity]].

Lemma gap_default_topic : exists names tr, dependency_gap KTopic names w_default_topic tr.
Proof.
  gap_witness [nm KTopic "General" "topic-0"]
              (one_step [(ts "Ticket", ts "Success")] {| r_kind := KTopic; r_id := ts "topic-0" |})
              {| r_kind := KTopic; r_id := ts "topic-0" |}.
Qed.

Lemma gap_group_name_match :
  no_open_ticket [w_group_name_match] = true /\ exists names tr, dependency_gap KGroup names w_group_name_match tr.
Proof.
  split; [vm_compute; reflexivity|].
  gap_witness [nm KGroup "Group 1" "g-1"] (one_step [] {| r_kind := KGroup; r_id := ts "g-1" |})
              {| r_kind := KGroup; r_id := ts "g-1" |}.
Qed.

Lemma gap_label_name_match :
  no_open_ticket [w_label_name_match] = true /\ exists names tr, dependency_gap KLabel names w_label_name_match tr.
Proof.
  split; [vm_compute; reflexivity|].
  gap_witness [nm KLabel "Label 0" "l-0"] (one_step [] {| r_kind := KLabel; r_id := ts "l-0" |})
              {| r_kind := KLabel; r_id := ts "l-0" |}.
Qed.

Lemma gap_user_email_match : exists names tr, dependency_gap KUser names w_user_email_match tr.
Proof.
  gap_witness [nm KUser "bob@acme.io" "bob@acme.io"]
              (one_step [(ts "Ticket", ts "Success")] {| r_kind := KUser; r_id := ts "bob@acme.io" |})
              {| r_kind := KUser; r_id := ts "bob@acme.io" |}.
Qed.

Lemma gap_legacy_var :
  no_open_ticket [w_legacy_var] = true /\ exists names tr, dependency_gap KGroup names w_legacy_var tr.
Proof.
  split; [vm_compute; reflexivity|].
  gap_witness [nm KGroup "Group 2" "g-2"] (one_step [] {| r_kind := KGroup; r_id := ts "g-2" |})
              {| r_kind := KGroup; r_id := ts "g-2" |}.
Qed.

(* users are looked up by the exact email: another spelling names nobody *)
Example user_email_is_exact :
  node_implicit_refs [nm KUser "bob@acme.io" "bob@acme.io"]
    {| n_id := 1; n_actions := [ {| a_items := [IVar KUser (lit "Bob@Acme.io")]; a_behav := BPlain |} ];
       n_router := None; n_exits := [] |} = [].
Proof. vm_compute. reflexivity. Qed.

(* the dependency list has no duplicates and nothing that is not written in the flow *)
Lemma dependencies_exact : forall f,
  NoDup (dependencies f) /\ forall r, In r (dependencies f) -> exists n, In n (f_nodes f) /\ In r (node_asset_refs n).
Proof.
  intro f. split; [apply dedup_refs_nodup|]. intros r H. unfold dependencies in H.
  apply dedup_refs_sub in H. destruct H as [H _]. unfold extract_refs in H. apply in_flat_map in H. exact H.
Qed.

(* ------------------------------------------------------------------------------------------------ *)
(* the hypotheses are satisfiable, by an execution that saves results (action, router and timeout), leaves a
   wait through a resumed step, enters a subflow and touches assets *)

Definition ex_parent : flow :=
  {| f_id := 0; f_uuid := t "parent";
     f_nodes := [
       {| n_id := 1;
          n_actions := [ {| a_items := [IRef {| r_kind := KGroup; r_id := t "g1" |}]; a_behav := BPlain |};
                         {| a_items := []; a_behav := BSetRunResult (t "My Result") (t "Yes") |} ];
          n_router := Some {| rt_switch := true; rt_operand := {| t_raw := t "@input.text"; t_paths := [[t "input"; t "text"]]; t_literal := false |};
                              rt_cases := []; rt_default := Some 1; rt_result_name := t "Color";
                              rt_categories := [ {| c_id := 1; c_name := t "Other"; c_exit := 1 |};
                                                 {| c_id := 2; c_name := t "No Response"; c_exit := 2 |} ];
                              rt_wait := Some (Some 2); rt_wait_tpls := [] |};
          n_exits := [ {| e_id := 1; e_dest := Some 2 |}; {| e_id := 2; e_dest := None |} ] |};
       {| n_id := 2;
          n_actions := [ {| a_items := [IRef {| r_kind := KFlow; r_id := t "child" |}]; a_behav := BEnterFlow (t "child") false |} ];
          n_router := None; n_exits := [ {| e_id := 3; e_dest := None |} ] |} ] |}.

Definition ex_child : flow :=
  {| f_id := 1; f_uuid := t "child";
     f_nodes := [ {| n_id := 3;
                     n_actions := [ {| a_items := []; a_behav := BSaver SvCallWebhook (t "Hook") |} ];
                     n_router := None; n_exits := [ {| e_id := 4; e_dest := None |} ] |} ] |}.

Definition ex_trace : list ostep :=
  [ {| os_run := 0; os_parent := None; os_flow := 0; os_node := 1;
       os_saved := [(t "My Result", t "Yes"); (t "Color", t "No Response")];
       os_touched := [ {| r_kind := KGroup; r_id := t "g1" |} ]; os_exit := Some 2; os_resumed := true |} ].

Definition ex_trace2 : list ostep :=
  [ {| os_run := 0; os_parent := None; os_flow := 0; os_node := 1;
       os_saved := [(t "Color", t "Other")]; os_touched := []; os_exit := Some 1; os_resumed := true |};
    {| os_run := 0; os_parent := None; os_flow := 0; os_node := 2;
       os_saved := []; os_touched := [ {| r_kind := KFlow; r_id := t "child" |} ]; os_exit := Some 3; os_resumed := false |};
    {| os_run := 1; os_parent := Some 0; os_flow := 1; os_node := 3;
       os_saved := [(t "Hook", t "Failure")]; os_touched := []; os_exit := Some 4; os_resumed := false |} ].

Example hypotheses_satisfiable :
  forallb valid_flow [ex_parent; ex_child] = true /\ no_open_ticket [ex_parent; ex_child] = true
  /\ accepts [] [ex_parent; ex_child] ex_trace = true /\ accepts [] [ex_parent; ex_child] ex_trace2 = true
  /\ List.length (saved_results ex_trace) = 2%nat /\ List.length (resumed_exits ex_trace) = 1%nat
  /\ List.length (assets_touched ex_trace2) = 1%nat /\ List.length (saved_results ex_trace2) = 2%nat.
Proof. vm_compute. repeat split; reflexivity. Qed.

(* the acceptor rejects what the engine cannot do: a result under a name no action of the node has, an exit no
   category points to, a resumed step on a node without wait, an asset not written in the node *)
Example acceptor_rejects :
  accepts [] [ex_parent; ex_child]
    [ {| os_run := 0; os_parent := None; os_flow := 0; os_node := 1; os_saved := [(t "Other Name", t "Yes")];
         os_touched := []; os_exit := Some 1; os_resumed := true |} ] = false
  /\ accepts [] [ex_parent; ex_child]
    [ {| os_run := 0; os_parent := None; os_flow := 0; os_node := 1; os_saved := [(t "Color", t "Other")];
         os_touched := []; os_exit := Some 2; os_resumed := true |} ] = false
  /\ accepts [] [ex_parent; ex_child]
    [ {| os_run := 0; os_parent := None; os_flow := 1; os_node := 3; os_saved := [];
         os_touched := []; os_exit := Some 4; os_resumed := true |} ] = false
  /\ accepts [] [ex_parent; ex_child]
    [ {| os_run := 0; os_parent := None; os_flow := 0; os_node := 1; os_saved := [];
         os_touched := [ {| r_kind := KGroup; r_id := t "g2" |} ]; os_exit := Some 1; os_resumed := false |} ] = false.
Proof. vm_compute. repeat split; reflexivity. Qed.

(* ------------------------------------------------------------------------------------------------ *)
(* finite obligations over the regenerated table gen/ActionResults.v (ALL action and router types in the source) *)

Definition is_open_ticket_row (r : action_row) : bool :=
  String.eqb (ar_kind r) "action" && String.eqb (ar_type r) "open_ticket".

Lemma forallb_false_exists : forall (X : Type) (p : X -> bool) l, forallb p l = false -> exists x, In x l /\ p x = false.
Proof.
  induction l as [|x l IH]; intro H; [discriminate|]. cbn [forallb] in H. destruct (p x) eqn:E.
  - destruct (IH H) as [y [Hy Hp]]. exists y. split; [right; exact Hy | exact Hp].
  - exists x. split; [left; reflexivity | exact E].
Qed.

(* full statement "every type that can save a result declares it": false on the current source *)
Lemma actions_declare_refuted : exists r, In r action_results /\ row_declares_what_it_saves r = false.
Proof. apply forallb_false_exists. vm_compute. reflexivity. Qed.

(* ... and the open_ticket row is the only one it fails for *)
Lemma actions_declare_partial : forall r, In r action_results ->
  is_open_ticket_row r = false -> row_declares_what_it_saves r = true.
Proof.
  assert (H : forallb (fun r => is_open_ticket_row r || row_declares_what_it_saves r) action_results = true)
    by (vm_compute; reflexivity).
  intros r Hr Hn. rewrite forallb_forall in H. specialize (H r Hr). rewrite Hn in H. exact H.
Qed.

(* every type of the table that can save a result is one the model knows: the five saver actions, set_run_result
   and the two routers — a new saving type in the source breaks this until the model is extended *)
Definition modelled_saving_types : list (string * string) :=
  [ ("action", "set_run_result"); ("router", "switch"); ("router", "random") ]
  ++ map (fun s => ("action", saver_type s)) all_savers.

Definition row_is_modelled (r : action_row) : bool :=
  existsb (fun kt => String.eqb (fst kt) (ar_kind r) && String.eqb (snd kt) (ar_type r)) modelled_saving_types.

Lemma saving_types_modelled : forall r, In r action_results -> ar_saves r = true -> row_is_modelled r = true.
Proof.
  assert (H : forallb (fun r => implb (ar_saves r) (row_is_modelled r)) action_results = true) by (vm_compute; reflexivity).
  intros r Hr Hs. rewrite forallb_forall in H. specialize (H r Hr). rewrite Hs in H. exact H.
Qed.

(* and conversely every saver type of the model is a row of the table (so sv_* read real rows, not defaults), and
   every result is written through one of the three known doors *)
Lemma savers_have_rows : forall s, row_of s <> None.
Proof. destruct s; vm_compute; discriminate. Qed.

(* "the only doors" (go/types census over the whole module): every use of Run.SaveResult / Results.Save and every
   index assignment on a flows.Results is inside the Results type itself, in run.SaveResult, or in a function of
   flows/actions / flows/routers that is statically reached from the Execute / Route / RouteTimeout of a
   registered type (and therefore accounted for in that type's row, see rows_complete) *)
Definition site_known (sc : string * string) : bool :=
  let c := snd sc in
  String.eqb c "action-sink" || String.eqb c "router-sink" || String.eqb c "run.SaveResult"
  || String.eqb c "Results.Save" || String.eqb c "Results.Clone".

Lemma save_sites_known : save_result_sites <> [] /\ forall sc, In sc save_result_sites -> site_known sc = true.
Proof.
  split; [vm_compute; discriminate|].
  assert (H : forallb site_known save_result_sites = true) by (vm_compute; reflexivity).
  intros s Hs. rewrite forallb_forall in H. apply H. exact Hs.
Qed.

(* completeness of the table: for every registered type the syntactic extraction (names, categories, guards) visited
   exactly the uses of door-containing functions and the doors that go/types finds statically reachable from its
   Execute / Route / RouteTimeout — a save through a helper function, a method of a member, a method value or a
   second sink makes the two lists differ *)
Lemma rows_complete : forall r, In r action_results -> row_complete r = true.
Proof.
  assert (H : forallb row_complete action_results = true) by (vm_compute; reflexivity).
  intros r Hr. rewrite forallb_forall in H. apply H. exact Hr.
Qed.

(* Inspect.sv_guarded (hand-written: which savers save only when result_name is non-empty) and the guard of the
   declaration that Inspect.action_result_infos hard-codes (result_name non-empty) are what the source says *)
Definition guarded_in_table (s : saver) : bool :=
  match row_of s with
  | Some r => negb (match ar_save_guards r with [] => true | _ => false end)
              && forallb (str_in "NAME_NONEMPTY") (ar_save_guards r)
  | None => false
  end.

Lemma sv_guarded_table : forall s, sv_guarded s = guarded_in_table s.
Proof. destruct s; vm_compute; reflexivity. Qed.

Definition decl_guard_in_table (s : saver) : list (list string) :=
  match row_of s with Some r => ar_decl_guards r | None => [] end.

Lemma decl_guard_table : forall s, sv_declares s = true -> decl_guard_in_table s = [["NAME_NONEMPTY"]]%string.
Proof. destruct s; vm_compute; intro H; try reflexivity; discriminate. Qed.

Lemma guards_as_in_source : forall s,
  sv_guarded s = guarded_in_table s
  /\ (sv_declares s = true -> decl_guard_in_table s = [["NAME_NONEMPTY"]]%string).
Proof. intro s. split; [apply sv_guarded_table | apply decl_guard_table]. Qed.
