(* proofs/CqlParserProofs.v — the token parser of model/CqlParser.v: more fuel never changes a result, the fuel
   [parse_tokens] supplies always suffices (PFuel is unreachable), and a big-step description of the parses used
   for formatted queries. *)
From Coq Require Import List Arith NArith Bool Lia.
From Verif Require Import lib.RegexLM model.CqlSyntax gen.GrammarCQL model.CqlPrinter model.CqlParser.
Import ListNotations.
Close Scope N_scope.

Ltac tlia := unfold token in *; lia.

(* ---- unfolding lemmas ------------------------------------------------------------------------------------ *)

Definition primary (f : nat) (ts : list token) : pres ast :=
  match ts with
  | [] => PErr
  | (k, t) :: r =>
      if tkind_eqb k LPAREN then
        match parse_expr f 0 r with
        | POk e ((k2, _) :: r2) => if tkind_eqb k2 RPAREN then POk e r2 else PErr
        | POk _ [] => PErr
        | PErr => PErr
        | PFuel => PFuel
        end
      else if tkind_eqb k PROPERTY then
        match r with
        | (k2, t2) :: r2 =>
            if tkind_eqb k2 COMPARATOR then
              match r2 with
              | (k3, t3) :: r3 => if is_lit k3 then POk (ACond t t2 (k3, t3)) r3 else PErr
              | [] => PErr
              end
            else POk (AImplicit (k, t)) r
        | [] => POk (AImplicit (k, t)) r
        end
      else if is_lit k then POk (AImplicit (k, t)) r
      else PErr
  end.

Lemma parse_expr_S f p ts :
  parse_expr (S f) p ts = match primary f ts with POk e r => parse_loop f p e r | other => other end.
Proof.
  change (parse_expr (S f) p ts)
    with (let prim := primary f ts in match prim with POk e r => parse_loop f p e r | _ => prim end).
  cbv zeta. destruct (primary f ts); reflexivity.
Qed.

Lemma parse_loop_S f p left ts :
  parse_loop (S f) p left ts =
  match ts with
  | [] => POk left []
  | (k, _) :: r =>
      if tkind_eqb k AND then
        if Nat.leb p prec_and then
          match parse_expr f (S prec_and) r with
          | POk e r2 => parse_loop f p (ABin BAnd left e) r2
          | other => other
          end
        else POk left ts
      else if tkind_eqb k OR then
        if Nat.leb p prec_or then
          match parse_expr f (S prec_or) r with
          | POk e r2 => parse_loop f p (ABin BOr left e) r2
          | other => other
          end
        else POk left ts
      else if starts_primary k then
        if Nat.leb p prec_juxt then
          match parse_expr f (S prec_juxt) ts with
          | POk e r2 => parse_loop f p (ABin BAnd left e) r2
          | other => other
          end
        else POk left ts
      else POk left ts
  end.
Proof. reflexivity. Qed.

(* ---- more fuel never changes a result ------------------------------------------------------------------- *)

Definition settled {A} (r : pres A) : Prop := r <> PFuel.

Lemma fuel_mono : forall f,
  (forall p ts, settled (parse_expr f p ts) -> forall f', f <= f' -> parse_expr f' p ts = parse_expr f p ts)
  /\ (forall p l ts, settled (parse_loop f p l ts) -> forall f', f <= f' -> parse_loop f' p l ts = parse_loop f p l ts).
Proof.
  induction f as [|f [IHe IHl]].
  - split; intros; exfalso; apply H; reflexivity.
  - assert (Hprim : forall ts, settled (primary f ts) -> forall f', f <= f' -> primary f' ts = primary f ts).
    { intros ts Hs f' Hf. unfold primary in *. destruct ts as [|[k t] r]; [reflexivity|].
      destruct (tkind_eqb k LPAREN); [|reflexivity].
      assert (Hs' : settled (parse_expr f 0 r)).
      { intros E. rewrite E in Hs. apply Hs. reflexivity. }
      rewrite (IHe 0 r Hs' f' Hf). reflexivity. }
    split.
    + intros p ts Hs f' Hf. destruct f' as [|f']; [lia|]. rewrite !parse_expr_S in *.
      assert (Hp : settled (primary f ts)).
      { intros E. rewrite E in Hs. apply Hs. reflexivity. }
      rewrite (Hprim ts Hp f') by lia.
      destruct (primary f ts) as [| |e r]; try reflexivity. apply IHl; [exact Hs|lia].
    + intros p l ts Hs f' Hf. destruct f' as [|f']; [lia|]. rewrite !parse_loop_S in *.
      destruct ts as [|[k t] r]; [reflexivity|].
      assert (Hstep : forall pp b tt,
                settled (match parse_expr f pp tt with POk e r2 => parse_loop f p (ABin b l e) r2 | other => other end) ->
                match parse_expr f' pp tt with POk e r2 => parse_loop f' p (ABin b l e) r2 | other => other end
                = match parse_expr f pp tt with POk e r2 => parse_loop f p (ABin b l e) r2 | other => other end).
      { intros pp b tt Hs'.
        assert (He : settled (parse_expr f pp tt)).
        { intros E. rewrite E in Hs'. apply Hs'. reflexivity. }
        rewrite (IHe pp tt He f') by lia.
        destruct (parse_expr f pp tt) as [| |e r2]; try reflexivity. apply IHl; [exact Hs'|lia]. }
      destruct (tkind_eqb k AND).
      { destruct (Nat.leb p prec_and); [|reflexivity]. apply Hstep. exact Hs. }
      destruct (tkind_eqb k OR).
      { destruct (Nat.leb p prec_or); [|reflexivity]. apply Hstep. exact Hs. }
      destruct (starts_primary k); [|reflexivity].
      destruct (Nat.leb p prec_juxt); [|reflexivity]. apply Hstep. exact Hs.
Qed.

(* ---- the fuel of parse_tokens always suffices ------------------------------------------------------------- *)

(* a successful parse_expr consumes at least one token; parse_loop never returns more than it got *)
Lemma progress : forall f,
  (forall p ts e r, parse_expr f p ts = POk e r -> length r < length ts)
  /\ (forall p l ts e r, parse_loop f p l ts = POk e r -> length r <= length ts).
Proof.
  induction f as [|f [IHe IHl]]; [split; intros; discriminate|].
  assert (Hprim : forall ts e r, primary f ts = POk e r -> length r < length ts).
  { intros ts e r H. unfold primary in H. destruct ts as [|[k t] r0]; [discriminate|]. cbn [length].
    destruct (tkind_eqb k LPAREN).
    - destruct (parse_expr f 0 r0) as [| |e0 [|[k2 t2] r2]] eqn:E; try discriminate.
      destruct (tkind_eqb k2 RPAREN); [|discriminate]. inversion H; subst.
      apply IHe in E. cbn [length] in E. tlia.
    - destruct (tkind_eqb k PROPERTY).
      + destruct r0 as [|[k2 t2] r2]; [inversion H; subst; cbn [length]; tlia|].
        destruct (tkind_eqb k2 COMPARATOR).
        * destruct r2 as [|[k3 t3] r3]; [discriminate|]. destruct (is_lit k3); [|discriminate].
          inversion H; subst. cbn [length]. tlia.
        * inversion H; subst. cbn [length]. tlia.
      + destruct (is_lit k); [|discriminate]. inversion H; subst. tlia. }
  split.
  - intros p ts e r H. rewrite parse_expr_S in H.
    destruct (primary f ts) as [| |e0 r0] eqn:E; try discriminate.
    apply Hprim in E. apply IHl in H. tlia.
  - intros p l ts e r H. rewrite parse_loop_S in H.
    destruct ts as [|[k t] r0]; [inversion H; subst; tlia|].
    assert (Hstep : forall pp b tt, length tt <= length ((k, t) :: r0) ->
              match parse_expr f pp tt with POk e1 r2 => parse_loop f p (ABin b l e1) r2 | other => other end = POk e r ->
              length r <= length ((k, t) :: r0)).
    { intros pp b tt Hlen H'. destruct (parse_expr f pp tt) as [| |e1 r2] eqn:E; try discriminate.
      apply IHe in E. apply IHl in H'. tlia. }
    destruct (tkind_eqb k AND).
    { destruct (Nat.leb p prec_and); [|inversion H; subst; tlia]. eapply Hstep; [|exact H]. cbn [length]. tlia. }
    destruct (tkind_eqb k OR).
    { destruct (Nat.leb p prec_or); [|inversion H; subst; tlia]. eapply Hstep; [|exact H]. cbn [length]. tlia. }
    destruct (starts_primary k); [|inversion H; subst; tlia].
    destruct (Nat.leb p prec_juxt); [|inversion H; subst; tlia]. eapply Hstep; [|exact H]. tlia.
Qed.

Lemma fuel_enough : forall f,
  (forall p ts, 2 * length ts + 1 <= f -> settled (parse_expr f p ts))
  /\ (forall p l ts, 2 * length ts + 2 <= f -> settled (parse_loop f p l ts)).
Proof.
  induction f as [|f [IHe IHl]]; [split; intros; tlia|].
  destruct (progress f) as [Pe Pl].
  assert (Hprim : forall ts, 2 * length ts <= f -> settled (primary f ts)).
  { intros ts Hf. unfold primary. destruct ts as [|[k t] r]; [discriminate|]. cbn [length] in Hf.
    destruct (tkind_eqb k LPAREN).
    - assert (Hs : settled (parse_expr f 0 r)) by (apply IHe; tlia).
      destruct (parse_expr f 0 r) as [| |e [|[k2 t2] r2]]; try discriminate; [exfalso; apply Hs; reflexivity|].
      destruct (tkind_eqb k2 RPAREN); discriminate.
    - destruct (tkind_eqb k PROPERTY).
      + destruct r as [|[k2 t2] r2]; [discriminate|]. destruct (tkind_eqb k2 COMPARATOR); [|discriminate].
        destruct r2 as [|[k3 t3] r3]; [discriminate|]. destruct (is_lit k3); discriminate.
      + destruct (is_lit k); discriminate. }
  assert (Hprim_len : forall ts e r, primary f ts = POk e r -> length r < length ts).
  { intros ts e r H. destruct f as [|f0].
    - (* no fuel was needed: the primary did not recurse *)
      assert (E : parse_expr 1 0 ts = parse_loop 0 0 e r) by (rewrite parse_expr_S, H; reflexivity).
      unfold primary in H. destruct ts as [|[k t] r0]; [discriminate|]. cbn [length].
      destruct (tkind_eqb k LPAREN); [discriminate|].
      destruct (tkind_eqb k PROPERTY).
      + destruct r0 as [|[k2 t2] r2]; [inversion H; subst; cbn [length]; tlia|].
        destruct (tkind_eqb k2 COMPARATOR).
        * destruct r2 as [|[k3 t3] r3]; [discriminate|]. destruct (is_lit k3); [|discriminate].
          inversion H; subst. cbn [length]. tlia.
        * inversion H; subst. cbn [length]. tlia.
      + destruct (is_lit k); [|discriminate]. inversion H; subst. tlia.
    - destruct (progress (S f0)) as [Pe' _].
      (* reuse progress at one more unit of fuel through a loop that stops at once is awkward; redo the cases *)
      unfold primary in H. destruct ts as [|[k t] r0]; [discriminate|]. cbn [length].
      destruct (tkind_eqb k LPAREN).
      + destruct (parse_expr (S f0) 0 r0) as [| |e0 [|[k2 t2] r2]] eqn:E; try discriminate.
        destruct (tkind_eqb k2 RPAREN); [|discriminate]. inversion H; subst.
        apply Pe' in E. cbn [length] in E. tlia.
      + destruct (tkind_eqb k PROPERTY).
        * destruct r0 as [|[k2 t2] r2]; [inversion H; subst; cbn [length]; tlia|].
          destruct (tkind_eqb k2 COMPARATOR).
          -- destruct r2 as [|[k3 t3] r3]; [discriminate|]. destruct (is_lit k3); [|discriminate].
             inversion H; subst. cbn [length]. tlia.
          -- inversion H; subst. cbn [length]. tlia.
        * destruct (is_lit k); [|discriminate]. inversion H; subst. tlia. }
  split.
  - intros p ts Hf. rewrite parse_expr_S.
    assert (Hp : settled (primary f ts)) by (apply Hprim; tlia).
    destruct (primary f ts) as [| |e r] eqn:E; try discriminate; [exfalso; apply Hp; reflexivity|].
    apply Hprim_len in E. apply IHl. tlia.
  - intros p l ts Hf. rewrite parse_loop_S. destruct ts as [|[k t] r]; [discriminate|].
    assert (Hstep : forall pp b tt, 2 * length tt + 1 <= f ->
              settled (match parse_expr f pp tt with POk e r2 => parse_loop f p (ABin b l e) r2 | other => other end)).
    { intros pp b tt H1.
      assert (He : settled (parse_expr f pp tt)) by (apply IHe; exact H1).
      destruct (parse_expr f pp tt) as [| |e r2] eqn:E; try discriminate; [exfalso; apply He; reflexivity|].
      apply Pe in E. apply IHl. tlia. }
    cbn [length] in Hf.
    destruct (tkind_eqb k AND).
    { destruct (Nat.leb p prec_and); [|discriminate]. apply Hstep; cbn [length]; tlia. }
    destruct (tkind_eqb k OR).
    { destruct (Nat.leb p prec_or); [|discriminate]. apply Hstep; cbn [length]; tlia. }
    destruct (starts_primary k); [|discriminate].
    destruct (Nat.leb p prec_juxt); [|discriminate]. apply Hstep; cbn [length]; tlia.
Qed.

(* the parser never runs out of the fuel parse_tokens gives it *)
Theorem parse_tokens_total : forall ts, parse_tokens ts <> PFuel.
Proof.
  intros ts. unfold parse_tokens.
  destruct (fuel_enough (4 * length ts + 4)) as [He _].
  specialize (He 0 ts ltac:(tlia)).
  destruct (parse_expr (4 * length ts + 4) 0 ts) as [| |e [|x r]]; try discriminate. exfalso. apply He. reflexivity.
Qed.

(* a result established with any amount of fuel is the result of parse_tokens *)
Lemma parse_tokens_by : forall ts f a, parse_expr f 0 ts = POk a [] -> parse_tokens ts = POk a [].
Proof.
  intros ts f a H. unfold parse_tokens.
  destruct (fuel_enough (4 * length ts + 4)) as [He _]. specialize (He 0 ts ltac:(tlia)).
  destruct (Nat.le_ge_cases f (4 * length ts + 4)) as [Hle|Hge].
  - destruct (fuel_mono f) as [M _]. rewrite (M 0 ts) by (try (rewrite H; discriminate); exact Hle). rewrite H. reflexivity.
  - destruct (fuel_mono (4 * length ts + 4)) as [M _]. rewrite <- (M 0 ts He f Hge). rewrite H. reflexivity.
Qed.

(* ---- big-step description of the parses of formatted queries --------------------------------------------- *)

Inductive Expr : nat -> list token -> ast -> list token -> Prop :=
| expr_group : forall p t r e t2 r2 a r',
    Expr 0 r e ((RPAREN, t2) :: r2) -> Loop p e r2 a r' -> Expr p ((LPAREN, t) :: r) a r'
| expr_cond : forall p t t2 k3 t3 r a r',
    is_lit k3 = true -> Loop p (ACond t t2 (k3, t3)) r a r' ->
    Expr p ((PROPERTY, t) :: (COMPARATOR, t2) :: (k3, t3) :: r) a r'
with Loop : nat -> ast -> list token -> ast -> list token -> Prop :=
| loop_end : forall p l, Loop p l [] l []
| loop_rparen : forall p l t r, Loop p l ((RPAREN, t) :: r) l ((RPAREN, t) :: r)
| loop_and : forall p l t r e r2 a r3,
    p <= prec_and -> Expr (S prec_and) r e r2 -> Loop p (ABin BAnd l e) r2 a r3 -> Loop p l ((AND, t) :: r) a r3
| loop_and_stop : forall p l t r, prec_and < p -> Loop p l ((AND, t) :: r) l ((AND, t) :: r)
| loop_or : forall p l t r e r2 a r3,
    p <= prec_or -> Expr (S prec_or) r e r2 -> Loop p (ABin BOr l e) r2 a r3 -> Loop p l ((OR, t) :: r) a r3
| loop_or_stop : forall p l t r, prec_or < p -> Loop p l ((OR, t) :: r) l ((OR, t) :: r).

Scheme Expr_mut := Induction for Expr Sort Prop
  with Loop_mut := Induction for Loop Sort Prop.
Combined Scheme ExprLoop_ind from Expr_mut, Loop_mut.

Lemma big_step_sound :
  (forall p ts a r, Expr p ts a r -> exists f0, forall f, f0 <= f -> parse_expr f p ts = POk a r)
  /\ (forall p l ts a r, Loop p l ts a r -> exists f0, forall f, f0 <= f -> parse_loop f p l ts = POk a r).
Proof.
  apply ExprLoop_ind.
  - (* group *)
    intros p t r e t2 r2 a r' _ [f1 H1] _ [f2 H2]. exists (S (Nat.max f1 f2)). intros f Hf.
    destruct f as [|f]; [lia|]. rewrite parse_expr_S. unfold primary.
    change (tkind_eqb LPAREN LPAREN) with true. cbv iota.
    rewrite (H1 f) by lia. change (tkind_eqb RPAREN RPAREN) with true. cbv iota. apply H2. lia.
  - (* condition *)
    intros p t t2 k3 t3 r a r' Hlit _ [f2 H2]. exists (S f2). intros f Hf.
    destruct f as [|f]; [lia|]. rewrite parse_expr_S. unfold primary.
    change (tkind_eqb PROPERTY LPAREN) with false. change (tkind_eqb PROPERTY PROPERTY) with true.
    change (tkind_eqb COMPARATOR COMPARATOR) with true. cbv iota. rewrite Hlit. apply H2. lia.
  - intros p l. exists 1. intros f Hf. destruct f as [|f]; [lia|]. reflexivity.
  - intros p l t r. exists 1. intros f Hf. destruct f as [|f]; [lia|]. reflexivity.
  - intros p l t r e r2 a r3 Hp _ [f1 H1] _ [f2 H2]. exists (S (Nat.max f1 f2)). intros f Hf.
    destruct f as [|f]; [lia|]. rewrite parse_loop_S. change (tkind_eqb AND AND) with true. cbv iota.
    replace (Nat.leb p prec_and) with true by (symmetry; apply Nat.leb_le; exact Hp).
    rewrite (H1 f) by lia. apply H2. lia.
  - intros p l t r Hp. exists 1. intros f Hf. destruct f as [|f]; [lia|]. rewrite parse_loop_S.
    change (tkind_eqb AND AND) with true. cbv iota.
    replace (Nat.leb p prec_and) with false by (symmetry; apply Nat.leb_gt; exact Hp). reflexivity.
  - intros p l t r e r2 a r3 Hp _ [f1 H1] _ [f2 H2]. exists (S (Nat.max f1 f2)). intros f Hf.
    destruct f as [|f]; [lia|]. rewrite parse_loop_S.
    change (tkind_eqb OR AND) with false. change (tkind_eqb OR OR) with true. cbv iota.
    replace (Nat.leb p prec_or) with true by (symmetry; apply Nat.leb_le; exact Hp).
    rewrite (H1 f) by lia. apply H2. lia.
  - intros p l t r Hp. exists 1. intros f Hf. destruct f as [|f]; [lia|]. rewrite parse_loop_S.
    change (tkind_eqb OR AND) with false. change (tkind_eqb OR OR) with true. cbv iota.
    replace (Nat.leb p prec_or) with false by (symmetry; apply Nat.leb_gt; exact Hp). reflexivity.
Qed.

Lemma expr_parse_tokens : forall ts a, Expr 0 ts a [] -> parse_tokens ts = POk a [].
Proof.
  intros ts a H. destruct big_step_sound as [S _]. destruct (S 0 ts a [] H) as [f0 Hf].
  eapply parse_tokens_by. apply (Hf f0). lia.
Qed.
