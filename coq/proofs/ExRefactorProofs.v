(* ExRefactorProofs.v — C11, second sentence.
   (1) The scanner with SetUnescapeBody(false) is lossless: re-wrapping its tokens gives back the template, so a
       transformation that reports "unchanged" makes refactor.Template return the template verbatim.
   (2) ContextRefRename changes exactly the context references that are EqualFold to `from`. *)
From Coq Require Import List NArith Bool Arith Lia.
From Verif Require Import lib.Quote model.ExSyntax model.ExLexer model.ExParser model.ExPrinter model.ExScanner
  model.ExRefactor proofs.ExScannerBound proofs.ExScannerProofs proofs.ExPrintProofs.
Import ListNotations.
Open Scope N_scope.

Section Lossless.
Variable isln : rune -> bool.
Variable lower : rune -> rune.
Hypothesis isln_eof : isln eof = false.

Notation name_char := (is_name_char isln).

(* step equations of p_body (stated with an abstract tail so that unfolding stops) *)
Lemma pb_other ue c r : c <> r_at ->
  p_body isln ue (c :: r) = (c :: fst (p_body isln ue r), snd (p_body isln ue r)).
Proof.
  intros Hc. cbn [p_body]. destruct (N.eqb_spec c r_at); [contradiction|]. destruct (p_body isln ue r); reflexivity.
Qed.

Lemma pb_at_end ue : p_body isln ue [r_at] = ([r_at], []).
Proof. reflexivity. Qed.

Lemma pb_at_stop ue d r : (d =? r_lparen) = true \/ ((d =? r_lparen) = false /\ (d =? r_at) = false /\ name_char d = true) ->
  p_body isln ue (r_at :: d :: r) = ([], r_at :: d :: r).
Proof.
  intros H. cbn [p_body]. change (r_at =? r_at) with true. cbv iota.
  destruct H as [-> | (-> & -> & ->)]; reflexivity.
Qed.

Lemma pb_at_at ue r :
  p_body isln ue (r_at :: r_at :: r) =
  (r_at :: (if ue then fst (p_body isln ue r) else r_at :: fst (p_body isln ue r)), snd (p_body isln ue r)).
Proof.
  cbn [p_body]. change (r_at =? r_at) with true. change (r_at =? r_lparen) with false. cbv iota.
  destruct (p_body isln ue r); reflexivity.
Qed.

Lemma pb_at_lit ue d r : (d =? r_lparen) = false -> (d =? r_at) = false -> name_char d = false ->
  p_body isln ue (r_at :: d :: r) = (r_at :: d :: fst (p_body isln ue r), snd (p_body isln ue r)).
Proof.
  intros H1 H2 H3. cbn [p_body]. change (r_at =? r_at) with true. cbv iota. rewrite H1, H2, H3.
  destruct (p_body isln ue r); reflexivity.
Qed.

(* scanBody without unescaping writes exactly what it consumes *)
Lemma p_body_lossless : forall w, w = fst (p_body isln false w) ++ snd (p_body isln false w).
Proof.
  induction w as [|c|c d r IH1 IH2] using list_ind2.
  - reflexivity.
  - destruct (N.eqb_spec c r_at) as [->|Hc]; [reflexivity|]. rewrite pb_other by exact Hc. reflexivity.
  - destruct (N.eqb_spec c r_at) as [->|Hc].
    + destruct (d =? r_lparen) eqn:EL; [rewrite pb_at_stop by (left; exact EL); reflexivity|].
      destruct (d =? r_at) eqn:EA.
      * apply N.eqb_eq in EA. subst d. rewrite pb_at_at. cbn [fst snd app]. rewrite <- IH1. reflexivity.
      * destruct (name_char d) eqn:EN; [rewrite pb_at_stop by (right; auto); reflexivity|].
        rewrite pb_at_lit by assumption. cbn [fst snd app]. rewrite <- IH1. reflexivity.
    + rewrite pb_other by exact Hc. cbn [fst snd app]. rewrite <- IH2. reflexivity.
Qed.

(* scanIdentifier: the identifier is a prefix of the input *)
Definition ident_pre (w buf : text) (x : text * text * text) : Prop :=
  let '(b', _, k) := x in exists idp, b' = buf ++ idp /\ w = idp ++ k.

Lemma ident_pre_stop w buf top : ident_pre w buf (buf, top, w).
Proof. exists []. rewrite app_nil_r. auto. Qed.

Lemma p_ident_lossless : forall w buf top, ident_pre w buf (p_ident isln w buf top).
Proof.
  induction w as [|c|c d r IH1 IH2] using list_ind2; intros buf top.
  - apply ident_pre_stop.
  - destruct (N.eqb_spec c r_dot) as [->|Hd].
    + rewrite p_ident_dot_stop by exact I. apply ident_pre_stop.
    + destruct (name_char c) eqn:EN.
      * rewrite p_ident_name by assumption. cbn [p_ident]. exists [c]. auto.
      * rewrite p_ident_stop by assumption. apply ident_pre_stop.
  - destruct (N.eqb_spec c r_dot) as [->|Hd].
    + destruct (name_char d) eqn:EN.
      * rewrite p_ident_dot_name by exact EN.
        specialize (IH1 (buf ++ [r_dot; d]) (if text_eqb top [] then buf else top)).
        destruct (p_ident isln r (buf ++ [r_dot; d]) _) as [[b' t'] k]. destruct IH1 as (idp & -> & ->).
        exists (r_dot :: d :: idp). rewrite <- app_assoc. auto.
      * rewrite p_ident_dot_stop by exact EN. apply ident_pre_stop.
    + destruct (name_char c) eqn:EN.
      * rewrite p_ident_name by assumption. specialize (IH2 (buf ++ [c]) top).
        destruct (p_ident isln (d :: r) (buf ++ [c]) top) as [[b' t'] k]. destruct IH2 as (idp & -> & Hw).
        exists (c :: idp). rewrite <- app_assoc. cbn [app]. rewrite <- Hw. auto.
      * rewrite p_ident_stop by assumption. apply ident_pre_stop.
Qed.

(* scanExpression: either the expression is closed (parens = 0) and the input is what was written, the closing
   parenthesis and the rest; or the input ran out and everything was written *)
Lemma p_expr_lossless : forall w m p, (1 <= p)%nat ->
  let '(o, p', k) := p_expr m p w in
  (p' = O -> w = o ++ r_rparen :: k) /\ (p' <> O -> w = o /\ k = []).
Proof.
  induction w as [|c w IH]; intros m p Hp.
  - cbn. split; [lia|auto].
  - assert (Hpre : forall m' p', (1 <= p')%nat ->
              let '(o, q, k) := pre c (p_expr m' p' w) in
              (q = O -> c :: w = o ++ r_rparen :: k) /\ (q <> O -> c :: w = o /\ k = [])).
    { intros m' p' Hp'. specialize (IH m' p' Hp'). destruct (p_expr m' p' w) as [[o q] k]. cbn [pre].
      destruct IH as [H1 H2]. split.
      - intros Hq. cbn [app]. rewrite <- (H1 Hq). reflexivity.
      - intros Hq. destruct (H2 Hq) as [-> ->]. auto. }
    cbn [p_expr]. destruct m as [|esc].
    + destruct (c =? r_quote); [apply Hpre; exact Hp|].
      destruct (c =? r_lparen); [apply Hpre; lia|].
      destruct (c =? r_rparen) eqn:ER; [|apply Hpre; exact Hp].
      destruct (Nat.eqb (Nat.pred p) 0) eqn:EP.
      * apply Nat.eqb_eq in EP. apply N.eqb_eq in ER. subst c. split; [intros _; reflexivity|intros H; contradiction].
      * apply Nat.eqb_neq in EP. apply Hpre. lia.
    + destruct ((c =? r_quote) && negb esc); apply Hpre; exact Hp.
Qed.

(* re-wrapping a token as it was written *)
Definition wrap (t : toktype * text) : text :=
  match fst t with
  | BODY => snd t
  | IDENTIFIER => r_at :: snd t
  | EXPRESSION => r_at :: r_lparen :: snd t ++ [r_rparen]
  | EOF_T => []
  end.

Lemma p_scan_lossless tops w :
  let '(ty, tok, k) := p_scan isln lower tops false w in
  (ty = EOF_T -> w = []) /\ (ty <> EOF_T -> w = wrap (ty, tok) ++ k).
Proof.
  assert (Hbody : let '(ty, tok, k) := p_scan_body isln false w in
                  (ty = EOF_T -> w = []) /\ (ty <> EOF_T -> w = wrap (ty, tok) ++ k)).
  { unfold p_scan_body. split; [discriminate|]. intros _. unfold wrap. cbn [fst snd]. apply p_body_lossless. }
  destruct w as [|c r]; [cbn; split; [auto|intros H; contradiction]|].
  cbn [p_scan]. destruct (N.eqb_spec c r_at) as [->|Hc]; [|exact Hbody].
  destruct r as [|d r']; [exact Hbody|].
  destruct (N.eqb_spec d r_lparen) as [->|Hl].
  { unfold p_scan_expr. pose proof (p_expr_lossless r' MNorm 1 ltac:(lia)) as H.
    destruct (p_expr MNorm 1 r') as [[o p'] k]. destruct H as [H1 H2].
    destruct (Nat.eqb p' 0) eqn:EP.
    - apply Nat.eqb_eq in EP. split; [discriminate|]. intros _. unfold wrap. cbn [fst snd].
      rewrite (H1 EP). cbn [app]. rewrite <- app_assoc. reflexivity.
    - apply Nat.eqb_neq in EP. destruct (H2 EP) as [-> ->]. split; [discriminate|]. intros _.
      unfold wrap. cbn [fst snd]. rewrite app_nil_r. reflexivity. }
  destruct (d =? r_at); [exact Hbody|].
  destruct (name_char d); [|exact Hbody].
  unfold p_scan_ident. pose proof (p_ident_lossless (d :: r') [] []) as H.
  destruct (p_ident isln (d :: r') [] []) as [[ident top] k]. destruct H as (idp & -> & Hw). cbn [app] in *.
  destruct (allowed tops _); (split; [discriminate|]); intros _; unfold wrap; cbn [fst snd app]; rewrite Hw; reflexivity.
Qed.

Lemma scan_all_lossless tops : forall fuel i w toks, R i w ->
  scan_all_loop isln lower tops false fuel i = Ok toks -> flat_map wrap toks = w.
Proof.
  induction fuel as [|f IH]; intros i w toks HR H; [discriminate|].
  cbn [scan_all_loop] in H.
  destruct (scan isln lower tops false i) as [[[ty tok] i']| |] eqn:ES; cbn [bind] in H; try discriminate.
  pose proof (scan_ref isln lower isln_eof tops false _ _ _ _ _ HR ES) as HS.
  pose proof (p_scan_lossless tops w) as HL.
  destruct (p_scan isln lower tops false w) as [[pt pk] pr]. destruct HS as (-> & -> & HR'). destruct HL as [L1 L2].
  destruct (toktype_eqb pt EOF_T) eqn:E.
  - inversion H; subst. destruct pt; try discriminate. rewrite (L1 eq_refl). reflexivity.
  - destruct (scan_all_loop isln lower tops false f i') as [rest| |] eqn:EL; cbn [bind] in H; try discriminate.
    inversion H; subst. cbn [flat_map]. rewrite (IH _ _ _ HR' EL). symmetry. apply L2. intros ->. discriminate.
Qed.


(* An identifier the scanner returned is read back as the same identifier: written as "@" ++ identifier and
   followed by nothing, the scanner (any allowed list being nil) returns it in full.  This is the test
   wrapExpression makes (isIdentifier, refactor/base.go) before it writes "@identifier" rather than "@(...)". *)
Hypothesis isln_dot : isln r_dot = false.

Lemma name_char_not_dot d : name_char d = true -> d <> r_dot.
Proof. intros H ->. unfold is_name_char in H. rewrite isln_dot in H. discriminate. Qed.

Lemma p_ident_reread : forall w buf top,
  let '(b', _, k) := p_ident isln w buf top in
  exists idp, b' = buf ++ idp /\ w = idp ++ k /\
    forall top', fst (fst (p_ident isln idp buf top')) = b' /\ snd (p_ident isln idp buf top') = [].
Proof.
  assert (Hstop : forall w buf (top : text), exists idp : text, buf = buf ++ idp /\ w = idp ++ w /\
            forall top', fst (fst (p_ident isln idp buf top')) = buf /\ snd (p_ident isln idp buf top') = []).
  { intros w buf top. exists []. rewrite app_nil_r. repeat split; reflexivity. }
  induction w as [|c|c d r IH1 IH2] using list_ind2; intros buf top.
  - cbn [p_ident]. apply (Hstop [] buf top).
  - destruct (N.eqb_spec c r_dot) as [->|Hd].
    + rewrite p_ident_dot_stop by exact I. apply (Hstop _ buf top).
    + destruct (name_char c) eqn:EN.
      * rewrite p_ident_name by assumption. cbn [p_ident]. exists [c]. repeat split; try reflexivity.
        -- rewrite p_ident_name by assumption. reflexivity.
        -- rewrite p_ident_name by assumption. reflexivity.
      * rewrite p_ident_stop by assumption. apply (Hstop _ buf top).
  - destruct (N.eqb_spec c r_dot) as [->|Hd].
    + destruct (name_char d) eqn:EN.
      * rewrite p_ident_dot_name by exact EN.
        specialize (IH1 (buf ++ [r_dot; d]) (if text_eqb top [] then buf else top)).
        destruct (p_ident isln r (buf ++ [r_dot; d]) _) as [[b' t'] k]. destruct IH1 as (idp & -> & -> & Hre).
        exists (r_dot :: d :: idp). split; [rewrite <- app_assoc; reflexivity|]. split; [reflexivity|].
        intros top'. rewrite p_ident_dot_name by exact EN. apply Hre.
      * rewrite p_ident_dot_stop by exact EN. apply (Hstop _ buf top).
    + destruct (name_char c) eqn:EN.
      * rewrite p_ident_name by assumption. specialize (IH2 (buf ++ [c]) top).
        destruct (p_ident isln (d :: r) (buf ++ [c]) top) as [[b' t'] k]. destruct IH2 as (idp & -> & Hw & Hre).
        exists (c :: idp). split; [rewrite <- app_assoc; reflexivity|]. split; [cbn [app]; rewrite <- Hw; reflexivity|].
        intros top'. rewrite p_ident_name by assumption. apply Hre.
      * rewrite p_ident_stop by assumption. apply (Hstop _ buf top).
Qed.

Lemma scan_text_eqb_refl (a : text) : text_eqb a a = true.
Proof. induction a as [|x a IH]; [reflexivity|]. cbn [text_eqb]. rewrite N.eqb_refl, IH. reflexivity. Qed.

(* one Scan call: an IDENTIFIER token is read back *)
Lemma p_scan_ident_reread tops ue w : nulfree w ->
  let '(ty, tok, _) := p_scan isln lower tops ue w in
  ty = IDENTIFIER -> is_identifier isln lower tok = true.
Proof.
  intros Hn.
  assert (Hbody : let '(ty, tok, _) := p_scan_body isln ue w in ty = IDENTIFIER -> is_identifier isln lower tok = true).
  { unfold p_scan_body. discriminate. }
  destruct w as [|c r]; [cbn; discriminate|].
  cbn [p_scan]. destruct (N.eqb_spec c r_at) as [->|Hc]; [|exact Hbody].
  destruct r as [|d r']; [exact Hbody|].
  destruct (d =? r_lparen) eqn:EL.
  { unfold p_scan_expr. destruct (p_expr MNorm 1 r') as [[o p'] k]. destruct (Nat.eqb p' 0); discriminate. }
  destruct (d =? r_at) eqn:EA; [exact Hbody|].
  destruct (name_char d) eqn:EN; [|exact Hbody].
  unfold p_scan_ident.
  pose proof (name_char_not_dot d EN) as Hd.
  rewrite p_ident_name by assumption. cbn [app].
  pose proof (p_ident_reread r' [d] []) as HR.
  destruct (p_ident isln r' [d] []) as [[ident top] k]. destruct HR as (idp & -> & Hw & Hre).
  destruct (allowed tops _); [|discriminate]. intros _.
  (* the second reading *)
  unfold is_identifier.
  assert (Hn2 : nulfree (r_at :: [d] ++ idp)).
  { apply nulfree_cons in Hn. destruct Hn as [H1 Hn]. apply nulfree_cons in Hn. destruct Hn as [H2 Hn].
    rewrite Hw in Hn. apply nulfree_app in Hn. destruct Hn as [Hn _].
    apply nulfree_cons; split; [exact H1|]. apply nulfree_cons; split; [exact H2|exact Hn]. }
  destruct (scan_ok isln lower None true (new_input (r_at :: [d] ++ idp))) as (ty & tk & i' & ES & _); [cbn; lia|].
  rewrite ES.
  pose proof (scan_ref isln lower isln_eof None true _ _ _ _ _ (R_new _ Hn2) ES) as HS.
  cbn [app p_scan] in HS. change (r_at =? r_at) with true in HS. cbv iota in HS. rewrite EL, EA, EN in HS.
  unfold p_scan_ident in HS. rewrite p_ident_name in HS by assumption. cbn [app] in HS.
  destruct (Hre []) as [E1 E2].
  destruct (p_ident isln idp [d] []) as [[b2 t2] k2]. cbn [fst snd] in E1, E2. subst b2 k2.
  cbn [allowed] in HS. destruct HS as (-> & -> & _). cbn [app]. apply scan_text_eqb_refl.
Qed.

Definition tok_reread (t : toktype * text) : Prop := fst t = IDENTIFIER -> is_identifier isln lower (snd t) = true.

Lemma scan_all_reread tops ue : forall fuel i w toks, R i w ->
  scan_all_loop isln lower tops ue fuel i = Ok toks -> Forall tok_reread toks.
Proof.
  induction fuel as [|f IH]; intros i w toks HR H; [discriminate|].
  cbn [scan_all_loop] in H.
  destruct (scan isln lower tops ue i) as [[[ty tok] i']| |] eqn:ES; cbn [bind] in H; try discriminate.
  pose proof (scan_ref isln lower isln_eof tops ue _ _ _ _ _ HR ES) as HS.
  pose proof (p_scan_ident_reread tops ue w (proj1 HR)) as HI.
  destruct (p_scan isln lower tops ue w) as [[pt pk] pr]. destruct HS as (-> & -> & HR').
  destruct (toktype_eqb pt EOF_T) eqn:E.
  - inversion H; subst. constructor.
  - destruct (scan_all_loop isln lower tops ue f i') as [rest| |] eqn:EL; cbn [bind] in H; try discriminate.
    inversion H; subst. constructor; [exact HI|exact (IH _ _ _ HR' EL)].
Qed.

(* what refactor.Template writes when the transformation reports "unchanged": every token as it was *)
Lemma refactor_tokens_unchanged (printable : N -> bool) : forall toks, Forall tok_reread toks ->
  fst (fst (refactor_tokens isln lower printable (fun _ => None) toks)) = flat_map wrap toks.
Proof.
  induction toks as [|[ty tok] r IH]; intros HF; [reflexivity|].
  inversion HF as [|? ? Ht HF']; subst. specialize (IH HF').
  cbn [refactor_tokens flat_map].
  destruct (refactor_tokens isln lower printable (fun _ => None) r) as [[out errs] inside]. cbn [fst] in IH. subst out.
  assert (Hi : ty = IDENTIFIER -> is_identifier isln lower tok = true) by exact Ht.
  destruct ty; unfold wrap at 1; cbn [fst snd]; try reflexivity;
    unfold refactor_expression; destruct (lex tok) as [ts| |]; try (destruct (parse_tokens ts));
    cbn [fst wrap_expression]; try rewrite (Hi eq_refl); reflexivity.
Qed.

(* refactor.Template with a transformation that reports "unchanged": the template comes back verbatim, whatever it
   contains — expressions with syntax errors included (they are counted as errors and rewritten as they were) *)
Theorem refactor_unchanged_verbatim (printable : N -> bool) tops s : nulfree s ->
  exists errs inside,
    refactor_template isln lower printable (fun _ => None) tops s = Ok (s, errs, inside).
Proof.
  intros Hn. unfold refactor_template. destruct s as [|c s'].
  { exists O, true. reflexivity. }
  destruct (scan_all_ok isln lower tops false (c :: s')) as (toks & HT). rewrite HT; cbn [bind].
  unfold scan_all in HT.
  pose proof (refactor_tokens_unchanged printable toks (scan_all_reread tops false _ _ _ _ (R_new _ Hn) HT)) as HU.
  destruct (refactor_tokens isln lower printable (fun _ => None) toks) as [[out errs] inside]. cbn [fst] in HU.
  exists errs, inside. rewrite HU.
  rewrite (scan_all_lossless tops _ _ _ _ (R_new _ Hn) HT). reflexivity.
Qed.

End Lossless.

(* ---------------------------------------------------------------------------------------------- *)
(* ContextRefRename *)

Section RenameProofs.
Variable is_from : ExSyntax.text -> bool.
Variable to : ExSyntax.text.

Notation rename := (rename is_from to).
Notation frefs := (frefs is_from).
Notation brefs := (brefs is_from).

(* a tree with the names of its context references blanked: everything a rename must not touch *)
Fixpoint erase (e : expr) : expr :=
  match e with
  | ECtxRef _ => ECtxRef []
  | EDot c l => EDot (erase c) l
  | EIndex c l => EIndex (erase c) (erase l)
  | ECall f ps => ECall (erase f) (map erase ps)
  | EAnon a b => EAnon a (erase b)
  | EBin o a b => EBin o (erase a) (erase b)
  | ENeg a => ENeg (erase a)
  | EParen a => EParen (erase a)
  | e' => e'
  end.

(* exactly the free references EqualFold to `from` are renamed, in place; the references bound by a same-named
   anonymous-function parameter and everything else stay as they were *)
Theorem rename_exact : forall e,
  frefs (rename e) = map (fun n => if is_from n then to else n) (frefs e)
  /\ brefs (rename e) = brefs e
  /\ erase (rename e) = erase e.
Proof.
  induction e as [n|c l IHc|c l IHc IHl|f ps IHf IHps|a b IHb|o a b IHa IHb|a IHa|a IHa|v|l|b|] using expr_ind';
    cbn [ExRefactor.rename ExRefactor.frefs ExRefactor.brefs erase map]; try (repeat split; reflexivity).
  - destruct (is_from n); repeat split; reflexivity.
  - destruct IHc as (H1 & H2 & H3). rewrite H3. auto.
  - destruct IHc as (H1 & H2 & H3). destruct IHl as (H4 & H5 & H6).
    rewrite map_app, H1, H2, H3, H4, H5, H6. auto.
  - destruct IHf as (H1 & H2 & H3). rewrite map_app, H1, H2, H3. repeat split.
    + f_equal. induction IHps as [|x r (Hx & _ & _) Hr IH]; [reflexivity|]. cbn [map flat_map]. rewrite map_app, Hx, IH. reflexivity.
    + f_equal. induction IHps as [|x r (_ & Hx & _) Hr IH]; [reflexivity|]. cbn [map flat_map]. rewrite Hx, IH. reflexivity.
    + f_equal. rewrite !map_map.
      induction IHps as [|x r (_ & _ & Hx) Hr IH]; [reflexivity|]. cbn [map]. rewrite Hx, IH. reflexivity.
  - destruct (existsb is_from a) eqn:E; cbn [ExRefactor.frefs ExRefactor.brefs erase]; rewrite E; [repeat split; reflexivity|].
    destruct IHb as (H1 & H2 & H3). rewrite H3. auto.
  - destruct IHa as (H1 & H2 & H3). destruct IHb as (H4 & H5 & H6).
    rewrite map_app, H1, H2, H3, H4, H5, H6. auto.
  - destruct IHa as (H1 & H2 & H3). rewrite H3. auto.
  - destruct IHa as (H1 & H2 & H3). rewrite H3. auto.
Qed.

(* when no free reference matches, the tree is untouched (and the transformation reports "unchanged") *)
Theorem rename_no_match : forall e, existsb is_from (frefs e) = false -> rename e = e.
Proof.
  induction e as [n|c l IHc|c l IHc IHl|f ps IHf IHps|a b IHb|o a b IHa IHb|a IHa|a IHa|v|l|b|] using expr_ind';
    cbn [ExRefactor.rename ExRefactor.frefs]; intros H; try reflexivity.
  - cbn [existsb] in H. rewrite orb_false_r in H. rewrite H. reflexivity.
  - rewrite IHc by exact H. reflexivity.
  - rewrite existsb_app in H. apply orb_false_elim in H. destruct H as [H1 H2]. rewrite IHc, IHl by assumption. reflexivity.
  - rewrite existsb_app in H. apply orb_false_elim in H. destruct H as [H1 H2]. rewrite IHf by assumption. f_equal.
    induction IHps as [|x r Hx Hr IH]; [reflexivity|]. cbn [flat_map] in H2. rewrite existsb_app in H2.
    apply orb_false_elim in H2. destruct H2 as [H3 H4]. cbn [map]. rewrite Hx, IH by assumption. reflexivity.
  - destruct (existsb is_from a); [reflexivity|]. rewrite IHb by exact H. reflexivity.
  - rewrite existsb_app in H. apply orb_false_elim in H. destruct H as [H1 H2]. rewrite IHa, IHb by assumption. reflexivity.
  - rewrite IHa by exact H. reflexivity.
  - rewrite IHa by exact H. reflexivity.
Qed.

End RenameProofs.

(* ---------------------------------------------------------------------------------------------- *)
(* evaluation of the normalised tree, on the fragment model/ExTemplate.v evaluates (text literals, null, context
   properties, parentheses, &): context lookup is case-insensitive, so lower-casing the references changes nothing *)
From Verif Require Import model.ExTemplate.

Section EvalNorm.
Variable lower : N -> N.
Hypothesis lower_idem : forall c, lower (lower c) = lower c.

Lemma ctx_get_lower ctx n : ctx_get lower ctx (map lower n) = ctx_get lower ctx n.
Proof.
  induction ctx as [|[k v] r IH]; [reflexivity|]. cbn [ctx_get]. rewrite map_map.
  rewrite (map_ext _ _ lower_idem n), IH. reflexivity.
Qed.

Theorem eval_frag_norm ctx : forall e, eval_frag lower ctx (norm lower e) = eval_frag lower ctx e.
Proof.
  induction e as [n|c l IHc|c l IHc IHl|f ps IHf IHps|a b IHb|o a b IHa IHb|a IHa|a IHa|v|l|b|] using expr_ind';
    cbn [norm eval_frag]; try reflexivity.
  - rewrite ctx_get_lower. reflexivity.
  - destruct o; try reflexivity. rewrite IHa, IHb. reflexivity.
  - exact IHa.
Qed.

End EvalNorm.
