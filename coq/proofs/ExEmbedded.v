(* ExEmbedded.v — C12, sentence 1 in the presence of expressions: body text in front of an expression passes
   through, the expression is cut out exactly, and what follows is scanned as if it stood alone.  With
   proofs/ExScannerProofs.v (expression-free text) this gives "alone and embedded in a template". *)
From Coq Require Import List NArith Bool Arith Lia.
From Verif Require Import lib.Quote model.ExScanner proofs.ExScannerBound proofs.ExScannerProofs proofs.ExRefactorProofs.
Import ListNotations.
Open Scope N_scope.

(* the text ends in an '@' that is not the second of an "@@" pair: followed by "@(" it would pair up with it *)
Fixpoint at_open (t : text) : bool :=
  match t with
  | [] => false
  | c :: r =>
      if c =? r_at then
        match r with
        | [] => true
        | d :: r' => if d =? r_at then at_open r' else at_open r
        end
      else at_open r
  end.

(* X starts an expression *)
Definition starts_expr (X : text) : Prop := exists X', X = r_at :: r_lparen :: X'.

Section Embedded.
Variable isln : rune -> bool.
Variable lower : rune -> rune.
Hypothesis isln_eof : isln eof = false.
Hypothesis isln_dot : isln r_dot = false.
Hypothesis isln_at : isln r_at = false.

Notation name_char := (is_name_char isln).

(* the step equations of p_body with the types used here *)
Lemma qb_stop ue (d : rune) (r : text) :
  (d =? r_lparen) = true \/ ((d =? r_lparen) = false /\ (d =? r_at) = false /\ name_char d = true) ->
  p_body isln ue (r_at :: d :: r) = ([], r_at :: d :: r).
Proof. apply pb_at_stop. Qed.

Lemma qb_at ue (r : text) :
  p_body isln ue (r_at :: r_at :: r) =
  (r_at :: (if ue then fst (p_body isln ue r) else r_at :: fst (p_body isln ue r)), snd (p_body isln ue r)).
Proof. apply pb_at_at. Qed.

Lemma qb_lit ue (d : rune) (r : text) : (d =? r_lparen) = false -> (d =? r_at) = false -> name_char d = false ->
  p_body isln ue (r_at :: d :: r) = (r_at :: d :: fst (p_body isln ue r), snd (p_body isln ue r)).
Proof. apply pb_at_lit. Qed.

Lemma qb_other ue (c : rune) (r : text) : c <> r_at ->
  p_body isln ue (c :: r) = (c :: fst (p_body isln ue r), snd (p_body isln ue r)).
Proof. apply pb_other. Qed.

(* ... and of p_ident *)
Lemma qi_name (c : rune) (r buf top : text) : c <> r_dot -> name_char c = true ->
  p_ident isln (c :: r) buf top = p_ident isln r (buf ++ [c]) top.
Proof. apply p_ident_name. Qed.

Lemma qi_stop (c : rune) (r buf top : text) : c <> r_dot -> name_char c = false ->
  p_ident isln (c :: r) buf top = (buf, top, c :: r).
Proof. apply p_ident_stop. Qed.

Lemma qi_dot_name (d : rune) (r buf top : text) : name_char d = true ->
  p_ident isln (r_dot :: d :: r) buf top = p_ident isln r (buf ++ [r_dot; d]) (if text_eqb top [] then buf else top).
Proof. apply p_ident_dot_name. Qed.

Lemma qi_dot_stop (r buf top : text) : match r with [] => True | d :: _ => name_char d = false end ->
  p_ident isln (r_dot :: r) buf top = (buf, (if text_eqb top [] then buf else top), r_dot :: r).
Proof. apply p_ident_dot_stop. Qed.

Lemma nc_at : name_char r_at = false.
Proof. unfold is_name_char. rewrite isln_at. reflexivity. Qed.

Lemma at_open_other c r : c <> r_at -> at_open (c :: r) = at_open r.
Proof. intros H. cbn [at_open]. destruct (N.eqb_spec c r_at); [contradiction|reflexivity]. Qed.

Lemma at_open_app_noat a k : ~ In r_at a -> at_open (a ++ k) = at_open k.
Proof.
  induction a as [|c a IH]; intros H; [reflexivity|]. cbn [app].
  rewrite at_open_other by (intros ->; apply H; left; reflexivity). apply IH. intros H1; apply H; right; exact H1.
Qed.

(* scanBody stops at X exactly as it stops at the end of the input *)
Lemma p_body_app ue X : starts_expr X -> forall w, at_open w = false ->
  p_body isln ue (w ++ X) = (fst (p_body isln ue w), snd (p_body isln ue w) ++ X)
  /\ at_open (snd (p_body isln ue w)) = false.
Proof.
  intros (X' & ->). induction w as [|c|c d r IH1 IH2] using list_ind2; intros H.
  - cbn [app]. rewrite qb_stop by (left; reflexivity). split; reflexivity.
  - destruct (N.eqb_spec c r_at) as [->|Hc]; [discriminate|]. cbn [app].
    rewrite !(qb_other ue c) by exact Hc. rewrite qb_stop by (left; reflexivity). cbn. split; reflexivity.
  - destruct (N.eqb_spec c r_at) as [->|Hc].
    + cbn [at_open] in H. change (r_at =? r_at) with true in H. cbv iota in H.
      destruct (d =? r_lparen) eqn:EL.
      { cbn [app]. rewrite !qb_stop by (left; exact EL). cbn [fst snd]. split; [reflexivity|].
        cbn [at_open]. change (r_at =? r_at) with true. cbv iota. exact H. }
      destruct (d =? r_at) eqn:EA.
      * apply N.eqb_eq in EA. subst d. cbn [app]. rewrite !qb_at. cbn [fst snd].
        destruct (IH1 H) as [E1 E2]. rewrite E1. cbn [fst snd]. split; [reflexivity|exact E2].
      * destruct (name_char d) eqn:EN.
        { cbn [app]. rewrite !qb_stop by (right; auto). cbn [fst snd]. split; [reflexivity|].
          cbn [at_open]. change (r_at =? r_at) with true. cbv iota. rewrite EA. exact H. }
        cbn [app]. rewrite !qb_lit by assumption. cbn [fst snd].
        assert (H' : at_open r = false) by (first [exact H | cbn [at_open] in H; rewrite EA in H; exact H]).
        destruct (IH1 H') as [E1 E2]. rewrite E1. cbn [fst snd]. split; [reflexivity|exact E2].
    + rewrite at_open_other in H by exact Hc.
      change ((c :: d :: r) ++ r_at :: r_lparen :: X') with (c :: (d :: r) ++ r_at :: r_lparen :: X').
      rewrite !(qb_other ue c) by exact Hc. cbn [fst snd].
      destruct (IH2 H) as [E1 E2]. rewrite E1. cbn [fst snd]. split; [reflexivity|exact E2].
Qed.

(* scanIdentifier stops at the '@' of X exactly as it stops at the end of the input *)
Lemma p_ident_app X : starts_expr X -> forall (w buf top : text),
  p_ident isln (w ++ X) buf top =
  (fst (fst (p_ident isln w buf top)), snd (fst (p_ident isln w buf top)), snd (p_ident isln w buf top) ++ X).
Proof.
  intros (X' & ->).
  assert (Hat : r_at <> r_dot) by discriminate.
  induction w as [|c|c d r IH1 IH2] using list_ind2; intros buf top.
  - cbn [app]. rewrite qi_stop by (exact Hat || exact nc_at). reflexivity.
  - cbn [app]. destruct (N.eqb_spec c r_dot) as [->|Hd].
    + rewrite !qi_dot_stop; [reflexivity|exact I|exact nc_at].
    + destruct (name_char c) eqn:EN.
      * rewrite (qi_name c (r_at :: r_lparen :: X')) by assumption. rewrite (qi_name c []) by assumption.
        rewrite qi_stop by (exact Hat || exact nc_at). reflexivity.
      * rewrite !qi_stop by assumption. reflexivity.
  - destruct (N.eqb_spec c r_dot) as [->|Hd].
    + destruct (name_char d) eqn:EN.
      * cbn [app]. rewrite !qi_dot_name by exact EN. apply IH1.
      * cbn [app]. rewrite !qi_dot_stop by exact EN. reflexivity.
    + destruct (name_char c) eqn:EN.
      * change ((c :: d :: r) ++ r_at :: r_lparen :: X') with (c :: (d :: r) ++ r_at :: r_lparen :: X').
        rewrite !qi_name by assumption. apply IH2.
      * cbn [app]. rewrite !qi_stop by assumption. reflexivity.
Qed.

(* the token loop up to the expression *)
Lemma embedded_loop (eval_expr : text -> option text) tops X : starts_expr X -> forall fuel i w toks,
  R i (w ++ X) -> no_start isln lower tops w = true -> at_open w = false ->
  scan_all_loop isln lower tops true fuel i = Ok toks ->
  exists f' i2 toks2, R i2 X /\ scan_all_loop isln lower tops true f' i2 = Ok toks2 /\
    template_tokens eval_expr toks =
    (unescape_at w ++ fst (template_tokens eval_expr toks2), snd (template_tokens eval_expr toks2)).
Proof.
  intros HX. induction fuel as [|f IH]; intros i w toks HR Hns Hao H; [discriminate|].
  destruct w as [|c r].
  { exists (S f), i, toks. split; [exact HR|]. split; [exact H|]. destruct (template_tokens eval_expr toks); reflexivity. }
  cbn [scan_all_loop] in H.
  destruct (scan isln lower tops true i) as [[[ty tok] i']| |] eqn:ES; cbn [bind] in H; try discriminate.
  pose proof (scan_ref isln lower isln_eof tops true _ _ _ _ _ HR ES) as HS.
  (* the body branch *)
  assert (Hbody : (let '(pt, pk, pr) := p_scan_body isln true ((c :: r) ++ X) in ty = pt /\ tok = pk /\ R i' pr) ->
            exists f' i2 toks2, R i2 X /\ scan_all_loop isln lower tops true f' i2 = Ok toks2 /\
              template_tokens eval_expr toks =
              (unescape_at (c :: r) ++ fst (template_tokens eval_expr toks2), snd (template_tokens eval_expr toks2))).
  { unfold p_scan_body. destruct (p_body_app true X HX (c :: r) Hao) as [EB EA]. rewrite EB. cbn [fst snd].
    intros (-> & -> & HR'). cbn [toktype_eqb] in H.
    destruct (scan_all_loop isln lower tops true f i') as [rest| |] eqn:EL; cbn [bind] in H; try discriminate.
    inversion H; subst. destruct (body_spec isln lower tops (c :: r) Hns) as [E1 E2].
    destruct (IH _ _ _ HR' E2 EA EL) as (f' & i2 & toks2 & HR2 & HL2 & HT).
    exists f', i2, toks2. split; [exact HR2|]. split; [exact HL2|].
    cbn [template_tokens]. rewrite HT, E1, <- app_assoc. reflexivity. }
  cbn [app p_scan] in HS.
  destruct (N.eqb_spec c r_at) as [->|Hc]; [|exact (Hbody HS)].
  destruct r as [|d r'].
  { (* a lone '@' in front of "@(": excluded *) discriminate. }
  cbn [app] in HS.
  cbn [no_start] in Hns. change (r_at =? r_at) with true in Hns. cbv iota in Hns.
  destruct (N.eqb_spec d r_lparen) as [->|Hl].
  { change (r_lparen =? r_at) with false in Hns. cbv iota in Hns. discriminate. }
  destruct (N.eqb_spec d r_at) as [->|Ha]; [exact (Hbody HS)|].
  destruct (name_char d) eqn:EN; [|exact (Hbody HS)].
  apply andb_prop in Hns. destruct Hns as [Hrej Hns].
  unfold p_scan_ident in HS.
  assert (Hd : d <> r_dot).
  { intros ->. unfold is_name_char in EN. rewrite isln_dot in EN. discriminate. }
  change (d :: r' ++ X) with ((d :: r') ++ X) in HS. rewrite (p_ident_app X HX (d :: r') [] []) in HS.
  pose proof (ident_spec isln isln_at r' [d] []) as HI.
  assert (Hstep : p_ident isln (d :: r') [] [] = p_ident isln r' [d] []).
  { rewrite p_ident_name by assumption. reflexivity. }
  rewrite Hstep in HS. destruct (p_ident isln r' [d] []) as [[b' t'] k]. cbn [fst snd] in HS.
  destruct HI as (idp & E1 & E2 & E3 & _ & E5).
  specialize (E5 eq_refl ltac:(discriminate)).
  assert (Hfs : first_segment isln (d :: r') = [d] ++ first_segment isln r').
  { rewrite first_segment_name by assumption. reflexivity. }
  rewrite E5, <- Hfs in HS. apply negb_true_iff in Hrej. rewrite Hrej in HS.
  destruct HS as (-> & -> & HR'). cbn [toktype_eqb] in H.
  destruct (scan_all_loop isln lower tops true f i') as [rest| |] eqn:EL; cbn [bind] in H; try discriminate.
  inversion H; subst.
  assert (Hk : no_start isln lower tops k = true).
  { rewrite <- Hns. cbn [no_start]. destruct (N.eqb_spec d r_at); [contradiction|].
    symmetry. apply no_start_app_noat. exact E3. }
  assert (Hak : at_open k = false).
  { cbn [at_open] in Hao. change (r_at =? r_at) with true in Hao. cbv iota in Hao.
    destruct (N.eqb_spec d r_at); [contradiction|].
    rewrite at_open_app_noat in Hao by exact E3. exact Hao. }
  destruct (IH _ _ _ HR' Hk Hak EL) as (f' & i2 & toks2 & HR2 & HL2 & HT).
  exists f', i2, toks2. split; [exact HR2|]. split; [exact HL2|].
  cbn [template_tokens]. rewrite HT.
  rewrite unescape_at_at_other by exact Ha.
  change (d :: idp ++ k) with ((d :: idp) ++ k). rewrite unescape_at_app_noat.
  2:{ intros [Hx|Hx]; [congruence|contradiction]. }
  cbn [app]. rewrite <- !app_assoc. reflexivity.
Qed.

(* the token list depends only on the runes still to be delivered *)
Lemma scan_all_det tops ue : forall f i g j w t1 t2, R i w -> R j w ->
  scan_all_loop isln lower tops ue f i = Ok t1 -> scan_all_loop isln lower tops ue g j = Ok t2 -> t1 = t2.
Proof.
  induction f as [|f IH]; intros i g j w t1 t2 HRi HRj H1 H2; [discriminate|].
  destruct g as [|g]; [discriminate|]. cbn [scan_all_loop] in H1, H2.
  destruct (scan isln lower tops ue i) as [[[ty tok] i']| |] eqn:E1; cbn [bind] in H1; try discriminate.
  destruct (scan isln lower tops ue j) as [[[ty2 tok2] j']| |] eqn:E2; cbn [bind] in H2; try discriminate.
  pose proof (scan_ref isln lower isln_eof tops ue _ _ _ _ _ HRi E1) as S1.
  pose proof (scan_ref isln lower isln_eof tops ue _ _ _ _ _ HRj E2) as S2.
  destruct (p_scan isln lower tops ue w) as [[pt pk] pr]. destruct S1 as (-> & -> & R1). destruct S2 as (-> & -> & R2).
  destruct (toktype_eqb pt EOF_T); [inversion H1; inversion H2; reflexivity|].
  destruct (scan_all_loop isln lower tops ue f i') as [r1| |] eqn:L1; cbn [bind] in H1; try discriminate.
  destruct (scan_all_loop isln lower tops ue g j') as [r2| |] eqn:L2; cbn [bind] in H2; try discriminate.
  inversion H1; inversion H2; subst. f_equal. exact (IH _ _ _ _ _ _ R1 R2 L1 L2).
Qed.

(* Evaluator.Template on  b1 @( e ) b2 :  the body text b1 passes through, the expression e is evaluated, and the
   rest contributes what it would contribute as a template of its own *)
Theorem template_embedded (eval_expr : text -> option text) tops b1 e b2 :
  nulfree b1 -> nulfree e -> nulfree b2 ->
  no_start isln lower (Some tops) b1 = true -> at_open b1 = false -> closed_expr e ->
  exists o2 n2, template_with isln lower eval_expr tops b2 = Ok (o2, n2) /\
    template_with isln lower eval_expr tops (b1 ++ r_at :: r_lparen :: e ++ r_rparen :: b2) =
    Ok (unescape_at b1 ++ (match eval_expr e with Some v => v | None => [] end) ++ o2,
        match eval_expr e with Some _ => n2 | None => S n2 end).
Proof.
  intros Hn1 Hne Hn2 Hns Hao Hcl.
  destruct (template_ok isln lower eval_expr tops b2) as (o2 & n2 & HB). exists o2, n2. split; [exact HB|].
  set (X := r_at :: r_lparen :: e ++ r_rparen :: b2).
  assert (HX : starts_expr X) by (eexists; reflexivity).
  assert (HnX : nulfree X).
  { unfold X. apply nulfree_cons; split; [discriminate|]. apply nulfree_cons; split; [discriminate|].
    apply nulfree_app; split; [exact Hne|]. apply nulfree_cons; split; [discriminate|exact Hn2]. }
  unfold template_with at 1. destruct (b1 ++ X) as [|c0 s0] eqn:EW.
  { destruct b1; discriminate. }
  rewrite <- EW. clear c0 s0 EW.
  destruct (scan_all_ok isln lower (Some tops) true (b1 ++ X)) as (toks & HT). rewrite HT; cbn [bind]. f_equal.
  unfold scan_all in HT.
  assert (HR : R (new_input (b1 ++ X)) (b1 ++ X)) by (apply R_new, nulfree_app; split; assumption).
  destruct (embedded_loop eval_expr (Some tops) X HX _ _ _ _ HR Hns Hao HT) as (f' & i2 & toks2 & HR2 & HL2 & HTT).
  rewrite HTT. clear HT HTT HR.
  (* the expression token *)
  destruct f' as [|f']; [discriminate|]. cbn [scan_all_loop] in HL2.
  destruct (scan isln lower (Some tops) true i2) as [[[ty tok] i3]| |] eqn:ES; cbn [bind] in HL2; try discriminate.
  pose proof (scan_ref isln lower isln_eof _ _ _ _ _ _ _ HR2 ES) as HS.
  unfold X in HS. cbn [p_scan] in HS. change (r_at =? r_at) with true in HS. change (r_lparen =? r_lparen) with true in HS.
  cbv iota in HS. unfold p_scan_expr in HS. rewrite (Hcl b2) in HS. cbn [Nat.eqb] in HS. destruct HS as (-> & -> & HR3).
  cbn [toktype_eqb] in HL2.
  destruct (scan_all_loop isln lower (Some tops) true f' i3) as [toks3| |] eqn:EL3; cbn [bind] in HL2; try discriminate.
  inversion HL2; subst toks2. cbn [template_tokens].
  (* the rest is the template b2 *)
  assert (H3 : template_tokens eval_expr toks3 = (o2, n2)).
  { unfold template_with in HB. destruct b2 as [|c2 s2].
    - inversion HB; subst. destruct f' as [|f'']; [discriminate|]. cbn [scan_all_loop] in EL3.
      destruct (scan isln lower (Some tops) true i3) as [[[ty tok] i4]| |] eqn:ES3; cbn [bind] in EL3; try discriminate.
      pose proof (scan_ref isln lower isln_eof _ _ _ _ _ _ _ HR3 ES3) as HS3. cbn [p_scan] in HS3.
      destruct HS3 as (-> & -> & _). cbn [toktype_eqb] in EL3. inversion EL3. reflexivity.
    - destruct (scan_all isln lower (Some tops) true (c2 :: s2)) as [toksB| |] eqn:EB; cbn [bind] in HB; try discriminate.
      inversion HB as [HB']. unfold scan_all in EB.
      rewrite (scan_all_det (Some tops) true _ _ _ _ _ _ _ HR3 (R_new _ Hn2) EL3 EB). first [exact HB' | reflexivity]. }
  rewrite H3. cbn [fst snd]. destruct (eval_expr e); reflexivity.
Qed.

End Embedded.

(* ---------------------------------------------------------------------------------------------- *)
(* An expression that never closes (hunt finding C12/1).  Started after the opening parenthesis, the scanner reaches
   the end of the input with a parenthesis still open: parentheses inside text literals do not count, and a
   literal that is still open at the end swallows the rest. *)
Definition unterminated (e : text) : Prop := snd (fst (p_expr MNorm 1 e)) <> O.

(* source-level sufficient condition: no closing parenthesis at all *)
Lemma p_expr_no_rparen : forall e m p, ~ In r_rparen e -> (p <= snd (fst (p_expr m p e)))%nat.
Proof.
  induction e as [|c e IH]; intros m p H; [cbn; lia|].
  assert (Hc : c <> r_rparen) by (intros ->; apply H; left; reflexivity).
  assert (He : ~ In r_rparen e) by (intros H1; apply H; right; exact H1).
  assert (Hpre : forall m' p', (p <= p')%nat -> (p <= snd (fst (pre c (p_expr m' p' e))))%nat).
  { intros m' p' Hp. specialize (IH m' p' He). destruct (p_expr m' p' e) as [[o q] k]. cbn [pre fst snd] in *. lia. }
  cbn [p_expr]. destruct m as [|esc].
  - destruct (c =? r_quote); [apply Hpre; lia|].
    destruct (c =? r_lparen); [apply Hpre; lia|].
    destruct (N.eqb_spec c r_rparen); [contradiction|]. apply Hpre; lia.
  - destruct ((c =? r_quote) && negb esc); apply Hpre; lia.
Qed.

Lemma no_rparen_unterminated e : ~ In r_rparen e -> unterminated e.
Proof. intros H. unfold unterminated. pose proof (p_expr_no_rparen e MNorm 1 H). lia. Qed.

Lemma unterminated_all e : unterminated e -> exists p, p_expr MNorm 1 e = (e, S p, []).
Proof.
  unfold unterminated. intros H. pose proof (p_expr_lossless (fun _ => false) (fun c => c) eq_refl e MNorm 1 ltac:(lia)) as HL.
  destruct (p_expr MNorm 1 e) as [[o q] k]. cbn [fst snd] in H. destruct HL as [_ H2].
  destruct (H2 H) as [-> ->]. destruct q as [|q]; [contradiction|]. exists q. reflexivity.
Qed.

(* strings.ReplaceAll(body, "@@", "@") is the replacement the property sentence describes *)
Lemma replace_atat_unescape : forall t, replace_atat t = unescape_at t.
Proof. intros t. reflexivity. Qed.

Section Unterminated.
Variable isln : rune -> bool.
Variable lower : rune -> rune.
Hypothesis isln_eof : isln eof = false.
Hypothesis isln_dot : isln r_dot = false.
Hypothesis isln_at : isln r_at = false.

(* Evaluator.Template on  b1 @( e  where e never closes: nothing is evaluated, no error is collected, and the
   whole input is body text: "@@" is an escaped '@' before AND after the "@(" (in e no '@' starts anything any
   more, so no condition on the names that follow an '@' in e is needed) *)
Theorem template_unterminated (eval_expr : text -> option text) tops b1 e :
  nulfree b1 -> nulfree e ->
  no_start isln lower (Some tops) b1 = true -> at_open b1 = false -> unterminated e ->
  template_with isln lower eval_expr tops (b1 ++ r_at :: r_lparen :: e) =
  Ok (unescape_at b1 ++ r_at :: r_lparen :: unescape_at e, O).
Proof.
  intros Hn1 Hne Hns Hao Hun. destruct (unterminated_all e Hun) as (q & Hq).
  set (X := r_at :: r_lparen :: e).
  assert (HX : starts_expr X) by (eexists; reflexivity).
  assert (HnX : nulfree X).
  { unfold X. apply nulfree_cons; split; [discriminate|]. apply nulfree_cons; split; [discriminate|exact Hne]. }
  unfold template_with. destruct (b1 ++ X) as [|c0 s0] eqn:EW.
  { destruct b1; discriminate. }
  rewrite <- EW. clear c0 s0 EW.
  destruct (scan_all_ok isln lower (Some tops) true (b1 ++ X)) as (toks & HT). rewrite HT; cbn [bind]. f_equal.
  unfold scan_all in HT.
  assert (HR : R (new_input (b1 ++ X)) (b1 ++ X)) by (apply R_new, nulfree_app; split; assumption).
  destruct (embedded_loop isln lower isln_eof isln_dot isln_at eval_expr (Some tops) X HX _ _ _ _ HR Hns Hao HT)
    as (f' & i2 & toks2 & HR2 & HL2 & HTT).
  rewrite HTT. clear HT HTT HR.
  (* the token for the unterminated expression *)
  destruct f' as [|f']; [discriminate|]. cbn [scan_all_loop] in HL2.
  destruct (scan isln lower (Some tops) true i2) as [[[ty tok] i3]| |] eqn:ES; cbn [bind] in HL2; try discriminate.
  pose proof (scan_ref isln lower isln_eof _ _ _ _ _ _ _ HR2 ES) as HS.
  unfold X in HS. cbn [p_scan] in HS. change (r_at =? r_at) with true in HS. change (r_lparen =? r_lparen) with true in HS.
  cbv iota in HS. unfold p_scan_expr in HS. rewrite Hq in HS. cbn [Nat.eqb] in HS. destruct HS as (-> & -> & HR3).
  cbn [toktype_eqb] in HL2.
  destruct (scan_all_loop isln lower (Some tops) true f' i3) as [toks3| |] eqn:EL3; cbn [bind] in HL2; try discriminate.
  inversion HL2; subst toks2. cbn [template_tokens].
  (* then the end of the input *)
  destruct f' as [|f'']; [discriminate|]. cbn [scan_all_loop] in EL3.
  destruct (scan isln lower (Some tops) true i3) as [[[ty tok] i4]| |] eqn:ES3; cbn [bind] in EL3; try discriminate.
  pose proof (scan_ref isln lower isln_eof _ _ _ _ _ _ _ HR3 ES3) as HS3. cbn [p_scan] in HS3.
  destruct HS3 as (-> & -> & _). cbn [toktype_eqb] in EL3. inversion EL3. subst toks3.
  cbn [template_tokens fst snd]. rewrite app_nil_r. reflexivity.
Qed.

End Unterminated.
