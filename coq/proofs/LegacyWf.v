(* LegacyWf.v — definitions shared by the C17 proof files (no lemmas here).

   [lex_ok t]: every leaf of the Excellent3 tree t is spelled so that the Excellent3 lexer reads it back as
   exactly one token of the right kind, whatever follows it in a printed expression:
     text literal  DQUOTE body DQUOTE where every quote inside body directly follows a backslash and body does
                   not end in a backslash (the TEXT rule is greedy over BACKSLASH DQUOTE, finding F10b of C12)
     number        digits, or digits '.' digits
     name          (letter | '_') (letter | digit | '_')*  and not one of the keywords true / false / null
     dot lookup    a name (numeric lookups are excluded: `a.1.2` lexes `1.2` as one DECIMAL, finding F9)  *)
From Coq Require Import List NArith Bool.
From Verif Require Import model.LegacyTy gen.LegacyTable model.LegacySyntax.
Import ListNotations.
Open Scope N_scope.

Definition name_ok3 (n : text) : bool :=
  match n with
  | [] => false
  | c :: r =>
      name_start3 c && forallb name_char3 r &&
      match classify3 n with TName _ => true | _ => false end
  end.

Definition nonempty (s : text) : bool := match s with [] => false | _ => true end.

Definition num_ok (raw : text) : bool :=
  let (ip, r) := span ascii_digit raw in
  nonempty ip &&
  match r with
  | [] => true
  | c :: fp => (c =? 46) && nonempty fp && forallb ascii_digit fp
  end.

(* every quote directly follows a backslash; the last character is not a backslash *)
Fixpoint quotes_escaped (prev_bs : bool) (body : text) : bool :=
  match body with
  | [] => negb prev_bs
  | c :: r => if c =? c_dquote then prev_bs && quotes_escaped false r else quotes_escaped (c =? c_bslash) r
  end.

Definition text_ok (raw : text) : bool :=
  let body := removelast (tl raw) in
  text_eqb raw (c_dquote :: body ++ [c_dquote]) && quotes_escaped false body.

Fixpoint lex_ok (t : e3) : bool :=
  match t with
  | X3Text raw => text_ok raw
  | X3Num raw => num_ok raw
  | X3True | X3False | X3Null => true
  | X3Ref n => name_ok3 n
  | X3Dot c l => lex_ok c && name_ok3 l
  | X3Index c i => lex_ok c && lex_ok i
  | X3Call f args => lex_ok f && forallb lex_ok args
  | X3Paren e => lex_ok e
  | X3Neg e => lex_ok e
  | X3Bin _ a b => lex_ok a && lex_ok b
  end.
