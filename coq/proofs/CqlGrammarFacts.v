(* proofs/CqlGrammarFacts.v — what the lexing proofs use of the regenerated token table gen/GrammarCQL.v: the shape
   of every rule and finitely many membership facts of the character classes, all re-checked by computation against
   the current antlr/ContactQL.g4 on every run. *)
From Coq Require Import List Arith NArith Bool Lia.
From Verif Require Import lib.RegexLM model.CqlSyntax gen.GrammarCQL model.CqlPrinter proofs.CqlRegexProofs
  proofs.CqlLexProofs.
Import ListNotations.
Close Scope N_scope.

Definition class_of (r : re) : cset := match r with Cat (Chr s) _ => s | _ => CAny end.

Definition Lset : cset := class_of frag_PROPTYPE.   (* UnicodeLetter *)
Definition Kset : cset := class_of frag_PROPKEY.    (* UnicodeLetter | UnicodeDigit | _ *)
Definition Tset : cset := class_of (r_re (rule_at 7)).   (* TEXT characters *)
Definition Wset : cset := class_of (r_re (rule_at 8)).   (* white space *)
Notation Dot := (CRanges [(46%N, 46%N)]).

Lemma grammar_shapes :
  r_re (rule_at 0) = Chr (CRanges [(40%N, 40%N)]) /\ r_skip (rule_at 0) = false /\ r_kind (rule_at 0) = LPAREN
  /\ r_re (rule_at 1) = Chr (CRanges [(41%N, 41%N)]) /\ r_skip (rule_at 1) = false /\ r_kind (rule_at 1) = RPAREN
  /\ r_skip (rule_at 2) = false /\ r_kind (rule_at 2) = AND
  /\ r_skip (rule_at 3) = false /\ r_kind (rule_at 3) = OR
  /\ r_skip (rule_at 4) = false /\ r_kind (rule_at 4) = COMPARATOR
  /\ r_re (rule_at 6) = Cat (Alt (Cat (Cat (Chr Lset) (Star (Chr Lset))) (Chr Dot)) Eps) (Cat (Chr Kset) (Star (Chr Kset)))
  /\ r_skip (rule_at 6) = false /\ r_kind (rule_at 6) = PROPERTY
  /\ r_re (rule_at 7) = Cat (Chr Tset) (Star (Chr Tset)) /\ r_skip (rule_at 7) = false /\ r_kind (rule_at 7) = TEXT
  /\ r_re (rule_at 8) = Cat (Chr Wset) (Star (Chr Wset)) /\ r_skip (rule_at 8) = true
  /\ r_re (rule_at 9) = Chr CAny.
Proof. repeat split. Qed.

(* the same, one fact at a time (kept out of proof contexts: they mention the whole table) *)
Lemma re0 : r_re (rule_at 0) = Chr (CRanges [(40%N, 40%N)]). Proof. reflexivity. Qed.
Lemma sk0 : r_skip (rule_at 0) = false. Proof. reflexivity. Qed.
Lemma kd0 : r_kind (rule_at 0) = LPAREN. Proof. reflexivity. Qed.
Lemma re1 : r_re (rule_at 1) = Chr (CRanges [(41%N, 41%N)]). Proof. reflexivity. Qed.
Lemma sk1 : r_skip (rule_at 1) = false. Proof. reflexivity. Qed.
Lemma kd1 : r_kind (rule_at 1) = RPAREN. Proof. reflexivity. Qed.
Lemma re6 : r_re (rule_at 6) = Cat (Alt (Cat (Cat (Chr Lset) (Star (Chr Lset))) (Chr Dot)) Eps) (Cat (Chr Kset) (Star (Chr Kset))).
Proof. reflexivity. Qed.
Lemma sk6 : r_skip (rule_at 6) = false. Proof. reflexivity. Qed.
Lemma kd6 : r_kind (rule_at 6) = PROPERTY. Proof. reflexivity. Qed.
Lemma re7 : r_re (rule_at 7) = Cat (Chr Tset) (Star (Chr Tset)). Proof. reflexivity. Qed.
Lemma sk7 : r_skip (rule_at 7) = false. Proof. reflexivity. Qed.
Lemma kd7 : r_kind (rule_at 7) = TEXT. Proof. reflexivity. Qed.
Lemma re8 : r_re (rule_at 8) = Cat (Chr Wset) (Star (Chr Wset)). Proof. reflexivity. Qed.
Lemma sk8 : r_skip (rule_at 8) = true. Proof. reflexivity. Qed.

(* membership facts, by computation *)
Definition inK (c : N) : bool := in_cset c Kset.
Definition inT (c : N) : bool := in_cset c Tset.
Definition inW (c : N) : bool := in_cset c Wset.
Definition inL (c : N) : bool := in_cset c Lset.

Lemma class_facts :
  (* separators are in none of the word classes *)
  forallb (fun c => negb (inK c) && negb (inT c) && negb (inL c)) [32; 40; 41; 34; 9; 10; 13]%N = true
  (* the dot is a TEXT character only *)
  /\ inK 46%N = false /\ inL 46%N = false /\ inT 46%N = true
  (* digits are key and TEXT characters, not letters *)
  /\ forallb (fun c => inK c && inT c && negb (inL c)) [48; 49; 50; 51; 52; 53; 54; 55; 56; 57]%N = true
  (* white space is exactly tab, newline, carriage return, space *)
  /\ Wset = CRanges [(9, 10); (13, 13); (32, 32)]%N.
Proof. repeat split; vm_compute; reflexivity. Qed.

Lemma inW_spec c : inW c = true -> (c = 9 \/ c = 10 \/ c = 13 \/ c = 32)%N.
Proof.
  unfold inW. destruct class_facts as (_ & _ & _ & _ & _ & ->).
  cbn [in_cset in_ranges]. intros H.
  repeat match type of H with
         | (_ || _) = true => apply orb_prop in H; destruct H as [H|H]
         | (_ && _) = true => apply andb_prop in H; destruct H as [? ?]
         | false = true => discriminate
         end;
    repeat match goal with H : (_ <=? _)%N = true |- _ => apply N.leb_le in H end; lia.
Qed.

Lemma inK_not_W c : inK c = true -> inW c = false.
Proof.
  intros HK. destruct (inW c) eqn:E; [|reflexivity]. exfalso.
  destruct class_facts as (HS & _).
  apply inW_spec in E. rewrite forallb_forall in HS.
  assert (I : In c [32; 40; 41; 34; 9; 10; 13]%N) by (cbn [In]; lia).
  specialize (HS c I). apply andb_prop in HS. destruct HS as [HS _]. apply andb_prop in HS. destruct HS as [HS _].
  apply negb_true_iff in HS. congruence.
Qed.

(* separators *)
Lemma sep_facts c : In c [32; 40; 41; 34; 9; 10; 13]%N -> inK c = false /\ inT c = false /\ inL c = false.
Proof.
  intros I. destruct class_facts as (HS & _). rewrite forallb_forall in HS. specialize (HS c I).
  apply andb_prop in HS. destruct HS as [HS H3]. apply andb_prop in HS. destruct HS as [H1 H2].
  apply negb_true_iff in H1. apply negb_true_iff in H2. apply negb_true_iff in H3. auto.
Qed.

Lemma digit_facts c : is_digit c = true -> inK c = true /\ inT c = true /\ inL c = false.
Proof.
  intros H. unfold is_digit in H. apply andb_prop in H. destruct H as [H1 H2].
  apply N.leb_le in H1. apply N.leb_le in H2.
  destruct class_facts as (_ & _ & _ & _ & HS & _).
  assert (E : In c [48; 49; 50; 51; 52; 53; 54; 55; 56; 57]%N).
  { cbn [In]. lia. }
  rewrite forallb_forall in HS. specialize (HS c E).
  apply andb_prop in HS. destruct HS as [HS S3]. apply andb_prop in HS. destruct HS as [S1 S2].
  apply negb_true_iff in S3. auto.
Qed.

(* from here on the four classes are used through the facts above only *)
Global Opaque Lset Kset Tset Wset.
