(* EngineInv.v — the main loop of the engine model taken one iteration at a time, the shape of a
   session (parent / status / exited of every run) and the invariants of C01, C05 and C10 that depend
   only on it.

   [cuw_iter] is the body of [continue_until_wait] with the recursive call replaced by [ICont] and
   every return by [IStop]; [cuw_unfold] proves that this is what the model's loop does, so the
   invariants below are invariants of the model, not of a copy. *)

From Coq Require Import List NArith ZArith Bool Lia.
From Verif Require Import model.Lang model.Engine proofs.EngineProofs.
Import ListNotations.
Open Scope N_scope.

Inductive iter := IStop (r : result_) | ICont (x : st) (l : lstate).

Definition cuw_iter (a : assets) (x : st) (l : lstate) : iter :=

      (* 1. pick a destination *)
      let '(x, l, dest) :=
        match s_pushed (session_ x) with
        | Some p =>
            let x := if p_terminal p then with_session x exit_all_completed else x in
            let idx := length (s_runs (session_ x)) in
            let x := with_session x (fun s => set_pushed (set_runs s (s_runs s ++ [new_run (p_flow p) (l_cur l)])) None) in
            let dest := match get_flow a (p_flow p) with
                        | Some f => match f_nodes f with n :: _ => Some (n_id n) | [] => None end
                        | None => None
                        end in
            (* `step = nil`: the new run has not visited any node yet *)
            (x, {| l_cur := Some idx; l_node := l_node l; l_exit := l_exit l; l_operand := l_operand l;
                   l_step := None; l_steps := l_steps l; l_trigger := l_trigger l |}, dest)
        | None =>
            match l_exit l with
            | Some e =>
                let x :=
                  match e_dest e, l_cur l with
                  | Some d, Some ci =>
                      match get_run (session_ x) ci with
                      | Some r =>
                          match get_flow a (r_flow r) with
                          | Some f =>
                              match get_node f d, l_node l with
                              | Some _, Some (_, nid) =>
                                  log_segment x {| sg_flow := r_flow r; sg_node := nid; sg_exit := e_id e;
                                                   sg_operand := l_operand l; sg_dest := d |}
                              | _, _ => x
                              end
                          | None => x
                          end
                      | None => x
                      end
                  | _, _ => x
                  end in
                (x, {| l_cur := l_cur l; l_node := l_node l; l_exit := None; l_operand := [];
                       l_step := l_step l; l_steps := l_steps l; l_trigger := l_trigger l |}, e_dest e)
            | None => (x, l, None)
            end
        end in
      match l_cur l with
      | None => IStop (RGoError x)             (* unreachable: there is always a current run here *)
      | Some ci =>
          match dest with
          | None =>
              (* 2. no destination: the current run is done *)
              let x := match get_run (session_ x) ci with
                       | Some r => if r_exited r then x else with_session x (fun s => upd_run s ci (run_exit RCompleted))
                       | None => x
                       end in
              let parent := match get_run (session_ x) ci with Some r => r_parent r | None => None end in
              let parent_active := match parent with
                                   | Some pi => match run_status (session_ x) pi with Some RActive => true | _ => false end
                                   | None => false
                                   end in
              match parent, parent_active with
              | Some pi, true =>
                  let child_failed := match run_status (session_ x) ci with Some RFailed => true | _ => false end in
                  (* `step, _, _ = currentRun.PathLocation()` *)
                  let psr := match path_location a (session_ x) pi with
                             | Some (pos, _) => Some (pi, pos)
                             | None => None
                             end in
                  let l := {| l_cur := Some pi; l_node := l_node l; l_exit := l_exit l; l_operand := l_operand l;
                              l_step := psr; l_steps := l_steps l; l_trigger := l_trigger l |} in
                  if negb child_failed then
                    let flow_missing := run_flow_unusable a (session_ x) pi in
                    if flow_missing
                    then ICont (fail_run x pi None (unusable_code a (session_ x) pi FParentMissingFlow)) l
                    else
                      match find_resume_exit a x pi false [] with
                      | FreOk x' e op =>
                          ICont x'
                            {| l_cur := Some pi; l_node := l_node l; l_exit := e; l_operand := op;
                               l_step := l_step l; l_steps := l_steps l; l_trigger := l_trigger l |}
                      | FreErr x' =>
                          ICont (fail_run x' pi None FParentNodeGone)
                            {| l_cur := Some pi; l_node := l_node l; l_exit := None; l_operand := [];
                               l_step := l_step l; l_steps := l_steps l; l_trigger := l_trigger l |}
                      | FreGoErr x' => IStop (RGoError x')
                      | FrePanic => IStop RPanic
                      end
                  else
                    ICont (fail_run x pi psr FChildFailed) l
              | _, _ =>
                  let failed := match run_status (session_ x) ci with Some RFailed => true | _ => false end in
                  IStop (ROk (with_session x (fun s => set_status s (if failed then SFailed else SCompleted))))
              end
          | Some d =>
              (* 3. go to the destination *)
              let steps := (l_steps l + 1)%Z in
              let l := {| l_cur := l_cur l; l_node := l_node l; l_exit := l_exit l; l_operand := l_operand l;
                          l_step := l_step l; l_steps := steps; l_trigger := l_trigger l |} in
              if (steps >? max_steps (a_opts a))%Z
              then ICont (fail_run x ci (l_step l) FStepLimit) l
              else
                match get_run (session_ x) ci with
                | None => IStop (RGoError x)
                | Some r =>
                    match get_flow a (r_flow r) with
                    | None => IStop (RGoError x)
                    | Some f =>
                        match get_node f d with
                        | None => IStop (RGoError x)            (* "unable to find destination node" *)
                        | Some n =>
                            match visit_node a x ci n (l_trigger l) with
                            | GoErr x' => IStop (RGoError x')
                            | Panicked => IStop RPanic
                            | Done x' (pos, e, op) =>
                                let l := {| l_cur := Some ci; l_node := Some (r_flow r, n_id n); l_exit := e;
                                            l_operand := op; l_step := Some (ci, pos); l_steps := steps;
                                            l_trigger := false |} in
                                if sstatus_eqb (s_status (session_ x')) SWaiting
                                then IStop (ROk x')
                                else ICont x' l
                            end
                        end
                    end
                end
          end
      end.

Lemma cuw_unfold : forall fuel a x l,
  continue_until_wait (S fuel) a x l =
  match cuw_iter a x l with IStop r => r | ICont x' l' => continue_until_wait fuel a x' l' end.
Proof.
  intros. unfold cuw_iter. simpl. repeat (first [reflexivity | dmatch]).
Qed.

(* induction over the loop: an invariant of one iteration is an invariant of the loop *)
Lemma cuw_induct : forall a (I : st -> lstate -> Prop) (Q : result_ -> Prop),
  (forall x l x' l', I x l -> cuw_iter a x l = ICont x' l' -> I x' l') ->
  (forall x l r, I x l -> cuw_iter a x l = IStop r -> Q r) ->
  Q ROutOfFuel ->
  forall fuel x l, I x l -> Q (continue_until_wait fuel a x l).
Proof.
  intros a I Q Hstep Hstop Hfuel. induction fuel as [|fuel IH]; intros x l HI; [exact Hfuel|].
  rewrite cuw_unfold. destruct (cuw_iter a x l) as [r|x' l'] eqn:E.
  - eapply Hstop; eauto.
  - apply IH. eapply Hstep; eauto.
Qed.

(* a measure that decreases with every iteration bounds the fuel the loop needs *)
Lemma cuw_terminates : forall a (I : st -> lstate -> Prop) (mu : st -> lstate -> nat),
  (forall x l x' l', I x l -> cuw_iter a x l = ICont x' l' -> I x' l' /\ (mu x' l' < mu x l)%nat) ->
  (forall x l r, I x l -> cuw_iter a x l = IStop r -> r <> ROutOfFuel) ->
  forall fuel x l, I x l -> (mu x l < fuel)%nat -> continue_until_wait fuel a x l <> ROutOfFuel.
Proof.
  intros a I mu Hstep Hstop. induction fuel as [|fuel IH]; intros x l HI Hmu; [lia|].
  rewrite cuw_unfold. destruct (cuw_iter a x l) as [r|x' l'] eqn:E.
  - eapply Hstop; eauto.
  - destruct (Hstep _ _ _ _ HI E) as [HI' Hlt]. apply IH; auto. lia.
Qed.

(* ================================================================================================== *)
(* Shapes                                                                                              *)
(* ================================================================================================== *)

Definition shp := (option nat * rstatus * bool)%type.
Definition sh_parent (z : shp) : option nat := fst (fst z).
Definition sh_status (z : shp) : rstatus := snd (fst z).
Definition sh_exited (z : shp) : bool := snd z.

Definition shp_of (r : run) : shp := (r_parent r, r_status r, r_exited r).
Definition shape (s : session) : list shp := map shp_of (s_runs s).

Definition z_exit (st : rstatus) (z : shp) : shp := (sh_parent z, st, true).
Definition z_status (st : rstatus) (z : shp) : shp := (sh_parent z, st, sh_exited z).

Definition fail_at (i : nat) (sh : list shp) : list shp := update_nth sh i (z_exit RFailed).

Lemma update_nth_map : forall A B (g : A -> B) (f : A -> A) (f' : B -> B) l i,
  (forall x, g (f x) = f' (g x)) -> map g (update_nth l i f) = update_nth (map g l) i f'.
Proof. induction l; intros [|i] H; simpl; auto; f_equal; auto. Qed.

Lemma update_nth_id : forall A (f : A -> A) l i, (forall x, f x = x) -> update_nth l i f = l.
Proof. induction l; intros [|i] H; simpl; auto; f_equal; auto. Qed.

Lemma update_nth_ext : forall A (f g : A -> A) l i, (forall x, f x = g x) -> update_nth l i f = update_nth l i g.
Proof. induction l; intros [|i] H; simpl; auto; f_equal; auto. Qed.

Lemma shape_upd_run : forall s ri g g', (forall r, shp_of (g r) = g' (shp_of r)) ->
  shape (upd_run s ri g) = update_nth (shape s) ri g'.
Proof. intros. unfold shape, upd_run; simpl. apply update_nth_map; auto. Qed.

Lemma shape_upd_run_same : forall s ri g, (forall r, shp_of (g r) = shp_of r) -> shape (upd_run s ri g) = shape s.
Proof.
  intros. rewrite (shape_upd_run s ri g (fun z => z)); auto. apply update_nth_id; auto.
Qed.

Lemma shape_set_status : forall s x, shape (set_status s x) = shape s. Proof. reflexivity. Qed.
Lemma shape_set_input : forall s x, shape (set_input s x) = shape s. Proof. reflexivity. Qed.
Lemma shape_set_pushed : forall s x, shape (set_pushed s x) = shape s. Proof. reflexivity. Qed.

Lemma shape_log_event : forall x ri sr k, shape (session_ (log_event x ri sr k)) = shape (session_ x).
Proof. intros. unfold log_event; simpl. apply shape_upd_run_same. reflexivity. Qed.

Lemma shape_log_segment : forall x g, shape (session_ (log_segment x g)) = shape (session_ x).
Proof. reflexivity. Qed.

Lemma shape_fail_run : forall x ri sr c, shape (session_ (fail_run x ri sr c)) = fail_at ri (shape (session_ x)).
Proof.
  intros. unfold fail_run. rewrite shape_log_event. unfold with_session; simpl.
  apply shape_upd_run. reflexivity.
Qed.

(* the other fields of the session *)
Definition sess_frame (s s' : session) : Prop :=
  s_trigger s' = s_trigger s /\ s_flow s' = s_flow s /\ s_type s' = s_type s.

Lemma sess_frame_refl : forall s, sess_frame s s. Proof. repeat split. Qed.
Lemma sess_frame_trans : forall a b c, sess_frame a b -> sess_frame b c -> sess_frame a c.
Proof. unfold sess_frame; intros a b c (?&?&?) (?&?&?); repeat split; congruence. Qed.

(* ---- what the run-local helpers do to the shape ------------------------------------------------------ *)

(* [loc ri x x']: x' differs from x by work local to run ri that left the shape alone *)
Record same_shape (x x' : st) : Prop := {
  ss_shape : shape (session_ x') = shape (session_ x);
  ss_status : s_status (session_ x') = s_status (session_ x);
  ss_pushed : s_pushed (session_ x') = s_pushed (session_ x);
  ss_input : s_input (session_ x') = s_input (session_ x);
  ss_frame : sess_frame (session_ x) (session_ x')
}.

Lemma same_shape_refl : forall x, same_shape x x.
Proof. intros; constructor; auto using sess_frame_refl. Qed.

Lemma same_shape_trans : forall x y z, same_shape x y -> same_shape y z -> same_shape x z.
Proof.
  intros x y z [] []; constructor; try congruence. eapply sess_frame_trans; eauto.
Qed.

Lemma same_shape_log_event : forall x ri sr k, same_shape x (log_event x ri sr k).
Proof.
  intros; constructor; try reflexivity. - apply shape_log_event. - repeat split.
Qed.

Lemma same_shape_upd : forall x ri g, (forall r, shp_of (g r) = shp_of r) ->
  same_shape x (with_session x (fun s => upd_run s ri g)).
Proof.
  intros; constructor; try reflexivity. - simpl. apply shape_upd_run_same; auto. - repeat split.
Qed.

Lemma save_and_log_shape : forall a x ri sr name value cat nid input x' v,
  save_and_log a x ri sr name value cat nid input = Done x' v -> same_shape x x'.
Proof.
  intros a x ri sr name value cat nid input x' v. unfold save_and_log.
  destruct (trunc value _); [|discriminate]. destruct (trunc_ellipsis input _) as [kept|]; [|discriminate].
  destruct (get_run (session_ x) ri).
  - destruct (save_result _ _) as [rs ch]. intros H; inversion H; subst.
    destruct ch.
    + eapply same_shape_trans; [|apply same_shape_log_event]. apply same_shape_upd. reflexivity.
    + apply same_shape_upd. reflexivity.
  - intros H; inversion H; subst. apply same_shape_refl.
Qed.

Lemma save_and_log_no_goerr : forall a x ri sr name value cat nid input x',
  save_and_log a x ri sr name value cat nid input <> GoErr x'.
Proof.
  intros. unfold save_and_log. destruct (trunc value _); [|discriminate]. destruct (trunc_ellipsis input _) as [kept|]; [|discriminate].
  destruct (get_run (session_ x) ri); [destruct (save_result _ _)|]; discriminate.
Qed.

Lemma route_to_category_shape : forall a x ri sr n rt cat m op x' v,
  route_to_category a x ri sr n rt cat m op = Done x' v -> same_shape x x'.
Proof.
  intros a x ri sr n rt cat m op x' v. unfold route_to_category.
  destruct cat; [|intros H; inversion H; apply same_shape_refl].
  destruct (nth_error _ _); [|discriminate].
  destruct (rt_result rt); [|intros H; inversion H; apply same_shape_refl].
  destruct (save_and_log _ _ _ _ _ _ _ _ _) eqn:E; try discriminate.
  intros H; inversion H; subst. eapply save_and_log_shape; eauto.
Qed.

Lemma route_to_category_goerr : forall a x ri sr n rt cat m op x',
  route_to_category a x ri sr n rt cat m op = GoErr x' -> x' = x.
Proof.
  intros a x ri sr n rt cat m op x'. unfold route_to_category.
  destruct cat; [|discriminate].
  destruct (nth_error _ _); [|intros H; inversion H; auto].
  destruct (rt_result rt); [|discriminate].
  destruct (save_and_log _ _ _ _ _ _ _ _ _) eqn:E; try discriminate.
  exfalso; eapply save_and_log_no_goerr; eauto.
Qed.

Lemma route_shape : forall a x ri sr n rt x' v, route a x ri sr n rt = Done x' v -> same_shape x x'.
Proof.
  intros a x ri sr n rt x' v. unfold route.
  destruct (route_to_category _ _ _ _ _ _ _ _ _) eqn:E; try discriminate.
  intros H; inversion H; subst. eapply route_to_category_shape; eauto.
Qed.

Lemma route_goerr : forall a x ri sr n rt x', route a x ri sr n rt = GoErr x' -> x' = x.
Proof.
  intros a x ri sr n rt x'. unfold route.
  destruct (route_to_category _ _ _ _ _ _ _ _ _) eqn:E; try discriminate.
  intros H; inversion H; subst. eapply route_to_category_goerr; eauto.
Qed.

Lemma route_timeout_shape : forall a x ri sr n rt t x' v, route_timeout a x ri sr n rt t = Done x' v -> same_shape x x'.
Proof.
  intros a x ri sr n rt t x' v. unfold route_timeout.
  destruct (rt_wait rt) as [[wt [[? ?]|]]|]; try discriminate. apply route_to_category_shape.
Qed.

Lemma route_timeout_goerr : forall a x ri sr n rt t x', route_timeout a x ri sr n rt t = GoErr x' -> x' = x.
Proof.
  intros a x ri sr n rt t x'. unfold route_timeout.
  destruct (rt_wait rt) as [[wt [[? ?]|]]|]; try (intros H; inversion H; auto; fail).
  apply route_to_category_goerr.
Qed.

(* [failed_shape ri x x']: the only change to the shape is that run ri was failed (failRun) *)
Record failed_shape (ri : nat) (x x' : st) : Prop := {
  fs_shape : shape (session_ x') = fail_at ri (shape (session_ x));
  fs_status : s_status (session_ x') = s_status (session_ x);
  fs_pushed : s_pushed (session_ x') = s_pushed (session_ x);
  fs_input : s_input (session_ x') = s_input (session_ x);
  fs_frame : sess_frame (session_ x) (session_ x')
}.

Lemma failed_shape_fail_run : forall x ri sr c, failed_shape ri x (fail_run x ri sr c).
Proof.
  intros; constructor; try reflexivity. - apply shape_fail_run. - repeat split.
Qed.

Lemma failed_after_same : forall ri x y z, same_shape x y -> failed_shape ri y z -> failed_shape ri x z.
Proof.
  intros ri x y z [] []; constructor; try congruence. eapply sess_frame_trans; eauto.
Qed.

Lemma same_after_failed : forall ri x y z, failed_shape ri x y -> same_shape y z -> failed_shape ri x z.
Proof.
  intros ri x y z [] []; constructor; try congruence. eapply sess_frame_trans; eauto.
Qed.

Lemma pick_node_exit_shape : forall a x ri n pos it tmo x' e op,
  pick_node_exit a x ri n pos it tmo = Done x' (e, op) ->
  same_shape x x' \/ (e = None /\ failed_shape ri x x').
Proof.
  intros a x ri n pos it tmo x' e op. unfold pick_node_exit.
  destruct (n_router n) as [rt|] eqn:Ert.
  - destruct it.
    + destruct (route_timeout a x ri (Some (ri, pos)) n rt tmo) as [y v| |] eqn:E; try discriminate.
      pose proof (route_timeout_shape _ _ _ _ _ _ _ _ _ E) as Hr. destruct v as [i|].
      * intros H; inversion H; subst. left. eapply same_shape_trans; [exact Hr|]. apply same_shape_upd. reflexivity.
      * intros H; inversion H; subst. right. split; auto.
        eapply failed_after_same; [exact Hr|apply failed_shape_fail_run].
    + destruct (route a x ri (Some (ri, pos)) n rt) as [y [v operand]| |] eqn:E; try discriminate.
      pose proof (route_shape _ _ _ _ _ _ _ _ E) as Hr. destruct v as [i|].
      * intros H; inversion H; subst. left. eapply same_shape_trans; [exact Hr|]. apply same_shape_upd. reflexivity.
      * intros H; inversion H; subst. right. split; auto.
        eapply failed_after_same; [exact Hr|apply failed_shape_fail_run].
  - destruct (n_exits n) as [|e0 es]; intros H; inversion H; subst; left; apply same_shape_upd; reflexivity.
Qed.

Lemma pick_node_exit_goerr : forall a x ri n pos it tmo x', pick_node_exit a x ri n pos it tmo = GoErr x' -> x' = x.
Proof.
  intros a x ri n pos it tmo x'. unfold pick_node_exit.
  destruct (n_router n) as [rt|].
  - destruct it.
    + destruct (route_timeout a x ri (Some (ri, pos)) n rt tmo) eqn:E; try discriminate.
      * destruct v; discriminate.
      * intros H; inversion H; subst. eapply route_timeout_goerr; eauto.
    + destruct (route a x ri (Some (ri, pos)) n rt) eqn:E; try discriminate.
      * destruct v as [[?|] ?]; discriminate.
      * intros H; inversion H; subst. eapply route_goerr; eauto.
  - destruct (n_exits n); discriminate.
Qed.

Definition status_at (x : st) (i : nat) : option rstatus := run_status (session_ x) i.

Lemma run_status_shape : forall s i, run_status s i = option_map sh_status (nth_error (shape s) i).
Proof.
  intros. unfold run_status, get_run, shape. rewrite nth_error_map. destruct (nth_error (s_runs s) i); reflexivity.
Qed.

Lemma find_resume_exit_shape : forall a x ri it tmo,
  match find_resume_exit a x ri it tmo with
  | FreOk x' e op => (same_shape x x' /\ (e <> None -> status_at x ri = Some RActive)) \/ (e = None /\ failed_shape ri x x')
  | FreErr x' => x' = x
  | FreGoErr _ => False
  | FrePanic => False
  end.
Proof.
  intros. unfold find_resume_exit, status_at.
  destruct (run_status (session_ x) ri) as [[]|] eqn:Es;
    try (left; split; [apply same_shape_refl|intros C; congruence]).
  destruct (path_location a (session_ x) ri) as [[pos n]|]; [|reflexivity].
  destruct (pick_node_exit a x ri n pos it tmo) as [x' [e op]|x'|] eqn:E.
  - destruct (pick_node_exit_shape _ _ _ _ _ _ _ _ _ _ E) as [H|[H1 H2]]; [left|right]; auto.
  - eapply pick_node_exit_goerr; eauto.
  - eapply pick_node_exit_no_panic; eauto.
Qed.

(* ---- actions -------------------------------------------------------------------------------------------- *)

Record action_ok (x x' : st) : Prop := {
  ao_shape : shape (session_ x') = shape (session_ x);
  ao_status : s_status (session_ x') = s_status (session_ x);
  ao_pushed : s_pushed (session_ x') = s_pushed (session_ x) \/ exists p, s_pushed (session_ x') = Some p;
  ao_input : s_input (session_ x') = s_input (session_ x);
  ao_frame : sess_frame (session_ x) (session_ x')
}.

Lemma action_ok_of_same : forall x x', same_shape x x' -> action_ok x x'.
Proof. intros x x' []; constructor; auto. Qed.

Lemma action_ok_trans : forall x y z, action_ok x y -> action_ok y z -> action_ok x z.
Proof.
  intros x y z [] []; constructor; try congruence.
  - destruct ao_pushed1 as [E|[p E]]; [rewrite E; auto|right; eauto].
  - eapply sess_frame_trans; eauto.
Qed.

Lemma exec_action_shape : forall a x ri pos n act x' v,
  exec_action a x ri pos n act = Done x' v -> action_ok x x' \/ failed_shape ri x x'.
Proof.
  intros a x ri pos n act x' v. unfold exec_action. destruct act.
  - destruct (trunc_ellipsis _ _); [|discriminate]. intros H; inversion H; subst.
    left. apply action_ok_of_same, same_shape_log_event.
  - destruct (trunc_ellipsis _ _); [|discriminate]. intros H. left. apply action_ok_of_same.
    eapply save_and_log_shape; eauto.
  - destruct (get_flow a flow).
    + destruct (negb _).
      * intros H; inversion H; subst. right.
        change (failed_shape ri x (fail_run x ri (Some (ri, pos)) FEnterFlowType)). apply failed_shape_fail_run.
      * intros H; inversion H; subst. left. constructor; try reflexivity.
        -- rewrite shape_log_event. reflexivity.
        -- right. eexists. reflexivity.
        -- repeat split.
    + intros H; inversion H; subst. right.
      change (failed_shape ri x (fail_run x ri (Some (ri, pos)) FEnterMissingFlow)). apply failed_shape_fail_run.
Qed.

Lemma exec_action_no_goerr : forall a x ri pos n act x', exec_action a x ri pos n act <> GoErr x'.
Proof.
  intros. unfold exec_action. destruct act.
  - destruct (trunc_ellipsis _ _); discriminate.
  - destruct (trunc_ellipsis _ _); [|discriminate]. apply save_and_log_no_goerr.
  - destruct (get_flow a flow); [destruct (negb _)|]; discriminate.
Qed.

Lemma exec_actions_no_goerr : forall a acts x ri pos n x', exec_actions a x ri pos n acts <> GoErr x'.
Proof.
  induction acts as [|act acts IH]; intros; simpl; [discriminate|].
  destruct (exec_action a x ri pos n act) eqn:E; try discriminate.
  - destruct (run_status _ _) as [[]|]; try apply IH. discriminate.
  - exfalso; eapply exec_action_no_goerr; eauto.
Qed.

Lemma fail_at_status : forall sh ri, option_map sh_status (nth_error (fail_at ri sh) ri) =
                                     match nth_error sh ri with Some _ => Some RFailed | None => None end.
Proof. intros. unfold fail_at. rewrite nth_error_update_nth_eq. destruct (nth_error sh ri); reflexivity. Qed.

(* the action loop: either no action failed the run, or the run is failed and nothing is pushed *)
Record actions_failed (ri : nat) (x x' : st) : Prop := {
  af_shape : shape (session_ x') = fail_at ri (shape (session_ x));
  af_status : s_status (session_ x') = s_status (session_ x);
  af_pushed : s_pushed (session_ x') = None;
  af_input : s_input (session_ x') = s_input (session_ x);
  af_frame : sess_frame (session_ x) (session_ x')
}.

Lemma exec_actions_shape : forall a acts x ri pos n x' b,
  status_at x ri = Some RActive ->
  exec_actions a x ri pos n acts = Done x' b ->
  if b then actions_failed ri x x' else action_ok x x' /\ (acts = [] -> x' = x).
Proof.
  induction acts as [|act acts IH]; intros x ri pos n x' b Hact; simpl.
  - intros H; inversion H; subst. split; auto. apply action_ok_of_same, same_shape_refl.
  - destruct (exec_action a x ri pos n act) as [y v| |] eqn:E; try discriminate.
    destruct (exec_action_shape _ _ _ _ _ _ _ _ E) as [Hok|Hf].
    + assert (Hy : status_at y ri = Some RActive).
      { unfold status_at in *. rewrite run_status_shape in *. rewrite (ao_shape _ _ Hok). exact Hact. }
      unfold status_at in Hy. rewrite Hy. intros H. specialize (IH _ _ _ _ _ _ Hy H).
      destruct b.
      * destruct Hok, IH; constructor; try congruence. eapply sess_frame_trans; eauto.
      * destruct IH as [IH1 _]. split; [eapply action_ok_trans; eauto|discriminate].
    + assert (Hy : run_status (session_ y) ri = Some RFailed).
      { rewrite run_status_shape, (fs_shape _ _ _ Hf), fail_at_status.
        unfold status_at in Hact. rewrite run_status_shape in Hact.
        destruct (nth_error (shape (session_ x)) ri); [reflexivity|discriminate]. }
      rewrite Hy. intros H; inversion H; subst.
      destruct Hf; constructor; simpl; auto.
Qed.

(* ---- visitNode ------------------------------------------------------------------------------------------- *)

Definition wait_at (i : nat) (sh : list shp) : list shp := update_nth sh i (z_status RWaiting).

Inductive visit_outcome (ri : nat) (x x' : st) (e : option exit) : Prop :=
| VFailed :      (* an action or the router failed the run *)
    shape (session_ x') = fail_at ri (shape (session_ x)) -> s_status (session_ x') = s_status (session_ x) ->
    s_pushed (session_ x') = None -> e = None -> visit_outcome ri x x' e
| VPushed : forall p,      (* an enter_flow action pushed a flow *)
    shape (session_ x') = shape (session_ x) -> s_status (session_ x') = s_status (session_ x) ->
    s_pushed (session_ x') = Some p -> e = None -> visit_outcome ri x x' e
| VWaiting :     (* the wait began *)
    shape (session_ x') = wait_at ri (shape (session_ x)) -> s_status (session_ x') = SWaiting ->
    s_pushed (session_ x') = None -> e = None -> visit_outcome ri x x' e
| VRouted :      (* an exit was picked (or the node has none) *)
    shape (session_ x') = shape (session_ x) -> s_status (session_ x') = s_status (session_ x) ->
    s_pushed (session_ x') = None -> visit_outcome ri x x' e.

Lemma visit_node_shape : forall a x ri n wt x' pos e op,
  status_at x ri = Some RActive -> s_pushed (session_ x) = None ->
  visit_node a x ri n wt = Done x' (pos, e, op) ->
  visit_outcome ri x x' e /\ sess_frame (session_ x) (session_ x').
Proof.
  intros a x ri n wt x' pos e op Hact Hpush. unfold visit_node.
  destruct (get_run (session_ x) ri) as [r0|]; [|discriminate].
  set (x1 := with_session x (fun s => upd_run s ri (run_add_step {| st_node := n_id n; st_exit := None |}))).
  assert (H1 : same_shape x x1) by (apply same_shape_upd; reflexivity).
  set (x2 := if wt then match s_trigger (session_ x1) with
                        | TMsg t => log_event (with_session x1 (fun s => set_input s (Some t))) ri (Some (ri, length (r_path r0))) (EMsgReceived t)
                        | _ => x1
                        end else x1).
  assert (H2 : shape (session_ x2) = shape (session_ x) /\ s_status (session_ x2) = s_status (session_ x) /\
               s_pushed (session_ x2) = s_pushed (session_ x) /\ sess_frame (session_ x) (session_ x2)).
  { unfold x2. destruct wt; [destruct (s_trigger (session_ x1))|];
      try rewrite shape_log_event; simpl; destruct H1 as [A B C D (F1 & F2 & F3)]; simpl in *; repeat split; auto. }
  destruct H2 as (S2 & T2 & P2 & F2).
  assert (Hact2 : status_at x2 ri = Some RActive).
  { unfold status_at in *. rewrite run_status_shape in *. rewrite S2. exact Hact. }
  destruct (exec_actions a x2 ri (length (r_path r0)) n (n_actions n)) as [x3 b| |] eqn:Ea; try discriminate.
  pose proof (exec_actions_shape _ _ _ _ _ _ _ _ Hact2 Ea) as H3.
  destruct b.
  - destruct H3 as [A B C D F]. intros H; inversion H; subst. split.
    + apply VFailed; try congruence.
    + eapply sess_frame_trans; eauto.
  - destruct H3 as [[A B C D F] _].
    assert (F3 : sess_frame (session_ x) (session_ x3)) by (eapply sess_frame_trans; eauto).
    destruct (s_pushed (session_ x3)) as [p|] eqn:Ep.
    + intros H; inversion H; subst. split; auto. eapply VPushed; eauto; congruence.
    + match goal with |- context [match ?bw with Some _ => _ | None => match pick_node_exit ?A ?X ?R ?N ?P ?I ?T with _ => _ end end] =>
        destruct bw as [x4|] eqn:Ebw end.
      * intros H; inversion H; subst. clear H.
        assert (H4 : shape (session_ x4) = shape (session_ x3) /\ s_pushed (session_ x4) = None /\
                     sess_frame (session_ x3) (session_ x4)).
        { destruct (n_router n) as [rt|]; [|discriminate]. destruct (rt_wait rt) as [[[] tmo]|]; try discriminate; try (dmatch_hyp Ebw; [discriminate|]); inversion Ebw; subst.
      all: (rewrite shape_log_event; simpl; repeat split; auto). }
        destruct H4 as (S4 & P4 & F4). split.
        -- apply VWaiting; [|reflexivity|exact P4|reflexivity].
           unfold with_session; cbn [session_]. rewrite shape_set_status.
           rewrite (shape_upd_run _ ri (run_set_status RWaiting) (z_status RWaiting)) by reflexivity.
           unfold wait_at. congruence.
        -- simpl. destruct F4 as (?&?&?), F3 as (?&?&?). repeat split; simpl; congruence.
      * destruct (pick_node_exit a x3 ri n (length (r_path r0)) false []) as [x5 [e5 op5]| |] eqn:Epk; try discriminate.
        intros H; inversion H; subst. clear H.
        destruct (pick_node_exit_shape _ _ _ _ _ _ _ _ _ _ Epk) as [[A5 B5 C5 D5 F5]|[-> [A5 B5 C5 D5 F5]]].
        -- split; [|eapply sess_frame_trans; eauto]. apply VRouted; congruence.
        -- split; [|eapply sess_frame_trans; eauto]. apply VFailed; congruence.
Qed.


(* ================================================================================================== *)
(* Invariants of shapes                                                                                *)
(* ================================================================================================== *)

Definition is_final (st : rstatus) : bool :=
  match st with RCompleted | RFailed | RExpired => true | RActive | RWaiting => false end.

(* parents precede their children; exited is set exactly for completed, failed and expired runs *)
Definition wf_parents (sh : list shp) : Prop :=
  forall i z p, nth_error sh i = Some z -> sh_parent z = Some p -> (p < i)%nat.
Definition exited_ok (sh : list shp) : Prop :=
  forall i z, nth_error sh i = Some z -> sh_exited z = is_final (sh_status z).
Definition none_waiting (sh : list shp) : Prop :=
  forall i z, nth_error sh i = Some z -> sh_status z <> RWaiting.
Definition none_live (sh : list shp) : Prop :=
  forall i z, nth_error sh i = Some z -> sh_status z <> RActive /\ sh_status z <> RWaiting.

(* [achain sh o i]: starting at run o and following parents, i is reached through active runs only *)
Inductive achain (sh : list shp) : option nat -> nat -> Prop :=
| ac_here : forall p z, nth_error sh p = Some z -> sh_status z = RActive -> achain sh (Some p) p
| ac_up : forall p z i, nth_error sh p = Some z -> sh_status z = RActive -> achain sh (sh_parent z) i -> achain sh (Some p) i.

(* [anc sh o i]: i is o or an ancestor of o *)
Inductive anc (sh : list shp) : option nat -> nat -> Prop :=
| an_here : forall p z, nth_error sh p = Some z -> anc sh (Some p) p
| an_up : forall p z i, nth_error sh p = Some z -> anc sh (sh_parent z) i -> anc sh (Some p) i.

Lemma achain_anc : forall sh o i, achain sh o i -> anc sh o i.
Proof. induction 1; eauto using anc. Qed.

Definition parent_of (sh : list shp) (c : nat) : option nat :=
  match nth_error sh c with Some z => sh_parent z | None => None end.

(* every active run is the current one or is reached from its parent through active runs *)
Definition active_under (sh : list shp) (c : nat) : Prop :=
  forall i z, nth_error sh i = Some z -> sh_status z = RActive -> i = c \/ achain sh (parent_of sh c) i.

Lemma achain_le : forall sh, wf_parents sh -> forall o i, achain sh o i -> forall p, o = Some p -> (i <= p)%nat.
Proof.
  intros sh Hwf o i H. induction H; intros q Hq; inversion Hq; subst; auto.
  destruct (sh_parent z) as [p'|] eqn:Ep; [|inversion H1].
  specialize (IHachain _ eq_refl). specialize (Hwf _ _ _ H Ep). lia.
Qed.

(* a change at index k does not affect chains that start below k *)
Lemma achain_update_above : forall sh k f, wf_parents sh -> (forall z, sh_parent (f z) = sh_parent z) ->
  forall o i, (forall p, o = Some p -> (p < k)%nat) ->
  (achain (update_nth sh k f) o i <-> achain sh o i).
Proof.
  intros sh k f Hwf Hf o i Ho. split; intros H.
  - induction H.
    + specialize (Ho _ eq_refl). rewrite nth_error_update_nth_neq in H by lia. eapply ac_here; eauto.
    + specialize (Ho _ eq_refl). rewrite nth_error_update_nth_neq in H by lia. eapply ac_up; eauto.
      apply IHachain. intros q Hq. specialize (Hwf _ _ _ H Hq). lia.
  - induction H.
    + specialize (Ho _ eq_refl). eapply ac_here; eauto. rewrite nth_error_update_nth_neq by lia. auto.
    + specialize (Ho _ eq_refl). eapply ac_up; eauto.
      * rewrite nth_error_update_nth_neq by lia. eauto.
      * apply IHachain. intros q Hq. specialize (Hwf _ _ _ H Hq). lia.
Qed.

Lemma achain_app : forall sh z0, wf_parents sh ->
  forall o i, (forall p, o = Some p -> (p < length sh)%nat) ->
  (achain (sh ++ [z0]) o i <-> achain sh o i).
Proof.
  intros sh z0 Hwf o i Ho. split; intros H.
  - induction H.
    + specialize (Ho _ eq_refl). rewrite nth_error_app1 in H by lia. eapply ac_here; eauto.
    + specialize (Ho _ eq_refl). rewrite nth_error_app1 in H by lia. eapply ac_up; eauto.
      apply IHachain. intros q Hq. specialize (Hwf _ _ _ H Hq). lia.
  - induction H.
    + assert (p < length sh)%nat by (apply nth_error_Some; congruence).
      apply ac_here with (z := z); auto. rewrite nth_error_app1; auto.
    + assert (p < length sh)%nat by (apply nth_error_Some; congruence).
      apply ac_up with (z := z); auto.
      * rewrite nth_error_app1; auto.
      * apply IHachain. intros q Hq. specialize (Hwf _ _ _ H Hq). lia.
Qed.

Lemma wf_parents_update : forall sh k f, wf_parents sh -> (forall z, sh_parent (f z) = sh_parent z) ->
  wf_parents (update_nth sh k f).
Proof.
  intros sh k f Hwf Hf i z p Hn Hp. destruct (Nat.eq_dec k i) as [->|Hne].
  - rewrite nth_error_update_nth_eq in Hn. destruct (nth_error sh i) as [z0|] eqn:E; inversion Hn; subst.
    rewrite Hf in Hp. eauto.
  - rewrite nth_error_update_nth_neq in Hn by auto. eauto.
Qed.

Lemma wf_parents_map : forall sh f, wf_parents sh -> (forall z, sh_parent (f z) = sh_parent z) -> wf_parents (map f sh).
Proof.
  intros sh f Hwf Hf i z p Hn Hp. rewrite nth_error_map in Hn.
  destruct (nth_error sh i) as [z0|] eqn:E; inversion Hn; subst. rewrite Hf in Hp. eauto.
Qed.

Lemma wf_parents_app : forall sh z0, wf_parents sh -> (forall p, sh_parent z0 = Some p -> (p < length sh)%nat) ->
  wf_parents (sh ++ [z0]).
Proof.
  intros sh z0 Hwf H0 i z p Hn Hp. destruct (Nat.lt_ge_cases i (length sh)).
  - rewrite nth_error_app1 in Hn by auto. eauto.
  - rewrite nth_error_app2 in Hn by auto. destruct (i - length sh)%nat eqn:E; simpl in Hn.
    + inversion Hn; subst. specialize (H0 _ Hp). lia.
    + destruct n; discriminate.
Qed.

Lemma exited_ok_update : forall sh k f, exited_ok sh ->
  (forall z, nth_error sh k = Some z -> sh_exited (f z) = is_final (sh_status (f z))) -> exited_ok (update_nth sh k f).
Proof.
  intros sh k f Hok Hf i z Hn. destruct (Nat.eq_dec k i) as [->|Hne].
  - rewrite nth_error_update_nth_eq in Hn. destruct (nth_error sh i) as [z0|] eqn:E; inversion Hn; subst. auto.
  - rewrite nth_error_update_nth_neq in Hn by auto. eauto.
Qed.

Lemma exited_ok_app : forall sh z0, exited_ok sh -> sh_exited z0 = is_final (sh_status z0) -> exited_ok (sh ++ [z0]).
Proof.
  intros sh z0 Hok H0 i z Hn. destruct (Nat.lt_ge_cases i (length sh)).
  - rewrite nth_error_app1 in Hn by auto. eauto.
  - rewrite nth_error_app2 in Hn by auto. destruct (i - length sh)%nat eqn:E; simpl in Hn.
    + inversion Hn; subst. auto.
    + destruct n; discriminate.
Qed.

Lemma none_waiting_update : forall sh k f, none_waiting sh -> (forall z, sh_status (f z) <> RWaiting) ->
  none_waiting (update_nth sh k f).
Proof.
  intros sh k f Hnw Hf i z Hn. destruct (Nat.eq_dec k i) as [->|Hne].
  - rewrite nth_error_update_nth_eq in Hn. destruct (nth_error sh i) as [z0|] eqn:E; inversion Hn; subst. auto.
  - rewrite nth_error_update_nth_neq in Hn by auto. eauto.
Qed.

(* de-activating the current run (or leaving it as it is) keeps [active_under] *)
Lemma active_under_update_cur : forall sh c f, wf_parents sh -> active_under sh c ->
  (forall z, sh_parent (f z) = sh_parent z) ->
  (forall z, sh_status (f z) = RActive -> sh_status z = RActive) ->
  active_under (update_nth sh c f) c.
Proof.
  intros sh c f Hwf Hau Hp Hs i z Hn Ha.
  assert (Hpar : parent_of (update_nth sh c f) c = parent_of sh c).
  { unfold parent_of. rewrite nth_error_update_nth_eq. destruct (nth_error sh c); simpl; auto. }
  destruct (Nat.eq_dec i c) as [->|Hne]; [left; reflexivity|]. right.
  rewrite nth_error_update_nth_neq in Hn by auto.
  destruct (Hau _ _ Hn Ha) as [->|Hc]; [congruence|].
  rewrite Hpar. apply achain_update_above; auto.
  intros p Ep. unfold parent_of in Ep. destruct (nth_error sh c) as [zc|] eqn:Ec; [|discriminate]. eauto.
Qed.

(* ---- one iteration in three phases (each a verbatim part of [cuw_iter]) ------------------------------- *)

Definition pick_dest (a : assets) (x : st) (l : lstate) : st * lstate * option id :=

        match s_pushed (session_ x) with
        | Some p =>
            let x := if p_terminal p then with_session x exit_all_completed else x in
            let idx := length (s_runs (session_ x)) in
            let x := with_session x (fun s => set_pushed (set_runs s (s_runs s ++ [new_run (p_flow p) (l_cur l)])) None) in
            let dest := match get_flow a (p_flow p) with
                        | Some f => match f_nodes f with n :: _ => Some (n_id n) | [] => None end
                        | None => None
                        end in
            (* `step = nil`: the new run has not visited any node yet *)
            (x, {| l_cur := Some idx; l_node := l_node l; l_exit := l_exit l; l_operand := l_operand l;
                   l_step := None; l_steps := l_steps l; l_trigger := l_trigger l |}, dest)
        | None =>
            match l_exit l with
            | Some e =>
                let x :=
                  match e_dest e, l_cur l with
                  | Some d, Some ci =>
                      match get_run (session_ x) ci with
                      | Some r =>
                          match get_flow a (r_flow r) with
                          | Some f =>
                              match get_node f d, l_node l with
                              | Some _, Some (_, nid) =>
                                  log_segment x {| sg_flow := r_flow r; sg_node := nid; sg_exit := e_id e;
                                                   sg_operand := l_operand l; sg_dest := d |}
                              | _, _ => x
                              end
                          | None => x
                          end
                      | None => x
                      end
                  | _, _ => x
                  end in
                (x, {| l_cur := l_cur l; l_node := l_node l; l_exit := None; l_operand := [];
                       l_step := l_step l; l_steps := l_steps l; l_trigger := l_trigger l |}, e_dest e)
            | None => (x, l, None)
            end
        end.

Definition finish_run (a : assets) (x : st) (l : lstate) (ci : nat) : iter :=

              (* 2. no destination: the current run is done *)
              let x := match get_run (session_ x) ci with
                       | Some r => if r_exited r then x else with_session x (fun s => upd_run s ci (run_exit RCompleted))
                       | None => x
                       end in
              let parent := match get_run (session_ x) ci with Some r => r_parent r | None => None end in
              let parent_active := match parent with
                                   | Some pi => match run_status (session_ x) pi with Some RActive => true | _ => false end
                                   | None => false
                                   end in
              match parent, parent_active with
              | Some pi, true =>
                  let child_failed := match run_status (session_ x) ci with Some RFailed => true | _ => false end in
                  (* `step, _, _ = currentRun.PathLocation()` *)
                  let psr := match path_location a (session_ x) pi with
                             | Some (pos, _) => Some (pi, pos)
                             | None => None
                             end in
                  let l := {| l_cur := Some pi; l_node := l_node l; l_exit := l_exit l; l_operand := l_operand l;
                              l_step := psr; l_steps := l_steps l; l_trigger := l_trigger l |} in
                  if negb child_failed then
                    let flow_missing := run_flow_unusable a (session_ x) pi in
                    if flow_missing
                    then ICont (fail_run x pi None (unusable_code a (session_ x) pi FParentMissingFlow)) l
                    else
                      match find_resume_exit a x pi false [] with
                      | FreOk x' e op =>
                          ICont x'
                            {| l_cur := Some pi; l_node := l_node l; l_exit := e; l_operand := op;
                               l_step := l_step l; l_steps := l_steps l; l_trigger := l_trigger l |}
                      | FreErr x' =>
                          ICont (fail_run x' pi None FParentNodeGone)
                            {| l_cur := Some pi; l_node := l_node l; l_exit := None; l_operand := [];
                               l_step := l_step l; l_steps := l_steps l; l_trigger := l_trigger l |}
                      | FreGoErr x' => IStop (RGoError x')
                      | FrePanic => IStop RPanic
                      end
                  else
                    ICont (fail_run x pi psr FChildFailed) l
              | _, _ =>
                  let failed := match run_status (session_ x) ci with Some RFailed => true | _ => false end in
                  IStop (ROk (with_session x (fun s => set_status s (if failed then SFailed else SCompleted))))
              end.

Definition goto_node (a : assets) (x : st) (l : lstate) (ci : nat) (d : id) : iter :=

              (* 3. go to the destination *)
              let steps := (l_steps l + 1)%Z in
              let l := {| l_cur := l_cur l; l_node := l_node l; l_exit := l_exit l; l_operand := l_operand l;
                          l_step := l_step l; l_steps := steps; l_trigger := l_trigger l |} in
              if (steps >? max_steps (a_opts a))%Z
              then ICont (fail_run x ci (l_step l) FStepLimit) l
              else
                match get_run (session_ x) ci with
                | None => IStop (RGoError x)
                | Some r =>
                    match get_flow a (r_flow r) with
                    | None => IStop (RGoError x)
                    | Some f =>
                        match get_node f d with
                        | None => IStop (RGoError x)            (* "unable to find destination node" *)
                        | Some n =>
                            match visit_node a x ci n (l_trigger l) with
                            | GoErr x' => IStop (RGoError x')
                            | Panicked => IStop RPanic
                            | Done x' (pos, e, op) =>
                                let l := {| l_cur := Some ci; l_node := Some (r_flow r, n_id n); l_exit := e;
                                            l_operand := op; l_step := Some (ci, pos); l_steps := steps;
                                            l_trigger := false |} in
                                if sstatus_eqb (s_status (session_ x')) SWaiting
                                then IStop (ROk x')
                                else ICont x' l
                            end
                        end
                    end
                end.

Lemma cuw_iter_phases : forall a x l,
  cuw_iter a x l =
  let '(x1, l1, dest) := pick_dest a x l in
  match l_cur l1 with
  | None => IStop (RGoError x1)
  | Some ci => match dest with None => finish_run a x1 l1 ci | Some d => goto_node a x1 l1 ci d end
  end.
Proof. intros. unfold cuw_iter, pick_dest, finish_run, goto_node. repeat (first [reflexivity | dmatch]). Qed.

(* ================================================================================================== *)
(* The loop invariant (shape part)                                                                     *)
(* ================================================================================================== *)

Definition st_at (sh : list shp) (i : nat) : option rstatus := option_map sh_status (nth_error sh i).

Record core_inv (s : session) : Prop := {
  ci_wf : wf_parents (shape s);
  ci_ex : exited_ok (shape s)
}.

(* between the phases of an iteration: run c is current, nothing is pushed, no exit is pending *)
Record mid_inv (x : st) (l : lstate) (c : nat) (dest : option id) : Prop := {
  mi_core : core_inv (session_ x);
  mi_status : s_status (session_ x) = SActive;
  mi_nw : none_waiting (shape (session_ x));
  mi_cur : l_cur l = Some c;
  mi_lt : (c < length (shape (session_ x)))%nat;
  mi_au : active_under (shape (session_ x)) c;
  mi_pushed : s_pushed (session_ x) = None;
  mi_exit : l_exit l = None;
  mi_dest : dest <> None -> st_at (shape (session_ x)) c = Some RActive
}.

Definition cur_ok (s : session) (l : lstate) : Prop :=
  match l_cur l with
  | None => s_runs s = [] /\ s_pushed s <> None /\ l_exit l = None
  | Some c => (c < length (shape s))%nat /\ active_under (shape s) c /\
              (s_pushed s <> None -> st_at (shape s) c = Some RActive /\ l_exit l = None) /\
              (l_exit l <> None -> st_at (shape s) c = Some RActive)
  end.

Record loop_inv (x : st) (l : lstate) : Prop := {
  li_core : core_inv (session_ x);
  li_status : s_status (session_ x) = SActive;
  li_nw : none_waiting (shape (session_ x));
  li_cur : cur_ok (session_ x) l
}.

(* what holds between engine calls *)
Definition post_inv (s : session) : Prop :=
  core_inv s /\ s_pushed s = None /\
  match s_status s with
  | SWaiting => exists w, waiting_run s = Some w /\
                  (forall j z, nth_error (shape s) j = Some z -> sh_status z = RWaiting -> j = w) /\
                  (forall i z, nth_error (shape s) i = Some z -> sh_status z = RActive ->
                               achain (shape s) (parent_of (shape s) w) i)
  | SCompleted | SFailed => none_live (shape s)
  | SActive => False
  end.

Lemma nth_error_shape : forall s j, nth_error (shape s) j = option_map shp_of (nth_error (s_runs s) j).
Proof. intros. unfold shape. apply nth_error_map. Qed.

Lemma shape_length : forall s, length (shape s) = length (s_runs s).
Proof. intros. unfold shape. apply map_length. Qed.

Lemma waiting_run_unique : forall s w z,
  nth_error (shape s) w = Some z -> sh_status z = RWaiting ->
  (forall j z', nth_error (shape s) j = Some z' -> sh_status z' = RWaiting -> j = w) ->
  waiting_run s = Some w.
Proof.
  intros s w z Hn Hs Hu. unfold waiting_run. destruct (waiting_run_from 0 (s_runs s)) as [w'|] eqn:E.
  - destruct (waiting_run_from_some _ _ _ E) as (r & Hr & Hrs & _ & _). rewrite Nat.sub_0_r in Hr.
    f_equal. eapply Hu; [rewrite nth_error_shape, Hr; reflexivity|exact Hrs].
  - apply waiting_run_from_none in E. rewrite nth_error_shape in Hn.
    destruct (nth_error (s_runs s) w) as [r|] eqn:Er; [|discriminate]. inversion Hn; subst.
    rewrite Forall_forall in E. exfalso. eapply E; [eapply nth_error_In; eauto|exact Hs].
Qed.

Lemma waiting_run_shape : forall s w, waiting_run s = Some w ->
  exists z, nth_error (shape s) w = Some z /\ sh_status z = RWaiting.
Proof.
  intros s w H. destruct (waiting_run_from_some _ _ _ H) as (r & Hr & Hrs & _ & _). rewrite Nat.sub_0_r in Hr.
  exists (shp_of r). rewrite nth_error_shape, Hr. split; auto.
Qed.

Lemma fail_at_facts : forall sh k,
  (forall z, sh_parent (z_exit RFailed z) = sh_parent z) /\
  (forall z, sh_status (z_exit RFailed z) <> RWaiting) /\
  (forall z, sh_status (z_exit RFailed z) = RActive -> sh_status z = RActive) /\
  (forall z, nth_error sh k = Some z -> sh_exited (z_exit RFailed z) = is_final (sh_status (z_exit RFailed z))).
Proof. intros; repeat split; intros; simpl in *; auto; discriminate. Qed.

Lemma core_inv_fail_at : forall s s' k, core_inv s -> shape s' = fail_at k (shape s) -> core_inv s'.
Proof.
  intros s s' k [Hwf Hex] E. constructor; rewrite E; unfold fail_at.
  - apply wf_parents_update; auto.
  - apply exited_ok_update; auto.
Qed.

Lemma core_inv_same : forall s s', core_inv s -> shape s' = shape s -> core_inv s'.
Proof. intros s s' [Hwf Hex] E. constructor; rewrite E; auto. Qed.

Lemma st_at_fail_at_other : forall sh k i, i <> k -> st_at (fail_at k sh) i = st_at sh i.
Proof. intros. unfold st_at, fail_at. rewrite nth_error_update_nth_neq by auto. reflexivity. Qed.

Lemma update_nth_length' : forall A (l : list A) i f, length (update_nth l i f) = length l.
Proof. exact update_nth_length. Qed.

(* failing the current run *)
Lemma mid_fail_cur : forall x l c x' l' dest,
  mid_inv x l c dest -> failed_shape c x x' -> l_cur l' = Some c -> l_exit l' = None -> loop_inv x' l'.
Proof.
  intros x l c x' l' dest [] [] Hc He.
  constructor.
  - eapply core_inv_fail_at; eauto.
  - congruence.
  - rewrite fs_shape0. unfold fail_at. apply none_waiting_update; auto. intros; simpl; discriminate.
  - unfold cur_ok. rewrite Hc, fs_shape0. unfold fail_at. rewrite update_nth_length.
    split; [auto|]. split.
    + destruct mi_core0. apply active_under_update_cur; auto. intros z; simpl; discriminate.
    + split; [intros C; rewrite fs_pushed0 in C; contradiction|intros C; contradiction].
Qed.

Lemma status_at_st_at : forall x i, status_at x i = st_at (shape (session_ x)) i.
Proof. intros. unfold status_at, st_at. apply run_status_shape. Qed.

Lemma st_at_active_exited : forall sh c, exited_ok sh -> st_at sh c = Some RActive ->
  exists z, nth_error sh c = Some z /\ sh_status z = RActive /\ sh_exited z = false.
Proof.
  intros sh c Hex H. unfold st_at in H. destruct (nth_error sh c) as [z|] eqn:E; [|discriminate].
  inversion H. exists z. repeat split; auto. rewrite (Hex _ _ E), H1. reflexivity.
Qed.

Lemma goto_node_inv : forall a x l c d,
  mid_inv x l c (Some d) ->
  match goto_node a x l c d with
  | ICont x' l' => loop_inv x' l'
  | IStop (ROk x') => post_inv (session_ x')
  | IStop _ => True
  end.
Proof.
  intros a x l c d M. unfold goto_node. cbv zeta. cbn [l_trigger l_steps l_cur l_exit l_step l_node l_operand].
  destruct (l_steps l + 1 >? max_steps (a_opts a))%Z.
  { eapply mid_fail_cur; [exact M|apply failed_shape_fail_run|simpl; apply (mi_cur _ _ _ _ M)|simpl; apply (mi_exit _ _ _ _ M)]. }
  destruct (get_run (session_ x) c) as [r|]; [|exact I].
  destruct (get_flow a (r_flow r)) as [f|]; [|exact I].
  destruct (get_node f d) as [n|]; [|exact I].
  destruct (visit_node a x c n (l_trigger l)) as [x' [[pos e] op]|x'|] eqn:Ev; try exact I.
  assert (Hact : status_at x c = Some RActive).
  { rewrite status_at_st_at. apply (mi_dest _ _ _ _ M). discriminate. }
  destruct (visit_node_shape _ _ _ _ _ _ _ _ _ Hact (mi_pushed _ _ _ _ M) Ev) as [Ho Hf].
  destruct M as [[Hwf Hex] Hst Hnw Hcur Hlt Hau Hpu Hexit Hdest].
  rewrite status_at_st_at in Hact.
  destruct (st_at_active_exited _ _ Hex Hact) as (zc & Hzc & Hzs & Hze).
  destruct Ho as [Hs Ht Hp He | p Hs Ht Hp He | Hs Ht Hp He | Hs Ht Hp].
  - (* failed *)
    rewrite Ht, Hst. simpl. constructor.
    + eapply core_inv_fail_at; [constructor; eauto|exact Hs].
    + congruence.
    + rewrite Hs. unfold fail_at. apply none_waiting_update; auto. intros; simpl; discriminate.
    + unfold cur_ok; simpl. rewrite Hs. unfold fail_at. rewrite update_nth_length. split; [exact Hlt|]. split.
      * apply active_under_update_cur; auto. intros z; simpl; discriminate.
      * subst e. split; [intros C; rewrite Hp in C; contradiction|intros C; contradiction].
  - (* pushed *)
    rewrite Ht, Hst. simpl. constructor.
    + eapply core_inv_same; [constructor; eauto|exact Hs].
    + congruence.
    + rewrite Hs. auto.
    + unfold cur_ok; simpl. rewrite Hs. split; [exact Hlt|]. split; [exact Hau|]. subst e. split.
      * intros _. split; [exact Hact|reflexivity].
      * intros C; contradiction.
  - (* waiting *)
    rewrite Ht. simpl. unfold post_inv. rewrite Ht.
    assert (Hn' : nth_error (shape (session_ x')) c = Some (z_status RWaiting zc)).
    { rewrite Hs. unfold wait_at. rewrite nth_error_update_nth_eq, Hzc. reflexivity. }
    split; [|split; [exact Hp|]].
    + constructor; rewrite Hs; unfold wait_at.
      * apply wf_parents_update; auto.
      * apply exited_ok_update; auto. intros z Hz. rewrite Hzc in Hz; inversion Hz; subst. simpl. exact Hze.
    + exists c. split; [|split].
      * eapply waiting_run_unique; [exact Hn'|reflexivity|].
        intros j z' Hj Hw. destruct (Nat.eq_dec j c); auto.
        rewrite Hs in Hj. unfold wait_at in Hj. rewrite nth_error_update_nth_neq in Hj by auto.
        exfalso. eapply Hnw; eauto.
      * intros j z' Hj Hw. destruct (Nat.eq_dec j c); auto.
        rewrite Hs in Hj. unfold wait_at in Hj. rewrite nth_error_update_nth_neq in Hj by auto.
        exfalso. eapply Hnw; eauto.
      * intros i z Hi Ha. rewrite Hs in *. unfold wait_at in *.
        assert (Hau' : active_under (update_nth (shape (session_ x)) c (z_status RWaiting)) c).
        { apply active_under_update_cur; auto. intros z0; simpl; discriminate. }
        destruct (Hau' _ _ Hi Ha) as [->|Hc]; [|exact Hc].
        rewrite nth_error_update_nth_eq, Hzc in Hi. inversion Hi; subst. simpl in Ha. discriminate.
  - (* routed *)
    rewrite Ht, Hst. simpl. constructor.
    + eapply core_inv_same; [constructor; eauto|exact Hs].
    + congruence.
    + rewrite Hs. auto.
    + unfold cur_ok; simpl. rewrite Hs. split; [exact Hlt|]. split; [exact Hau|].
      split; [intros C; rewrite Hp in C; contradiction|intros _; exact Hact].
Qed.

Lemma achain_head : forall sh o i, achain sh o i -> exists p z, o = Some p /\ nth_error sh p = Some z /\ sh_status z = RActive.
Proof. intros sh o i H. inversion H; subst; eauto. Qed.

Lemma achain_inv : forall sh p i, achain sh (Some p) i ->
  i = p \/ exists z, nth_error sh p = Some z /\ sh_status z = RActive /\ achain sh (sh_parent z) i.
Proof. intros sh p i H. inversion H; subst; eauto. Qed.

Lemma mid_same : forall x l c dest x' l',
  mid_inv x l c dest -> same_shape x x' -> l_cur l' = Some c ->
  (l_exit l' <> None -> st_at (shape (session_ x)) c = Some RActive) -> loop_inv x' l'.
Proof.
  intros x l c dest x' l' [] [] Hc He. constructor.
  - eapply core_inv_same; eauto.
  - congruence.
  - rewrite ss_shape0. auto.
  - unfold cur_ok. rewrite Hc, ss_shape0. split; [auto|]. split; [auto|].
    split; [intros C; rewrite ss_pushed0 in C; contradiction|exact He].
Qed.

Lemma get_run_shape : forall s i r, get_run s i = Some r -> nth_error (shape s) i = Some (shp_of r).
Proof. intros s i r H. rewrite nth_error_shape. unfold get_run in H. rewrite H. reflexivity. Qed.

Lemma get_run_none_shape : forall s i, get_run s i = None -> nth_error (shape s) i = None.
Proof. intros s i H. rewrite nth_error_shape. unfold get_run in H. rewrite H. reflexivity. Qed.

Lemma finish_run_inv : forall a x l c,
  mid_inv x l c None ->
  match finish_run a x l c with
  | ICont x' l' => loop_inv x' l'
  | IStop (ROk x') => post_inv (session_ x')
  | IStop _ => True
  end.
Proof.
  intros a x l c M. unfold finish_run.
  destruct M as [[Hwf Hex] Hst Hnw Hcur Hlt Hau Hpu Hexit _].
  destruct (get_run (session_ x) c) as [r|] eqn:Er.
  2:{ apply get_run_none_shape in Er. apply nth_error_None in Er. lia. }
  pose proof (get_run_shape _ _ _ Er) as Hzc.
  (* the state after the current run was completed (if it had not exited) *)
  set (x1 := if r_exited r then x else with_session x (fun s => upd_run s c (run_exit RCompleted))).
  assert (H1 : exists f, shape (session_ x1) = update_nth (shape (session_ x)) c f /\
                         (forall z, sh_parent (f z) = sh_parent z) /\
                         (forall z, sh_status (f z) = RActive -> sh_status z = RActive) /\
                         (forall z, sh_status (f z) <> RWaiting \/ f z = z) /\
                         is_final (sh_status (f (shp_of r))) = true /\
                         sh_exited (f (shp_of r)) = is_final (sh_status (f (shp_of r))) /\
                         s_status (session_ x1) = SActive /\ s_pushed (session_ x1) = None).
  { unfold x1. destruct (r_exited r) eqn:Ee.
    - exists (fun z => z). rewrite update_nth_id by auto. repeat split; auto.
      + pose proof (Hex _ _ Hzc) as Hx. simpl in Hx. rewrite Ee in Hx. auto.
      + apply (Hex _ _ Hzc).
    - exists (z_exit RCompleted). repeat split; auto.
      + simpl. apply shape_upd_run. reflexivity.
      + intros z; simpl; discriminate.
      + intros z; left; simpl; discriminate. }
  destruct H1 as (f & Hs1 & Hfp & Hfa & Hfw & Hfin & Hfex & Hst1 & Hpu1).
  assert (Hzc1 : nth_error (shape (session_ x1)) c = Some (f (shp_of r))).
  { rewrite Hs1, nth_error_update_nth_eq, Hzc. reflexivity. }
  assert (Hwf1 : wf_parents (shape (session_ x1))) by (rewrite Hs1; apply wf_parents_update; auto).
  assert (Hex1 : exited_ok (shape (session_ x1))).
  { rewrite Hs1. apply exited_ok_update; auto. intros z Hz. rewrite Hzc in Hz. inversion Hz; subst. exact Hfex. }
  assert (Hnw1 : none_waiting (shape (session_ x1))).
  { rewrite Hs1. intros i z Hi. destruct (Nat.eq_dec c i) as [<-|Hne].
    - rewrite nth_error_update_nth_eq, Hzc in Hi. inversion Hi; subst.
      destruct (Hfw (shp_of r)) as [Hw|Hw]; auto. rewrite Hw. eapply Hnw; eauto.
    - rewrite nth_error_update_nth_neq in Hi by auto. eapply Hnw; eauto. }
  assert (Hau1 : active_under (shape (session_ x1)) c) by (rewrite Hs1; apply active_under_update_cur; auto).
  assert (Hlt1 : (c < length (shape (session_ x1)))%nat) by (rewrite Hs1, update_nth_length; auto).
  assert (Hcna : forall z, nth_error (shape (session_ x1)) c = Some z -> sh_status z <> RActive).
  { intros z Hz. rewrite Hzc1 in Hz. inversion Hz; subst. intros C. rewrite C in Hfin. discriminate. }
  assert (Hgr1 : get_run (session_ x1) c = Some (if r_exited r then r else run_exit RCompleted r)).
  { unfold x1. destruct (r_exited r); auto. unfold get_run, with_session, upd_run; simpl.
    rewrite nth_error_update_nth_eq. unfold get_run in Er. rewrite Er. reflexivity. }
  change (match get_run (session_ x) c with Some r => if r_exited r then x else with_session x (fun s => upd_run s c (run_exit RCompleted)) | None => x end) with
    (match get_run (session_ x) c with Some r => if r_exited r then x else with_session x (fun s => upd_run s c (run_exit RCompleted)) | None => x end).
  cbv zeta.
  replace (match get_run (session_ x) c with
           | Some r0 => if r_exited r0 then x else with_session x (fun s => upd_run s c (run_exit RCompleted))
           | None => x end) with x1 by (rewrite Er; reflexivity).
  rewrite Hgr1.
  assert (Hpar : r_parent (if r_exited r then r else run_exit RCompleted r) = r_parent r) by (destruct (r_exited r); reflexivity).
  rewrite Hpar.
  (* is the parent active? *)
  assert (Hfinal : forall x2, x2 = with_session x1 (fun s => set_status s SFailed) \/ x2 = with_session x1 (fun s => set_status s SCompleted) ->
                   (forall pi, r_parent r = Some pi -> st_at (shape (session_ x1)) pi <> Some RActive) ->
                   post_inv (session_ x2)).
  { intros x2 Hx2 Hnp.
    assert (E2 : shape (session_ x2) = shape (session_ x1) /\ s_pushed (session_ x2) = None /\
                 (s_status (session_ x2) = SFailed \/ s_status (session_ x2) = SCompleted)).
    { destruct Hx2 as [->| ->]; simpl; auto. }
    destruct E2 as (E2 & P2 & S2). unfold post_inv. split; [constructor; rewrite E2; auto|]. split; [auto|].
    assert (Hnl : none_live (shape (session_ x2))).
    { rewrite E2. intros i z Hi. split; [|eapply Hnw1; eauto]. intros Ha.
      destruct (Hau1 _ _ Hi Ha) as [->|Hc]; [eapply Hcna; eauto|].
      destruct (achain_head _ _ _ Hc) as (p & zp & Ep & Hp & Hpa).
      unfold parent_of in Ep. rewrite Hzc1 in Ep. rewrite Hfp in Ep. simpl in Ep.
      eapply Hnp; eauto. unfold st_at. rewrite Hp. simpl. congruence. }
    destruct S2 as [-> | ->]; exact Hnl. }
  destruct (r_parent r) as [pi|] eqn:Epar.
  2:{ destruct (run_status (session_ x1) c) as [[]|]; apply Hfinal; auto; discriminate. }
  rewrite run_status_shape. fold (st_at (shape (session_ x1)) pi).
  destruct (st_at (shape (session_ x1)) pi) as [[]|] eqn:Epi;
    try (destruct (run_status (session_ x1) c) as [[]|]; apply Hfinal; auto;
         intros pi' Hpi'; inversion Hpi'; subst; rewrite Epi; discriminate).
  (* the parent is active: it becomes the current run *)
  assert (Hpi_lt : (pi < c)%nat) by (eapply Hwf; [exact Hzc|exact Epar]).
  assert (Hmid : forall l2, l_cur l2 = Some pi -> l_exit l2 = None -> mid_inv x1 l2 pi None).
  { intros l2 Hc2 He2. constructor.
    - constructor; auto.
    - exact Hst1.
    - exact Hnw1.
    - exact Hc2.
    - unfold st_at in Epi. destruct (nth_error (shape (session_ x1)) pi) eqn:E; [|discriminate].
      apply nth_error_Some. congruence.
    - intros i z Hi Ha. destruct (Hau1 _ _ Hi Ha) as [->|Hc]; [exfalso; eapply Hcna; eauto|].
      unfold parent_of in Hc. rewrite Hzc1, Hfp in Hc. change (sh_parent (shp_of r)) with (r_parent r) in Hc. rewrite Epar in Hc.
      destruct (achain_inv _ _ _ Hc) as [->|(zp & Hzp & _ & Hup)]; [left; reflexivity|right].
      unfold parent_of. rewrite Hzp. exact Hup.
    - exact Hpu1.
    - exact He2.
    - intros C; contradiction. }
  assert (Hfail : forall sr cc l2, l_cur l2 = Some pi -> l_exit l2 = None -> loop_inv (fail_run x1 pi sr cc) l2).
  { intros sr cc l2 Hc2 He2. eapply mid_fail_cur; [apply (Hmid l2 Hc2 He2)|apply failed_shape_fail_run|exact Hc2|exact He2]. }
  destruct (negb match run_status (session_ x1) c with Some RFailed => true | _ => false end).
  - destruct (run_flow_unusable a (session_ x1) pi).
    + apply Hfail; [reflexivity|exact Hexit].
    + pose proof (find_resume_exit_shape a x1 pi false []) as Hfre.
      destruct (find_resume_exit a x1 pi false []) as [x' e op|x'|x'|]; try exact I; try contradiction.
      * destruct Hfre as [[Hss Hact]|[-> Hfs]].
        -- eapply mid_same; [apply (Hmid {| l_cur := Some pi; l_node := l_node l; l_exit := None; l_operand := []; l_step := None; l_steps := 0%Z; l_trigger := false |}); reflexivity|exact Hss|reflexivity|].
           simpl. intros He. rewrite <- status_at_st_at. apply Hact. exact He.
        -- eapply mid_fail_cur; [apply (Hmid {| l_cur := Some pi; l_node := l_node l; l_exit := None; l_operand := []; l_step := None; l_steps := 0%Z; l_trigger := false |}); reflexivity|exact Hfs|reflexivity|reflexivity].
      * subst x'. apply Hfail; reflexivity.
  - apply Hfail; [reflexivity|exact Hexit].
Qed.

Lemma nth_error_snoc_lt : forall A (l : list A) z i, (i < length l)%nat -> nth_error (l ++ [z]) i = nth_error l i.
Proof. intros. apply nth_error_app1; auto. Qed.

Lemma nth_error_snoc_eq : forall A (l : list A) z, nth_error (l ++ [z]) (length l) = Some z.
Proof. intros. rewrite nth_error_app2 by lia. rewrite Nat.sub_diag. reflexivity. Qed.

Lemma nth_error_snoc_inv : forall A (l : list A) z i y, nth_error (l ++ [z]) i = Some y ->
  ((i < length l)%nat /\ nth_error l i = Some y) \/ (i = length l /\ y = z).
Proof.
  intros A l z i y H. destruct (Nat.lt_ge_cases i (length l)).
  - left. split; auto. rewrite nth_error_app1 in H; auto.
  - right. rewrite nth_error_app2 in H by auto. destruct (i - length l)%nat eqn:E; simpl in H.
    + inversion H. split; auto. lia.
    + destruct n; discriminate.
Qed.

Lemma shape_push : forall s fl par,
  shape (set_pushed (set_runs s (s_runs s ++ [new_run fl par])) None) = shape s ++ [(par, RActive, false)].
Proof. intros. unfold shape; simpl. rewrite map_app. reflexivity. Qed.

Lemma shape_exit_all : forall s, shape (exit_all_completed s) = map (z_exit RCompleted) (shape s).
Proof. intros. unfold shape, exit_all_completed; simpl. rewrite !map_map. apply map_ext. reflexivity. Qed.

Lemma pick_dest_inv : forall a x l x1 l1 dest,
  loop_inv x l -> pick_dest a x l = (x1, l1, dest) ->
  exists c, mid_inv x1 l1 c dest /\ sess_frame (session_ x) (session_ x1).
Proof.
  intros a x l x1 l1 dest [[Hwf Hex] Hst Hnw Hcur] Hpd. unfold pick_dest in Hpd.
  destruct (s_pushed (session_ x)) as [p|] eqn:Ep.
  - (* a flow was pushed: a new run *)
    set (x0 := if p_terminal p then with_session x exit_all_completed else x) in *.
    assert (H0 : exists sh0, shape (session_ x0) = sh0 /\ length sh0 = length (shape (session_ x)) /\
                  wf_parents sh0 /\ exited_ok sh0 /\ none_waiting sh0 /\
                  s_status (session_ x0) = SActive /\ sess_frame (session_ x) (session_ x0) /\
                  (forall c, l_cur l = Some c ->
                     forall i z, nth_error sh0 i = Some z -> sh_status z = RActive -> achain sh0 (Some c) i)).
    { unfold x0. destruct (p_terminal p).
      - exists (map (z_exit RCompleted) (shape (session_ x))). split; [apply shape_exit_all|].
        split; [apply map_length|]. split; [apply wf_parents_map; auto|].
        split; [|split; [|split; [exact Hst|split; [repeat split|]]]].
        + intros i z Hi. rewrite nth_error_map in Hi. destruct (nth_error (shape (session_ x)) i); inversion Hi; reflexivity.
        + intros i z Hi. rewrite nth_error_map in Hi. destruct (nth_error (shape (session_ x)) i); inversion Hi; simpl; discriminate.
        + intros c _ i z Hi Ha. rewrite nth_error_map in Hi. destruct (nth_error (shape (session_ x)) i); inversion Hi; subst; discriminate.
      - exists (shape (session_ x)). repeat split; auto.
        intros c Hc i z Hi Ha. unfold cur_ok in Hcur. rewrite Hc in Hcur. destruct Hcur as (Hlt & Hau & Hpu & _).
        destruct Hpu as [Hca _]; [rewrite Ep; discriminate|].
        unfold st_at in Hca. destruct (nth_error (shape (session_ x)) c) as [zc|] eqn:Ezc; [|discriminate].
        inversion Hca as [Hzs].
        destruct (Hau _ _ Hi Ha) as [->|Hch].
        + eapply ac_here; eauto.
        + eapply ac_up; eauto. unfold parent_of in Hch. rewrite Ezc in Hch. exact Hch. }
    destruct H0 as (sh0 & Hs0 & Hlen0 & Hwf0 & Hex0 & Hnw0 & Hst0 & Hfr0 & Hch0).
    inversion Hpd; subst x1 l1 dest. clear Hpd.
    exists (length (s_runs (session_ x0))).
    assert (Hlen : length (s_runs (session_ x0)) = length sh0) by (rewrite <- Hs0, shape_length; reflexivity).
    assert (Hpar : forall q, l_cur l = Some q -> (q < length sh0)%nat).
    { intros q Hq. unfold cur_ok in Hcur. rewrite Hq in Hcur. destruct Hcur as (Hlt & _). lia. }
    assert (Hexit0 : l_exit l = None).
    { unfold cur_ok in Hcur. destruct (l_cur l).
      - destruct Hcur as (_ & _ & Hpu & _). apply Hpu. rewrite Ep. discriminate.
      - destruct Hcur as (_ & _ & He). exact He. }
    split; [|destruct Hfr0 as (?&?&?); repeat split; simpl; auto].
    constructor; unfold with_session; cbn [session_]; try rewrite shape_push; try rewrite Hs0.
    + constructor; rewrite shape_push, Hs0.
      * apply wf_parents_app; auto.
      * apply exited_ok_app; auto.
    + simpl. exact Hst0.
    + intros i z Hi. apply nth_error_snoc_inv in Hi. destruct Hi as [[_ Hi]|[_ ->]]; [eapply Hnw0; eauto|simpl; discriminate].
    + reflexivity.
    + rewrite app_length, Hlen. simpl. lia.
    + intros i z Hi Ha. apply nth_error_snoc_inv in Hi. destruct Hi as [[Hlt Hi]|[-> _]]; [right|left; auto].
      unfold parent_of. rewrite Hlen, nth_error_snoc_eq. simpl.
      destruct (l_cur l) as [c|] eqn:Ec.
      * apply achain_app; [exact Hwf0|intros q Hq; inversion Hq; subst; auto|eapply Hch0; eauto].
      * exfalso. unfold cur_ok in Hcur. rewrite Ec in Hcur. destruct Hcur as (Hnil & _).
        rewrite Hlen0, shape_length, Hnil in Hlt. simpl in Hlt. lia.
    + reflexivity.
    + simpl. exact Hexit0.
    + intros _. unfold st_at. rewrite Hlen, nth_error_snoc_eq. reflexivity.
  - (* nothing pushed *)
    assert (Hc : exists c, l_cur l = Some c /\ (c < length (shape (session_ x)))%nat /\ active_under (shape (session_ x)) c /\
                           (l_exit l <> None -> st_at (shape (session_ x)) c = Some RActive)).
    { unfold cur_ok in Hcur. destruct (l_cur l) as [c|].
      - exists c. destruct Hcur as (A & B & _ & D). auto.
      - destruct Hcur as (_ & C & _). contradiction. }
    destruct Hc as (c & Hc & Hlt & Hau & Hea). exists c.
    destruct (l_exit l) as [e|] eqn:Ee.
    + assert (Hx1 : session_ x1 = session_ x /\ l_cur l1 = l_cur l /\ l_exit l1 = None).
      { revert Hpd. repeat dmatch; intros Hpd; inversion Hpd; subst; auto. }
      destruct Hx1 as (Hx1 & Hl1 & He1). rewrite Hx1. split; [|apply sess_frame_refl].
      constructor; rewrite ?Hx1.
      * constructor; auto.
      * exact Hst.
      * exact Hnw.
      * congruence.
      * exact Hlt.
      * exact Hau.
      * exact Ep.
      * exact He1.
      * intros _. apply Hea. discriminate.
    + inversion Hpd; subst. split; [|apply sess_frame_refl].
      constructor.
      * constructor; auto.
      * exact Hst.
      * exact Hnw.
      * exact Hc.
      * exact Hlt.
      * exact Hau.
      * exact Ep.
      * exact Ee.
      * intros C; contradiction.
Qed.

(* ---- one iteration keeps the loop invariant --------------------------------------------------------- *)

Lemma cuw_iter_inv : forall a x l, loop_inv x l ->
  match cuw_iter a x l with
  | ICont x' l' => loop_inv x' l'
  | IStop (ROk x') => post_inv (session_ x')
  | IStop _ => True
  end.
Proof.
  intros a x l H. rewrite cuw_iter_phases.
  destruct (pick_dest a x l) as [[x1 l1] dest] eqn:Epd.
  destruct (pick_dest_inv _ _ _ _ _ _ H Epd) as (c & M & _).
  rewrite (mi_cur _ _ _ _ M). destruct dest as [d|].
  - apply goto_node_inv; exact M.
  - apply finish_run_inv; exact M.
Qed.

(* ---- trigger, flow and type of the session never change ---------------------------------------------- *)

Definition frame (x x' : st) : Prop := sess_frame (session_ x) (session_ x').

Lemma frame_refl : forall x, frame x x. Proof. intros; apply sess_frame_refl. Qed.
Lemma frame_trans : forall x y z, frame x y -> frame y z -> frame x z.
Proof. unfold frame; intros; eapply sess_frame_trans; eauto. Qed.

Lemma visit_node_frame : forall a x ri n wt x' v, visit_node a x ri n wt = Done x' v -> frame x x'.
Proof.
  intros a x ri n wt x' v. unfold visit_node.
  destruct (get_run (session_ x) ri) as [r0|]; [|discriminate].
  match goal with |- context [exec_actions a ?X ri ?P n ?A] =>
    assert (F2 : frame x X) by (repeat dmatch; repeat split);
    destruct (exec_actions a X ri P n A) as [x3 b| |] eqn:Ea end; try discriminate.
  assert (F3 : frame x x3).
  { eapply frame_trans; [exact F2|]. clear F2. revert Ea.
    match goal with |- exec_actions a ?X ri ?P n ?A = _ -> _ => generalize X; generalize A end.
    induction l as [|act acts IH]; intros y; simpl.
    - intros H; inversion H; apply frame_refl.
    - destruct (exec_action a y ri (length (r_path r0)) n act) as [y' v'| |] eqn:E; try discriminate.
      assert (Fy : frame y y').
      { destruct (exec_action_shape _ _ _ _ _ _ _ _ E) as [[]|[]]; assumption. }
      destruct (run_status (session_ y') ri) as [[]|]; try (intros H; eapply frame_trans; [exact Fy|eapply IH; exact H]).
      intros H; inversion H; subst. eapply frame_trans; [exact Fy|]. repeat split. }
  destruct b; [intros H; inversion H; subst; exact F3|].
  destruct (s_pushed (session_ x3)); [intros H; inversion H; subst; exact F3|].
  match goal with |- context [match ?bw with Some _ => _ | None => match pick_node_exit ?A ?X ?R ?N ?P ?I ?T with _ => _ end end] =>
    destruct bw as [x4|] eqn:Ebw end.
  - intros H; inversion H; subst. eapply frame_trans; [exact F3|].
    assert (F4 : frame x3 x4).
    { destruct (n_router n) as [rt|]; [|discriminate]. destruct (rt_wait rt) as [[[] tmo]|]; try discriminate; try (dmatch_hyp Ebw; [discriminate|]); inversion Ebw; subst.
      all: (repeat split). }
    destruct F4 as (?&?&?). repeat split; simpl; auto.
  - destruct (pick_node_exit a x3 ri n (length (r_path r0)) false []) as [x5 [e5 op5]| |] eqn:Epk; try discriminate.
    intros H; inversion H; subst. eapply frame_trans; [exact F3|].
    destruct (pick_node_exit_shape _ _ _ _ _ _ _ _ _ _ Epk) as [[]|[_ []]]; assumption.
Qed.

Definition iter_frame (x : st) (r : iter) : Prop :=
  match r with
  | ICont x' _ => frame x x'
  | IStop (ROk x') => frame x x'
  | IStop _ => True
  end.

Ltac frame_finish :=
  try contradiction;
  repeat match goal with
         | K : _ \/ _ |- _ => destruct K
         | K : _ /\ _ |- _ => destruct K
         | K : same_shape _ _ |- _ => destruct K
         | K : failed_shape _ _ _ |- _ => destruct K
         end;
  subst; unfold iter_frame, frame in *;
  repeat match goal with K : sess_frame _ _ |- _ => destruct K as (?&?&?) end;
  try exact I; repeat split; simpl in *; congruence.

Lemma goto_node_frame : forall a x l c d r, goto_node a x l c d = r -> iter_frame x r.
Proof.
  intros a x l c d r. unfold goto_node.
  repeat (first
    [ match goal with
      | H : visit_node _ _ _ _ _ = Done _ _ |- _ => apply visit_node_frame in H
      end
    | dmatch ]); intros <-; frame_finish.
Qed.

Lemma finish_run_frame : forall a x l c r, finish_run a x l c = r -> iter_frame x r.
Proof.
  intros a x l c r. unfold finish_run.
  destruct (get_run (session_ x) c) as [r0|] eqn:Er0; [destruct (r_exited r0) eqn:Ex0|];
  repeat (first
    [ match goal with
      | H : find_resume_exit ?a ?X ?pi ?b ?t = _ |- _ =>
          let K := fresh "K" in pose proof (find_resume_exit_shape a X pi b t) as K; rewrite H in K; clear H
      end
    | dmatch ]); intros <-; frame_finish.
Qed.

Lemma pick_dest_frame : forall a x l x1 l1 dest, pick_dest a x l = (x1, l1, dest) -> frame x x1.
Proof.
  intros a x l x1 l1 dest. unfold pick_dest.
  repeat dmatch; intros H; inversion H; subst; repeat split.
Qed.

Lemma cuw_iter_frame : forall a x l, iter_frame x (cuw_iter a x l).
Proof.
  intros a x l. rewrite cuw_iter_phases.
  destruct (pick_dest a x l) as [[x1 l1] dest] eqn:Epd.
  pose proof (pick_dest_frame _ _ _ _ _ _ Epd) as F1.
  destruct (l_cur l1) as [ci|]; [|exact I].
  assert (K : forall r, iter_frame x1 r -> iter_frame x r).
  { intros [[]|] Hr; simpl in *; auto; eapply frame_trans; eauto. }
  destruct dest as [d|]; apply K.
  - eapply goto_node_frame; reflexivity.
  - eapply finish_run_frame; reflexivity.
Qed.

(* ================================================================================================== *)
(* Engine calls establish the invariant that holds between calls                                        *)
(* ================================================================================================== *)

Lemma cuw_post : forall a fuel x l x',
  loop_inv x l -> continue_until_wait fuel a x l = ROk x' -> post_inv (session_ x') /\ frame x x'.
Proof.
  intros a fuel x l x' HI Hr.
  pose proof (cuw_induct a (fun x1 l1 => loop_inv x1 l1 /\ frame x x1)
                (fun r => match r with ROk x2 => post_inv (session_ x2) /\ frame x x2 | _ => True end)) as P.
  specialize (P ltac:(intros x1 l1 x2 l2 [H1 F1] E; pose proof (cuw_iter_inv a x1 l1 H1) as K;
                      pose proof (cuw_iter_frame a x1 l1) as F; rewrite E in K, F; split; [exact K|eapply frame_trans; eauto])).
  specialize (P ltac:(intros x1 l1 r [H1 F1] E; pose proof (cuw_iter_inv a x1 l1 H1) as K;
                      pose proof (cuw_iter_frame a x1 l1) as F; rewrite E in K, F; destruct r; auto;
                      split; [exact K|eapply frame_trans; eauto])).
  specialize (P I fuel x l (conj HI (frame_refl x))). rewrite Hr in P. exact P.
Qed.

Lemma loop_inv_start : forall t f ty,
  loop_inv {| session_ := set_pushed (set_type (new_session t f) ty) (Some {| p_flow := f; p_terminal := false |});
              sprint_ := empty_sprint |} (init_lstate true).
Proof.
  intros. constructor; simpl.
  - constructor; intros i z Hi; destruct i; discriminate.
  - reflexivity.
  - intros i z Hi; destruct i; discriminate.
  - unfold cur_ok; simpl. repeat split. discriminate.
Qed.

(* everything an engine call that returns without error guarantees about the shape of the session *)
Theorem start_post : forall a t f x',
  start a t f = ROk x' ->
  post_inv (session_ x') /\ s_trigger (session_ x') = t /\ s_flow (session_ x') = f.
Proof.
  intros a t f x'. unfold start. destruct (get_flow a f) as [fl|]; [|discriminate].
  intros H. destruct (cuw_post _ _ _ _ _ (loop_inv_start t f (f_type fl)) H) as [P (F1 & F2 & _)].
  simpl in F1, F2. auto.
Qed.

Definition closing (z : shp) : shp :=
  match sh_status z with RActive | RWaiting => z_exit RFailed z | _ => z end.

Lemma shape_fail_session : forall x wi c,
  shape (session_ (fail_session x wi c)) = map closing (fail_at wi (shape (session_ x))).
Proof.
  intros. rewrite <- (shape_fail_run x wi None c). unfold fail_session.
  unfold with_session at 1; cbn [session_]. rewrite shape_set_status.
  unfold shape; cbn [s_runs set_runs]. rewrite !map_map.
  apply map_ext. intros r. unfold closing, shp_of, sh_status; cbn [fst snd].
  destruct (r_status r) eqn:E; cbn; rewrite ?E; reflexivity.
Qed.

Lemma fail_session_post : forall x wi c,
  core_inv (session_ x) -> s_pushed (session_ x) = None -> post_inv (session_ (fail_session x wi c)).
Proof.
  intros x wi c [Hwf Hex] Hp. unfold post_inv.
  assert (Hst : s_status (session_ (fail_session x wi c)) = SFailed) by reflexivity.
  assert (Hpu : s_pushed (session_ (fail_session x wi c)) = None) by (simpl; exact Hp).
  rewrite Hst. split; [|split; [exact Hpu|]].
  - constructor; rewrite shape_fail_session.
    + apply wf_parents_map; [apply wf_parents_update; auto|]. intros z. unfold closing. destruct (sh_status z); reflexivity.
    + intros i z Hi. rewrite nth_error_map in Hi.
      destruct (nth_error (fail_at wi (shape (session_ x))) i) as [z0|] eqn:E; inversion Hi; subst.
      assert (H0 : sh_exited z0 = is_final (sh_status z0)).
      { eapply exited_ok_update; [exact Hex| |exact E]. intros; reflexivity. }
      unfold closing. destruct (sh_status z0) eqn:Es; simpl; auto; rewrite ?Es; auto.
  - rewrite shape_fail_session. intros i z Hi. rewrite nth_error_map in Hi.
    destruct (nth_error (fail_at wi (shape (session_ x))) i) as [z0|] eqn:E; inversion Hi; subst.
    unfold closing. destruct (sh_status z0) eqn:Es; simpl; rewrite ?Es; split; discriminate.
Qed.

Lemma fail_session_frame : forall x wi c, frame x (fail_session x wi c).
Proof. intros. repeat split. Qed.

Lemma update_nth_at : forall A (l : list A) i z f g, nth_error l i = Some z -> f z = g z ->
  update_nth l i f = update_nth l i g.
Proof. induction l; intros [|i] z f g H E; simpl in *; try discriminate; [inversion H; subst; congruence|f_equal; eauto]. Qed.

Lemma update_nth_none : forall A (l : list A) i f, nth_error l i = None -> update_nth l i f = l.
Proof. induction l; intros [|i] f H; simpl in *; try discriminate; auto. f_equal; auto. Qed.

Lemma update_nth_twice : forall A (l : list A) i f g, update_nth (update_nth l i f) i g = update_nth l i (fun z => g (f z)).
Proof. induction l; intros [|i] f g; simpl; auto. f_equal; auto. Qed.

Definition activate (z : shp) : shp := match sh_status z with RWaiting => z_status RActive z | _ => z end.

(* baseResume.Apply *)
Lemma base_apply_shape : forall y wi,
  shape (session_ (with_session (with_session y (fun s => match run_status s wi with
                                                           | Some RWaiting => upd_run s wi (run_set_status RActive)
                                                           | _ => s end)) (fun s => set_input s None)))
  = update_nth (shape (session_ y)) wi activate.
Proof.
  intros y wi. unfold with_session; cbn [session_]. rewrite shape_set_input.
  rewrite run_status_shape.
  destruct (nth_error (shape (session_ y)) wi) as [z|] eqn:E; cbn [option_map].
  - destruct (sh_status z) eqn:Es.
    2:{ rewrite (shape_upd_run _ wi (run_set_status RActive) (z_status RActive)) by reflexivity.
        eapply update_nth_at; [exact E|]. unfold activate. rewrite Es. reflexivity. }
    all: symmetry; rewrite (update_nth_at _ _ _ z activate (fun z => z) E) by (unfold activate; rewrite Es; reflexivity);
         apply update_nth_id; auto.
  - symmetry. apply update_nth_none; auto.
Qed.

(* resume.Apply: the waiting run becomes active, or (run_expiration) expired *)
Lemma apply_resume_shape : forall x wi sr r,
  exists g, shape (session_ (apply_resume x wi sr r)) = update_nth (shape (session_ x)) wi g /\
            (forall z, sh_status z = RWaiting -> (g z = z_status RActive z \/ g z = z_exit RExpired z)) /\
            s_status (session_ (apply_resume x wi sr r)) = s_status (session_ x) /\
            s_pushed (session_ (apply_resume x wi sr r)) = s_pushed (session_ x) /\
            frame x (apply_resume x wi sr r).
Proof.
  intros x wi sr r.
  assert (Hbase : forall y, exists g,
            shape (session_ (with_session (with_session y (fun s => match run_status s wi with
                                                                       | Some RWaiting => upd_run s wi (run_set_status RActive)
                                                                       | _ => s end)) (fun s => set_input s None)))
              = update_nth (shape (session_ y)) wi g /\
            (forall z, g z = match sh_status z with RWaiting => z_status RActive z | _ => z end)).
  { intros y. exists activate. split; [apply base_apply_shape|reflexivity]. }
  destruct r.
  - (* msg *)
    destruct (Hbase x) as (g & Hs & Hg). exists g. unfold apply_resume.
    rewrite shape_log_event. unfold with_session at 1; cbn [session_]. rewrite shape_set_input.
    split; [exact Hs|]. split; [intros z Hz; rewrite Hg, Hz; auto|].
    repeat split; simpl; repeat dmatch; reflexivity.
  - (* wait timeout *)
    destruct (Hbase (log_event x wi sr EWaitTimedOut)) as (g & Hs & Hg). exists g. unfold apply_resume.
    rewrite shape_log_event in Hs. split; [exact Hs|]. split; [intros z Hz; rewrite Hg, Hz; auto|].
    repeat split; simpl; repeat dmatch; reflexivity.
  - (* run expiration *)
    set (y := log_event (with_session x (fun s => upd_run s wi (run_exit RExpired))) wi sr ERunExpired).
    destruct (Hbase y) as (g & Hs & Hg).
    exists (fun z => g (z_exit RExpired z)). unfold apply_resume. fold y.
    split; [|split; [intros z Hz; rewrite Hg; simpl; auto|repeat split; simpl; repeat dmatch; reflexivity]].
    rewrite Hs. unfold y. rewrite shape_log_event. unfold with_session; cbn [session_].
    rewrite (shape_upd_run _ wi (run_exit RExpired) (z_exit RExpired)) by reflexivity.
    apply update_nth_twice.
  - (* dial *)
    destruct (Hbase (log_event x wi sr EDialEnded)) as (g & Hs & Hg). exists g. unfold apply_resume.
    rewrite shape_log_event in Hs. split; [exact Hs|]. split; [intros z Hz; rewrite Hg, Hz; auto|].
    repeat split; simpl; repeat dmatch; reflexivity.
Qed.

Lemma resume_mid_inv : forall s wi sr r l,
  post_inv s -> s_status s = SWaiting -> waiting_run s = Some wi ->
  l_cur l = Some wi -> l_exit l = None ->
  mid_inv (apply_resume (with_session {| session_ := s; sprint_ := empty_sprint |} (fun s => set_status s SActive)) wi sr r) l wi None.
Proof.
  intros s wi sr r l [[Hwf Hex] [Hpu Hpost]] Hst Hwr Hc He. rewrite Hst in Hpost.
  destruct Hpost as (w & Hw & Huniq & Hact). rewrite Hwr in Hw. inversion Hw; subst w. clear Hw.
  destruct (waiting_run_shape _ _ Hwr) as (zw & Hzw & Hzs).
  set (x0 := with_session {| session_ := s; sprint_ := empty_sprint |} (fun s => set_status s SActive)).
  destruct (apply_resume_shape x0 wi sr r) as (g & Hs & Hg & Hst1 & Hpu1 & _).
  change (shape (session_ x0)) with (shape s) in Hs.
  assert (Hgw : g zw = z_status RActive zw \/ g zw = z_exit RExpired zw) by (apply Hg; exact Hzs).
  (* at wi only the status/exited change, described by g zw *)
  set (g' := fun z : shp => if sh_exited (g zw) then z_exit RExpired z else z_status RActive z).
  assert (Hs' : shape (session_ (apply_resume x0 wi sr r)) = update_nth (shape s) wi g').
  { rewrite Hs. eapply update_nth_at; [exact Hzw|]. unfold g'.
    assert (Hxw : sh_exited zw = false) by (rewrite (Hex _ _ Hzw), Hzs; reflexivity).
    destruct Hgw as [E|E]; rewrite E; simpl; rewrite ?Hxw; reflexivity. }
  assert (Hg'p : forall z, sh_parent (g' z) = sh_parent z) by (intros z; unfold g'; destruct (sh_exited (g zw)); reflexivity).
  assert (Hg'w : forall z, sh_status (g' z) <> RWaiting) by (intros z; unfold g'; destruct (sh_exited (g zw)); simpl; discriminate).
  constructor; rewrite ?Hs'.
  - constructor; rewrite Hs'.
    + apply wf_parents_update; auto.
    + apply exited_ok_update; auto. intros z Hz. rewrite Hzw in Hz. inversion Hz; subst.
      unfold g'. destruct (sh_exited (g z)) eqn:E; simpl; auto.
      rewrite (Hex _ _ Hzw), Hzs. reflexivity.
  - rewrite Hst1. reflexivity.
  - intros i z Hi. destruct (Nat.eq_dec wi i) as [<-|Hne].
    + rewrite nth_error_update_nth_eq, Hzw in Hi. inversion Hi; subst. apply Hg'w.
    + rewrite nth_error_update_nth_neq in Hi by auto. intros C. apply Hne. symmetry. eapply Huniq; eauto.
  - exact Hc.
  - rewrite update_nth_length. apply nth_error_Some. congruence.
  - intros i z Hi Ha. destruct (Nat.eq_dec i wi) as [->|Hne]; [left; reflexivity|right].
    rewrite nth_error_update_nth_neq in Hi by auto.
    assert (Hpar : parent_of (update_nth (shape s) wi g') wi = parent_of (shape s) wi).
    { unfold parent_of. rewrite nth_error_update_nth_eq, Hzw. simpl. apply Hg'p. }
    rewrite Hpar. apply achain_update_above; auto.
    + intros p Ep. unfold parent_of in Ep. rewrite Hzw in Ep. eauto.
    + eapply Hact; eauto.
  - rewrite Hpu1. exact Hpu.
  - exact He.
  - intros C; contradiction.
Qed.

Theorem resume_post : forall a s r tmo x',
  post_inv s -> resume_session a s r tmo = Resumed (ROk x') ->
  post_inv (session_ x') /\ sess_frame s (session_ x').
Proof.
  intros a s r tmo x' Hpost. unfold resume_session.
  destruct (sstatus_eqb (s_status s) SWaiting) eqn:Est; simpl; [|discriminate].
  apply sstatus_eqb_true in Est.
  destruct (waiting_run s) as [wi|] eqn:Ewr; [|discriminate].
  assert (Hfs : forall c, post_inv (session_ (fail_session {| session_ := s; sprint_ := empty_sprint |} wi c)) /\
                          sess_frame s (session_ (fail_session {| session_ := s; sprint_ := empty_sprint |} wi c))).
  { intros c. destruct Hpost as [Hc [Hp _]]. split; [apply fail_session_post; auto|repeat split]. }
  destruct (run_flow_unusable a s wi).
  { intros H; inversion H; subst; apply Hfs. }
  destruct (Z.of_nat (count_waits s) >=? max_resumes (a_opts a))%Z.
  { intros H; inversion H; subst; apply Hfs. }
  destruct (path_location a s wi) as [[pos n]|].
  2:{ intros H; inversion H; subst; apply Hfs. }
  destruct (n_router n) as [[[w|] rres rcats rcases rdef]|];
    try (intros H; inversion H; subst; apply Hfs).
  destruct (negb (accepts w r)); [discriminate|].
  cbv zeta.
  set (x1 := apply_resume (with_session {| session_ := s; sprint_ := empty_sprint |} (fun s => set_status s SActive)) wi (Some (wi, pos)) r).
  assert (M : forall l, l_cur l = Some wi -> l_exit l = None -> mid_inv x1 l wi None).
  { intros l Hc He. apply resume_mid_inv; auto. }
  assert (F1 : frame {| session_ := s; sprint_ := empty_sprint |} x1).
  { unfold x1. destruct (apply_resume_shape (with_session {| session_ := s; sprint_ := empty_sprint |} (fun s => set_status s SActive)) wi (Some (wi, pos)) r)
      as (g & _ & _ & _ & _ & F). exact F. }
  pose proof (find_resume_exit_shape a x1 wi (is_timeout r) tmo) as Hfre.
  destruct (find_resume_exit a x1 wi (is_timeout r) tmo) as [x2 e op|x2|x2|]; try contradiction.
  - intros H. inversion H as [Hc]. clear H.
    set (l0 := {| l_cur := Some wi; l_node := None; l_exit := None; l_operand := []; l_step := None; l_steps := 0%Z; l_trigger := false |}).
    assert (HL : loop_inv x2 {| l_cur := Some wi; l_node := Some (match get_run s wi with Some rn => r_flow rn | None => 0 end, n_id n);
                                l_exit := e; l_operand := op; l_step := Some (wi, pos); l_steps := 0%Z; l_trigger := false |} /\ frame x1 x2).
    { destruct Hfre as [[Hss Hact]|[-> Hfsh]].
      - split; [|destruct Hss; assumption]. eapply mid_same; [apply (M l0); reflexivity|exact Hss|reflexivity|].
        simpl. intros He. rewrite <- status_at_st_at. apply Hact. exact He.
      - split; [|destruct Hfsh; assumption]. eapply mid_fail_cur; [apply (M l0); reflexivity|exact Hfsh|reflexivity|reflexivity]. }
    destruct HL as [HL F2]. destruct (cuw_post _ _ _ _ _ HL Hc) as [P F3]. split; [exact P|].
    eapply sess_frame_trans; [exact F1|]. eapply sess_frame_trans; [exact F2|exact F3].
  - subst x2. intros H; inversion H; subst. split.
    + apply fail_session_post.
      * apply (mi_core _ _ _ _ (M {| l_cur := Some wi; l_node := None; l_exit := None; l_operand := []; l_step := None; l_steps := 0%Z; l_trigger := false |} eq_refl eq_refl)).
      * apply (mi_pushed _ _ _ _ (M {| l_cur := Some wi; l_node := None; l_exit := None; l_operand := []; l_step := None; l_steps := 0%Z; l_trigger := false |} eq_refl eq_refl)).
    + eapply sess_frame_trans; [exact F1|]. repeat split.
Qed.

(* ================================================================================================== *)
(* C01, clauses 1, 2 (runs) and 4, for every history                                                   *)
(* ================================================================================================== *)

(* the sessions an engine produces: started by a trigger, then resumed any number of times - each call
   against ANY asset store (so also one that changed between the calls); a rejected resume leaves the
   session as it is and therefore adds nothing *)
Inductive reachable : session -> Prop :=
| reach_start : forall a t f x, start a t f = ROk x -> reachable (session_ x)
| reach_resume : forall a s r tmo x, reachable s -> resume_session a s r tmo = Resumed (ROk x) -> reachable (session_ x).

Lemma reachable_post : forall s, reachable s -> post_inv s.
Proof.
  induction 1.
  - eapply start_post; eauto.
  - eapply resume_post; eauto.
Qed.

(* run i is run w or one of its ancestors *)
Inductive ancestor (rs : list run) : nat -> nat -> Prop :=
| anc_parent : forall w r p, nth_error rs w = Some r -> r_parent r = Some p -> ancestor rs w p
| anc_trans : forall w r p i, nth_error rs w = Some r -> r_parent r = Some p -> ancestor rs p i -> ancestor rs w i.

Lemma anc_ancestor : forall s o i, anc (shape s) o i -> forall w r, nth_error (s_runs s) w = Some r -> r_parent r = o -> ancestor (s_runs s) w i.
Proof.
  intros s o i H. induction H; intros w r Hw Hp.
  - eapply anc_parent; eauto.
  - rewrite nth_error_shape in H. destruct (nth_error (s_runs s) p) as [rp|] eqn:Erp; inversion H; subst.
    eapply anc_trans; eauto.
Qed.

(* the well-formedness of C01 that concerns statuses (written from the statement):
   - the session is waiting, completed or failed;
   - it is waiting exactly when exactly one run is waiting, and then every active run is an ancestor of that run;
   - otherwise no run is active or waiting;
   - exited_on is set exactly for completed, failed and expired runs;
   and two facts the statement presupposes: parents precede their children, nothing is left pushed *)
Record status_wellformed (s : session) : Prop := {
  swf_settled : s_status s = SWaiting \/ s_status s = SCompleted \/ s_status s = SFailed;
  swf_waiting : s_status s = SWaiting <->
                exists w rw, nth_error (s_runs s) w = Some rw /\ r_status rw = RWaiting /\
                             forall j rj, nth_error (s_runs s) j = Some rj -> r_status rj = RWaiting -> j = w;
  swf_active : forall w rw i ri, s_status s = SWaiting -> nth_error (s_runs s) w = Some rw -> r_status rw = RWaiting ->
               nth_error (s_runs s) i = Some ri -> r_status ri = RActive -> ancestor (s_runs s) w i;
  swf_finished : s_status s <> SWaiting ->
                 forall i ri, nth_error (s_runs s) i = Some ri -> r_status ri <> RActive /\ r_status ri <> RWaiting;
  swf_exited : forall i ri, nth_error (s_runs s) i = Some ri ->
               (r_exited ri = true <-> r_status ri = RCompleted \/ r_status ri = RFailed \/ r_status ri = RExpired);
  swf_parents : forall i ri p, nth_error (s_runs s) i = Some ri -> r_parent ri = Some p -> (p < i)%nat;
  swf_pushed : s_pushed s = None
}.

Lemma post_inv_wellformed : forall s, post_inv s -> status_wellformed s.
Proof.
  intros s [[Hwf Hex] [Hpu Hpost]].
  assert (Hsh : forall i ri, nth_error (s_runs s) i = Some ri -> nth_error (shape s) i = Some (shp_of ri)).
  { intros i ri H. rewrite nth_error_shape, H. reflexivity. }
  constructor.
  - destruct (s_status s); auto; contradiction.
  - split.
    + intros Hst. rewrite Hst in Hpost. destruct Hpost as (w & Hw & Hu & _).
      destruct (waiting_run_from_some _ _ _ Hw) as (rw & Hrw & Hrs & _ & _). rewrite Nat.sub_0_r in Hrw.
      exists w, rw. repeat split; auto. intros j rj Hj Hjs. eapply Hu; [apply Hsh; exact Hj|exact Hjs].
    + intros (w & rw & Hrw & Hrs & _). destruct (s_status s) eqn:Est; auto; try contradiction;
        exfalso; destruct (Hpost _ _ (Hsh _ _ Hrw)) as [_ C]; apply C; exact Hrs.
  - intros w rw i ri Hst Hrw Hrs Hri Hra. rewrite Hst in Hpost. destruct Hpost as (w' & Hw & Hu & Ha).
    assert (w = w') by (eapply Hu; [apply Hsh; exact Hrw|exact Hrs]). subst w'.
    pose proof (Ha _ _ (Hsh _ _ Hri) Hra) as Hc. apply achain_anc in Hc.
    eapply anc_ancestor; [exact Hc|exact Hrw|].
    unfold parent_of. rewrite (Hsh _ _ Hrw). reflexivity.
  - intros Hst i ri Hri. destruct (s_status s) eqn:Est; try contradiction; try congruence;
      apply (Hpost _ _ (Hsh _ _ Hri)).
  - intros i ri Hri. pose proof (Hex _ _ (Hsh _ _ Hri)) as H.
    change (sh_exited (shp_of ri)) with (r_exited ri) in H. change (sh_status (shp_of ri)) with (r_status ri) in H. rewrite H.
    destruct (r_status ri); simpl; split; intros K; auto; try discriminate;
      try (destruct K as [C|[C|C]]; discriminate).
  - intros i ri p Hri Hp. eapply Hwf; [apply Hsh; exact Hri|exact Hp].
  - exact Hpu.
Qed.

Theorem reachable_wellformed : forall s, reachable s -> status_wellformed s.
Proof. intros s H. apply post_inv_wellformed, reachable_post, H. Qed.

(* and one step of it, for any session that satisfies the invariant (e.g. one read back from storage) *)
Theorem wellformed_after_start : forall a t f x, start a t f = ROk x -> status_wellformed (session_ x).
Proof. intros. eapply reachable_wellformed, reach_start; eauto. Qed.

(* a resume of a session that satisfies the invariant is rejected, or fails the session at once, or
   enters the main loop in a state that satisfies the loop invariant *)
Definition resume_x0 (s : session) : st :=
  with_session {| session_ := s; sprint_ := empty_sprint |} (fun s => set_status s SActive).

Lemma resume_decompose : forall a s r tmo res,
  post_inv s -> resume_session a s r tmo = Resumed res ->
  (exists y wi c, res = ROk (fail_session y wi c) /\ core_inv (session_ y) /\ s_pushed (session_ y) = None /\
                  frame {| session_ := s; sprint_ := empty_sprint |} y /\ waiting_run s = Some wi /\
                  (y = {| session_ := s; sprint_ := empty_sprint |} \/
                   exists pos n, path_location a s wi = Some (pos, n) /\ y = apply_resume (resume_x0 s) wi (Some (wi, pos)) r)) \/
  (exists x2 l, res = continue_until_wait (fuel_for a (session_ x2)) a x2 l /\ loop_inv x2 l /\
                l_steps l = 0%Z /\ s_pushed (session_ x2) = None /\
                frame {| session_ := s; sprint_ := empty_sprint |} x2 /\
                exists wi pos e op, waiting_run s = Some wi /\ l_cur l = Some wi /\ l_exit l = e /\
                  find_resume_exit a (apply_resume (resume_x0 s) wi (Some (wi, pos)) r) wi (is_timeout r) tmo = FreOk x2 e op /\
                  l_step l = Some (wi, pos) /\ exists n, path_location a s wi = Some (pos, n)).
Proof.
  intros a s r tmo res Hpost. unfold resume_session.
  destruct (sstatus_eqb (s_status s) SWaiting) eqn:Est; simpl; [|discriminate].
  apply sstatus_eqb_true in Est.
  destruct (waiting_run s) as [wi|] eqn:Ewr; [|discriminate].
  assert (Hfs : forall c res', Resumed (ROk (fail_session {| session_ := s; sprint_ := empty_sprint |} wi c)) = Resumed res' ->
            (exists y wi0 c, res' = ROk (fail_session y wi0 c) /\ core_inv (session_ y) /\ s_pushed (session_ y) = None /\
                  frame {| session_ := s; sprint_ := empty_sprint |} y /\ Some wi = Some wi0 /\
                  (y = {| session_ := s; sprint_ := empty_sprint |} \/
                   exists pos n, path_location a s wi0 = Some (pos, n) /\ y = apply_resume (resume_x0 s) wi0 (Some (wi0, pos)) r)) \/
            (exists x2 l, res' = continue_until_wait (fuel_for a (session_ x2)) a x2 l /\ loop_inv x2 l /\
                l_steps l = 0%Z /\ s_pushed (session_ x2) = None /\
                frame {| session_ := s; sprint_ := empty_sprint |} x2 /\
                exists wi0 pos e op, Some wi = Some wi0 /\ l_cur l = Some wi0 /\ l_exit l = e /\
                  find_resume_exit a (apply_resume (resume_x0 s) wi0 (Some (wi0, pos)) r) wi0 (is_timeout r) tmo = FreOk x2 e op /\
                  l_step l = Some (wi0, pos) /\ exists n, path_location a s wi0 = Some (pos, n))).
  { intros c res' H. inversion H; subst. left. exists {| session_ := s; sprint_ := empty_sprint |}, wi, c.
    destruct Hpost as [Hc [Hp _]]. split; [reflexivity|]. split; [exact Hc|]. split; [exact Hp|].
    split; [apply frame_refl|]. split; [reflexivity|left; reflexivity]. }
  destruct (run_flow_unusable a s wi); [apply Hfs|].
  destruct (Z.of_nat (count_waits s) >=? max_resumes (a_opts a))%Z; [apply Hfs|].
  destruct (path_location a s wi) as [[pos n]|] eqn:Epl; [|apply Hfs].
  destruct (n_router n) as [[[w|] rres rcats rcases rdef]|]; try apply Hfs.
  destruct (negb (accepts w r)); [discriminate|].
  cbv zeta. fold (resume_x0 s).
  set (x1 := apply_resume (resume_x0 s) wi (Some (wi, pos)) r).
  assert (M : forall l, l_cur l = Some wi -> l_exit l = None -> mid_inv x1 l wi None).
  { intros l Hc He. apply resume_mid_inv; auto. }
  assert (F1 : frame {| session_ := s; sprint_ := empty_sprint |} x1).
  { unfold x1. destruct (apply_resume_shape (resume_x0 s) wi (Some (wi, pos)) r) as (g & _ & _ & _ & _ & F). exact F. }
  set (l0 := {| l_cur := Some wi; l_node := None; l_exit := None; l_operand := []; l_step := None; l_steps := 0%Z; l_trigger := false |}).
  pose proof (find_resume_exit_shape a x1 wi (is_timeout r) tmo) as Hfre.
  destruct (find_resume_exit a x1 wi (is_timeout r) tmo) as [x2 e op|x2|x2|] eqn:Efre; try contradiction.
  - intros H. inversion H; subst; clear H. right. eexists x2, _. split; [reflexivity|].
    assert (Horigin : exists wi0 pos0 e0 op0, Some wi = Some wi0 /\ Some wi = Some wi0 /\ e = e0 /\
               find_resume_exit a (apply_resume (resume_x0 s) wi0 (Some (wi0, pos0)) r) wi0 (is_timeout r) tmo = FreOk x2 e0 op0 /\
               Some (wi, pos) = Some (wi0, pos0) /\ exists n0, path_location a s wi0 = Some (pos0, n0)).
    { exists wi, pos, e, op. repeat split; auto. exists n. exact Epl. }
    destruct Hfre as [[Hss Hact]|[-> Hfsh]].
    + split; [eapply mid_same; [apply (M l0); reflexivity|exact Hss|reflexivity|]|].
      * simpl. intros He. rewrite <- status_at_st_at. apply Hact. exact He.
      * split; [reflexivity|]. split; [rewrite (ss_pushed _ _ Hss); apply (mi_pushed _ _ _ _ (M l0 eq_refl eq_refl))|].
        split; [eapply frame_trans; [exact F1|apply (ss_frame _ _ Hss)]|]. exact Horigin.
    + split; [eapply mid_fail_cur; [apply (M l0); reflexivity|exact Hfsh|reflexivity|reflexivity]|].
      split; [reflexivity|]. split; [rewrite (fs_pushed _ _ _ Hfsh); apply (mi_pushed _ _ _ _ (M l0 eq_refl eq_refl))|].
      split; [eapply frame_trans; [exact F1|apply (fs_frame _ _ _ Hfsh)]|]. exact Horigin.
  - subst x2. intros H; inversion H; subst. left. exists x1, wi, FRouteError. split; [reflexivity|].
    split; [apply (mi_core _ _ _ _ (M l0 eq_refl eq_refl))|]. split; [apply (mi_pushed _ _ _ _ (M l0 eq_refl eq_refl))|].
    split; [exact F1|]. split; [reflexivity|right; exists pos, n; split; [exact Epl|reflexivity]].
Qed.
