(* EngineInv.v — the main loop of the engine model taken one iteration at a time, the shape of a
   session (parent / status / exited of every run) and the invariants of C01, C05 and C10 that depend
   only on it.

   [cuw_iter] is the body of [continue_until_wait] with the recursive call replaced by [ICont] and
   every return by [IStop]; [cuw_unfold] proves that this is what the model's loop does, so the
   invariants below are invariants of the model, not of a copy. *)

From Coq Require Import List NArith ZArith Bool Lia.
From Verif Require Import model.Lang model.Engine proofs.EngineProofs.
Import ListNotations.
Open Scope N_scope.

Inductive iter := IStop (r : result_) | ICont (x : st) (l : lstate).

Definition cuw_iter (a : assets) (x : st) (l : lstate) : iter :=

      (* 1. pick a destination *)
      let '(x, l, dest) :=
        match s_pushed (session_ x) with
        | Some p =>
            let x := if p_terminal p then with_session x exit_all_completed else x in
            let idx := length (s_runs (session_ x)) in
            let x := with_session x (fun s => set_pushed (set_runs s (s_runs s ++ [new_run (p_flow p) (l_cur l)])) None) in
            let dest := match get_flow a (p_flow p) with
                        | Some f => match f_nodes f with n :: _ => Some (n_id n) | [] => None end
                        | None => None
                        end in
            (* `step = nil`: the new run has not visited any node yet *)
            (x, {| l_cur := Some idx; l_node := l_node l; l_exit := l_exit l; l_operand := l_operand l;
                   l_step := None; l_steps := l_steps l; l_trigger := l_trigger l |}, dest)
        | None =>
            match l_exit l with
            | Some e =>
                let x :=
                  match e_dest e, l_cur l with
                  | Some d, Some ci =>
                      match get_run (session_ x) ci with
                      | Some r =>
                          match get_flow a (r_flow r) with
                          | Some f =>
                              match get_node f d, l_node l with
                              | Some _, Some (_, nid) =>
                                  log_segment x {| sg_flow := r_flow r; sg_node := nid; sg_exit := e_id e;
                                                   sg_operand := l_operand l; sg_dest := d |}
                              | _, _ => x
                              end
                          | None => x
                          end
                      | None => x
                      end
                  | _, _ => x
                  end in
                (x, {| l_cur := l_cur l; l_node := l_node l; l_exit := None; l_operand := [];
                       l_step := l_step l; l_steps := l_steps l; l_trigger := l_trigger l |}, e_dest e)
            | None => (x, l, None)
            end
        end in
      match l_cur l with
      | None => IStop (RGoError x)             (* unreachable: there is always a current run here *)
      | Some ci =>
          match dest with
          | None =>
              (* 2. no destination: the current run is done *)
              let x := match get_run (session_ x) ci with
                       | Some r => if r_exited r then x else with_session x (fun s => upd_run s ci (run_exit RCompleted))
                       | None => x
                       end in
              let parent := match get_run (session_ x) ci with Some r => r_parent r | None => None end in
              let parent_active := match parent with
                                   | Some pi => match run_status (session_ x) pi with Some RActive => true | _ => false end
                                   | None => false
                                   end in
              match parent, parent_active with
              | Some pi, true =>
                  let child_failed := match run_status (session_ x) ci with Some RFailed => true | _ => false end in
                  (* `step, _, _ = currentRun.PathLocation()` *)
                  let psr := match path_location a (session_ x) pi with
                             | Some (pos, _) => Some (pi, pos)
                             | None => None
                             end in
                  let l := {| l_cur := Some pi; l_node := l_node l; l_exit := l_exit l; l_operand := l_operand l;
                              l_step := psr; l_steps := l_steps l; l_trigger := l_trigger l |} in
                  if negb child_failed then
                    let flow_missing := match get_run (session_ x) pi with
                                        | Some r => match get_flow a (r_flow r) with None => true | Some _ => false end
                                        | None => true
                                        end in
                    if flow_missing
                    then ICont (fail_run x pi None FParentMissingFlow) l
                    else
                      match find_resume_exit a x pi false [] with
                      | FreOk x' e op =>
                          ICont x'
                            {| l_cur := Some pi; l_node := l_node l; l_exit := e; l_operand := op;
                               l_step := l_step l; l_steps := l_steps l; l_trigger := l_trigger l |}
                      | FreErr x' =>
                          ICont (fail_run x' pi None FParentNodeGone)
                            {| l_cur := Some pi; l_node := l_node l; l_exit := None; l_operand := [];
                               l_step := l_step l; l_steps := l_steps l; l_trigger := l_trigger l |}
                      | FreGoErr x' => IStop (RGoError x')
                      | FrePanic => IStop RPanic
                      end
                  else
                    ICont (fail_run x pi psr FChildFailed) l
              | _, _ =>
                  let failed := match run_status (session_ x) ci with Some RFailed => true | _ => false end in
                  IStop (ROk (with_session x (fun s => set_status s (if failed then SFailed else SCompleted))))
              end
          | Some d =>
              (* 3. go to the destination *)
              let steps := (l_steps l + 1)%Z in
              let l := {| l_cur := l_cur l; l_node := l_node l; l_exit := l_exit l; l_operand := l_operand l;
                          l_step := l_step l; l_steps := steps; l_trigger := l_trigger l |} in
              if (steps >? max_steps (a_opts a))%Z
              then ICont (fail_run x ci (l_step l) FStepLimit) l
              else
                match get_run (session_ x) ci with
                | None => IStop (RGoError x)
                | Some r =>
                    match get_flow a (r_flow r) with
                    | None => IStop (RGoError x)
                    | Some f =>
                        match get_node f d with
                        | None => IStop (RGoError x)            (* "unable to find destination node" *)
                        | Some n =>
                            match visit_node a x ci n (l_trigger l) with
                            | GoErr x' => IStop (RGoError x')
                            | Panicked => IStop RPanic
                            | Done x' (pos, e, op) =>
                                let l := {| l_cur := Some ci; l_node := Some (r_flow r, n_id n); l_exit := e;
                                            l_operand := op; l_step := Some (ci, pos); l_steps := steps;
                                            l_trigger := false |} in
                                if sstatus_eqb (s_status (session_ x')) SWaiting
                                then IStop (ROk x')
                                else ICont x' l
                            end
                        end
                    end
                end
          end
      end.

Lemma cuw_unfold : forall fuel a x l,
  continue_until_wait (S fuel) a x l =
  match cuw_iter a x l with IStop r => r | ICont x' l' => continue_until_wait fuel a x' l' end.
Proof.
  intros. unfold cuw_iter. simpl. repeat (first [reflexivity | dmatch]).
Qed.

(* induction over the loop: an invariant of one iteration is an invariant of the loop *)
Lemma cuw_induct : forall a (I : st -> lstate -> Prop) (Q : result_ -> Prop),
  (forall x l x' l', I x l -> cuw_iter a x l = ICont x' l' -> I x' l') ->
  (forall x l r, I x l -> cuw_iter a x l = IStop r -> Q r) ->
  Q ROutOfFuel ->
  forall fuel x l, I x l -> Q (continue_until_wait fuel a x l).
Proof.
  intros a I Q Hstep Hstop Hfuel. induction fuel as [|fuel IH]; intros x l HI; [exact Hfuel|].
  rewrite cuw_unfold. destruct (cuw_iter a x l) as [r|x' l'] eqn:E.
  - eapply Hstop; eauto.
  - apply IH. eapply Hstep; eauto.
Qed.

(* a measure that decreases with every iteration bounds the fuel the loop needs *)
Lemma cuw_terminates : forall a (I : st -> lstate -> Prop) (mu : st -> lstate -> nat),
  (forall x l x' l', I x l -> cuw_iter a x l = ICont x' l' -> I x' l' /\ (mu x' l' < mu x l)%nat) ->
  (forall x l r, I x l -> cuw_iter a x l = IStop r -> r <> ROutOfFuel) ->
  forall fuel x l, I x l -> (mu x l < fuel)%nat -> continue_until_wait fuel a x l <> ROutOfFuel.
Proof.
  intros a I mu Hstep Hstop. induction fuel as [|fuel IH]; intros x l HI Hmu; [lia|].
  rewrite cuw_unfold. destruct (cuw_iter a x l) as [r|x' l'] eqn:E.
  - eapply Hstop; eauto.
  - destruct (Hstep _ _ _ _ HI E) as [HI' Hlt]. apply IH; auto. lia.
Qed.

(* ================================================================================================== *)
(* Shapes                                                                                              *)
(* ================================================================================================== *)

Definition shp := (option nat * rstatus * bool)%type.
Definition sh_parent (z : shp) : option nat := fst (fst z).
Definition sh_status (z : shp) : rstatus := snd (fst z).
Definition sh_exited (z : shp) : bool := snd z.

Definition shp_of (r : run) : shp := (r_parent r, r_status r, r_exited r).
Definition shape (s : session) : list shp := map shp_of (s_runs s).

Definition z_exit (st : rstatus) (z : shp) : shp := (sh_parent z, st, true).
Definition z_status (st : rstatus) (z : shp) : shp := (sh_parent z, st, sh_exited z).

Definition fail_at (i : nat) (sh : list shp) : list shp := update_nth sh i (z_exit RFailed).

Lemma update_nth_map : forall A B (g : A -> B) (f : A -> A) (f' : B -> B) l i,
  (forall x, g (f x) = f' (g x)) -> map g (update_nth l i f) = update_nth (map g l) i f'.
Proof. induction l; intros [|i] H; simpl; auto; f_equal; auto. Qed.

Lemma update_nth_id : forall A (f : A -> A) l i, (forall x, f x = x) -> update_nth l i f = l.
Proof. induction l; intros [|i] H; simpl; auto; f_equal; auto. Qed.

Lemma update_nth_ext : forall A (f g : A -> A) l i, (forall x, f x = g x) -> update_nth l i f = update_nth l i g.
Proof. induction l; intros [|i] H; simpl; auto; f_equal; auto. Qed.

Lemma shape_upd_run : forall s ri g g', (forall r, shp_of (g r) = g' (shp_of r)) ->
  shape (upd_run s ri g) = update_nth (shape s) ri g'.
Proof. intros. unfold shape, upd_run; simpl. apply update_nth_map; auto. Qed.

Lemma shape_upd_run_same : forall s ri g, (forall r, shp_of (g r) = shp_of r) -> shape (upd_run s ri g) = shape s.
Proof.
  intros. rewrite (shape_upd_run s ri g (fun z => z)); auto. apply update_nth_id; auto.
Qed.

Lemma shape_set_status : forall s x, shape (set_status s x) = shape s. Proof. reflexivity. Qed.
Lemma shape_set_input : forall s x, shape (set_input s x) = shape s. Proof. reflexivity. Qed.
Lemma shape_set_pushed : forall s x, shape (set_pushed s x) = shape s. Proof. reflexivity. Qed.

Lemma shape_log_event : forall x ri sr k, shape (session_ (log_event x ri sr k)) = shape (session_ x).
Proof. intros. unfold log_event; simpl. apply shape_upd_run_same. reflexivity. Qed.

Lemma shape_log_segment : forall x g, shape (session_ (log_segment x g)) = shape (session_ x).
Proof. reflexivity. Qed.

Lemma shape_fail_run : forall x ri sr c, shape (session_ (fail_run x ri sr c)) = fail_at ri (shape (session_ x)).
Proof.
  intros. unfold fail_run. rewrite shape_log_event. unfold with_session; simpl.
  apply shape_upd_run. reflexivity.
Qed.

(* the other fields of the session *)
Definition sess_frame (s s' : session) : Prop :=
  s_trigger s' = s_trigger s /\ s_flow s' = s_flow s /\ s_type s' = s_type s.

Lemma sess_frame_refl : forall s, sess_frame s s. Proof. repeat split. Qed.
Lemma sess_frame_trans : forall a b c, sess_frame a b -> sess_frame b c -> sess_frame a c.
Proof. unfold sess_frame; intros a b c (?&?&?) (?&?&?); repeat split; congruence. Qed.

(* ---- what the run-local helpers do to the shape ------------------------------------------------------ *)

(* [loc ri x x']: x' differs from x by work local to run ri that left the shape alone *)
Record same_shape (x x' : st) : Prop := {
  ss_shape : shape (session_ x') = shape (session_ x);
  ss_status : s_status (session_ x') = s_status (session_ x);
  ss_pushed : s_pushed (session_ x') = s_pushed (session_ x);
  ss_input : s_input (session_ x') = s_input (session_ x);
  ss_frame : sess_frame (session_ x) (session_ x')
}.

Lemma same_shape_refl : forall x, same_shape x x.
Proof. intros; constructor; auto using sess_frame_refl. Qed.

Lemma same_shape_trans : forall x y z, same_shape x y -> same_shape y z -> same_shape x z.
Proof.
  intros x y z [] []; constructor; try congruence. eapply sess_frame_trans; eauto.
Qed.

Lemma same_shape_log_event : forall x ri sr k, same_shape x (log_event x ri sr k).
Proof.
  intros; constructor; try reflexivity. - apply shape_log_event. - repeat split.
Qed.

Lemma same_shape_upd : forall x ri g, (forall r, shp_of (g r) = shp_of r) ->
  same_shape x (with_session x (fun s => upd_run s ri g)).
Proof.
  intros; constructor; try reflexivity. - simpl. apply shape_upd_run_same; auto. - repeat split.
Qed.

Lemma save_and_log_shape : forall a x ri sr name value cat nid input x' v,
  save_and_log a x ri sr name value cat nid input = Done x' v -> same_shape x x'.
Proof.
  intros a x ri sr name value cat nid input x' v. unfold save_and_log.
  destruct (trunc value _); [|discriminate].
  destruct (get_run (session_ x) ri).
  - destruct (save_result _ _) as [rs ch]. intros H; inversion H; subst.
    destruct ch.
    + eapply same_shape_trans; [|apply same_shape_log_event]. apply same_shape_upd. reflexivity.
    + apply same_shape_upd. reflexivity.
  - intros H; inversion H; subst. apply same_shape_refl.
Qed.

Lemma save_and_log_no_goerr : forall a x ri sr name value cat nid input x',
  save_and_log a x ri sr name value cat nid input <> GoErr x'.
Proof.
  intros. unfold save_and_log. destruct (trunc value _); [|discriminate].
  destruct (get_run (session_ x) ri); [destruct (save_result _ _)|]; discriminate.
Qed.

Lemma route_to_category_shape : forall a x ri sr n rt cat m op x' v,
  route_to_category a x ri sr n rt cat m op = Done x' v -> same_shape x x'.
Proof.
  intros a x ri sr n rt cat m op x' v. unfold route_to_category.
  destruct cat; [|intros H; inversion H; apply same_shape_refl].
  destruct (nth_error _ _); [|discriminate].
  destruct (rt_result rt); [|intros H; inversion H; apply same_shape_refl].
  destruct (save_and_log _ _ _ _ _ _ _ _ _) eqn:E; try discriminate.
  intros H; inversion H; subst. eapply save_and_log_shape; eauto.
Qed.

Lemma route_to_category_goerr : forall a x ri sr n rt cat m op x',
  route_to_category a x ri sr n rt cat m op = GoErr x' -> x' = x.
Proof.
  intros a x ri sr n rt cat m op x'. unfold route_to_category.
  destruct cat; [|discriminate].
  destruct (nth_error _ _); [|intros H; inversion H; auto].
  destruct (rt_result rt); [|discriminate].
  destruct (save_and_log _ _ _ _ _ _ _ _ _) eqn:E; try discriminate.
  exfalso; eapply save_and_log_no_goerr; eauto.
Qed.

Lemma route_shape : forall a x ri sr n rt x' v, route a x ri sr n rt = Done x' v -> same_shape x x'.
Proof.
  intros a x ri sr n rt x' v. unfold route.
  destruct (route_to_category _ _ _ _ _ _ _ _ _) eqn:E; try discriminate.
  intros H; inversion H; subst. eapply route_to_category_shape; eauto.
Qed.

Lemma route_goerr : forall a x ri sr n rt x', route a x ri sr n rt = GoErr x' -> x' = x.
Proof.
  intros a x ri sr n rt x'. unfold route.
  destruct (route_to_category _ _ _ _ _ _ _ _ _) eqn:E; try discriminate.
  intros H; inversion H; subst. eapply route_to_category_goerr; eauto.
Qed.

Lemma route_timeout_shape : forall a x ri sr n rt t x' v, route_timeout a x ri sr n rt t = Done x' v -> same_shape x x'.
Proof.
  intros a x ri sr n rt t x' v. unfold route_timeout.
  destruct (rt_wait rt) as [[wt [[? ?]|]]|]; try discriminate. apply route_to_category_shape.
Qed.

Lemma route_timeout_goerr : forall a x ri sr n rt t x', route_timeout a x ri sr n rt t = GoErr x' -> x' = x.
Proof.
  intros a x ri sr n rt t x'. unfold route_timeout.
  destruct (rt_wait rt) as [[wt [[? ?]|]]|]; try (intros H; inversion H; auto; fail).
  apply route_to_category_goerr.
Qed.

(* [failed_shape ri x x']: the only change to the shape is that run ri was failed (failRun) *)
Record failed_shape (ri : nat) (x x' : st) : Prop := {
  fs_shape : shape (session_ x') = fail_at ri (shape (session_ x));
  fs_status : s_status (session_ x') = s_status (session_ x);
  fs_pushed : s_pushed (session_ x') = s_pushed (session_ x);
  fs_input : s_input (session_ x') = s_input (session_ x);
  fs_frame : sess_frame (session_ x) (session_ x')
}.

Lemma failed_shape_fail_run : forall x ri sr c, failed_shape ri x (fail_run x ri sr c).
Proof.
  intros; constructor; try reflexivity. - apply shape_fail_run. - repeat split.
Qed.

Lemma failed_after_same : forall ri x y z, same_shape x y -> failed_shape ri y z -> failed_shape ri x z.
Proof.
  intros ri x y z [] []; constructor; try congruence. eapply sess_frame_trans; eauto.
Qed.

Lemma same_after_failed : forall ri x y z, failed_shape ri x y -> same_shape y z -> failed_shape ri x z.
Proof.
  intros ri x y z [] []; constructor; try congruence. eapply sess_frame_trans; eauto.
Qed.

Lemma pick_node_exit_shape : forall a x ri n pos it tmo x' e op,
  pick_node_exit a x ri n pos it tmo = Done x' (e, op) ->
  same_shape x x' \/ (e = None /\ failed_shape ri x x').
Proof.
  intros a x ri n pos it tmo x' e op. unfold pick_node_exit.
  set (routed := match n_router n with
                 | Some rt => if it then match route_timeout a x ri (Some (ri, pos)) n rt tmo with
                                         | Done x' e => Done x' (e, [])
                                         | GoErr x' => GoErr x'
                                         | Panicked => Panicked
                                         end
                              else route a x ri (Some (ri, pos)) n rt
                 | None => match n_exits n with e :: _ => Done x (Some (e_id e), []) | [] => Done x (None, []) end
                 end).
  assert (Hr : forall y v, routed = Done y v -> same_shape x y).
  { unfold routed. intros y v. destruct (n_router n) as [rt|].
    - destruct it.
      + destruct (route_timeout a x ri (Some (ri, pos)) n rt tmo) eqn:E; try discriminate.
        intros H; inversion H; subst. eapply route_timeout_shape; eauto.
      + apply route_shape.
    - destruct (n_exits n); intros H; inversion H; apply same_shape_refl. }
  destruct routed as [y [eid operand]| |] eqn:E; try discriminate.
  specialize (Hr _ _ eq_refl).
  destruct (n_router n) as [rt|] eqn:Ert; destruct eid as [i|].
  - intros H; inversion H; subst. left. eapply same_shape_trans; [exact Hr|]. apply same_shape_upd. reflexivity.
  - intros H; inversion H; subst. right. split; auto. eapply failed_after_same; [exact Hr|apply failed_shape_fail_run].
  - intros H; inversion H; subst. left. eapply same_shape_trans; [exact Hr|]. apply same_shape_upd. reflexivity.
  - intros H; inversion H; subst. left. eapply same_shape_trans; [exact Hr|]. apply same_shape_upd. reflexivity.
Qed.

Lemma pick_node_exit_goerr : forall a x ri n pos it tmo x', pick_node_exit a x ri n pos it tmo = GoErr x' -> x' = x.
Proof.
  intros a x ri n pos it tmo x'. unfold pick_node_exit.
  destruct (n_router n) as [rt|].
  - destruct it.
    + destruct (route_timeout a x ri (Some (ri, pos)) n rt tmo) eqn:E; try discriminate.
      * destruct v; discriminate.
      * intros H; inversion H; subst. eapply route_timeout_goerr; eauto.
    + destruct (route a x ri (Some (ri, pos)) n rt) eqn:E; try discriminate.
      * destruct v as [[?|] ?]; discriminate.
      * intros H; inversion H; subst. eapply route_goerr; eauto.
  - destruct (n_exits n); discriminate.
Qed.

Definition status_at (x : st) (i : nat) : option rstatus := run_status (session_ x) i.

Lemma run_status_shape : forall s i, run_status s i = option_map sh_status (nth_error (shape s) i).
Proof.
  intros. unfold run_status, get_run, shape. rewrite nth_error_map. destruct (nth_error (s_runs s) i); reflexivity.
Qed.

Lemma find_resume_exit_shape : forall a x ri it tmo,
  match find_resume_exit a x ri it tmo with
  | FreOk x' e op => (same_shape x x' /\ (e <> None -> status_at x ri = Some RActive)) \/ (e = None /\ failed_shape ri x x')
  | FreErr x' => x' = x
  | FreGoErr _ => False
  | FrePanic => False
  end.
Proof.
  intros. unfold find_resume_exit, status_at.
  destruct (run_status (session_ x) ri) as [[]|] eqn:Es;
    try (left; split; [apply same_shape_refl|intros C; congruence]).
  destruct (path_location a (session_ x) ri) as [[pos n]|]; [|reflexivity].
  destruct (pick_node_exit a x ri n pos it tmo) as [x' [e op]|x'|] eqn:E.
  - destruct (pick_node_exit_shape _ _ _ _ _ _ _ _ _ _ E) as [H|[H1 H2]]; [left|right]; auto.
  - eapply pick_node_exit_goerr; eauto.
  - eapply pick_node_exit_no_panic; eauto.
Qed.

(* ---- actions -------------------------------------------------------------------------------------------- *)

Record action_ok (x x' : st) : Prop := {
  ao_shape : shape (session_ x') = shape (session_ x);
  ao_status : s_status (session_ x') = s_status (session_ x);
  ao_pushed : s_pushed (session_ x') = s_pushed (session_ x) \/ exists p, s_pushed (session_ x') = Some p;
  ao_input : s_input (session_ x') = s_input (session_ x);
  ao_frame : sess_frame (session_ x) (session_ x')
}.

Lemma action_ok_of_same : forall x x', same_shape x x' -> action_ok x x'.
Proof. intros x x' []; constructor; auto. Qed.

Lemma action_ok_trans : forall x y z, action_ok x y -> action_ok y z -> action_ok x z.
Proof.
  intros x y z [] []; constructor; try congruence.
  - destruct ao_pushed1 as [E|[p E]]; [rewrite E; auto|right; eauto].
  - eapply sess_frame_trans; eauto.
Qed.

Lemma exec_action_shape : forall a x ri pos n act x' v,
  exec_action a x ri pos n act = Done x' v -> action_ok x x' \/ failed_shape ri x x'.
Proof.
  intros a x ri pos n act x' v. unfold exec_action. destruct act.
  - destruct (trunc_ellipsis _ _); [|discriminate]. intros H; inversion H; subst.
    left. apply action_ok_of_same, same_shape_log_event.
  - destruct (trunc_ellipsis _ _); [|discriminate]. intros H. left. apply action_ok_of_same.
    eapply save_and_log_shape; eauto.
  - destruct (get_flow a flow).
    + destruct (negb _).
      * intros H; inversion H; subst. right.
        change (failed_shape ri x (fail_run x ri (Some (ri, pos)) FEnterFlowType)). apply failed_shape_fail_run.
      * intros H; inversion H; subst. left. constructor; try reflexivity.
        -- rewrite shape_log_event. reflexivity.
        -- right. eexists. reflexivity.
        -- repeat split.
    + intros H; inversion H; subst. right.
      change (failed_shape ri x (fail_run x ri (Some (ri, pos)) FEnterMissingFlow)). apply failed_shape_fail_run.
Qed.

Lemma exec_action_no_goerr : forall a x ri pos n act x', exec_action a x ri pos n act <> GoErr x'.
Proof.
  intros. unfold exec_action. destruct act.
  - destruct (trunc_ellipsis _ _); discriminate.
  - destruct (trunc_ellipsis _ _); [|discriminate]. apply save_and_log_no_goerr.
  - destruct (get_flow a flow); [destruct (negb _)|]; discriminate.
Qed.

Lemma exec_actions_no_goerr : forall a acts x ri pos n x', exec_actions a x ri pos n acts <> GoErr x'.
Proof.
  induction acts as [|act acts IH]; intros; simpl; [discriminate|].
  destruct (exec_action a x ri pos n act) eqn:E; try discriminate.
  - destruct (run_status _ _) as [[]|]; try apply IH. discriminate.
  - exfalso; eapply exec_action_no_goerr; eauto.
Qed.

Lemma fail_at_status : forall sh ri, option_map sh_status (nth_error (fail_at ri sh) ri) =
                                     match nth_error sh ri with Some _ => Some RFailed | None => None end.
Proof. intros. unfold fail_at. rewrite nth_error_update_nth_eq. destruct (nth_error sh ri); reflexivity. Qed.

(* the action loop: either no action failed the run, or the run is failed and nothing is pushed *)
Record actions_failed (ri : nat) (x x' : st) : Prop := {
  af_shape : shape (session_ x') = fail_at ri (shape (session_ x));
  af_status : s_status (session_ x') = s_status (session_ x);
  af_pushed : s_pushed (session_ x') = None;
  af_input : s_input (session_ x') = s_input (session_ x);
  af_frame : sess_frame (session_ x) (session_ x')
}.

Lemma exec_actions_shape : forall a acts x ri pos n x' b,
  status_at x ri = Some RActive ->
  exec_actions a x ri pos n acts = Done x' b ->
  if b then actions_failed ri x x' else action_ok x x' /\ (acts = [] -> x' = x).
Proof.
  induction acts as [|act acts IH]; intros x ri pos n x' b Hact; simpl.
  - intros H; inversion H; subst. split; auto. apply action_ok_of_same, same_shape_refl.
  - destruct (exec_action a x ri pos n act) as [y v| |] eqn:E; try discriminate.
    destruct (exec_action_shape _ _ _ _ _ _ _ _ E) as [Hok|Hf].
    + assert (Hy : status_at y ri = Some RActive).
      { unfold status_at in *. rewrite run_status_shape in *. rewrite (ao_shape _ _ Hok). exact Hact. }
      unfold status_at in Hy. rewrite Hy. intros H. specialize (IH _ _ _ _ _ _ Hy H).
      destruct b.
      * destruct Hok, IH; constructor; try congruence. eapply sess_frame_trans; eauto.
      * destruct IH as [IH1 _]. split; [eapply action_ok_trans; eauto|discriminate].
    + assert (Hy : run_status (session_ y) ri = Some RFailed).
      { rewrite run_status_shape, (fs_shape _ _ _ Hf), fail_at_status.
        unfold status_at in Hact. rewrite run_status_shape in Hact.
        destruct (nth_error (shape (session_ x)) ri); [reflexivity|discriminate]. }
      rewrite Hy. intros H; inversion H; subst.
      destruct Hf; constructor; simpl; auto.
Qed.
