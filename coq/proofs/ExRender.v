(* ExRender.v — C11, from printed tokens to printed text: Expression.String() (model/ExPrinter.v) is the
   concatenation of the lexemes of [ptoks] with single spaces at fixed places ([pitems]); lexing that text gives the
   tokens back provided no two neighbours glue together ([items_ok], a decidable side condition).
   The rule table gen/GrammarE3.v is regenerated from the .g4 on every run; the lemmas that compute on it are
   re-checked against the grammar as it is now. *)
From Coq Require Import List NArith Bool Arith Lia.
From Verif Require Import lib.Quote model.ExSyntax model.ExLexer model.ExParser model.ExPrinter gen.GrammarE3
  proofs.QuoteProofs proofs.ExLexerProofs proofs.ExPrintProofs proofs.ExRoundtrip.
Import ListNotations.
Open Scope N_scope.

(* ---------------------------------------------------------------------------------------------- *)
(* which rule wins: every earlier rule matches strictly less, every later rule at most as much *)

Definition mlen (sh : shape) (inp : text) : nat :=
  match match_shape sh inp with Some m => m | None => O end.

Lemma best_rule_later : forall rules inp k sh n,
  Forall (fun r => (mlen (snd r) inp <= S n)%nat) rules ->
  best_rule rules inp (Some (k, sh, S n)) = Some (k, sh, S n).
Proof.
  induction rules as [|[k0 sh0] r IH]; intros inp k sh n H; [reflexivity|].
  inversion H as [|? ? H0 Hr]; subst. cbn [best_rule]. unfold mlen in H0. cbn [snd] in H0.
  destruct (match_shape sh0 inp) as [[|m]|]; try (apply IH; exact Hr).
  destruct (Nat.ltb_spec (S n) (S m)); [lia|]. apply IH; exact Hr.
Qed.

Lemma best_rule_pick : forall rules1 k sh rules2 inp n best,
  match_shape sh inp = Some (S n) ->
  Forall (fun r => (mlen (snd r) inp < S n)%nat) rules1 ->
  Forall (fun r => (mlen (snd r) inp <= S n)%nat) rules2 ->
  match best with Some (_, _, m) => (m < S n)%nat | None => True end ->
  best_rule (rules1 ++ (k, sh) :: rules2) inp best = Some (k, sh, S n).
Proof.
  induction rules1 as [|[k0 sh0] r IH]; intros k sh rules2 inp n best Hm H1 H2 Hb.
  - cbn [app best_rule]. rewrite Hm.
    destruct best as [[[k1 s1] m1]|].
    + destruct (Nat.ltb_spec m1 (S n)); [|lia]. apply best_rule_later. exact H2.
    + apply best_rule_later. exact H2.
  - inversion H1 as [|? ? H0 Hr]; subst. cbn [app best_rule]. unfold mlen in H0. cbn [snd] in H0.
    apply IH; try assumption.
    destruct (match_shape sh0 inp) as [[|m]|]; try exact Hb.
    destruct best as [[[k1 s1] m1]|]; [|lia].
    destruct (Nat.ltb m1 (S m)); [lia|exact Hb].
Qed.

(* the first character decides for most shapes *)
Lemma mlen_first sh c x : first_ok sh c = false -> mlen sh (c :: x) = O.
Proof.
  intros H. unfold mlen. pose proof (first_ok_sound sh c x H) as Hs.
  destruct (match_shape sh (c :: x)) as [[|m]|]; [reflexivity|contradiction|reflexivity].
Qed.

(* ---------------------------------------------------------------------------------------------- *)
(* facts about the character classes, computed from the table *)

Definition lit_first (r : kind * shape) : list N :=
  match snd r with SLit (a :: _) => [a] | SText => [34] | SWs cs => cs | _ => [] end.

(* first characters of the fixed-text rules, of TEXT and of white space *)
Definition special_firsts : list N := flat_map lit_first lexer_rules.

Lemma special_not_name : forallb (fun a => negb (name_char a) && negb (is_digit a)) special_firsts = true.
Proof. vm_compute. reflexivity. Qed.

Lemma digits_not_name_start : forallb (fun a => negb (name_start a)) [48; 49; 50; 51; 52; 53; 54; 55; 56; 57] = true.
Proof. vm_compute. reflexivity. Qed.

Lemma is_digit_cases c : is_digit c = true -> In c [48; 49; 50; 51; 52; 53; 54; 55; 56; 57].
Proof. unfold is_digit. intros H. cbn [In]. lia. Qed.

Lemma digit_not_name_start c : is_digit c = true -> name_start c = false.
Proof.
  intros H. apply is_digit_cases in H. pose proof digits_not_name_start as Hd. rewrite forallb_forall in Hd.
  apply Hd in H. apply negb_true_iff in H. exact H.
Qed.

Lemma name_start_char c : name_start c = true -> name_char c = true.
Proof. unfold name_start, name_char. intros H. apply orb_prop in H. destruct H as [-> | ->]; [reflexivity|apply orb_true_r]. Qed.

Lemma digit_name_char c : is_digit c = true -> name_char c = true.
Proof.
  intros H. apply is_digit_cases in H. cbn [In] in H.
  repeat (destruct H as [<- | H]; [vm_compute; reflexivity|]). contradiction.
Qed.

(* a character that is a name character or a digit is not the first character of a fixed-text rule, TEXT or WS *)
Lemma special_first_other r c : In r lexer_rules -> (name_char c = true \/ is_digit c = true) ->
  match snd r with SLit _ | SText | SWs _ => first_ok (snd r) c = false | _ => True end.
Proof.
  intros Hin Hc.
  assert (Hnot : forall a, In a (lit_first r) -> a <> c).
  { intros a Ha ->. pose proof special_not_name as Hs. rewrite forallb_forall in Hs.
    assert (Hin2 : In c special_firsts) by (unfold special_firsts; apply in_flat_map; exists r; auto).
    apply Hs in Hin2. apply andb_prop in Hin2. destruct Hin2 as [H1 H2].
    apply negb_true_iff in H1. apply negb_true_iff in H2. destruct Hc; congruence. }
  assert (Hne : match snd r with SLit [] => False | _ => True end).
  { assert (Hall : forallb (fun r => match snd r with SLit [] => false | _ => true end) lexer_rules = true)
      by (vm_compute; reflexivity).
    rewrite forallb_forall in Hall. apply Hall in Hin. destruct (snd r) as [[|a s']|s| | | | |cs|]; try exact I. discriminate. }
  unfold lit_first in Hnot. destruct (snd r) as [[|a s']|s| | | | |cs|]; try exact I.
  - contradiction.
  - cbn [first_ok]. apply N.eqb_neq. apply Hnot. left; reflexivity.
  - cbn [first_ok]. apply N.eqb_neq. intros ->. apply (Hnot 34); [left; reflexivity|reflexivity].
  - cbn [first_ok]. destruct (existsb (N.eqb c) cs) eqn:E; [|reflexivity].
    apply existsb_exists in E. destruct E as (a & Ha & E). apply N.eqb_eq in E. subst a. exfalso. exact (Hnot c Ha eq_refl).
Qed.

(* ---------------------------------------------------------------------------------------------- *)
(* NAME *)

Definition next_not (f : N -> bool) (rest : text) : bool :=
  match rest with [] => true | c :: _ => negb (f c) end.

Definition name_lexeme (n : text) : bool :=
  match n with c :: n' => name_start c && forallb name_char n' | [] => false end.

(* the case-insensitive words of the grammar (TRUE, FALSE, NULL) *)
Definition kw_words : list text := flat_map (fun r => match snd r with SCi s => [s] | _ => [] end) lexer_rules.

Definition is_keyword (n : text) : bool :=
  existsb (fun s => Nat.eqb (length s) (length n) && match m_ci s n with Some _ => true | None => false end) kw_words.

Lemma kw_lowercase : forallb (forallb (fun a => (97 <=? a) && (a <=? 122))) kw_words = true.
Proof. vm_compute. reflexivity. Qed.

Lemma ascii_letter_name_char c : ((65 <=? c) && (c <=? 90)) || ((97 <=? c) && (c <=? 122)) = true -> name_char c = true.
Proof.
  intros H. unfold name_char, is_letter. replace unicode_letter with ((65, 90) :: (97, 122) :: skipn 2 unicode_letter) by reflexivity.
  cbn [in_ranges]. apply orb_prop in H. destruct H as [H|H]; rewrite H; cbn [orb]; [reflexivity|].
  rewrite !orb_true_r. reflexivity.
Qed.

Lemma m_ci_len : forall s inp m, m_ci s inp = Some m -> m = length s.
Proof.
  induction s as [|a s IH]; intros inp m H; cbn [m_ci] in H; [inversion H; reflexivity|].
  destruct inp as [|c r]; [discriminate|]. destruct ((a =? c) || (a =? c + 32)); [|discriminate].
  destruct (m_ci s r) as [m'|] eqn:E; [|discriminate]. inversion H; subst. cbn [length]. f_equal. eapply IH; exact E.
Qed.

(* a case-insensitive word matches only ASCII letters *)
Lemma m_ci_letters : forall s inp m, forallb (fun a => (97 <=? a) && (a <=? 122)) s = true ->
  m_ci s inp = Some m -> (length s <= length inp)%nat /\ forallb name_char (firstn (length s) inp) = true.
Proof.
  induction s as [|a s IH]; intros inp m Hs H; cbn [m_ci] in H; [split; [cbn; lia|reflexivity]|].
  destruct inp as [|c r]; [discriminate|]. cbn [forallb] in Hs. apply andb_prop in Hs. destruct Hs as [Ha Hs].
  destruct ((a =? c) || (a =? c + 32)) eqn:E; [|discriminate].
  destruct (m_ci s r) as [m'|] eqn:E2; [|discriminate].
  destruct (IH _ _ Hs E2) as [H1 H2]. split; [cbn [length]; lia|]. cbn [length firstn forallb]. rewrite H2, andb_true_r.
  apply ascii_letter_name_char. apply orb_prop in E. destruct E as [E|E]; apply N.eqb_eq in E; lia.
Qed.

Lemma m_ci_app : forall s n rest, (length s <= length n)%nat -> m_ci s (n ++ rest) = m_ci s n.
Proof.
  induction s as [|a s IH]; intros n rest H; [reflexivity|].
  destruct n as [|c n']; [cbn in H; lia|]. cbn [app m_ci]. rewrite IH by (cbn [length] in H; lia). reflexivity.
Qed.

(* how far a run of name characters can reach into n ++ rest when rest does not start with one *)
Lemma name_run_bound : forall k n rest, next_not name_char rest = true -> (k <= length (n ++ rest))%nat ->
  forallb name_char (firstn k (n ++ rest)) = true -> (k <= length n)%nat.
Proof.
  induction k as [|k IH]; intros n rest Hr Hk H; [lia|].
  destruct n as [|c n'].
  - cbn [app] in *. destruct rest as [|d r]; [cbn in Hk; lia|]. cbn [firstn forallb] in H. cbn [next_not] in Hr.
    apply andb_prop in H. destruct H as [H _]. rewrite H in Hr. discriminate.
  - cbn [app firstn forallb length] in *. apply andb_prop in H. destruct H as [_ H]. specialize (IH n' rest Hr ltac:(lia) H). lia.
Qed.

Lemma span_name : forall n rest, forallb name_char n = true -> next_not name_char rest = true ->
  span_len name_char (n ++ rest) = length n.
Proof.
  induction n as [|c n IH]; intros rest Hn Hr.
  - cbn [app length]. destruct rest as [|d r]; [reflexivity|]. cbn [span_len next_not] in *.
    apply negb_true_iff in Hr. rewrite Hr. reflexivity.
  - cbn [forallb] in Hn. apply andb_prop in Hn. destruct Hn as [H1 H2]. cbn [app span_len length]. rewrite H1, IH by assumption. reflexivity.
Qed.

Definition name_index : nat := 25.

Lemma rules_split_name :
  lexer_rules = firstn name_index lexer_rules ++ (NAME, SName) :: skipn (S name_index) lexer_rules.
Proof. reflexivity. Qed.

Lemma before_name_shapes :
  forallb (fun r => match snd r with SName | SAny => false | _ => true end) (firstn name_index lexer_rules) = true.
Proof. vm_compute. reflexivity. Qed.

Lemma after_name_shapes :
  forallb (fun r => match snd r with SWs _ | SAny => true | _ => false end) (skipn (S name_index) lexer_rules) = true.
Proof. vm_compute. reflexivity. Qed.

Lemma in_firstn {A} (x : A) n l : In x (firstn n l) -> In x l.
Proof. revert l. induction n as [|n IH]; intros [|y l] H; try contradiction. destruct H as [H|H]; [left; exact H|right; apply IH; exact H]. Qed.

Lemma in_skipn {A} (x : A) n l : In x (skipn n l) -> In x l.
Proof. revert l. induction n as [|n IH]; intros l H; [exact H|]. destruct l as [|y l]; [contradiction|]. right. apply IH. exact H. Qed.

(* a name that is not a keyword, followed by something that is not a name character, is one NAME token *)
Theorem lex_one_name n rest : name_lexeme n = true -> is_keyword n = false -> next_not name_char rest = true ->
  lex_one (n ++ rest) = Some (NAME, false, n, rest).
Proof.
  intros Hn Hk Hr. destruct n as [|c n']; [discriminate|]. cbn [name_lexeme] in Hn. apply andb_prop in Hn. destruct Hn as [Hc Hn'].
  assert (Hcn : name_char c = true) by (apply name_start_char; exact Hc).
  assert (Hcd : is_digit c = false).
  { destruct (is_digit c) eqn:E; [|reflexivity]. apply digit_not_name_start in E. congruence. }
  assert (Hm : match_shape SName ((c :: n') ++ rest) = Some (S (length n'))).
  { cbn [app match_shape m_name]. rewrite Hc, span_name by assumption. reflexivity. }
  unfold lex_one, lex_one_with. rewrite rules_split_name.
  rewrite (best_rule_pick _ NAME SName _ _ (length n') None Hm).
  - cbn [is_skip]. change (S (length n')) with (length (c :: n')). rewrite firstn_app_exact, skipn_app_exact. reflexivity.
  - (* earlier rules are strictly shorter *)
    apply Forall_forall. intros [k sh] Hin. cbn [snd].
    pose proof before_name_shapes as Hb. rewrite forallb_forall in Hb. specialize (Hb _ Hin). cbn [snd] in Hb.
    apply in_firstn in Hin.
    pose proof (special_first_other (k, sh) c Hin (or_introl Hcn)) as Hsp. cbn [snd] in Hsp.
    destruct sh as [s|s| | | | |cs|]; try discriminate.
    + cbn [app]. rewrite (mlen_first _ _ _ Hsp). lia.
    + (* a keyword rule *)
      unfold mlen. cbn [match_shape]. destruct (m_ci s ((c :: n') ++ rest)) as [m|] eqn:E; [|lia].
      assert (Hs : forallb (fun a => (97 <=? a) && (a <=? 122)) s = true).
      { pose proof kw_lowercase as Hl. rewrite forallb_forall in Hl. apply Hl. unfold kw_words. apply in_flat_map.
        exists (k, SCi s). split; [exact Hin|left; reflexivity]. }
      pose proof (m_ci_len _ _ _ E) as ->. destruct (m_ci_letters _ _ _ Hs E) as [H1 H2].
      pose proof (name_run_bound _ _ _ Hr H1 H2) as H3.
      destruct (Nat.eq_dec (length s) (length (c :: n'))) as [Heq|Hne]; [|cbn [length] in *; lia].
      exfalso. rewrite m_ci_app in E by lia.
      assert (Hkw : is_keyword (c :: n') = true).
      { unfold is_keyword. apply existsb_exists. exists s. split.
        - unfold kw_words. apply in_flat_map. exists (k, SCi s). split; [exact Hin|left; reflexivity].
        - rewrite Heq, Nat.eqb_refl, E. reflexivity. }
      congruence.
    + cbn [app]. rewrite (mlen_first _ _ _ Hsp). lia.
    + cbn [app]. rewrite (mlen_first SDigits c _ Hcd). lia.
    + cbn [app]. rewrite (mlen_first SDecimal c _ Hcd). lia.
    + cbn [app]. rewrite (mlen_first _ _ _ Hsp). lia.
  - (* later rules are not longer *)
    apply Forall_forall. intros [k sh] Hin. cbn [snd].
    pose proof after_name_shapes as Ha. rewrite forallb_forall in Ha. specialize (Ha _ Hin). cbn [snd] in Ha.
    apply in_skipn in Hin.
    pose proof (special_first_other (k, sh) c Hin (or_introl Hcn)) as Hsp. cbn [snd] in Hsp.
    destruct sh as [s|s| | | | |cs|]; try discriminate.
    + cbn [app]. rewrite (mlen_first _ _ _ Hsp). lia.
    + unfold mlen. cbn. lia.
  - exact I.
Qed.


(* ---------------------------------------------------------------------------------------------- *)
(* INTEGER and DECIMAL *)

Definition dot_digit (rest : text) : bool :=
  match rest with c :: d :: _ => (c =? 46) && is_digit d | _ => false end.

Lemma span_digits : forall n rest, forallb is_digit n = true -> next_not is_digit rest = true ->
  span_len is_digit (n ++ rest) = length n.
Proof.
  induction n as [|c n IH]; intros rest Hn Hr.
  - cbn [app length]. destruct rest as [|d r]; [reflexivity|]. cbn [span_len next_not] in *.
    apply negb_true_iff in Hr. rewrite Hr. reflexivity.
  - cbn [forallb] in Hn. apply andb_prop in Hn. destruct Hn as [H1 H2]. cbn [app span_len length]. rewrite H1, IH by assumption. reflexivity.
Qed.

(* every case-insensitive word of the grammar starts with a lower-case ASCII letter *)
Lemma kw_first_letter : forallb (fun s => match s with a :: _ => (97 <=? a) && (a <=? 122) | [] => false end) kw_words = true.
Proof. vm_compute. reflexivity. Qed.

Lemma ci_first_digit k s c : In (k, SCi s) lexer_rules -> is_digit c = true -> first_ok (SCi s) c = false.
Proof.
  intros Hin Hc.
  assert (Hw : In s kw_words).
  { unfold kw_words. apply in_flat_map. exists (k, SCi s). split; [exact Hin|left; reflexivity]. }
  pose proof kw_first_letter as Hl. rewrite forallb_forall in Hl. specialize (Hl _ Hw).
  destruct s as [|a s']; [discriminate|]. cbn [first_ok]. unfold is_digit in Hc. lia.
Qed.

Definition integer_index : nat := 20.
Definition decimal_index : nat := 21.

Lemma rules_split_integer :
  lexer_rules = firstn integer_index lexer_rules ++ (INTEGER, SDigits) :: skipn (S integer_index) lexer_rules.
Proof. reflexivity. Qed.

Lemma rules_split_decimal :
  lexer_rules = firstn decimal_index lexer_rules ++ (DECIMAL, SDecimal) :: skipn (S decimal_index) lexer_rules.
Proof. reflexivity. Qed.

Lemma before_integer_shapes :
  forallb (fun r => match snd r with SLit _ | SText => true | _ => false end) (firstn integer_index lexer_rules) = true.
Proof. vm_compute. reflexivity. Qed.

Lemma after_decimal_shapes :
  forallb (fun r => match snd r with SCi _ | SName | SWs _ | SAny => true | _ => false end) (skipn (S decimal_index) lexer_rules) = true.
Proof. vm_compute. reflexivity. Qed.

(* the rules after DECIMAL match at most one character of a text that starts with a digit *)
Lemma after_decimal_short c x r : In r (skipn (S decimal_index) lexer_rules) -> is_digit c = true ->
  (mlen (snd r) (c :: x) <= 1)%nat.
Proof.
  intros Hin Hc. destruct r as [k sh]. cbn [snd].
  pose proof after_decimal_shapes as Ha. rewrite forallb_forall in Ha. specialize (Ha _ Hin). cbn [snd] in Ha.
  apply in_skipn in Hin.
  pose proof (special_first_other (k, sh) c Hin (or_intror Hc)) as Hsp. cbn [snd] in Hsp.
  destruct sh as [s|s| | | | |cs|]; try discriminate.
  - rewrite (mlen_first _ _ _ (ci_first_digit _ _ _ Hin Hc)). lia.
  - rewrite (mlen_first SName c x (digit_not_name_start _ Hc)). lia.
  - rewrite (mlen_first _ _ _ Hsp). lia.
  - unfold mlen. cbn. lia.
Qed.

Lemma before_integer_zero c x r : In r (firstn integer_index lexer_rules) -> is_digit c = true ->
  mlen (snd r) (c :: x) = O.
Proof.
  intros Hin Hc. destruct r as [k sh]. cbn [snd].
  pose proof before_integer_shapes as Hb. rewrite forallb_forall in Hb. specialize (Hb _ Hin). cbn [snd] in Hb.
  apply in_firstn in Hin.
  pose proof (special_first_other (k, sh) c Hin (or_intror Hc)) as Hsp. cbn [snd] in Hsp.
  destruct sh as [s|s| | | | |cs|]; try discriminate; apply mlen_first; exact Hsp.
Qed.

(* a run of digits followed by neither a digit nor ".digit" is one INTEGER token *)
Theorem lex_one_integer n rest : all_digits n = true -> next_not is_digit rest = true -> dot_digit rest = false ->
  lex_one (n ++ rest) = Some (INTEGER, false, n, rest).
Proof.
  intros Hn Hr Hd. unfold all_digits in Hn. apply andb_prop in Hn. destruct Hn as [Hn Hne].
  destruct n as [|c n']; [discriminate|]. cbn [forallb] in Hn. apply andb_prop in Hn. destruct Hn as [Hc Hn'].
  assert (Hsp : span_len is_digit ((c :: n') ++ rest) = S (length n')).
  { rewrite span_digits; [reflexivity| |exact Hr]. cbn [forallb]. rewrite Hc, Hn'. reflexivity. }
  assert (Hm : match_shape SDigits ((c :: n') ++ rest) = Some (S (length n'))).
  { cbn [match_shape]. unfold m_digits. rewrite Hsp. reflexivity. }
  unfold lex_one, lex_one_with. rewrite rules_split_integer.
  rewrite (best_rule_pick _ INTEGER SDigits _ _ (length n') None Hm).
  - cbn [is_skip]. change (S (length n')) with (length (c :: n')). rewrite firstn_app_exact, skipn_app_exact. reflexivity.
  - apply Forall_forall. intros r Hin. cbn [app]. rewrite (before_integer_zero c _ r Hin Hc). lia.
  - (* DECIMAL does not match; the others at most one character *)
    change (skipn (S integer_index) lexer_rules) with ((DECIMAL, SDecimal) :: skipn (S decimal_index) lexer_rules).
    constructor.
    + cbn [snd]. unfold mlen. cbn [match_shape]. unfold m_decimal. rewrite Hsp.
      change (S (length n')) with (length (c :: n')). rewrite skipn_app_exact.
      destruct rest as [|d [|e r]]; try (cbn; lia).
      * destruct (d =? 46); cbn; lia.
      * destruct (N.eqb_spec d 46) as [->|]; [|cbn; lia]. cbn [dot_digit] in Hd. change (46 =? 46) with true in Hd.
        cbn [andb] in Hd. cbn [span_len]. rewrite Hd. cbn. lia.
    + apply Forall_forall. intros r Hin. cbn [app]. pose proof (after_decimal_short c (n' ++ rest) r Hin Hc). lia.
  - exact I.
Qed.

(* digits '.' digits followed by no digit is one DECIMAL token *)
Theorem lex_one_decimal ip fp rest : all_digits ip = true -> all_digits fp = true -> next_not is_digit rest = true ->
  lex_one ((ip ++ 46 :: fp) ++ rest) = Some (DECIMAL, false, ip ++ 46 :: fp, rest).
Proof.
  intros Hi Hf Hr. unfold all_digits in Hi, Hf. apply andb_prop in Hi. destruct Hi as [Hi Hine].
  apply andb_prop in Hf. destruct Hf as [Hf Hfne].
  destruct ip as [|c ip']; [discriminate|]. destruct fp as [|f0 fp']; [discriminate|].
  pose proof Hi as Hi0. cbn [forallb] in Hi. apply andb_prop in Hi. destruct Hi as [Hc Hip'].
  set (n := (c :: ip') ++ 46 :: f0 :: fp').
  assert (Hlen : length n = S (length ip' + S (S (length fp')))).
  { unfold n. rewrite app_length. cbn [length]. lia. }
  assert (Hsp1 : span_len is_digit (n ++ rest) = length (c :: ip')).
  { unfold n. rewrite <- app_assoc. apply span_digits; [exact Hi0|reflexivity]. }
  assert (Hm : match_shape SDecimal (n ++ rest) = Some (S (length ip' + S (S (length fp'))))).
  { cbn [match_shape]. unfold m_decimal. rewrite Hsp1. cbn [length].
    unfold n. rewrite <- app_assoc. change (S (length ip')) with (length (c :: ip')). rewrite skipn_app_exact.
    cbn [app]. change (46 =? 46) with true. cbv iota.
    change (f0 :: fp' ++ rest) with ((f0 :: fp') ++ rest).
    rewrite (span_digits (f0 :: fp') rest Hf Hr). cbn [length]. f_equal. lia. }
  unfold lex_one, lex_one_with. rewrite rules_split_decimal.
  rewrite (best_rule_pick _ DECIMAL SDecimal _ _ _ None Hm).
  - cbn [is_skip]. rewrite <- Hlen, firstn_app_exact, skipn_app_exact. reflexivity.
  - (* the fixed-text rules do not match; INTEGER matches only the integer part *)
    change (firstn decimal_index lexer_rules) with (firstn integer_index lexer_rules ++ [(INTEGER, SDigits)]).
    apply Forall_app. split.
    + apply Forall_forall. intros r Hin. unfold n. cbn [app]. rewrite (before_integer_zero c _ r Hin Hc). lia.
    + constructor; [|constructor]. cbn [snd]. unfold mlen. cbn [match_shape]. unfold m_digits. rewrite Hsp1. cbn [length]. lia.
  - apply Forall_forall. intros r Hin. unfold n. cbn [app]. pose proof (after_decimal_short c (ip' ++ 46 :: f0 :: fp' ++ rest) r Hin Hc) as H.
    rewrite <- app_assoc. cbn [app] in *. lia.
  - exact I.
Qed.

(* ---------------------------------------------------------------------------------------------- *)
(* tokens with a fixed text: the rules that can start with their first character are found by computation *)

Ltac lex_first :=
  unfold lex_one, lex_one_with; rewrite best_rule_filter;
  match goal with
  | |- context [filter ?f lexer_rules] =>
      let v := eval vm_compute in (filter f lexer_rules) in change (filter f lexer_rules) with v
  end.

Definition single_syms : list (N * kind) :=
  [(44, COMMA); (40, LPAREN); (41, RPAREN); (91, LBRACK); (93, RBRACK); (46, DOT); (43, PLUS); (45, MINUS);
   (42, TIMES); (47, DIVIDE); (94, EXPONENT); (38, AMPERSAND)].

(* one-character tokens that no other rule can extend *)
Lemma lex_one_single c k x : In (c, k) single_syms -> lex_one (c :: x) = Some (k, false, [c], x).
Proof.
  unfold single_syms. cbn [In]. intros H.
  repeat (destruct H as [H|H]; [inversion H; subst; lex_first; reflexivity|]). contradiction.
Qed.

Definition double_syms : list (N * N * kind) := [(33, 61, NEQ); (60, 61, LTE); (62, 61, GTE); (61, 62, ARROW)].

Lemma lex_one_double a b k x : In (a, b, k) double_syms -> lex_one (a :: b :: x) = Some (k, false, [a; b], x).
Proof.
  unfold double_syms. cbn [In]. intros H.
  repeat (destruct H as [H|H]; [inversion H; subst; lex_first; reflexivity|]). contradiction.
Qed.

(* '=', '<', '>' are tokens of their own unless the character that would extend them follows *)
Definition ext_syms : list (N * N * kind) := [(61, 62, EQ); (60, 61, LT); (62, 61, GT)].

Lemma lex_one_ext a e k x : In (a, e, k) ext_syms -> next_not (N.eqb e) x = true ->
  lex_one (a :: x) = Some (k, false, [a], x).
Proof.
  unfold ext_syms. cbn [In]. intros H Hx.
  repeat (destruct H as [H|H];
    [inversion H; subst; lex_first; destruct x as [|d r]; [reflexivity|];
     cbn [next_not] in Hx; apply negb_true_iff in Hx; cbn [best_rule match_shape m_lit m_any]; rewrite Hx; reflexivity|]).
  contradiction.
Qed.

(* the words true, false, null as the printer writes them *)
Lemma span_rest_zero rest : next_not name_char rest = true -> span_len name_char rest = O.
Proof. destruct rest as [|d r]; [reflexivity|]. cbn [next_not span_len]. intros H. apply negb_true_iff in H. rewrite H. reflexivity. Qed.

Lemma lex_one_true rest : next_not name_char rest = true ->
  lex_one ([116; 114; 117; 101] ++ rest) = Some (TRUE, false, [116; 114; 117; 101], rest).
Proof.
  intros H. cbn [app]. lex_first. cbn [best_rule match_shape m_ci m_name m_any].
  change (name_start 116) with true. cbv iota.
  change (span_len name_char (114 :: 117 :: 101 :: rest)) with (S (S (S (span_len name_char rest)))).
  rewrite (span_rest_zero _ H). reflexivity.
Qed.

Lemma lex_one_false rest : next_not name_char rest = true ->
  lex_one ([102; 97; 108; 115; 101] ++ rest) = Some (FALSE, false, [102; 97; 108; 115; 101], rest).
Proof.
  intros H. cbn [app]. lex_first. cbn [best_rule match_shape m_ci m_name m_any].
  change (name_start 102) with true. cbv iota.
  change (span_len name_char (97 :: 108 :: 115 :: 101 :: rest)) with (S (S (S (S (span_len name_char rest))))).
  rewrite (span_rest_zero _ H). reflexivity.
Qed.

Lemma lex_one_null rest : next_not name_char rest = true ->
  lex_one ([110; 117; 108; 108] ++ rest) = Some (NULL, false, [110; 117; 108; 108], rest).
Proof.
  intros H. cbn [app]. lex_first. cbn [best_rule match_shape m_ci m_name m_any].
  change (name_start 110) with true. cbv iota.
  change (span_len name_char (117 :: 108 :: 108 :: rest)) with (S (S (S (span_len name_char rest)))).
  rewrite (span_rest_zero _ H). reflexivity.
Qed.

(* a space before something that is not white space *)
Lemma lex_one_sp rest : next_not (fun c => existsb (N.eqb c) [32; 9; 10; 13]) rest = true -> rest <> [] ->
  lex_one (32 :: rest) = Some (WS, true, [32], rest).
Proof.
  intros H Hne. destruct rest as [|c x]; [congruence|]. cbn [next_not] in H. apply negb_true_iff in H.
  apply lex_one_space. exact H.
Qed.

(* ---------------------------------------------------------------------------------------------- *)
(* TEXT: a quoted literal followed by text without a quote, or not ending in a backslash *)

Lemma text_scan_noquote : forall rest prev n best, existsb (N.eqb 34) rest = false -> text_scan prev n best rest = best.
Proof.
  induction rest as [|c r IH]; intros prev n best H; [reflexivity|].
  cbn [existsb] in H. apply orb_false_elim in H. destruct H as [H1 H2]. cbn [text_scan].
  rewrite N.eqb_sym, H1. apply IH. exact H2.
Qed.

Lemma m_text_quoted_noquote body tail : quotes_preceded 34 body = true -> existsb (N.eqb 34) tail = false ->
  m_text (34 :: body ++ 34 :: tail) = Some (S (S (length body))).
Proof.
  intros H Hq. cbn [m_text]. change (34 =? 34) with true. cbv iota.
  destruct (text_scan_through body 34 1 None (34 :: tail) H) as [best' ->].
  cbn [text_scan]. change (34 =? 34) with true. cbv iota.
  destruct (last body 34 =? 92); [|reflexivity]. apply text_scan_noquote. exact Hq.
Qed.

Definition text_follow_ok (s rest : text) : bool := negb (ends_bs s) || negb (existsb (N.eqb 34) rest).

Theorem lex_one_text p s rest : text_follow_ok s rest = true ->
  lex_one (quote p s ++ rest) = Some (TEXT, false, quote p s, rest).
Proof.
  intros H. unfold text_follow_ok in H. destruct (ends_bs s) eqn:Eb.
  - cbn [negb orb] in H. apply negb_true_iff in H.
    unfold lex_one, lex_one_with, quote. cbn [app]. rewrite <- app_assoc. cbn [app].
    rewrite (best_text _ _ (m_text_quoted_noquote _ rest (quote_body_quotes_preceded p s 34) H)).
    cbn [is_skip].
    replace (S (S (length (quote_body p s)))) with (length (34 :: quote_body p s ++ [34]))
      by (cbn [length]; rewrite app_length; cbn; lia).
    replace (34 :: quote_body p s ++ 34 :: rest) with ((34 :: quote_body p s ++ [34]) ++ rest)
      by (cbn [app]; rewrite <- app_assoc; reflexivity).
    rewrite firstn_app_exact, skipn_app_exact. reflexivity.
  - apply lex_one_quoted. exact Eb.
Qed.

(* ---------------------------------------------------------------------------------------------- *)
(* one condition per token: its text is a lexeme of its kind and what follows cannot extend it *)

Fixpoint teqb (a b : text) : bool :=
  match a, b with
  | [], [] => true
  | x :: a', y :: b' => (x =? y) && teqb a' b'
  | _, _ => false
  end.

Lemma teqb_eq a b : teqb a b = true -> a = b.
Proof.
  revert b. induction a as [|x a IH]; intros [|y b] H; try discriminate; [reflexivity|].
  cbn [teqb] in H. apply andb_prop in H. destruct H as [H1 H2]. apply N.eqb_eq in H1. subst. f_equal. apply IH. exact H2.
Qed.

Definition sym_ok (k : kind) (s rest : text) : bool :=
  existsb (fun x => kind_eqb k (snd x) && teqb s [fst x]) single_syms
  || existsb (fun x => kind_eqb k (snd x) && teqb s [fst (fst x); snd (fst x)]) double_syms
  || existsb (fun x => kind_eqb k (snd x) && teqb s [fst (fst x)] && next_not (N.eqb (snd (fst x))) rest) ext_syms.

Section TokOk.
Variable printable : N -> bool.

Definition tok_ok (t : token) (rest : text) : bool :=
  match tk t with
  | NAME => name_lexeme (tx t) && negb (is_keyword (tx t)) && next_not name_char rest
  | INTEGER => all_digits (tx t) && next_not is_digit rest && negb (dot_digit rest)
  | DECIMAL =>
      match split_dot (tx t) with
      | (ip, Some fp) => all_digits ip && all_digits fp && next_not is_digit rest
      | _ => false
      end
  | TRUE => teqb (tx t) [116; 114; 117; 101] && next_not name_char rest
  | FALSE => teqb (tx t) [102; 97; 108; 115; 101] && next_not name_char rest
  | NULL => teqb (tx t) [110; 117; 108; 108] && next_not name_char rest
  | TEXT =>
      match text_value (tx t) with
      | Some v => teqb (tx t) (quote printable v) && text_follow_ok v rest
      | None => false
      end
  | k => sym_ok k (tx t) rest
  end.

Lemma split_dot_some : forall l ip fp, split_dot l = (ip, Some fp) -> l = ip ++ 46 :: fp.
Proof.
  induction l as [|c l IH]; intros ip fp H; [discriminate|]. cbn [split_dot] in H.
  destruct (N.eqb_spec c 46) as [->|Hc].
  - inversion H; subst. reflexivity.
  - destruct (split_dot l) as [a b] eqn:E. inversion H; subst. cbn [app]. f_equal. apply IH. reflexivity.
Qed.

Lemma sym_ok_lex k s rest : sym_ok k s rest = true -> lex_one (s ++ rest) = Some (k, false, s, rest).
Proof.
  unfold sym_ok. intros H. apply orb_prop in H. destruct H as [H|H]; [apply orb_prop in H; destruct H as [H|H]|].
  - apply existsb_exists in H. destruct H as ([c k'] & Hin & H). cbn [fst snd] in H.
    apply andb_prop in H. destruct H as [H1 H2]. apply kind_eqb_eq in H1. apply teqb_eq in H2. subst.
    apply (lex_one_single c k' rest Hin).
  - apply existsb_exists in H. destruct H as ([[a b] k'] & Hin & H). cbn [fst snd] in H.
    apply andb_prop in H. destruct H as [H1 H2]. apply kind_eqb_eq in H1. apply teqb_eq in H2. subst.
    apply (lex_one_double a b k' rest Hin).
  - apply existsb_exists in H. destruct H as ([[a e] k'] & Hin & H). cbn [fst snd] in H.
    apply andb_prop in H. destruct H as [H H3]. apply andb_prop in H. destruct H as [H1 H2].
    apply kind_eqb_eq in H1. apply teqb_eq in H2. subst.
    apply (lex_one_ext a e k' rest Hin H3).
Qed.

Theorem tok_ok_lex t rest : tok_ok t rest = true -> lex_one (tx t ++ rest) = Some (tk t, false, tx t, rest).
Proof.
  unfold tok_ok. destruct t as [k s]. cbn [tk tx]. intros H.
  destruct k; try (apply sym_ok_lex; exact H).
  - (* TEXT *)
    destruct (text_value s) as [v|]; [|discriminate]. apply andb_prop in H. destruct H as [H1 H2].
    apply teqb_eq in H1. subst s. apply lex_one_text. exact H2.
  - (* INTEGER *)
    apply andb_prop in H. destruct H as [H H3]. apply andb_prop in H. destruct H as [H1 H2].
    apply negb_true_iff in H3. apply lex_one_integer; assumption.
  - (* DECIMAL *)
    destruct (split_dot s) as [ip [fp|]] eqn:E; [|discriminate].
    apply andb_prop in H. destruct H as [H H3]. apply andb_prop in H. destruct H as [H1 H2].
    rewrite (split_dot_some _ _ _ E). apply lex_one_decimal; assumption.
  - apply andb_prop in H. destruct H as [H1 H2]. apply teqb_eq in H1. subst s. apply lex_one_true. exact H2.
  - apply andb_prop in H. destruct H as [H1 H2]. apply teqb_eq in H1. subst s. apply lex_one_false. exact H2.
  - apply andb_prop in H. destruct H as [H1 H2]. apply teqb_eq in H1. subst s. apply lex_one_null. exact H2.
  - (* NAME *)
    apply andb_prop in H. destruct H as [H H3]. apply andb_prop in H. destruct H as [H1 H2].
    apply negb_true_iff in H2. apply lex_one_name; assumption.
Qed.

(* ---------------------------------------------------------------------------------------------- *)
(* printed text = tokens and spaces *)

Inductive item := Tok (t : token) | Sp.

Definition render_item (i : item) : text := match i with Tok t => tx t | Sp => [32] end.

Fixpoint render (l : list item) : text :=
  match l with [] => [] | i :: r => render_item i ++ render r end.

Fixpoint toks_of (l : list item) : list token :=
  match l with [] => [] | Tok t :: r => t :: toks_of r | Sp :: r => toks_of r end.

Definition is_ws (c : N) : bool := existsb (N.eqb c) [32; 9; 10; 13].

Fixpoint items_ok (l : list item) : bool :=
  match l with
  | [] => true
  | Tok t :: r => tok_ok t (render r) && items_ok r
  | Sp :: r => next_not is_ws (render r) && match render r with [] => false | _ => true end && items_ok r
  end.

Lemma render_app a b : render (a ++ b) = render a ++ render b.
Proof. induction a as [|i a IH]; [reflexivity|]. cbn [app render]. rewrite IH, app_assoc. reflexivity. Qed.

Lemma toks_of_app a b : toks_of (a ++ b) = toks_of a ++ toks_of b.
Proof. induction a as [|[t|] a IH]; cbn [app toks_of]; [reflexivity|rewrite IH; reflexivity|exact IH]. Qed.

(* the step equation of the lexer in terms of lex_one on any non-empty input *)
Lemma lex_by_one inp k skip lexeme rest : lex_one inp = Some (k, skip, lexeme, rest) ->
  lex inp = match lex rest with
            | LOk ts => LOk (if skip then ts else {| tk := k; tx := lexeme |} :: ts)
            | r => r
            end.
Proof.
  intros H. destruct inp as [|c inp'].
  - apply lex_one_shorter in H. destruct H as [H _]. cbn in H. lia.
  - rewrite lex_step. generalize dependent (lex_one (c :: inp')). intros o ->. reflexivity.
Qed.

(* Lemma L: lexing the rendering of well-separated items gives the tokens back *)
Theorem lex_items : forall l, items_ok l = true -> lex (render l) = LOk (toks_of l).
Proof.
  induction l as [|[t|] r IH]; intros H.
  - reflexivity.
  - cbn [items_ok] in H. apply andb_prop in H. destruct H as [H1 H2].
    cbn [render render_item toks_of]. rewrite (lex_by_one _ _ _ _ _ (tok_ok_lex _ _ H1)), (IH H2).
    destruct t; reflexivity.
  - cbn [items_ok] in H. apply andb_prop in H. destruct H as [H H3]. apply andb_prop in H. destruct H as [H1 H2].
    cbn [render render_item toks_of app].
    assert (Hne : render r <> []) by (destruct (render r); [discriminate|discriminate]).
    rewrite (lex_by_one _ _ _ _ _ (lex_one_sp _ H1 Hne)), (IH H3). reflexivity.
Qed.

End TokOk.

(* ---------------------------------------------------------------------------------------------- *)
(* Expression.String() as items *)

Section PrintItems.
Variable lower : N -> N.
Variable printable : N -> bool.

Definition T (t : token) : item := Tok t.

Fixpoint names_items (a : list text) : list item :=
  match a with
  | [] => []
  | n :: r => match r with [] => [T (tokc NAME n)] | _ => T (tokc NAME n) :: T COMMAt :: Sp :: names_items r end
  end.

(* the separator before a lookup: a space when a numeric lookup follows printed text that ends in a numeric lookup (the
   repaired DotLookup.String); pc = the printed container *)
Definition dot_items (pc : text) (l : text) : list item :=
  if is_digits l && ends_numeric pc then [Sp; T DOTt] else [T DOTt].

Fixpoint pitems (e : expr) : list item :=
  match e with
  | ECtxRef n => [T (tokc NAME (map lower n))]
  | EDot c l => pitems c ++ dot_items (print lower printable c) l ++ [T (lookup_tok l)]
  | EIndex c l => pitems c ++ [T LB] ++ pitems l ++ [T RB]
  | ECall f ps =>
      pitems f ++ [T LP] ++
      (fix go (l : list expr) : list item :=
         match l with
         | [] => []
         | x :: r => match r with [] => pitems x | _ => pitems x ++ T COMMAt :: Sp :: go r end
         end) ps ++ [T RP]
  | EAnon a b => [T LP] ++ names_items a ++ [T RP; Sp; T ARROWt; Sp] ++ pitems b
  | EBin o a b => pitems a ++ [Sp; T (op_tok o); Sp] ++ pitems b
  | ENeg a => T MINUSt :: pitems a
  | EParen a => T LP :: pitems a ++ [T RP]
  | EText v => [T (tokc TEXT (quote printable v))]
  | ENum l => [T (num_tok (num_render l))]
  | EBool b => [T (if b then tokc TRUE [116; 114; 117; 101] else tokc FALSE [102; 97; 108; 115; 101])]
  | ENull => [T (tokc NULL [110; 117; 108; 108])]
  end.

Fixpoint pitems_list (l : list expr) : list item :=
  match l with
  | [] => []
  | x :: r => match r with [] => pitems x | _ => pitems x ++ T COMMAt :: Sp :: pitems_list r end
  end.

Lemma pitems_call f ps : pitems (ECall f ps) = pitems f ++ [T LP] ++ pitems_list ps ++ [T RP].
Proof. reflexivity. Qed.

Lemma render_names a : render (names_items a) = join_comma a.
Proof.
  induction a as [|n [|n2 r] IH]; [reflexivity| |].
  - cbn. rewrite app_nil_r. reflexivity.
  - change (names_items (n :: n2 :: r)) with (T (tokc NAME n) :: T COMMAt :: Sp :: names_items (n2 :: r)).
    cbn [render render_item T tx tokc COMMAt]. rewrite IH. cbn [join_comma app]. reflexivity.
Qed.

Lemma toks_names a : toks_of (names_items a) = names_toks a.
Proof.
  induction a as [|n [|n2 r] IH]; [reflexivity|reflexivity|].
  change (names_items (n :: n2 :: r)) with (T (tokc NAME n) :: T COMMAt :: Sp :: names_items (n2 :: r)).
  cbn [toks_of T]. rewrite IH. reflexivity.
Qed.

Lemma render_dot pc l : render (dot_items pc l) = dot_sep pc l.
Proof. unfold dot_items, dot_sep. destruct (is_digits l && ends_numeric pc); reflexivity. Qed.

Lemma toks_dot pc l : toks_of (dot_items pc l) = [DOTt].
Proof. unfold dot_items. destruct (is_digits l && ends_numeric pc); reflexivity. Qed.

(* (I) the printer model writes exactly the rendering of the items, and their tokens are ptoks *)
Theorem render_pitems : forall e, render (pitems e) = print lower printable e.
Proof.
  induction e as [n|c l IHc|c l IHc IHl|f ps IHf IHps|a b IHb|o a b IHa IHb|a IHa|a IHa|v|l|b|] using expr_ind'.
  - cbn. rewrite app_nil_r. reflexivity.
  - cbn [pitems print]. rewrite !render_app, IHc, render_dot. cbn. rewrite app_nil_r. reflexivity.
  - cbn [pitems print]. rewrite !render_app, IHc, IHl. reflexivity.
  - rewrite pitems_call. cbn [print]. rewrite !render_app, IHf.
    assert (E : render (pitems_list ps) = join_comma (map (print lower printable) ps)).
    { induction IHps as [|x r Hx Hr IH]; [reflexivity|]. destruct r as [|y r'].
      - cbn [pitems_list map join_comma]. exact Hx.
      - change (pitems_list (x :: y :: r')) with (pitems x ++ T COMMAt :: Sp :: pitems_list (y :: r')).
        rewrite render_app. cbn [render render_item T tx COMMAt tokc]. rewrite Hx, IH.
        cbn [map join_comma app]. reflexivity. }
    rewrite E. reflexivity.
  - cbn [pitems print]. rewrite !render_app, render_names, IHb. reflexivity.
  - cbn [pitems print]. rewrite !render_app, IHa, IHb. cbn. rewrite <- !app_assoc. destruct o; reflexivity.
  - cbn [pitems print render render_item T]. rewrite IHa. reflexivity.
  - cbn [pitems print render render_item T]. rewrite render_app, IHa. reflexivity.
  - cbn. rewrite app_nil_r. reflexivity.
  - cbn. rewrite app_nil_r. reflexivity.
  - destruct b; reflexivity.
  - reflexivity.
Qed.

Theorem toks_pitems : forall e, toks_of (pitems e) = ptoks lower printable e.
Proof.
  induction e as [n|c l IHc|c l IHc IHl|f ps IHf IHps|a b IHb|o a b IHa IHb|a IHa|a IHa|v|l|b|] using expr_ind'.
  - reflexivity.
  - cbn [pitems ptoks]. rewrite !toks_of_app, IHc, toks_dot. reflexivity.
  - cbn [pitems ptoks]. rewrite !toks_of_app, IHc, IHl. reflexivity.
  - rewrite pitems_call, ptoks_call. rewrite !toks_of_app, IHf.
    assert (E : toks_of (pitems_list ps) = ptoks_list lower printable ps).
    { induction IHps as [|x r Hx Hr IH]; [reflexivity|]. destruct r as [|y r'].
      - cbn [pitems_list ptoks_list]. exact Hx.
      - change (pitems_list (x :: y :: r')) with (pitems x ++ T COMMAt :: Sp :: pitems_list (y :: r')).
        rewrite toks_of_app. cbn [toks_of T]. rewrite Hx, IH. reflexivity. }
    rewrite E. reflexivity.
  - cbn [pitems ptoks]. rewrite !toks_of_app, toks_names, IHb. reflexivity.
  - cbn [pitems ptoks]. rewrite !toks_of_app, IHa, IHb. reflexivity.
  - cbn [pitems ptoks toks_of T]. rewrite IHa. reflexivity.
  - cbn [pitems ptoks toks_of T]. rewrite toks_of_app, IHa. reflexivity.
  - reflexivity.
  - reflexivity.
  - destruct b; reflexivity.
  - reflexivity.
Qed.

(* the decidable side condition of the round trip: no two neighbours of the printed text glue together *)
Definition glue_free (e : expr) : bool := items_ok printable (pitems e).

(* lexing the printed text gives the printed tokens *)
Theorem lex_print e : glue_free e = true -> lex (print lower printable e) = LOk (ptoks lower printable e).
Proof. intros H. rewrite <- render_pitems, <- toks_pitems. apply (lex_items printable). exact H. Qed.

End PrintItems.
