(* NumTextProofs.v — lemmas about model/NumText.v (C13, numbers).

   Specification (from the property sentence): every number renders to text that converts back to the same
   number; "=" on two numbers agrees with their canonical renderings, i.e. two numbers are "=" exactly when they
   render identically, exactly when they are numerically equal.

   Main results
     render_form            the rendering is  sign ++ integer digits ++ optional "." fraction digits  and those digits
                            denote the number
     parse_number_render    parse_number (render d) = Some d' with dec_eq d' d   (exponent >= -2^31)
     render_canonical       dec_eq a b -> render a = render b
     render_injective       render a = render b -> dec_eq a b
     equal_num_spec         equal_num a b = dec_eqb a b *)
From Coq Require Import ZArith NArith List Bool Lia.
From Verif Require Import lib.Dec model.NumText.
Import ListNotations.

(* ------------------------------------------------------------------------------------------------ *)
(* generic list helpers *)

Lemma text_eqb_eq : forall a b, text_eqb a b = true <-> a = b.
Proof.
  induction a as [|x a IH]; destruct b as [|y b]; cbn [text_eqb]; split; intro H; try easy.
  - apply andb_true_iff in H. destruct H as [H1 H2]. apply N.eqb_eq in H1. apply IH in H2. now subst.
  - inversion H; subst. apply andb_true_iff. split; [apply N.eqb_refl | now apply IH].
Qed.

Lemma drop_while_split : forall p s, exists a, s = a ++ drop_while p s /\ Forall (fun c => p c = true) a.
Proof.
  intros p s. induction s as [|c r IH]; cbn [drop_while].
  - exists []. split; [reflexivity|constructor].
  - destruct (p c) eqn:E.
    + destruct IH as (a & Ha & Hf). exists (c :: a). split; [cbn; congruence|constructor; assumption].
    + exists []. split; [reflexivity|constructor].
Qed.

Lemma drop_while_none : forall p s, Forall (fun c => p c = false) s -> drop_while p s = s.
Proof. intros p [|c r] H; [reflexivity|]. inversion H; subst. cbn [drop_while]. rewrite H2. reflexivity. Qed.

Lemma drop_while_all : forall p s, Forall (fun c => p c = true) s -> drop_while p s = [].
Proof. intros p s H. induction H as [|c r Hc _ IH]; cbn [drop_while]; [reflexivity|]. rewrite Hc. exact IH. Qed.

Lemma drop_while_stop : forall p c r, p c = false -> drop_while p (c :: r) = c :: r.
Proof. intros p c r H. cbn [drop_while]. rewrite H. reflexivity. Qed.

Lemma drop_while_app_true : forall p a s, Forall (fun c => p c = true) a -> drop_while p (a ++ s) = drop_while p s.
Proof. intros p a s H. induction H as [|c r Hc _ IH]; cbn [drop_while app]; [reflexivity|]. rewrite Hc. exact IH. Qed.

Lemma eqb48_repeat : forall a, Forall (fun c => N.eqb 48 c = true) a -> a = repeat 48%N (length a).
Proof.
  intros a H. induction H as [|c r Hc _ IH]; [reflexivity|]. apply N.eqb_eq in Hc. subst c.
  cbn [length repeat]. f_equal. exact IH.
Qed.

Lemma Forall_repeat : forall (P : N -> Prop) x n, P x -> Forall P (repeat x n).
Proof. intros P x n H. induction n; cbn [repeat]; constructor; assumption. Qed.

Lemma repeat_snoc : forall (x : N) n, repeat x n ++ [x] = x :: repeat x n.
Proof. intros x n. induction n as [|n IH]; [reflexivity|]. cbn [repeat app]. rewrite IH. reflexivity. Qed.

Lemma rev_repeat : forall (x : N) n, rev (repeat x n) = repeat x n.
Proof. intros x n. induction n as [|n IH]; [reflexivity|]. cbn [repeat rev]. rewrite IH. apply repeat_snoc. Qed.

(* ------------------------------------------------------------------------------------------------ *)
(* trim_zeros *)

Lemma trim_zeros_split : forall s, exists j, s = trim_zeros s ++ repeat 48%N j.
Proof.
  intros s. unfold trim_zeros. destruct (drop_while_split (N.eqb 48) (rev s)) as (a & Ha & Hf).
  exists (length a). apply eqb48_repeat in Hf.
  assert (Hs : s = rev (drop_while (N.eqb 48) (rev s)) ++ rev a).
  { rewrite <- rev_app_distr, <- Ha, rev_involutive. reflexivity. }
  rewrite Hf, rev_repeat in Hs. exact Hs.
Qed.

Lemma trim_zeros_snoc0 : forall s, trim_zeros (s ++ [48%N]) = trim_zeros s.
Proof. intros s. unfold trim_zeros. rewrite rev_app_distr. reflexivity. Qed.

Lemma trim_zeros_zeros : forall j, trim_zeros (repeat 48%N j) = [].
Proof.
  intros j. unfold trim_zeros. rewrite rev_repeat, drop_while_all; [reflexivity|].
  apply Forall_repeat. reflexivity.
Qed.

Lemma trim_zeros_app_zeros : forall s j, trim_zeros (s ++ repeat 48%N j) = trim_zeros s.
Proof.
  intros s j. unfold trim_zeros. rewrite rev_app_distr, rev_repeat, drop_while_app_true; [reflexivity|].
  apply Forall_repeat. reflexivity.
Qed.

Lemma Forall_trim_zeros : forall (P : N -> Prop) s, Forall P s -> Forall P (trim_zeros s).
Proof.
  intros P s H. destruct (trim_zeros_split s) as (j & Hj). rewrite Hj in H.
  apply Forall_app in H. apply H.
Qed.

(* ------------------------------------------------------------------------------------------------ *)
(* the shape of a rendering *)

Definition sign_text (neg : bool) : text := if neg then [45%N] else [].
Definition frac_text (fp : text) : text := match fp with [] => [] | _ => 46%N :: fp end.
Definition signed (neg : bool) (u : N) : Z := if neg then (- Z.of_N u)%Z else Z.of_N u.
Definition digit_text (s : text) : Prop := Forall (fun c => is_digit c = true) s.

Lemma all_digits_iff : forall s, all_digits s = true <-> digit_text s.
Proof. intros s. unfold all_digits, digit_text. rewrite forallb_forall, Forall_forall. reflexivity. Qed.

Lemma firstn_skipn_digits : forall n s, digit_text s -> digit_text (firstn n s) /\ digit_text (skipn n s).
Proof.
  intros n s H. unfold digit_text in *. rewrite <- (firstn_skipn n s) in H. apply Forall_app in H. exact H.
Qed.

Lemma digit_48 : is_digit 48 = true.
Proof. reflexivity. Qed.

Lemma pow10_N_Z : forall j : nat, Z.of_N (10 ^ N.of_nat j) = (10 ^ Z.of_nat j)%Z.
Proof. intros j. rewrite N2Z.inj_pow. f_equal. lia. Qed.

(* fraction-exponent case: integer part, fraction part before trimming *)
Definition split_frac (m : N) (k : nat) : text * text :=
  let str := digits m in
  let len := length str in
  if (k <? len)%nat then (firstn (len - k) str, skipn (len - k) str)
  else ([48%N], repeat 48%N (k - len) ++ str).

Lemma split_frac_props : forall m k, (0 < k)%nat ->
  let '(ip, fp) := split_frac m k in
  ip <> [] /\ digit_text ip /\ digit_text fp /\ length fp = k /\ undigits (ip ++ fp) = m.
Proof.
  intros m k Hk. unfold split_frac.
  pose proof (digits_all_digit m) as Hd. pose proof (undigits_digits m) as Hu.
  destruct (k <? length (digits m))%nat eqn:E.
  - apply Nat.ltb_lt in E. destruct (firstn_skipn_digits (length (digits m) - k) _ Hd) as [H1 H2].
    repeat split; try assumption.
    + intros H0. apply (f_equal (@length N)) in H0. rewrite firstn_length in H0. cbn [length] in H0. lia.
    + rewrite skipn_length. lia.
    + rewrite firstn_skipn. exact Hu.
  - apply Nat.ltb_ge in E. repeat split.
    + discriminate.
    + constructor; [reflexivity|constructor].
    + apply Forall_app. split; [apply Forall_repeat; reflexivity|exact Hd].
    + rewrite app_length, repeat_length. lia.
    + change ([48%N] ++ repeat 48%N (k - length (digits m)) ++ digits m)
        with (repeat 48%N (S (k - length (digits m))) ++ digits m).
      rewrite undigits_app, undigits_repeat0, Hu. lia.
Qed.

Lemma render_neg_exp : forall d, (dexp d < 0)%Z ->
  render d = let '(ip, fp) := split_frac (Z.abs_N (mant d)) (Z.to_nat (- dexp d)) in
             sign_text (mant d <? 0)%Z ++ ip ++ frac_text (trim_zeros fp).
Proof.
  intros d H. unfold render, split_frac. assert (E : (0 <=? dexp d)%Z = false) by (apply Z.leb_gt; exact H).
  rewrite E. destruct (Z.to_nat (- dexp d) <? length (digits (Z.abs_N (mant d))))%nat;
    unfold sign_text, frac_text; destruct (mant d <? 0)%Z; reflexivity.
Qed.

(* every rendering is sign, integer digits, optional fraction; the digits denote the number *)
Lemma render_form : forall d, exists neg ip fp,
  render d = sign_text neg ++ ip ++ frac_text fp
  /\ ip <> [] /\ digit_text ip /\ digit_text fp
  /\ dec_eq (Dec (signed neg (undigits (ip ++ fp))) (- Z.of_nat (length fp))) d
  /\ (Z.min (dexp d) 0 <= - Z.of_nat (length fp))%Z.
Proof.
  intros [m e]. destruct (Z_lt_le_dec e 0) as [He|He].
  - (* fraction *)
    rewrite render_neg_exp by exact He. cbn [mant dexp].
    assert (Hk : (0 < Z.to_nat (- e))%nat) by lia.
    pose proof (split_frac_props (Z.abs_N m) (Z.to_nat (- e)) Hk) as P.
    destruct (split_frac (Z.abs_N m) (Z.to_nat (- e))) as [ip fp].
    destruct P as (P1 & P2 & P3 & P4 & P5).
    destruct (trim_zeros_split fp) as (j & Hj).
    exists (m <? 0)%Z, ip, (trim_zeros fp). repeat split; try assumption.
    + apply Forall_trim_zeros. exact P3.
    + set (fp' := trim_zeros fp) in *.
      assert (Hlen : (Z.of_nat (length fp') + Z.of_nat j = - e)%Z).
      { rewrite Hj, app_length, repeat_length in P4. lia. }
      assert (Hm : (Z.abs_N m = undigits (ip ++ fp') * 10 ^ N.of_nat j)%N).
      { rewrite <- P5, Hj, app_assoc, undigits_app, repeat_length, undigits_repeat0. lia. }
      apply dec_eq_sym.
      replace (Dec m e) with (Dec (signed (m <? 0)%Z (undigits (ip ++ fp')) * 10 ^ Z.of_nat j)
                                  (- Z.of_nat (length fp') - Z.of_nat j)).
      { apply dec_eq_scale. lia. }
      f_equal; [|lia]. unfold signed. rewrite <- pow10_N_Z.
      destruct (m <? 0)%Z eqn:Es.
      * apply Z.ltb_lt in Es. rewrite Z.mul_opp_l, <- N2Z.inj_mul, <- Hm. lia.
      * apply Z.ltb_ge in Es. rewrite <- N2Z.inj_mul, <- Hm. lia.
    + cbn [dexp]. rewrite Hj, app_length, repeat_length in P4. lia.
  - (* integer *)
    unfold render. cbn [mant dexp]. assert (E : (0 <=? e)%Z = true) by (apply Z.leb_le; exact He). rewrite E.
    exists (m * 10 ^ e <? 0)%Z, (digits (Z.abs_N (m * 10 ^ e))), []. repeat split.
    + rewrite app_nil_r. reflexivity.
    + apply digits_nonempty.
    + apply digits_all_digit.
    + constructor.
    + rewrite app_nil_r, undigits_digits. cbn [length]. change (- Z.of_nat 0)%Z with 0%Z.
      replace (signed (m * 10 ^ e <? 0)%Z (Z.abs_N (m * 10 ^ e))) with (m * 10 ^ e)%Z.
      { pose proof (dec_eq_scale m e e He) as Hx. rewrite Z.sub_diag in Hx. exact Hx. }
      unfold signed. destruct (m * 10 ^ e <? 0)%Z eqn:Es.
      * apply Z.ltb_lt in Es. lia.
      * apply Z.ltb_ge in Es. lia.
    + cbn [dexp length]. lia.
Qed.

(* ------------------------------------------------------------------------------------------------ *)
(* parsing a text of that shape *)

Lemma split_at_none : forall p s, Forall (fun c => p c = false) s -> split_at p s = None.
Proof.
  intros p s H. induction H as [|c r Hc _ IH]; cbn [split_at]; [reflexivity|]. rewrite Hc, IH. reflexivity.
Qed.

Lemma split_at_first : forall p a c b, Forall (fun x => p x = false) a -> p c = true ->
  split_at p (a ++ c :: b) = Some (a, b).
Proof.
  intros p a c b H Hc. induction H as [|x r Hx _ IH]; cbn [split_at app].
  - rewrite Hc. reflexivity.
  - rewrite Hx, IH. reflexivity.
Qed.

Lemma count_none : forall c s, Forall (fun x => N.eqb c x = false) s -> count c s = 0%nat.
Proof.
  intros c s H. unfold count. induction H as [|x r Hx _ IH]; cbn [filter]; [reflexivity|]. rewrite Hx. exact IH.
Qed.

Lemma count_app : forall c a b, count c (a ++ b) = (count c a + count c b)%nat.
Proof. intros. unfold count. rewrite filter_app, app_length. reflexivity. Qed.

Lemma digit_props : forall c, is_digit c = true ->
  is_space c = false /\ N.eqb 46 c = false /\ ((c =? 69) || (c =? 101))%N = false /\ c <> 45%N /\ c <> 43%N.
Proof.
  intros c H. unfold is_digit in H. apply andb_true_iff in H. destruct H as [H1 H2].
  apply N.leb_le in H1, H2. unfold is_space.
  repeat split; try lia;
    repeat match goal with
           | |- (_ || _)%bool = false => apply orb_false_iff; split
           | |- (_ && _)%bool = false => apply andb_false_iff
           | |- (_ =? _)%N = false => apply N.eqb_neq; lia
           end.
  left. apply N.leb_gt. lia.
Qed.

Lemma digit_text_weaken : forall (P : N -> Prop) s, (forall c, is_digit c = true -> P c) -> digit_text s -> Forall P s.
Proof. intros P s HP H. eapply Forall_impl; [|exact H]. exact HP. Qed.

Lemma span_digits : forall a r, digit_text a -> match r with [] => True | c :: _ => is_digit c = false end ->
  span is_digit (a ++ r) = (a, r).
Proof.
  intros a r H Hr. induction H as [|c a' Hc _ IH]; cbn [app span].
  - destruct r as [|c r']; [reflexivity|]. cbn [span]. rewrite Hr. reflexivity.
  - rewrite Hc, IH. reflexivity.
Qed.

Lemma parse_signed_form : forall neg ds, ds <> [] -> digit_text ds ->
  parse_signed (sign_text neg ++ ds) = Some (signed neg (undigits ds)).
Proof.
  intros neg ds Hne Hd. pose proof Hd as Hall. apply all_digits_iff in Hall.
  destruct ds as [|c r]; [contradiction|].
  destruct neg; cbn [sign_text app parse_signed].
  - rewrite Hall. reflexivity.
  - inversion Hd; subst. destruct (digit_props c H1) as (_ & _ & _ & N45 & N43).
    unfold parse_signed.
    destruct c as [|p]; [rewrite Hall; reflexivity|].
    (* c is neither '-' nor '+' : the match falls through *)
    assert (Hc : N.pos p <> 45%N /\ N.pos p <> 43%N) by (split; assumption).
    destruct Hc as [Ha Hb].
    destruct (N.eq_dec (N.pos p) 45) as [E|E]; [contradiction|].
    destruct (N.eq_dec (N.pos p) 43) as [E'|E']; [contradiction|].
    clear - Hall E E'.
    repeat (destruct p as [p|p|]; try (exfalso; apply E; reflexivity); try (exfalso; apply E'; reflexivity);
            try (rewrite Hall; reflexivity)).
Qed.

Lemma sign_text_props : forall neg,
  Forall (fun c => is_space c = false) (sign_text neg)
  /\ Forall (fun c => N.eqb 46 c = false) (sign_text neg)
  /\ Forall (fun c => ((c =? 69) || (c =? 101))%N = false) (sign_text neg).
Proof. intros [|]; cbn [sign_text]; repeat split; repeat constructor. Qed.

Lemma frac_text_props : forall fp, digit_text fp ->
  Forall (fun c => is_space c = false) (frac_text fp)
  /\ Forall (fun c => ((c =? 69) || (c =? 101))%N = false) (frac_text fp).
Proof.
  intros fp H. destruct fp as [|c r]; cbn [frac_text]; [split; constructor|].
  split; (constructor; [reflexivity|]); eapply digit_text_weaken; try exact H; intros x Hx; apply (digit_props x Hx).
Qed.

Lemma trim_space_id : forall s, s <> [] -> Forall (fun c => is_space c = false) s -> trim_space s = s.
Proof.
  intros s _ H. unfold trim_space, trim_with. rewrite (drop_while_none _ s H).
  rewrite drop_while_none; [apply rev_involutive|]. apply Forall_rev. exact H.
Qed.

(* the conversion applied to  sign ++ integer digits ++ optional fraction : nothing to trim, the regular expression
   accepts, NewFromString yields the digits with the fraction length as negative exponent *)
Lemma number_form_parts : forall chk neg ip fp, ip <> [] -> digit_text ip -> digit_text fp ->
  let s := sign_text neg ++ ip ++ frac_text fp in
  trim_space s = s /\ decimal_regexp s = true /\
  (new_from_string_with chk s
   = if chk (- Z.of_nat (length fp))%Z
     then Some (Dec (signed neg (undigits (ip ++ fp))) (- Z.of_nat (length fp)))
     else None).
Proof.
  intros chk neg ip fp Hne Hip Hfp. cbv zeta.
  destruct (sign_text_props neg) as (S1 & S2 & S3).
  destruct (frac_text_props fp Hfp) as (F1 & F3).
  assert (I1 : Forall (fun c => is_space c = false) ip)
    by (eapply digit_text_weaken; [|exact Hip]; intros x Hx; apply (digit_props x Hx)).
  assert (I2 : Forall (fun c => N.eqb 46 c = false) ip)
    by (eapply digit_text_weaken; [|exact Hip]; intros x Hx; apply (digit_props x Hx)).
  assert (I3 : Forall (fun c => ((c =? 69) || (c =? 101))%N = false) ip)
    by (eapply digit_text_weaken; [|exact Hip]; intros x Hx; apply (digit_props x Hx)).
  assert (P2 : Forall (fun c => N.eqb 46 c = false) fp)
    by (eapply digit_text_weaken; [|exact Hfp]; intros x Hx; apply (digit_props x Hx)).
  split; [|split].
  - apply trim_space_id.
    + destruct neg; cbn [sign_text app]; [discriminate|]. destruct ip; [contradiction|discriminate].
    + apply Forall_app; split; [exact S1|]. apply Forall_app; split; assumption.
  - (* the regular expression *)
    unfold decimal_regexp.
    assert (Hstrip : strip_minus (sign_text neg ++ ip ++ frac_text fp) = ip ++ frac_text fp).
    { unfold strip_minus. destruct neg; cbn [sign_text app]; [reflexivity|].
      destruct ip as [|c r]; [contradiction|]. inversion Hip; subst.
      destruct (digit_props c H1) as (_ & _ & _ & N45 & _). cbn [app].
      destruct c as [|p]; [reflexivity|].
      destruct (N.eq_dec (N.pos p) 45) as [E|E]; [contradiction|]. clear - E.
      repeat (destruct p as [p|p|]; try (exfalso; apply E; reflexivity); try reflexivity). }
    rewrite Hstrip. cbv zeta. rewrite span_digits.
    + destruct fp as [|c r]; cbn [frac_text].
      * destruct ip; [contradiction|reflexivity].
      * cbn [negb andb]. apply all_digits_iff. exact Hfp.
    + exact Hip.
    + destruct fp; cbn [frac_text]; [exact I|reflexivity].
  - unfold new_from_string_with.
    rewrite split_at_none.
    2:{ apply Forall_app; split; [exact S3|]. apply Forall_app; split; assumption. }
    destruct fp as [|c r].
    + (* no fraction *)
      cbn [frac_text length]. rewrite !app_nil_r.
      rewrite count_none by (apply Forall_app; split; assumption).
      change (1 <? 0)%nat with false. cbv iota.
      rewrite split_at_none by (apply Forall_app; split; assumption).
      rewrite parse_signed_form by assumption. reflexivity.
    + set (fp := c :: r) in *. cbn [frac_text]. change (frac_text fp) with (46%N :: fp) in *.
      assert (Hcount : count 46 (sign_text neg ++ ip ++ 46%N :: fp) = 1%nat).
      { change (46%N :: fp) with ([46%N] ++ fp). rewrite !count_app.
        rewrite (count_none 46 fp P2), (count_none 46 ip I2), (count_none 46 _ S2). reflexivity. }
      unfold fp at 1. cbv iota. fold fp.
      rewrite Hcount. change (1 <? 1)%nat with false. cbv iota.
      rewrite app_assoc, split_at_first; [|apply Forall_app; split; assumption|reflexivity].
      rewrite <- app_assoc, parse_signed_form.
      * rewrite Z.sub_0_l. reflexivity.
      * destruct ip; [contradiction|discriminate].
      * apply Forall_app; split; assumption.
Qed.

Lemma parse_number_form : forall chk neg ip fp, ip <> [] -> digit_text ip -> digit_text fp ->
  parse_number_with chk (sign_text neg ++ ip ++ frac_text fp)
  = if chk (- Z.of_nat (length fp))%Z
    then Some (Dec (signed neg (undigits (ip ++ fp))) (- Z.of_nat (length fp)))
    else None.
Proof.
  intros chk neg ip fp Hne Hip Hfp. destruct (number_form_parts chk neg ip fp Hne Hip Hfp) as (T & R & P).
  unfold parse_number_with. rewrite T, R. exact P.
Qed.

(* decimal.NewFromString alone (what parse_json uses) on a rendering *)
Lemma new_from_string_render : forall chk d, exists d',
  dec_eq d' d /\ (Z.min (dexp d) 0 <= dexp d' <= 0)%Z /\
  new_from_string_with chk (render d) = (if chk (dexp d') then Some d' else None).
Proof.
  intros chk d. destruct (render_form d) as (neg & ip & fp & Hr & Hne & Hip & Hfp & Heq & Hb).
  exists (Dec (signed neg (undigits (ip ++ fp))) (- Z.of_nat (length fp))). cbn [dexp].
  split; [exact Heq|]. split; [lia|]. rewrite Hr. apply (number_form_parts chk neg ip fp Hne Hip Hfp).
Qed.

(* ------------------------------------------------------------------------------------------------ *)
(* round trip *)

Lemma parse_number_with_render : forall chk d, exists e,
  (Z.min (dexp d) 0 <= e <= 0)%Z /\
  exists d', dec_eq d' d /\ dexp d' = e /\
             parse_number_with chk (render d) = if chk e then Some d' else None.
Proof.
  intros chk d. destruct (render_form d) as (neg & ip & fp & Hr & Hne & Hip & Hfp & Heq & Hb).
  exists (- Z.of_nat (length fp))%Z. split; [lia|].
  exists (Dec (signed neg (undigits (ip ++ fp))) (- Z.of_nat (length fp))). repeat split; [exact Heq|].
  rewrite Hr. apply parse_number_form; assumption.
Qed.

(* every number whose exponent is within the type renders to text that converts back to the same number *)
Lemma parse_number_render : forall d, (int32_min <= dexp d)%Z ->
  exists d', parse_number (render d) = Some d' /\ dec_eq d' d.
Proof.
  intros d Hd. destruct (parse_number_with_render in_int32 d) as (e & He & d' & Heq & _ & Hp).
  exists d'. split; [|exact Heq]. unfold parse_number. rewrite Hp.
  assert (Hin : in_int32 e = true).
  { unfold in_int32, int32_min, int32_max in *. apply andb_true_intro; split; apply Z.leb_le; lia. }
  rewrite Hin. reflexivity.
Qed.

(* below the type's exponent range a rendering can fail to convert (complement of the hypothesis above) *)
Example parse_number_render_below_range :
  (dexp (Dec 1 (int32_min - 1)) < int32_min)%Z.
Proof. reflexivity. Qed.

Example parse_number_render_hyp_sat : (int32_min <= dexp (Dec (-12345) (-3)))%Z
  /\ parse_number (render (Dec (-12345) (-3))) = Some (Dec (-12345) (-3)).
Proof. split; [discriminate|vm_compute; reflexivity]. Qed.

(* ------------------------------------------------------------------------------------------------ *)
(* canonicity: the rendering depends on the numeric value only *)

Lemma render_zero : forall e, render (Dec 0 e) = [48%N].
Proof.
  intros e. destruct (Z_lt_le_dec e 0) as [He|He].
  - rewrite render_neg_exp by exact He. cbn [mant dexp]. unfold split_frac.
    change (digits (Z.abs_N 0)) with [48%N]. cbn [length].
    assert (E : (Z.to_nat (- e) <? 1)%nat = false) by (apply Nat.ltb_ge; lia). rewrite E.
    change [48%N] with (repeat 48%N 1) at 2. rewrite <- repeat_app, trim_zeros_zeros. reflexivity.
  - unfold render. cbn [mant dexp]. assert (E : (0 <=? e)%Z = true) by (apply Z.leb_le; exact He). rewrite E.
    rewrite Z.mul_0_l. reflexivity.
Qed.

Lemma abs_N_tenfold : forall m, Z.abs_N (m * 10) = (10 * Z.abs_N m)%N.
Proof. intros m. rewrite Zabs2N.inj_mul. change (Z.abs_N 10) with 10%N. lia. Qed.

(* one more trailing zero in the mantissa, exponent one lower: same text *)
Lemma render_scale1 : forall m e, render (Dec (m * 10) (e - 1)) = render (Dec m e).
Proof.
  intros m e. destruct (Z.eq_dec m 0) as [->|Hm]; [rewrite Z.mul_0_l, !render_zero; reflexivity|].
  assert (Hpos : (0 < Z.abs_N m)%N) by lia.
  assert (Hsign : (m * 10 <? 0)%Z = (m <? 0)%Z).
  { destruct (m <? 0)%Z eqn:Es; [apply Z.ltb_lt in Es; apply Z.ltb_lt; lia|apply Z.ltb_ge in Es; apply Z.ltb_ge; lia]. }
  destruct (Z_lt_le_dec e 0) as [He|He]; [|destruct (Z.eq_dec e 0) as [->|He0]].
  - (* both fractional *)
    rewrite (render_neg_exp (Dec (m * 10) (e - 1))), (render_neg_exp (Dec m e)) by (cbn [dexp]; lia).
    cbn [mant dexp]. rewrite Hsign. unfold split_frac.
    rewrite abs_N_tenfold, digits_tenfold by exact Hpos.
    set (str := digits (Z.abs_N m)). rewrite app_length. cbn [length].
    replace (Z.to_nat (- (e - 1))) with (S (Z.to_nat (- e))) by lia. set (k := Z.to_nat (- e)).
    replace (S k <? length str + 1)%nat with (k <? length str)%nat.
    2:{ destruct (k <? length str)%nat eqn:E1; symmetry;
        [apply Nat.ltb_lt in E1; apply Nat.ltb_lt; lia|apply Nat.ltb_ge in E1; apply Nat.ltb_ge; lia]. }
    destruct (k <? length str)%nat eqn:E1.
    + apply Nat.ltb_lt in E1. replace (length str + 1 - S k)%nat with (length str - k)%nat by lia.
      rewrite firstn_app, skipn_app.
      replace (length str - k - length str)%nat with 0%nat by lia. cbn [firstn skipn].
      rewrite app_nil_r, trim_zeros_snoc0. reflexivity.
    + apply Nat.ltb_ge in E1. replace (S k - (length str + 1))%nat with (k - length str)%nat by lia.
      rewrite (app_assoc (repeat 48%N (k - length str)) str [48%N]), trim_zeros_snoc0. reflexivity.
  - (* e = 0: "ddd0" with exponent -1 against "ddd" *)
    rewrite (render_neg_exp (Dec (m * 10) (0 - 1))) by (cbn [dexp]; lia).
    cbn [mant dexp]. rewrite Hsign. unfold split_frac.
    rewrite abs_N_tenfold, digits_tenfold by exact Hpos.
    set (str := digits (Z.abs_N m)). rewrite app_length. cbn [length].
    change (Z.to_nat (- (0 - 1))) with 1%nat.
    assert (Hlen : (0 < length str)%nat).
    { pose proof (digits_nonempty (Z.abs_N m)) as Hn. fold str in Hn. destruct str; [contradiction|cbn; lia]. }
    assert (E1 : (1 <? length str + 1)%nat = true) by (apply Nat.ltb_lt; lia). rewrite E1.
    replace (length str + 1 - 1)%nat with (length str) by lia.
    rewrite firstn_app, skipn_app, Nat.sub_diag, firstn_all, skipn_all. cbn [firstn skipn app].
    rewrite app_nil_r. change (trim_zeros [48%N]) with (@nil N). cbn [frac_text]. rewrite app_nil_r.
    unfold render. cbn [mant dexp]. change (0 <=? 0)%Z with true. cbv iota.
    rewrite Z.pow_0_r, Z.mul_1_r. unfold sign_text. destruct (m <? 0)%Z; reflexivity.
  - (* both integers *)
    unfold render. cbn [mant dexp].
    assert (E1 : (0 <=? e - 1)%Z = true) by (apply Z.leb_le; lia).
    assert (E2 : (0 <=? e)%Z = true) by (apply Z.leb_le; lia). rewrite E1, E2.
    replace (m * 10 * 10 ^ (e - 1))%Z with (m * 10 ^ e)%Z; [reflexivity|].
    replace e with (Z.succ (e - 1)) at 1 by lia. rewrite Z.pow_succ_r by lia. lia.
Qed.

Lemma render_scale : forall j m e, render (Dec (m * 10 ^ Z.of_nat j) (e - Z.of_nat j)) = render (Dec m e).
Proof.
  induction j as [|j IH]; intros m e.
  - cbn. rewrite Z.mul_1_r, Z.sub_0_r. reflexivity.
  - rewrite Nat2Z.inj_succ, Z.pow_succ_r by lia.
    replace (m * (10 * 10 ^ Z.of_nat j))%Z with (m * 10 ^ Z.of_nat j * 10)%Z by lia.
    replace (e - Z.succ (Z.of_nat j))%Z with (e - Z.of_nat j - 1)%Z by lia.
    rewrite render_scale1. apply IH.
Qed.

Lemma render_canonical_le : forall a b, dec_eq a b -> (dexp a <= dexp b)%Z -> render a = render b.
Proof.
  intros [ma ea] [mb eb] H Hle. pose proof (dec_eq_inv _ _ H Hle) as Hm. cbn [mant dexp] in *.
  subst ma. replace ea with (eb - Z.of_nat (Z.to_nat (eb - ea)))%Z at 2 by lia.
  replace (eb - ea)%Z with (Z.of_nat (Z.to_nat (eb - ea))) at 1 by lia. apply render_scale.
Qed.

(* numerically equal numbers render identically *)
Lemma render_canonical : forall a b, dec_eq a b -> render a = render b.
Proof.
  intros a b H. destruct (Z_le_gt_dec (dexp a) (dexp b)) as [Hle|Hgt].
  - apply render_canonical_le; assumption.
  - symmetry. apply render_canonical_le; [apply dec_eq_sym; exact H|lia].
Qed.

(* identically rendered numbers are numerically equal *)
Lemma render_injective : forall a b, render a = render b -> dec_eq a b.
Proof.
  intros a b H. set (yes := fun _ : Z => true).
  destruct (parse_number_with_render yes a) as (ea & _ & a' & Ha & _ & Pa).
  destruct (parse_number_with_render yes b) as (eb & _ & b' & Hb & _ & Pb).
  unfold yes in Pa, Pb. rewrite H, Pb in Pa. inversion Pa; subst.
  eapply dec_eq_trans; [apply dec_eq_sym; exact Ha|exact Hb].
Qed.

(* the "=" operator on numbers: equal iff same rendering iff numerically equal *)
Lemma equal_num_render : forall a b, equal_num a b = true <-> render a = render b.
Proof. intros a b. unfold equal_num. apply text_eqb_eq. Qed.

Lemma render_eq_iff : forall a b, render a = render b <-> dec_eq a b.
Proof. intros a b. split; [apply render_injective|apply render_canonical]. Qed.

Lemma equal_num_spec : forall a b, equal_num a b = dec_eqb a b.
Proof.
  intros a b. destruct (dec_eqb a b) eqn:E.
  - apply equal_num_render, render_canonical. exact E.
  - destruct (equal_num a b) eqn:E'; [|reflexivity].
    apply equal_num_render, render_injective in E'. unfold dec_eq in E'. congruence.
Qed.

Lemma equal_agrees : forall a b : dec,
  (equal_num a b = true <-> render a = render b) /\ (render a = render b <-> dec_eq a b).
Proof. intros a b. split; [apply equal_num_render|apply render_eq_iff]. Qed.

(* ------------------------------------------------------------------------------------------------ *)
(* the rendering is the canonical decimal numeral: optional "-", integer digits without superfluous leading zero,
   and - only if needed - a point followed by fraction digits the last of which is not 0; never "-0", never an
   exponent, a "+" or a space (every character is "-", "." or a digit by construction of the shape) *)
Definition canonical_text (s : text) : Prop :=
  exists neg ip fp, s = sign_text neg ++ ip ++ frac_text fp
    /\ digit_text ip /\ digit_text fp
    /\ (ip = [48%N] \/ exists c r, ip = c :: r /\ c <> 48%N)
    /\ (fp = [] \/ exists r c, fp = r ++ [c] /\ c <> 48%N)
    /\ (neg = true -> (0 < undigits (ip ++ fp))%N).

Lemma trim_zeros_last : forall s, trim_zeros s = [] \/ exists r c, trim_zeros s = r ++ [c] /\ c <> 48%N.
Proof.
  intros s. unfold trim_zeros. destruct (drop_while (N.eqb 48) (rev s)) as [|c r] eqn:E; [left; reflexivity|].
  right. exists (rev r), c. split; [reflexivity|].
  assert (H : N.eqb 48 c = false).
  { clear - E. induction (rev s) as [|x l IH]; cbn [drop_while] in E; [discriminate|].
    destruct (N.eqb 48 x) eqn:Ex; [apply IH; exact E|]. inversion E; subst. exact Ex. }
  apply N.eqb_neq in H. congruence.
Qed.

Lemma digits_canonical_head : forall n, digits n = [48%N] \/ exists c r, digits n = c :: r /\ c <> 48%N.
Proof.
  intros n. destruct (N.eq_dec n 0) as [->|Hn]; [left; reflexivity|].
  right. apply digits_head_nonzero. lia.
Qed.

Lemma render_canonical_text : forall d, canonical_text (render d).
Proof.
  intros [m e]. destruct (Z_lt_le_dec e 0) as [He|He].
  - rewrite render_neg_exp by exact He. cbn [mant dexp].
    assert (Hk : (0 < Z.to_nat (- e))%nat) by lia.
    pose proof (split_frac_props (Z.abs_N m) (Z.to_nat (- e)) Hk) as P.
    assert (Hip : fst (split_frac (Z.abs_N m) (Z.to_nat (- e))) = [48%N]
                  \/ exists c r, fst (split_frac (Z.abs_N m) (Z.to_nat (- e))) = c :: r /\ c <> 48%N).
    { unfold split_frac. destruct (Z.to_nat (- e) <? length (digits (Z.abs_N m)))%nat eqn:E; cbn [fst]; [|left; reflexivity].
      apply Nat.ltb_lt in E. right.
      destruct (N.eq_dec (Z.abs_N m) 0) as [E0|E0].
      - rewrite E0 in E. cbn in E. lia.
      - destruct (digits_head_nonzero (Z.abs_N m) ltac:(lia)) as (c & r & Hd & Hc). rewrite Hd in *.
        cbn [length] in *. destruct (S (length r) - Z.to_nat (- e))%nat as [|n] eqn:En; [lia|].
        exists c, (firstn n r). split; [reflexivity|exact Hc]. }
    destruct (split_frac (Z.abs_N m) (Z.to_nat (- e))) as [ip fp]. cbn [fst] in Hip.
    destruct P as (P1 & P2 & P3 & P4 & P5).
    exists (m <? 0)%Z, ip, (trim_zeros fp). repeat split; try assumption.
    + apply Forall_trim_zeros. exact P3.
    + apply trim_zeros_last.
    + intros Hneg. apply Z.ltb_lt in Hneg. destruct (trim_zeros_split fp) as (j & Hj).
      assert (Hm : (Z.abs_N m = undigits (ip ++ trim_zeros fp) * 10 ^ N.of_nat j)%N).
      { rewrite <- P5. rewrite Hj at 1. rewrite app_assoc, undigits_app, repeat_length, undigits_repeat0. lia. }
      destruct (N.eq_dec (undigits (ip ++ trim_zeros fp)) 0) as [E0|E0]; [|lia]. rewrite E0 in Hm. lia.
  - unfold render. cbn [mant dexp]. assert (E : (0 <=? e)%Z = true) by (apply Z.leb_le; exact He). rewrite E.
    exists (m * 10 ^ e <? 0)%Z, (digits (Z.abs_N (m * 10 ^ e))), []. repeat split.
    + rewrite app_nil_r. reflexivity.
    + apply digits_all_digit.
    + constructor.
    + apply digits_canonical_head.
    + left. reflexivity.
    + intros Hneg. apply Z.ltb_lt in Hneg. rewrite app_nil_r, undigits_digits. lia.
Qed.

(* a number against a text that reads as a number: "=" holds exactly when the text is the canonical rendering of a
   numerically equal number (so 1 = "1" but not 1 = "1.0": a text operand is compared as written) *)
Lemma equal_num_text_spec : forall a s d, parse_number s = Some d ->
  (equal_num_text a s = true <-> s = render d /\ dec_eq a d).
Proof.
  intros a s d Hp. unfold equal_num_text. rewrite text_eqb_eq. split.
  - intros E. subst s. unfold parse_number in Hp.
    destruct (parse_number_with_render in_int32 a) as (e & _ & a' & Ha & _ & Pa). rewrite Pa in Hp.
    destruct (in_int32 e); [|discriminate]. inversion Hp; subst d.
    split; [apply render_canonical; apply dec_eq_sym; exact Ha|apply dec_eq_sym; exact Ha].
  - intros [E Hd]. subst s. apply render_canonical. exact Hd.
Qed.

(* ------------------------------------------------------------------------------------------------ *)
(* the stored JSON form of a number: what MarshalJSON writes, UnmarshalJSON reads back as the same number *)
Lemma num_unmarshal_marshal : forall d, (int32_min <= dexp d)%Z ->
  exists d', num_unmarshal (num_marshal d) = Some d' /\ dec_eq d' d.
Proof.
  intros d Hd. unfold num_unmarshal, num_marshal, new_from_string.
  destruct (render_form d) as (neg & ip & fp & Hr & Hne & Hip & Hfp & Heq & Hb).
  destruct (number_form_parts in_int32 neg ip fp Hne Hip Hfp) as (_ & _ & P). cbv zeta in P.
  rewrite Hr, P.
  assert (Hin : in_int32 (- Z.of_nat (length fp)) = true).
  { unfold in_int32, int32_min, int32_max in *. apply andb_true_intro; split; apply Z.leb_le; lia. }
  rewrite Hin. cbn [dexp].
  assert (Hlen : (length fp <= length (sign_text neg ++ ip ++ frac_text fp))%nat).
  { rewrite !app_length. destruct fp; cbn [frac_text length]; lia. }
  assert (Hok : stored_exp_ok (length (sign_text neg ++ ip ++ frac_text fp)) (- Z.of_nat (length fp)) = true).
  { unfold stored_exp_ok. apply andb_true_intro; split; apply Z.leb_le; lia. }
  rewrite Hok. eexists. split; [reflexivity|exact Heq].
Qed.

(* a short token in exponent notation with a huge exponent is refused (the reason the limit exists) *)
Example num_unmarshal_huge_exponent : num_unmarshal [49; 101; 51; 48; 48; 48; 48; 48; 48; 48; 48]%N = None.
Proof. vm_compute. reflexivity. Qed.

(* ------------------------------------------------------------------------------------------------ *)
(* ToXText and "=" with the render size limit: below it as before, above it error values *)
Lemma equal_op_num_spec : forall a b, num_render_ok a = true -> num_render_ok b = true ->
  equal_op_num a b = Some (dec_eqb a b).
Proof.
  intros a b Ha Hb. unfold equal_op_num, to_text_num. rewrite Ha, Hb. f_equal. apply equal_num_spec.
Qed.

Lemma equal_op_num_over : forall a b, num_render_ok a = false \/ num_render_ok b = false -> equal_op_num a b = None.
Proof.
  intros a b [H|H]; unfold equal_op_num, to_text_num; rewrite H; [reflexivity|]. destruct (num_render_ok a); reflexivity.
Qed.

Lemma to_text_num_roundtrip : forall d, num_render_ok d = true -> (int32_min <= dexp d)%Z ->
  exists t d', to_text_num d = Some t /\ parse_number t = Some d' /\ dec_eq d' d.
Proof.
  intros d Hok Hd. destruct (parse_number_render d Hd) as (d' & Hp & Heq).
  exists (render d), d'. unfold to_text_num. rewrite Hok. repeat split; assumption.
Qed.

Lemma to_text_num_over : forall d, num_render_ok d = false -> to_text_num d = None.
Proof. intros d H. unfold to_text_num. rewrite H. reflexivity. Qed.

Lemma equal_op_num_text_spec : forall a s d, num_render_ok a = true -> parse_number s = Some d ->
  exists r, equal_op_num_text a s = Some r /\ (r = true <-> s = render d /\ dec_eq a d).
Proof.
  intros a s d Hok Hp. unfold equal_op_num_text, to_text_num. rewrite Hok. eexists. split; [reflexivity|].
  apply (equal_num_text_spec a s d Hp).
Qed.

(* where the limit lies: 1e-999999 is the last power of ten that is still converted, 1e-1000000 is not *)
Example num_render_limit :
  num_render_ok (Dec 1 (-999999)) = true /\ num_render_ok (Dec 1 (-1000000)) = false
  /\ num_render_ok (Dec 1 1000000) = false /\ equal_op_num (Dec 1 (-1000001)) (Dec 1 (-1000001)) = None.
Proof. repeat split. Qed.
