(* CivilProofs.v — days_from_civil and civil_from_days (model/Civil.v) are inverse bijections between day numbers
   (all of Z) and valid calendar dates (all years, not only 1..9999).

   Method: inside one 400-year era (146097 days, 400*12*31 candidate dates) the two directions are checked by
   exhaustive computation (a boolean check iterated with Pos.iter and evaluated by vm_compute, lifted to a
   universally quantified statement by the invariant lemma check_below_spec); the reduction of an arbitrary
   year / day number to its era is linear arithmetic with floor division. *)
From Coq Require Import ZArith Bool Lia.
From Verif Require Import model.Civil.
Open Scope Z_scope.

Ltac zdiv := Z.to_euclidean_division_equations; lia.

(* ---- bounded universal quantification by computation -------------------------------------------- *)

Definition check_step (p : Z -> bool) (st : Z * bool) : Z * bool := (fst st + 1, snd st && p (fst st)).
Definition check_below (n : positive) (p : Z -> bool) : bool := snd (Pos.iter (check_step p) (0, true) n).

Lemma check_iter_inv : forall p n,
  fst (Pos.iter (check_step p) (0, true) n) = Z.pos n /\
  (snd (Pos.iter (check_step p) (0, true) n) = true -> forall i, 0 <= i < Z.pos n -> p i = true).
Proof.
  intros p n. induction n as [|n IH] using Pos.peano_ind.
  - cbn. split; [reflexivity|]. intros H i Hi. assert (i = 0) by lia. subst.
    destruct (p 0); [reflexivity|discriminate].
  - rewrite Pos.iter_succ. destruct IH as [IH1 IH2].
    destruct (Pos.iter (check_step p) (0, true) n) as [k b]. cbn [fst snd] in *. unfold check_step. cbn [fst snd].
    split; [lia|]. intros H i Hi. apply andb_true_iff in H. destruct H as [Hb Hp].
    destruct (Z.eq_dec i k) as [->|Hne]; [exact Hp|]. apply IH2; [exact Hb|lia].
Qed.

Lemma check_below_spec : forall n p, check_below n p = true -> forall i, 0 <= i < Z.pos n -> p i = true.
Proof. intros n p H. apply (proj2 (check_iter_inv p n)). exact H. Qed.

(* ---- era-local facts ---------------------------------------------------------------------------- *)

(* month number and year shift of a March-based month *)
Definition m_of_mp (mp : Z) : Z := if mp <? 10 then mp + 3 else mp - 9.
Definition dim_era (yoe mp : Z) : Z := days_in_month (if mp <? 10 then yoe else yoe + 1) (m_of_mp mp).
Definition doe_of (yoe mp d : Z) : Z := yoe * 365 + yoe / 4 - yoe / 100 + mdays mp + d - 1.

Definition chkA (doe : Z) : bool :=
  let yoe := yoe_of_doe doe in
  let doy := doy_of_doe doe in
  let mp := mp_of_doy doy in
  let d := doy - mdays mp + 1 in
  (0 <=? yoe) && (yoe <=? 399) && (0 <=? mp) && (mp <=? 11) && (1 <=? d) && (d <=? dim_era yoe mp).

Definition chkB (i : Z) : bool :=
  let yoe := i / 372 in
  let mp := (i / 31) mod 12 in
  let d := i mod 31 + 1 in
  if d <=? dim_era yoe mp then
    let doe := doe_of yoe mp d in
    (0 <=? doe) && (doe <? 146097) && (yoe_of_doe doe =? yoe) && (doy_of_doe doe =? mdays mp + d - 1)
    && (mp_of_doy (mdays mp + d - 1) =? mp)
  else true.

Lemma chkA_all : check_below 146097 chkA = true.
Proof. vm_cast_no_check (eq_refl true). Qed.

Lemma chkB_all : check_below 148800 chkB = true.
Proof. vm_cast_no_check (eq_refl true). Qed.

Lemma eraA : forall doe, 0 <= doe < 146097 ->
  let yoe := yoe_of_doe doe in
  let doy := doy_of_doe doe in
  let mp := mp_of_doy doy in
  let d := doy - mdays mp + 1 in
  0 <= yoe <= 399 /\ 0 <= mp <= 11 /\ 1 <= d <= dim_era yoe mp.
Proof.
  intros doe H. pose proof (check_below_spec _ _ chkA_all doe H) as C. unfold chkA in C. cbv zeta.
  repeat (apply andb_true_iff in C; destruct C as [C ?]).
  repeat match goal with H : (_ <=? _) = true |- _ => apply Z.leb_le in H end. lia.
Qed.

Lemma eraB : forall yoe mp d, 0 <= yoe <= 399 -> 0 <= mp <= 11 -> 1 <= d <= dim_era yoe mp ->
  let doe := doe_of yoe mp d in
  0 <= doe < 146097 /\ yoe_of_doe doe = yoe /\ doy_of_doe doe = mdays mp + d - 1
  /\ mp_of_doy (mdays mp + d - 1) = mp.
Proof.
  intros yoe mp d Hy Hm Hd.
  assert (Hd31 : d <= 31).
  { destruct Hd as [_ Hd]. unfold dim_era, days_in_month in Hd.
    repeat match type of Hd with context [if ?c then _ else _] => destruct c end; lia. }
  set (i := yoe * 372 + mp * 31 + (d - 1)).
  assert (Hi : 0 <= i < 148800) by (unfold i; lia).
  pose proof (check_below_spec _ _ chkB_all i Hi) as C. unfold chkB in C.
  assert (E1 : i / 372 = yoe) by (unfold i; zdiv).
  assert (E2 : (i / 31) mod 12 = mp) by (unfold i; zdiv).
  assert (E3 : i mod 31 + 1 = d) by (unfold i; zdiv).
  rewrite E1, E2, E3 in C.
  assert (E4 : (d <=? dim_era yoe mp) = true) by (apply Z.leb_le; lia). rewrite E4 in C.
  repeat (apply andb_true_iff in C; destruct C as [C ?]).
  repeat match goal with
         | H : (_ <=? _) = true |- _ => apply Z.leb_le in H
         | H : (_ <? _) = true |- _ => apply Z.ltb_lt in H
         | H : (_ =? _) = true |- _ => apply Z.eqb_eq in H
         end.
  cbv zeta. repeat split; assumption.
Qed.

(* ---- reduction to the era ----------------------------------------------------------------------- *)

Lemma is_leap_era : forall y e, is_leap (y + e * 400) = is_leap y.
Proof.
  intros y e. unfold is_leap.
  replace ((y + e * 400) mod 4) with (y mod 4) by (replace (e * 400) with (e * 100 * 4) by lia; symmetry; apply Z.mod_add; lia).
  replace ((y + e * 400) mod 100) with (y mod 100) by (replace (e * 400) with (e * 4 * 100) by lia; symmetry; apply Z.mod_add; lia).
  replace ((y + e * 400) mod 400) with (y mod 400) by (symmetry; apply Z.mod_add; lia).
  reflexivity.
Qed.

Lemma days_in_month_era : forall y e m, days_in_month (y + e * 400) m = days_in_month y m.
Proof. intros. unfold days_in_month. rewrite is_leap_era. reflexivity. Qed.

Theorem civil_from_days_from_civil : forall y m d, valid_date y m d = true ->
  civil_from_days (days_from_civil y m d) = (y, m, d).
Proof.
  intros y m d V. unfold valid_date in V.
  repeat (apply andb_true_iff in V; destruct V as [V ?]).
  repeat match goal with H : (_ <=? _) = true |- _ => apply Z.leb_le in H end.
  unfold days_from_civil.
  set (y' := if m <=? 2 then y - 1 else y).
  set (era := y' / 400). set (yoe := y' - era * 400).
  set (mp := if m <=? 2 then m + 9 else m - 3).
  assert (Hyoe : 0 <= yoe <= 399) by (unfold yoe, era; zdiv).
  assert (Hmp : 0 <= mp <= 11) by (unfold mp; destruct (m <=? 2) eqn:E; [apply Z.leb_le in E|apply Z.leb_gt in E]; lia).
  assert (Hm : m_of_mp mp = m).
  { unfold m_of_mp, mp. destruct (m <=? 2) eqn:E; [apply Z.leb_le in E|apply Z.leb_gt in E].
    - assert (E' : (m + 9 <? 10) = false) by (apply Z.ltb_ge; lia). rewrite E'. lia.
    - assert (E' : (m - 3 <? 10) = true) by (apply Z.ltb_lt; lia). rewrite E'. lia. }
  assert (Hlt : (mp <? 10) = negb (m <=? 2)).
  { unfold mp. destruct (m <=? 2) eqn:E; [apply Z.leb_le in E|apply Z.leb_gt in E]; cbn [negb];
      [apply Z.ltb_ge|apply Z.ltb_lt]; lia. }
  assert (Hdim : dim_era yoe mp = days_in_month y m).
  { unfold dim_era. rewrite Hm, Hlt. unfold yoe, y'.
    destruct (m <=? 2); cbn [negb].
    - replace (y - 1 - era * 400 + 1) with (y + (- era) * 400) by lia. apply days_in_month_era.
    - replace (y - era * 400) with (y + (- era) * 400) by lia. apply days_in_month_era. }
  assert (Hd : 1 <= d <= dim_era yoe mp) by lia.
  pose proof (eraB yoe mp d Hyoe Hmp Hd) as B. cbv zeta in B. destruct B as (B1 & B2 & B3 & B4).
  fold (doe_of yoe mp d) in *.
  replace (yoe * 365 + yoe / 4 - yoe / 100 + (mdays mp + d - 1)) with (doe_of yoe mp d) by (unfold doe_of; lia).
  set (doe := doe_of yoe mp d) in *.
  unfold civil_from_days.
  replace (era * 146097 + doe - 719468 + 719468) with (doe + era * 146097) by lia.
  assert (Eera : (doe + era * 146097) / 146097 = era) by (rewrite Z.div_add by lia; rewrite Z.div_small by lia; lia).
  rewrite Eera. replace (doe + era * 146097 - era * 146097) with doe by lia.
  rewrite B2, B3, B4. fold (m_of_mp mp). rewrite Hm.
  replace (mdays mp + d - 1 - mdays mp + 1) with d by lia.
  assert (Hy : (if m <=? 2 then yoe + era * 400 + 1 else yoe + era * 400) = y)
    by (unfold yoe, y'; destruct (m <=? 2); lia).
  rewrite Hy. reflexivity.
Qed.

Theorem days_from_civil_from_days : forall z,
  let '(y, m, d) := civil_from_days z in days_from_civil y m d = z /\ valid_date y m d = true.
Proof.
  intros z. unfold civil_from_days.
  set (z' := z + 719468). set (era := z' / 146097). set (doe := z' - era * 146097).
  assert (Hdoe : 0 <= doe < 146097) by (unfold doe, era; zdiv).
  pose proof (eraA doe Hdoe) as A. cbv zeta in A. destruct A as (A1 & A2 & A3).
  set (yoe := yoe_of_doe doe) in *. set (doy := doy_of_doe doe) in *. set (mp := mp_of_doy doy) in *.
  fold (m_of_mp mp). set (d := doy - mdays mp + 1) in *.
  assert (Hm : 1 <= m_of_mp mp <= 12) by (unfold m_of_mp; destruct (mp <? 10) eqn:E; [apply Z.ltb_lt in E|apply Z.ltb_ge in E]; lia).
  assert (Hle : (m_of_mp mp <=? 2) = negb (mp <? 10)).
  { unfold m_of_mp. destruct (mp <? 10) eqn:E; [apply Z.ltb_lt in E|apply Z.ltb_ge in E]; cbn [negb];
      [apply Z.leb_gt|apply Z.leb_le]; lia. }
  split.
  - unfold days_from_civil. rewrite Hle.
    set (y' := if negb (mp <? 10) then (if negb (mp <? 10) then yoe + era * 400 + 1 else yoe + era * 400) - 1
               else (if negb (mp <? 10) then yoe + era * 400 + 1 else yoe + era * 400)).
    assert (Hy' : y' = yoe + era * 400) by (unfold y'; destruct (mp <? 10); cbn [negb]; lia).
    rewrite Hy'. rewrite Z.div_add by lia. rewrite (Z.div_small yoe 400) by lia. rewrite Z.add_0_l.
    replace (yoe + era * 400 - era * 400) with yoe by lia.
    assert (Hmp' : (if negb (mp <? 10) then m_of_mp mp + 9 else m_of_mp mp - 3) = mp).
    { unfold m_of_mp. destruct (mp <? 10); cbn [negb]; lia. }
    rewrite Hmp'.
    assert (Hdoy : doy = doe - (365 * yoe + yoe / 4 - yoe / 100)) by reflexivity.
    unfold d. unfold doe in Hdoy |- *. unfold z' in *. lia.
  - unfold valid_date.
    assert (Hdim : days_in_month (if m_of_mp mp <=? 2 then yoe + era * 400 + 1 else yoe + era * 400) (m_of_mp mp)
                   = dim_era yoe mp).
    { unfold dim_era. rewrite Hle. destruct (mp <? 10); cbn [negb].
      - apply days_in_month_era.
      - replace (yoe + era * 400 + 1) with (yoe + 1 + era * 400) by lia. apply days_in_month_era. }
    rewrite Hdim.
    repeat (apply andb_true_iff; split); apply Z.leb_le; lia.
Qed.

(* two valid dates with the same day number are the same date *)
Corollary days_from_civil_injective : forall y m d y2 m2 d2,
  valid_date y m d = true -> valid_date y2 m2 d2 = true ->
  days_from_civil y m d = days_from_civil y2 m2 d2 -> (y, m, d) = (y2, m2, d2).
Proof.
  intros y m d y2 m2 d2 V1 V2 E. rewrite <- (civil_from_days_from_civil y m d V1), E.
  apply civil_from_days_from_civil. exact V2.
Qed.

Example civil_epoch : civil_from_days 0 = (1970, 1, 1) /\ days_from_civil 2000 2 29 = 11016
  /\ civil_from_days (-719162) = (1, 1, 1) /\ civil_from_days 2932896 = (9999, 12, 31).
Proof. repeat split. Qed.
